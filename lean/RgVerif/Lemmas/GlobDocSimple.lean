import RgVerif.Lemmas.GlobSem
import RgVerif.Spec.GlobDoc
/-
C12_doc on the wildcard grammar: literals, `?`, `*` (single), `\x` escapes (or a literal backslash when
escapes are off), under all four option flags.  The parser of `glob.rs` and the documentation's reading
produce the same pieces, and the regex meaning of the tokens (`tokensK`) is the documented meaning
(`atomsMatch`): `?` is one byte, `*` any run of bytes, neither crossing `/` under `literal_separator`,
ASCII case folding under `case_insensitive`.
-/
namespace RgVerif.Glob
open RgVerif RgVerif.GlobDoc

def docOpts (o : Opts) : DocOpts := { ci := o.ci, ls := o.ls, be := o.be, ea := o.ea }

def okChar (c : Nat) : Bool := decide (c < 128) && !(c == 91 || c == 123 || c == 125 || c == 44)

/-- the token a single unescaped character of the wildcard grammar stands for -/
def tokOf (c : Nat) : Tok := if c == 63 then .any else if c == 42 then .star else .lit c

/-- the wildcard grammar (no classes, no braces, no `,`, no `**`, ASCII) -/
def simpleGlob (be : Bool) : List Nat → Bool
  | [] => true
  | [c] => okChar c && !(c == 92 && be)
  | c :: e :: g =>
    if c == 92 && be then decide (e < 128) && simpleGlob be g
    else okChar c && !(c == 42 && e == 42) && simpleGlob be (e :: g)

/-- the pieces of a glob of the wildcard grammar -/
def simpleToks (be : Bool) : List Nat → List Tok
  | [] => []
  | [c] => if c == 92 && be then [] else [tokOf c]
  | c :: e :: g =>
    if c == 92 && be then .lit e :: simpleToks be g
    else tokOf c :: simpleToks be (e :: g)

def trAtom : Tok → Atom
  | .lit c => .lit c
  | .any => .any
  | .star => .star
  | .recPrefix => .dirs
  | .recSuffix => .rest
  | .recZero => .dirs
  | .cls n r => .cls n r

/-! ### the parser on the wildcard grammar -/

theorem parseStar_single (st : PState) (prev : Option Nat) (rest : List Nat) (h : rest.head? ≠ some 42) :
    parseStar st prev rest = (st.push .star, rest) := by
  unfold parseStar
  cases rest with
  | nil => rfl
  | cons c r =>
    have : c ≠ 42 := by intro hc; apply h; simp [hc]
    split
    · rename_i heq; simp at heq; exact absurd heq.1 this
    · rfl

theorem push_outer (st : PState) (hb : st.branches = []) (t : Tok) :
    st.push t = { st with outer := st.outer ++ [.s t] } := by
  simp [PState.push, hb]

/-- one unescaped character of the wildcard grammar that is not followed by a second `*` -/
theorem parseLoop_step (o : Opts) (c : Nat) (rest : List Nat) (fuel : Nat) (st : PState)
    (hb : st.branches = []) (hok : okChar c = true) (hesc : (c == 92 && o.be) = false)
    (hss : ¬ (c = 42 ∧ rest.head? = some 42)) :
    parseLoop o (fuel + 1) st (c :: rest) =
      parseLoop o fuel { outer := st.outer ++ [.s (tokOf c)], branches := [], cur := some c } rest := by
  simp only [okChar, Bool.and_eq_true, decide_eq_true_eq, Bool.not_eq_eq_eq_not, Bool.not_true,
    Bool.or_eq_false_iff, beq_eq_false_iff_ne, ne_eq] at hok
  obtain ⟨_, ⟨⟨h91, h123⟩, h125⟩, h44⟩ := hok
  generalize hR : parseLoop o fuel { outer := st.outer ++ [.s (tokOf c)], branches := [], cur := some c } rest = R
  unfold parseLoop
  by_cases h63 : c = 63
  · subst h63
    simp only [BEq.rfl, ↓reduceIte, PState.push, hb]
    rw [← hR]; simp [tokOf, hb]
  · by_cases h42 : c = 42
    · subst h42
      have hh : rest.head? ≠ some 42 := fun h => hss ⟨rfl, h⟩
      simp only [Nat.reduceBEq, Bool.false_eq_true, ↓reduceIte, BEq.rfl]
      rw [parseStar_single _ _ _ hh]
      simp only [PState.push, hb]
      rw [← hR]; simp [tokOf, hb]
    · by_cases h92 : c = 92
      · subst h92
        have hbe : o.be = false := by simpa using hesc
        simp only [Nat.reduceBEq, Bool.false_eq_true, ↓reduceIte, BEq.rfl, hbe, PState.push, hb]
        rw [← hR]; simp [tokOf, hb]
      · simp only [beq_iff_eq, h63, h42, h92, h91, h123, h125, h44, ↓reduceIte, PState.push, hb]
        rw [← hR]; simp [tokOf, hb, h63, h42]

theorem parseLoop_simple (o : Opts) (g : List Nat) (hg : simpleGlob o.be g = true)
    (fuel : Nat) (st : PState) (hb : st.branches = []) (hf : g.length < fuel) :
    parseLoop o fuel st g =
      .ok { outer := st.outer ++ (simpleToks o.be g).map Token.s, branches := [], cur := none } := by
  induction g using simpleToks.induct (be := o.be) generalizing fuel st with
  | case1 =>
    cases fuel with
    | zero => omega
    | succ fuel => simp [parseLoop, simpleToks, hb]
  | case2 c hesc =>
    -- dangling escape: excluded
    simp [simpleGlob, hesc] at hg
  | case3 c hesc =>
    cases fuel with
    | zero => simp at hf
    | succ fuel =>
      have hesc' : (c == 92 && o.be) = false := by simpa using hesc
      simp only [simpleGlob, Bool.and_eq_true, hesc', Bool.not_false, and_true] at hg
      rw [parseLoop_step o c [] fuel st hb hg hesc' (by simp)]
      cases fuel with
      | zero => simp at hf
      | succ fuel => simp [parseLoop, simpleToks, hesc']
  | case4 c e g hesc ih =>
    -- `\e`
    simp only [Bool.and_eq_true, beq_iff_eq] at hesc
    obtain ⟨rfl, hbe⟩ := hesc
    simp only [simpleGlob, BEq.rfl, hbe, Bool.and_self, ↓reduceIte, Bool.and_eq_true,
      decide_eq_true_eq] at hg
    cases fuel with
    | zero => simp at hf
    | succ fuel =>
      have hrec := ih (by rw [hbe]; exact hg.2) fuel { outer := st.outer ++ [.s (.lit e)], branches := [], cur := some e } rfl
        (by simp at hf; omega)
      unfold parseLoop
      simp only [Nat.reduceBEq, Bool.false_eq_true, ↓reduceIte, BEq.rfl, hbe, PState.push, hb]
      simp only [hb] at hrec ⊢
      rw [hrec]
      simp [simpleToks, hbe]
  | case5 c e g hesc ih =>
    have hesc' : (c == 92 && o.be) = false := by simpa using hesc
    simp only [simpleGlob, hesc', Bool.false_eq_true, ↓reduceIte, Bool.and_eq_true,
      Bool.not_eq_eq_eq_not, Bool.not_true, Bool.and_eq_false_iff, beq_eq_false_iff_ne, ne_eq] at hg
    cases fuel with
    | zero => simp at hf
    | succ fuel =>
      rw [parseLoop_step o c (e :: g) fuel st hb hg.1.1 hesc' (by
        rintro ⟨h1, h2⟩
        simp only [List.head?_cons, Option.some.injEq] at h2
        rcases hg.1.2 with h | h
        · exact h h1
        · exact h h2)]
      rw [ih hg.2 fuel _ rfl (by simp at hf; omega)]
      simp [simpleToks, hesc']

theorem parse_simple (o : Opts) (g : List Nat) (hg : simpleGlob o.be g = true) :
    parse o g = .ok ((simpleToks o.be g).map Token.s) := by
  unfold parse
  rw [parseLoop_simple o g hg _ _ rfl (by omega)]
  simp [PState.depth]

/-! ### the documentation's reading of the wildcard grammar -/

def itemsOf (ts : List Tok) : List Item := ts.map fun t => Item.a (trAtom t)

theorem lexGo_step (o : DocOpts) (c : Nat) (rest : List Nat) (st : LexSt)
    (hbr : st.br = none) (hcls : st.cls = none)
    (hok : okChar c = true) (hesc : (c == 92 && o.be) = false)
    (hss : ¬ (c = 42 ∧ rest.head? = some 42)) :
    ∃ cs, lexGo o (c :: rest) st =
      lexGo o rest { items := st.items ++ [.a (trAtom (tokOf c))], br := none, cls := none, compStart := cs } := by
  simp only [okChar, Bool.and_eq_true, decide_eq_true_eq, Bool.not_eq_eq_eq_not, Bool.not_true,
    Bool.or_eq_false_iff, beq_eq_false_iff_ne, ne_eq] at hok
  obtain ⟨hlt, ⟨⟨h91, h123⟩, h125⟩, h44⟩ := hok
  have hge : ¬ c ≥ 128 := by omega
  rw [lexGo.eq_def]
  simp only [hge, ↓reduceIte, hcls]
  by_cases h63 : c = 63
  · subst h63
    exact ⟨false, by simp [LexSt.push, hbr, tokOf, trAtom, hcls]⟩
  · by_cases h42 : c = 42
    · subst h42
      have hh : (rest.head? == some 42) = false := by
        simp only [beq_eq_false_iff_ne, ne_eq]; exact fun h => hss ⟨rfl, h⟩
      exact ⟨false, by simp [LexSt.push, hbr, tokOf, trAtom, hh, hcls]⟩
    · by_cases h92 : c = 92
      · subst h92
        have hbe : o.be = false := by simpa using hesc
        exact ⟨false, by simp [LexSt.push, hbr, tokOf, trAtom, hbe, hcls]⟩
      · exact ⟨(c == 47 && st.br.isNone), by
          simp [LexSt.push, hbr, tokOf, trAtom, h63, h42, h92, h91, h123, h125, h44, hcls]⟩

theorem lexGo_simple (o : DocOpts) (g : List Nat) (hg : simpleGlob o.be g = true) (st : LexSt)
    (hbr : st.br = none) (hcls : st.cls = none) :
    lexGo o g st = some (st.items ++ itemsOf (simpleToks o.be g)) := by
  induction g using simpleToks.induct (be := o.be) generalizing st with
  | case1 =>
    rw [lexGo.eq_def]; simp [hbr, hcls, simpleToks, itemsOf]
  | case2 c hesc => simp [simpleGlob, hesc] at hg
  | case3 c hesc =>
    have hesc' : (c == 92 && o.be) = false := by simpa using hesc
    simp only [simpleGlob, Bool.and_eq_true, hesc', Bool.not_false, and_true] at hg
    obtain ⟨cs, hstep⟩ := lexGo_step o c [] st hbr hcls hg hesc' (by simp)
    rw [hstep, lexGo.eq_def]
    simp [simpleToks, hesc', itemsOf]
  | case4 c e g hesc ih =>
    simp only [Bool.and_eq_true, beq_iff_eq] at hesc
    obtain ⟨rfl, hbe⟩ := hesc
    simp only [simpleGlob, BEq.rfl, hbe, Bool.and_self, ↓reduceIte, Bool.and_eq_true,
      decide_eq_true_eq] at hg
    have hge : ¬ e ≥ 128 := by omega
    rw [lexGo.eq_def]
    simp only [show ¬ (92 : Nat) ≥ 128 by omega, ↓reduceIte, hcls, Nat.reduceBEq, Bool.false_eq_true,
      BEq.rfl, hbe, hge]
    rw [ih (by rw [hbe]; exact hg.2) _ (by simp [LexSt.push, hbr]) (by simp [LexSt.push, hbr, hcls])]
    simp [simpleToks, hbe, itemsOf, LexSt.push, hbr, trAtom]
  | case5 c e g hesc ih =>
    have hesc' : (c == 92 && o.be) = false := by simpa using hesc
    simp only [simpleGlob, hesc', Bool.false_eq_true, ↓reduceIte, Bool.and_eq_true,
      Bool.not_eq_eq_eq_not, Bool.not_true, Bool.and_eq_false_iff, beq_eq_false_iff_ne, ne_eq] at hg
    obtain ⟨cs, hstep⟩ := lexGo_step o c (e :: g) st hbr hcls hg.1.1 hesc' (by
      rintro ⟨h1, h2⟩
      simp only [List.head?_cons, Option.some.injEq] at h2
      rcases hg.1.2 with h | h
      · exact h h1
      · exact h h2)
    rw [hstep, ih hg.2 _ rfl rfl]
    simp [simpleToks, hesc', itemsOf]

theorem expand_atoms (o : DocOpts) (ts : List Tok) :
    expand o (itemsOf ts) = some [ts.map trAtom] := by
  induction ts with
  | nil => rfl
  | cons t ts ih =>
    simp only [itemsOf, List.map_cons, expand] at ih ⊢
    rw [ih]; rfl

/-- no token of the wildcard grammar is a `**` -/
theorem simpleToks_no_dirs (be : Bool) (g : List Nat) :
    ∀ t ∈ simpleToks be g, trAtom t ≠ Atom.dirs := by
  induction g using simpleToks.induct (be := be) with
  | case1 => simp [simpleToks]
  | case2 c hesc => simp [simpleToks, hesc]
  | case3 c hesc =>
    have hesc' : (c == 92 && be) = false := by simpa using hesc
    simp only [simpleToks, hesc', Bool.false_eq_true, ↓reduceIte, List.mem_singleton, forall_eq]
    unfold tokOf; split <;> (try split) <;> simp [trAtom]
  | case4 c e g hesc ih =>
    simp only [simpleToks, hesc, ↓reduceIte, List.mem_cons, forall_eq_or_imp]
    exact ⟨by simp [trAtom], ih⟩
  | case5 c e g hesc ih =>
    have hesc' : (c == 92 && be) = false := by simpa using hesc
    simp only [simpleToks, hesc', Bool.false_eq_true, ↓reduceIte, List.mem_cons, forall_eq_or_imp]
    refine ⟨?_, ih⟩
    unfold tokOf; split <;> (try split) <;> simp [trAtom]

theorem docLex_simple (o : DocOpts) (g : List Nat) (hg : simpleGlob o.be g = true) :
    docLex o g = some [(simpleToks o.be g).map trAtom] := by
  unfold docLex
  rw [lexGo_simple o g hg _ rfl rfl]
  simp only [List.nil_append]
  have hod : onlyDirs (itemsOf (simpleToks o.be g)) = false := by
    unfold onlyDirs itemsOf
    cases hts : simpleToks o.be g with
    | nil => simp
    | cons t ts =>
      have := simpleToks_no_dirs o.be g t (by rw [hts]; simp)
      simp only [List.map_cons, List.isEmpty_cons, Bool.not_false, List.all_cons, Bool.true_and,
        Bool.and_eq_false_iff]
      left
      simp only [beq_eq_false_iff_ne, ne_eq, Item.a.injEq]
      exact this
  rw [hod]
  exact expand_atoms o _

/-! ### regex meaning = documented meaning, token by token -/

def simpleTok : Tok → Bool
  | .lit c => decide (c < 128)
  | .any => true
  | .star => true
  | _ => false

theorem simpleToks_simple (be : Bool) (g : List Nat) (hg : simpleGlob be g = true) :
    ∀ t ∈ simpleToks be g, simpleTok t = true := by
  have htok : ∀ c, okChar c = true → simpleTok (tokOf c) = true := by
    intro c hc
    simp only [okChar, Bool.and_eq_true, decide_eq_true_eq] at hc
    unfold tokOf; split <;> (try split) <;> simp [simpleTok, hc.1]
  induction g using simpleToks.induct (be := be) with
  | case1 => simp [simpleToks]
  | case2 c hesc => simp [simpleToks, hesc]
  | case3 c hesc =>
    have hesc' : (c == 92 && be) = false := by simpa using hesc
    simp only [simpleGlob, Bool.and_eq_true, hesc', Bool.not_false, and_true] at hg
    simp only [simpleToks, hesc', Bool.false_eq_true, ↓reduceIte, List.mem_singleton, forall_eq]
    exact htok c hg
  | case4 c e g hesc ih =>
    simp only [simpleGlob, hesc, ↓reduceIte, Bool.and_eq_true, decide_eq_true_eq] at hg
    simp only [simpleToks, hesc, ↓reduceIte, List.mem_cons, forall_eq_or_imp]
    exact ⟨by simp [simpleTok, hg.1], ih hg.2⟩
  | case5 c e g hesc ih =>
    have hesc' : (c == 92 && be) = false := by simpa using hesc
    simp only [simpleGlob, hesc', Bool.false_eq_true, ↓reduceIte, Bool.and_eq_true] at hg
    simp only [simpleToks, hesc', Bool.false_eq_true, ↓reduceIte, List.mem_cons, forall_eq_or_imp]
    exact ⟨htok c hg.1.1, ih hg.2⟩

theorem star_any_eq (ok : Nat → Bool) (k : Bytes → Bool) (p : Bytes) :
    (starRests ok p).any k = (splits p).any fun xr => xr.1.all ok && k xr.2 := by
  induction p with
  | nil => simp [starRests, splits]
  | cons b p ih =>
    simp only [starRests, splits, List.any_cons, List.all_nil, Bool.true_and, List.any_map]
    congr 1
    cases hb : ok b
    · simp [Function.comp, hb]
    · simp only [↓reduceIte, ih]
      congr 1
      funext xr
      simp [Function.comp, hb]

theorem sameChar_eq (o : Opts) (c b : Nat) : sameChar (docOpts o) c b = eqB o.ci c b := by
  unfold sameChar eqB docOpts
  cases o.ci <;> rfl

theorem wild_eq (o : Opts) (b : Nat) : wild (docOpts o) b = anyOk o b := rfl

/-- **`?` is one byte, `*` any run of bytes, neither crosses `/` under `literal_separator`, literals fold ASCII
case under `case_insensitive`**: the regex meaning of the tokens is the documented meaning of the atoms -/
theorem tokensK_eq_atomsMatch (o : Opts) (ts : List Tok) (hts : ∀ t ∈ ts, simpleTok t = true) (p : Bytes) :
    tokensK o (ts.map Token.s) (fun r => r.isEmpty) p = atomsMatch (docOpts o) (ts.map trAtom) p := by
  induction ts generalizing p with
  | nil => simp [tokensK, atomsMatch]
  | cons t ts ih =>
    have ih' := fun p => ih (fun t ht => hts t (by simp [ht])) p
    have ht := hts t (by simp)
    cases t with
    | lit c =>
      have hc : c < 128 := by simpa [simpleTok] using ht
      simp only [List.map_cons, tokensK, tokRests, trAtom, utf8Enc, hc, ↓reduceIte]
      cases p with
      | nil => simp [litRest, atomsMatch]
      | cons b p =>
        simp only [litRest, atomsMatch, sameChar_eq]
        cases h : eqB o.ci c b <;> simp [ih']
    | any =>
      simp only [List.map_cons, trAtom]
      cases p with
      | nil => simp [tokensK, tokRests, atomsMatch]
      | cons b p =>
        simp only [tokensK, tokRests, atomsMatch, wild_eq]
        cases h : anyOk o b <;> simp [ih']
    | star =>
      simp only [List.map_cons, trAtom, tokensK, tokRests, atomsMatch]
      rw [star_any_eq]
      congr 1
      funext xr
      simp only [ih']
      congr 1
    | recPrefix => simp [simpleTok] at ht
    | recSuffix => simp [simpleTok] at ht
    | recZero => simp [simpleTok] at ht
    | cls n r => simp [simpleTok] at ht

/-- **C12_doc on the wildcard grammar** -/
theorem doc_simple (o : Opts) (g : List Nat) (hg : simpleGlob o.be g = true) (p : Bytes) :
    ∃ toks, parse o g = .ok toks ∧ okGlob (docOpts o) g = true ∧
      tokMatch o toks p = docMatch (docOpts o) g p := by
  refine ⟨(simpleToks o.be g).map Token.s, parse_simple o g hg, ?_, ?_⟩
  · simp [okGlob, docLex_simple (docOpts o) g hg]
  · unfold docMatch
    rw [docLex_simple (docOpts o) g hg]
    simp only [List.any_cons, List.any_nil, Bool.or_false]
    have hne : (simpleToks o.be g).map Token.s ≠ [.s .recPrefix] := by
      intro h
      cases hts : simpleToks o.be g with
      | nil => simp [hts] at h
      | cons t ts =>
        have := simpleToks_simple o.be g hg t (by rw [hts]; simp)
        rw [hts] at h
        simp only [List.map_cons, List.cons.injEq, Token.s.injEq] at h
        rw [h.1] at this
        simp [simpleTok] at this
    rw [tokMatch_eq _ _ _ hne]
    exact tokensK_eq_atomsMatch o _ (simpleToks_simple o.be g hg) p

end RgVerif.Glob
