import RgVerif.Lemmas.HirContextU
/-
One direction of clause (b) without the continuation-byte guard: a match of the line taken alone is a
match in the buffer (what the searcher needs once it re-judges candidate lines itself, /repo 4165f41).
-/
set_option linter.unusedSectionVars false
namespace RgVerif.Rx
open RgVerif

section
variable {buf : Bytes} {ls le : Nat}

theorem backStart_allcont (L : Bytes) : ∀ (fuel st : Nat), st ≤ fuel →
    (∀ x, x ≤ st → isContByte (L.getD x 0) = true) → backStart L 0 fuel st = 0 := by
  intro fuel
  induction fuel with
  | zero => intro st h _; simp only [backStart]; omega
  | succ f ih =>
    intro st h hc
    simp only [backStart]
    by_cases h0 : st = 0
    · subst h0; simp
    · have hcs := hc st (Nat.le_refl _)
      unfold isContByte at hcs
      have hgt : decide (st > 0) = true := decide_eq_true (by omega)
      rw [hgt, hcs]
      simp only [Bool.and_self, if_true]
      exact ih (st - 1) (by omega) (fun x hx => hc x (by omega))

theorem backStart_to_lf (B : Bytes) (limit : Nat) (hls : 1 ≤ ls) (hlim : limit ≤ ls - 1)
    (hlf : B.getD (ls - 1) 0 = 10) : ∀ (fuel st : Nat), ls - 1 ≤ st → st - (ls - 1) ≤ fuel →
    (∀ x, ls ≤ x → x ≤ st → isContByte (B.getD x 0) = true) → backStart B limit fuel st = ls - 1 := by
  intro fuel
  induction fuel with
  | zero => intro st h1 h2 _; simp only [backStart]; omega
  | succ f ih =>
    intro st h1 h2 hc
    simp only [backStart]
    by_cases hs : st = ls - 1
    · subst hs
      rw [hlf]; simp
    · have hcs := hc st (by omega) (Nat.le_refl _)
      unfold isContByte at hcs
      have hgt : decide (st > limit) = true := decide_eq_true (by omega)
      rw [hgt, hcs]
      simp only [Bool.and_self, if_true]
      exact ih (st - 1) (by omega) (by omega) (fun x hx1 hx2 => hc x hx1 (by omega))

/-- the F24 zone: the line starts with 1–3 continuation bytes and `p` lies right behind them -/
def ContZone (buf : Bytes) (ls p : Nat) : Prop :=
  ls < p ∧ p ≤ ls + 3 ∧ ∀ x, ls ≤ x → x < p → isContByte (buf.getD x 0) = true

theorem not_contZone {p : Nat} (h1 : ls < p) (h : ¬ ContZone buf ls p) :
    (∃ q, ls ≤ q ∧ q < p ∧ isContByte (buf.getD q 0) = false) ∨ ls + 4 ≤ p := by
  by_cases hp : ls + 4 ≤ p
  · exact Or.inr hp
  · left
    apply Classical.byContradiction
    intro hne
    apply h
    refine ⟨h1, by omega, ?_⟩
    intro x hx1 hx2
    cases hc : isContByte (buf.getD x 0) with
    | true => rfl
    | false => exact absurd ⟨x, hx1, hx2, hc⟩ hne

/-- in the zone the line alone cannot decode backwards … -/
theorem decodeLast_zone_line {p : Nat} (hlen : le ≤ buf.length) (h2 : p ≤ le) (hz : ContZone buf ls p) :
    decodeLast ((slice buf ls le).take (p - ls)) = some none := by
  obtain ⟨h1, h3, hc⟩ := hz
  rw [slice_take h2]
  have hL : (slice buf ls p).length = p - ls := slice_length buf ls p (by omega)
  have hget : ∀ x, x < p - ls → (slice buf ls p).getD x 0 = buf.getD (ls + x) 0 := by
    intro x hx
    rw [List.getD_eq_getElem?_getD, List.getD_eq_getElem?_getD, slice_getElem?, if_pos hx]
  unfold decodeLast
  have e2 : (slice buf ls p).isEmpty = false := by
    cases h : slice buf ls p with
    | nil => rw [h] at hL; simp at hL; omega
    | cons _ _ => rfl
  rw [e2]
  simp only [Bool.false_eq_true, if_false]
  rw [hL, show p - ls - 4 = 0 by omega]
  rw [backStart_allcont (slice buf ls p) 3 (p - ls - 1) (by omega)
    (fun x hx => by rw [hget x (by omega)]; exact hc (ls + x) (by omega) (by omega))]
  rw [List.drop_zero]
  cases hs : slice buf ls p with
  | nil => rw [hs] at hL; simp at hL; omega
  | cons b0 rest =>
    have hb0 : isContByte b0 = true := by
      have := hget 0 (by omega)
      rw [hs] at this
      simp only [List.getD_cons_zero, Nat.add_zero] at this
      rw [this]; exact hc ls (Nat.le_refl _) h1
    unfold isContByte at hb0
    simp only [Bool.and_eq_true, decide_eq_true_eq] at hb0
    have hu : u8len b0 = none := by
      unfold u8len
      rw [if_neg (by omega), if_pos (by omega)]
    simp only [decodeFwd, hu]

/-- … while in the buffer the walk lands on the previous line's terminator -/
theorem decodeLast_zone_buf {p : Nat} (hlen : le ≤ buf.length) (h2 : p ≤ le) (hls : ls ≠ 0)
    (hbefore : ls = 0 ∨ buf[ls - 1]? = some 10) (hz : ContZone buf ls p) :
    decodeLast (buf.take p) = some (some 10) := by
  obtain ⟨h1, h3, hc⟩ := hz
  have hB : (buf.take p).length = p := by rw [List.length_take]; omega
  have hget : ∀ x, x < p → (buf.take p).getD x 0 = buf.getD x 0 := by
    intro x hx
    rw [List.getD_eq_getElem?_getD, List.getD_eq_getElem?_getD, List.getElem?_take, if_pos hx]
  have hlf : (buf.take p).getD (ls - 1) 0 = 10 := by
    rw [hget _ (by omega)]; exact ctx_before10 hbefore hls
  unfold decodeLast
  have e1 : (buf.take p).isEmpty = false := by
    cases h : buf.take p with
    | nil => rw [h] at hB; simp at hB; omega
    | cons _ _ => rfl
  rw [e1]
  simp only [Bool.false_eq_true, if_false]
  rw [hB]
  rw [backStart_to_lf (buf.take p) (p - 4) (by omega) (by omega) hlf 3 (p - 1) (by omega) (by omega)
    (fun x hx1 hx2 => by rw [hget x (by omega)]; exact hc x hx1 (by omega))]
  have hlt : ls - 1 < (buf.take p).length := by omega
  rw [List.drop_eq_getElem_cons hlt]
  have : (buf.take p)[ls - 1] = 10 := by
    rw [List.getD_eq_getElem?_getD, List.getElem?_eq_getElem hlt] at hlf
    simpa using hlf
  rw [this]
  exact decodeFwd_lf _

variable (isWord : Nat → Bool) (hw : isWord 10 = false) {fol : Nat → Bool}
  (hf : ∀ r, fol r = true → r < 128 ∧ isWord r = false)
include hw hf

/-- what is left of the backward facts without the guard: the word test agrees, and the "cannot decode"
test can only turn from true (line alone) to false (buffer) -/
theorem rev_facts (hl : Win fol buf ls le) {p : Nat} (h1 : ls ≤ p) (h2 : p ≤ le) :
    wordRev isWord buf p = wordRev isWord (slice buf ls le) (p - ls) ∧
    ((decide (p > 0) && !isOkDecode (decodeLast (buf.take p))) =
        (decide (p - ls > 0) && !isOkDecode (decodeLast ((slice buf ls le).take (p - ls)))) ∨
      ((decide (p > 0) && !isOkDecode (decodeLast (buf.take p))) = false ∧
        (decide (p - ls > 0) && !isOkDecode (decodeLast ((slice buf ls le).take (p - ls)))) = true)) := by
  by_cases hp : p = ls
  · subst hp
    constructor
    · unfold wordRev
      rw [Nat.sub_self, List.take_zero]
      by_cases h0 : p = 0
      · subst h0; rfl
      · rw [take_ends_lf hl.le_len hl.ls_le hl.before h0]
        simp [decodeLast, hw]
    · left
      have b : decide (p - p > 0) = false := by simp
      rw [b, Bool.false_and]
      by_cases h0 : p = 0
      · subst h0; rfl
      · rw [take_ends_lf hl.le_len hl.ls_le hl.before h0]; simp [isOkDecode]
  · by_cases hz : ContZone buf ls p
    · by_cases h0 : ls = 0
      · -- the line is the start of the buffer: the two contexts coincide
        subst h0
        have e : (slice buf 0 le).take (p - 0) = buf.take p := by
          rw [slice_take h2]; unfold slice; simp
        have e' : slice buf 0 le = buf.take le := by unfold slice; simp
        constructor
        · unfold wordRev; rw [Nat.sub_zero] at e ⊢; rw [e', List.take_take, Nat.min_eq_left h2]
        · left; rw [e, Nat.sub_zero]
      · have eb := decodeLast_zone_buf hl.le_len h2 h0 hl.before hz
        have el := decodeLast_zone_line hl.le_len h2 hz
        constructor
        · unfold wordRev; rw [eb, el]; simp [hw]
        · right
          rw [eb, el]
          have a : decide (p - ls > 0) = true := decide_eq_true (by omega)
          simp [isOkDecode, a]
    · have he := decodeLast_ctx_gen hl.le_len (by omega : ls < p) h2 (not_contZone (by omega) hz)
      constructor
      · unfold wordRev; rw [he]
      · left
        rw [he]
        have a : decide (p > 0) = true := decide_eq_true (by omega)
        have b : decide (p - ls > 0) = true := decide_eq_true (by omega)
        rw [a, b]

/-- **all six Unicode word assertions lift** from the line alone to the buffer, on every line window -/
theorem lookAt_lift_unicode (hl : Win fol buf ls le) (k : Look) (hk : safeLookU k = true) :
    LiftLook (lookAt isWord) buf ls le k := by
  intro p h1 h2
  obtain ⟨r1, r2⟩ := rev_facts isWord hw hf hl h1 h2
  have e2 := ctx_wordFwd isWord hw hf hl h1 h2
  have e4 := ctx_okFwd isWord hw hf hl h1 h2
  have e6 := ctx_ltFwd isWord hw hf hl h1 h2
  have hgt : (decide (p > 0) && wordRev isWord buf p) =
      (decide (p - ls > 0) && wordRev isWord (slice buf ls le) (p - ls)) := by
    rw [r1]
    by_cases hp : p = ls
    · subst hp; rw [Nat.sub_self]; simp [wordRev, decodeLast]
    · have a : decide (p > 0) = true := decide_eq_true (by omega)
      have b : decide (p - ls > 0) = true := decide_eq_true (by omega)
      rw [a, b]
  cases k <;> simp only [safeLookU] at hk <;> first | (cases hk) | skip
  all_goals simp only [lookAt]
  · rw [r1, e2]; exact id
  · rw [e4, hgt, e6]
    rcases r2 with r2 | ⟨r2a, r2b⟩
    · rw [r2]; exact id
    · rw [r2b]; intro h; simp at h
  · rw [r1, e2]; exact id
  · rw [r1, e2]; exact id
  · rw [hgt]
    rcases r2 with r2 | ⟨r2a, r2b⟩
    · rw [r2]; exact id
    · rw [r2b]; intro h; simp at h
  · rw [e4, e6]; exact id

end
end RgVerif.Rx
