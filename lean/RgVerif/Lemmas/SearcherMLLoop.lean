import RgVerif.Lemmas.SearcherML
import RgVerif.Lemmas.SearcherMLBlocks
/-
The control flow of `MultiLine::run` without inversion, for an arbitrary invariant: the loop and the final flush
hand the merged line ranges, one after the other, to `sink_context` + `sink_matched`.
-/
namespace RgVerif.Searcher
open RgVerif RgVerif.Matcher RgVerif.Lines RgVerif.GrepSpec RgVerif.MLSpec

/-- the merged line ranges still to be delivered: the pending one followed by those of the matches to come -/
def fullFrom (cfg : Config) (m : MatcherI) (inp : Bytes) (fuel : Nat) (s : ML) : List Span :=
  mergeTouching (pendingList s ++
    (matchesFrom (m.findAt inp) inp.length fuel s.core.pos).map (locate inp cfg.lineTerm.asByte))

theorem mlAdvance_eq (inp : Bytes) (st : Core) (mat : Span) :
    mlAdvance inp st mat = { st with pos := nextPos inp.length mat } := by
  unfold mlAdvance nextPos
  dsimp only
  split <;> rfl

theorem mergeAcc_cons (p : Span) : ∀ (rest : List Span), ∃ r rem, mergeAcc p rest = r :: rem := by
  intro rest
  induction rest generalizing p with
  | nil => exact ⟨p, [], rfl⟩
  | cons r rest ih =>
    unfold mergeAcc
    split
    · exact ih _
    · exact ⟨p, _, rfl⟩

theorem fullFrom_nomatch (cfg : Config) (m : MatcherI) (inp : Bytes) (fuel : Nat) (s : ML)
    (h : matchesFrom (m.findAt inp) inp.length fuel s.core.pos = []) :
    fullFrom cfg m inp fuel s = pendingList s := by
  unfold fullFrom
  rw [h, List.map_nil, List.append_nil]
  unfold pendingList
  cases s.lastMatch with
  | none => rw [mergeTouching_nil]
  | some r => rw [mergeTouching_single]

section
variable {cfg : Config} (m : MatcherI) (inp : Bytes) (I : List Span → Core → Prop)

/-- what the invariant has to provide -/
structure BlockInv : Prop where
  pos : ∀ rem st x, I rem st → I rem { st with pos := x }
  ne : ∀ r r' rem st, I (r :: r' :: rem) st → nonEmpty r = true
  step : ∀ r rem st, I (r :: rem) st → nonEmpty r = true →
    ∃ st1 st2, mlSinkContext cfg allCont inp st r = (st1, .ok true) ∧
      mlSinkMatched cfg allCont inp st1 r = (st2, .ok true) ∧ st2.pos = st.pos ∧ I rem st2
  last : ∀ r st, I [r] st → nonEmpty r = false → I [] st

variable {m inp I}

theorem flush_inv (hB : BlockInv (cfg := cfg) inp I) (s : ML) (hI : I (pendingList s) s.core) :
    ∃ st', mlFlush cfg allCont inp s true = (st', .ok true) ∧ I [] st' ∧ st'.pos = s.core.pos := by
  cases hl : s.lastMatch with
  | none =>
    refine ⟨s.core, by simp [mlFlush, hl], ?_, rfl⟩
    simpa [pendingList, hl] using hI
  | some r =>
    have hI' : I [r] s.core := by simpa [pendingList, hl] using hI
    by_cases hne : nonEmpty r = true
    · have he : ¬ (r.e - r.s == 0) = true := by simpa [nonEmpty] using hne
      obtain ⟨st1, st2, e1, e2, hp2, h2⟩ := hB.step r [] s.core hI' hne
      refine ⟨st2, ?_, h2, hp2⟩
      unfold mlFlush; simp only [if_true, hl, if_neg he, e1, e2]
    · have he : (r.e - r.s == 0) = true := by simpa [nonEmpty] using hne
      refine ⟨s.core, ?_, hB.last r s.core hI' (by simpa using hne), rfl⟩
      unfold mlFlush; simp only [if_true, hl, if_pos he]

/-- **the loop and the final flush deliver the merged ranges one by one** -/
theorem mlRun_inv (hinv : cfg.invertMatch = false) (hB : BlockInv (cfg := cfg) inp I) (hsane : SpanSane m inp) :
    ∀ (fuel : Nat) (s : ML), I (fullFrom cfg m inp fuel s) s.core →
      ∃ st', mlRun cfg m inp fuel s = (st', .ok true) ∧ I [] st' ∧
        (s.core.pos ≤ inp.length → inp.length ≤ s.core.pos + fuel → st'.pos = inp.length) := by
  intro fuel
  induction fuel with
  | zero =>
    intro s hs
    rw [mlRun_zero]
    rw [fullFrom_nomatch cfg m inp 0 s rfl] at hs
    obtain ⟨st', e, hI', hp⟩ := flush_inv hB s hs
    exact ⟨st', e, hI', fun h1 h2 => by rw [hp]; omega⟩
  | succ fuel ih =>
    intro s hs
    by_cases hpos : s.core.pos ≥ inp.length
    · rw [mlRun_done cfg m inp fuel s hpos]
      rw [fullFrom_nomatch cfg m inp (fuel + 1) s (matchesFrom_done _ _ _ _ hpos)] at hs
      obtain ⟨st', e, hI', hp⟩ := flush_inv hB s hs
      exact ⟨st', e, hI', fun h1 h2 => by rw [hp]; omega⟩
    · cases hf : m.findAt inp s.core.pos with
      | none =>
        have hsink : mlSink cfg m allCont inp s
            = ({ s with core := { s.core with pos := inp.length } }, .ok true) := by
          simp [mlSink, hinv, mlFind, hf]
        rw [mlRun_cont cfg m inp fuel s _ hpos hsink]
        obtain ⟨st', e, hI', hp⟩ := ih { s with core := { s.core with pos := inp.length } } (by
          rw [fullFrom_nomatch cfg m inp fuel _ (matchesFrom_done _ _ _ _ (Nat.le_refl _))]
          rw [fullFrom_nomatch cfg m inp (fuel + 1) s (by simp [matchesFrom, hpos, hf])] at hs
          exact hB.pos _ _ _ hs)
        exact ⟨st', e, hI', fun _ _ => hp (Nat.le_refl _) (by simp)⟩
      | some mat =>
        have hms : matchesFrom (m.findAt inp) inp.length (fuel + 1) s.core.pos
            = mat :: matchesFrom (m.findAt inp) inp.length fuel (nextPos inp.length mat) := by
          simp [matchesFrom, hpos, hf]
        have hadv := mlAdvance_eq inp s.core mat
        have hprog : s.core.pos ≤ inp.length →
            s.core.pos + 1 ≤ nextPos inp.length mat ∧ nextPos inp.length mat ≤ inp.length := by
          intro hle
          obtain ⟨ms, me⟩ := mat
          obtain ⟨b1, b2, b3⟩ := hsane s.core.pos ms me hle hf
          unfold nextPos
          simp only
          split
          · rename_i hc; simp at hc; omega
          · rename_i hc; simp at hc
            by_cases hse : ms = me
            · have := hc (by omega); omega
            · omega
        generalize hline : locate inp cfg.lineTerm.asByte mat = line
        cases hl : s.lastMatch with
        | none =>
          have hsink : mlSink cfg m allCont inp s
              = ({ core := mlAdvance inp s.core mat, lastMatch := some line }, .ok true) := by
            simp [mlSink, hinv, mlFind, hf, hl, hline]
          rw [mlRun_cont cfg m inp fuel s _ hpos hsink]
          have : fullFrom cfg m inp fuel { core := mlAdvance inp s.core mat, lastMatch := some line }
              = fullFrom cfg m inp (fuel + 1) s := by
            unfold fullFrom pendingList
            simp only [hl, hms, hadv, List.map_cons, hline, List.nil_append, List.singleton_append]
          obtain ⟨st', e, hI', hp⟩ := ih { core := mlAdvance inp s.core mat, lastMatch := some line } (by
            rw [this, hadv]
            exact hB.pos _ _ _ hs)
          refine ⟨st', e, hI', fun h1 h2 => ?_⟩
          have hpr := hprog h1
          apply hp <;> (simp only [hadv]; omega)
        | some P =>
          by_cases hge : P.e ≥ line.s
          · have hsink : mlSink cfg m allCont inp s
                = ({ core := mlAdvance inp s.core mat, lastMatch := some ⟨P.s, line.e⟩ }, .ok true) := by
              simp [mlSink, hinv, mlFind, hf, hl, hline, hge]
            rw [mlRun_cont cfg m inp fuel s _ hpos hsink]
            have : fullFrom cfg m inp fuel { core := mlAdvance inp s.core mat, lastMatch := some ⟨P.s, line.e⟩ }
                = fullFrom cfg m inp (fuel + 1) s := by
              unfold fullFrom pendingList
              simp only [hl, hms, hadv, List.map_cons, hline, List.singleton_append]
              rw [mergeTouching_cons2 P, if_pos hge]
            obtain ⟨st', e, hI', hp⟩ :=
              ih { core := mlAdvance inp s.core mat, lastMatch := some ⟨P.s, line.e⟩ } (by
                rw [this, hadv]
                exact hB.pos _ _ _ hs)
            refine ⟨st', e, hI', fun h1 h2 => ?_⟩
            have hpr := hprog h1
            apply hp <;> (simp only [hadv]; omega)
          · have hplan : fullFrom cfg m inp (fuel + 1) s
                = P :: mergeTouching (line :: (matchesFrom (m.findAt inp) inp.length fuel
                    (nextPos inp.length mat)).map (locate inp cfg.lineTerm.asByte)) := by
              unfold fullFrom pendingList
              simp only [hl, hms, List.map_cons, hline, List.singleton_append]
              rw [mergeTouching_cons2, if_neg hge]
            rw [hplan] at hs
            obtain ⟨r', rem, hrem⟩ := mergeAcc_cons line ((matchesFrom (m.findAt inp) inp.length fuel
                    (nextPos inp.length mat)).map (locate inp cfg.lineTerm.asByte))
            have hmt : mergeTouching (line :: (matchesFrom (m.findAt inp) inp.length fuel
                    (nextPos inp.length mat)).map (locate inp cfg.lineTerm.asByte)) = r' :: rem := hrem
            have hne : nonEmpty P = true := by
              rw [hmt] at hs; exact hB.ne _ _ _ _ hs
            have hs' := hB.pos _ _ (nextPos inp.length mat) hs
            rw [← hadv] at hs'
            obtain ⟨st1, st2, e1, e2, hp2, hI2⟩ := hB.step P _ _ hs' hne
            have hsink : mlSink cfg m allCont inp s = ({ core := st2, lastMatch := some line }, .ok true) := by
              simp [mlSink, hinv, mlFind, hf, hl, hline, hge, e1, e2]
            rw [mlRun_cont cfg m inp fuel s _ hpos hsink]
            have : fullFrom cfg m inp fuel { core := st2, lastMatch := some line }
                = mergeTouching (line :: (matchesFrom (m.findAt inp) inp.length fuel
                    (nextPos inp.length mat)).map (locate inp cfg.lineTerm.asByte)) := by
              unfold fullFrom pendingList
              simp only [hp2, hadv, List.singleton_append]
            obtain ⟨st', e, hI', hp⟩ := ih { core := st2, lastMatch := some line } (by rw [this]; exact hI2)
            refine ⟨st', e, hI', fun h1 h2 => ?_⟩
            have hpr := hprog h1
            apply hp <;> (simp only [hp2, hadv]; omega)

end
end RgVerif.Searcher
