import RgVerif.Lemmas.LineBuffer
/-
The invariant of the roll buffer and its preservation by `consume`, `roll`, `fill`.
-/
namespace RgVerif.LineBuffer
open RgVerif

/-- `Quit` mode after the byte was seen: `fill` no longer reads. -/
def LB.stopped (s : LB) : Prop := s.cfg.binary.isQuit = true ∧ s.binOff.isSome = true

instance (s : LB) : Decidable s.stopped := by unfold LB.stopped; exact inferInstance

/-- Bookkeeping of the binary byte, by mode. -/
def BinOK (s : LB) (a m rest : Bytes) : Prop :=
  match s.cfg.binary with
  | .none => s.binOff = none
  | .quit b => b ∉ a ++ m ∧ ∀ o, s.binOff = some o → o = a.length + m.length ∧ rest.head? = some b
  | .convert b => b ≠ s.cfg.lineterm → s.binOff = findByte b (a ++ m)

structure Inv (cfg : Config) (inp : Bytes) (s : LB) (r : Reader) (a m rest : Bytes) : Prop where
  hcfg : s.cfg = cfg
  split : inp = a ++ (m ++ rest)
  habs : a.length = s.abs
  hwin : s.buf.drop s.pos = s.cfg.binary.tr s.cfg.lineterm m
  hpos : s.pos ≤ s.last
  hlast : s.last ≤ s.buf.length
  hlen : s.buf.length ≤ s.len
  hrdr : s.stopped ∨ r.data = rest
  hbin : BinOK s a m rest
  hstop : s.stopped → s.last = s.buf.length

theorem Inv.init (cfg : Config) (inp : Bytes) (script : List Step) :
    Inv cfg inp (LB.init cfg) ⟨inp, script, 0⟩ [] [] inp := by
  refine ⟨rfl, by simp, rfl, ?_, by simp [LB.init], by simp [LB.init], by simp [LB.init], Or.inr rfl, ?_, ?_⟩
  · cases h : cfg.binary <;> simp [LB.init, BinDet.tr, h]
  · unfold BinOK
    cases h : cfg.binary <;> simp [LB.init, h, findByte]
  · intro hs
    simp [LB.stopped, LB.init] at hs

/-- the same for any reader state over `inp` (the BOM peek only splits the first reads) -/
theorem Inv.init' (cfg : Config) (r : Reader) : Inv cfg r.data (LB.init cfg) r [] [] r.data := by
  refine ⟨rfl, by simp, rfl, ?_, by simp [LB.init], by simp [LB.init], by simp [LB.init], Or.inr rfl, ?_, ?_⟩
  · cases h : cfg.binary <;> simp [LB.init, BinDet.tr, h]
  · unfold BinOK
    cases h : cfg.binary <;> simp [LB.init, h, findByte]
  · intro hs
    simp [LB.stopped, LB.init] at hs

/-- a cleared buffer, whatever it held before, starts the next reader like a fresh one -/
theorem Inv.clear (cfg : Config) (s : LB) (hc : s.cfg = cfg) (r : Reader) :
    Inv cfg r.data s.clear r [] [] r.data := by
  refine ⟨hc, by simp, rfl, ?_, by simp [LB.clear], by simp [LB.clear], by simp [LB.clear], Or.inr rfl, ?_, ?_⟩
  · show ([] : Bytes).drop 0 = s.cfg.binary.tr s.cfg.lineterm []
    cases h : s.cfg.binary <;> simp [BinDet.tr]
  · unfold BinOK
    show match s.cfg.binary with
      | .none => (none : Option Nat) = none
      | .quit b => b ∉ ([] : Bytes) ++ [] ∧ ∀ o, (none : Option Nat) = some o → o = 0 + 0 ∧ r.data.head? = some b
      | .convert b => b ≠ s.cfg.lineterm → (none : Option Nat) = findByte b ([] ++ [])
    cases h : s.cfg.binary <;> simp [findByte]
  · intro hs
    simp [LB.stopped, LB.clear] at hs

theorem Inv.mlen {cfg inp s r a m rest} (h : Inv cfg inp s r a m rest) :
    m.length = s.buf.length - s.pos := by
  have := congrArg List.length h.hwin
  simpa using this.symm

theorem Inv.buffer_eq {cfg inp s r a m rest} (h : Inv cfg inp s r a m rest) :
    s.buffer = (s.cfg.binary.tr s.cfg.lineterm m).take (s.last - s.pos) := by
  unfold LB.buffer
  rw [← h.hwin, List.drop_take]

theorem Inv.buffer_len {cfg inp s r a m rest} (h : Inv cfg inp s r a m rest) :
    s.buffer.length = s.last - s.pos := by
  rw [h.buffer_eq]
  have := h.mlen
  have := h.hlast
  simp
  omega

/-! ### consume -/

theorem Inv.consume {cfg inp s r a m rest} (h : Inv cfg inp s r a m rest) (n : Nat) (s' : LB)
    (hc : s.consume n = some s') :
    Inv cfg inp s' r (a ++ m.take n) (m.drop n) rest := by
  unfold LB.consume at hc
  split at hc
  · rename_i hn
    simp only [Option.some.injEq] at hc
    subst hc
    rw [h.buffer_len] at hn
    have hm := h.mlen
    have hl := h.hlast
    have hnm : n ≤ m.length := by omega
    refine ⟨h.hcfg, ?_, ?_, ?_, ?_, h.hlast, h.hlen, ?_, ?_, h.hstop⟩
    · rw [h.split, List.append_assoc, ← List.append_assoc (m.take n), List.take_append_drop]
    · simp [h.habs]; omega
    · show s.buf.drop (s.pos + n) = _
      rw [tr_drop, ← h.hwin, List.drop_drop]
    · show s.pos + n ≤ s.last
      have := h.hpos
      omega
    · cases h.hrdr with
      | inl hs => exact Or.inl hs
      | inr hr => exact Or.inr hr
    · have hb := h.hbin
      unfold BinOK at hb ⊢
      have e1 : a ++ m.take n ++ m.drop n = a ++ m := by simp
      have e2 : (a ++ m.take n).length + (m.drop n).length = a.length + m.length := by
        simp; omega
      show match s.cfg.binary with
        | .none => s.binOff = none
        | .quit b => b ∉ a ++ m.take n ++ m.drop n ∧ ∀ o, s.binOff = some o →
            o = (a ++ m.take n).length + (m.drop n).length ∧ rest.head? = some b
        | .convert b => b ≠ s.cfg.lineterm → s.binOff = findByte b (a ++ m.take n ++ m.drop n)
      rw [e1, e2]
      exact hb
  · simp at hc

/-! ### roll -/

theorem Inv.roll {cfg inp s r a m rest} (h : Inv cfg inp s r a m rest) :
    Inv cfg inp s.roll r a m rest ∧ s.roll.pos = 0 ∧ s.roll.abs = s.abs ∧
      s.roll.binOff = s.binOff ∧ s.roll.last = s.roll.buf.length := by
  unfold LB.roll
  split
  · rename_i hp
    refine ⟨⟨h.hcfg, h.split, h.habs, ?_, by simp, by simp, by simp, ?_, ?_, fun _ => by simp⟩, rfl, rfl, rfl, by simp⟩
    · have := h.hwin
      rw [hp] at this
      simpa using this
    · exact h.hrdr
    · exact h.hbin
  · refine ⟨⟨h.hcfg, h.split, h.habs, ?_, by simp, by simp, ?_, ?_, ?_, fun _ => by simp⟩, rfl, rfl, rfl, by simp⟩
    · simpa using h.hwin
    · have := h.hlen
      simp
      omega
    · exact h.hrdr
    · exact h.hbin

/-! ### ensure_capacity -/

theorem ensureCapacity_some (s s' : LB) (hle : s.buf.length ≤ s.len) (h : s.ensureCapacity = some s') :
    s'.cfg = s.cfg ∧ s'.buf = s.buf ∧ s'.pos = s.pos ∧ s'.last = s.last ∧ s'.abs = s.abs ∧
      s'.binOff = s.binOff ∧ s'.buf.length < s'.len ∧ s.len ≤ s'.len := by
  unfold LB.ensureCapacity growBase growFactor at h
  split at h
  · simp only [Option.some.injEq] at h
    subst h
    simp_all
  · rename_i hlt
    dsimp only at h
    split at h
    · simp only [Option.some.injEq] at h
      subst h
      simp
      omega
    · split at h
      · simp at h
      · rename_i hn
        simp only [Option.some.injEq] at h
        subst h
        simp
        omega

/-- Under `Eager` allocation `ensure_capacity` never fails. -/
theorem ensureCapacity_eager (s : LB) (h : s.cfg.alloc = .eager) : s.ensureCapacity ≠ none := by
  unfold LB.ensureCapacity
  split
  · simp
  · simp [h]

theorem Inv.ensureCapacity {cfg inp s r a m rest} (h : Inv cfg inp s r a m rest) (s' : LB)
    (he : s.ensureCapacity = some s') : Inv cfg inp s' r a m rest := by
  obtain ⟨h1, h2, h3, h4, h5, h6, h7, _⟩ := ensureCapacity_some s s' h.hlen he
  refine ⟨by rw [h1]; exact h.hcfg, h.split, by rw [h5]; exact h.habs, ?_, by rw [h3, h4]; exact h.hpos,
    by rw [h4, h2]; exact h.hlast, by omega, ?_, ?_, ?_⟩
  · rw [h1, h2, h3]; exact h.hwin
  · cases h.hrdr with
    | inl hs => left; unfold LB.stopped at hs ⊢; rw [h1, h6]; exact hs
    | inr hr => exact Or.inr hr
  · have hb := h.hbin
    unfold BinOK at hb ⊢
    rw [h1, h6]
    exact hb
  · intro hs
    rw [h4, h2]
    apply h.hstop
    unfold LB.stopped at hs ⊢
    rw [← h1, ← h6]
    exact hs

/-! ### one iteration of the fill loop -/

theorem Inv.setLast {cfg inp s r a m rest} (h : Inv cfg inp s r a m rest) (l : Nat)
    (h1 : s.pos ≤ l) (h2 : l ≤ s.buf.length) (h3 : s.stopped → l = s.buf.length) :
    Inv cfg inp { s with last := l } r a m rest :=
  ⟨h.hcfg, h.split, h.habs, h.hwin, h1, h2, h.hlen, h.hrdr, h.hbin, h3⟩

theorem not_stopped_binOff {s : LB} (hns : ¬ s.stopped) (b : Nat) (hb : s.cfg.binary = .quit b) :
    s.binOff = none := by
  unfold LB.stopped at hns
  simp [hb, BinDet.isQuit] at hns
  simpa using hns

/-- A read of `nb` followed by a `cont` outcome of binary detection: the bytes are appended. -/
theorem Inv.push {cfg inp s r r' a m nb nb' bo} (h : Inv cfg inp s r a m r.data) (hp : s.pos = 0)
    (hns : ¬ s.stopped) (hrd : r.data = nb ++ r'.data) (hfree : nb.length ≤ s.len - s.buf.length)
    (hd : s.detect s.buf.length nb = .cont nb' bo) :
    Inv cfg inp { s with buf := s.buf ++ nb', binOff := bo } r' a (m ++ nb) r'.data ∧
      ¬ LB.stopped { s with buf := s.buf ++ nb', binOff := bo } ∧
      nb' = s.cfg.binary.tr s.cfg.lineterm nb := by
  have hm := h.mlen
  have hwin := h.hwin
  rw [hp] at hwin hm
  simp only [List.drop_zero] at hwin
  unfold LB.detect at hd
  have key : nb' = s.cfg.binary.tr s.cfg.lineterm nb ∧
      BinOK { s with buf := s.buf ++ nb', binOff := bo } a (m ++ nb) r'.data ∧
      ¬ LB.stopped { s with buf := s.buf ++ nb', binOff := bo } := by
    have hb := h.hbin
    unfold BinOK at hb ⊢
    unfold LB.stopped at hns ⊢
    cases hbin : s.cfg.binary with
    | none =>
      simp only [hbin] at hd hb ⊢
      simp only [Detect.cont.injEq] at hd
      obtain ⟨rfl, rfl⟩ := hd
      simp [BinDet.tr, hb, BinDet.isQuit]
    | quit b =>
      simp only [hbin] at hd hb ⊢
      cases hf : findByte b nb with
      | some i => simp [hf] at hd
      | none =>
        simp only [hf, Detect.cont.injEq] at hd
        obtain ⟨rfl, rfl⟩ := hd
        have hnb := (findByte_none_iff b nb).1 hf
        have hno : s.binOff = none := by
          simp [hbin, BinDet.isQuit] at hns
          simpa using hns
        refine ⟨by simp [BinDet.tr], ⟨?_, ?_⟩, ?_⟩
        · have := hb.1
          simp only [List.mem_append, not_or] at this ⊢
          exact ⟨this.1, this.2, hnb⟩
        · intro o ho
          simp [hno] at ho
        · simp [hno]
    | convert b =>
      simp only [hbin] at hd hb ⊢
      have h1 := replaceBytes_fst nb b s.cfg.lineterm
      cases hrb : replaceBytes nb b s.cfg.lineterm with
      | mk x y =>
        rw [hrb] at h1
        simp only at h1
        cases y with
        | none =>
          simp only [hrb, Detect.cont.injEq] at hd
          obtain ⟨rfl, rfl⟩ := hd
          refine ⟨by simp [BinDet.tr, h1], ?_, by simp [BinDet.isQuit]⟩
          intro hne
          have h2 := replaceBytes_snd nb b s.cfg.lineterm hne
          rw [hrb] at h2
          simp only at h2
          rw [← List.append_assoc, findByte_append, ← hb hne, ← h2]
          cases s.binOff <;> simp
        | some i =>
          simp only [hrb, Detect.cont.injEq] at hd
          obtain ⟨rfl, rfl⟩ := hd
          refine ⟨by simp [BinDet.tr, h1], ?_, by simp [BinDet.isQuit]⟩
          intro hne
          have h2 := replaceBytes_snd nb b s.cfg.lineterm hne
          rw [hrb] at h2
          simp only at h2
          rw [← List.append_assoc, findByte_append, ← hb hne, ← h2]
          cases hbo : s.binOff with
          | some o => simp
          | none =>
            simp
            have := h.habs
            omega
  obtain ⟨k1, k2, k3⟩ := key
  refine ⟨⟨h.hcfg, ?_, h.habs, ?_, ?_, ?_, ?_, Or.inr rfl, k2, fun hs => absurd hs k3⟩, k3, k1⟩
  · rw [h.split, hrd]; simp
  · show (s.buf ++ nb').drop s.pos = _
    rw [hp, List.drop_zero, tr_append, ← hwin, k1]
  · exact h.hpos
  · show s.last ≤ (s.buf ++ nb').length
    have := h.hlast
    simp
    omega
  · show (s.buf ++ nb').length ≤ s.len
    have := h.hlen
    rw [k1]
    simp
    omega

/-- A read of `nb` in which `Quit(b)` detection found `b` at `i`: the buffer is cut there. -/
theorem Inv.quitAt {cfg inp s r r' a m nb i} (h : Inv cfg inp s r a m r.data) (hp : s.pos = 0)
    (hrd : r.data = nb ++ r'.data) (hfree : nb.length ≤ s.len - s.buf.length)
    (hd : s.detect s.buf.length nb = .quitAt i) :
    Inv cfg inp { s with buf := s.buf ++ nb.take i, last := s.buf.length + i, binOff := some (s.abs + (s.buf.length + i)) } r' a (m ++ nb.take i)
        (nb.drop i ++ r'.data) ∧
      LB.stopped { s with buf := s.buf ++ nb.take i, last := s.buf.length + i, binOff := some (s.abs + (s.buf.length + i)) } ∧ i < nb.length := by
  have hm := h.mlen
  have hwin := h.hwin
  rw [hp] at hwin hm
  simp only [List.drop_zero] at hwin
  unfold LB.detect at hd
  cases hbin : s.cfg.binary with
  | none => simp [hbin] at hd
  | convert b =>
    simp only [hbin] at hd
    cases hrb : replaceBytes nb b s.cfg.lineterm with
    | mk x y => cases y <;> simp [hrb] at hd
  | quit b =>
    simp only [hbin] at hd
    cases hf : findByte b nb with
    | none => simp [hf] at hd
    | some j =>
      simp only [hf, Detect.quitAt.injEq] at hd
      subst hd
      obtain ⟨f1, f2, f3⟩ := findByte_some b nb j hf
      have hst : LB.stopped { s with buf := s.buf ++ nb.take j, last := s.buf.length + j, binOff := some (s.abs + (s.buf.length + j)) } := by
        simp [LB.stopped, hbin, BinDet.isQuit]
      refine ⟨⟨h.hcfg, ?_, h.habs, ?_, ?_, ?_, ?_, Or.inl hst, ?_, ?_⟩, hst, f1⟩
      · rw [h.split, hrd]
        simp only [List.append_assoc]
        rw [← List.append_assoc (nb.take j), List.take_append_drop]
      · show (s.buf ++ nb.take j).drop s.pos = _
        rw [hp, List.drop_zero, tr_append, ← hwin]
        simp [hbin, BinDet.tr]
      · show s.pos ≤ s.buf.length + j
        omega
      · show s.buf.length + j ≤ (s.buf ++ nb.take j).length
        simp
        omega
      · show (s.buf ++ nb.take j).length ≤ s.len
        have := h.hlen
        simp
        omega
      · have hb := h.hbin
        unfold BinOK at hb ⊢
        simp only [hbin] at hb ⊢
        refine ⟨?_, ?_⟩
        · have := hb.1
          simp only [List.mem_append, not_or] at this ⊢
          exact ⟨this.1, this.2, f3⟩
        · intro o ho
          simp only [Option.some.injEq] at ho
          subst ho
          refine ⟨?_, ?_⟩
          · have := h.habs
            simp
            omega
          · rw [f2]; simp
      · intro _
        show s.buf.length + j = (s.buf ++ nb.take j).length
        simp
        omega

end RgVerif.LineBuffer
