import RgVerif.Spec.Utf16
namespace RgVerif.Decode
open RgVerif RgVerif.Utf16Spec

/-! ### streaming: the state is carried across pieces -/

theorem runBytes_append (m : Machine) (s : m.σ) (a b : Bytes) :
    m.runBytes s (a ++ b) =
      ((m.runBytes (m.runBytes s a).1 b).1, (m.runBytes s a).2 ++ (m.runBytes (m.runBytes s a).1 b).2) := by
  induction a generalizing s with
  | nil => simp [Machine.runBytes]
  | cons x xs ih =>
    simp only [List.cons_append, Machine.runBytes]
    rw [ih]
    simp [List.append_assoc]

theorem runChunks_eq (m : Machine) (s : m.σ) (chunks : List Bytes) :
    m.runChunks s chunks = m.runBytes s chunks.flatten := by
  induction chunks generalizing s with
  | nil => simp [Machine.runChunks, Machine.runBytes]
  | cons c rest ih =>
    simp only [Machine.runChunks, List.flatten_cons]
    rw [runBytes_append, ih]

theorem decode_flatten (m : Machine) (chunks : List Bytes) : m.decode chunks = m.decode [chunks.flatten] := by
  simp only [Machine.decode, runChunks_eq, List.flatten_cons, List.flatten_nil, List.append_nil]

theorem splitCap_flatten (cap fuel : Nat) (c : Bytes) : (splitCap cap fuel c).flatten = c := by
  induction fuel generalizing c with
  | zero => simp [splitCap]
  | succ f ih =>
    simp only [splitCap]
    split
    · simp
    · simp [ih, List.take_append_drop]

theorem flatMap_splitCap_flatten (cap : Nat) (body : List Bytes) :
    (body.flatMap (fun ch => splitCap cap ch.length ch)).flatten = body.flatten := by
  induction body with
  | nil => rfl
  | cons c rest ih => simp [List.flatMap_cons, splitCap_flatten, ih]

theorem peek3_eq (chunks : List Bytes) (n : Nat) : peek3 chunks n = chunks.flatten.take n := by
  induction chunks generalizing n with
  | nil => cases n <;> simp [peek3]
  | cons c rest ih =>
    cases n with
    | zero => simp [peek3]
    | succ n =>
      simp only [peek3, List.flatten_cons, ih, List.take_append, List.length_take]
      congr 2
      omega

theorem dropBytes_flatten (n : Nat) (chunks : List Bytes) :
    (dropBytes n chunks).flatten = chunks.flatten.drop n := by
  induction chunks generalizing n with
  | nil => cases n <;> simp [dropBytes]
  | cons c rest ih =>
    cases n with
    | zero => simp [dropBytes]
    | succ n =>
      simp only [dropBytes]
      split
      · rename_i h
        simp only [List.flatten_cons, List.drop_append]
        have : n + 1 - c.length = 0 := by omega
        simp [this]
      · rename_i h
        rw [ih]
        simp only [List.flatten_cons, List.drop_append]
        have : c.drop (n + 1) = [] := List.drop_eq_nil_of_le (by omega)
        simp [this]

/-! ### the UTF-16 machine against the whole-string specification -/

theorem isLow_not_isHigh (u : Nat) (h : isLow u = true) : isHigh u = false := by
  simp only [isLow, isHigh, Bool.and_eq_true, decide_eq_true_eq] at *
  simp only [Bool.and_eq_false_imp, decide_eq_true_eq, decide_eq_false_iff_not]
  omega

/-- unit-level run (no incomplete unit pending) -/
def runUnits : U16 → List Nat → U16 × List Nat
  | s, [] => (s, [])
  | s, u :: rest =>
    let (s1, o1) := stepUnit s u
    let (s2, o2) := runUnits s1 rest
    (s2, o1 ++ o2)

/-- unit-level end of stream -/
def finishU (s : U16) (odd : Bool) : List Nat := if odd || s.hi.isSome then [replacement] else []

theorem stepUnit_lo (s : U16) (u : Nat) (h : s.lo = none) : (stepUnit s u).1.lo = none := by
  unfold stepUnit
  split
  · simpa using h
  · simp only
    cases s.hi with
    | none => simp only; split <;> (try split) <;> simpa using h
    | some hh => simp only; split <;> (try split) <;> simpa using h

/-- bytes → units: the byte machine is the unit machine on `units` -/
theorem runBytes_units (be : Bool) (bs : Bytes) (s : U16) (hlo : s.lo = none) :
    ((utf16Machine be).runBytes s bs).2 ++ finish16 ((utf16Machine be).runBytes s bs).1 =
      ((runUnits s (units be bs).1).2 ++ finishU (runUnits s (units be bs).1).1 (units be bs).2).flatMap utf8Encode := by
  induction bs using units.induct be generalizing s with
  | case1 =>
    simp [Machine.runBytes, units, runUnits, finish16, finishU, hlo]
    cases s.hi <;> simp
  | case2 b =>
    simp [Machine.runBytes, units, runUnits, finish16, finishU, utf16Machine, step16, hlo]
  | case3 b0 b1 rest us odd hu ih =>
    have hstep : (utf16Machine be).runBytes s (b0 :: b1 :: rest) =
        (((utf16Machine be).runBytes (stepUnit s (unitOf be b0 b1)).1 rest).1,
         (stepUnit s (unitOf be b0 b1)).2.flatMap utf8Encode ++
           ((utf16Machine be).runBytes (stepUnit s (unitOf be b0 b1)).1 rest).2) := by
      simp only [Machine.runBytes, utf16Machine, step16, hlo, List.nil_append]
      have : ({ s with lo := none } : U16) = s := by cases s; simp_all
      simp [this]
    rw [hstep]
    have := ih (stepUnit s (unitOf be b0 b1)).1 (stepUnit_lo s _ hlo)
    simp only [units, hu] at this ⊢
    simp only [runUnits, List.append_assoc]
    rw [this]
    simp [List.flatMap_append]

/-- units → scalars: with nothing / a high surrogate pending -/
theorem runUnits_scalars (odd : Bool) (us : List Nat) :
    ∀ s : U16, s.first = false →
      (s.hi = none → (runUnits s us).2 ++ finishU (runUnits s us).1 odd = scalars odd us) ∧
      (∀ h, s.hi = some h → isHigh h = true →
        (runUnits s us).2 ++ finishU (runUnits s us).1 odd = scalars odd (h :: us)) := by
  induction us with
  | nil =>
    intro s _
    constructor
    · intro hn; simp [runUnits, finishU, hn, scalars]
    · intro h hh hhi; simp [runUnits, finishU, hh, scalars, hhi]
  | cons u rest ih =>
    intro s hf
    obtain ⟨f, lo, hi⟩ := s
    simp only at hf
    subst hf
    constructor
    · intro hn
      simp only at hn
      subst hn
      by_cases h1 : isHigh u = true
      · have := (ih { first := false, lo := lo, hi := some u } rfl).2 u rfl h1
        simpa [runUnits, stepUnit, h1] using this
      · by_cases h2 : isLow u = true
        · have := (ih { first := false, lo := lo, hi := none } rfl).1 rfl
          rw [scalars.eq_def]
          simp [runUnits, stepUnit, h1, h2, this]
        · have := (ih { first := false, lo := lo, hi := none } rfl).1 rfl
          rw [scalars.eq_def]
          simp [runUnits, stepUnit, h1, h2, this]
    · intro h hh hhi
      simp only at hh
      subst hh
      by_cases h2 : isLow u = true
      · have := (ih { first := false, lo := lo, hi := none } rfl).1 rfl
        rw [scalars.eq_def]
        simp [runUnits, stepUnit, hhi, h2, this]
      · by_cases h1 : isHigh u = true
        · have := (ih { first := false, lo := lo, hi := some u } rfl).2 u rfl h1
          rw [scalars.eq_def]
          simp [runUnits, stepUnit, hhi, h1, h2, this]
        · have := (ih { first := false, lo := lo, hi := none } rfl).1 rfl
          rw [scalars.eq_def]
          simp only [hhi, if_true, h2, Bool.false_eq_true, if_false]
          rw [scalars.eq_def]
          simp [runUnits, stepUnit, h1, h2, this]

/-- the decoder's own mark -/
theorem runUnits_first (odd : Bool) (us : List Nat) :
    (runUnits {} us).2 ++ finishU (runUnits {} us).1 odd = scalars odd (dropOwnMark us) := by
  cases us with
  | nil => simp [runUnits, finishU, dropOwnMark, scalars]
  | cons u rest =>
    by_cases hu : u = 0xFEFF
    · subst hu
      simp only [runUnits, stepUnit, dropOwnMark]
      simpa using (runUnits_scalars odd rest { first := false, lo := none, hi := none } rfl).1 rfl
    · have hd : dropOwnMark (u :: rest) = u :: rest := by
        unfold dropOwnMark
        split
        · rename_i h; injection h with h1 _; exact absurd h1 hu
        · rfl
      rw [hd]
      have hstep : stepUnit {} u = stepUnit { first := false } u := by
        simp [stepUnit, hu]
      have := (runUnits_scalars odd (u :: rest) { first := false, lo := none, hi := none } rfl).1 rfl
      simp only [runUnits] at this ⊢
      rw [hstep]
      exact this

/-! ### UTF-8: transcoding valid UTF-8 changes nothing -/

theorem transcode8_valid_aux : ∀ (n : Nat) (bs : Bytes), bs.length ≤ n → validUtf8 bs = true → transcode8 bs = bs := by
  intro n
  induction n with
  | zero =>
    intro bs hl _
    have : bs = [] := List.eq_nil_of_length_eq_zero (by omega)
    subst this
    rw [transcode8.eq_def]
  | succ n ih =>
    intro bs hl h
    match bs, hl, h with
    | [], _, _ => rw [transcode8.eq_def]
    | b0 :: rest, hl, h =>
      rw [validUtf8.eq_def] at h; simp only at h
      rw [transcode8.eq_def]
      simp only
      simp only [List.length_cons] at hl
      split
      · rename_i hb
        simp only [hb, if_true] at h
        rw [ih rest (by omega) h]
      · rename_i hb
        simp only [hb, if_false] at h
        split
        · rename_i h2
          simp only [h2, if_true] at h
          match rest, hl, h with
          | [], _, h => cases h
          | b1 :: r, hl, h =>
            simp only [Bool.false_eq_true, if_false, Bool.and_eq_true] at h
            simp only [List.length_cons] at hl
            simp only [h.1, if_true]
            rw [ih r (by omega) h.2]
        · rename_i h2
          simp only [h2, if_false] at h
          split
          · rename_i h3
            simp only [h3, if_true] at h
            match rest, hl, h with
            | [], _, h => cases h
            | [_], _, h => cases h
            | b1 :: b2 :: r, hl, h =>
              simp only [Bool.false_eq_true, if_false, Bool.and_eq_true] at h
              simp only [List.length_cons] at hl
              simp only [h.1.1, h.1.2, if_true]
              rw [ih r (by omega) h.2]
          · rename_i h3
            simp only [h3, if_false] at h
            split
            · rename_i h4
              simp only [h4, if_true] at h
              match rest, hl, h with
              | [], _, h => cases h
              | [_], _, h => cases h
              | [_, _], _, h => cases h
              | b1 :: b2 :: b3 :: r, hl, h =>
                simp only [Bool.false_eq_true, if_false, Bool.and_eq_true] at h
                simp only [List.length_cons] at hl
                simp only [h.1.1.1, h.1.1.2, h.1.2, if_true]
                rw [ih r (by omega) h.2]
            · rename_i h4
              simp [h4] at h
theorem transcode8_valid (bs : Bytes) (h : validUtf8 bs = true) : transcode8 bs = bs :=
  transcode8_valid_aux bs.length bs (Nat.le_refl _) h

end RgVerif.Decode

namespace RgVerif.Decode
open RgVerif RgVerif.Utf16Spec

def encOf (be : Bool) : Enc := if be then .utf16be else .utf16le

theorem unitOf_mark (be : Bool) (b0 b1 : Nat) (h0 : b0 < 256) (h1 : b1 < 256) :
    unitOf be b0 b1 = 0xFEFF ↔ (if be then b0 = 0xFE ∧ b1 = 0xFF else b0 = 0xFF ∧ b1 = 0xFE) := by
  cases be <;> simp [unitOf] <;> omega

/-- the whole-input behaviour of the modelled UTF-16 decoder -/
theorem utf16_decode_eq (be : Bool) (bs : Bytes) :
    (utf16Machine be).decode [bs] = decode16 be bs := by
  have h := runBytes_units be bs {} rfl
  have h2 := runUnits_first (units be bs).2 (units be bs).1
  simp only [Machine.decode, Machine.runChunks, List.append_nil, decode16]
  exact h.trans (by rw [h2])

theorem decode16_ownMark (be : Bool) (bs : Bytes) (hb : ∀ b ∈ bs, b < 256) :
    decode16 be bs = transcode16 be (if ownMark (encOf be) bs then bs.drop 2 else bs) := by
  match bs, hb with
  | [], _ => cases be <;> simp [decode16, transcode16, units, dropOwnMark, ownMark, encOf]
  | [b], _ => cases be <;> simp [decode16, transcode16, units, dropOwnMark, ownMark, encOf]
  | b0 :: b1 :: rest, hb =>
    have h0 : b0 < 256 := hb b0 (by simp)
    have h1 : b1 < 256 := hb b1 (by simp)
    have hm := unitOf_mark be b0 b1 h0 h1
    by_cases hu : unitOf be b0 b1 = 0xFEFF
    · have hown : ownMark (encOf be) (b0 :: b1 :: rest) = true := by
        have := hm.mp hu
        cases be
        · simp only [Bool.false_eq_true, if_false] at this
          obtain ⟨rfl, rfl⟩ := this
          simp [ownMark, encOf]
        · simp only [if_true] at this
          obtain ⟨rfl, rfl⟩ := this
          simp [ownMark, encOf]
      simp only [hown, if_true, List.drop_succ_cons, List.drop_zero]
      simp only [decode16, transcode16, units, hu, dropOwnMark]
    · have hown : ownMark (encOf be) (b0 :: b1 :: rest) = false := by
        cases hbe : be
        · subst hbe
          simp only [Bool.false_eq_true, if_false] at hm
          simp only [encOf, Bool.false_eq_true, if_false]
          by_cases hx : b0 = 0xFF ∧ b1 = 0xFE
          · exact absurd (hm.mpr hx) hu
          · unfold ownMark
            split <;> simp_all
        · subst hbe
          simp only [if_true] at hm
          simp only [encOf, if_true]
          by_cases hx : b0 = 0xFE ∧ b1 = 0xFF
          · exact absurd (hm.mpr hx) hu
          · unfold ownMark
            split <;> simp_all
      simp only [hown, Bool.false_eq_true, if_false]
      simp only [decode16, transcode16, units]
      have : dropOwnMark (unitOf be b0 b1 :: (units be rest).1) = unitOf be b0 b1 :: (units be rest).1 := by
        unfold dropOwnMark
        split
        · rename_i heq; injection heq with h1' _; exact absurd h1' hu
        · rfl
      rw [this]

end RgVerif.Decode

namespace RgVerif.Decode
open RgVerif RgVerif.Utf16Spec

theorem bomOf_take3 (bs : Bytes) : bomOf (bs.take 3) = bomOf bs := by
  match bs with
  | [] => rfl
  | [_] => rfl
  | [_, _] => rfl
  | a :: b :: c :: rest =>
    simp only [List.take_succ_cons, List.take_zero]
    unfold bomOf
    split <;> split <;> simp_all

/-- a decoder that buffers everything and transcodes at the end: implements any reference transcoder -/
def bufferAll (f : Bytes → Bytes) : Machine :=
  { σ := Bytes, init := [], step := fun s b => (s ++ [b], []), finish := f }

theorem bufferAll_run (f : Bytes → Bytes) (bs : Bytes) :
    ∀ s : Bytes, Machine.runBytes (bufferAll f) s bs = (s ++ bs, []) := by
  induction bs with
  | nil => intro s; simp [Machine.runBytes]; rfl
  | cons b r ih =>
    intro s
    have hi := ih (s ++ [b])
    simp only [bufferAll] at hi ⊢
    simp [Machine.runBytes, hi]

theorem bufferAll_decode (f : Bytes → Bytes) (bs : Bytes) : (bufferAll f).decode [bs] = f bs := by
  have h := bufferAll_run f bs []
  simp only [bufferAll] at h ⊢
  simp [Machine.decode, Machine.runChunks, h]

end RgVerif.Decode
