import RgVerif.Model.BinaryOut
/-
Helper lemmas for C14: what the standard printer writes once binary data was reported.
-/
namespace RgVerif.BinaryOut
open RgVerif

/-- the file bytes carried by an event / written by an item -/
def Ev.bytes : Ev → Bytes
  | .matched _ _ bs => bs
  | .context _ _ bs => bs
  | _ => []

def Item.fileBytes : Item → Bytes
  | .matchLine _ bs => bs
  | .contextLine _ bs => bs
  | _ => []

/-- `Quit` contract of the searcher: no delivered line holds a NUL. -/
def Clean (evs : List Ev) : Prop := ∀ ev ∈ evs, 0 ∉ ev.bytes

/-- `Convert` contract of the slice strategies (`Core::detect_binary` runs before every sink
call): a line with a NUL is only delivered after `binary_data` was reported. -/
def Guarded (evs : List Ev) : Prop :=
  ∀ pre ev post, evs = pre ++ ev :: post → 0 ∈ ev.bytes → ∃ e ∈ pre, e.isBinaryData = true

/-! ### digits and constants hold no NUL -/

theorem natDigits_pos (fuel n : Nat) (acc : Bytes) (h : ∀ x ∈ acc, 48 ≤ x) :
    ∀ x ∈ natDigits fuel n acc, 48 ≤ x := by
  induction fuel generalizing n acc with
  | zero => simpa [natDigits] using h
  | succ f ih =>
    unfold natDigits
    have h' : ∀ x ∈ (48 + n % 10) :: acc, 48 ≤ x := by
      intro x hx
      simp at hx
      cases hx with
      | inl e => omega
      | inr e => exact h x e
    dsimp only
    split
    · exact h'
    · exact ih _ _ h'

theorem natBytes_no_nul (n : Nat) : 0 ∉ natBytes n := by
  intro h
  have := natDigits_pos (n + 1) n [] (by simp) 0 h
  omega

theorem warnStopped_no_nul : 0 ∉ warnStopped := by decide
theorem warnStoppedNoMatch_no_nul : 0 ∉ warnStoppedNoMatch := by decide
theorem warnMatches_no_nul : 0 ∉ warnMatches := by decide
theorem warnEnd_no_nul : 0 ∉ warnEnd := by decide

theorem withTerm_no_nul (bs : Bytes) (h : 0 ∉ bs) : 0 ∉ withTerm bs := by
  unfold withTerm
  split
  · exact h
  · simp [h]

/-- the byte lists written by `renderItem` are the texts of the source -/
theorem fieldMatchSep_text : fieldMatchSep = textBytes sepFieldMatchText := by decide
theorem fieldContextSep_text : fieldContextSep = textBytes sepFieldContextText := by decide
theorem contextSepLine_text : contextSepLine = textBytes sepContextText ++ [10] := by decide
theorem warnStopped_text :
    warnStopped = textBytes (": " ++ warnStoppedHead ++ warnAfterMatchText ++ warnFoundText ++ "\"\\0\"" ++ warnAroundText) := by decide
theorem warnStoppedNoMatch_text :
    warnStoppedNoMatch = textBytes (": " ++ warnStoppedHead ++ warnFoundText ++ "\"\\0\"" ++ warnAroundText) := by decide
theorem warnMatches_text :
    warnMatches = textBytes (": " ++ warnMatchesHead ++ warnFoundText ++ "\"\\0\"" ++ warnAroundText) := by decide
theorem binaryByte_nul : binaryByte = 0 := rfl

theorem renderItem_no_nul (path : Bytes) (hp : 0 ∉ path) (it : Item) (h : 0 ∉ it.fileBytes) :
    0 ∉ renderItem path it := by
  cases it with
  | matchLine ln bs =>
    simp only [renderItem, List.mem_append, not_or]
    exact ⟨⟨⟨⟨hp, by decide⟩, natBytes_no_nul ln⟩, by decide⟩, withTerm_no_nul bs h⟩
  | contextLine ln bs =>
    simp only [renderItem, List.mem_append, not_or]
    exact ⟨⟨⟨⟨hp, by decide⟩, natBytes_no_nul ln⟩, by decide⟩, withTerm_no_nul bs h⟩
  | sep => simp only [renderItem]; decide
  | stoppedWarning off =>
    simp only [renderItem, List.mem_append, not_or]
    exact ⟨⟨⟨hp, warnStopped_no_nul⟩, natBytes_no_nul off⟩, warnEnd_no_nul⟩
  | stoppedNoMatch off =>
    simp only [renderItem, List.mem_append, not_or]
    exact ⟨⟨⟨hp, warnStoppedNoMatch_no_nul⟩, natBytes_no_nul off⟩, warnEnd_no_nul⟩
  | binaryMatches off =>
    simp only [renderItem, List.mem_append, not_or]
    exact ⟨⟨⟨hp, warnMatches_no_nul⟩, natBytes_no_nul off⟩, warnEnd_no_nul⟩

theorem render_no_nul (path : Bytes) (hp : 0 ∉ path) (items : List Item)
    (h : ∀ it ∈ items, 0 ∉ it.fileBytes) : 0 ∉ render path items := by
  unfold render
  intro hm
  rw [List.mem_flatMap] at hm
  obtain ⟨it, hit, h0⟩ := hm
  exact renderItem_no_nul path hp it (h it hit) h0

/-! ### the sink state -/

/-- Invariant of `feed` for the no-NUL argument: everything written so far is NUL-free, and in
`Convert` mode, if some `binary_data` was seen then `binOff` is set. -/
theorem feed_no_nul (det : Det) (evs : List Ev) :
    ∀ (st : St) (seen : List Ev),
      (∀ it ∈ st.out, 0 ∉ it.fileBytes) →
      ((∃ e ∈ seen, e.isBinaryData = true) → st.binOff.isSome = true) →
      (det = .quit → Clean evs) →
      (det = .convert → ∀ pre ev post, evs = pre ++ ev :: post → 0 ∈ ev.bytes →
          ∃ e ∈ seen ++ pre, e.isBinaryData = true) →
      det ≠ .none →
      ∀ it ∈ (feed det st evs).out, 0 ∉ it.fileBytes := by
  induction evs with
  | nil => intro st seen h _ _ _ _; simpa [feed] using h
  | cons ev evs ih =>
    intro st seen hout hseen hq hc hn
    -- the head event is NUL-free or the printer is already in suppress mode
    have hhead : 0 ∈ ev.bytes → (det = .convert ∧ st.binOff.isSome = true) := by
      intro h0
      cases det with
      | none => exact absurd rfl hn
      | quit => exact absurd h0 (hq rfl ev (by simp))
      | convert =>
        obtain ⟨e, he, hb⟩ := hc rfl [] ev evs rfl h0
        exact ⟨rfl, hseen ⟨e, by simpa using he, hb⟩⟩
    have hq' : det = .quit → Clean evs := fun h e he => hq h e (by simp [he])
    have hc' : det = .convert → ∀ pre e post, evs = pre ++ e :: post → 0 ∈ e.bytes →
        ∃ x ∈ (seen ++ [ev]) ++ pre, x.isBinaryData = true := by
      intro h pre e post hsplit h0
      obtain ⟨x, hx, hb⟩ := hc h (ev :: pre) e post (by simp [hsplit]) h0
      exact ⟨x, by simpa using hx, hb⟩
    cases ev with
    | matched off ln bs =>
      by_cases hsup : (det == Det.convert && st.binOff.isSome) = true
      · simp only [feed, step, hsup, if_true]
        exact hout
      · simp only [feed, step, hsup, if_false, Bool.false_eq_true]
        apply ih _ (seen ++ [.matched off ln bs]) _ _ hq' hc' hn
        · intro it hit
          simp only [List.mem_append, List.mem_singleton] at hit
          cases hit with
          | inl h => exact hout it h
          | inr h =>
            subst h
            intro h0
            have := hhead h0
            simp [this.1, this.2] at hsup
        · intro ⟨e, he, hb⟩
          simp only [List.mem_append, List.mem_singleton] at he
          cases he with
          | inl h => exact hseen ⟨e, h, hb⟩
          | inr h => subst h; simp [Ev.isBinaryData] at hb
    | context off ln bs =>
      by_cases hsup : (det == Det.convert && st.binOff.isSome) = true
      · simp only [feed, step, hsup, if_true]
        apply ih _ (seen ++ [.context off ln bs]) hout _ hq' hc' hn
        intro ⟨e, he, hb⟩
        simp only [List.mem_append, List.mem_singleton] at he
        cases he with
        | inl h => exact hseen ⟨e, h, hb⟩
        | inr h => subst h; simp [Ev.isBinaryData] at hb
      · simp only [feed, step, hsup, if_false, Bool.false_eq_true]
        apply ih _ (seen ++ [.context off ln bs]) _ _ hq' hc' hn
        · intro it hit
          simp only [List.mem_append, List.mem_singleton] at hit
          cases hit with
          | inl h => exact hout it h
          | inr h =>
            subst h
            intro h0
            have := hhead h0
            simp [this.1, this.2] at hsup
        · intro ⟨e, he, hb⟩
          simp only [List.mem_append, List.mem_singleton] at he
          cases he with
          | inl h => exact hseen ⟨e, h, hb⟩
          | inr h => subst h; simp [Ev.isBinaryData] at hb
    | ctxBreak =>
      simp only [feed, step]
      apply ih _ (seen ++ [.ctxBreak]) _ _ hq' hc' hn
      · intro it hit
        simp only [List.mem_append, List.mem_singleton] at hit
        cases hit with
        | inl h => exact hout it h
        | inr h => subst h; simp [Item.fileBytes]
      · intro ⟨e, he, hb⟩
        simp only [List.mem_append, List.mem_singleton] at he
        cases he with
        | inl h => exact hseen ⟨e, h, hb⟩
        | inr h => subst h; simp [Ev.isBinaryData] at hb
    | binaryData off =>
      simp only [feed, step]
      apply ih _ (seen ++ [.binaryData off]) _ _ hq' hc' hn
      · exact hout
      · intro _; rfl

theorem finish_fileBytes (det : Det) (st : St) (h : ∀ it ∈ st.out, 0 ∉ it.fileBytes) :
    ∀ it ∈ finish det st, 0 ∉ it.fileBytes := by
  unfold finish
  intro it hit
  cases hb : st.binOff with
  | none => rw [hb] at hit; exact h it hit
  | some off =>
    rw [hb] at hit
    simp only at hit
    by_cases hc : (decide (st.matchCount = 0) && !cutShort det st) = true
    · rw [if_pos hc] at hit; exact h it hit
    · rw [if_neg hc] at hit
      cases det <;> simp only [List.mem_append, List.mem_singleton] at hit
      · exact h it hit
      · cases hit with
        | inl x => exact h it x
        | inr x =>
          subst x
          split <;> simp [Item.fileBytes]
      · cases hit with
        | inl x => exact h it x
        | inr x => subst x; simp [Item.fileBytes]

/-! ### predicates and closed forms used by the decision tables -/

def Item.isMatchLine : Item → Bool
  | .matchLine _ _ => true
  | _ => false

def Item.isLine : Item → Bool
  | .matchLine _ _ => true
  | .contextLine _ _ => true
  | _ => false

def Item.isNotice : Item → Bool
  | .binaryMatches _ => true
  | _ => false

/-- the `Quit` warning in either wording -/
def Item.isWarning : Item → Bool
  | .stoppedWarning _ => true
  | .stoppedNoMatch _ => true
  | _ => false

/-- item written for an event when nothing is suppressed -/
def toItem : Ev → Option Item
  | .matched _ ln bs => some (.matchLine ln bs)
  | .context _ ln bs => some (.contextLine ln bs)
  | .ctxBreak => some .sep
  | .binaryData _ => none

theorem feed_plain (det : Det) (hd : det ≠ .convert) (evs : List Ev) : ∀ st : St,
    (feed det st evs).out = st.out ++ evs.filterMap toItem := by
  have hcv : (det == Det.convert) = false := by cases det <;> simp_all
  induction evs with
  | nil => intro st; simp [feed]
  | cons ev evs ih =>
    intro st
    cases ev with
    | matched off ln bs =>
      simp only [feed, step, hcv, Bool.false_and, Bool.false_eq_true, if_false]
      rw [ih]
      simp [toItem]
    | context off ln bs =>
      simp only [feed, step, hcv, Bool.false_and, Bool.false_eq_true, if_false]
      rw [ih]
      simp [toItem]
    | ctxBreak =>
      simp only [feed, step]
      rw [ih]
      simp [toItem]
    | binaryData off =>
      simp only [feed, step]
      rw [ih]
      have : toItem (.binaryData off) = none := rfl
      simp [this]

theorem feed_quit_matchCount (pre : List Ev) : ∀ st : St,
    (feed .quit st pre).matchCount = st.matchCount + (pre.filter Ev.isMatched).length := by
  induction pre with
  | nil => intro st; simp [feed]
  | cons ev pre ih =>
    intro st
    cases ev with
    | matched o ln bs =>
      simp only [feed, step, show (Det.quit == Det.convert) = false by decide, Bool.false_and,
        Bool.false_eq_true, if_false]
      rw [ih]
      have : (Ev.matched o ln bs :: pre).filter Ev.isMatched = Ev.matched o ln bs :: pre.filter Ev.isMatched :=
        List.filter_cons_of_pos (by rfl)
      rw [this]
      simp only [List.length_cons]
      omega
    | context o ln bs =>
      simp only [feed, step, show (Det.quit == Det.convert) = false by decide, Bool.false_and,
        Bool.false_eq_true, if_false]
      rw [ih, List.filter_cons_of_neg (by simp [Ev.isMatched])]
    | ctxBreak =>
      simp only [feed, step]
      rw [ih, List.filter_cons_of_neg (by simp [Ev.isMatched])]
    | binaryData o =>
      simp only [feed, step]
      rw [ih, List.filter_cons_of_neg (by simp [Ev.isMatched])]

/-- `Convert` mode: once a matching line was offered, a match line or the notice ends up in the
output. -/
theorem convert_notice_aux (evs : List Ev) :
    ∀ st : St,
      (st.matchCount > 0 ∨ ∃ e ∈ evs, e.isMatched = true) →
      (st.matchCount > 0 → (∃ it ∈ st.out, it.isMatchLine = true) ∨ st.binOff.isSome = true) →
      ∃ it ∈ finish .convert (feed .convert st evs), it.isMatchLine = true ∨ it.isNotice = true := by
  induction evs with
  | nil =>
    intro st h1 hP
    have hmc : st.matchCount > 0 := by
      cases h1 with
      | inl h => exact h
      | inr h => obtain ⟨e, he, _⟩ := h; simp at he
    simp only [feed, finish]
    cases hb : st.binOff with
    | none =>
      cases hP hmc with
      | inl h => obtain ⟨it, hit, hm⟩ := h; exact ⟨it, by simpa using hit, Or.inl hm⟩
      | inr h => simp [hb] at h
    | some off =>
      have : ¬ st.matchCount = 0 := by omega
      simp only [this, if_false]
      exact ⟨.binaryMatches off, by simp, Or.inr rfl⟩
  | cons ev evs ih =>
    intro st h1 hP
    have tail : ∀ e', e' = ev → e'.isMatched = false →
        (st.matchCount > 0 ∨ ∃ e ∈ evs, e.isMatched = true) := by
      intro e' he' hnm
      cases h1 with
      | inl h => exact Or.inl h
      | inr h =>
        obtain ⟨e, he, hm⟩ := h
        simp only [List.mem_cons] at he
        cases he with
        | inl x => subst x; subst he'; rw [hnm] at hm; simp at hm
        | inr x => exact Or.inr ⟨e, x, hm⟩
    cases ev with
    | matched o ln bs =>
      by_cases hsup : (Det.convert == Det.convert && st.binOff.isSome) = true
      · simp only [feed, step, hsup, if_true, finish]
        have hb : st.binOff.isSome = true := by simpa using hsup
        cases hbo : st.binOff with
        | none => simp [hbo] at hb
        | some off =>
          simp only [Nat.succ_ne_zero, if_false]
          exact ⟨.binaryMatches off, by simp, Or.inr rfl⟩
      · simp only [feed, step, hsup, if_false, Bool.false_eq_true]
        apply ih
        · left; show st.matchCount + 1 > 0; omega
        · intro _
          left
          exact ⟨.matchLine ln bs, by simp, rfl⟩
    | context o ln bs =>
      by_cases hsup : (Det.convert == Det.convert && st.binOff.isSome) = true
      · simp only [feed, step, hsup, if_true]
        exact ih st (tail _ rfl rfl) hP
      · simp only [feed, step, hsup, if_false, Bool.false_eq_true]
        apply ih
        · exact tail _ rfl rfl
        · intro hmc
          cases hP hmc with
          | inl h => obtain ⟨it, hit, hm⟩ := h; exact Or.inl ⟨it, by simp [hit], hm⟩
          | inr h => exact Or.inr h
    | ctxBreak =>
      simp only [feed, step]
      apply ih
      · exact tail _ rfl rfl
      · intro hmc
        cases hP hmc with
        | inl h => obtain ⟨it, hit, hm⟩ := h; exact Or.inl ⟨it, by simp [hit], hm⟩
        | inr h => exact Or.inr h
    | binaryData o =>
      simp only [feed, step]
      apply ih
      · exact tail _ rfl rfl
      · intro _; exact Or.inr rfl

end RgVerif.BinaryOut
