import RgVerif.Lemmas.GitBlank
import RgVerif.Lemmas.GlobDocClass
/-
Bracket classes in gitignore lines: git's `wildmatch` reads a class exactly as `parse_class` + the regex class
do — provided the class does not admit `/` (where ripgrep really deviates: recorded finding) and, under
case-insensitive matching, lists no upper-case letter singly (git does not fold those).
-/
namespace RgVerif.Glob
open RgVerif RgVerif.GlobDoc

/-- the items `wildmatch` collects for one written item (a range also leaves its lower end as a single) -/
def CItem.git : CItem → List GitSpec.ClsItem
  | .one c => [.one c]
  | .range lo hi => [.one lo, .range lo hi]

def ClsSpec.gitItems (s : ClsSpec) : List GitSpec.ClsItem :=
  (s.first.map GitSpec.ClsItem.one).toList ++ s.items.flatMap CItem.git ++
    (if s.trail then [.one 45] else [])

/-- NUL is `wildmatch`'s "no previous character" marker: no range may start with it -/
def CItem.nz : CItem → Bool
  | .one _ => true
  | .range lo _ => lo != 0

theorem git_clsItems_items (items : List CItem) (hok : items.all CItem.ok = true)
    (hnz : items.all CItem.nz = true) (tail : List Nat)
    (first : Bool) (prev : Nat) (acc : List GitSpec.ClsItem) (hne : items ≠ []) :
    ∃ prev', GitSpec.clsItems (itemsText items ++ tail) first prev acc =
      GitSpec.clsItems tail false prev' (acc ++ items.flatMap CItem.git) := by
  induction items generalizing first prev acc with
  | nil => exact absurd rfl hne
  | cons it items ih =>
    simp only [List.all_cons, Bool.and_eq_true] at hok hnz
    simp only [itemsText, List.flatMap_cons, List.append_assoc]
    -- one step over the first item
    obtain ⟨p1, hstep⟩ : ∃ p1, ∀ g, GitSpec.clsItems (it.text ++ g) first prev acc =
        GitSpec.clsItems g false p1 (acc ++ it.git) := by
      cases it with
      | one c =>
        simp only [CItem.ok, clsChar, Bool.and_eq_true, decide_eq_true_eq, bne_iff_ne, ne_eq] at hok
        obtain ⟨⟨⟨⟨_, h93⟩, h45⟩, h92⟩, _⟩ := hok
        refine ⟨c, fun g => ?_⟩
        simp only [CItem.text, List.cons_append, List.nil_append, CItem.git]
        rw [GitSpec.clsItems.eq_def]
        simp [h93, h45, h92]
      | range lo hi =>
        simp only [CItem.ok, clsChar, Bool.and_eq_true, decide_eq_true_eq, bne_iff_ne, ne_eq] at hok
        obtain ⟨⟨⟨⟨⟨⟨hlo, hl93⟩, hl45⟩, hl92⟩, ⟨⟨⟨_, hh93⟩, _⟩, hh92⟩⟩, _⟩, _⟩ := hok
        refine ⟨0, fun g => ?_⟩
        simp only [CItem.text, List.cons_append, List.nil_append, CItem.git]
        have hlo0 : lo ≠ 0 := by simpa [CItem.nz] using hnz.1
        have h1 : GitSpec.clsItems (lo :: 45 :: hi :: g) first prev acc =
            GitSpec.clsItems (45 :: hi :: g) false lo (acc ++ [.one lo]) := by
          rw [GitSpec.clsItems.eq_def]; simp [hl93, hl45, hl92]
        have h2 : GitSpec.clsItems (45 :: hi :: g) false lo (acc ++ [.one lo]) =
            GitSpec.clsItems g false 0 (acc ++ [.one lo] ++ [.range lo hi]) := by
          rw [GitSpec.clsItems.eq_def]; simp [hlo0, hh93, hh92]
        rw [h1, h2]; simp
    by_cases hi : items = []
    · subst hi
      exact ⟨p1, by simpa using hstep tail⟩
    · obtain ⟨p2, h2⟩ := ih hok.2 hnz.2 false p1 (acc ++ it.git) hi
      refine ⟨p2, ?_⟩
      rw [hstep]
      simp only [itemsText] at h2
      rw [h2]
      simp

theorem git_cls_close (trail : Bool) (rest : List Nat) (prev : Nat) (acc : List GitSpec.ClsItem) :
    GitSpec.clsItems ((if trail then [45] else []) ++ 93 :: rest) false prev acc =
      some (acc ++ (if trail then [.one 45] else []), rest) := by
  cases trail
  · simp only [Bool.false_eq_true, ↓reduceIte, List.nil_append, List.append_nil]
    rw [GitSpec.clsItems.eq_def]; simp
  · simp only [↓reduceIte, List.cons_append, List.nil_append]
    rw [GitSpec.clsItems.eq_def]
    simp only [Nat.reduceBEq, Bool.false_and, Bool.false_eq_true, ↓reduceIte, BEq.rfl, List.head?_cons,
      ne_eq, reduceCtorEq, not_false_eq_true, not_true_eq_false, Bool.and_false, decide_false,
      Bool.true_and, Bool.and_true]
    simp
    rw [GitSpec.clsItems.eq_def]; simp

def ClsSpec.nz (s : ClsSpec) : Bool := s.items.all CItem.nz

theorem git_clsItems_body (s : ClsSpec) (hw : s.wf = true) (hnz : s.nz = true) (rest : List Nat) :
    GitSpec.clsItems (s.body ++ rest) true 0 [] = some (s.gitItems, rest) := by
  obtain ⟨neg, first, items, trail⟩ := s
  simp only [ClsSpec.wf, Bool.and_eq_true, Bool.or_eq_true, beq_iff_eq] at hw
  obtain ⟨⟨⟨⟨⟨_, hfirst⟩, hitems⟩, htr⟩, hne⟩, _⟩ := hw
  simp only [ClsSpec.nz] at hnz
  simp only [ClsSpec.body, ClsSpec.gitItems, List.append_assoc, List.cons_append, List.nil_append]
  -- after the optional literal first character
  have hrest : ∀ (fst : Bool) (prev : Nat) (acc : List GitSpec.ClsItem), (items = [] → fst = false) →
      GitSpec.clsItems (itemsText items ++ ((if trail then [45] else []) ++ 93 :: rest)) fst prev acc =
        some (acc ++ items.flatMap CItem.git ++ (if trail then [.one 45] else []), rest) := by
    intro fst prev acc hf
    by_cases hi : items = []
    · subst hi
      have := hf rfl; subst this
      simp only [itemsText, List.flatMap_nil, List.nil_append, List.append_nil]
      exact git_cls_close trail rest prev acc
    · obtain ⟨p', hp'⟩ := git_clsItems_items items hitems hnz _ fst prev acc hi
      rw [hp', git_cls_close]
  rcases hfirst with (rfl | rfl) | rfl
  · have hi : items ≠ [] := by
      intro h; subst h; simp at hne
    simp only [Option.toList_none, List.nil_append, Option.map_none]
    have := hrest true 0 [] (fun h => absurd h hi)
    simpa using this
  · simp only [Option.toList_some, List.cons_append, List.nil_append, Option.map_some]
    rw [GitSpec.clsItems.eq_def]
    simp only [BEq.rfl, Bool.not_true, Bool.and_false, Bool.false_eq_true, ↓reduceIte, Nat.reduceBEq,
      Bool.false_and, List.nil_append]
    have := hrest false 93 [.one 93] (fun _ => rfl)
    simpa using this
  · simp only [Option.toList_some, List.cons_append, List.nil_append, Option.map_some]
    rw [GitSpec.clsItems.eq_def]
    simp only [Nat.reduceBEq, Bool.false_and, Bool.false_eq_true, ↓reduceIte, BEq.rfl, ne_eq,
      not_true_eq_false, decide_false, Bool.and_false, Bool.false_and, List.nil_append]
    have := hrest false 45 [.one 45] (fun _ => rfl)
    simpa using this

/-! ### membership: git's items against the documented ranges -/

def CItem.noUpper : CItem → Bool
  | .one c => !GitSpec.isUpper c
  | .range _ _ => true

/-- the class as one list of items (`]`/`-` first and `-` last are single characters) -/
def ClsSpec.all (s : ClsSpec) : List CItem :=
  s.first.toList.map CItem.one ++ s.items ++ (if s.trail then [.one 45] else [])

theorem ClsSpec.gitItems_eq (s : ClsSpec) : s.gitItems = s.all.flatMap CItem.git := by
  obtain ⟨neg, first, items, trail⟩ := s
  cases first <;> cases trail <;> simp [ClsSpec.gitItems, ClsSpec.all, CItem.git]

theorem ClsSpec.ranges_eq (s : ClsSpec) : s.ranges = s.all.map CItem.rng := by
  obtain ⟨neg, first, items, trail⟩ := s
  cases first <;> cases trail <;> simp [ClsSpec.ranges, ClsSpec.all, CItem.rng, Function.comp_def]

/-- what git tests for one item, and what the documented reading tests for its range -/
def gitTest (ci : Bool) (tb : Nat) : GitSpec.ClsItem → Bool
  | .one c => tb == c
  | .range lo hi => (lo ≤ tb && tb ≤ hi) ||
      (ci && GitSpec.isLower tb && lo ≤ GitSpec.toUpper tb && GitSpec.toUpper tb ≤ hi)

theorem git_clsHas_eq (ci : Bool) (items : List GitSpec.ClsItem) (tb : Nat) :
    GitSpec.clsHas ci items tb = items.any (gitTest ci tb) := by
  unfold GitSpec.clsHas
  congr 1

def docT (ci : Bool) (b lo hi : Nat) : Bool :=
  if ci then (lo ≤ lowerA b && lowerA b ≤ hi) || (lo ≤ upperA b && upperA b ≤ hi) || (lo ≤ b && b ≤ hi)
  else (lo ≤ b && b ≤ hi)

def docTest (ci : Bool) (b : Nat) (r : Nat × Nat) : Bool := docT ci b r.1 r.2

theorem any_or_any {α} (l : List α) (f g : α → Bool) :
    (l.any f || l.any g) = l.any fun x => f x || g x := by
  induction l with
  | nil => rfl
  | cons a l ih =>
    simp only [List.any_cons, ← ih]
    cases f a <;> cases g a <;> cases l.any f <;> cases l.any g <;> rfl

theorem doc_pos_eq (ci : Bool) (rs : List (Nat × Nat)) (b : Nat) :
    (if ci then inItems rs (lowerA b) || inItems rs (upperA b) || inItems rs b else inItems rs b) =
      rs.any (docTest ci b) := by
  cases ci
  · simp only [Bool.false_eq_true, ↓reduceIte, inItems]
    congr 1
  · simp only [↓reduceIte, inItems, any_or_any]
    congr 1

theorem one_test_eq (ci : Bool) (c : Nat) (hup : ci = true → GitSpec.isUpper c = false) (b : Nat) :
    gitTest ci (if ci then lowerA b else b) (.one c) = docT ci b c c := by
  cases ci
  · simp only [gitTest, Bool.false_eq_true, ↓reduceIte, docT]
    apply Bool.eq_iff_iff.mpr
    simp only [beq_iff_eq, Bool.and_eq_true, decide_eq_true_eq]
    omega
  · have hup := hup rfl
    simp only [GitSpec.isUpper, Bool.and_eq_false_iff, decide_eq_false_iff_not] at hup
    simp only [gitTest, ↓reduceIte, docT]
    apply Bool.eq_iff_iff.mpr
    simp only [beq_iff_eq, Bool.and_eq_true, Bool.or_eq_true, decide_eq_true_eq]
    unfold lowerA upperA
    split <;> split <;> omega

theorem range_test_eq (ci : Bool) (lo hi : Nat) (hle : lo ≤ hi) (b : Nat) :
    (gitTest ci (if ci then lowerA b else b) (.one lo) || gitTest ci (if ci then lowerA b else b) (.range lo hi)) =
      docT ci b lo hi := by
  cases ci
  · simp only [gitTest, Bool.false_eq_true, ↓reduceIte, docT, Bool.false_and, Bool.or_false]
    apply Bool.eq_iff_iff.mpr
    simp only [beq_iff_eq, Bool.and_eq_true, Bool.or_eq_true, decide_eq_true_eq]
    omega
  · simp only [gitTest, ↓reduceIte, docT, Bool.true_and, GitSpec.isLower, GitSpec.toUpper]
    apply Bool.eq_iff_iff.mpr
    simp only [beq_iff_eq, Bool.and_eq_true, Bool.or_eq_true, decide_eq_true_eq]
    unfold lowerA upperA
    split <;> split <;> (try split) <;> omega

def CItem.le : CItem → Bool
  | .one _ => true
  | .range lo hi => decide (lo ≤ hi)

theorem item_test_eq (ci : Bool) (it : CItem) (hok : it.le = true) (hup : ci = true → it.noUpper = true) (b : Nat) :
    it.git.any (gitTest ci (if ci then GitSpec.toLower b else b)) = docTest ci b it.rng := by
  simp only [toLower_eq]
  cases it with
  | one c =>
    simp only [CItem.git, List.any_cons, List.any_nil, Bool.or_false]
    exact one_test_eq ci c (fun h => by simpa [CItem.noUpper] using hup h) b
  | range lo hi =>
    simp only [CItem.le, decide_eq_true_eq] at hok
    simp only [CItem.git, List.any_cons, List.any_nil, Bool.or_false]
    exact range_test_eq ci lo hi hok b

theorem items_test_eq (ci : Bool) (items : List CItem) (hok : items.all CItem.le = true)
    (hup : ci = true → items.all CItem.noUpper = true) (b : Nat) :
    (items.flatMap CItem.git).any (gitTest ci (if ci then GitSpec.toLower b else b)) =
      (items.map CItem.rng).any (docTest ci b) := by
  induction items with
  | nil => rfl
  | cons it items ih =>
    simp only [List.all_cons, Bool.and_eq_true] at hok hup
    rw [List.flatMap_cons, List.any_append, List.map_cons, List.any_cons,
      item_test_eq ci it hok.1 (fun h => (hup h).1) b, ih hok.2 (fun h => (hup h).2)]

theorem ClsSpec.all_props (s : ClsSpec) (hw : s.wf = true) (ci : Bool)
    (hup : ci = true → s.items.all CItem.noUpper = true) :
    s.all.all CItem.le = true ∧ (ci = true → s.all.all CItem.noUpper = true) := by
  obtain ⟨neg, first, items, trail⟩ := s
  simp only [ClsSpec.wf, Bool.and_eq_true, Bool.or_eq_true, beq_iff_eq] at hw
  obtain ⟨⟨⟨⟨⟨_, hfirst⟩, hitems⟩, _⟩, _⟩, _⟩ := hw
  have hle : items.all CItem.le = true := by
    simp only [List.all_eq_true] at hitems ⊢
    intro it hit
    have := hitems it hit
    cases it with
    | one c => rfl
    | range lo hi =>
      simp only [CItem.ok, Bool.and_eq_true] at this
      exact this.2
  simp only [ClsSpec.all, List.all_append, Bool.and_eq_true]
  refine ⟨⟨⟨?_, hle⟩, by cases trail <;> simp [CItem.le]⟩, fun h => ⟨⟨?_, hup h⟩, by cases trail <;> simp [CItem.noUpper, GitSpec.isUpper]⟩⟩
  · rcases hfirst with (rfl | rfl) | rfl <;> simp [CItem.le]
  · rcases hfirst with (rfl | rfl) | rfl <;> simp [CItem.noUpper, GitSpec.isUpper]

/-- **a class has the same members for git and in the documented reading** (given: under case folding no
single upper-case letter is listed — git lower-cases the text but not the listed characters) -/
theorem cls_mem_eq (ci pn : Bool) (s : ClsSpec) (hw : s.wf = true)
    (hup : ci = true → s.items.all CItem.noUpper = true) (b : Nat) :
    (GitSpec.clsHas ci s.gitItems (if ci then GitSpec.toLower b else b) != s.isNeg) =
      clsHas (wmOpts ci pn) s.isNeg s.ranges b := by
  obtain ⟨hle, hnu⟩ := s.all_props hw ci hup
  unfold clsHas
  have hci : (wmOpts ci pn).ci = ci := rfl
  simp only [hci]
  rw [doc_pos_eq, git_clsHas_eq, s.gitItems_eq, s.ranges_eq, items_test_eq ci s.all hle hnu b]

end RgVerif.Glob
