import RgVerif.Lemmas.GitBlank
import RgVerif.Lemmas.GlobDocClass
/-
Bracket classes in gitignore lines: git's `wildmatch` reads a class exactly as `parse_class` + the regex class
do — provided the class does not accept `/` (where ripgrep really deviates: recorded finding) and, under
case-insensitive matching, lists no upper-case letter singly (git does not fold those).
-/
namespace RgVerif.Glob
open RgVerif RgVerif.GlobDoc

/-- the items `wildmatch` collects for one written item (a range also leaves its lower end as a single) -/
def CItem.git : CItem → List GitSpec.ClsItem
  | .one c => [.one c]
  | .range lo hi => [.one lo, .range lo hi]

def ClsSpec.gitItems (s : ClsSpec) : List GitSpec.ClsItem :=
  (s.first.map GitSpec.ClsItem.one).toList ++ s.items.flatMap CItem.git ++
    (if s.trail then [.one 45] else [])

/-- NUL is `wildmatch`'s "no previous character" marker: no range may start with it -/
def CItem.nz : CItem → Bool
  | .one _ => true
  | .range lo _ => lo != 0

theorem git_clsItems_items (items : List CItem) (hok : items.all CItem.ok = true)
    (hnz : items.all CItem.nz = true) (tail : List Nat)
    (first : Bool) (prev : Nat) (acc : List GitSpec.ClsItem) (hne : items ≠ []) :
    ∃ prev', GitSpec.clsItems (itemsText items ++ tail) first prev acc =
      GitSpec.clsItems tail false prev' (acc ++ items.flatMap CItem.git) := by
  induction items generalizing first prev acc with
  | nil => exact absurd rfl hne
  | cons it items ih =>
    simp only [List.all_cons, Bool.and_eq_true] at hok hnz
    simp only [itemsText, List.flatMap_cons, List.append_assoc]
    -- one step over the first item
    obtain ⟨p1, hstep⟩ : ∃ p1, ∀ g, GitSpec.clsItems (it.text ++ g) first prev acc =
        GitSpec.clsItems g false p1 (acc ++ it.git) := by
      cases it with
      | one c =>
        simp only [CItem.ok, clsChar, Bool.and_eq_true, decide_eq_true_eq, bne_iff_ne, ne_eq] at hok
        obtain ⟨⟨⟨⟨_, h93⟩, h45⟩, h92⟩, _⟩ := hok
        refine ⟨c, fun g => ?_⟩
        simp only [CItem.text, List.cons_append, List.nil_append, CItem.git]
        rw [GitSpec.clsItems.eq_def]
        simp [h93, h45, h92]
      | range lo hi =>
        simp only [CItem.ok, clsChar, Bool.and_eq_true, decide_eq_true_eq, bne_iff_ne, ne_eq] at hok
        obtain ⟨⟨⟨⟨⟨⟨hlo, hl93⟩, hl45⟩, hl92⟩, ⟨⟨⟨_, hh93⟩, _⟩, hh92⟩⟩, _⟩, _⟩ := hok
        refine ⟨0, fun g => ?_⟩
        simp only [CItem.text, List.cons_append, List.nil_append, CItem.git]
        have hlo0 : lo ≠ 0 := by simpa [CItem.nz] using hnz.1
        have h1 : GitSpec.clsItems (lo :: 45 :: hi :: g) first prev acc =
            GitSpec.clsItems (45 :: hi :: g) false lo (acc ++ [.one lo]) := by
          rw [GitSpec.clsItems.eq_def]; simp [hl93, hl45, hl92]
        have h2 : GitSpec.clsItems (45 :: hi :: g) false lo (acc ++ [.one lo]) =
            GitSpec.clsItems g false 0 (acc ++ [.one lo] ++ [.range lo hi]) := by
          rw [GitSpec.clsItems.eq_def]; simp [hlo0, hh93, hh92]
        rw [h1, h2]; simp
    by_cases hi : items = []
    · subst hi
      exact ⟨p1, by simpa using hstep tail⟩
    · obtain ⟨p2, h2⟩ := ih hok.2 hnz.2 false p1 (acc ++ it.git) hi
      refine ⟨p2, ?_⟩
      rw [hstep]
      simp only [itemsText] at h2
      rw [h2]
      simp

theorem git_cls_close (trail : Bool) (rest : List Nat) (prev : Nat) (acc : List GitSpec.ClsItem) :
    GitSpec.clsItems ((if trail then [45] else []) ++ 93 :: rest) false prev acc =
      some (acc ++ (if trail then [.one 45] else []), rest) := by
  cases trail
  · simp only [Bool.false_eq_true, ↓reduceIte, List.nil_append, List.append_nil]
    rw [GitSpec.clsItems.eq_def]; simp
  · simp only [↓reduceIte, List.cons_append, List.nil_append]
    rw [GitSpec.clsItems.eq_def]
    simp only [Nat.reduceBEq, Bool.false_and, Bool.false_eq_true, ↓reduceIte, BEq.rfl, List.head?_cons,
      ne_eq, reduceCtorEq, not_false_eq_true, not_true_eq_false, Bool.and_false, decide_false,
      Bool.true_and, Bool.and_true]
    simp
    rw [GitSpec.clsItems.eq_def]; simp

def ClsSpec.nz (s : ClsSpec) : Bool := s.items.all CItem.nz

theorem git_clsItems_body (s : ClsSpec) (hw : s.wf = true) (hnz : s.nz = true) (rest : List Nat) :
    GitSpec.clsItems (s.body ++ rest) true 0 [] = some (s.gitItems, rest) := by
  obtain ⟨neg, first, items, trail⟩ := s
  simp only [ClsSpec.wf, Bool.and_eq_true, Bool.or_eq_true, beq_iff_eq] at hw
  obtain ⟨⟨⟨⟨⟨_, hfirst⟩, hitems⟩, htr⟩, hne⟩, _⟩ := hw
  simp only [ClsSpec.nz] at hnz
  simp only [ClsSpec.body, ClsSpec.gitItems, List.append_assoc, List.cons_append, List.nil_append]
  -- after the optional literal first character
  have hrest : ∀ (fst : Bool) (prev : Nat) (acc : List GitSpec.ClsItem), (items = [] → fst = false) →
      GitSpec.clsItems (itemsText items ++ ((if trail then [45] else []) ++ 93 :: rest)) fst prev acc =
        some (acc ++ items.flatMap CItem.git ++ (if trail then [.one 45] else []), rest) := by
    intro fst prev acc hf
    by_cases hi : items = []
    · subst hi
      have := hf rfl; subst this
      simp only [itemsText, List.flatMap_nil, List.nil_append, List.append_nil]
      exact git_cls_close trail rest prev acc
    · obtain ⟨p', hp'⟩ := git_clsItems_items items hitems hnz _ fst prev acc hi
      rw [hp', git_cls_close]
  rcases hfirst with (rfl | rfl) | rfl
  · have hi : items ≠ [] := by
      intro h; subst h; simp at hne
    simp only [Option.toList_none, List.nil_append, Option.map_none]
    have := hrest true 0 [] (fun h => absurd h hi)
    simpa using this
  · simp only [Option.toList_some, List.cons_append, List.nil_append, Option.map_some]
    rw [GitSpec.clsItems.eq_def]
    simp only [BEq.rfl, Bool.not_true, Bool.and_false, Bool.false_eq_true, ↓reduceIte, Nat.reduceBEq,
      Bool.false_and, List.nil_append]
    have := hrest false 93 [.one 93] (fun _ => rfl)
    simpa using this
  · simp only [Option.toList_some, List.cons_append, List.nil_append, Option.map_some]
    rw [GitSpec.clsItems.eq_def]
    simp only [Nat.reduceBEq, Bool.false_and, Bool.false_eq_true, ↓reduceIte, BEq.rfl, ne_eq,
      not_true_eq_false, decide_false, Bool.and_false, Bool.false_and, List.nil_append]
    have := hrest false 45 [.one 45] (fun _ => rfl)
    simpa using this

/-! ### membership: git's items against the documented ranges -/

def CItem.noUpper : CItem → Bool
  | .one c => !GitSpec.isUpper c
  | .range _ _ => true

/-- the class as one list of items (`]`/`-` first and `-` last are single characters) -/
def ClsSpec.all (s : ClsSpec) : List CItem :=
  s.first.toList.map CItem.one ++ s.items ++ (if s.trail then [.one 45] else [])

theorem ClsSpec.gitItems_eq (s : ClsSpec) : s.gitItems = s.all.flatMap CItem.git := by
  obtain ⟨neg, first, items, trail⟩ := s
  cases first <;> cases trail <;> simp [ClsSpec.gitItems, ClsSpec.all, CItem.git]

theorem ClsSpec.ranges_eq (s : ClsSpec) : s.ranges = s.all.map CItem.rng := by
  obtain ⟨neg, first, items, trail⟩ := s
  cases first <;> cases trail <;> simp [ClsSpec.ranges, ClsSpec.all, CItem.rng, Function.comp_def]

/-- what git tests for one item, and what the documented reading tests for its range -/
def gitTest (ci : Bool) (tb : Nat) : GitSpec.ClsItem → Bool
  | .one c => tb == c
  | .range lo hi => (lo ≤ tb && tb ≤ hi) ||
      (ci && GitSpec.isLower tb && lo ≤ GitSpec.toUpper tb && GitSpec.toUpper tb ≤ hi)

theorem git_clsHas_eq (ci : Bool) (items : List GitSpec.ClsItem) (tb : Nat) :
    GitSpec.clsHas ci items tb = items.any (gitTest ci tb) := by
  unfold GitSpec.clsHas
  congr 1

def docT (ci : Bool) (b lo hi : Nat) : Bool :=
  if ci then (lo ≤ lowerA b && lowerA b ≤ hi) || (lo ≤ upperA b && upperA b ≤ hi) || (lo ≤ b && b ≤ hi)
  else (lo ≤ b && b ≤ hi)

def docTest (ci : Bool) (b : Nat) (r : Nat × Nat) : Bool := docT ci b r.1 r.2

theorem any_or_any {α} (l : List α) (f g : α → Bool) :
    (l.any f || l.any g) = l.any fun x => f x || g x := by
  induction l with
  | nil => rfl
  | cons a l ih =>
    simp only [List.any_cons, ← ih]
    cases f a <;> cases g a <;> cases l.any f <;> cases l.any g <;> rfl

theorem doc_pos_eq (ci : Bool) (rs : List (Nat × Nat)) (b : Nat) :
    (if ci then inItems rs (lowerA b) || inItems rs (upperA b) || inItems rs b else inItems rs b) =
      rs.any (docTest ci b) := by
  cases ci
  · simp only [Bool.false_eq_true, ↓reduceIte, inItems]
    congr 1
  · simp only [↓reduceIte, inItems, any_or_any]
    congr 1

theorem one_test_eq (ci : Bool) (c : Nat) (hup : ci = true → GitSpec.isUpper c = false) (b : Nat) :
    gitTest ci (if ci then lowerA b else b) (.one c) = docT ci b c c := by
  cases ci
  · simp only [gitTest, Bool.false_eq_true, ↓reduceIte, docT]
    apply Bool.eq_iff_iff.mpr
    simp only [beq_iff_eq, Bool.and_eq_true, decide_eq_true_eq]
    omega
  · have hup := hup rfl
    simp only [GitSpec.isUpper, Bool.and_eq_false_iff, decide_eq_false_iff_not] at hup
    simp only [gitTest, ↓reduceIte, docT]
    apply Bool.eq_iff_iff.mpr
    simp only [beq_iff_eq, Bool.and_eq_true, Bool.or_eq_true, decide_eq_true_eq]
    unfold lowerA upperA
    split <;> split <;> omega

theorem range_test_eq (ci : Bool) (lo hi : Nat) (hle : lo ≤ hi) (b : Nat) :
    (gitTest ci (if ci then lowerA b else b) (.one lo) || gitTest ci (if ci then lowerA b else b) (.range lo hi)) =
      docT ci b lo hi := by
  cases ci
  · simp only [gitTest, Bool.false_eq_true, ↓reduceIte, docT, Bool.false_and, Bool.or_false]
    apply Bool.eq_iff_iff.mpr
    simp only [beq_iff_eq, Bool.and_eq_true, Bool.or_eq_true, decide_eq_true_eq]
    omega
  · simp only [gitTest, ↓reduceIte, docT, Bool.true_and, GitSpec.isLower, GitSpec.toUpper]
    apply Bool.eq_iff_iff.mpr
    simp only [beq_iff_eq, Bool.and_eq_true, Bool.or_eq_true, decide_eq_true_eq]
    unfold lowerA upperA
    split <;> split <;> (try split) <;> omega

def CItem.le : CItem → Bool
  | .one _ => true
  | .range lo hi => decide (lo ≤ hi)

theorem item_test_eq (ci : Bool) (it : CItem) (hok : it.le = true) (hup : ci = true → it.noUpper = true) (b : Nat) :
    it.git.any (gitTest ci (if ci then GitSpec.toLower b else b)) = docTest ci b it.rng := by
  simp only [toLower_eq]
  cases it with
  | one c =>
    simp only [CItem.git, List.any_cons, List.any_nil, Bool.or_false]
    exact one_test_eq ci c (fun h => by simpa [CItem.noUpper] using hup h) b
  | range lo hi =>
    simp only [CItem.le, decide_eq_true_eq] at hok
    simp only [CItem.git, List.any_cons, List.any_nil, Bool.or_false]
    exact range_test_eq ci lo hi hok b

theorem items_test_eq (ci : Bool) (items : List CItem) (hok : items.all CItem.le = true)
    (hup : ci = true → items.all CItem.noUpper = true) (b : Nat) :
    (items.flatMap CItem.git).any (gitTest ci (if ci then GitSpec.toLower b else b)) =
      (items.map CItem.rng).any (docTest ci b) := by
  induction items with
  | nil => rfl
  | cons it items ih =>
    simp only [List.all_cons, Bool.and_eq_true] at hok hup
    rw [List.flatMap_cons, List.any_append, List.map_cons, List.any_cons,
      item_test_eq ci it hok.1 (fun h => (hup h).1) b, ih hok.2 (fun h => (hup h).2)]

theorem ClsSpec.all_props (s : ClsSpec) (hw : s.wf = true) (ci : Bool)
    (hup : ci = true → s.items.all CItem.noUpper = true) :
    s.all.all CItem.le = true ∧ (ci = true → s.all.all CItem.noUpper = true) := by
  obtain ⟨neg, first, items, trail⟩ := s
  simp only [ClsSpec.wf, Bool.and_eq_true, Bool.or_eq_true, beq_iff_eq] at hw
  obtain ⟨⟨⟨⟨⟨_, hfirst⟩, hitems⟩, _⟩, _⟩, _⟩ := hw
  have hle : items.all CItem.le = true := by
    simp only [List.all_eq_true] at hitems ⊢
    intro it hit
    have := hitems it hit
    cases it with
    | one c => rfl
    | range lo hi =>
      simp only [CItem.ok, Bool.and_eq_true] at this
      exact this.2
  simp only [ClsSpec.all, List.all_append, Bool.and_eq_true]
  refine ⟨⟨⟨?_, hle⟩, by cases trail <;> simp [CItem.le]⟩, fun h => ⟨⟨?_, hup h⟩, by cases trail <;> simp [CItem.noUpper, GitSpec.isUpper]⟩⟩
  · rcases hfirst with (rfl | rfl) | rfl <;> simp [CItem.le]
  · rcases hfirst with (rfl | rfl) | rfl <;> simp [CItem.noUpper, GitSpec.isUpper]

/-- **a class has the same members for git and in the documented reading** (given: under case folding no
single upper-case letter is listed — git lower-cases the text but not the listed characters) -/
theorem cls_mem_eq (ci pn : Bool) (s : ClsSpec) (hw : s.wf = true)
    (hup : ci = true → s.items.all CItem.noUpper = true) (b : Nat) :
    (GitSpec.clsHas ci s.gitItems (if ci then GitSpec.toLower b else b) != s.isNeg) =
      clsHas (wmOpts ci pn) s.isNeg s.ranges b := by
  obtain ⟨hle, hnu⟩ := s.all_props hw ci hup
  unfold clsHas
  have hci : (wmOpts ci pn).ci = ci := rfl
  simp only [hci]
  rw [doc_pos_eq, git_clsHas_eq, s.gitItems_eq, s.ranges_eq, items_test_eq ci s.all hle hnu b]

/-! ### `wildmatch` through a class -/

theorem text_head_neg (s : ClsSpec) (hw : s.wf = true) (R : List Nat) :
    ((s.text ++ R).head? == some 33 || (s.text ++ R).head? == some 94) = s.isNeg := by
  have h := classNeg_spec s hw R
  obtain ⟨neg, first, items, trail⟩ := s
  simp only [ClsSpec.wf, Bool.and_eq_true, Bool.or_eq_true, beq_iff_eq] at hw
  obtain ⟨⟨⟨⟨⟨hneg, hfirst⟩, _⟩, _⟩, _⟩, hlook⟩ := hw
  simp only [ClsSpec.isNeg, ClsSpec.text]
  rcases hneg with (rfl | rfl) | rfl
  · rcases hfirst with (rfl | rfl) | rfl
    · simp only [Option.isSome_none, Bool.false_eq_true, false_or] at hlook
      cases items with
      | nil => simp at hlook
      | cons it items' =>
        cases it <;> simp only [Bool.and_eq_true, bne_iff_ne, ne_eq] at hlook <;>
          simp [itemsText, CItem.text, hlook.1, hlook.2]
    · simp
    · simp
  · simp
  · simp

theorem wm_class (ci pn po : Bool) (s : ClsSpec) (hw : s.wf = true) (hnz : s.nz = true) (R : List Nat)
    (t : Bytes) :
    GitSpec.wm ci pn po (91 :: (s.text ++ R)) t =
      match t with
      | [] => false
      | b :: t' => (GitSpec.clsHas ci s.gitItems (if ci then GitSpec.toLower b else b) != s.isNeg) &&
          !(pn && b == 47) && GitSpec.wm ci pn false R t' := by
  have hcls : GitSpec.clsItems (if s.isNeg then (s.text ++ R).drop 1 else s.text ++ R) true 0 [] =
      some (s.gitItems, R) := by
    rw [← git_clsItems_body s hw hnz R, ClsSpec.text_eq]
    cases hn : s.neg <;> simp [ClsSpec.isNeg, hn]
  have hdrop : (s.text ++ R).drop ((s.text ++ R).length - R.length) = R := by
    have : (s.text ++ R).length - R.length = s.text.length := by simp
    rw [this]; simp
  rw [GitSpec.wm.eq_def]
  simp only [Nat.reduceBEq, Bool.false_eq_true, ↓reduceIte, BEq.rfl, text_head_neg s hw R, hcls, hdrop]
  cases t <;> rfl

/-! ### `wildmatch` on runs and classes -/

/-- what the git comparison needs of a piece: under case folding no escapes in runs and no single upper-case
letters in classes; a class lists no range starting at NUL and does not accept `/` -/
def Piece.gitOk (ci : Bool) : Piece → Bool
  | .run g => !ci || !g.contains 92
  | .cls s => s.nz && (!ci || s.items.all CItem.noUpper) && !(clsHas (wmOpts ci true) s.isNeg s.ranges 47)

theorem poIndep_after_run (ci pn : Bool) (g : List Nat) (rest : List Piece)
    (hok : piecesOk true (.run g :: rest) = true) (hg : rest.all (Piece.gitOk ci) = true) :
    PoIndep ci pn (piecesText rest) := by
  cases rest with
  | nil => exact poIndep_nil ci pn
  | cons q rest' =>
    cases q with
    | run g' => simp [piecesOk] at hok
    | cls s =>
      simp only [piecesOk, Bool.and_eq_true] at hok
      simp only [List.all_cons, Piece.gitOk, Bool.and_eq_true] at hg
      intro po po' t
      rw [piecesText_cons]
      simp only [Piece.text, List.cons_append]
      rw [wm_class ci pn po s hok.1.2 hg.1.1.1, wm_class ci pn po' s hok.1.2 hg.1.1.1]

theorem wm_pieces (ci pn : Bool) (ps : List Piece) (hok : piecesOk true ps = true)
    (hg : ps.all (Piece.gitOk ci) = true) (po : Bool) (t : Bytes) :
    GitSpec.wm ci pn po (piecesText ps) t =
      atomsMatch (wmOpts ci pn) ((piecesToks true ps).map trAtom) t := by
  induction ps generalizing po t with
  | nil => simp [piecesText, piecesToks, wm_nil, atomsMatch]
  | cons p rest ih =>
    have hrest := piecesOk_tail true p rest hok
    simp only [List.all_cons, Bool.and_eq_true] at hg
    have ih' := fun po t => ih hrest hg.2 po t
    rw [piecesText_cons, piecesToks_cons, List.map_append]
    cases p with
    | run g =>
      simp only [Piece.text, Piece.toks]
      have hci : ci = true → 92 ∉ g := by
        intro h hm
        have := hg.1
        simp [Piece.gitOk, h, hm] at this
      rw [wm_simple_pre ci pn g (piecesText rest) (piecesOk_run true g rest hok) hci
        (piecesText_head true g rest hok) (poIndep_after_run ci pn g rest hok hg.2) po t,
        atomsMatch_append]
      congr 1
      funext r
      exact ih' true r
    | cls s =>
      have hw : s.wf = true := by simp only [piecesOk, Bool.and_eq_true] at hok; exact hok.1
      have hgs := hg.1
      simp only [Piece.gitOk, Bool.and_eq_true, Bool.not_eq_eq_eq_not, Bool.not_true] at hgs
      simp only [Piece.text, Piece.toks, List.cons_append, List.map_cons, List.map_nil, trAtom,
        List.nil_append]
      rw [wm_class ci pn po s hw hgs.1.1]
      cases t with
      | nil => simp [atomsMatch]
      | cons b t' =>
        simp only [atomsMatch]
        rw [cls_mem_eq ci pn s hw (fun h => by simpa [h] using hgs.1.2) b, ih' false t']
        by_cases hb : b = 47
        · subst hb
          have h47 : clsHas (wmOpts ci pn) s.isNeg s.ranges 47 = false := hgs.2
          simp [h47]
        · have : (b == 47) = false := by simpa using hb
          simp [this]

end RgVerif.Glob

namespace RgVerif.Gitignore
open RgVerif RgVerif.Glob RgVerif.GlobDoc

/-! ### gitignore lines whose core is made of wildcard runs and bracket classes -/

/-- the conditions on such a core; the `**` bookkeeping of `add_line` (`actual`) is part of the guard -/
structure ClassCoreOK (ci abs : Bool) (ps : List Piece) : Prop where
  ok : piecesOk true ps = true
  git : ps.all (Piece.gitOk ci) = true
  head : ∃ c0 tl, piecesText ps = c0 :: tl ∧ c0 ≠ 92 ∧ c0 ≠ 33 ∧ c0 ≠ 47 ∧ c0 ≠ 35
  last : ∃ cl, (piecesText ps).getLast? = some cl ∧ cl ≠ 47 ∧ cl ≠ 92 ∧ cl ≠ 32 ∧ isWs cl = false
  actual : actualOf abs (piecesText ps) =
    if !abs && !(piecesText ps).contains 47 then [42, 42, 47] ++ piecesText ps else piecesText ps
  dpos : GitSpec.okDstarPos (piecesText ps) = true

def okClassCore (ci abs : Bool) (ps : List Piece) : Bool :=
  piecesOk true ps && ps.all (Piece.gitOk ci) &&
  (match (piecesText ps).head? with
   | some c0 => c0 != 92 && c0 != 33 && c0 != 47 && c0 != 35
   | none => false) &&
  (match (piecesText ps).getLast? with
   | some cl => cl != 47 && cl != 92 && cl != 32 && !isWs cl
   | none => false) &&
  GitSpec.okDstarPos (piecesText ps) &&
  (actualOf abs (piecesText ps) ==
    if !abs && !(piecesText ps).contains 47 then [42, 42, 47] ++ piecesText ps else piecesText ps)

theorem classCoreOK_of {ci abs : Bool} {ps : List Piece} (h : okClassCore ci abs ps = true) :
    ClassCoreOK ci abs ps := by
  unfold okClassCore at h
  obtain ⟨h, h5⟩ := (Bool.and_eq_true _ _).mp h
  have h5 := eq_of_beq h5
  simp only [Bool.and_eq_true] at h
  obtain ⟨⟨⟨⟨h1, h2⟩, h3⟩, h4⟩, h6⟩ := h
  refine ⟨h1, h2, ?_, ?_, h5, h6⟩
  · cases hc : piecesText ps with
    | nil => simp [hc] at h3
    | cons c0 tl =>
      simp only [hc, List.head?_cons, Bool.and_eq_true, bne_iff_ne, ne_eq] at h3
      exact ⟨c0, tl, rfl, h3.1.1.1, h3.1.1.2, h3.1.2, h3.2⟩
  · cases hl : (piecesText ps).getLast? with
    | none => simp [hl] at h4
    | some cl =>
      simp only [hl, Bool.and_eq_true, bne_iff_ne, ne_eq, Bool.not_eq_eq_eq_not, Bool.not_true] at h4
      exact ⟨cl, rfl, h4.1.1.1, h4.1.1.2, h4.1.2, h4.2⟩

theorem parse_pieces (o : Opts) (ps : List Piece) (hok : piecesOk o.be ps = true) :
    parse o (piecesText ps) = .ok ((piecesToks o.be ps).map Token.s) := by
  unfold parse
  rw [parseLoop_pieces o ps hok _ _ rfl (by omega)]
  simp [PState.depth]

theorem parse_dstar_pieces (o : Opts) (ps : List Piece) (hok : piecesOk o.be ps = true) :
    parse o ([42, 42, 47] ++ piecesText ps) = .ok (.s .recPrefix :: (piecesToks o.be ps).map Token.s) := by
  unfold parse
  simp only [List.cons_append, List.nil_append, List.length_cons]
  unfold parseLoop
  simp only [Nat.reduceBEq, Bool.false_eq_true, ↓reduceIte, BEq.rfl]
  unfold parseStar
  simp only [PState.haveTokens, List.isEmpty_nil, Bool.not_true, Bool.not_false, ↓reduceIte, isSep,
    BEq.rfl]
  rw [parseLoop_pieces o ps hok _ _ (by simp [PState.push]) (by omega)]
  simp [PState.depth, PState.push]

/-- ripgrep's glob for such a line -/
def rgGlobC (ci neg abs dir : Bool) (ps : List Piece) : GiGlob :=
  let single := !abs && !(piecesText ps).contains 47
  { original := lineOf neg abs dir (piecesText ps),
    actual := if single then [42, 42, 47] ++ piecesText ps else piecesText ps,
    isWhitelist := neg, isOnlyDir := dir,
    glob := { opts := giOpts ci,
              tokens := if single then .s .recPrefix :: (piecesToks true ps).map Token.s
                        else (piecesToks true ps).map Token.s } }

theorem addLine_lineOfC (ci neg abs dir : Bool) (ps : List Piece) (h : ClassCoreOK ci abs ps) :
    addLine ci (lineOf neg abs dir (piecesText ps)) = .glob (rgGlobC ci neg abs dir ps) := by
  obtain ⟨c0, tl, hcore, h92, h33, h47, h35⟩ := h.head
  obtain ⟨cl, hlast, hl47, hl92, hl32, hlws⟩ := h.last
  unfold addLine
  rw [lineOf_startsWith35 neg abs dir hcore h35]
  simp only [Bool.false_eq_true, ↓reduceIte]
  rw [lineOf_trim neg abs dir hlast hlws hl32, lineOf_ne_nil neg abs dir hcore]
  simp only [Bool.false_eq_true, ↓reduceIte]
  rw [lineOf_splitPrefix neg abs dir hcore ⟨h92, h33, h47⟩]
  have hne2 : (piecesText ps ++ (if dir then [47] else [])).isEmpty = false := by
    rw [hcore]; simp
  simp only [hne2, Bool.false_eq_true, ↓reduceIte]
  rw [splitDirSlash_core dir hlast ⟨hl47, hl92⟩]
  simp only
  have hne3 : (piecesText ps).isEmpty = false := by rw [hcore]; simp
  simp only [hne3, Bool.and_false, Bool.false_eq_true, ↓reduceIte]
  rw [h.actual]
  unfold rgGlobC
  cases hs : (!abs && !(piecesText ps).contains 47)
  · simp only [Bool.false_eq_true, ↓reduceIte]
    rw [parse_pieces (giOpts ci) ps h.ok]
    rfl
  · simp only [↓reduceIte]
    rw [parse_dstar_pieces (giOpts ci) ps h.ok]
    rfl

/-- git's `parse_path_pattern` on a line around any core with harmless first and last characters -/
theorem parsePat_lineOf' (neg abs dir : Bool) (core : List Nat)
    (hhead : ∃ c0 tl, core = c0 :: tl ∧ c0 ≠ 92 ∧ c0 ≠ 33 ∧ c0 ≠ 47 ∧ c0 ≠ 35)
    (hlast : ∃ cl, core.getLast? = some cl ∧ cl ≠ 47 ∧ cl ≠ 92 ∧ cl ≠ 32 ∧ isWs cl = false) :
    GitSpec.parsePat (lineOf neg abs dir core) =
      some { negative := neg, mustBeDir := dir, noDir := !abs && !core.contains 47, text := core } := by
  obtain ⟨c0, tl, hcore, h92, h33, h47, h35⟩ := hhead
  obtain ⟨cl, hlast, hl47, hl92, hl32, hlws⟩ := hlast
  have hl := lineOf_getLast (core := core) neg abs dir hlast
  have hne : lineOf neg abs dir core ≠ [] := by
    intro hn; have := lineOf_ne_nil (core := core) neg abs dir hcore; simp [hn] at this
  have htrim : GitSpec.trimSpaces (lineOf neg abs dir core) = lineOf neg abs dir core := by
    unfold GitSpec.trimSpaces
    rw [trimSpaces_go_last _ _ _ hne (by rw [hl]; cases dir <;> simp [hl32])]; rfl
  have hhead : ((lineOf neg abs dir core).isEmpty || (lineOf neg abs dir core).head? == some 35) = false := by
    rw [hcore]
    cases neg <;> cases abs <;> simp [lineOf, h35]
  unfold GitSpec.parsePat
  rw [hhead, htrim]
  simp only [Bool.false_eq_true, ↓reduceIte]
  rw [stripNeg_lineOf neg abs dir hcore h33]
  simp only
  rw [stripDir_lineOf abs dir hlast hl47]
  simp only
  rw [contains_lineOf abs _ rfl, stripLead_lineOf abs hcore h47]
  simp

/-! ### matching -/

def slashFreeTokC (ci : Bool) : Tok → Bool
  | .cls neg rs => !(clsHas (wmOpts ci true) neg rs 47)
  | t => slashFreeTok t

def simpleTokC : Tok → Bool
  | .cls _ _ => true
  | t => simpleTok t

theorem atomsMatch_slashfreeC (ci : Bool) (ts : List Tok) (hts : ∀ t ∈ ts, slashFreeTokC ci t = true) (t : Bytes)
    (h : atomsMatch (wmOpts ci true) (ts.map trAtom) t = true) : 47 ∉ t := by
  induction ts generalizing t with
  | nil => simp [atomsMatch] at h; simp [h]
  | cons tk ts ih =>
    have ih' := fun t => ih (fun x hx => hts x (by simp [hx])) t
    have htk := hts tk (by simp)
    cases tk with
    | cls n rs =>
      simp only [slashFreeTokC, Bool.not_eq_eq_eq_not, Bool.not_true] at htk
      cases t with
      | nil => simp
      | cons b t' =>
        simp only [List.map_cons, trAtom, atomsMatch, Bool.and_eq_true] at h
        have hb : b ≠ 47 := by
          intro hb; subst hb
          rw [htk] at h; exact absurd h.1 (by simp)
        simp only [List.mem_cons, not_or]
        exact ⟨fun h' => hb h'.symm, ih' t' h.2⟩
    | lit c =>
      simp only [slashFreeTokC, slashFreeTok, Bool.and_eq_true, decide_eq_true_eq, bne_iff_ne, ne_eq] at htk
      cases t with
      | nil => simp
      | cons b t' =>
        simp only [List.map_cons, trAtom, atomsMatch, Bool.and_eq_true] at h
        have hb : b ≠ 47 := by
          intro hb; subst hb
          have := h.1
          unfold sameChar wmOpts at this
          cases ci
          · simp at this; exact htk.2 this
          · simp only [↓reduceIte, beq_iff_eq] at this
            exact htk.2 (lowerA_47 (by rw [this]; rfl))
        simp only [List.mem_cons, not_or]
        exact ⟨fun h' => hb h'.symm, ih' t' h.2⟩
    | any =>
      cases t with
      | nil => simp
      | cons b t' =>
        simp only [List.map_cons, trAtom, atomsMatch, Bool.and_eq_true, wild, wmOpts, Bool.true_and,
          Bool.not_eq_eq_eq_not, Bool.not_true, beq_eq_false_iff_ne, ne_eq] at h
        simp only [List.mem_cons, not_or]
        exact ⟨fun h' => h.1 h'.symm, ih' t' h.2⟩
    | star =>
      simp only [List.map_cons, trAtom, atomsMatch, List.any_eq_true, Bool.and_eq_true, Prod.exists] at h
      obtain ⟨x, r, hm, hx, hr⟩ := h
      rw [mem_splits hm]
      simp only [List.mem_append, not_or]
      refine ⟨?_, ih' r hr⟩
      intro h47
      have := List.all_eq_true.mp hx 47 h47
      simp [wild, wmOpts] at this
    | recPrefix => simp [slashFreeTokC, slashFreeTok] at htk
    | recSuffix => simp [slashFreeTokC, slashFreeTok] at htk
    | recZero => simp [slashFreeTokC, slashFreeTok] at htk

theorem atomsMatch_ls_irrelevantC (ci : Bool) (ts : List Tok) (hts : ∀ t ∈ ts, simpleTokC t = true) (t : Bytes)
    (ht : 47 ∉ t) :
    atomsMatch (wmOpts ci false) (ts.map trAtom) t = atomsMatch (wmOpts ci true) (ts.map trAtom) t := by
  induction ts generalizing t with
  | nil => rfl
  | cons tk ts ih =>
    have ih' := fun t ht => ih (fun x hx => hts x (by simp [hx])) t ht
    have htk := hts tk (by simp)
    cases tk with
    | cls n rs =>
      cases t with
      | nil => rfl
      | cons b t' =>
        simp only [List.mem_cons, not_or] at ht
        simp only [List.map_cons, trAtom, atomsMatch, ih' t' ht.2]
        rfl
    | lit c =>
      cases t with
      | nil => rfl
      | cons b t' =>
        simp only [List.mem_cons, not_or] at ht
        simp only [List.map_cons, trAtom, atomsMatch, ih' t' ht.2]
        rfl
    | any =>
      cases t with
      | nil => rfl
      | cons b t' =>
        simp only [List.mem_cons, not_or] at ht
        have hb : (b == 47) = false := by simpa using (fun h => ht.1 h.symm : b ≠ 47)
        simp only [List.map_cons, trAtom, atomsMatch, ih' t' ht.2]
        simp [wild, wmOpts, hb]
    | star =>
      simp only [List.map_cons, trAtom, atomsMatch]
      apply any_congr_mem
      rintro ⟨x, r⟩ hm
      have hsplit := mem_splits hm
      have hx : 47 ∉ x := fun h => ht (by rw [hsplit]; simp [h])
      have hr : 47 ∉ r := fun h => ht (by rw [hsplit]; simp [h])
      simp only [ih' r hr]
      congr 1
      have h1 : x.all (wild (wmOpts ci false)) = true := by simp [wild, wmOpts]
      have h2 : x.all (wild (wmOpts ci true)) = true := by
        simp only [List.all_eq_true]
        intro b hb
        have : b ≠ 47 := fun h => hx (h ▸ hb)
        simp [wild, wmOpts, this]
      rw [h1, h2]
    | recPrefix => simp [simpleTokC, simpleTok] at htk
    | recSuffix => simp [simpleTokC, simpleTok] at htk
    | recZero => simp [simpleTokC, simpleTok] at htk

theorem piecesOk_mem (ps : List Piece) (hok : piecesOk true ps = true) :
    ∀ p ∈ ps, match p with
      | .run g => simpleGlob true g = true
      | .cls s => s.wf = true := by
  induction ps with
  | nil => simp
  | cons q rest ih =>
    intro p hp
    rcases List.mem_cons.mp hp with rfl | hp
    · cases p with
      | run g => exact piecesOk_run true g rest hok
      | cls s => simp only [piecesOk, Bool.and_eq_true] at hok; exact hok.1
    · exact ih (piecesOk_tail true q rest hok) p hp

theorem piecesToks_ne_nil (ps : List Piece) (hok : piecesOk true ps = true) (hne : piecesText ps ≠ []) :
    piecesToks true ps ≠ [] := by
  induction ps with
  | nil => simp [piecesText] at hne
  | cons p rest ih =>
    rw [piecesToks_cons]
    cases p with
    | cls s => simp [Piece.toks]
    | run g =>
      by_cases hg : g = []
      · subst hg
        rw [piecesText_cons] at hne
        simpa [Piece.toks, simpleToks] using ih (piecesOk_tail true _ rest hok) (by simpa [Piece.text] using hne)
      · have := simpleToks_ne_nil g (piecesOk_run true g rest hok) hg
        simp [Piece.toks, this]

theorem piecesToks_simpleC (ps : List Piece) (hok : piecesOk true ps = true) :
    ∀ t ∈ piecesToks true ps, simpleTokC t = true := by
  intro t ht
  rcases piecesToks_kind true ps hok t ht with h | h <;> cases t <;> simp_all [simpleTokC, asciiCls]

theorem piecesToks_slashfree (ci : Bool) (ps : List Piece) (hok : piecesOk true ps = true)
    (hg : ps.all (Piece.gitOk ci) = true) (h47 : 47 ∉ piecesText ps) :
    ∀ t ∈ piecesToks true ps, slashFreeTokC ci t = true := by
  intro t ht
  simp only [piecesToks, List.mem_flatMap] at ht
  obtain ⟨p, hp, htp⟩ := ht
  have hpok := piecesOk_mem ps hok p hp
  have hpg := List.all_eq_true.mp hg p hp
  cases p with
  | run g =>
    have hg47 : 47 ∉ g := fun h => h47 (by
      simp only [piecesText, List.mem_flatMap]; exact ⟨_, hp, by simpa [Piece.text] using h⟩)
    have := slashFree_of_no_slash g hpok hg47 t (by simpa [Piece.toks] using htp)
    cases t <;> simp_all [slashFreeTokC, slashFreeTok]
  | cls s =>
    simp only [Piece.toks, List.mem_singleton] at htp
    subst htp
    simp only [Piece.gitOk, Bool.and_eq_true] at hpg
    simpa [slashFreeTokC] using hpg.2

theorem rgGlobC_matches (ci neg abs dir : Bool) (ps : List Piece) (h : ClassCoreOK ci abs ps)
    (rel : List Bytes) (hwf : wfRel rel = true) :
    (rgGlobC ci neg abs dir ps).glob.isMatch (joinPath rel) =
      (if !abs && !(piecesText ps).contains 47 then GitSpec.wm ci false true (piecesText ps) (rel.getLast?.getD [])
       else GitSpec.wm ci true true (piecesText ps) (joinPath rel)) := by
  obtain ⟨c0, tl, hcore, _⟩ := h.head
  have hne : piecesText ps ≠ [] := by rw [hcore]; simp
  have hkind := piecesToks_kind true ps h.ok
  have htsC := piecesToks_simpleC ps h.ok
  have htne := piecesToks_ne_nil ps h.ok hne
  have hstar : ∀ t ∈ piecesToks true ps, starTok t = true := by
    intro t ht
    rcases hkind t ht with h' | h' <;> simp [starTok, h']
  have hflat : (piecesToks true ps).flatMap trAtoms = (piecesToks true ps).map trAtom := by
    generalize piecesToks true ps = ts at hkind
    induction ts with
    | nil => rfl
    | cons t ts ih =>
      rw [List.flatMap_cons, List.map_cons, ih (fun x hx => hkind x (by simp [hx]))]
      rcases hkind t (by simp) with h' | h' <;> cases t <;> simp_all [trAtoms, simpleTok, asciiCls]
  have hA : ∀ r, tokensK (giOpts ci) ((piecesToks true ps).map Token.s) (fun r => r.isEmpty) r =
      atomsMatch (wmOpts ci true) ((piecesToks true ps).map trAtom) r := by
    intro r
    rw [tokensK_eq_atomsMatch_star (giOpts ci) _ hstar r, hflat]
    rfl
  unfold wfRel at hwf
  simp only [Bool.and_eq_true, Bool.not_eq_eq_eq_not, Bool.not_true, List.isEmpty_eq_false_iff,
    ne_eq, List.all_eq_true] at hwf
  unfold rgGlobC Glob.isMatch
  cases hs : (!abs && !(piecesText ps).contains 47)
  · simp only [Bool.false_eq_true, ↓reduceIte]
    rw [tokMatch_eq _ _ _ (by
      intro hc
      cases hst : piecesToks true ps with
      | nil => exact htne hst
      | cons t ts =>
        rw [hst] at hc
        simp only [List.map_cons, List.cons.injEq, Token.s.injEq] at hc
        rcases hkind t (by rw [hst]; simp) with h' | h' <;> rw [hc.1] at h' <;> simp [simpleTok, asciiCls] at h'),
      hA, wm_pieces ci true ps h.ok h.git]
  · simp only [↓reduceIte]
    have h47 : 47 ∉ piecesText ps := by
      simp only [Bool.and_eq_true, Bool.not_eq_eq_eq_not, Bool.not_true] at hs
      simpa using hs.2
    have hfree := piecesToks_slashfree ci ps h.ok h.git h47
    rw [tokMatch_eq _ _ _ (by
      intro hc
      simp only [List.cons.injEq, true_and, List.map_eq_nil_iff] at hc
      exact htne hc),
      recPrefix_slashfree (giOpts ci) _ _ hA
        (fun r hr => atomsMatch_slashfreeC ci _ hfree r hr),
      lastComp_joinPath_eq rel hwf.1 hwf.2]
    have hb : 47 ∉ rel.getLast?.getD [] := by
      cases hl : rel.getLast? with
      | none => simp
      | some b =>
        have hw := hwf.2 b (List.mem_of_getLast? hl)
        simp only [wfName, Bool.and_eq_true, Bool.not_eq_eq_eq_not, Bool.not_true] at hw
        simpa using hw.1.1.2
    rw [← atomsMatch_ls_irrelevantC ci _ htsC _ hb, wm_pieces ci false ps h.ok h.git]

/-- **`addline_wildmatch`** on lines with bracket classes -/
theorem lineAgree_lineOfC (ci neg abs dir : Bool) (ps : List Piece) (h : ClassCoreOK ci abs ps) :
    LineAgree ci (lineOf neg abs dir (piecesText ps)) := by
  intro rel isDir hwf
  unfold mHit sHit
  rw [addLine_lineOfC ci neg abs dir ps h, parsePat_lineOf' neg abs dir _ h.head h.last]
  have hm := rgGlobC_matches ci neg abs dir ps h rel hwf
  simp only [GiGlob.hits, GitSpec.patMatches, GitSpec.matchPathname_eq_wm _ _ _ h.dpos, hm, joinComps_eq]
  simp only [rgGlobC]
  cases (!abs && !(piecesText ps).contains 47) <;> simp [Bool.and_comm]

/-- gitignore lines `[!][/]core[/]` whose core is made of wildcard runs (literals, `?`, single `*`, `\x`, `/`)
and bracket classes (`[…]`, `[!…]`, `[^…]`, single characters and ranges) that do not accept `/`; under case
folding: no escapes and no single upper-case letters in classes -/
def okLineC (ci : Bool) (l : List Nat) : Bool :=
  let d := decomposeW l
  let ps := scanPieces true (d.2.2.2.length + 1) d.2.2.2 []
  lineOf d.1 d.2.1 d.2.2.1 (piecesText ps) == l && okClassCore ci d.2.1 ps

theorem lineAgree_of_okLineC (ci : Bool) (l : List Nat) (h : okLineC ci l = true) : LineAgree ci l := by
  unfold okLineC at h
  simp only [Bool.and_eq_true, beq_iff_eq] at h
  rw [← h.1]
  exact lineAgree_lineOfC ci _ _ _ _ (classCoreOK_of h.2)

/-- the same followed by unescaped spaces (both sides drop them) -/
def okLineCB (ci : Bool) (l : List Nat) : Bool :=
  let l0 := (l.reverse.dropWhile (· == 32)).reverse
  okLineC ci l0 && (l0 ++ spaces (l.length - l0.length) == l) &&
  (match l0.getLast? with
   | some c => !isWs c && c != 92 && c != 32
   | none => false)

theorem lineAgree_of_okLineCB (ci : Bool) (l : List Nat) (h : okLineCB ci l = true) : LineAgree ci l := by
  unfold okLineCB at h
  simp only [Bool.and_eq_true, beq_iff_eq] at h
  obtain ⟨⟨h1, h2⟩, h3⟩ := h
  rw [← h2]
  cases hl : ((l.reverse.dropWhile (· == 32)).reverse).getLast? with
  | none => simp [hl] at h3
  | some c =>
    simp only [hl, Bool.and_eq_true, Bool.not_eq_eq_eq_not, Bool.not_true, bne_iff_ne, ne_eq] at h3
    exact lineAgree_blank ci _ _ hl h3.1.1 h3.1.2 h3.2 (lineAgree_of_okLineC ci _ h1)

-- `*.[oa]`, `!/b/[a-z]*.l`, `x[]a-]y`;  outside: `a[!b]c` and `[+-0]` (accept `/`), `[A]` under case folding
example : okLineC false [42, 46, 91, 111, 97, 93] = true ∧
    okLineC true [33, 47, 98, 47, 91, 97, 45, 122, 93, 42, 46, 108] = true ∧
    okLineC false [120, 91, 93, 97, 45, 93, 121] = true ∧
    okLineC false [97, 91, 33, 98, 93, 99] = false ∧
    okLineC false [91, 43, 45, 48, 93] = false ∧
    okLineC true [91, 65, 93] = false ∧ okLineC false [91, 65, 93] = true ∧
    okLineCB false [42, 46, 91, 111, 97, 93, 32, 32] = true := by decide

end RgVerif.Gitignore
