import RgVerif.Lemmas.ReadByLineGSlice
import RgVerif.Lemmas.ReadByLineLoop
namespace RgVerif.Searcher
open RgVerif RgVerif.Matcher RgVerif.Lines RgVerif.GrepSpec RgVerif.LineBuffer

theorem roll_noCtxG {cfg : Config} (h : NoCtx' cfg) (buf : Bytes) (st : Core) :
    ∃ c1, roll cfg buf st = (c1, buf.length) ∧ c1.events = st.events ∧
      c1.absoluteByteOffset = st.absoluteByteOffset + buf.length ∧
      c1.afterContextLeft = st.afterContextLeft ∧ c1.binaryByteOffset = st.binaryByteOffset ∧
      c1.lastLineCounted = 0 ∧ c1.pos = 0 ∧ c1.lineNumber = lnAt cfg buf st buf.length ∧
      c1.hasMatched = st.hasMatched := by
  have hco := countLines_other cfg buf st buf.length
  have hcl := countLines_ln cfg buf st buf.length
  have hhm : (countLines cfg buf st buf.length).hasMatched = st.hasMatched := by
    unfold countLines; split; rfl; split <;> rfl
  have hr : roll cfg buf st =
      ({ (countLines cfg buf st buf.length) with
          absoluteByteOffset := (countLines cfg buf st buf.length).absoluteByteOffset + buf.length,
          lastLineCounted := 0, lastLineVisited := 0, pos := 0 }, buf.length) := by
    unfold roll
    simp [Config.maxContext, h.hA, h.hB]
  refine ⟨_, hr, hco.1, ?_, hco.2.2.1, hco.2.2.2.1, rfl, rfl, hcl, hhm⟩
  show (countLines cfg buf st buf.length).absoluteByteOffset + buf.length = _
  rw [hco.2.1]

/-- `ReadByLine::fill` without context lines, binary detection off (the sink is not consulted). -/
theorem rblFill_G {cfg : Config} {lbcfg : LineBuffer.Config} {inp : Bytes} (h : NoCtx' cfg) (σ : Script)
    (hlt : lbcfg.lineterm = cfg.lineTerm.asByte) (hb : lbcfg.binary = .none) (hal : lbcfg.alloc = .eager)
    {s : RBL} (hI : ∃ a mm rest, LineBuffer.Inv lbcfg inp s.lb s.rdr a mm rest) (hnz0 : NoZero s.rdr.script)
    (hlbbin : s.lb.binOff = none) :
    ∃ s1, rblFill cfg σ s = (s1, .ok (!s1.lb.buffer.isEmpty)) ∧
      (∃ a mm rest, LineBuffer.Inv lbcfg inp s1.lb s1.rdr a mm rest) ∧ NoZero s1.rdr.script ∧
      s1.lb.abs = s.lb.abs + s.lb.buffer.length ∧ s1.lb.binOff = none ∧
      s1.lb.buffer = window inp s1.lb.abs s1.lb.buffer.length ∧
      s1.lb.abs + s1.lb.buffer.length ≤ inp.length ∧
      (s1.lb.buffer.getLast? = some cfg.lineTerm.asByte ∨ s1.lb.abs + s1.lb.buffer.length = inp.length) ∧
      s1.core.events = s.core.events ∧
      s1.core.absoluteByteOffset = s.core.absoluteByteOffset + s.lb.buffer.length ∧
      s1.core.afterContextLeft = s.core.afterContextLeft ∧ s1.core.binaryByteOffset = s.core.binaryByteOffset ∧
      s1.core.lastLineCounted = 0 ∧ s1.core.pos = 0 ∧
      s1.core.lineNumber = lnAt cfg s.lb.buffer s.core s.lb.buffer.length ∧
      s1.core.hasMatched = s.core.hasMatched := by
  obtain ⟨a, mm, rest, hI⟩ := hI
  obtain ⟨lb1, hcons, more, a', m', rest', hres, hmore, hI2, habs, hbin, hnz, hwin, hle, hal2⟩ :=
    lb_step hI hb hal hnz0
  obtain ⟨c1, hroll, r1, r2, r3, r4, r5, r6, r7, r8⟩ := roll_noCtxG h s.lb.buffer s.core
  unfold rblFill
  simp only [hroll, hcons]
  cases hf : lb1.fill s.rdr with
  | mk lb2 p =>
    cases p with
    | mk rdr2 res =>
      simp only [hf] at hres hmore hI2 habs hbin hnz hwin hle hal2
      subst hres
      simp only [hlbbin, Option.isSome_none, Bool.not_false, if_true, hbin]
      have hfacts : (∃ a mm rest, LineBuffer.Inv lbcfg inp lb2 rdr2 a mm rest) ∧ NoZero rdr2.script ∧
          lb2.abs = s.lb.abs + s.lb.buffer.length ∧ lb2.binOff = none ∧
          lb2.buffer = window inp lb2.abs lb2.buffer.length ∧ lb2.abs + lb2.buffer.length ≤ inp.length ∧
          (lb2.buffer.getLast? = some cfg.lineTerm.asByte ∨ lb2.abs + lb2.buffer.length = inp.length) ∧
          c1.events = s.core.events ∧ c1.absoluteByteOffset = s.core.absoluteByteOffset + s.lb.buffer.length ∧
          c1.afterContextLeft = s.core.afterContextLeft ∧ c1.binaryByteOffset = s.core.binaryByteOffset ∧
          c1.lastLineCounted = 0 ∧ c1.pos = 0 ∧
          c1.lineNumber = lnAt cfg s.lb.buffer s.core s.lb.buffer.length ∧ c1.hasMatched = s.core.hasMatched :=
        ⟨⟨a', m', rest', hI2⟩, hnz, habs, hbin, hwin, hle, by rw [← hlt]; exact hal2, r1, r2, r3, r4, r5, r6, r7, r8⟩
      by_cases hm : more = true
      · have hne : lb2.buffer.isEmpty = false := by simpa [hm] using hmore.symm
        have hsq : shouldBinaryQuit cfg lb2 = false := by simp [shouldBinaryQuit, hbin]
        have hcond : (s.lb.buffer.length == 0 && s.lb.buffer.length == lb2.buffer.length) = false := by
          cases hb0 : lb2.buffer with
          | nil => simp [hb0] at hne
          | cons x xs =>
            cases hb1 : s.lb.buffer with
            | nil => simp
            | cons y ys => simp
        simp only [hm, Bool.not_true, hsq, Bool.or_self, Bool.false_eq_true, if_false, hcond]
        exact ⟨⟨c1, lb2, rdr2⟩, by simp [hne], hfacts⟩
      · have hm' : more = false := by simpa using hm
        simp only [hm', Bool.not_false, Bool.true_or, if_true]
        have he : lb2.buffer.isEmpty = true := by simpa [hm'] using hmore.symm
        exact ⟨⟨c1, lb2, rdr2⟩, by simp [he], hfacts⟩

/-- Invariant of the `ReadByLine::run` loop for an arbitrary sink script: the closed form over the
lines `Ls` searched so far ran to its end. -/
structure RInvG (cfg : Config) (m : MatcherI) (σ : Script) (lbcfg : LineBuffer.Config) (inp : Bytes)
    (s : RBL) (Ls : List Bytes) : Prop where
  lbinv : ∃ a mm rest, LineBuffer.Inv lbcfg inp s.lb s.rdr a mm rest
  nz : NoZero s.rdr.script
  out : (lineRun cfg m σ 1 0 (ln0 cfg) false Ls).out = .done
  ev : s.core.events = Event.begin :: (lineRun cfg m σ 1 0 (ln0 cfg) false Ls).evs
  flat : Ls.flatten = inp.take (s.lb.abs + s.lb.buffer.length)
  dle : s.lb.abs + s.lb.buffer.length ≤ inp.length
  good : GoodLines cfg.lineTerm.asByte Ls
  align : AllTerm cfg.lineTerm.asByte Ls ∨ s.lb.abs + s.lb.buffer.length = inp.length
  cabs : s.core.absoluteByteOffset = s.lb.abs
  acl : s.core.afterContextLeft = 0
  cbin : s.core.binaryByteOffset = none
  lbbin : s.lb.binOff = none
  llc : s.core.lastLineCounted ≤ s.lb.buffer.length
  ln : lnAt cfg s.lb.buffer s.core s.lb.buffer.length = (lineRun cfg m σ 1 0 (ln0 cfg) false Ls).ln
  hm : s.core.hasMatched = (lineRun cfg m σ 1 0 (ln0 cfg) false Ls).hm
  eoff : (lineRun cfg m σ 1 0 (ln0 cfg) false Ls).endOff = s.lb.abs + s.lb.buffer.length

/-- how the loop of `ReadByLine::run` ends, against the closed form over ALL lines of the input -/
def LoopEnd (cfg : Config) (m : MatcherI) (σ : Script) (inp : Bytes) (s' : RBL) (res : Res (Option Nat)) : Prop :=
  ∃ ls, GoodLines cfg.lineTerm.asByte ls ∧ ls.flatten = inp ∧
    s'.core.events = Event.begin :: (lineRun cfg m σ 1 0 (ln0 cfg) false ls).evs ∧ s'.lb.binOff = none ∧
    match (lineRun cfg m σ 1 0 (ln0 cfg) false ls).out with
    | .err => res = .err
    | .stop => res = .ok (some (lineRun cfg m σ 1 0 (ln0 cfg) false ls).endOff)
    | .done => res = .ok none ∧ s'.lb.abs = (lineRun cfg m σ 1 0 (ln0 cfg) false ls).endOff

theorem rblLoop_G {cfg : Config} {m : MatcherI} {σ : Script} {lbcfg : LineBuffer.Config} {inp : Bytes}
    (h : NoCtx' cfg) (hslow : isLineByLineFast cfg m (Core.new cfg false) = false)
    (hlt : lbcfg.lineterm = cfg.lineTerm.asByte) (hb : lbcfg.binary = .none) (hal : lbcfg.alloc = .eager) :
    ∀ (fuel : Nat) (s : RBL) (Ls : List Bytes), RInvG cfg m σ lbcfg inp s Ls →
      inp.length - (s.lb.abs + s.lb.buffer.length) + 2 ≤ fuel →
      LoopEnd cfg m σ inp (rblLoop cfg m σ fuel s).1 (rblLoop cfg m σ fuel s).2 := by
  intro fuel
  induction fuel with
  | zero => intro s Ls _ hf; omega
  | succ fuel ih =>
    intro s Ls hR hf
    obtain ⟨s1, hfill, hlb, hnz, habs, hbin, hwin, hle, hal2, e1, e2, e3, e4, e5, e6, e7, e8⟩ :=
      rblFill_G h σ hlt hb hal hR.lbinv hR.nz hR.lbbin
    rw [rblLoop, hfill]
    have hRo := hR.out
    have hRev := hR.ev
    have hRln := hR.ln
    have hRhm := hR.hm
    have hReo := hR.eoff
    generalize hRdef : lineRun cfg m σ 1 0 (ln0 cfg) false Ls = R at hRo hRev hRln hRhm hReo
    cases hemp : s1.lb.buffer.isEmpty with
    | true =>
      simp only [Bool.not_true]
      have hnil : s1.lb.buffer = [] := by simpa using hemp
      have hD : s1.lb.abs = inp.length := by
        cases hal2 with
        | inl hl => rw [hnil] at hl; simp at hl
        | inr hl => rw [hnil] at hl; simpa using hl
      refine ⟨Ls, hR.good, ?_, by rw [e1, hRev, hRdef], hbin, ?_⟩
      · rw [hR.flat, ← habs, hD]; simp
      · rw [hRdef, hRo]
        exact ⟨rfl, by rw [hReo, ← habs]⟩
    | false =>
      simp only [Bool.not_false]
      have hne : s1.lb.buffer ≠ [] := by
        intro hc; rw [hc] at hemp; simp at hemp
      have hfast : isLineByLineFast cfg m s1.core = false := isLineByLineFast_false_all cfg m false hslow s1.core
      have hfl := splitLines_flatten cfg.lineTerm.asByte s1.lb.buffer
      obtain ⟨c2, hrun, hA⟩ := matchByLineSlow_bufferG m σ h s1.lb.buffer s1.core
        (splitLines cfg.lineTerm.asByte s1.lb.buffer) (splitLines_good _ _) hfl e6 e5 (e3.trans hR.acl)
        (e4.trans hR.cbin)
      have hD : s.lb.abs + s.lb.buffer.length = s1.lb.abs := habs.symm
      have hk : s1.core.events.length = 1 + R.evs.length := by rw [e1, hRev]; simp [Nat.add_comm]
      have hab : s1.core.absoluteByteOffset = R.endOff := by rw [e2, hR.cabs, hReo]
      have hln : s1.core.lineNumber = R.ln := by rw [e7, hRln]
      have hhm : s1.core.hasMatched = R.hm := by rw [e8, hRhm]
      rw [hk, hab, hln, hhm] at hrun hA
      -- the closed form over the lines seen so far plus this window
      have happ := lineRun_append cfg m σ Ls (splitLines cfg.lineTerm.asByte s1.lb.buffer) 1 0 (ln0 cfg) false
      rw [hRdef] at happ
      simp only [LR.andThen, hRo] at happ
      generalize hr2 : lineRun cfg m σ (1 + R.evs.length) R.endOff R.ln R.hm
        (splitLines cfg.lineTerm.asByte s1.lb.buffer) = r2 at hrun hA happ
      have hAllOld : AllTerm cfg.lineTerm.asByte Ls := by
        cases hR.align with
        | inl ha => exact ha
        | inr he =>
          exfalso
          rw [hD] at he
          have : s1.lb.buffer.length = 0 := by omega
          exact hne (List.length_eq_zero_iff.mp this)
      have hflat2 : (Ls ++ splitLines cfg.lineTerm.asByte s1.lb.buffer).flatten
          = inp.take (s1.lb.abs + s1.lb.buffer.length) := by
        rw [List.flatten_append, hR.flat, hD, hfl, take_add_window, ← hwin]
      have hgood2 : GoodLines cfg.lineTerm.asByte (Ls ++ splitLines cfg.lineTerm.asByte s1.lb.buffer) :=
        goodLines_append_allTerm hAllOld (splitLines_good _ _)
      have hcev : c2.events = Event.begin :: (R.evs ++ r2.evs) := by
        rw [hA.ev, e1, hRev]; simp
      -- all lines of the input, for the exits that do not reach the end
      have hfull : ∃ tail, GoodLines cfg.lineTerm.asByte
            ((Ls ++ splitLines cfg.lineTerm.asByte s1.lb.buffer) ++ tail) ∧
          ((Ls ++ splitLines cfg.lineTerm.asByte s1.lb.buffer) ++ tail).flatten = inp := by
        refine ⟨splitLines cfg.lineTerm.asByte (inp.drop (s1.lb.abs + s1.lb.buffer.length)), ?_, ?_⟩
        · cases hal2 with
          | inl hl =>
            apply goodLines_append_allTerm _ (splitLines_good _ _)
            intro x hx
            simp only [List.mem_append] at hx
            cases hx with
            | inl hx => exact hAllOld x hx
            | inr hx => exact goodLines_allTerm_of_last (splitLines_good _ _) (by rw [hfl]; exact hl) x hx
          | inr he =>
            rw [he, List.drop_length]
            simpa [splitLines] using hgood2
        · rw [List.flatten_append, hflat2, splitLines_flatten, List.take_append_drop]
      simp only [matchByLine, hfast, hrun, Bool.false_eq_true, if_false]
      cases hout : r2.out with
      | err =>
        simp only [Out.res]
        obtain ⟨tail, hg, hfi⟩ := hfull
        refine ⟨_, hg, hfi, ?_, hbin, ?_⟩
        · rw [lineRun_append, happ]; simp only [LR.andThen, hout]; exact hcev
        · rw [lineRun_append, happ]; simp only [LR.andThen, hout]
      | stop =>
        simp only [Out.res]
        obtain ⟨tail, hg, hfi⟩ := hfull
        refine ⟨_, hg, hfi, ?_, hbin, ?_⟩
        · rw [lineRun_append, happ]; simp only [LR.andThen, hout]; exact hcev
        · rw [lineRun_append, happ]; simp only [LR.andThen, hout]
          have he := hA.endp (by rw [hout]; decide)
          rw [hab] at he
          rw [← he, ← hab, e2, hR.cabs, habs]
      | done =>
        simp only [Out.res]
        have hR2 : RInvG cfg m σ lbcfg inp { s1 with core := c2 } (Ls ++ splitLines cfg.lineTerm.asByte s1.lb.buffer) := by
          have hllc := hA.llc hout
          have hlnn := hA.ln hout
          have hend := hA.endd hout
          rw [hfl] at hllc hlnn hend
          refine ⟨hlb, hnz, by rw [happ]; exact hout, by rw [happ]; exact hcev, hflat2, hle, hgood2, ?_, ?_, hA.acl,
            hA.bin, hbin, by simpa using hllc, ?_, by rw [happ]; exact hA.hm hout, ?_⟩
          · show _ ∨ s1.lb.abs + s1.lb.buffer.length = inp.length
            cases hal2 with
            | inr he => exact Or.inr he
            | inl hl =>
              left
              intro x hx
              simp only [List.mem_append] at hx
              cases hx with
              | inl hx => exact hAllOld x hx
              | inr hx => exact goodLines_allTerm_of_last (splitLines_good _ _) (by rw [hfl]; exact hl) x hx
          · show c2.absoluteByteOffset = s1.lb.abs
            rw [hA.abs, e2, hR.cabs, habs]
          · show lnAt cfg s1.lb.buffer c2 s1.lb.buffer.length = _
            rw [happ]; simpa using hlnn
          · rw [happ]
            show r2.endOff = s1.lb.abs + s1.lb.buffer.length
            rw [hend, hab, hReo, hD]; simp
        have hpos : 0 < s1.lb.buffer.length := List.length_pos_iff.mpr hne
        exact ih { s1 with core := c2 } _ hR2
          (by show inp.length - (s1.lb.abs + s1.lb.buffer.length) + 2 ≤ fuel; omega)

end RgVerif.Searcher
