import RgVerif.Lemmas.CoreFastSlow
import RgVerif.Lemmas.ReadByLineCTop
/-
C02 on the fast path of `Core`: with a matcher that keeps the `find_by_line_fast` contract on every
buffer, and a sink that never answers "stop", `ReadByLine::run` and `SliceByLine::run` do with the
matcher what they do with the same matcher stripped of its fast-path announcements (slow path), and
for that one C02 is `readByLine_eq_sliceByLine_all`.
-/
namespace RgVerif.Searcher
open RgVerif RgVerif.Matcher RgVerif.Lines RgVerif.GrepSpec RgVerif.LineBuffer

/-- `match_by_line` against `match_by_line_slow`, one call, under the contract on `find_by_line_fast` -/
theorem matchByLine_FS {cfg : Config} (hbin : cfg.binary = .none) (m : MatcherI) (σ : Script) (buf : Bytes)
    (hC : FindC cfg m buf) (pre : Bytes) (ls : List Bytes) (st : Core)
    (hbuf : buf = pre ++ ls.flatten) (hg : GoodLines cfg.lineTerm.asByte ls)
    (hpre : ls ≠ [] → pre = [] ∨ pre.getLast? = some cfg.lineTerm.asByte) (hpos : st.pos = pre.length)
    (hJ : 0 < st.afterContextLeft → st.lastLineVisited = pre.length)
    (hacl : st.afterContextLeft ≤ cfg.afterContext) :
    FS σ (matchByLine cfg m σ buf st) (matchByLineSlow cfg m σ buf st) := by
  have hslowEq : matchByLineSlow cfg m σ buf st = slowLoop cfg m σ buf (spansFrom pre.length ls) st := by
    unfold matchByLineSlow
    rw [hpos, stepLines_good pre ls hg buf.length (by rw [hbuf, List.take_length]) (by rw [hbuf]; simp only [List.length_append])]
  cases hf : isLineByLineFast cfg m st with
  | false =>
    have : matchByLine cfg m σ buf st = matchByLineSlow cfg m σ buf st := by
      unfold matchByLine; rw [hf]; rfl
    rw [this]
    exact ⟨rfl, rfl, fun _ _ => rfl, fun _ => rfl⟩
  | true =>
    rw [matchByLine_fast σ buf st hf, hslowEq]
    have hpt : cfg.passthru = false := by
      unfold isLineByLineFast at hf
      cases h : cfg.passthru with
      | false => rfl
      | true => simp [h] at hf
    have hsoi : cfg.stopOnNonmatch = true → cfg.invertMatch = false := by
      intro hs
      unfold isLineByLineFast at hf
      cases h : cfg.invertMatch with
      | false => rfl
      | true => simp [hpt, hs, h] at hf
    have hlenle : ls.length < buf.length + 1 := by
      have := hg.length_le
      have : buf.length = pre.length + ls.flatten.length := by rw [hbuf]; simp only [List.length_append]
      omega
    have := fastLoop_eq_slow hbin hpt hsoi m σ buf hC (buf.length + 1) pre [] ls st hlenle
      (by simpa using hbuf) (by simpa using hg) hpre (by simpa using hpos) (fun x hx => by simp at hx) (fun _ => rfl) hJ hacl
    simpa using this

/-- the matcher with its fast-path announcements removed: `Core` takes the slow path with it -/
def slowOf (m : MatcherI) : MatcherI := { m with lineTerminator := none, nonMatchingBytes := none }

theorem isLineByLineFast_slowOf (cfg : Config) (m : MatcherI) (st : Core) :
    isLineByLineFast cfg (slowOf m) st = false := by
  unfold isLineByLineFast slowOf
  simp

theorem slowLoop_slowOf (cfg : Config) (m : MatcherI) (σ : Script) (buf : Bytes) (ls : List Span) :
    ∀ st, slowLoop cfg (slowOf m) σ buf ls st = slowLoop cfg m σ buf ls st := by
  induction ls with
  | nil => intro st; rfl
  | cons l ls ih =>
    intro st
    simp only [slowLoop]
    have : (slowOf m).shortestMatch = m.shortestMatch := rfl
    rw [this]
    simp only [ih]

theorem matchByLine_slowOf (cfg : Config) (m : MatcherI) (σ : Script) (buf : Bytes) (st : Core) :
    matchByLine cfg (slowOf m) σ buf st = matchByLineSlow cfg m σ buf st := by
  unfold matchByLine
  rw [isLineByLineFast_slowOf]
  simp only [Bool.false_eq_true, if_false, matchByLineSlow]
  exact slowLoop_slowOf cfg m σ buf _ st

end RgVerif.Searcher

namespace RgVerif.Searcher
open RgVerif RgVerif.Matcher RgVerif.Lines RgVerif.GrepSpec RgVerif.LineBuffer

/-! ### `after_context_left` never exceeds the configured after-context -/

theorem emit_acl (σ : Script) (s : Core) (ev : Event) : (emit σ s ev).1.afterContextLeft = s.afterContextLeft := by
  rw [emit_def]

theorem sinkBreakContext_acl (cfg : Config) (σ : Script) (s : Core) (o : Nat) :
    (sinkBreakContext cfg σ s o).1.afterContextLeft = s.afterContextLeft := by
  unfold sinkBreakContext
  dsimp only
  split
  · rfl
  · exact emit_acl σ s _

theorem lineTail_acl (cfg : Config) (σ : Script) (buf : Bytes) (r : Span) (mk : Option Nat → Nat → Bytes → Event)
    (upd : Core → Core) (A : Nat) (hupd : ∀ s, s.afterContextLeft ≤ A → (upd s).afterContextLeft ≤ A) (s : Core)
    (hs : s.afterContextLeft ≤ A) :
    (match emit σ (countLines cfg buf s r.s)
          (mk (countLines cfg buf s r.s).lineNumber ((countLines cfg buf s r.s).absoluteByteOffset + r.s)
            (slice buf r.s r.e)) with
      | (st, .ok true) => (upd st, Res.ok true)
      | (st, r) => (st, r)).1.afterContextLeft ≤ A := by
  have h1 : (emit σ (countLines cfg buf s r.s)
      (mk (countLines cfg buf s r.s).lineNumber ((countLines cfg buf s r.s).absoluteByteOffset + r.s)
        (slice buf r.s r.e))).1.afterContextLeft ≤ A := by
    rw [emit_acl, (countLines_other cfg buf s r.s).2.2.1]; exact hs
  generalize emit σ (countLines cfg buf s r.s) _ = g at h1 ⊢
  obtain ⟨s1, r1⟩ := g
  cases r1 with
  | err => exact h1
  | ok b =>
    cases b with
    | false => exact h1
    | true => exact hupd s1 h1

theorem sinkCtx_acl {cfg : Config} (hbin : cfg.binary = .none) (σ : Script) (buf : Bytes) (r : Span) (k : CtxKind)
    (upd : Core → Core) (A : Nat) (hupd : ∀ s, s.afterContextLeft ≤ A → (upd s).afterContextLeft ≤ A) (s : Core)
    (hs : s.afterContextLeft ≤ A) :
    (match binaryGuard cfg σ buf r s with
      | (st, .err) => (st, Res.err)
      | (st, .ok true) => (st, .ok false)
      | (st, .ok false) =>
        match emit σ (countLines cfg buf st r.s)
          (.context k (countLines cfg buf st r.s).lineNumber ((countLines cfg buf st r.s).absoluteByteOffset + r.s)
            (slice buf r.s r.e)) with
        | (st, .ok true) => (upd st, .ok true)
        | (st, r) => (st, r)).1.afterContextLeft ≤ A := by
  rw [binaryGuard_none' hbin]
  exact lineTail_acl cfg σ buf r (Event.context k) upd A hupd s hs

theorem sinkBeforeContext_acl {cfg : Config} (hbin : cfg.binary = .none) (σ : Script) (buf : Bytes) (s : Core)
    (r : Span) (A : Nat) (hs : s.afterContextLeft ≤ A) : (sinkBeforeContext cfg σ buf s r).1.afterContextLeft ≤ A :=
  sinkCtx_acl hbin σ buf r .before (fun s => { s with lastLineVisited := r.e, hasSunk := true }) A (fun _ h => h) s hs

theorem sinkOtherContext_acl {cfg : Config} (hbin : cfg.binary = .none) (σ : Script) (buf : Bytes) (s : Core)
    (r : Span) (A : Nat) (hs : s.afterContextLeft ≤ A) : (sinkOtherContext cfg σ buf s r).1.afterContextLeft ≤ A :=
  sinkCtx_acl hbin σ buf r .other (fun s => { s with lastLineVisited := r.e, hasSunk := true }) A (fun _ h => h) s hs

theorem sinkAfterContext_acl {cfg : Config} (hbin : cfg.binary = .none) (σ : Script) (buf : Bytes) (s : Core)
    (r : Span) (A : Nat) (hs : s.afterContextLeft ≤ A) : (sinkAfterContext cfg σ buf s r).1.afterContextLeft ≤ A :=
  sinkCtx_acl hbin σ buf r .after
    (fun s => { s with lastLineVisited := r.e, afterContextLeft := s.afterContextLeft - 1, hasSunk := true }) A
    (fun s h => by show s.afterContextLeft - 1 ≤ A; omega) s hs

theorem sinkMatched_acl {cfg : Config} (hbin : cfg.binary = .none) (σ : Script) (buf : Bytes) (s : Core)
    (r : Span) (A : Nat) (hA : cfg.afterContext ≤ A) (hs : s.afterContextLeft ≤ A) :
    (sinkMatched cfg σ buf s r).1.afterContextLeft ≤ A := by
  unfold sinkMatched
  rw [binaryGuard_none' hbin]
  dsimp only
  have hb := sinkBreakContext_acl cfg σ s r.s
  generalize sinkBreakContext cfg σ s r.s = g at hb ⊢
  obtain ⟨s1, r1⟩ := g
  dsimp only at hb
  cases r1 with
  | err => show s1.afterContextLeft ≤ A; omega
  | ok b =>
    cases b with
    | false => show s1.afterContextLeft ≤ A; omega
    | true => exact lineTail_acl cfg σ buf r Event.matched _ A (fun _ _ => hA) s1 (by omega)

theorem beforeLoop_acl {cfg : Config} (hbin : cfg.binary = .none) (σ : Script) (buf : Bytes) (A : Nat)
    (ls : List Span) : ∀ s, s.afterContextLeft ≤ A → (beforeLoop cfg σ buf ls s).1.afterContextLeft ≤ A := by
  induction ls with
  | nil => intro s h; exact h
  | cons l ls ih =>
    intro s h
    unfold beforeLoop
    have hb := sinkBreakContext_acl cfg σ s l.s
    generalize sinkBreakContext cfg σ s l.s = g at hb ⊢
    obtain ⟨s1, r1⟩ := g
    dsimp only at hb
    cases r1 with
    | err => show s1.afterContextLeft ≤ A; omega
    | ok b =>
      cases b with
      | false => show s1.afterContextLeft ≤ A; omega
      | true =>
        dsimp only
        have h2 := sinkBeforeContext_acl hbin σ buf s1 l A (by omega)
        generalize sinkBeforeContext cfg σ buf s1 l = g2 at h2 ⊢
        obtain ⟨s2, r2⟩ := g2
        cases r2 with
        | err => exact h2
        | ok b2 =>
          cases b2 with
          | false => exact h2
          | true => exact ih s2 h2

theorem beforeContextByLine_acl {cfg : Config} (hbin : cfg.binary = .none) (σ : Script) (buf : Bytes) (A : Nat)
    (s : Core) (u : Nat) (h : s.afterContextLeft ≤ A) : (beforeContextByLine cfg σ buf s u).1.afterContextLeft ≤ A := by
  unfold beforeContextByLine
  split
  · exact h
  · dsimp only
    split
    · exact h
    · exact beforeLoop_acl hbin σ buf A _ s h

theorem slowLoop_acl {cfg : Config} (hbin : cfg.binary = .none) (m : MatcherI) (σ : Script) (buf : Bytes) (A : Nat)
    (hA : cfg.afterContext ≤ A) (ls : List Span) :
    ∀ s, s.afterContextLeft ≤ A → (slowLoop cfg m σ buf ls s).1.afterContextLeft ≤ A := by
  induction ls with
  | nil => intro s h; exact h
  | cons l ls ih =>
    intro s h
    unfold slowLoop
    dsimp only
    have hstep : (if ((m.shortestMatch (withoutTerminator (slice buf l.s l.e) cfg.lineTerm)).isSome != cfg.invertMatch) = true then
          match beforeContextByLine cfg σ buf { ({ s with pos := l.e } : Core) with hasMatched := true } l.s with
          | (st, .ok true) => sinkMatched cfg σ buf st l
          | (st, r) => (st, r)
        else if ({ s with pos := l.e } : Core).afterContextLeft ≥ 1 then sinkAfterContext cfg σ buf { s with pos := l.e } l
        else if cfg.passthru = true then sinkOtherContext cfg σ buf { s with pos := l.e } l
        else ({ s with pos := l.e }, Res.ok true)).1.afterContextLeft ≤ A := by
      split
      · have hb := beforeContextByLine_acl hbin σ buf A { ({ s with pos := l.e } : Core) with hasMatched := true } l.s h
        generalize beforeContextByLine cfg σ buf { ({ s with pos := l.e } : Core) with hasMatched := true } l.s = g at hb ⊢
        obtain ⟨s1, r1⟩ := g
        cases r1 with
        | err => exact hb
        | ok b =>
          cases b with
          | false => exact hb
          | true => exact sinkMatched_acl hbin σ buf s1 l A hA hb
      · split
        · exact sinkAfterContext_acl hbin σ buf _ l A h
        · split
          · exact sinkOtherContext_acl hbin σ buf _ l A h
          · exact h
    generalize (if ((m.shortestMatch (withoutTerminator (slice buf l.s l.e) cfg.lineTerm)).isSome != cfg.invertMatch) = true then
          match beforeContextByLine cfg σ buf { ({ s with pos := l.e } : Core) with hasMatched := true } l.s with
          | (st, .ok true) => sinkMatched cfg σ buf st l
          | (st, r) => (st, r)
        else if ({ s with pos := l.e } : Core).afterContextLeft ≥ 1 then sinkAfterContext cfg σ buf { s with pos := l.e } l
        else if cfg.passthru = true then sinkOtherContext cfg σ buf { s with pos := l.e } l
        else ({ s with pos := l.e }, Res.ok true)) = g at hstep ⊢
    obtain ⟨s1, r1⟩ := g
    cases r1 with
    | err => exact hstep
    | ok b =>
      cases b with
      | false => exact hstep
      | true =>
        dsimp only
        split
        · exact hstep
        · exact ih s1 hstep

end RgVerif.Searcher

namespace RgVerif.Searcher
open RgVerif RgVerif.Matcher RgVerif.Lines RgVerif.GrepSpec RgVerif.LineBuffer

theorem roll_more (cfg : Config) (buf : Bytes) (st : Core) (h : st.lastLineVisited ≤ buf.length) :
    st.lastLineVisited ≤ (roll cfg buf st).2 ∧ (roll cfg buf st).1.afterContextLeft = st.afterContextLeft ∧
    (roll cfg buf st).1.lastLineCounted = 0 := by
  unfold roll
  dsimp only
  refine ⟨?_, (countLines_other _ _ _ _).2.2.1, rfl⟩
  split
  · exact h
  · omega

/-- what the slow loop leaves behind when it says "go on" (the reader side of `slowLoop_sim`, on its own) -/
theorem slowLoop_post {cfg : Config} (hbin : cfg.binary = .none) (m : MatcherI) (σ : Script) (w prew : Bytes)
    (ls : List Bytes) (st : Core) (hw : w = prew ++ ls.flatten) (hg : GoodLines cfg.lineTerm.asByte ls)
    (hb : st.binaryByteOffset = none) (hllc : st.lastLineCounted ≤ st.lastLineVisited) (hP : PostAt st prew.length)
    (hok : (slowLoop cfg m σ w (spansFrom prew.length ls) st).2 = .ok true) :
    PostAt (slowLoop cfg m σ w (spansFrom prew.length ls) st).1 w.length ∧
      (slowLoop cfg m σ w (spansFrom prew.length ls) st).1.binaryByteOffset = none ∧
      (slowLoop cfg m σ w (spansFrom prew.length ls) st).1.lastLineCounted
        ≤ (slowLoop cfg m σ w (spansFrom prew.length ls) st).1.lastLineVisited := by
  have W : WinOf w [] w [] := ⟨by simp⟩
  have E : ESim cfg w w ([] : Bytes).length st st :=
    ⟨⟨rfl, by simp, by simp, hb, hb⟩, by simp, rfl, rfl, rfl, hllc, hllc, fun p _ _ => by simp⟩
  have hlen : w.length = prew.length + ls.flatten.length := by rw [hw]; simp only [List.length_append]
  have := slowLoop_sim W hbin m σ ls prew st st E (by rw [← hlen, hw, List.take_length]) (by omega) hP hg
    (fun _ => Or.inl (by simp))
  simp only [List.length_nil, Nat.add_zero] at this
  obtain ⟨hS, hpost⟩ := this
  have E2 := hS.cont hok
  rw [hlen]
  exact ⟨(hpost hok).1, E2.bin2, E2.llc2⟩

theorem window_drop (inp : Bytes) (a n c : Nat) : (window inp a n).drop c = window inp (a + c) (n - c) := by
  unfold window
  rw [List.drop_take, List.drop_drop]

end RgVerif.Searcher

namespace RgVerif.Searcher
open RgVerif RgVerif.Matcher RgVerif.Lines RgVerif.GrepSpec RgVerif.LineBuffer

/-- what is known of a `ReadByLine` state between two iterations of its loop -/
structure RWF (cfg : Config) (lbcfg : LineBuffer.Config) (inp : Bytes) (s : RBL) : Prop where
  lbinv : ∃ a mm rest, LineBuffer.Inv lbcfg inp s.lb s.rdr a mm rest
  nz : NoZero s.rdr.script
  lbbin : s.lb.binOff = none
  win : s.lb.buffer = window inp s.lb.abs s.lb.buffer.length
  dle : s.lb.abs + s.lb.buffer.length ≤ inp.length
  wT : s.lb.buffer = [] ∨ s.lb.buffer.getLast? = some cfg.lineTerm.asByte ∨
    s.lb.abs + s.lb.buffer.length = inp.length
  post : PostAt s.core s.lb.buffer.length
  acl : s.core.afterContextLeft ≤ cfg.afterContext
  cbin : s.core.binaryByteOffset = none
  llc : s.core.lastLineCounted ≤ s.core.lastLineVisited

theorem FS.events {σ : Script} {X Y : Core × Res Bool} (h : FS σ X Y) : X.1.events = Y.1.events :=
  (withPH_fields h.2.1).2.2.1

/-- **the loop of `ReadByLine::run` with the matcher's fast path against the same loop on the slow
path**, for a sink that never says stop and a matcher that keeps the `find_by_line_fast` contract
on every buffer -/
theorem rblLoop_fast_slow {cfg : Config} {m : MatcherI} {σ : Script} {lbcfg : LineBuffer.Config} {inp : Bytes}
    (hbin : cfg.binary = .none) (hlt : lbcfg.lineterm = cfg.lineTerm.asByte) (hb : lbcfg.binary = .none)
    (hC : ∀ a n, FindC cfg m (window inp a n)) (hns : ∀ i, σ i ≠ .stop) :
    ∀ (fuel : Nat) (s : RBL), RWF cfg lbcfg inp s →
      (rblLoop cfg m σ fuel s).2 = (rblLoop cfg (slowOf m) σ fuel s).2 ∧
      (rblLoop cfg m σ fuel s).1.core.events = (rblLoop cfg (slowOf m) σ fuel s).1.core.events ∧
      ((rblLoop cfg m σ fuel s).2 ≠ .err → (rblLoop cfg m σ fuel s).1 = (rblLoop cfg (slowOf m) σ fuel s).1) := by
  intro fuel
  induction fuel with
  | zero => intro s _; exact ⟨rfl, rfl, fun _ => rfl⟩
  | succ fuel ih =>
    intro s hR
    obtain ⟨hllv, hpos, hJ⟩ := hR.post
    obtain ⟨hcle, hrpos, hrllv, hrev, hrbin⟩ := roll_fields cfg s.lb.buffer s.core hllv
    obtain ⟨hcge, hracl, hrllc⟩ := roll_more cfg s.lb.buffer s.core hllv
    rw [rblLoop, rblLoop]
    rcases rblFill_C σ hlt hb hR.lbinv hR.nz hR.lbbin hllv hR.dle with
      ⟨_, s1, hfill, _⟩ | ⟨s1, r, hfill, hI1, hnz1, hbo1, hcore, hwin, hle, htrue, hfalse⟩
    · rw [hfill]; exact ⟨rfl, rfl, fun _ => rfl⟩
    rw [hfill]
    cases r with
    | false => exact ⟨rfl, rfl, fun _ => rfl⟩
    | true =>
      obtain ⟨habs, hmono, hal2, hprog⟩ := htrue rfl
      dsimp only
      rw [matchByLine_slowOf]
      generalize hc : (roll cfg s.lb.buffer s.core).2 = c at *
      generalize hp : s.lb.buffer.length - c = p at *
      -- the new window: kept context, then the new lines
      have hprew : (s1.lb.buffer.take p).length = p := by simp; omega
      have hbufEq : s1.lb.buffer = s1.lb.buffer.take p ++ (splitLines cfg.lineTerm.asByte (s1.lb.buffer.drop p)).flatten := by
        rw [splitLines_flatten, List.take_append_drop]
      have hkept : s1.lb.buffer.take p = s.lb.buffer.drop c := by
        rw [hwin, window_take inp _ _ p (by omega), hR.win, window_drop, habs, hp]
      have hbnd : splitLines cfg.lineTerm.asByte (s1.lb.buffer.drop p) ≠ [] →
          s1.lb.buffer.take p = [] ∨ (s1.lb.buffer.take p).getLast? = some cfg.lineTerm.asByte := by
        intro hne
        rw [hkept]
        rcases hR.wT with h0 | h1 | h2
        · left; rw [h0]; simp
        · by_cases hLc : s.lb.buffer.length ≤ c
          · left; exact List.drop_eq_nil_of_le hLc
          · right; rw [List.getLast?_drop, if_neg hLc]; exact h1
        · exfalso
          apply hne
          have : s1.lb.buffer.length = p := by omega
          rw [List.drop_eq_nil_of_le (by omega)]
          simp [splitLines]
      have hc1pos : s1.core.pos = (s1.lb.buffer.take p).length := by rw [hcore, hrpos, hprew]
      have hc1J : 0 < s1.core.afterContextLeft → s1.core.lastLineVisited = (s1.lb.buffer.take p).length := by
        intro h
        rw [hcore, hracl] at h
        rw [hcore, hrllv, hprew]
        cases hJ with
        | inl h1 => omega
        | inr h1 => omega
      have hc1acl : s1.core.afterContextLeft ≤ cfg.afterContext := by rw [hcore, hracl]; exact hR.acl
      have hCw : FindC cfg m s1.lb.buffer := by rw [hwin]; exact hC _ _
      have hFS := matchByLine_FS hbin m σ s1.lb.buffer hCw (s1.lb.buffer.take p)
        (splitLines cfg.lineTerm.asByte (s1.lb.buffer.drop p)) s1.core hbufEq (splitLines_good _ _) hbnd hc1pos hc1J hc1acl
      -- the slow side, for the next round
      have hslowEq : matchByLineSlow cfg m σ s1.lb.buffer s1.core
          = slowLoop cfg m σ s1.lb.buffer (spansFrom (s1.lb.buffer.take p).length
              (splitLines cfg.lineTerm.asByte (s1.lb.buffer.drop p))) s1.core := by
        unfold matchByLineSlow
        rw [hc1pos, stepLines_good (s1.lb.buffer.take p) _ (splitLines_good _ _) s1.lb.buffer.length
          (by rw [← hbufEq, List.take_length]) (by rw [hprew, splitLines_flatten]; simp; omega)]
      have hP1 : PostAt s1.core (s1.lb.buffer.take p).length := by
        rw [hprew, hcore]
        refine ⟨by rw [hrllv]; exact Nat.zero_le _, hrpos, ?_⟩
        rw [hrllv, hracl]
        cases hJ with
        | inl h1 => left; omega
        | inr h1 => exact Or.inr h1
      have hpostY := fun hok => slowLoop_post hbin m σ s1.lb.buffer (s1.lb.buffer.take p)
        (splitLines cfg.lineTerm.asByte (s1.lb.buffer.drop p)) s1.core hbufEq (splitLines_good _ _)
        (by rw [hcore, hrbin]; exact hR.cbin) (by rw [hcore, hrllc]; exact Nat.zero_le _) hP1 hok
      have haclY := slowLoop_acl hbin m σ s1.lb.buffer cfg.afterContext (Nat.le_refl _)
        (spansFrom (s1.lb.buffer.take p).length (splitLines cfg.lineTerm.asByte (s1.lb.buffer.drop p))) s1.core hc1acl
      rw [← hslowEq] at hpostY haclY
      generalize matchByLine cfg m σ s1.lb.buffer s1.core = X at hFS ⊢
      generalize matchByLineSlow cfg m σ s1.lb.buffer s1.core = Y at hFS hpostY haclY ⊢
      obtain ⟨x, rx⟩ := X
      obtain ⟨y, ry⟩ := Y
      have hev := hFS.events
      obtain ⟨f1, f2, f3, f4⟩ := hFS
      dsimp only at f1 f2 f3 hev hpostY haclY
      subst f1
      cases rx with
      | err => exact ⟨rfl, hev, fun h => absurd rfl h⟩
      | ok b =>
        have hxy : x = y := f3 hns (by simp)
        subst hxy
        cases b with
        | false => exact ⟨rfl, rfl, fun _ => rfl⟩
        | true =>
          dsimp only
          obtain ⟨q1, q2, q3⟩ := hpostY rfl
          exact ih { s1 with core := x }
            ⟨hI1, hnz1, hbo1, hwin, hle, Or.inr hal2, q1, haclY, q2, q3⟩

/-- **the loop of `ReadByLine::run` with the matcher's fast path against the same loop on the slow
path**, for a sink that never says stop and a matcher that keeps the `find_by_line_fast` contract
on every buffer -/
theorem rblLoop_fast_slow_any {cfg : Config} {m : MatcherI} {σ : Script} {lbcfg : LineBuffer.Config} {inp : Bytes}
    (hbin : cfg.binary = .none) (hlt : lbcfg.lineterm = cfg.lineTerm.asByte) (hb : lbcfg.binary = .none)
    (hC : ∀ a n, FindC cfg m (window inp a n)) :
    ∀ (fuel : Nat) (s : RBL), RWF cfg lbcfg inp s →
      (rblLoop cfg m σ fuel s).1.core.events = (rblLoop cfg (slowOf m) σ fuel s).1.core.events ∧
      (rblLoop cfg m σ fuel s).1.lb.binOff = (rblLoop cfg (slowOf m) σ fuel s).1.lb.binOff ∧
      (((rblLoop cfg m σ fuel s).2 = (rblLoop cfg (slowOf m) σ fuel s).2 ∧
          ((rblLoop cfg m σ fuel s).2 ≠ .err → (rblLoop cfg m σ fuel s).1 = (rblLoop cfg (slowOf m) σ fuel s).1)) ∨
        (∃ n n', (rblLoop cfg m σ fuel s).2 = .ok (some n) ∧ (rblLoop cfg (slowOf m) σ fuel s).2 = .ok (some n'))) := by
  intro fuel
  induction fuel with
  | zero => intro s _; exact ⟨rfl, rfl, Or.inl ⟨rfl, fun _ => rfl⟩⟩
  | succ fuel ih =>
    intro s hR
    obtain ⟨hllv, hpos, hJ⟩ := hR.post
    obtain ⟨hcle, hrpos, hrllv, hrev, hrbin⟩ := roll_fields cfg s.lb.buffer s.core hllv
    obtain ⟨hcge, hracl, hrllc⟩ := roll_more cfg s.lb.buffer s.core hllv
    rw [rblLoop, rblLoop]
    rcases rblFill_C σ hlt hb hR.lbinv hR.nz hR.lbbin hllv hR.dle with
      ⟨_, s1, hfill, _⟩ | ⟨s1, r, hfill, hI1, hnz1, hbo1, hcore, hwin, hle, htrue, hfalse⟩
    · rw [hfill]; exact ⟨rfl, rfl, Or.inl ⟨rfl, fun _ => rfl⟩⟩
    rw [hfill]
    cases r with
    | false => exact ⟨rfl, rfl, Or.inl ⟨rfl, fun _ => rfl⟩⟩
    | true =>
      obtain ⟨habs, hmono, hal2, hprog⟩ := htrue rfl
      dsimp only
      rw [matchByLine_slowOf]
      generalize hc : (roll cfg s.lb.buffer s.core).2 = c at *
      generalize hp : s.lb.buffer.length - c = p at *
      -- the new window: kept context, then the new lines
      have hprew : (s1.lb.buffer.take p).length = p := by simp; omega
      have hbufEq : s1.lb.buffer = s1.lb.buffer.take p ++ (splitLines cfg.lineTerm.asByte (s1.lb.buffer.drop p)).flatten := by
        rw [splitLines_flatten, List.take_append_drop]
      have hkept : s1.lb.buffer.take p = s.lb.buffer.drop c := by
        rw [hwin, window_take inp _ _ p (by omega), hR.win, window_drop, habs, hp]
      have hbnd : splitLines cfg.lineTerm.asByte (s1.lb.buffer.drop p) ≠ [] →
          s1.lb.buffer.take p = [] ∨ (s1.lb.buffer.take p).getLast? = some cfg.lineTerm.asByte := by
        intro hne
        rw [hkept]
        rcases hR.wT with h0 | h1 | h2
        · left; rw [h0]; simp
        · by_cases hLc : s.lb.buffer.length ≤ c
          · left; exact List.drop_eq_nil_of_le hLc
          · right; rw [List.getLast?_drop, if_neg hLc]; exact h1
        · exfalso
          apply hne
          have : s1.lb.buffer.length = p := by omega
          rw [List.drop_eq_nil_of_le (by omega)]
          simp [splitLines]
      have hc1pos : s1.core.pos = (s1.lb.buffer.take p).length := by rw [hcore, hrpos, hprew]
      have hc1J : 0 < s1.core.afterContextLeft → s1.core.lastLineVisited = (s1.lb.buffer.take p).length := by
        intro h
        rw [hcore, hracl] at h
        rw [hcore, hrllv, hprew]
        cases hJ with
        | inl h1 => omega
        | inr h1 => omega
      have hc1acl : s1.core.afterContextLeft ≤ cfg.afterContext := by rw [hcore, hracl]; exact hR.acl
      have hCw : FindC cfg m s1.lb.buffer := by rw [hwin]; exact hC _ _
      have hFS := matchByLine_FS hbin m σ s1.lb.buffer hCw (s1.lb.buffer.take p)
        (splitLines cfg.lineTerm.asByte (s1.lb.buffer.drop p)) s1.core hbufEq (splitLines_good _ _) hbnd hc1pos hc1J hc1acl
      -- the slow side, for the next round
      have hslowEq : matchByLineSlow cfg m σ s1.lb.buffer s1.core
          = slowLoop cfg m σ s1.lb.buffer (spansFrom (s1.lb.buffer.take p).length
              (splitLines cfg.lineTerm.asByte (s1.lb.buffer.drop p))) s1.core := by
        unfold matchByLineSlow
        rw [hc1pos, stepLines_good (s1.lb.buffer.take p) _ (splitLines_good _ _) s1.lb.buffer.length
          (by rw [← hbufEq, List.take_length]) (by rw [hprew, splitLines_flatten]; simp; omega)]
      have hP1 : PostAt s1.core (s1.lb.buffer.take p).length := by
        rw [hprew, hcore]
        refine ⟨by rw [hrllv]; exact Nat.zero_le _, hrpos, ?_⟩
        rw [hrllv, hracl]
        cases hJ with
        | inl h1 => left; omega
        | inr h1 => exact Or.inr h1
      have hpostY := fun hok => slowLoop_post hbin m σ s1.lb.buffer (s1.lb.buffer.take p)
        (splitLines cfg.lineTerm.asByte (s1.lb.buffer.drop p)) s1.core hbufEq (splitLines_good _ _)
        (by rw [hcore, hrbin]; exact hR.cbin) (by rw [hcore, hrllc]; exact Nat.zero_le _) hP1 hok
      have haclY := slowLoop_acl hbin m σ s1.lb.buffer cfg.afterContext (Nat.le_refl _)
        (spansFrom (s1.lb.buffer.take p).length (splitLines cfg.lineTerm.asByte (s1.lb.buffer.drop p))) s1.core hc1acl
      rw [← hslowEq] at hpostY haclY
      generalize matchByLine cfg m σ s1.lb.buffer s1.core = X at hFS ⊢
      generalize matchByLineSlow cfg m σ s1.lb.buffer s1.core = Y at hFS hpostY haclY ⊢
      obtain ⟨x, rx⟩ := X
      obtain ⟨y, ry⟩ := Y
      have hev := hFS.events
      obtain ⟨f1, f2, f3, f4⟩ := hFS
      dsimp only at f1 f2 f3 hev hpostY haclY
      subst f1
      cases rx with
      | err => exact ⟨hev, rfl, Or.inl ⟨rfl, fun h => absurd rfl h⟩⟩
      | ok b =>
        cases b with
        | false => exact ⟨hev, rfl, Or.inr ⟨_, _, rfl, rfl⟩⟩
        | true =>
          have hxy : x = y := f4 rfl
          subst hxy
          dsimp only
          obtain ⟨q1, q2, q3⟩ := hpostY rfl
          exact ih { s1 with core := x }
            ⟨hI1, hnz1, hbo1, hwin, hle, Or.inr hal2, q1, haclY, q2, q3⟩

end RgVerif.Searcher

namespace RgVerif.Searcher
open RgVerif RgVerif.Matcher RgVerif.Lines RgVerif.GrepSpec RgVerif.LineBuffer

theorem begin_fields (σ : Script) (c : Core) :
    (begin σ c).1.pos = c.pos ∧ (begin σ c).1.lastLineVisited = c.lastLineVisited ∧
    (begin σ c).1.afterContextLeft = c.afterContextLeft ∧ (begin σ c).1.binaryByteOffset = c.binaryByteOffset ∧
    (begin σ c).1.lastLineCounted = c.lastLineCounted := by
  have : begin σ c = emit σ c .begin := rfl
  rw [this, emit_def]
  exact ⟨rfl, rfl, rfl, rfl, rfl⟩

/-- **`ReadByLine::run` on the fast path = on the slow path** (same matcher without its announcements) -/
theorem readByLine_fast_slow {cfg : Config} (m : MatcherI) (σ : Script) (hbin : cfg.binary = .none)
    (lbcfg : LineBuffer.Config) (hlt : lbcfg.lineterm = cfg.lineTerm.asByte) (hb : lbcfg.binary = .none)
    (rdr : Reader) (hC : ∀ a n, FindC cfg m (window rdr.data a n)) (hns : ∀ i, σ i ≠ .stop) (hz : NoZero rdr.script) :
    (readByLine cfg m σ lbcfg rdr).events = (readByLine cfg (slowOf m) σ lbcfg rdr).events ∧
      (readByLine cfg m σ lbcfg rdr).result = (readByLine cfg (slowOf m) σ lbcfg rdr).result := by
  unfold readByLine
  dsimp only
  obtain ⟨g1, g2, g3, g4, g5⟩ := begin_fields σ (Core.new cfg false)
  generalize begin σ (Core.new cfg false) = B at g1 g2 g3 g4 g5 ⊢
  obtain ⟨st, r⟩ := B
  dsimp only at g1 g2 g3 g4 g5
  cases r with
  | err => exact ⟨rfl, rfl⟩
  | ok kg =>
    dsimp only
    cases kg with
    | false => exact ⟨rfl, rfl⟩
    | true =>
      simp only [if_true]
      have hR : RWF cfg lbcfg rdr.data ⟨st, LB.init lbcfg, rdr⟩ := by
        refine ⟨⟨[], [], rdr.data, Inv.init' lbcfg rdr⟩, hz, rfl, by simp [LB.init, LB.buffer, window],
          by simp [LB.init, LB.buffer], Or.inl (by simp [LB.init, LB.buffer]), ?_, ?_, ?_, ?_⟩
        · show PostAt st (LB.init lbcfg).buffer.length
          have : (LB.init lbcfg).buffer.length = 0 := by simp [LB.init, LB.buffer]
          rw [this]
          exact ⟨by rw [g2]; exact Nat.le_refl _, by rw [g1]; rfl, Or.inl (by rw [g2]; rfl)⟩
        · show st.afterContextLeft ≤ _; rw [g3]; exact Nat.zero_le _
        · show st.binaryByteOffset = none; rw [g4]; rfl
        · show st.lastLineCounted ≤ st.lastLineVisited; rw [g5, g2]; exact Nat.le_refl _
      obtain ⟨h1, h2, h3⟩ := rblLoop_fast_slow hbin hlt hb hC hns (rblFuel rdr) _ hR
      generalize rblLoop cfg m σ (rblFuel rdr) ⟨st, LB.init lbcfg, rdr⟩ = A at h1 h2 h3 ⊢
      generalize rblLoop cfg (slowOf m) σ (rblFuel rdr) ⟨st, LB.init lbcfg, rdr⟩ = A' at h1 h2 h3 ⊢
      obtain ⟨sA, rA⟩ := A
      obtain ⟨sB, rB⟩ := A'
      dsimp only at h1 h2 h3
      subst h1
      cases rA with
      | err => exact ⟨h2, rfl⟩
      | ok o =>
        have : sA = sB := h3 (by simp)
        subst this
        exact ⟨rfl, rfl⟩

/-- **`SliceByLine::run` on the fast path = on the slow path** -/
theorem sliceByLine_fast_slow {cfg : Config} (m : MatcherI) (σ : Script) (hbin : cfg.binary = .none)
    (inp : Bytes) (hC : ∀ a n, FindC cfg m (window inp a n)) (hns : ∀ i, σ i ≠ .stop) :
    (sliceByLine cfg m σ inp).events = (sliceByLine cfg (slowOf m) σ inp).events ∧
      (sliceByLine cfg m σ inp).result = (sliceByLine cfg (slowOf m) σ inp).result := by
  unfold sliceByLine
  dsimp only
  obtain ⟨g1, g2, g3, g4, g5⟩ := begin_fields σ (Core.new cfg true)
  generalize begin σ (Core.new cfg true) = B at g1 g2 g3 g4 g5 ⊢
  obtain ⟨st, r⟩ := B
  dsimp only at g1 g2 g3 g4 g5
  cases r with
  | err => exact ⟨rfl, rfl⟩
  | ok kg =>
    dsimp only
    cases kg with
    | false => exact ⟨rfl, rfl⟩
    | true =>
      simp only [if_true]
      have hsb : st.binaryByteOffset = none := by rw [g4]; rfl
      rw [detectBinary_none hbin hsb]
      dsimp only
      -- the loop: at most one call
      have hloop : (sliceLoop cfg m σ inp (inp.length + 1) st).2 = (sliceLoop cfg (slowOf m) σ inp (inp.length + 1) st).2 ∧
          (sliceLoop cfg m σ inp (inp.length + 1) st).1.events = (sliceLoop cfg (slowOf m) σ inp (inp.length + 1) st).1.events ∧
          ((sliceLoop cfg m σ inp (inp.length + 1) st).2 ≠ .err →
            (sliceLoop cfg m σ inp (inp.length + 1) st).1 = (sliceLoop cfg (slowOf m) σ inp (inp.length + 1) st).1) := by
        rw [sliceLoop, sliceLoop]
        split
        · exact ⟨rfl, rfl, fun _ => rfl⟩
        · rw [matchByLine_slowOf]
          have hbufEq : inp = ([] : Bytes) ++ (splitLines cfg.lineTerm.asByte inp).flatten := by
            rw [splitLines_flatten]; rfl
          have hCi : FindC cfg m inp := by
            have := hC 0 inp.length
            simpa [window] using this
          have hFS := matchByLine_FS hbin m σ inp hCi [] (splitLines cfg.lineTerm.asByte inp) st hbufEq
            (splitLines_good _ _) (fun _ => Or.inl rfl) (by rw [g1]; rfl) (fun _ => by rw [g2]; rfl)
            (by rw [g3]; exact Nat.zero_le _)
          have hslowEq : matchByLineSlow cfg m σ inp st
              = slowLoop cfg m σ inp (spansFrom ([] : Bytes).length (splitLines cfg.lineTerm.asByte inp)) st := by
            unfold matchByLineSlow
            rw [show st.pos = ([] : Bytes).length by rw [g1]; rfl,
              stepLines_good ([] : Bytes) (splitLines cfg.lineTerm.asByte inp) (splitLines_good _ _) inp.length
                (by rw [splitLines_flatten]; simp) (by rw [splitLines_flatten]; simp)]
          have hpostY := fun hok => slowLoop_post hbin m σ inp [] (splitLines cfg.lineTerm.asByte inp) st hbufEq
            (splitLines_good _ _) hsb (by rw [g5, g2]; exact Nat.le_refl _)
            ⟨by rw [g2]; exact Nat.le_refl _, by rw [g1]; rfl, Or.inl (by rw [g2]; rfl)⟩ hok
          rw [← hslowEq] at hpostY
          generalize matchByLine cfg m σ inp st = X at hFS ⊢
          generalize matchByLineSlow cfg m σ inp st = Y at hFS hpostY ⊢
          obtain ⟨x, rx⟩ := X
          obtain ⟨y, ry⟩ := Y
          have hev := hFS.events
          obtain ⟨f1, f2, f3, f4⟩ := hFS
          dsimp only at f1 f2 f3 hev hpostY
          subst f1
          cases rx with
          | err => exact ⟨rfl, hev, fun h => absurd rfl h⟩
          | ok b =>
            have hxy : x = y := f3 hns (by simp)
            subst hxy
            cases b with
            | false => exact ⟨rfl, rfl, fun _ => rfl⟩
            | true =>
              dsimp only
              have hp : x.pos = inp.length := (hpostY rfl).1.2.1
              have e1 : ∀ mm : MatcherI, sliceLoop cfg mm σ inp inp.length x = (x, .ok ()) := by
                intro mm
                cases hl : inp.length with
                | zero => rfl
                | succ n => rw [sliceLoop]; simp [hp]
              rw [e1 m, e1 (slowOf m)]
              exact ⟨rfl, rfl, fun _ => rfl⟩
      obtain ⟨h1, h2, h3⟩ := hloop
      generalize sliceLoop cfg m σ inp (inp.length + 1) st = A at h1 h2 h3 ⊢
      generalize sliceLoop cfg (slowOf m) σ inp (inp.length + 1) st = A' at h1 h2 h3 ⊢
      obtain ⟨sA, rA⟩ := A
      obtain ⟨sB, rB⟩ := A'
      dsimp only at h1 h2 h3
      subst h1
      cases rA with
      | err => exact ⟨h2, rfl⟩
      | ok o =>
        have : sA = sB := h3 (by simp)
        subst this
        exact ⟨rfl, rfl⟩

/-- **C02 on the fast path of `Core`** (and on any mix of fast and slow calls), under the matcher
contract `FindC` and for a sink that never answers "stop" (finding F10b is about exactly that
answer): reader = slice, events and result. -/
theorem readByLine_eq_sliceByLine_fast {cfg : Config} (m : MatcherI) (σ : Script) (hbin : cfg.binary = .none)
    (lbcfg : LineBuffer.Config) (hlt : lbcfg.lineterm = cfg.lineTerm.asByte) (hb : lbcfg.binary = .none)
    (hal : lbcfg.alloc = .eager) (rdr : Reader) (hC : ∀ a n, FindC cfg m (window rdr.data a n))
    (hns : ∀ i, σ i ≠ .stop) (hz : NoZero rdr.script) :
    (readByLine cfg m σ lbcfg rdr).events = (sliceByLine cfg m σ rdr.data).events ∧
      (readByLine cfg m σ lbcfg rdr).result = (sliceByLine cfg m σ rdr.data).result := by
  obtain ⟨a1, a2⟩ := readByLine_fast_slow m σ hbin lbcfg hlt hb rdr hC hns hz
  obtain ⟨b1, b2⟩ := sliceByLine_fast_slow m σ hbin rdr.data hC hns
  obtain ⟨c1, c2⟩ := readByLine_eq_sliceByLine_all (slowOf m) σ hbin (isLineByLineFast_slowOf cfg m _) lbcfg hlt hb hal rdr hz
  exact ⟨by rw [a1, c1, b1], by rw [a2, c2, b2]⟩

end RgVerif.Searcher

namespace RgVerif.Searcher
open RgVerif RgVerif.Matcher RgVerif.Lines RgVerif.GrepSpec RgVerif.LineBuffer

/-- a callback with the byte count of `finish` blanked (what finding F10b leaves undetermined) -/
def Event.noCount : Event → Event
  | .finish _ b => .finish 0 b
  | e => e

theorem noCount_snoc (evs : List Event) (n n' : Nat) (b : Option Nat) :
    (evs ++ [Event.finish n b]).map Event.noCount = (evs ++ [Event.finish n' b]).map Event.noCount := by
  simp [Event.noCount]

/-- `ReadByLine::run`, fast path vs slow path, EVERY sink script: same callbacks up to the byte count of
`finish`, same result -/
theorem readByLine_fast_slow_any {cfg : Config} (m : MatcherI) (σ : Script) (hbin : cfg.binary = .none)
    (lbcfg : LineBuffer.Config) (hlt : lbcfg.lineterm = cfg.lineTerm.asByte) (hb : lbcfg.binary = .none)
    (rdr : Reader) (hC : ∀ a n, FindC cfg m (window rdr.data a n)) (hz : NoZero rdr.script) :
    (readByLine cfg m σ lbcfg rdr).events.map Event.noCount
        = (readByLine cfg (slowOf m) σ lbcfg rdr).events.map Event.noCount ∧
      (readByLine cfg m σ lbcfg rdr).result = (readByLine cfg (slowOf m) σ lbcfg rdr).result := by
  unfold readByLine
  dsimp only
  obtain ⟨g1, g2, g3, g4, g5⟩ := begin_fields σ (Core.new cfg false)
  generalize begin σ (Core.new cfg false) = B at g1 g2 g3 g4 g5 ⊢
  obtain ⟨st, r⟩ := B
  dsimp only at g1 g2 g3 g4 g5
  cases r with
  | err => exact ⟨rfl, rfl⟩
  | ok kg =>
    dsimp only
    cases kg with
    | false => exact ⟨rfl, rfl⟩
    | true =>
      simp only [if_true]
      have hR : RWF cfg lbcfg rdr.data ⟨st, LB.init lbcfg, rdr⟩ := by
        refine ⟨⟨[], [], rdr.data, Inv.init' lbcfg rdr⟩, hz, rfl, by simp [LB.init, LB.buffer, window],
          by simp [LB.init, LB.buffer], Or.inl (by simp [LB.init, LB.buffer]), ?_, ?_, ?_, ?_⟩
        · show PostAt st (LB.init lbcfg).buffer.length
          have : (LB.init lbcfg).buffer.length = 0 := by simp [LB.init, LB.buffer]
          rw [this]
          exact ⟨by rw [g2]; exact Nat.le_refl _, by rw [g1]; rfl, Or.inl (by rw [g2]; rfl)⟩
        · show st.afterContextLeft ≤ _; rw [g3]; exact Nat.zero_le _
        · show st.binaryByteOffset = none; rw [g4]; rfl
        · show st.lastLineCounted ≤ st.lastLineVisited; rw [g5, g2]; exact Nat.le_refl _
      obtain ⟨h1, h2, h3⟩ := rblLoop_fast_slow_any hbin hlt hb hC (rblFuel rdr) _ hR
      generalize rblLoop cfg m σ (rblFuel rdr) ⟨st, LB.init lbcfg, rdr⟩ = A at h1 h2 h3 ⊢
      generalize rblLoop cfg (slowOf m) σ (rblFuel rdr) ⟨st, LB.init lbcfg, rdr⟩ = A' at h1 h2 h3 ⊢
      obtain ⟨sA, rA⟩ := A
      obtain ⟨sB, rB⟩ := A'
      dsimp only at h1 h2 h3
      rcases h3 with ⟨e1, e2⟩ | ⟨n, n', e1, e2⟩
      · subst e1
        cases rA with
        | err => exact ⟨by simp only [Run.events]; rw [h1], rfl⟩
        | ok o =>
          have : sA = sB := e2 (by simp)
          subst this
          exact ⟨rfl, rfl⟩
      · subst e1 e2
        dsimp only
        have fa := finish_events σ sA.core n sA.lb.binOff
        have fb := finish_events σ sB.core n' sB.lb.binOff
        simp only [Run.events]
        rw [fa.1, fa.2, fb.1, fb.2, h1, h2]
        exact ⟨noCount_snoc _ _ _ _, rfl⟩

/-- `SliceByLine::run`, fast path vs slow path, EVERY sink script -/
theorem sliceByLine_fast_slow_any {cfg : Config} (m : MatcherI) (σ : Script) (hbin : cfg.binary = .none)
    (inp : Bytes) (hC : ∀ a n, FindC cfg m (window inp a n)) :
    (sliceByLine cfg m σ inp).events.map Event.noCount = (sliceByLine cfg (slowOf m) σ inp).events.map Event.noCount ∧
      (sliceByLine cfg m σ inp).result = (sliceByLine cfg (slowOf m) σ inp).result := by
  unfold sliceByLine
  dsimp only
  obtain ⟨g1, g2, g3, g4, g5⟩ := begin_fields σ (Core.new cfg true)
  generalize begin σ (Core.new cfg true) = B at g1 g2 g3 g4 g5 ⊢
  obtain ⟨st, r⟩ := B
  dsimp only at g1 g2 g3 g4 g5
  cases r with
  | err => exact ⟨rfl, rfl⟩
  | ok kg =>
    dsimp only
    cases kg with
    | false => exact ⟨rfl, rfl⟩
    | true =>
      simp only [if_true]
      have hsb : st.binaryByteOffset = none := by rw [g4]; rfl
      rw [detectBinary_none hbin hsb]
      dsimp only
      -- the loop: at most one call; afterwards the same log, the same `binary_byte_offset`
      have hloop : (sliceLoop cfg m σ inp (inp.length + 1) st).2 = (sliceLoop cfg (slowOf m) σ inp (inp.length + 1) st).2 ∧
          (sliceLoop cfg m σ inp (inp.length + 1) st).1.events = (sliceLoop cfg (slowOf m) σ inp (inp.length + 1) st).1.events ∧
          (sliceLoop cfg m σ inp (inp.length + 1) st).1.binaryByteOffset
            = (sliceLoop cfg (slowOf m) σ inp (inp.length + 1) st).1.binaryByteOffset := by
        rw [sliceLoop, sliceLoop]
        split
        · exact ⟨rfl, rfl, rfl⟩
        · rw [matchByLine_slowOf]
          have hbufEq : inp = ([] : Bytes) ++ (splitLines cfg.lineTerm.asByte inp).flatten := by
            rw [splitLines_flatten]; rfl
          have hCi : FindC cfg m inp := by
            have := hC 0 inp.length
            simpa [window] using this
          have hFS := matchByLine_FS hbin m σ inp hCi [] (splitLines cfg.lineTerm.asByte inp) st hbufEq
            (splitLines_good _ _) (fun _ => Or.inl rfl) (by rw [g1]; rfl) (fun _ => by rw [g2]; rfl)
            (by rw [g3]; exact Nat.zero_le _)
          have hslowEq : matchByLineSlow cfg m σ inp st
              = slowLoop cfg m σ inp (spansFrom ([] : Bytes).length (splitLines cfg.lineTerm.asByte inp)) st := by
            unfold matchByLineSlow
            rw [show st.pos = ([] : Bytes).length by rw [g1]; rfl,
              stepLines_good ([] : Bytes) (splitLines cfg.lineTerm.asByte inp) (splitLines_good _ _) inp.length
                (by rw [splitLines_flatten]; simp) (by rw [splitLines_flatten]; simp)]
          have hpostY := fun hok => slowLoop_post hbin m σ inp [] (splitLines cfg.lineTerm.asByte inp) st hbufEq
            (splitLines_good _ _) hsb (by rw [g5, g2]; exact Nat.le_refl _)
            ⟨by rw [g2]; exact Nat.le_refl _, by rw [g1]; rfl, Or.inl (by rw [g2]; rfl)⟩ hok
          rw [← hslowEq] at hpostY
          generalize matchByLine cfg m σ inp st = X at hFS ⊢
          generalize matchByLineSlow cfg m σ inp st = Y at hFS hpostY ⊢
          obtain ⟨x, rx⟩ := X
          obtain ⟨y, ry⟩ := Y
          obtain ⟨f1, f2, f3, f4⟩ := hFS
          obtain ⟨_, _, hev, hbo⟩ := withPH_fields f2
          dsimp only at f1 f2 f3 f4 hev hbo hpostY
          subst f1
          cases rx with
          | err => exact ⟨rfl, hev, hbo⟩
          | ok b =>
            cases b with
            | false => exact ⟨rfl, hev, hbo⟩
            | true =>
              have hxy : x = y := f4 rfl
              subst hxy
              dsimp only
              have hp : x.pos = inp.length := (hpostY rfl).1.2.1
              have e1 : ∀ mm : MatcherI, sliceLoop cfg mm σ inp inp.length x = (x, .ok ()) := by
                intro mm
                cases hl : inp.length with
                | zero => rfl
                | succ n => rw [sliceLoop]; simp [hp]
              rw [e1 m, e1 (slowOf m)]
              exact ⟨rfl, rfl, rfl⟩
      obtain ⟨h1, h2, h3⟩ := hloop
      generalize sliceLoop cfg m σ inp (inp.length + 1) st = A at h1 h2 h3 ⊢
      generalize sliceLoop cfg (slowOf m) σ inp (inp.length + 1) st = A' at h1 h2 h3 ⊢
      obtain ⟨sA, rA⟩ := A
      obtain ⟨sB, rB⟩ := A'
      dsimp only at h1 h2 h3
      subst h1
      cases rA with
      | err => exact ⟨by simp only [Run.events]; rw [h2], rfl⟩
      | ok o =>
        dsimp only
        have fa := finish_events σ sA (byteCount cfg sA) sA.binaryByteOffset
        have fb := finish_events σ sB (byteCount cfg sB) sB.binaryByteOffset
        simp only [Run.events]
        rw [fa.1, fa.2, fb.1, fb.2, h2, h3]
        exact ⟨noCount_snoc _ _ _ _, rfl⟩

/-- **C02 on the fast path for EVERY sink script**: reader and slice make the same callbacks up to the
byte count reported by `finish` (finding F10b: when the sink says stop, `Core.pos` on the fast path
is not the end of the stopping line), and return the same result. -/
theorem readByLine_eq_sliceByLine_fast_any {cfg : Config} (m : MatcherI) (σ : Script) (hbin : cfg.binary = .none)
    (lbcfg : LineBuffer.Config) (hlt : lbcfg.lineterm = cfg.lineTerm.asByte) (hb : lbcfg.binary = .none)
    (hal : lbcfg.alloc = .eager) (rdr : Reader) (hC : ∀ a n, FindC cfg m (window rdr.data a n))
    (hz : NoZero rdr.script) :
    (readByLine cfg m σ lbcfg rdr).events.map Event.noCount = (sliceByLine cfg m σ rdr.data).events.map Event.noCount ∧
      (readByLine cfg m σ lbcfg rdr).result = (sliceByLine cfg m σ rdr.data).result := by
  obtain ⟨a1, a2⟩ := readByLine_fast_slow_any m σ hbin lbcfg hlt hb rdr hC hz
  obtain ⟨b1, b2⟩ := sliceByLine_fast_slow_any m σ hbin rdr.data hC
  obtain ⟨c1, c2⟩ := readByLine_eq_sliceByLine_all (slowOf m) σ hbin (isLineByLineFast_slowOf cfg m _) lbcfg hlt hb hal rdr hz
  exact ⟨by rw [a1, c1, b1], by rw [a2, c2, b2]⟩

end RgVerif.Searcher
