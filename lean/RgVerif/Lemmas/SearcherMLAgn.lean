import RgVerif.Lemmas.SearcherDeliver
import RgVerif.Lemmas.SearcherMLCoalesce
import RgVerif.Model.Glue
/-
With the all-continue sink and binary detection off, the context functions neither read the log of callbacks
nor stop: run from a state with another log they append the same events (none of them `matched`).
-/
namespace RgVerif.Searcher
open RgVerif RgVerif.Matcher RgVerif.Lines RgVerif.GrepSpec RgVerif.MLSpec

/-- the same state with another log -/
def withE (st : Core) (E : List Event) : Core := { st with events := E }

theorem withE_self (st : Core) : withE st st.events = st := by cases st; rfl
theorem withE_withE (st : Core) (E E' : List Event) : withE (withE st E) E' = withE st E' := rfl
@[simp] theorem withE_llv (st : Core) (E : List Event) : (withE st E).lastLineVisited = st.lastLineVisited := rfl
@[simp] theorem withE_acl (st : Core) (E : List Event) : (withE st E).afterContextLeft = st.afterContextLeft := rfl
@[simp] theorem withE_bbo (st : Core) (E : List Event) : (withE st E).binaryByteOffset = st.binaryByteOffset := rfl
@[simp] theorem withE_events (st : Core) (E : List Event) : (withE st E).events = E := rfl

/-- `f` run from `st` appends `suf`, answers `Ok(true)`, and does the same from `st` with the log `E` -/
structure AgnRes (f : Core → Core × Res Bool) (st : Core) (E suf : List Event) : Prop where
  ev : (f st).1.events = st.events ++ suf
  eq : f (withE st E) = (withE (f st).1 (E ++ suf), .ok true)
  okr : (f st).2 = .ok true
  nb : (f st).1.binaryByteOffset = none

theorem AgnRes.of {f : Core → Core × Res Bool} {st st' : Core} {E suf : List Event}
    (h1 : f st = (st', .ok true)) (h2 : f (withE st E) = (withE st' (E ++ suf), .ok true))
    (h3 : st'.events = st.events ++ suf) (h4 : st'.binaryByteOffset = none) : AgnRes f st E suf :=
  ⟨by rw [h1]; exact h3, by rw [h2, h1], by rw [h1], by rw [h1]; exact h4⟩

theorem AgnRes.run {f : Core → Core × Res Bool} {st : Core} {E suf : List Event} (h : AgnRes f st E suf) :
    f st = ((f st).1, .ok true) := by
  rw [← h.okr]

def NoMatched (suf : List Event) : Prop := ∀ e ∈ suf, isMatchedEv e = false

theorem NoMatched.append {a b : List Event} (ha : NoMatched a) (hb : NoMatched b) : NoMatched (a ++ b) := by
  intro e he
  rcases List.mem_append.mp he with h | h
  · exact ha e h
  · exact hb e h

theorem noMatched_nil : NoMatched [] := fun _ h => by simp at h

/-- `f` is log-agnostic from every state without a binary offset -/
def Agn (f : Core → Core × Res Bool) : Prop :=
  ∀ st, st.binaryByteOffset = none → ∀ E, ∃ suf, NoMatched suf ∧ AgnRes f st E suf

theorem countLines_withE (cfg : Config) (buf : Bytes) (st : Core) (E : List Event) (u : Nat) :
    countLines cfg buf (withE st E) u = withE (countLines cfg buf st u) E := by
  unfold countLines withE
  dsimp only
  split
  · rfl
  · split <;> rfl

theorem countLines_events (cfg : Config) (buf : Bytes) (st : Core) (u : Nat) :
    (countLines cfg buf st u).events = st.events := by
  unfold countLines
  split
  · rfl
  · split <;> rfl

theorem countLines_bbo (cfg : Config) (buf : Bytes) (st : Core) (u : Nat) :
    (countLines cfg buf st u).binaryByteOffset = st.binaryByteOffset := by
  unfold countLines
  split
  · rfl
  · split <;> rfl

/-- the event `deliverGen` appends -/
def genEv (cfg : Config) (buf : Bytes) (mk : Option Nat → Nat → Bytes → Event) (st : Core) (r : Span) : Event :=
  mk (countLines cfg buf st r.s).lineNumber ((countLines cfg buf st r.s).absoluteByteOffset + r.s) (slice buf r.s r.e)

theorem deliverGen_events (cfg : Config) (buf : Bytes) (mk : Option Nat → Nat → Bytes → Event) (acl : Nat)
    (st : Core) (r : Span) : (deliverGen cfg buf mk acl st r).events = st.events ++ [genEv cfg buf mk st r] := by
  simp only [deliverGen, genEv, countLines_events]

theorem deliverGen_withE (cfg : Config) (buf : Bytes) (mk : Option Nat → Nat → Bytes → Event) (acl : Nat)
    (st : Core) (E : List Event) (r : Span) :
    deliverGen cfg buf mk acl (withE st E) r = withE (deliverGen cfg buf mk acl st r) (E ++ [genEv cfg buf mk st r]) := by
  simp only [deliverGen, genEv, countLines_withE]
  rfl

theorem deliverGen_bbo (cfg : Config) (buf : Bytes) (mk : Option Nat → Nat → Bytes → Event) (acl : Nat)
    (st : Core) (r : Span) : (deliverGen cfg buf mk acl st r).binaryByteOffset = st.binaryByteOffset := by
  simp only [deliverGen, countLines_bbo]

section
variable {cfg : Config} {buf : Bytes} (hbin : cfg.binary = .none)
include hbin

theorem afterLoop_agn : ∀ (lines : List Span), Agn (afterLoop cfg allCont buf lines) := by
  intro lines
  induction lines with
  | nil => intro st hb E; exact ⟨[], noMatched_nil, AgnRes.of (st' := st) rfl (by simp [afterLoop]) (by simp) hb⟩
  | cons line rest ih =>
    intro st hb E
    have n1 := sinkAfterContext_allCont (cfg := cfg) (buf := buf) (st := st) line hbin hb
    have n2 := sinkAfterContext_allCont (cfg := cfg) (buf := buf) (st := withE st E) line hbin hb
    rw [deliverGen_withE] at n2
    simp only [withE_acl] at n2
    have hb1 : (deliverGen cfg buf (Event.context .after) (st.afterContextLeft - 1) st line).binaryByteOffset = none := by
      rw [deliverGen_bbo]; exact hb
    have hev1 := deliverGen_events cfg buf (Event.context .after) (st.afterContextLeft - 1) st line
    have hnm : NoMatched [genEv cfg buf (Event.context .after) st line] := by
      intro e he; simp at he; subst he; rfl
    generalize deliverGen cfg buf (Event.context .after) (st.afterContextLeft - 1) st line = st1 at n1 n2 hb1 hev1
    generalize genEv cfg buf (Event.context .after) st line = ev at n2 hev1 hnm
    have n2' : sinkAfterContext cfg allCont buf (withE st E) line = (withE st1 (E ++ [ev]), .ok true) := n2
    have hA : afterLoop cfg allCont buf (line :: rest) st
        = if st1.afterContextLeft == 0 then (st1, .ok true) else afterLoop cfg allCont buf rest st1 := by
      rw [afterLoop, n1]
    have hB : afterLoop cfg allCont buf (line :: rest) (withE st E)
        = if st1.afterContextLeft == 0 then (withE st1 (E ++ [ev]), .ok true)
          else afterLoop cfg allCont buf rest (withE st1 (E ++ [ev])) := by
      rw [afterLoop, n2']; rfl
    by_cases h0 : (st1.afterContextLeft == 0) = true
    · rw [if_pos h0] at hA hB
      exact ⟨[ev], hnm, AgnRes.of hA hB hev1 hb1⟩
    · rw [if_neg h0] at hA hB
      obtain ⟨suf, hs, hr⟩ := ih st1 hb1 (E ++ [ev])
      refine ⟨[ev] ++ suf, hnm.append hs, AgnRes.of (st' := (afterLoop cfg allCont buf rest st1).1) ?_ ?_ ?_ hr.nb⟩
      · rw [hA]; exact hr.run
      · rw [hB, hr.eq, List.append_assoc]
      · rw [hr.ev, hev1, List.append_assoc]

theorem otherLoop_agn : ∀ (lines : List Span), Agn (otherLoop cfg allCont buf lines) := by
  intro lines
  induction lines with
  | nil => intro st hb E; exact ⟨[], noMatched_nil, AgnRes.of (st' := st) rfl (by simp [otherLoop]) (by simp) hb⟩
  | cons line rest ih =>
    intro st hb E
    have n1 := sinkOtherContext_allCont (cfg := cfg) (buf := buf) (st := st) line hbin hb
    have n2 := sinkOtherContext_allCont (cfg := cfg) (buf := buf) (st := withE st E) line hbin hb
    rw [deliverGen_withE] at n2
    simp only [withE_acl] at n2
    have hb1 : (deliverGen cfg buf (Event.context .other) st.afterContextLeft st line).binaryByteOffset = none := by
      rw [deliverGen_bbo]; exact hb
    have hev1 := deliverGen_events cfg buf (Event.context .other) st.afterContextLeft st line
    have hnm : NoMatched [genEv cfg buf (Event.context .other) st line] := by
      intro e he; simp at he; subst he; rfl
    generalize deliverGen cfg buf (Event.context .other) st.afterContextLeft st line = st1 at n1 n2 hb1 hev1
    generalize genEv cfg buf (Event.context .other) st line = ev at n2 hev1 hnm
    have n2' : sinkOtherContext cfg allCont buf (withE st E) line = (withE st1 (E ++ [ev]), .ok true) := n2
    have hA : otherLoop cfg allCont buf (line :: rest) st = otherLoop cfg allCont buf rest st1 := by
      rw [otherLoop, n1]
    have hB : otherLoop cfg allCont buf (line :: rest) (withE st E)
        = otherLoop cfg allCont buf rest (withE st1 (E ++ [ev])) := by
      rw [otherLoop, n2']
    obtain ⟨suf, hs, hr⟩ := ih st1 hb1 (E ++ [ev])
    refine ⟨[ev] ++ suf, hnm.append hs, AgnRes.of (st' := (otherLoop cfg allCont buf rest st1).1) ?_ ?_ ?_ hr.nb⟩
    · rw [hA]; exact hr.run
    · rw [hB, hr.eq, List.append_assoc]
    · rw [hr.ev, hev1, List.append_assoc]

theorem beforeLoop_agn : ∀ (lines : List Span), Agn (beforeLoop cfg allCont buf lines) := by
  intro lines
  induction lines with
  | nil => intro st hb E; exact ⟨[], noMatched_nil, AgnRes.of (st' := st) rfl (by simp [beforeLoop]) (by simp) hb⟩
  | cons line rest ih =>
    intro st hb E
    have hbn : NoMatched (if brkCond cfg st line.s then [Event.contextBreak] else []) := by
      intro e he; split at he <;> simp at he; subst he; rfl
    have b1 : sinkBreakContext cfg allCont st line.s
        = (withE st (st.events ++ (if brkCond cfg st line.s then [Event.contextBreak] else [])), .ok true) := by
      rw [sinkBreakContext_allCont]; rfl
    have b2 : sinkBreakContext cfg allCont (withE st E) line.s
        = (withE st (E ++ (if brkCond cfg st line.s then [Event.contextBreak] else [])), .ok true) := by
      rw [sinkBreakContext_allCont]; rfl
    generalize (if brkCond cfg st line.s then [Event.contextBreak] else []) = brk at hbn b1 b2
    have n1 := sinkBeforeContext_allCont (cfg := cfg) (buf := buf) (st := withE st (st.events ++ brk)) line hbin hb
    have n2 := sinkBeforeContext_allCont (cfg := cfg) (buf := buf) (st := withE st (E ++ brk)) line hbin hb
    rw [deliverGen_withE] at n1 n2
    simp only [withE_acl] at n1 n2
    have hb1 : (deliverGen cfg buf (Event.context .before) st.afterContextLeft st line).binaryByteOffset = none := by
      rw [deliverGen_bbo]; exact hb
    have hnm : NoMatched [genEv cfg buf (Event.context .before) st line] := by
      intro e he; simp at he; subst he; rfl
    generalize deliverGen cfg buf (Event.context .before) st.afterContextLeft st line = st1 at n1 n2 hb1
    generalize genEv cfg buf (Event.context .before) st line = ev at n1 n2 hnm
    have hA : beforeLoop cfg allCont buf (line :: rest) st
        = beforeLoop cfg allCont buf rest (withE st1 (st.events ++ brk ++ [ev])) := by
      rw [beforeLoop, b1]; dsimp only; rw [n1]
    have hB : beforeLoop cfg allCont buf (line :: rest) (withE st E)
        = beforeLoop cfg allCont buf rest (withE st1 (E ++ brk ++ [ev])) := by
      rw [beforeLoop, b2]; dsimp only; rw [n2]
    obtain ⟨suf, hs, hr⟩ := ih (withE st1 (st.events ++ brk ++ [ev])) hb1 (E ++ brk ++ [ev])
    have heq := hr.eq
    rw [withE_withE] at heq
    refine ⟨brk ++ [ev] ++ suf, (hbn.append hnm).append hs,
      AgnRes.of (st' := (beforeLoop cfg allCont buf rest (withE st1 (st.events ++ brk ++ [ev]))).1) ?_ ?_ ?_ hr.nb⟩
    · rw [hA]; exact hr.run
    · rw [hB, heq]; simp only [List.append_assoc]
    · rw [hr.ev]; simp only [withE_events, List.append_assoc]

theorem afterContextByLine_agn (upto : Nat) : Agn (fun st => afterContextByLine cfg allCont buf st upto) := by
  intro st hb E
  by_cases h0 : (st.afterContextLeft == 0) = true
  · refine ⟨[], noMatched_nil, AgnRes.of (st' := st) ?_ ?_ (by simp) hb⟩
    · simp only [afterContextByLine, h0, if_true]
    · simp only [afterContextByLine, withE_acl, h0, if_true, List.append_nil]
  · obtain ⟨suf, hs, hr⟩ := afterLoop_agn (buf := buf) hbin (stepLines cfg.lineTerm.asByte buf st.lastLineVisited upto) st hb E
    have e1 : afterContextByLine cfg allCont buf st upto
        = afterLoop cfg allCont buf (stepLines cfg.lineTerm.asByte buf st.lastLineVisited upto) st := by
      simp only [afterContextByLine, h0, Bool.false_eq_true, if_false]
    have e2 : afterContextByLine cfg allCont buf (withE st E) upto
        = afterLoop cfg allCont buf (stepLines cfg.lineTerm.asByte buf st.lastLineVisited upto) (withE st E) := by
      simp only [afterContextByLine, withE_acl, withE_llv, h0, Bool.false_eq_true, if_false]
    refine ⟨suf, hs, AgnRes.of (st' := (afterLoop cfg allCont buf (stepLines cfg.lineTerm.asByte buf st.lastLineVisited upto) st).1)
      ?_ ?_ hr.ev hr.nb⟩
    · rw [e1]; exact hr.run
    · rw [e2]; exact hr.eq

theorem otherContextByLine_agn (upto : Nat) : Agn (fun st => otherContextByLine cfg allCont buf st upto) := by
  intro st hb E
  obtain ⟨suf, hs, hr⟩ := otherLoop_agn (buf := buf) hbin (stepLines cfg.lineTerm.asByte buf st.lastLineVisited upto) st hb E
  exact ⟨suf, hs, AgnRes.of (st' := (otherLoop cfg allCont buf (stepLines cfg.lineTerm.asByte buf st.lastLineVisited upto) st).1)
    hr.run hr.eq hr.ev hr.nb⟩

theorem beforeContextByLine_agn (upto : Nat) : Agn (fun st => beforeContextByLine cfg allCont buf st upto) := by
  intro st hb E
  by_cases h0 : (cfg.beforeContext == 0) = true
  · refine ⟨[], noMatched_nil, AgnRes.of (st' := st) ?_ ?_ (by simp) hb⟩
    · simp only [beforeContextByLine, h0, if_true]
    · simp only [beforeContextByLine, h0, if_true, List.append_nil]
  · by_cases h1 : (upto - st.lastLineVisited == 0) = true
    · refine ⟨[], noMatched_nil, AgnRes.of (st' := st) ?_ ?_ (by simp) hb⟩
      · simp only [beforeContextByLine, h0, h1, Bool.false_eq_true, if_true, if_false]
      · simp only [beforeContextByLine, withE_llv, h0, h1, Bool.false_eq_true, if_true, if_false, List.append_nil]
    · generalize hl : stepLines cfg.lineTerm.asByte buf
        (st.lastLineVisited + preceding (slice buf st.lastLineVisited upto) cfg.lineTerm.asByte (cfg.beforeContext - 1)) upto = lines
      obtain ⟨suf, hs, hr⟩ := beforeLoop_agn (buf := buf) hbin lines st hb E
      have e1 : beforeContextByLine cfg allCont buf st upto = beforeLoop cfg allCont buf lines st := by
        simp only [beforeContextByLine, h0, h1, Bool.false_eq_true, if_false, hl]
      have e2 : beforeContextByLine cfg allCont buf (withE st E) upto = beforeLoop cfg allCont buf lines (withE st E) := by
        simp only [beforeContextByLine, withE_llv, h0, h1, Bool.false_eq_true, if_false, hl]
      refine ⟨suf, hs, AgnRes.of (st' := (beforeLoop cfg allCont buf lines st).1) ?_ ?_ hr.ev hr.nb⟩
      · rw [e1]; exact hr.run
      · rw [e2]; exact hr.eq

/-- `MultiLine::sink_context` -/
theorem mlSinkContext_agn (r : Span) : Agn (fun st => mlSinkContext cfg allCont buf st r) := by
  intro st hb E
  by_cases hp : cfg.passthru = true
  · obtain ⟨suf, hs, hr⟩ := otherContextByLine_agn (buf := buf) hbin r.s st hb E
    have e : ∀ st', mlSinkContext cfg allCont buf st' r = otherContextByLine cfg allCont buf st' r.s := by
      intro st'
      simp only [mlSinkContext, hp, if_true]
      split <;> simp_all
    refine ⟨suf, hs, AgnRes.of (st' := (otherContextByLine cfg allCont buf st r.s).1) ?_ ?_ hr.ev hr.nb⟩
    · rw [e]; exact hr.run
    · rw [e]; exact hr.eq
  · obtain ⟨suf1, hs1, hr1⟩ := afterContextByLine_agn (buf := buf) hbin r.s st hb E
    obtain ⟨suf2, hs2, hr2⟩ := beforeContextByLine_agn (buf := buf) hbin r.s _ hr1.nb (E ++ suf1)
    have e : ∀ st', mlSinkContext cfg allCont buf st' r =
        match afterContextByLine cfg allCont buf st' r.s with
        | (st1, .ok true) => beforeContextByLine cfg allCont buf st1 r.s
        | (st1, x) => (st1, x) := by
      intro st'
      simp only [mlSinkContext, hp, Bool.false_eq_true, if_false]
      split
      · split <;> simp_all
      · simp_all
    have a1 := hr1.run
    have a2 := hr2.run
    have q1 := hr1.eq
    have q2 := hr2.eq
    refine ⟨suf1 ++ suf2, hs1.append hs2, AgnRes.of
      (st' := (beforeContextByLine cfg allCont buf (afterContextByLine cfg allCont buf st r.s).1 r.s).1) ?_ ?_ ?_ hr2.nb⟩
    · rw [e, a1]; exact a2
    · rw [e, q1]; dsimp only; rw [q2, List.append_assoc]
    · rw [hr2.ev, hr1.ev, List.append_assoc]

end
end RgVerif.Searcher
