import RgVerif.Lemmas.GlobStrat
/-
The remaining recognisers: `prefix`, `suffix`, `required_ext`; and `MatchStrategy::new` as a whole.
-/
namespace RgVerif.Glob

theorem literal_of_allLits {g : Glob} {l : List Nat} (hci : g.opts.ci = false)
    (hl : allLits g.tokens = some l) (hne : l ≠ []) : literal g = some l := by
  unfold literal
  have : l.isEmpty = false := by cases l <;> simp_all
  simp [hci, hl, this]

theorem allLits_cons_not_lit {t : Token} {ts : List Token} (h : ∀ c, t ≠ .s (.lit c)) :
    allLits (t :: ts) = none := by
  cases t with
  | alts bs => rfl
  | s t => cases t <;> first | rfl | (rename_i c; exact absurd rfl (h c))

/-! ### `prefix` -/

theorem pfx_shape {g : Glob} {l : List Nat} (h : pfx g = some l) (hlit : literal g = none) :
    g.opts.ci = false ∧
      ((g.opts.ls = false ∧ l ≠ [] ∧ g.tokens = lits l ++ [.s .star]) ∨
       (∃ l0, l = l0 ++ [47] ∧ g.tokens = lits l0 ++ [.s .recSuffix])) := by
  unfold pfx at h
  cases hci : g.opts.ci with
  | true => simp only [hci, ↓reduceIte, reduceCtorEq] at h
  | false =>
    refine ⟨rfl, ?_⟩
    simp only [hci, Bool.false_eq_true, ↓reduceIte] at h
    cases hlast : g.tokens.getLast? with
    | none => simp [hlast] at h
    | some last =>
      simp only [hlast] at h
      have hne : g.tokens ≠ [] := by intro hn; simp [hn] at hlast
      have hsplit : g.tokens = g.tokens.dropLast ++ [last] := by
        have := List.dropLast_concat_getLast hne
        rw [List.getLast?_eq_some_getLast hne] at hlast
        simp only [Option.some.injEq] at hlast
        rw [hlast] at this; exact this.symm
      have htake : g.tokens.take (g.tokens.length - 1) = g.tokens.dropLast := by
        rw [List.dropLast_eq_take]
      by_cases hs : last = Token.s .star
      · subst hs
        simp only [BEq.rfl, ↓reduceIte] at h
        cases hls : g.opts.ls with
        | true => simp [hls] at h
        | false =>
          simp only [hls, Bool.false_eq_true, ↓reduceIte, htake] at h
          cases hal : allLits g.tokens.dropLast with
          | none => simp [hal] at h
          | some lit =>
            simp only [hal, Bool.false_eq_true, ↓reduceIte] at h
            by_cases hem : lit.isEmpty = true
            · simp [hem] at h
            · simp only [hem, Bool.false_eq_true, ↓reduceIte, Option.some.injEq] at h
              subst h
              left
              refine ⟨rfl, by intro hn; simp [hn] at hem, ?_⟩
              rw [hsplit, allLits_eq_some hal]
      · have hb : (last == Token.s .star) = false := by simpa using hs
        simp only [hb, Bool.false_eq_true, ↓reduceIte] at h
        by_cases hr : last = Token.s .recSuffix
        · subst hr
          simp only [BEq.rfl, ↓reduceIte, htake] at h
          cases hal : allLits g.tokens.dropLast with
          | none => simp [hal] at h
          | some lit =>
            simp only [hal, ↓reduceIte] at h
            have : (lit ++ [47]).isEmpty = false := by simp
            simp only [this, Bool.false_eq_true, ↓reduceIte, Option.some.injEq] at h
            right
            refine ⟨lit, h.symm, ?_⟩
            rw [hsplit, allLits_eq_some hal]
        · have hb2 : (last == Token.s .recSuffix) = false := by simpa using hr
          simp only [hb2, Bool.false_eq_true, ↓reduceIte, List.take_length] at h
          cases hal : allLits g.tokens with
          | none => simp [hal] at h
          | some lit =>
            simp only [hal, Bool.false_eq_true, ↓reduceIte] at h
            by_cases hem : lit.isEmpty = true
            · simp [hem] at h
            · have hne' : lit ≠ [] := by intro hn; simp [hn] at hem
              rw [literal_of_allLits hci hal hne'] at hlit
              simp at hlit

/-- `.*$` with separators allowed matches whatever is left -/
theorem star_end (o : Opts) (hls : o.ls = false) (r : Bytes) :
    tokensK o [.s .star] (fun r => r.isEmpty) r = true := by
  simp only [tokensK, tokRests, List.any_eq_true]
  exact ⟨[], mem_starRests.mpr ⟨r, by simp, fun b _ => anyOk_of_not_ls hls b⟩, rfl⟩

/-- `/.*$` -/
theorem recSuffix_end (o : Opts) (r : Bytes) :
    tokensK o [.s .recSuffix] (fun r => r.isEmpty) r = true ↔ ∃ r', r = 47 :: r' := by
  cases r with
  | nil => simp [tokensK, tokRests]
  | cons b r =>
    simp only [tokensK, tokRests, List.cons.injEq, exists_eq_right']
    split
    · rename_i hb
      have : b = 47 := by simpa using hb
      simp only [List.any_eq_true, this, iff_true]
      exact ⟨[], mem_starRests_true.mpr ⟨r, by simp⟩, rfl⟩
    · rename_i hb
      have : b ≠ 47 := by simpa using hb
      simp [this]

theorem pfx_correct {g : Glob} {l : List Nat} (h : pfx g = some l) (hlit : literal g = none)
    (p : Bytes) : stratAnswer g (.pfx l) (candidate p) = g.isMatch p := by
  obtain ⟨hci, hshape⟩ := pfx_shape h hlit
  apply bool_eq_of_iff
  unfold Glob.isMatch
  simp only [stratAnswer, candidate_path, List.isPrefixOf_iff_prefix]
  rcases hshape with ⟨hls, _, htok⟩ | ⟨l0, rfl, htok⟩
  · rw [htok, tokMatch_eq _ _ _ (by
      intro hc; have := congrArg List.getLast? hc; simp at this),
      tokensK_lits _ hci]
    constructor
    · rintro ⟨t, ht⟩; exact ⟨t, ht.symm, star_end _ hls t⟩
    · rintro ⟨r, hr, _⟩; exact ⟨r, hr.symm⟩
  · rw [htok, tokMatch_eq _ _ _ (by
      intro hc; have := congrArg List.getLast? hc; simp at this),
      tokensK_lits _ hci]
    simp only [recSuffix_end, utf8Str_append, utf8Str_cons, utf8Enc_47, utf8Str_nil, List.append_nil]
    constructor
    · rintro ⟨t, ht⟩; exact ⟨[47] ++ t, by simp [← ht], t, rfl⟩
    · rintro ⟨r, hr, r', rfl⟩; exact ⟨r', by simp [hr]⟩

/-! ### `suffix` -/

theorem sfx_shape {g : Glob} {l : List Nat} {c : Bool} (h : sfx g = some (l, c))
    (hlit : literal g = none) :
    g.opts.ci = false ∧
      ((c = true ∧ ∃ l', l = 47 :: l' ∧ g.tokens = .s .recPrefix :: lits l') ∨
       (c = false ∧ g.opts.ls = false ∧
          (g.tokens = .s .recPrefix :: .s .star :: lits l ∨ g.tokens = .s .star :: lits l))) := by
  unfold sfx at h
  cases hci : g.opts.ci with
  | true => simp only [hci, ↓reduceIte, reduceCtorEq] at h
  | false =>
    refine ⟨rfl, ?_⟩
    simp only [hci, Bool.false_eq_true, ↓reduceIte] at h
    cases hg : g.tokens with
    | nil => simp [hg] at h
    | cons t0 rest =>
      simp only [hg] at h
      by_cases ht0 : t0 = Token.s .recPrefix
      · subst ht0
        simp only [BEq.rfl, ↓reduceIte, List.getElem?_cons_succ] at h
        cases rest with
        | nil => simp at h
        | cons t1 rest' =>
          simp only [List.getElem?_cons_zero] at h
          cases t1 with
          | alts bs => simp [allLits] at h
          | s t =>
            cases t with
            | lit c1 =>
              simp only [List.getElem?_cons_succ, List.getElem?_cons_zero] at h
              have hb : (Token.s (Tok.lit c1) == Token.s Tok.star) = false := by simp
              simp only [hb, Bool.false_eq_true, ↓reduceIte, List.drop_succ_cons, List.drop_zero] at h
              cases hal : allLits (Token.s (Tok.lit c1) :: rest') with
              | none => simp [hal] at h
              | some l'' =>
                simp only [hal] at h
                split at h
                · simp at h
                · simp only [Option.some.injEq, Prod.mk.injEq] at h
                  left
                  exact ⟨h.2.symm, l'', by simpa using h.1.symm, by rw [allLits_eq_some hal]⟩
            | star =>
              simp only [List.getElem?_cons_succ, List.getElem?_cons_zero, BEq.rfl, ↓reduceIte] at h
              cases hls : g.opts.ls with
              | true => simp [hls] at h
              | false =>
                simp only [hls, Bool.false_eq_true, ↓reduceIte, List.drop_succ_cons, List.drop_zero,
                  List.nil_append] at h
                cases hal : allLits rest' with
                | none => simp [hal] at h
                | some l'' =>
                  simp only [hal] at h
                  split at h
                  · simp at h
                  · simp only [Option.some.injEq, Prod.mk.injEq] at h
                    right
                    refine ⟨h.2.symm, rfl, Or.inl ?_⟩
                    rw [← h.1, allLits_eq_some hal]
            | any => simp [allLits] at h
            | recPrefix => simp [allLits] at h
            | recSuffix => simp [allLits] at h
            | recZero => simp [allLits] at h
            | cls n r => simp [allLits] at h
      · have hb : (t0 == Token.s .recPrefix) = false := by simpa using ht0
        simp only [hb, Bool.false_eq_true, ↓reduceIte, List.getElem?_cons_zero] at h
        by_cases hs : t0 = Token.s .star
        · subst hs
          simp only [BEq.rfl, ↓reduceIte] at h
          cases hls : g.opts.ls with
          | true => simp [hls] at h
          | false =>
            simp only [hls, Bool.false_eq_true, ↓reduceIte, Nat.zero_add, List.drop_succ_cons,
              List.drop_zero, List.nil_append] at h
            cases hal : allLits rest with
            | none => simp [hal] at h
            | some l'' =>
              simp only [hal] at h
              split at h
              · simp at h
              · simp only [Option.some.injEq, Prod.mk.injEq] at h
                right
                refine ⟨h.2.symm, rfl, Or.inr ?_⟩
                rw [← h.1, allLits_eq_some hal]
        · have hb2 : (t0 == Token.s .star) = false := by simpa using hs
          simp only [hb2, Bool.false_eq_true, ↓reduceIte, List.drop_zero, List.nil_append] at h
          cases hal : allLits (t0 :: rest) with
          | none => simp [hal] at h
          | some l'' =>
            simp only [hal] at h
            split at h
            · simp at h
            · rename_i hne
              have hne' : l'' ≠ [] := by intro hn; simp [hn] at hne
              rw [literal_of_allLits hci (by rw [hg]; exact hal) hne'] at hlit
              simp at hlit

/-- `^(?:/?|.*/).*LIT$` when `*` may cross separators -/
theorem recPrefix_star_lits_match' (o : Opts) (hci : o.ci = false) (hls : o.ls = false)
    (m : List Nat) (p : Bytes) :
    tokensK o (.s .recPrefix :: .s .star :: lits m) (fun r => r.isEmpty) p = true ↔
      utf8Str m <:+ p := by
  constructor
  · intro h
    have := tokensK_append o [.s .recPrefix, .s .star] (lits m) (fun r => r.isEmpty) p
    simp only [List.cons_append, List.nil_append] at this
    rw [this] at h
    obtain ⟨r, hr, hk⟩ := tokensK_suffix o _ _ p h
    rw [tokensK_lits_end o hci] at hk
    subst hk; exact hr
  · rintro ⟨x, hx⟩
    rw [show tokensK o (.s .recPrefix :: .s .star :: lits m) (fun r => r.isEmpty) p
        = (tokRests o .recPrefix p).any (tokensK o (.s .star :: lits m) (fun r => r.isEmpty)) from rfl]
    simp only [tokRests, List.any_cons, Bool.or_eq_true]
    left
    exact (star_lits_match o hci m p).mpr ⟨x, hx.symm, fun b _ => anyOk_of_not_ls hls b⟩

theorem sfx_correct {g : Glob} {l : List Nat} {c : Bool} (h : sfx g = some (l, c))
    (hlit : literal g = none) (p : Bytes) :
    stratAnswer g (.sfx l c) (candidate p) = g.isMatch p := by
  obtain ⟨hci, hshape⟩ := sfx_shape h hlit
  apply bool_eq_of_iff
  unfold Glob.isMatch
  simp only [stratAnswer, candidate_path, List.isSuffixOf_iff_suffix, Bool.or_eq_true,
    Bool.and_eq_true, beq_iff_eq]
  rcases hshape with ⟨rfl, l', rfl, htok⟩ | ⟨rfl, hls, htok | htok⟩
  · by_cases hl' : l' = []
    · -- `**/` followed by nothing is excluded by `suffix` itself (`lit == "/"`)
      subst hl'
      unfold sfx at h
      simp [hci, htok, lits] at h
    · rw [htok, tokMatch_eq _ _ _ (by
        have := lits_ne_single_recPrefix [.s .recPrefix] l' hl'
        simpa using this), recPrefix_lits_match _ hci]
      simp only [utf8Str_cons, utf8Enc_47, List.singleton_append, List.drop_succ_cons,
        List.drop_zero, true_and]
      constructor
      · rintro (hp | ⟨x, hx⟩)
        · exact Or.inl hp
        · exact Or.inr ⟨x, hx.symm⟩
      · rintro (hp | ⟨x, hx⟩)
        · exact Or.inl hp
        · exact Or.inr ⟨x, hx.symm⟩
  · rw [htok, tokMatch_eq _ _ _ (by simp), recPrefix_star_lits_match' _ hci hls]
    simp
  · rw [htok]
    by_cases hl : l = []
    · subst hl
      unfold sfx at h
      simp [hci, htok, hls, lits, allLits] at h
    · rw [tokMatch_eq _ _ _ (by
        have := lits_ne_single_recPrefix [.s .star] l hl
        simpa using this), star_lits_match _ hci]
      simp only [Bool.false_eq_true, false_and, false_or]
      constructor
      · rintro ⟨x, hx⟩; exact ⟨x, hx.symm, fun b _ => anyOk_of_not_ls hls b⟩
      · rintro ⟨y, hy, _⟩; exact ⟨y, hy.symm⟩

/-! ### `required_ext` -/

theorem reqExtScan_shape {ts : List Token} {acc r : List Nat} (h : reqExtScan ts acc = some r) :
    (∃ m rest, ts = lits m ++ .s (.lit 46) :: rest ∧ r = acc ++ m ++ [46] ∧ 46 ∉ m ∧ 47 ∉ m) ∨
    (∃ m, ts = lits m ∧ r = acc ++ m ∧ 46 ∉ m ∧ 47 ∉ m) := by
  induction ts generalizing acc with
  | nil =>
    simp only [reqExtScan, Option.some.injEq] at h
    exact Or.inr ⟨[], rfl, by simp [h], by simp, by simp⟩
  | cons t ts ih =>
    cases t with
    | alts bs => simp [reqExtScan] at h
    | s t =>
      cases t <;> simp only [reqExtScan] at h <;> try (simp at h)
      rename_i c
      obtain ⟨h47', h⟩ := h
      split at h
      · rename_i h46
        simp only [Option.some.injEq] at h
        subst h46
        exact Or.inl ⟨[], ts, rfl, by simp [h], by simp, by simp⟩
      · rename_i h46'
        rcases ih h with ⟨m, rest, hts, hr, hm46, hm47⟩ | ⟨m, hts, hr, hm46, hm47⟩
        · refine Or.inl ⟨c :: m, rest, by simp [lits_cons, hts], by simp [hr], ?_, ?_⟩
          · simp only [List.mem_cons, not_or]; exact ⟨fun h => h46' h.symm, hm46⟩
          · simp only [List.mem_cons, not_or]; exact ⟨fun h => h47' h.symm, hm47⟩
        · refine Or.inr ⟨c :: m, by simp [lits_cons, hts], by simp [hr], ?_, ?_⟩
          · simp only [List.mem_cons, not_or]; exact ⟨fun h => h46' h.symm, hm46⟩
          · simp only [List.mem_cons, not_or]; exact ⟨fun h => h47' h.symm, hm47⟩

theorem requiredExt_shape {g : Glob} {e : List Nat} (h : requiredExt g = some e) :
    g.opts.ci = false ∧ ∃ pre m, e = 46 :: m ∧ 46 ∉ m ∧ 47 ∉ m ∧ g.tokens = pre ++ lits (46 :: m) := by
  unfold requiredExt at h
  cases hci : g.opts.ci with
  | true => simp only [hci, ↓reduceIte, reduceCtorEq] at h
  | false =>
    refine ⟨rfl, ?_⟩
    simp only [hci, Bool.false_eq_true, ↓reduceIte] at h
    cases hs : reqExtScan g.tokens.reverse [] with
    | none => simp [hs] at h
    | some r =>
      simp only [hs] at h
      split at h
      · simp at h
      · rename_i hlast
        simp only [bne_iff_ne, ne_eq, Decidable.not_not] at hlast
        simp only [Option.some.injEq] at h
        rcases reqExtScan_shape hs with ⟨m, rest, hts, hr, hm46, hm47⟩ | ⟨m, hts, hr, hm46, _⟩
        · refine ⟨rest.reverse, m.reverse, ?_, by simpa using hm46, by simpa using hm47, ?_⟩
          · rw [← h, hr]; simp
          · have := congrArg List.reverse hts
            rw [List.reverse_reverse] at this
            rw [this]
            simp [lits_cons, lits_reverse]
        · simp only [List.nil_append] at hr
          subst hr
          exact absurd (List.mem_of_getLast? hlast) hm46

theorem requiredExt_correct {g : Glob} {e : List Nat} (h : requiredExt g = some e)
    (p : Bytes) (hd : lastCompDots p = false) :
    stratAnswer g (.requiredExt e) (candidate p) = g.isMatch p := by
  obtain ⟨hci, pre, m, rfl, h46, h47, htok⟩ := requiredExt_shape h
  have h46' : 46 ∉ utf8Str m := fun hm => h46 (mem_utf8Str_lt (by decide) hm)
  have h47' : 47 ∉ utf8Str m := fun hm => h47 (mem_utf8Str_lt (by decide) hm)
  have hE : utf8Str (46 :: m) = 46 :: utf8Str m := by rw [utf8Str_cons, utf8Enc_46]; rfl
  cases hm : g.isMatch p with
  | false => simp [stratAnswer, candidate_path, hm]
  | true =>
    simp only [stratAnswer, candidate_path, hm, Bool.and_true, Bool.and_eq_true,
      Bool.not_eq_eq_eq_not, Bool.not_true, List.isEmpty_eq_false_iff, beq_iff_eq]
    -- the path ends with the extension
    have hsuf : (46 :: utf8Str m) <:+ p := by
      unfold Glob.isMatch at hm
      rw [htok, tokMatch_eq _ _ _ (lits_ne_single_recPrefix pre (46 :: m) (by simp)),
        tokensK_append] at hm
      obtain ⟨r, hr, hk⟩ := tokensK_suffix _ _ _ p hm
      rw [tokensK_lits_end _ hci, hE] at hk
      subst hk; exact hr
    have := (ext_eq_iff_suffix hd h46' h47').mpr hsuf
    rw [this, hE]
    exact ⟨by simp, rfl⟩

/-! ### `MatchStrategy::new` -/

/-- Whatever strategy `MatchStrategy::new` picks for a glob, its lookup on the candidate is the
regex's answer — for every path outside the dots class. -/
theorem strategyOf_correct (g : Glob) (p : Bytes) (hd : lastCompDots p = false) :
    stratAnswer g (strategyOf g) (candidate p) = g.isMatch p := by
  unfold strategyOf
  split
  · rename_i l h; exact basenameLiteral_correct h p hd
  · split
    · rename_i l h; exact literal_correct h p
    · rename_i hlit
      split
      · rename_i e h; exact ext_correct h p hd
      · split
        · rename_i l h; exact pfx_correct h hlit p
        · split
          · rename_i l c h; exact sfx_correct h hlit p
          · split
            · rename_i e h; exact requiredExt_correct h p hd
            · rfl

end RgVerif.Glob
