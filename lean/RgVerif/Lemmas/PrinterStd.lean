import RgVerif.Lemmas.PrinterRecord
/-
Helper lemmas for C09: what the Standard printer writes for one event is the layout of the event's records
(single-line path, context lines, fast multi-line path).
-/
namespace RgVerif.Lemmas.PrinterStd
open RgVerif RgVerif.Matcher RgVerif.Replace RgVerif.Printer RgVerif.PrinterSpec
open RgVerif.Lemmas.PrinterRecord

/-- one record as the printer writes it: prelude then the line -/
theorem prelude_line_eq (lt : LineTerm) (c : StdCfg) (isCtx : Bool) (off : Nat) (ln col : Option Nat) (line : Bytes) :
    writePrelude c isCtx off ln col ++ writeLine lt line =
      printRecord c { path := recPath c, lineNo := ln, col := if c.column then col else none
                    , off := optIf c.byteOffset off, isCtx, text := completed lt line } := by
  rw [writePrelude_eq, writeLine_eq_completed]
  simp [printRecord]

theorem optIf_col (c : StdCfg) (n : Nat) : (if c.column then some n else none) = optIf c.column n := by
  simp [optIf]

/-! ### single-line path and context lines -/

theorem sinkFast_eq (sc : SCfg) (c : StdCfg) (s : Sunk) :
    sinkFast sc c s =
      (lineRecords sc.lt c s.ctx.isSome s.bytes s.absOff s.lineNo []).flatMap (printRecord c) := by
  simp [sinkFast, lineRecords, prelude_line_eq]

theorem sinkSlow_eq (sc : SCfg) (c : StdCfg) (s : Sunk) (hne : s.ms ≠ []) (ho : c.onlyMatching = false) :
    sinkSlow sc c s =
      (lineRecords sc.lt c s.ctx.isSome s.bytes s.absOff s.lineNo s.ms).flatMap (printRecord c) := by
  cases hms : s.ms with
  | nil => exact absurd hms hne
  | cons m0 rest =>
    unfold sinkSlow lineRecords
    simp only [ho, Bool.false_eq_true, ↓reduceIte, hms]
    by_cases hp : c.perMatch = true
    · simp only [hp, ↓reduceIte, List.flatMap_map]
      congr 1
      funext m
      rw [prelude_line_eq]
      simp [optIf]
    · simp only [hp, Bool.false_eq_true, ↓reduceIte, List.headD_cons, List.flatMap_cons, List.flatMap_nil,
        List.append_nil]
      rw [prelude_line_eq]
      simp [optIf]

/-! ### fast multi-line path -/

theorem sinkFastMultiLineGo_eq (sc : SCfg) (c : StdCfg) (absOff : Nat) (ln : Option Nat) :
    ∀ (lines : List Bytes) (i off : Nat),
      sinkFastMultiLineGo sc c false ln i (absOff + off) lines =
        (blockRecords sc.lt c absOff ln none i off lines).flatMap (printRecord c) := by
  intro lines
  induction lines with
  | nil => intro i off; simp [sinkFastMultiLineGo, blockRecords]
  | cons line rest ih =>
    intro i off
    simp only [sinkFastMultiLineGo, blockRecords, List.flatMap_cons]
    rw [prelude_line_eq]
    have : absOff + off + line.length = absOff + (off + line.length) := by omega
    rw [this, ih (i + 1) (off + line.length)]
    simp

theorem sinkFastMultiLine_eq (sc : SCfg) (c : StdCfg) (s : Sunk) (hctx : s.ctx = none) :
    sinkFastMultiLine sc c s =
      (blockRecords sc.lt c s.absOff s.lineNo none 0 0 (splitLines sc.lt.asByte s.bytes)).flatMap (printRecord c) := by
  unfold sinkFastMultiLine
  simp only [hctx, Option.isSome_none]
  have := sinkFastMultiLineGo_eq sc c s.absOff s.lineNo (splitLines sc.lt.asByte s.bytes) 0 0
  simpa using this

/-! ### one event -/

theorem shiftSpans_zero (ms : List Span) : shiftSpans 0 ms = ms := by
  unfold shiftSpans
  induction ms with
  | nil => rfl
  | cons m rest _ => simp

theorem StdState.write_out (st : StdState) (w : Bytes) : (st.write w).out = st.out ++ w := rfl

/-- the matches the model records for an event are the spec's `eventSpans` -/
theorem recordMatchesStd_matched (sc : SCfg) (c : StdCfg) (find : Oracle) (buf : Bytes) (rs re off : Nat)
    (ln : Option Nat) :
    recordMatchesStd sc c find buf rs re = eventSpans sc c find (.matched buf rs re off ln) := by
  unfold recordMatchesStd eventSpans
  cases c.granular <;> simp

theorem recordMatchesStd_context (sc : SCfg) (c : StdCfg) (find : Oracle) (k : CtxKind) (bytes : Bytes) (off : Nat)
    (ln : Option Nat) :
    (if sc.invert then recordMatchesStd sc c find bytes 0 bytes.length else []) =
      eventSpans sc c find (.context k bytes off ln) := by
  unfold recordMatchesStd eventSpans
  cases sc.invert <;> cases c.granular <;> simp [shiftSpans_zero]

/-- The slow multi-line path (a matched block with recorded matches in multi-line mode) is treated separately. -/
def fastPath (sc : SCfg) (c : StdCfg) (find : Oracle) (ev : Event) : Bool :=
  match ev with
  | .matched .. => !(sc.multiLine && !(eventSpans sc c find ev).isEmpty)
  | _ => true

/-- **One event**: the Standard sink appends exactly the layout of the event's records (after the search
prelude when nothing was written yet in this search). -/
theorem stdEvent_out (sc : SCfg) (c : StdCfg) (find : Oracle) (st : StdState) (ev : Event)
    (ho : c.onlyMatching = false) (hf : fastPath sc c find ev = true) :
    (stdEvent sc c find st ev).1.out = st.out ++ eventOutput sc c find st.count st.total ev := by
  cases ev with
  | contextBreak => simp [stdEvent, stdContextBreak, eventOutput, StdState.write_out]
  | context k bytes off ln =>
    simp only [stdEvent, stdContext, StdState.write_out, eventOutput, sink, List.append_cancel_left_eq]
    rw [recordMatchesStd_context sc c find k bytes off ln]
    unfold eventRecords sinkBody
    simp only [Option.isSome_some, Bool.not_true, Bool.and_false, Bool.false_eq_true, ↓reduceIte]
    by_cases he : (eventSpans sc c find (.context k bytes off ln)).isEmpty = true
    · have : eventSpans sc c find (.context k bytes off ln) = [] := by simpa using he
      simp only [this, List.isEmpty_nil, ↓reduceIte]
      rw [sinkFast_eq]
      simp
    · simp only [he, Bool.false_eq_true, ↓reduceIte]
      rw [sinkSlow_eq sc c _ (by simpa using he) ho]
      simp
  | matched buf rs re off ln =>
    simp only [stdEvent, stdMatched, StdState.write_out, eventOutput, sink, List.append_cancel_left_eq]
    rw [recordMatchesStd_matched sc c find buf rs re off ln]
    unfold eventRecords sinkBody
    simp only [Option.isSome_none, Bool.not_false, Bool.and_true]
    simp only [fastPath, Bool.not_eq_true', Bool.and_eq_false_imp, Bool.not_eq_false'] at hf
    by_cases he : (eventSpans sc c find (.matched buf rs re off ln)).isEmpty = true
    · have hnil : eventSpans sc c find (.matched buf rs re off ln) = [] := by simpa using he
      simp only [hnil, List.isEmpty_nil, ↓reduceIte]
      by_cases hm : sc.multiLine = true
      · simp only [hm, ↓reduceIte]
        rw [sinkFastMultiLine_eq sc c _ rfl]
      · simp only [hm, Bool.false_eq_true, ↓reduceIte]
        rw [sinkFast_eq]
        simp
    · have hm : sc.multiLine = false := by
        cases h : sc.multiLine with
        | false => rfl
        | true => exact absurd (hf h) he
      simp only [he, Bool.false_eq_true, ↓reduceIte, hm]
      rw [sinkSlow_eq sc c _ (by simpa using he) ho]
      simp

/-! ### a whole event stream -/

/-- The events the sink consumes, each with the sink state in front of it: the searcher stops delivering after
the first callback that answers `false`. -/
def processed (sc : SCfg) (c : StdCfg) (find : Oracle) : StdState → List Event → List (StdState × Event)
  | _, [] => []
  | st, ev :: rest =>
    if (stdEvent sc c find st ev).2 then (st, ev) :: processed sc c find (stdEvent sc c find st ev).1 rest
    else [(st, ev)]

theorem stdEvents_cons (sc : SCfg) (c : StdCfg) (find : Oracle) (st : StdState) (ev : Event) (rest : List Event) :
    stdEvents sc c find st (ev :: rest) =
      if (stdEvent sc c find st ev).2 then stdEvents sc c find (stdEvent sc c find st ev).1 rest
      else (stdEvent sc c find st ev).1 := by
  rw [stdEvents]

theorem processed_sub (sc : SCfg) (c : StdCfg) (find : Oracle) :
    ∀ (evs : List Event) (st : StdState) (p : StdState × Event), p ∈ processed sc c find st evs → p.2 ∈ evs := by
  intro evs
  induction evs with
  | nil => intro st p hp; simp [processed] at hp
  | cons ev rest ih =>
    intro st p hp
    unfold processed at hp
    by_cases hc : (stdEvent sc c find st ev).2 = true
    · simp only [hc, ↓reduceIte, List.mem_cons] at hp
      rcases hp with hp | hp
      · subst hp; simp
      · exact List.mem_cons_of_mem _ (ih _ p hp)
    · simp only [hc, Bool.false_eq_true, ↓reduceIte, List.mem_singleton] at hp
      subst hp; simp

/-- **A whole stream**: the output of the Standard sink is the concatenation, over the events it consumed, of
each event's records in the record layout (plus search prelude / context separators). -/
theorem stdEvents_out (sc : SCfg) (c : StdCfg) (find : Oracle) (ho : c.onlyMatching = false) :
    ∀ (evs : List Event) (st : StdState), (∀ ev ∈ evs, fastPath sc c find ev = true) →
      (stdEvents sc c find st evs).out =
        st.out ++ (processed sc c find st evs).flatMap
          (fun p => eventOutput sc c find p.1.count p.1.total p.2) := by
  intro evs
  induction evs with
  | nil => intro st _; simp [stdEvents, processed]
  | cons ev rest ih =>
    intro st hall
    rw [stdEvents_cons]
    unfold processed
    have hev := stdEvent_out sc c find st ev ho (hall ev (by simp))
    by_cases hc : (stdEvent sc c find st ev).2 = true
    · simp only [hc, ↓reduceIte, List.flatMap_cons]
      rw [ih _ (fun e he => hall e (List.mem_cons_of_mem _ he)), hev]
      simp
    · simp only [hc, Bool.false_eq_true, ↓reduceIte, List.flatMap_cons, List.flatMap_nil, List.append_nil]
      exact hev

end RgVerif.Lemmas.PrinterStd
