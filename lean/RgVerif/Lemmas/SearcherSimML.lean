import RgVerif.Lemmas.SearcherStop
/-
Simulation lemmas (C16) for the multi-line strategy `MultiLine::run`.  The framework of
`SearcherSim.lean` is generalised to any state type with an event log (`WBG`), because
`MultiLine` threads `last_match` next to the core.
-/
namespace RgVerif.Searcher
open RgVerif RgVerif.Matcher RgVerif.Lines

def SimG {S β : Type} (ev : S → List Event) (σ : Script) (k : Nat) (sv : β) (r1 r2 : S × Res β) : Prop :=
  (r1 = r2 ∧ (ev r1.1).length ≤ k) ∨
  ((ev r1.1).length = k + 1 ∧ ev r1.1 <+: ev r2.1 ∧ r1.2 = haltRes sv (σ k))

def WBG {S β : Type} (ev : S → List Event) (σ : Script) (k : Nat) (sv : β) (e0 : List Event)
    (r1 r2 : S × Res β) : Prop :=
  e0 <+: ev r2.1 ∧ (e0.length ≤ k → SimG ev σ k sv r1 r2) ∧ r2.2 ≠ .err

theorem WB.toG {β : Type} {σ : Script} {k : Nat} {sv : β} {st : Core} {r1 r2 : Core × Res β}
    (h : WB σ k sv st r1 r2) : WBG Core.events σ k sv st.events r1 r2 := h

theorem WB.ofG {β : Type} {σ : Script} {k : Nat} {sv : β} {st : Core} {r1 r2 : Core × Res β}
    (h : WBG Core.events σ k sv st.events r1 r2) : WB σ k sv st r1 r2 := h

theorem WBG.pure_ok {S β : Type} {ev : S → List Event} {σ : Script} {k : Nat} {sv : β} {e0 : List Event}
    (s : S) (b : β) (h : ev s = e0) : WBG ev σ k sv e0 (s, .ok b) (s, .ok b) :=
  ⟨by rw [h]; exact List.prefix_refl _, fun hl => Or.inl ⟨rfl, by rw [h]; exact hl⟩, by simp⟩

theorem WBG.bind {S T α β : Type} {evS : S → List Event} {evT : T → List Event} {σ : Script} {k : Nat}
    (hk : FirstStop σ k) {sva : α} {svb : β} {e0 : List Event}
    {x1 x2 : S × Res α} (hx : WBG evS σ k sva e0 x1 x2) {F1 F2 : S × Res α → T × Res β}
    (hK : ∀ s a, WBG evT σ k svb (evS s) (F1 (s, .ok a)) (F2 (s, .ok a)))
    (herr : ∀ s, (F1 (s, .err)).2 = .err ∧ evT (F1 (s, .err)).1 = evS s)
    (hstop : ∀ s, (F1 (s, .ok sva)).2 = .ok svb ∧ evT (F1 (s, .ok sva)).1 = evS s) :
    WBG evT σ k svb e0 (F1 x1) (F2 x2) := by
  obtain ⟨hmono, hsim, hne⟩ := hx
  rcases x2 with ⟨s2, a2 | _⟩
  · have hK2 := hK s2 a2
    refine ⟨hmono.trans hK2.1, fun hl => ?_, hK2.2.2⟩
    rcases hsim hl with ⟨rfl, hlen⟩ | ⟨hlen, hpre, hres⟩
    · exact hK2.2.1 hlen
    · right
      rcases x1 with ⟨s, r1⟩
      simp only at hres hlen hpre
      subst hres
      cases hσ : σ k with
      | cont => exact absurd hσ hk.at_
      | stop =>
        have e : haltRes sva Resp.stop = Res.ok sva := rfl
        rw [e]
        obtain ⟨h1, h2⟩ := hstop s
        exact ⟨by rw [h2]; exact hlen, by rw [h2]; exact hpre.trans hK2.1, by rw [h1]; rfl⟩
      | err =>
        have e : haltRes sva Resp.err = (Res.err : Res α) := rfl
        rw [e]
        obtain ⟨h1, h2⟩ := herr s
        exact ⟨by rw [h2]; exact hlen, by rw [h2]; exact hpre.trans hK2.1, by rw [h1]; rfl⟩
  · exact absurd rfl hne

theorem WBG.bind' {S T α β : Type} {evS : S → List Event} {evT : T → List Event} {σ : Script} {k : Nat}
    (hk : FirstStop σ k) {sva : α} {svb : β} {e0 : List Event}
    {y1 y2 x1 x2 : S × Res α} (e1 : y1 = x1) (e2 : y2 = x2) (hy : WBG evS σ k sva e0 y1 y2)
    {F1 F2 : S × Res α → T × Res β}
    (hK : ∀ s a, WBG evT σ k svb (evS s) (F1 (s, .ok a)) (F2 (s, .ok a)))
    (herr : ∀ s, (F1 (s, .err)).2 = .err ∧ evT (F1 (s, .err)).1 = evS s)
    (hstop : ∀ s, (F1 (s, .ok sva)).2 = .ok svb ∧ evT (F1 (s, .ok sva)).1 = evS s) :
    WBG evT σ k svb e0 (F1 x1) (F2 x2) := by
  subst e1 e2; exact WBG.bind hk hy hK herr hstop

/-- like `sim_bind`, for the generalised framework -/
syntax "simg_bind " term " , " term " , " term : tactic
macro_rules
  | `(tactic| simg_bind $h , $c1 , $c2) =>
    `(tactic| (try dsimp only
               generalize hx1 : $c1 = x1
               generalize hx2 : $c2 = x2
               apply WBG.bind' (by assumption) hx1 hx2 $h
               case herr => exact fun _ => ⟨rfl, rfl⟩
               case hstop => exact fun _ => ⟨rfl, rfl⟩))

def ML.events (s : ML) : List Event := s.core.events

section
variable {σ : Script} {k : Nat} (hk : FirstStop σ k)
include hk

theorem mlSinkMatched_wb (cfg : Config) (slice_ : Bytes) (st : Core) (range : Span) :
    WB σ k false st (mlSinkMatched cfg σ slice_ st range) (mlSinkMatched cfg allCont slice_ st range) := by
  unfold mlSinkMatched matched
  split
  · exact WB.pure_ok _ _ rfl
  · exact sinkMatched_wb hk cfg slice_ st range

theorem mlSinkContext_wb (cfg : Config) (slice_ : Bytes) (st : Core) (range : Span) :
    WB σ k false st (mlSinkContext cfg σ slice_ st range) (mlSinkContext cfg allCont slice_ st range) := by
  unfold mlSinkContext
  split
  · sim_bind (otherContextByLine_wb hk cfg slice_ st range.s), (otherContextByLine cfg σ slice_ st range.s),
      (otherContextByLine cfg allCont slice_ st range.s)
    intro st1 a
    cases a <;> exact WB.pure_ok _ _ rfl
  · sim_bind (afterContextByLine_wb hk cfg slice_ st range.s), (afterContextByLine cfg σ slice_ st range.s),
      (afterContextByLine cfg allCont slice_ st range.s)
    intro st1 a
    cases a
    · exact WB.pure_ok _ _ rfl
    · sim_bind (beforeContextByLine_wb hk cfg slice_ st1 range.s), (beforeContextByLine cfg σ slice_ st1 range.s),
        (beforeContextByLine cfg allCont slice_ st1 range.s)
      intro st2 a
      cases a <;> exact WB.pure_ok _ _ rfl

theorem mlMatchedLoop_wb (cfg : Config) (slice_ : Bytes) : ∀ (ls : List Span) (st : Core),
    WB σ k false st (mlMatchedLoop cfg σ slice_ ls st) (mlMatchedLoop cfg allCont slice_ ls st)
  | [], st => by rw [mlMatchedLoop, mlMatchedLoop]; exact WB.pure_ok _ _ rfl
  | line :: rest, st => by
    rw [mlMatchedLoop, mlMatchedLoop]
    sim_bind (mlSinkMatched_wb hk cfg slice_ st line), (mlSinkMatched cfg σ slice_ st line),
      (mlSinkMatched cfg allCont slice_ st line)
    intro st1 a
    cases a
    · exact WB.pure_ok _ _ rfl
    · exact mlMatchedLoop_wb cfg slice_ rest st1


omit hk in
theorem mlAdvance_events (slice_ : Bytes) (st : Core) (r : Span) : (mlAdvance slice_ st r).events = st.events := by
  unfold mlAdvance; dsimp only; split <;> rfl

theorem mlSinkMatchedInverted_wb (cfg : Config) (m : MatcherI) (slice_ : Bytes) (s : ML) :
    WBG ML.events σ k false s.core.events (mlSinkMatchedInverted cfg m σ slice_ s)
      (mlSinkMatchedInverted cfg m allCont slice_ s) := by
  unfold mlSinkMatchedInverted
  have tail : ∀ (im : Span) (st' : Core), st'.events = s.core.events →
      WBG ML.events σ k false s.core.events
        (if (im.e - im.s == 0) = true then ({ s with core := st' }, Res.ok true)
         else
           match mlSinkContext cfg σ slice_ st' im with
           | (st, .ok true) =>
             ({ s with core := (mlMatchedLoop cfg σ slice_ (stepLines cfg.lineTerm.asByte slice_ im.s im.e) st).1 },
               (mlMatchedLoop cfg σ slice_ (stepLines cfg.lineTerm.asByte slice_ im.s im.e) st).2)
           | (st, r) => ({ s with core := st }, r))
        (if (im.e - im.s == 0) = true then ({ s with core := st' }, Res.ok true)
         else
           match mlSinkContext cfg allCont slice_ st' im with
           | (st, .ok true) =>
             ({ s with core := (mlMatchedLoop cfg allCont slice_ (stepLines cfg.lineTerm.asByte slice_ im.s im.e) st).1 },
               (mlMatchedLoop cfg allCont slice_ (stepLines cfg.lineTerm.asByte slice_ im.s im.e) st).2)
           | (st, r) => ({ s with core := st }, r)) := by
    intro im st' he
    by_cases h0 : (im.e - im.s == 0) = true
    · simp only [if_pos h0]
      exact WBG.pure_ok _ _ he
    · simp only [if_neg h0]
      rw [← he]
      simg_bind (mlSinkContext_wb hk cfg slice_ st' im).toG, (mlSinkContext cfg σ slice_ st' im),
        (mlSinkContext cfg allCont slice_ st' im)
      intro st1 a
      cases a
      · exact WBG.pure_ok _ _ rfl
      · simg_bind (mlMatchedLoop_wb hk cfg slice_ (stepLines cfg.lineTerm.asByte slice_ im.s im.e) st1).toG,
          (mlMatchedLoop cfg σ slice_ _ st1), (mlMatchedLoop cfg allCont slice_ _ st1)
        intro st2 a
        exact WBG.pure_ok _ _ rfl
  dsimp only
  cases mlFind m slice_ s.core with
  | none => exact tail _ _ rfl
  | some mat => exact tail _ _ (mlAdvance_events _ _ _)

theorem mlSink_wb (cfg : Config) (m : MatcherI) (slice_ : Bytes) (s : ML) :
    WBG ML.events σ k false s.core.events (mlSink cfg m σ slice_ s) (mlSink cfg m allCont slice_ s) := by
  unfold mlSink
  by_cases hi : cfg.invertMatch = true
  · simp only [if_pos hi]
    exact mlSinkMatchedInverted_wb hk cfg m slice_ s
  · simp only [if_neg hi]
    cases mlFind m slice_ s.core with
    | none => exact WBG.pure_ok _ _ rfl
    | some mat =>
      dsimp only
      cases s.lastMatch with
      | none => exact WBG.pure_ok _ _ (mlAdvance_events _ _ _)
      | some lastMatch =>
        dsimp only
        split
        · exact WBG.pure_ok _ _ (mlAdvance_events _ _ _)
        · rw [← mlAdvance_events slice_ s.core mat]
          simg_bind (mlSinkContext_wb hk cfg slice_ (mlAdvance slice_ s.core mat) lastMatch).toG,
            (mlSinkContext cfg σ slice_ _ lastMatch), (mlSinkContext cfg allCont slice_ _ lastMatch)
          intro st1 a
          cases a
          · exact WBG.pure_ok _ _ rfl
          · simg_bind (mlSinkMatched_wb hk cfg slice_ st1 lastMatch).toG,
              (mlSinkMatched cfg σ slice_ st1 lastMatch), (mlSinkMatched cfg allCont slice_ st1 lastMatch)
            intro st2 a
            exact WBG.pure_ok _ _ rfl

theorem mlLoop_wb (cfg : Config) (m : MatcherI) (slice_ : Bytes) : ∀ (fuel : Nat) (s : ML),
    WBG ML.events σ k false s.core.events (mlLoop cfg m σ slice_ fuel s) (mlLoop cfg m allCont slice_ fuel s)
  | 0, s => by rw [mlLoop, mlLoop]; exact WBG.pure_ok _ _ rfl
  | fuel + 1, s => by
    rw [mlLoop, mlLoop]
    by_cases h1 : (List.drop s.core.pos slice_).isEmpty = true
    · simp only [if_pos h1]; exact WBG.pure_ok _ _ rfl
    · simp only [if_neg h1]
      simg_bind (mlSink_wb hk cfg m slice_ s), (mlSink cfg m σ slice_ s), (mlSink cfg m allCont slice_ s)
      intro s1 a
      cases a
      · exact WBG.pure_ok _ _ rfl
      · exact mlLoop_wb cfg m slice_ fuel s1


end

/-- the trailing-context step of `MultiLine::run` (the boolean result is dropped, errors propagate) -/
def mlTrailing (cfg : Config) (σ : Script) (slice_ : Bytes) (st : Core) : Core × Res Unit :=
  if cfg.passthru then
    match otherContextByLine cfg σ slice_ st slice_.length with
    | (st, .err) => (st, .err)
    | (st, .ok _) => (st, .ok ())
  else
    match afterContextByLine cfg σ slice_ st slice_.length with
    | (st, .err) => (st, .err)
    | (st, .ok _) => (st, .ok ())

/-- the final flush of `last_match` in `MultiLine::run` -/
def mlFlush (cfg : Config) (σ : Script) (slice_ : Bytes) (s : ML) (keepgoing : Bool) : Core × Res Bool :=
  if keepgoing then
    match s.lastMatch with
    | none => (s.core, .ok true)
    | some lastMatch =>
      if lastMatch.e - lastMatch.s == 0 then (s.core, .ok true)
      else
        match mlSinkContext cfg σ slice_ s.core lastMatch with
        | (st, .ok true) => mlSinkMatched cfg σ slice_ st lastMatch
        | (st, r) => (st, r)
  else (s.core, .ok false)

/-- everything `MultiLine::run` does before `finish` -/
def mlPre (cfg : Config) (m : MatcherI) (σ : Script) (slice_ : Bytes) : Core × Res Unit :=
  match begin σ (Core.new cfg true) with
  | (st, .err) => (st, .err)
  | (st, .ok keepgoing) =>
    if keepgoing then
      match detectBinary cfg σ slice_ ⟨0, min slice_.length defaultBufferCapacity⟩ st with
      | (st, .err) => (st, .err)
      | (st, .ok true) => (st, .ok ())
      | (st, .ok false) =>
        match mlLoop cfg m σ slice_ (slice_.length + 1) { core := st } with
        | (s, .err) => (s.core, .err)
        | (s, .ok keepgoing) =>
          match mlFlush cfg σ slice_ s keepgoing with
          | (st, .err) => (st, .err)
          | (st, .ok false) => (st, .ok ())
          | (st, .ok true) => mlTrailing cfg σ slice_ st
    else (st, .ok ())

theorem multiLine_eq (cfg : Config) (m : MatcherI) (σ : Script) (slice_ : Bytes) :
    multiLine cfg m σ slice_ = finishRun cfg σ (mlPre cfg m σ slice_) := by
  unfold multiLine mlPre finishRun mlFlush mlTrailing
  dsimp only
  rcases begin σ (Core.new cfg true) with ⟨st, b | _⟩
  · cases b
    · rfl
    · dsimp only
      rcases detectBinary cfg σ slice_ ⟨0, min slice_.length defaultBufferCapacity⟩ st with ⟨st1, q | _⟩
      · cases q
        · simp only [if_true]
          rcases mlLoop cfg m σ slice_ (slice_.length + 1) { core := st1 } with ⟨s2, kg | _⟩
          · dsimp only
            generalize (if kg = true then
                match s2.lastMatch with
                | none => (s2.core, Res.ok true)
                | some lastMatch =>
                  if (lastMatch.e - lastMatch.s == 0) = true then (s2.core, Res.ok true)
                  else
                    match mlSinkContext cfg σ slice_ s2.core lastMatch with
                    | (st, Res.ok true) => mlSinkMatched cfg σ slice_ st lastMatch
                    | (st, r) => (st, r)
              else (s2.core, Res.ok false)) = fl
            rcases fl with ⟨st3, b3 | _⟩
            · cases b3
              · rfl
              · dsimp only
                by_cases hp : cfg.passthru = true
                · simp only [if_pos hp]
                  rcases otherContextByLine cfg σ slice_ st3 slice_.length with ⟨st4, b4 | _⟩ <;> rfl
                · simp only [if_neg hp]
                  rcases afterContextByLine cfg σ slice_ st3 slice_.length with ⟨st4, b4 | _⟩ <;> rfl
            · rfl
          · rfl
        · rfl
      · rfl
  · rfl

section
variable {σ : Script} {k : Nat} (hk : FirstStop σ k)
include hk

theorem mlTrailing_wb (cfg : Config) (slice_ : Bytes) (st : Core) :
    WB σ k () st (mlTrailing cfg σ slice_ st) (mlTrailing cfg allCont slice_ st) := by
  unfold mlTrailing
  split
  · sim_bind (otherContextByLine_wb hk cfg slice_ st slice_.length), (otherContextByLine cfg σ slice_ st _),
      (otherContextByLine cfg allCont slice_ st _)
    intro st1 a
    exact WB.pure_ok _ _ rfl
  · sim_bind (afterContextByLine_wb hk cfg slice_ st slice_.length), (afterContextByLine cfg σ slice_ st _),
      (afterContextByLine cfg allCont slice_ st _)
    intro st1 a
    exact WB.pure_ok _ _ rfl

theorem mlFlush_wb (cfg : Config) (slice_ : Bytes) (s : ML) (kg : Bool) :
    WB σ k false s.core (mlFlush cfg σ slice_ s kg) (mlFlush cfg allCont slice_ s kg) := by
  unfold mlFlush
  cases kg
  · exact WB.pure_ok _ _ rfl
  · simp only [if_true]
    cases s.lastMatch with
    | none => exact WB.pure_ok _ _ rfl
    | some lastMatch =>
      dsimp only
      by_cases he : (lastMatch.e - lastMatch.s == 0) = true
      · simp only [if_pos he]; exact WB.pure_ok _ _ rfl
      · simp only [if_neg he]
        sim_bind (mlSinkContext_wb hk cfg slice_ s.core lastMatch), (mlSinkContext cfg σ slice_ s.core lastMatch),
          (mlSinkContext cfg allCont slice_ s.core lastMatch)
        intro st1 a
        cases a
        · exact WB.pure_ok _ _ rfl
        · exact mlSinkMatched_wb hk cfg slice_ st1 lastMatch

theorem mlPre_wb (cfg : Config) (m : MatcherI) (slice_ : Bytes) :
    WB σ k () (Core.new cfg true) (mlPre cfg m σ slice_) (mlPre cfg m allCont slice_) := by
  unfold mlPre
  sim_bind (begin_wb hk (Core.new cfg true)), (begin σ (Core.new cfg true)), (begin allCont (Core.new cfg true))
  intro st1 a
  cases a
  · exact WB.pure_ok _ _ rfl
  · simp only [if_true]
    sim_bind (detectBinary_wb hk cfg slice_ ⟨0, min slice_.length defaultBufferCapacity⟩ st1),
      (detectBinary cfg σ slice_ _ st1), (detectBinary cfg allCont slice_ _ st1)
    intro st2 q
    cases q
    · apply WB.ofG
      simg_bind (mlLoop_wb hk cfg m slice_ (slice_.length + 1) { core := st2 }),
        (mlLoop cfg m σ slice_ _ _), (mlLoop cfg m allCont slice_ _ _)
      intro s3 kg
      apply WB.toG (st := s3.core)
      sim_bind (mlFlush_wb hk cfg slice_ s3 kg), (mlFlush cfg σ slice_ s3 kg), (mlFlush cfg allCont slice_ s3 kg)
      intro st4 a
      cases a
      · exact WB.pure_ok _ _ rfl
      · exact mlTrailing_wb hk cfg slice_ st4
    · exact WB.pure_ok _ _ rfl

end
end RgVerif.Searcher
