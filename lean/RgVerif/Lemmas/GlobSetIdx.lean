import RgVerif.Model.GlobSet
/-
Index bookkeeping of `GlobSet`: the association-list hash maps, what `GlobSet::new` registers,
and `sort` + `dedup` of the pushed indices.
-/
namespace RgVerif.Glob

/-! ### `LitMap` -/

theorem LitMap.mem_get_add {V : Type} (m : LitMap V) (k k' : Bytes) (x v : V) :
    v ∈ (m.add k x).get k' ↔ v ∈ m.get k' ∨ (k = k' ∧ v = x) := by
  induction m with
  | nil =>
    simp only [LitMap.add, LitMap.get]
    by_cases h : k = k'
    · simp [h]
    · have : (k == k') = false := by simpa using h
      simp [this, LitMap.get, h]
  | cons e rest ih =>
    obtain ⟨k0, vs⟩ := e
    simp only [LitMap.add]
    by_cases h0 : k0 = k
    · subst h0
      simp only [BEq.rfl, ↓reduceIte, LitMap.get]
      by_cases h : k0 = k'
      · subst h; simp [or_comm, eq_comm]
      · have : (k0 == k') = false := by simpa using h
        simp [this, h]
    · have hb : (k0 == k) = false := by simpa using h0
      simp only [hb, Bool.false_eq_true, ↓reduceIte, LitMap.get]
      by_cases h : k0 = k'
      · subst h
        have : k ≠ k0 := fun h => h0 h.symm
        simp [this]
      · have : (k0 == k') = false := by simpa using h
        simp only [this, Bool.false_eq_true, ↓reduceIte]
        exact ih

/-! ### what `GlobSet::new` registers -/

/-- `pats.iter().enumerate()` starting at `i` -/
def enumFrom : Nat → List Glob → List (Nat × Glob)
  | _, [] => []
  | i, g :: gs => (i, g) :: enumFrom (i + 1) gs

theorem mem_enumFrom {i j : Nat} {g : Glob} {gs : List Glob} :
    (j, g) ∈ enumFrom i gs ↔ i ≤ j ∧ gs[j - i]? = some g := by
  induction gs generalizing i with
  | nil => simp [enumFrom]
  | cons g0 gs ih =>
    simp only [enumFrom, List.mem_cons, Prod.mk.injEq, ih]
    constructor
    · rintro (⟨rfl, rfl⟩ | ⟨hle, hg⟩)
      · simp
      · refine ⟨by omega, ?_⟩
        have : j - i = (j - (i + 1)) + 1 := by omega
        rw [this]; simpa using hg
    · rintro ⟨hle, hg⟩
      by_cases hji : j = i
      · subst hji; simp at hg; exact Or.inl ⟨rfl, hg.symm⟩
      · right
        refine ⟨by omega, ?_⟩
        have : j - i = (j - (i + 1)) + 1 := by omega
        rw [this] at hg; simpa using hg

theorem pushes_emptySet (c : Candidate) : GlobSet.emptySet.pushes c = [] := by
  simp [GlobSet.pushes, GlobSet.emptySet, LitMap.get, extHits, baseHits, litHits, sufHits, preHits,
    reqHits, reHits]

theorem mem_pushes (s : GlobSet) (c : Candidate) (j : Nat) :
    j ∈ s.pushes c ↔
      j ∈ extHits s.exts c ∨ j ∈ baseHits s.baseLits c ∨ j ∈ litHits s.lits c ∨
      j ∈ sufHits s.suffixes c ∨ j ∈ preHits s.prefixes c ∨ j ∈ reqHits s.requiredExts c ∨
      j ∈ reHits s.regexes c := by
  simp only [GlobSet.pushes, List.mem_append, or_assoc]

theorem mem_extHits_add (m : LitMap Nat) (k : Bytes) (i : Nat) (c : Candidate) (j : Nat) :
    j ∈ extHits (m.add k i) c ↔ j ∈ extHits m c ∨ (j = i ∧ (!c.ext.isEmpty && k == c.ext) = true) := by
  unfold extHits
  by_cases hb : c.ext.isEmpty = true
  · simp [hb]
  · simp only [hb, Bool.false_eq_true, ↓reduceIte, LitMap.mem_get_add]
    simp [hb, and_comm]

theorem mem_baseHits_add (m : LitMap Nat) (k : Bytes) (i : Nat) (c : Candidate) (j : Nat) :
    j ∈ baseHits (m.add k i) c ↔
      j ∈ baseHits m c ∨ (j = i ∧ (!c.basename.isEmpty && k == c.basename) = true) := by
  unfold baseHits
  by_cases hb : c.basename.isEmpty = true
  · simp [hb]
  · simp only [hb, Bool.false_eq_true, ↓reduceIte, LitMap.mem_get_add]
    simp [hb, and_comm]

theorem mem_litHits_add (m : LitMap Nat) (k : Bytes) (i : Nat) (c : Candidate) (j : Nat) :
    j ∈ litHits (m.add k i) c ↔ j ∈ litHits m c ∨ (j = i ∧ k = c.path) := by
  unfold litHits
  simp only [LitMap.mem_get_add]
  simp [and_comm]

theorem mem_sufHits_add (t : List (Bytes × Nat)) (k : Bytes) (i : Nat) (c : Candidate) (j : Nat) :
    j ∈ sufHits (t ++ [(k, i)]) c ↔ j ∈ sufHits t c ∨ (j = i ∧ k.isSuffixOf c.path = true) := by
  unfold sufHits
  simp only [List.filter_append, List.map_append, List.mem_append]
  by_cases hk : k.isSuffixOf c.path = true
  · simp only [List.filter, hk, List.map_cons, List.map_nil, List.mem_singleton, and_true]
  · simp [hk, List.filter]

theorem mem_preHits_add (t : List (Bytes × Nat)) (k : Bytes) (i : Nat) (c : Candidate) (j : Nat) :
    j ∈ preHits (t ++ [(k, i)]) c ↔ j ∈ preHits t c ∨ (j = i ∧ k.isPrefixOf c.path = true) := by
  unfold preHits
  simp only [List.filter_append, List.map_append, List.mem_append]
  by_cases hk : k.isPrefixOf c.path = true
  · simp only [List.filter, hk, List.map_cons, List.map_nil, List.mem_singleton, and_true]
  · simp [hk, List.filter]

theorem mem_reHits_add (t : List (Nat × Glob)) (g : Glob) (i : Nat) (c : Candidate) (j : Nat) :
    j ∈ reHits (t ++ [(i, g)]) c ↔ j ∈ reHits t c ∨ (j = i ∧ g.isMatch c.path = true) := by
  unfold reHits
  simp only [List.filter_append, List.map_append, List.mem_append]
  by_cases hk : g.isMatch c.path = true
  · simp only [List.filter, hk, List.map_cons, List.map_nil, List.mem_singleton, and_true]
  · simp [hk, List.filter]

theorem mem_reqHits_add (m : LitMap (Nat × Glob)) (k : Bytes) (g : Glob) (i : Nat) (c : Candidate)
    (j : Nat) :
    j ∈ reqHits (m.add k (i, g)) c ↔
      j ∈ reqHits m c ∨ (j = i ∧ (!c.ext.isEmpty && c.ext == k && g.isMatch c.path) = true) := by
  unfold reqHits
  by_cases hb : c.ext.isEmpty = true
  · simp [hb]
  · simp only [hb, Bool.false_eq_true, ↓reduceIte, List.mem_map, List.mem_filter,
      LitMap.mem_get_add, Bool.not_false, Bool.true_and, Bool.and_eq_true, beq_iff_eq]
    constructor
    · rintro ⟨a, ⟨ha | ⟨hk, rfl⟩, hm⟩, rfl⟩
      · exact Or.inl ⟨a, ⟨ha, hm⟩, rfl⟩
      · exact Or.inr ⟨rfl, hk.symm, hm⟩
    · rintro (⟨a, ⟨ha, hm⟩, rfl⟩ | ⟨rfl, hk, hm⟩)
      · exact ⟨a, ⟨Or.inl ha, hm⟩, rfl⟩
      · exact ⟨(j, g), ⟨Or.inr ⟨hk.symm, rfl⟩, hm⟩, rfl⟩

/-- one `add` of `GlobSet::new`: the index `i` shows up among the pushes exactly when the glob's own
strategy answers yes -/
theorem mem_pushes_addGlob (s : GlobSet) (i : Nat) (g : Glob) (c : Candidate) (j : Nat) :
    j ∈ (s.addGlob i g).pushes c ↔
      j ∈ s.pushes c ∨ (j = i ∧ stratAnswer g (strategyOf g) c = true) := by
  unfold GlobSet.addGlob
  cases hs : strategyOf g with
  | literal l =>
    simp only [mem_pushes, mem_litHits_add, stratAnswer, beq_iff_eq]
    grind
  | basenameLiteral l =>
    simp only [mem_pushes, mem_baseHits_add, stratAnswer]
    grind
  | extension e =>
    simp only [mem_pushes, mem_extHits_add, stratAnswer]
    grind
  | pfx l =>
    simp only [mem_pushes, mem_preHits_add, stratAnswer]
    grind
  | sfx l component =>
    cases component with
    | false =>
      simp only [Bool.false_eq_true, ↓reduceIte, mem_pushes, mem_sufHits_add, stratAnswer,
        Bool.false_and, Bool.false_or]
      grind
    | true =>
      simp only [↓reduceIte, mem_pushes, mem_sufHits_add, mem_litHits_add, stratAnswer,
        Bool.true_and, Bool.or_eq_true, beq_iff_eq]
      grind
  | requiredExt e =>
    simp only [mem_pushes, mem_reqHits_add, stratAnswer]
    grind
  | regex =>
    simp only [mem_pushes, mem_reHits_add, stratAnswer]
    grind

theorem mem_pushes_addAll (s : GlobSet) (i : Nat) (gs : List Glob) (c : Candidate) (j : Nat) :
    j ∈ (s.addAll i gs).pushes c ↔
      j ∈ s.pushes c ∨ ∃ g, (j, g) ∈ enumFrom i gs ∧ stratAnswer g (strategyOf g) c = true := by
  induction gs generalizing s i with
  | nil => simp [GlobSet.addAll, enumFrom]
  | cons g gs ih =>
    simp only [GlobSet.addAll, ih, mem_pushes_addGlob, enumFrom, List.mem_cons, Prod.mk.injEq]
    constructor
    · rintro ((h | ⟨rfl, h⟩) | ⟨g', hg', h⟩)
      · exact Or.inl h
      · exact Or.inr ⟨g, Or.inl ⟨rfl, rfl⟩, h⟩
      · exact Or.inr ⟨g', Or.inr hg', h⟩
    · rintro (h | ⟨g', (⟨rfl, rfl⟩ | hg'), h⟩)
      · exact Or.inl (Or.inl h)
      · exact Or.inl (Or.inr ⟨rfl, h⟩)
      · exact Or.inr ⟨g', hg', h⟩

/-! ### sort + dedup -/

theorem mem_insertSorted (x y : Nat) (l : List Nat) : y ∈ insertSorted x l ↔ y = x ∨ y ∈ l := by
  induction l with
  | nil => simp [insertSorted]
  | cons z l ih =>
    simp only [insertSorted]
    split
    · simp
    · simp only [List.mem_cons, ih]
      constructor
      · rintro (h | h | h) <;> simp [h]
      · rintro (h | h | h) <;> simp [h]

theorem mem_sortNat (y : Nat) (l : List Nat) : y ∈ sortNat l ↔ y ∈ l := by
  induction l with
  | nil => simp [sortNat]
  | cons x l ih =>
    have : sortNat (x :: l) = insertSorted x (sortNat l) := rfl
    rw [this, mem_insertSorted, ih]; simp

theorem sorted_insertSorted (x : Nat) (l : List Nat) (h : l.Pairwise (· ≤ ·)) :
    (insertSorted x l).Pairwise (· ≤ ·) := by
  induction l with
  | nil => simp [insertSorted]
  | cons z l ih =>
    simp only [insertSorted]
    rw [List.pairwise_cons] at h
    split
    · rename_i hxz
      refine List.pairwise_cons.mpr ⟨?_, List.pairwise_cons.mpr h⟩
      intro a ha
      rcases List.mem_cons.mp ha with rfl | ha
      · exact hxz
      · exact Nat.le_trans hxz (h.1 a ha)
    · rename_i hxz
      refine List.pairwise_cons.mpr ⟨?_, ih h.2⟩
      intro a ha
      rcases (mem_insertSorted x a l).mp ha with rfl | ha
      · omega
      · exact h.1 a ha

theorem sorted_sortNat (l : List Nat) : (sortNat l).Pairwise (· ≤ ·) := by
  induction l with
  | nil => simp [sortNat]
  | cons x l ih =>
    have : sortNat (x :: l) = insertSorted x (sortNat l) := rfl
    rw [this]; exact sorted_insertSorted x _ ih

theorem mem_dedupAdj (y : Nat) (l : List Nat) : y ∈ dedupAdj l ↔ y ∈ l := by
  induction l using dedupAdj.induct with
  | case1 => simp [dedupAdj]
  | case2 x => simp [dedupAdj]
  | case3 x z rest hxy ih =>
    have : x = z := by simpa using hxy
    subst this
    simp only [dedupAdj, BEq.rfl, ↓reduceIte, ih]
    simp
  | case4 x z rest hxy ih =>
    simp only [dedupAdj, hxy, Bool.false_eq_true, ↓reduceIte, List.mem_cons, ih]

theorem strict_dedupAdj (l : List Nat) (h : l.Pairwise (· ≤ ·)) : (dedupAdj l).Pairwise (· < ·) := by
  induction l using dedupAdj.induct with
  | case1 => simp [dedupAdj]
  | case2 x => simp [dedupAdj]
  | case3 x z rest hxy ih =>
    simp only [dedupAdj, hxy, ↓reduceIte]
    exact ih (List.pairwise_cons.mp h).2
  | case4 x z rest hxy ih =>
    simp only [dedupAdj, hxy, Bool.false_eq_true, ↓reduceIte]
    rw [List.pairwise_cons] at h ⊢
    refine ⟨?_, ih h.2⟩
    intro a ha
    rw [mem_dedupAdj] at ha
    have hne : x ≠ z := by simpa using hxy
    have hxz : x ≤ z := h.1 z (by simp)
    rcases List.mem_cons.mp ha with rfl | ha
    · omega
    · have := (List.pairwise_cons.mp h.2).1 a ha
      omega

/-- two strictly increasing lists with the same elements are the same list -/
theorem strict_ext {l₁ l₂ : List Nat} (h₁ : l₁.Pairwise (· < ·)) (h₂ : l₂.Pairwise (· < ·))
    (hm : ∀ y, y ∈ l₁ ↔ y ∈ l₂) : l₁ = l₂ := by
  induction l₁ generalizing l₂ with
  | nil =>
    cases l₂ with
    | nil => rfl
    | cons b l₂ => exact absurd ((hm b).mpr (by simp)) (by simp)
  | cons a l₁ ih =>
    cases l₂ with
    | nil => exact absurd ((hm a).mp (by simp)) (by simp)
    | cons b l₂ =>
      rw [List.pairwise_cons] at h₁ h₂
      have hab : a = b := by
        have ha := (hm a).mp (by simp)
        have hb := (hm b).mpr (by simp)
        rcases List.mem_cons.mp ha with h | h
        · exact h
        · rcases List.mem_cons.mp hb with h' | h'
          · exact h'.symm
          · have := h₂.1 a h; have := h₁.1 b h'; omega
      subst hab
      congr 1
      apply ih h₁.2 h₂.2
      intro y
      constructor
      · intro hy
        have := (hm y).mp (by simp [hy])
        rcases List.mem_cons.mp this with h | h
        · subst h; exact absurd (h₁.1 y hy) (by omega)
        · exact h
      · intro hy
        have := (hm y).mpr (by simp [hy])
        rcases List.mem_cons.mp this with h | h
        · subst h; exact absurd (h₂.1 y hy) (by omega)
        · exact h

/-- `sort` then `dedup` of indices below `n` is the increasing enumeration of the index set -/
theorem dedup_sort_eq_filter (xs : List Nat) (n : Nat) (f : Nat → Bool)
    (hm : ∀ y, y ∈ xs ↔ y < n ∧ f y = true) :
    dedupAdj (sortNat xs) = (List.range n).filter f := by
  apply strict_ext (strict_dedupAdj _ (sorted_sortNat xs))
  · exact (List.pairwise_lt_range (n := n)).sublist List.filter_sublist
  · intro y
    rw [mem_dedupAdj, mem_sortNat, hm, List.mem_filter, List.mem_range]

end RgVerif.Glob
