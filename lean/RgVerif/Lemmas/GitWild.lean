import RgVerif.Lemmas.GlobDocSimple
import RgVerif.Spec.GitSpec
/-
git's `wildmatch` on the wildcard grammar (literals, `?`, single `*`, `\x` escapes): it is the documented
meaning of the same pieces with `literal_separator := WM_PATHNAME` — hence (by `tokensK_eq_atomsMatch`) the
meaning of ripgrep's tokens.
-/
namespace RgVerif.Glob
open RgVerif RgVerif.GlobDoc

theorem skipWhile_eq_starRests (ok : Nat → Bool) (t : Bytes) : GitSpec.skipWhile ok t = starRests ok t := by
  induction t with
  | nil => rfl
  | cons b t ih => simp [GitSpec.skipWhile, starRests, ih]

theorem toLower_eq (c : Nat) : GitSpec.toLower c = lowerA c := by
  simp [GitSpec.toLower, GitSpec.isUpper, lowerA]

/-- the options under which `wildmatch` with flags (`WM_CASEFOLD` = ci, `WM_PATHNAME` = pn) is read -/
def wmOpts (ci pn : Bool) : DocOpts := { ci := ci, ls := pn, be := true, ea := false }

theorem wm_nil (ci pn po : Bool) (t : Bytes) : GitSpec.wm ci pn po [] t = t.isEmpty := by
  rw [GitSpec.wm.eq_def]

/-- one unescaped character of the wildcard grammar -/
theorem wm_step (ci pn po : Bool) (c : Nat) (rest : List Nat) (t : Bytes)
    (hok : okChar c = true) (h92 : c ≠ 92) (hss : ¬ (c = 42 ∧ rest.head? = some 42)) :
    GitSpec.wm ci pn po (c :: rest) t =
      match tokOf c, t with
      | .any, b :: t' => wild (wmOpts ci pn) b && GitSpec.wm ci pn false rest t'
      | .any, [] => false
      | .star, t => (starRests (wild (wmOpts ci pn)) t).any fun r => GitSpec.wm ci pn false rest r
      | _, b :: t' => sameChar (wmOpts ci pn) c b && GitSpec.wm ci pn (c == 47) rest t'
      | _, [] => false := by
  simp only [okChar, Bool.and_eq_true, decide_eq_true_eq, Bool.not_eq_eq_eq_not, Bool.not_true,
    Bool.or_eq_false_iff, beq_eq_false_iff_ne, ne_eq] at hok
  obtain ⟨_, ⟨⟨h91, _⟩, _⟩, _⟩ := hok
  rw [GitSpec.wm.eq_def]
  by_cases h63 : c = 63
  · subst h63
    cases t <;> simp [tokOf, wild, wmOpts]
  · by_cases h42 : c = 42
    · subst h42
      have hh : rest.head? ≠ some 42 := fun h => hss ⟨rfl, h⟩
      have hdw : rest.dropWhile (· == 42) = rest := by
        cases rest with
        | nil => rfl
        | cons e r =>
          have : (e == 42) = false := by
            simp only [beq_eq_false_iff_ne, ne_eq]; intro he; apply hh; simp [he]
          simp [List.dropWhile, this]
      have hhb : (rest.head? == some 42) = false := by simpa using hh
      simp only [Nat.reduceBEq, Bool.false_eq_true, ↓reduceIte, BEq.rfl, hdw, hhb, Bool.false_and,
        Bool.or_false, Nat.sub_self, List.drop_zero, Bool.false_or, tokOf, skipWhile_eq_starRests]
      have hf : (fun b => !pn || b != 47) = wild (wmOpts ci pn) := by
        funext b
        cases pn <;> simp [wild, wmOpts, bne]
      rw [hf]
    · have hb : (c == 92) = false := by simpa using h92
      have hb63 : (c == 63) = false := by simpa using h63
      have hb91 : (c == 91) = false := by simpa using h91
      have hb42 : (c == 42) = false := by simpa using h42
      simp only [hb, hb63, hb91, hb42, Bool.false_eq_true, ↓reduceIte, tokOf]
      cases t with
      | nil => rfl
      | cons b t' =>
        simp only [sameChar, wmOpts, toLower_eq]
        cases ci
        · simp only [Bool.false_eq_true, ↓reduceIte]
          congr 1
          exact Bool.eq_iff_iff.mpr ⟨fun h => by simpa using (by simpa using h : b = c).symm,
            fun h => by simpa using (by simpa using h : c = b).symm⟩
        · simp only [↓reduceIte]
          congr 1
          exact Bool.eq_iff_iff.mpr ⟨fun h => by simpa using (by simpa using h : lowerA b = lowerA c).symm,
            fun h => by simpa using (by simpa using h : lowerA c = lowerA b).symm⟩

theorem atomsMatch_tokOf (o : DocOpts) (c : Nat) (as : List Atom) (t : Bytes) :
    atomsMatch o (trAtom (tokOf c) :: as) t =
      match tokOf c, t with
      | .any, b :: t' => wild o b && atomsMatch o as t'
      | .any, [] => false
      | .star, t => (starRests (wild o) t).any fun r => atomsMatch o as r
      | _, b :: t' => sameChar o c b && atomsMatch o as t'
      | _, [] => false := by
  by_cases h63 : c = 63
  · subst h63; cases t <;> simp [tokOf, trAtom, atomsMatch]
  · by_cases h42 : c = 42
    · subst h42
      simp only [tokOf, Nat.reduceBEq, Bool.false_eq_true, ↓reduceIte, BEq.rfl, trAtom, atomsMatch]
      rw [star_any_eq]
    · have hb63 : (c == 63) = false := by simpa using h63
      have hb42 : (c == 42) = false := by simpa using h42
      cases t <;> simp [tokOf, hb63, hb42, trAtom, atomsMatch]

/-- **`wildmatch` on the wildcard grammar** (under `WM_CASEFOLD` only without escapes: git does not fold the
escaped character) -/
theorem wm_simple (ci pn : Bool) (g : List Nat) (hg : simpleGlob true g = true)
    (hci : ci = true → 92 ∉ g) (po : Bool) (t : Bytes) :
    GitSpec.wm ci pn po g t = atomsMatch (wmOpts ci pn) ((simpleToks true g).map trAtom) t := by
  induction g using simpleToks.induct (be := true) generalizing po t with
  | case1 => simp [wm_nil, simpleToks, atomsMatch]
  | case2 c hesc => simp [simpleGlob, hesc] at hg
  | case3 c hesc =>
    have hesc' : (c == 92 && true) = false := by simpa using hesc
    have h92 : c ≠ 92 := by simpa using hesc'
    simp only [simpleGlob, Bool.and_eq_true, hesc', Bool.not_false, and_true] at hg
    rw [wm_step ci pn po c [] t hg h92 (by simp)]
    simp only [simpleToks, hesc', Bool.false_eq_true, ↓reduceIte, List.map_cons, List.map_nil]
    rw [atomsMatch_tokOf]
    simp only [wm_nil, atomsMatch]
  | case4 c e g hesc ih =>
    simp only [Bool.and_true, beq_iff_eq] at hesc
    subst hesc
    have hcif : ci = false := by
      cases ci
      · rfl
      · exact absurd (by simp) (hci rfl)
    subst hcif
    simp only [simpleGlob, BEq.rfl, Bool.and_self, ↓reduceIte, Bool.and_eq_true, decide_eq_true_eq] at hg
    rw [GitSpec.wm.eq_def]
    simp only [BEq.rfl, ↓reduceIte, Bool.false_eq_true, simpleToks, Bool.and_self, List.map_cons, trAtom]
    cases t with
    | nil => simp [atomsMatch]
    | cons b t' =>
      simp only [atomsMatch, sameChar, wmOpts, Bool.false_eq_true, ↓reduceIte]
      rw [ih hg.2 (by intro h; cases h) _ t']
      congr 1
      exact Bool.eq_iff_iff.mpr ⟨fun h => by simpa using (by simpa using h : b = e).symm,
        fun h => by simpa using (by simpa using h : e = b).symm⟩
  | case5 c e g hesc ih =>
    have hesc' : (c == 92 && true) = false := by simpa using hesc
    have h92 : c ≠ 92 := by simpa using hesc'
    simp only [simpleGlob, hesc', Bool.false_eq_true, ↓reduceIte, Bool.and_eq_true,
      Bool.not_eq_eq_eq_not, Bool.not_true, Bool.and_eq_false_iff, beq_eq_false_iff_ne, ne_eq] at hg
    have hci' : ci = true → 92 ∉ e :: g := fun h hm => hci h (by simp [hm])
    rw [wm_step ci pn po c (e :: g) t hg.1.1 h92 (by
      rintro ⟨h1, h2⟩
      simp only [List.head?_cons, Option.some.injEq] at h2
      rcases hg.1.2 with h | h
      · exact h h1
      · exact h h2)]
    simp only [simpleToks, hesc', Bool.false_eq_true, ↓reduceIte, List.map_cons]
    have ih' := fun po t => ih hg.2 hci' po t
    rw [atomsMatch_tokOf]
    simp only [ih', List.map_cons]

end RgVerif.Glob
