import RgVerif.Lemmas.SearcherDeliver
/-
Steps and inner loops of `Core` under the invariant `Inv` (all-continue sink, binary detection off):
one delivered line, the before/after/matched loops.
-/
namespace RgVerif.Searcher
open RgVerif RgVerif.Matcher RgVerif.Lines RgVerif.GrepSpec

/-- fields no `sink_*` touches -/
def Frame (st st' : Core) : Prop :=
  st'.pos = st.pos ∧ st'.hasMatched = st.hasMatched ∧ st'.binary = st.binary

theorem Frame.refl (st : Core) : Frame st st := ⟨rfl, rfl, rfl⟩
theorem Frame.trans {a b c : Core} (h1 : Frame a b) (h2 : Frame b c) : Frame a c :=
  ⟨h2.1.trans h1.1, h2.2.1.trans h1.2.1, h2.2.2.trans h1.2.2⟩

theorem countLines_frame (cfg : Config) (buf : Bytes) (st : Core) (u : Nat) :
    Frame st (countLines cfg buf st u) := by
  unfold countLines Frame
  split
  · simp
  · split <;> simp

theorem deliverGen_frame (cfg : Config) (buf : Bytes) (mk : Option Nat → Nat → Bytes → Event) (acl : Nat)
    (st : Core) (r : Span) : Frame st (deliverGen cfg buf mk acl st r) := by
  have := countLines_frame cfg buf st r.s
  unfold deliverGen Frame at *
  simpa using this

theorem deliverGen_acl (cfg : Config) (buf : Bytes) (mk : Option Nat → Nat → Bytes → Event) (acl : Nat)
    (st : Core) (r : Span) : (deliverGen cfg buf mk acl st r).afterContextLeft = acl := rfl

section
variable {t : Nat} {buf : Bytes} {sl : List SLine} {cfg : Config}

theorem brkCond_eq (L : Layout t buf sl) {v j : Nat} {st : Core} (hI : Inv cfg sl v st) (hvj : v ≤ j)
    (hj : j ≤ sl.length) (hskip : ∀ j', v ≤ j' → j' < j → kindAt cfg sl j' = none) :
    brkCond cfg st (offsetAt sl j) = breakBefore cfg sl j := by
  rw [breakBefore_eq hvj hskip hI.deliv]
  unfold brkCond
  rw [hI.sunk, hI.llv]
  congr 1
  by_cases h : v < j
  · simp [h, L.off_lt h hj]
  · have : v = j := by omega
    subst this; simp

/-- `sink_matched` on line `j` -/
theorem sinkMatched_step (L : Layout t buf sl) (ht : cfg.lineTerm.asByte = t) (hbin : cfg.binary = .none)
    {v j : Nat} {st : Core} (hI : Inv cfg sl v st) (hvj : v ≤ j) (hj : j < sl.length)
    (hskip : ∀ j', v ≤ j' → j' < j → kindAt cfg sl j' = none)
    (hk : kindAt cfg sl j = some .matched) :
    ∃ st', sinkMatched cfg allCont buf st (span sl j) = (st', .ok true) ∧ Inv cfg sl (j + 1) st' ∧
      st'.afterContextLeft = cfg.afterContext ∧ Frame st st' := by
  refine ⟨_, sinkMatched_allCont (span sl j) hbin hI.bin, ?_, rfl, ?_⟩
  · have hb : brkCond cfg st (span sl j).s = breakBefore cfg sl j := brkCond_eq L hI hvj (by omega) hskip
    rw [hb]
    exact deliver_inv L ht hI hvj hj hskip hk _
  · exact deliverGen_frame _ _ _ _ _ _

/-- `sink_break_context` then `sink_before_context` on line `j` -/
theorem sinkBefore_step (L : Layout t buf sl) (ht : cfg.lineTerm.asByte = t) (hbin : cfg.binary = .none)
    {v j : Nat} {st : Core} (hI : Inv cfg sl v st) (hvj : v ≤ j) (hj : j < sl.length)
    (hskip : ∀ j', v ≤ j' → j' < j → kindAt cfg sl j' = none)
    (hk : kindAt cfg sl j = some (.ctx .before)) :
    ∃ st1 st', sinkBreakContext cfg allCont st (span sl j).s = (st1, .ok true) ∧
      sinkBeforeContext cfg allCont buf st1 (span sl j) = (st', .ok true) ∧ Inv cfg sl (j + 1) st' ∧
      st'.afterContextLeft = st.afterContextLeft ∧ Frame st st' := by
  refine ⟨_, _, sinkBreakContext_allCont cfg st _, sinkBeforeContext_allCont (span sl j) hbin hI.bin, ?_, rfl, ?_⟩
  · have hb : brkCond cfg st (span sl j).s = breakBefore cfg sl j := brkCond_eq L hI hvj (by omega) hskip
    rw [hb]
    exact deliver_inv L ht hI hvj hj hskip hk _
  · exact deliverGen_frame _ _ _ _ _ _

/-- no break is due before a line that directly follows the last delivered one -/
theorem breakBefore_adjacent {v : Nat} (hd : 0 < v → delivered cfg sl (v - 1) = true) :
    breakBefore cfg sl v = false := by
  rw [breakBefore_eq (Nat.le_refl v) (fun j' h1 h2 => by omega) hd]
  simp

/-- `sink_after_context` on the line right after the last delivered one -/
theorem sinkAfter_step (L : Layout t buf sl) (ht : cfg.lineTerm.asByte = t) (hbin : cfg.binary = .none)
    {v : Nat} {st : Core} (hI : Inv cfg sl v st) (hj : v < sl.length)
    (hk : kindAt cfg sl v = some (.ctx .after)) :
    ∃ st', sinkAfterContext cfg allCont buf st (span sl v) = (st', .ok true) ∧ Inv cfg sl (v + 1) st' ∧
      st'.afterContextLeft = st.afterContextLeft - 1 ∧ Frame st st' := by
  refine ⟨_, sinkAfterContext_allCont (span sl v) hbin hI.bin, ?_, rfl, deliverGen_frame _ _ _ _ _ _⟩
  have h := deliver_inv L ht hI (Nat.le_refl v) hj (fun j' h1 h2 => by omega) hk (st.afterContextLeft - 1)
  rw [breakBefore_adjacent hI.deliv] at h
  simpa [mkOf] using h

/-- `sink_other_context` on the line right after the last delivered one -/
theorem sinkOther_step (L : Layout t buf sl) (ht : cfg.lineTerm.asByte = t) (hbin : cfg.binary = .none)
    {v : Nat} {st : Core} (hI : Inv cfg sl v st) (hj : v < sl.length)
    (hk : kindAt cfg sl v = some (.ctx .other)) :
    ∃ st', sinkOtherContext cfg allCont buf st (span sl v) = (st', .ok true) ∧ Inv cfg sl (v + 1) st' ∧
      st'.afterContextLeft = st.afterContextLeft ∧ Frame st st' := by
  refine ⟨_, sinkOtherContext_allCont (span sl v) hbin hI.bin, ?_, rfl, deliverGen_frame _ _ _ _ _ _⟩
  have h := deliver_inv L ht hI (Nat.le_refl v) hj (fun j' h1 h2 => by omega) hk st.afterContextLeft
  rw [breakBefore_adjacent hI.deliv] at h
  simpa [mkOf] using h


/-! ### inner loops -/

/-- `before_context_by_line`'s loop over the lines `a … a+d-1`, all of kind *before*, after skipping `[v, a)`. -/
theorem beforeLoop_spec (L : Layout t buf sl) (ht : cfg.lineTerm.asByte = t) (hbin : cfg.binary = .none) :
    ∀ (d a v : Nat) (st : Core), Inv cfg sl v st → v ≤ a → (d = 0 → v = a) → a + d ≤ sl.length →
      (∀ j', v ≤ j' → j' < a → kindAt cfg sl j' = none) →
      (∀ j, a ≤ j → j < a + d → kindAt cfg sl j = some (.ctx .before)) →
      ∃ st', beforeLoop cfg allCont buf ((List.range' a d).map (span sl)) st = (st', .ok true) ∧
        Inv cfg sl (a + d) st' ∧ st'.afterContextLeft = st.afterContextLeft ∧ Frame st st' := by
  intro d
  induction d with
  | zero =>
    intro a v st hI hva h0 _ _ _
    have := h0 rfl; subst this
    exact ⟨st, by simp [beforeLoop], by simpa using hI, rfl, Frame.refl st⟩
  | succ d ih =>
    intro a v st hI hva _ hn hskip hk
    obtain ⟨st1, st2, e1, e2, hI2, hacl2, hf2⟩ :=
      sinkBefore_step L ht hbin hI hva (by omega) hskip (hk a (Nat.le_refl a) (by omega))
    obtain ⟨st3, e3, hI3, hacl3, hf3⟩ := ih (a + 1) (a + 1) st2 hI2 (Nat.le_refl _) (fun _ => rfl) (by omega)
      (fun j' h1 h2 => by omega) (fun j h1 h2 => hk j (by omega) (by omega))
    refine ⟨st3, ?_, ?_, by rw [hacl3, hacl2], hf2.trans hf3⟩
    · rw [List.range'_succ, List.map_cons, beforeLoop, e1]
      simp only [e2]
      exact e3
    · have : a + (d + 1) = a + 1 + d := by omega
      rw [this]; exact hI3

/-- `after_context_by_line`'s loop over the lines `v … v+d-1`: delivers `min acl d` of them. -/
theorem afterLoop_spec (L : Layout t buf sl) (ht : cfg.lineTerm.asByte = t) (hbin : cfg.binary = .none) :
    ∀ (d v : Nat) (st : Core), Inv cfg sl v st → v + d ≤ sl.length → 1 ≤ st.afterContextLeft →
      (∀ j, v ≤ j → j < v + min st.afterContextLeft d → kindAt cfg sl j = some (.ctx .after)) →
      ∃ st', afterLoop cfg allCont buf ((List.range' v d).map (span sl)) st = (st', .ok true) ∧
        Inv cfg sl (v + min st.afterContextLeft d) st' ∧
        st'.afterContextLeft = st.afterContextLeft - min st.afterContextLeft d ∧ Frame st st' := by
  intro d
  induction d with
  | zero =>
    intro v st hI _ _ _
    exact ⟨st, by simp [afterLoop], by simpa using hI, by simp, Frame.refl st⟩
  | succ d ih =>
    intro v st hI hn hacl hk
    obtain ⟨st1, e1, hI1, hacl1, hf1⟩ :=
      sinkAfter_step L ht hbin hI (by omega) (hk v (Nat.le_refl v) (by omega))
    rw [List.range'_succ, List.map_cons, afterLoop, e1]
    simp only
    by_cases h0 : st1.afterContextLeft = 0
    · have hm : min st.afterContextLeft (d + 1) = 1 := by omega
      refine ⟨st1, by simp [h0], by rw [hm]; exact hI1, by omega, hf1⟩
    · have h1 : 1 ≤ st1.afterContextLeft := by omega
      obtain ⟨st2, e2, hI2, hacl2, hf2⟩ := ih (v + 1) st1 hI1 (by omega) h1
        (fun j hj1 hj2 => hk j (by omega) (by omega))
      have hm : v + 1 + min st1.afterContextLeft d = v + min st.afterContextLeft (d + 1) := by omega
      refine ⟨st2, by simp [h0, e2], by rw [← hm]; exact hI2, by omega, hf1.trans hf2⟩

/-- a loop of `sink_matched` over the consecutive lines `a … a+d-1`, all selected -/
theorem matchedLoop_spec (L : Layout t buf sl) (ht : cfg.lineTerm.asByte = t) (hbin : cfg.binary = .none) :
    ∀ (d a v : Nat) (st : Core), Inv cfg sl v st → v ≤ a → (d = 0 → v = a) → a + d ≤ sl.length →
      (∀ j', v ≤ j' → j' < a → kindAt cfg sl j' = none) →
      (∀ j, a ≤ j → j < a + d → kindAt cfg sl j = some .matched) →
      ∃ st', matchedLoop cfg allCont buf ((List.range' a d).map (span sl)) st = (st', .ok true) ∧
        Inv cfg sl (a + d) st' ∧ (0 < d → st'.afterContextLeft = cfg.afterContext) ∧
        (d = 0 → st' = st) ∧ Frame st st' := by
  intro d
  induction d with
  | zero =>
    intro a v st hI hva h0 _ _ _
    have := h0 rfl; subst this
    exact ⟨st, by simp [matchedLoop], by simpa using hI, by simp, fun _ => rfl, Frame.refl st⟩
  | succ d ih =>
    intro a v st hI hva _ hn hskip hk
    obtain ⟨st1, e1, hI1, hacl1, hf1⟩ :=
      sinkMatched_step L ht hbin hI hva (by omega) hskip (hk a (Nat.le_refl a) (by omega))
    obtain ⟨st2, e2, hI2, hacl2, hst2, hf2⟩ := ih (a + 1) (a + 1) st1 hI1 (Nat.le_refl _) (fun _ => rfl) (by omega)
      (fun j' h1 h2 => by omega) (fun j h1 h2 => hk j (by omega) (by omega))
    refine ⟨st2, ?_, ?_, ?_, by omega, hf1.trans hf2⟩
    · rw [List.range'_succ, List.map_cons, matchedLoop, e1]
      exact e2
    · have : a + (d + 1) = a + 1 + d := by omega
      rw [this]; exact hI2
    · intro _
      by_cases hd : d = 0
      · rw [hst2 hd]; exact hacl1
      · exact hacl2 (by omega)

end
end RgVerif.Searcher
