import RgVerif.Lemmas.GitStar
/-
Trailing blanks: unescaped spaces at the end of a line are dropped by ripgrep (`trim_right`, unless the line
ends in `\ `) and by git (`trim_trailing_spaces`) alike.
-/
namespace RgVerif.Gitignore
open RgVerif RgVerif.Glob

def spaces (k : Nat) : List Nat := List.replicate k 32

theorem trimRight_spaces (l : List Nat) (k : Nat) {c : Nat} (hl : l.getLast? = some c) (hws : isWs c = false) :
    trimRight (l ++ spaces k) = l := by
  unfold trimRight spaces
  rw [List.reverse_append, List.reverse_replicate]
  have hdrop : ∀ (k : Nat) (r : List Nat), (List.replicate k 32 ++ r).dropWhile isWs = r.dropWhile isWs := by
    intro k r
    induction k with
    | zero => rfl
    | succ k ih =>
      have h32 : isWs 32 = true := by decide
      simp only [List.replicate_succ, List.cons_append, List.dropWhile, h32]
      exact ih
  rw [hdrop]
  have := trimRight_of_last hl hws
  unfold trimRight at this
  exact this

theorem endsWith_spaces (l : List Nat) (k : Nat) {c : Nat} (hl : l.getLast? = some c) (h92 : c ≠ 92)
    (h32 : c ≠ 32) : endsWith (l ++ spaces k) [92, 32] = false := by
  have hne : l ≠ [] := by intro h; simp [h] at hl
  have hx := List.dropLast_concat_getLast hne
  rw [List.getLast?_eq_some_getLast hne] at hl
  simp only [Option.some.injEq] at hl
  have hrev : l.reverse = c :: l.dropLast.reverse := by
    conv => lhs; rw [← hx]
    simp [hl]
  unfold endsWith spaces List.isSuffixOf
  rw [List.reverse_append, List.reverse_replicate, hrev]
  cases k with
  | zero => simp [List.isPrefixOf, Ne.symm h32]
  | succ k =>
    cases k with
    | zero => simp [List.replicate_succ, List.isPrefixOf, Ne.symm h92]
    | succ k => simp [List.replicate_succ, List.isPrefixOf]

theorem go_spaces (k : Nat) (K P : List Nat) : GitSpec.trimSpaces.go (spaces k) K P = K := by
  induction k generalizing P with
  | zero => simp [spaces, GitSpec.trimSpaces.go]
  | succ k ih =>
    simp only [spaces, List.replicate_succ] at ih ⊢
    rw [GitSpec.trimSpaces.go]
    exact ih _

theorem go_blank (l kept pend : List Nat) (k : Nat) (hne : l ≠ [])
    (hl : l.getLast? ≠ some 32) (hl92 : l.getLast? ≠ some 92) :
    GitSpec.trimSpaces.go (l ++ spaces k) kept pend = kept ++ pend ++ l := by
  induction l, kept, pend using GitSpec.trimSpaces.go.induct with
  | case1 kept pend => exact absurd rfl hne
  | case2 x rest kept pend ih =>
    simp only [List.cons_append]
    rw [GitSpec.trimSpaces.go]
    by_cases hr : rest = []
    · subst hr; simp [go_spaces]
    · rw [ih hr (by intro h; apply hl; rw [List.getLast?_cons_cons, getLast?_cons_ne_nil _ hr]; exact h)
        (by intro h; apply hl92; rw [List.getLast?_cons_cons, getLast?_cons_ne_nil _ hr]; exact h)]
      simp
  | case3 rest kept pend ih =>
    simp only [List.cons_append]
    rw [GitSpec.trimSpaces.go]
    by_cases hr : rest = []
    · subst hr; simp at hl
    · rw [ih hr (by intro h; apply hl; rw [getLast?_cons_ne_nil _ hr]; exact h)
        (by intro h; apply hl92; rw [getLast?_cons_ne_nil _ hr]; exact h)]
      simp
  | case4 c rest kept pend h1 h2 ih =>
    have hc92 : c ≠ 92 := by
      intro hc
      cases rest with
      | nil => subst hc; simp at hl92
      | cons x r => exact h1 x r hc rfl
    simp only [List.cons_append]
    rw [GitSpec.trimSpaces.go]
    · by_cases hr : rest = []
      · subst hr; simp [go_spaces]
      · rw [ih hr (by intro h; apply hl; rw [getLast?_cons_ne_nil _ hr]; exact h)
          (by intro h; apply hl92; rw [getLast?_cons_ne_nil _ hr]; exact h)]
        simp
    · intro x r hc _; exact hc92 hc
    · exact h2

/-- trailing unescaped spaces do not change what a line means, to either side -/
theorem lineAgree_blank (ci : Bool) (l : List Nat) (k : Nat) {c : Nat} (hl : l.getLast? = some c)
    (hws : isWs c = false) (h92 : c ≠ 92) (h32 : c ≠ 32) (h : LineAgree ci l) :
    LineAgree ci (l ++ spaces k) := by
  have hne : l ≠ [] := by intro hn; simp [hn] at hl
  obtain ⟨c0, tl, hct⟩ := List.exists_cons_of_ne_nil hne
  have hadd : addLine ci (l ++ spaces k) = addLine ci l := by
    unfold addLine
    have hs : startsWith (l ++ spaces k) [35] = startsWith l [35] := by
      rw [hct]; simp [startsWith, List.isPrefixOf]
    have ht1 : trimLine (l ++ spaces k) = l := by
      unfold trimLine
      rw [endsWith_spaces l k hl h92 h32]; simp [trimRight_spaces l k hl hws]
    have ht2 : trimLine l = l := by
      have := endsWith_spaces l 0 hl h92 h32
      have ht := trimRight_spaces l 0 hl hws
      simp only [spaces, List.replicate_zero, List.append_nil] at this ht
      unfold trimLine; rw [this]; simp [ht]
    rw [hs, ht1, ht2]
  have hpat : GitSpec.parsePat (l ++ spaces k) = GitSpec.parsePat l := by
    unfold GitSpec.parsePat
    have hh : ((l ++ spaces k).isEmpty || (l ++ spaces k).head? == some 35) = (l.isEmpty || l.head? == some 35) := by
      rw [hct]; simp
    have ht1 : GitSpec.trimSpaces (l ++ spaces k) = l := by
      unfold GitSpec.trimSpaces
      rw [go_blank l [] [] k hne (by rw [hl]; simpa using h32) (by rw [hl]; simpa using h92)]; rfl
    have ht2 : GitSpec.trimSpaces l = l := by
      have := go_blank l [] [] 0 hne (by rw [hl]; simpa using h32) (by rw [hl]; simpa using h92)
      simp only [spaces, List.replicate_zero, List.append_nil] at this
      unfold GitSpec.trimSpaces; rw [this]; rfl
    rw [hh, ht1, ht2]
  intro rel isDir hwf
  have := h rel isDir hwf
  unfold mHit sHit at this ⊢
  rw [hadd, hpat]
  exact this

/-- the last character of a line of the proved sub-grammars -/
theorem okLine_last (ci : Bool) (l : List Nat) (h : (okLineW ci l || okLineS ci l) = true) :
    ∃ c, l.getLast? = some c ∧ isWs c = false ∧ c ≠ 92 ∧ c ≠ 32 := by
  have key : ∀ (neg abs dir : Bool) (core : List Nat) (cl : Nat), core.getLast? = some cl →
      cl ≠ 92 → cl ≠ 32 → isWs cl = false →
      ∃ c, (lineOf neg abs dir core).getLast? = some c ∧ isWs c = false ∧ c ≠ 92 ∧ c ≠ 32 := by
    intro neg abs dir core cl hcl h92 h32 hws
    refine ⟨_, lineOf_getLast neg abs dir hcl, ?_⟩
    cases dir
    · exact ⟨by simpa using hws, by simpa using h92, by simpa using h32⟩
    · exact ⟨by simp [isWs], by simp, by simp⟩
  rcases Bool.or_eq_true_iff.mp h with h | h
  · unfold okLineW at h
    simp only [Bool.and_eq_true, beq_iff_eq] at h
    obtain ⟨cl, hcl, _, h92, h32, hws⟩ := (coreOK_of_okCore h.2).last
    rw [← h.1]; exact key _ _ _ _ cl hcl h92 h32 hws
  · unfold okLineS at h
    simp only [Bool.and_eq_true, beq_iff_eq] at h
    obtain ⟨cl, hcl, _, h92, h32, hws⟩ := (starCoreOK_of ci _ h.2).last
    rw [← h.1]; exact key _ _ _ _ cl hcl h92 h32 hws

/-- a line of the proved sub-grammars followed by unescaped spaces -/
def okLineB (ci : Bool) (l : List Nat) : Bool :=
  let l0 := (l.reverse.dropWhile (· == 32)).reverse
  (okLineW ci l0 || okLineS ci l0) && (l0 ++ spaces (l.length - l0.length) == l)

theorem lineAgree_of_okLineB (ci : Bool) (l : List Nat) (h : okLineB ci l = true) : LineAgree ci l := by
  unfold okLineB at h
  simp only [Bool.and_eq_true, beq_iff_eq] at h
  obtain ⟨c, hc, hws, h92, h32⟩ := okLine_last ci _ h.1
  rw [← h.2]
  apply lineAgree_blank ci _ _ hc hws h92 h32
  rcases Bool.or_eq_true_iff.mp h.1 with h1 | h1
  · exact lineAgree_of_okLineW ci _ h1
  · exact lineAgree_of_okLineS ci _ h1

end RgVerif.Gitignore
