import RgVerif.Lemmas.WalkSerial
/-
C06 termination: the nesting of followed links is bounded by the number of directories, so the
fuel of the model recursions is never exhausted (`dirCount + 1` suffices; more changes nothing).
-/
namespace RgVerif.Walk

def dirCount (forest : List Node) : Nat := (dirInosL forest).length

/-- Directories of the forest that are not among the ancestors. -/
def free (forest : List Node) (anc : List Anc) : Nat :=
  ((dirInosL forest).filter (fun i => !inAnc anc i)).length

theorem filter_length_mono {α : Type} (p q : α → Bool) (l : List α) (h : ∀ x, p x = true → q x = true) :
    (l.filter p).length ≤ (l.filter q).length := by
  induction l with
  | nil => simp
  | cons a l ih =>
    simp only [List.filter_cons]
    cases hp : p a
    · cases hq : q a <;> simp <;> omega
    · simp [h a hp]; omega

theorem filter_length_lt {α : Type} (p q : α → Bool) (l : List α) (h : ∀ x, p x = true → q x = true)
    (a : α) (ha : a ∈ l) (hqa : q a = true) (hpa : p a = false) :
    (l.filter p).length < (l.filter q).length := by
  induction l with
  | nil => cases ha
  | cons b l ih =>
    simp only [List.filter_cons]
    rcases List.mem_cons.1 ha with e | e
    · subst e
      have := filter_length_mono p q l h
      simp [hqa, hpa]; omega
    · have := ih e
      cases hp : p b
      · cases hq : q b <;> simp <;> omega
      · simp [h b hp]; omega

theorem inAnc_cons (a : Anc) (anc : List Anc) (i : Nat) :
    inAnc (a :: anc) i = (a.1 == i || inAnc anc i) := by
  simp [inAnc]

theorem free_cons_le (forest : List Node) (a : Anc) (anc : List Anc) :
    free forest (a :: anc) ≤ free forest anc := by
  unfold free
  apply filter_length_mono
  intro x hx
  rw [inAnc_cons] at hx
  simp only [Bool.not_or, Bool.and_eq_true] at hx
  exact hx.2

theorem free_cons_lt (forest : List Node) (i : Nat) (g : List Name) (anc : List Anc)
    (hi : i ∈ dirInosL forest) (hn : inAnc anc i = false) :
    free forest ((i, g) :: anc) < free forest anc := by
  unfold free
  apply filter_length_lt _ _ _ _ i hi
  · simp [hn]
  · simp [inAnc_cons]
  · intro x hx
    rw [inAnc_cons] at hx
    simp only [Bool.not_or, Bool.and_eq_true] at hx
    exact hx.2

theorem free_le_dirCount (forest : List Node) (anc : List Anc) : free forest anc ≤ dirCount forest := by
  unfold free dirCount
  exact List.length_filter_le _ _

mutual
theorem findDirN_mem (i : Nat) : (k : Node) → (d : DirView) → findDirN i k = some d →
    d.ino = i ∧ i ∈ dirInosN k
  | .file _ _, d => by intro h; simp [findDirN] at h
  | .link _ _ _, d => by intro h; simp [findDirN] at h
  | .dir _ ino dev ign kids, d => by
    intro h
    unfold findDirN at h
    unfold dirInosN
    split at h
    · cases h; rename_i e; simp [e]
    · have := findDirL_mem i kids d h
      exact ⟨this.1, by simp [this.2]⟩
theorem findDirL_mem (i : Nat) : (ks : List Node) → (d : DirView) → findDirL i ks = some d →
    d.ino = i ∧ i ∈ dirInosL ks
  | [], d => by intro h; simp [findDirL] at h
  | k :: ks, d => by
    intro h
    unfold findDirL at h
    unfold dirInosL
    split at h
    · rename_i d' hd
      cases h
      have := findDirN_mem i k d hd
      exact ⟨this.1, by simp [this.2]⟩
    · have := findDirL_mem i ks d h
      exact ⟨this.1, by simp [this.2]⟩
end

theorem resolve_dir_mem {forest : List Node} {tgt : Target} {d : DirView} {via : Bool}
    (h : resolve forest tgt = .dir d via) : d.ino ∈ dirInosL forest := by
  cases tgt with
  | missing => simp [resolve] at h
  | file s => simp [resolve] at h
  | dir i =>
    simp only [resolve] at h
    split at h
    · rename_i d' hd
      cases h
      have := findDirL_mem i forest _ hd
      rw [this.1]; exact this.2
    · cases h

mutual
/-- Two jump functions that agree below `n` free directories give the same contents at ≤ `n`. -/
theorem reachEntry_congr (cfg : Cfg) (forest : List Node) (j1 j2 : Contents) (n : Nat)
    (H : ∀ a d p r ks, free forest a < n → j1 a d p r ks = j2 a d p r ks)
    (rd : Option Nat) (anc : List Anc) (hn : free forest anc ≤ n) (depth : Nat) (pp : Path) :
    (k : Node) → reachEntry cfg forest j1 rd anc depth pp k = reachEntry cfg forest j2 rd anc depth pp k
  | .file name size => by unfold reachEntry; rfl
  | .dir name ino dev ign kids => by
    unfold reachEntry
    rw [reachKids_congr cfg forest j1 j2 n H rd ((ino, ign) :: anc)
      (Nat.le_trans (free_cons_le forest _ anc) hn) (depth + 1) (pp ++ [name]) kids]
  | .link name len tgt => by
    unfold reachEntry
    split
    · split
      · rfl
      · rename_i d via hr
        split
        · rfl
        · rename_i hl
          have hl' : inAnc anc d.ino = false := by simpa using hl
          rw [H ((d.ino, d.ign) :: anc) (depth + 1) (pp ++ [name]) rd d.kids
            (Nat.lt_of_lt_of_le (free_cons_lt forest d.ino d.ign anc (resolve_dir_mem hr) hl') hn)]
      · rfl
    · rfl
theorem reachKids_congr (cfg : Cfg) (forest : List Node) (j1 j2 : Contents) (n : Nat)
    (H : ∀ a d p r ks, free forest a < n → j1 a d p r ks = j2 a d p r ks)
    (rd : Option Nat) (anc : List Anc) (hn : free forest anc ≤ n) (depth : Nat) (pp : Path) :
    (ks : List Node) → reachKids cfg forest j1 rd anc depth pp ks = reachKids cfg forest j2 rd anc depth pp ks
  | [] => by unfold reachKids; rfl
  | k :: ks => by
    unfold reachKids
    rw [reachEntry_congr cfg forest j1 j2 n H rd anc hn depth pp k,
      reachKids_congr cfg forest j1 j2 n H rd anc hn depth pp ks]
end

/-- More fuel than free directories changes nothing. -/
theorem reachContents_stable (cfg : Cfg) (forest : List Node) :
    ∀ f anc depth p rd kids, free forest anc < f →
      reachContents cfg forest (f + 1) anc depth p rd kids = reachContents cfg forest f anc depth p rd kids := by
  intro f
  induction f with
  | zero => intro anc depth p rd kids h; omega
  | succ f ih =>
    intro anc depth p rd kids h
    simp only [reachContents]
    exact reachKids_congr cfg forest _ _ f (fun a d p r ks ha => ih a d p r ks ha) rd anc (by omega) depth p kids

theorem reachContents_stable' (cfg : Cfg) (forest : List Node) (f g : Nat) (anc : List Anc)
    (depth : Nat) (p : Path) (rd : Option Nat) (kids : List Node) (hf : free forest anc < f) (hg : f ≤ g) :
    reachContents cfg forest g anc depth p rd kids = reachContents cfg forest f anc depth p rd kids := by
  induction g with
  | zero => have : f = 0 := by omega
            subst this; rfl
  | succ g ih =>
    by_cases e : f = g + 1
    · subst e; rfl
    · rw [reachContents_stable cfg forest g anc depth p rd kids (by omega)]
      exact ih (by omega)

theorem reachRoot_stable (cfg : Cfg) (forest : List Node) (f : Nat) (r : Node)
    (hf : dirCount forest + 1 ≤ f) :
    reachRoot cfg forest f r = reachRoot cfg forest (dirCount forest + 1) r := by
  unfold reachRoot
  split
  · rfl
  · rename_i d via hs
    have := free_le_dirCount forest [(d.ino, d.ign)]
    rw [reachContents_stable' cfg forest (dirCount forest + 1) f _ _ _ _ _ (by omega) hf]
  · rfl

/-- The spec does not depend on the fuel once it exceeds the number of directories. -/
theorem reach_stable (cfg : Cfg) (forest : List Node) (f : Nat) (roots : List Node)
    (hf : dirCount forest + 1 ≤ f) :
    reach cfg forest f roots = reach cfg forest (dirCount forest + 1) roots := by
  unfold reach
  congr 1
  funext r
  exact reachRoot_stable cfg forest f r hf

/-! The same for the hazard predicate (shape of the repaired finding F25; formerly the guard of the serial theorem). -/

mutual
theorem hazardEntry_congr (cfg : Cfg) (forest : List Node)
    (j1 j2 : List Anc → Nat → Path → Option Nat → List Node → Bool) (n : Nat)
    (H : ∀ a d p r ks, free forest a < n → j1 a d p r ks = j2 a d p r ks)
    (rd : Option Nat) (anc : List Anc) (hn : free forest anc ≤ n) (depth : Nat) (pp : Path) :
    (k : Node) → hazardEntry cfg forest j1 rd anc depth pp k = hazardEntry cfg forest j2 rd anc depth pp k
  | .file name size => by unfold hazardEntry; rfl
  | .dir name ino dev ign kids => by
    unfold hazardEntry
    rw [hazardKids_congr cfg forest j1 j2 n H rd ((ino, ign) :: anc)
      (Nat.le_trans (free_cons_le forest _ anc) hn) (depth + 1) (pp ++ [name]) kids]
  | .link name len tgt => by
    unfold hazardEntry
    split
    · split
      · rename_i d via hr
        split
        · rfl
        · rename_i hl
          have hl' : inAnc anc d.ino = false := by simpa using hl
          rw [H ((d.ino, d.ign) :: anc) (depth + 1) (pp ++ [name]) rd d.kids
            (Nat.lt_of_lt_of_le (free_cons_lt forest d.ino d.ign anc (resolve_dir_mem hr) hl') hn)]
      · rfl
    · rfl
theorem hazardKids_congr (cfg : Cfg) (forest : List Node)
    (j1 j2 : List Anc → Nat → Path → Option Nat → List Node → Bool) (n : Nat)
    (H : ∀ a d p r ks, free forest a < n → j1 a d p r ks = j2 a d p r ks)
    (rd : Option Nat) (anc : List Anc) (hn : free forest anc ≤ n) (depth : Nat) (pp : Path) :
    (ks : List Node) → hazardKids cfg forest j1 rd anc depth pp ks = hazardKids cfg forest j2 rd anc depth pp ks
  | [] => by unfold hazardKids; rfl
  | k :: ks => by
    unfold hazardKids
    rw [hazardEntry_congr cfg forest j1 j2 n H rd anc hn depth pp k,
      hazardKids_congr cfg forest j1 j2 n H rd anc hn depth pp ks]
end

theorem hazardContents_stable (cfg : Cfg) (forest : List Node) :
    ∀ f anc depth p rd kids, free forest anc < f →
      hazardContents cfg forest (f + 1) anc depth p rd kids = hazardContents cfg forest f anc depth p rd kids := by
  intro f
  induction f with
  | zero => intro anc depth p rd kids h; omega
  | succ f ih =>
    intro anc depth p rd kids h
    simp only [hazardContents]
    exact hazardKids_congr cfg forest _ _ f (fun a d p r ks ha => ih a d p r ks ha) rd anc (by omega) depth p kids

theorem hazardContents_stable' (cfg : Cfg) (forest : List Node) (f g : Nat) (anc : List Anc)
    (depth : Nat) (p : Path) (rd : Option Nat) (kids : List Node) (hf : free forest anc < f) (hg : f ≤ g) :
    hazardContents cfg forest g anc depth p rd kids = hazardContents cfg forest f anc depth p rd kids := by
  induction g with
  | zero => have : f = 0 := by omega
            subst this; rfl
  | succ g ih =>
    by_cases e : f = g + 1
    · subst e; rfl
    · rw [hazardContents_stable cfg forest g anc depth p rd kids (by omega)]
      exact ih (by omega)

theorem hazardFree_stable (cfg : Cfg) (forest : List Node) (f : Nat) (roots : List Node)
    (hf : dirCount forest + 1 ≤ f) :
    hazardFree cfg forest f roots = hazardFree cfg forest (dirCount forest + 1) roots := by
  unfold hazardFree
  congr 2
  funext r
  unfold hazardRoot
  split
  · rename_i d via hs
    have := free_le_dirCount forest [(d.ino, d.ign)]
    rw [hazardContents_stable' cfg forest (dirCount forest + 1) f _ _ _ _ _ (by omega) hf]
  · rfl

end RgVerif.Walk
