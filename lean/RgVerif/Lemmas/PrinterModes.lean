import RgVerif.Lemmas.PrinterCount
/-
Helper lemmas for C10: "has a match" is the same fact for every sink, -o records, aggregation over files.
-/
namespace RgVerif.Lemmas.PrinterModes
open RgVerif RgVerif.Matcher RgVerif.Replace RgVerif.Json RgVerif.Printer RgVerif.PrinterSpec RgVerif.Summary
open RgVerif.Lemmas.PrinterIter RgVerif.Lemmas.PrinterJsonRun RgVerif.Lemmas.PrinterCount RgVerif.Lemmas.PrinterStd
open RgVerif.Lemmas.PrinterRecord

/-- the stream contains a `matched` callback -/
def hasMatched (evs : List Event) : Bool := evs.any Event.isMatched

/-! ### Summary: match_count > 0 iff a matched callback arrived -/

theorem sumEvents_pos (sc : SCfg) (c : SumCfg) (find : Oracle) (hml : (sc.multiLine && !sc.invert) = false) :
    ∀ (evs : List Event) (st : SumState),
      (sumEvents sc c find st evs).matchCount > 0 ↔ (st.matchCount > 0 ∨ hasMatched evs = true) := by
  intro evs
  induction evs with
  | nil => intro st; simp [sumEvents, hasMatched]
  | cons ev rest ih =>
    intro st
    rw [sumEvents_cons]
    cases ev with
    | contextBreak => simpa [sumEvent, hasMatched, Event.isMatched] using ih st
    | context k b off ln => simpa [sumEvent, hasMatched, Event.isMatched] using ih st
    | matched buf rs re off ln =>
      have hmc : (sumEvent sc c find st (.matched buf rs re off ln)).1.matchCount = st.matchCount + 1 := by
        simp [sumEvent, sumMatched_eq sc c find st buf rs re hml]
      simp only [hasMatched, List.any_cons, Event.isMatched, Bool.true_or, or_true, iff_true]
      by_cases hc : (sumEvent sc c find st (.matched buf rs re off ln)).2 = true
      · simp only [hc, ↓reduceIte]
        rw [ih]
        left; omega
      · simp only [hc, Bool.false_eq_true, ↓reduceIte]
        omega

/-! ### Summary: what a finished search has printed -/

theorem sumEvent_out (sc : SCfg) (c : SumCfg) (find : Oracle) (st : SumState) (ev : Event) :
    (sumEvent sc c find st ev).1.out = st.out := by
  cases ev with
  | contextBreak => rfl
  | context k b off ln => rfl
  | matched buf rs re off ln =>
    simp only [sumEvent, sumMatched]
    split <;> (try split) <;> rfl

theorem sumEvents_out (sc : SCfg) (c : SumCfg) (find : Oracle) :
    ∀ (evs : List Event) (st : SumState), (sumEvents sc c find st evs).out = st.out := by
  intro evs
  induction evs with
  | nil => intro st; simp [sumEvents]
  | cons ev rest ih =>
    intro st
    rw [sumEvents_cons]
    split
    · rw [ih, sumEvent_out]
    · rw [sumEvent_out]

/-- the sink state when `finish` is called -/
def preFinish (sc : SCfg) (c : SumCfg) (find : Oracle) (evs : List Event) : SumState :=
  if c.maxMatches == some 0 then { stats := if c.hasStats then some {} else none }
  else sumEvents sc c find { stats := if c.hasStats then some {} else none } evs

theorem sumSearch_eq (sc : SCfg) (c : SumCfg) (find : Oracle) (evs : List Event) (bc : Nat) :
    sumSearch sc c find evs bc = sumFinish sc c (preFinish sc c find evs) bc := rfl

theorem preFinish_out (sc : SCfg) (c : SumCfg) (find : Oracle) (evs : List Event) :
    (preFinish sc c find evs).out = [] := by
  unfold preFinish
  split
  · rfl
  · rw [sumEvents_out]

theorem sumSearch_matchCount (sc : SCfg) (c : SumCfg) (find : Oracle) (evs : List Event) (bc : Nat) :
    (sumSearch sc c find evs bc).matchCount = (preFinish sc c find evs).matchCount := rfl

/-- `-l`: the path line iff the match count is positive -/
theorem sumSearch_out_l (sc : SCfg) (c : SumCfg) (find : Oracle) (evs : List Event) (bc : Nat)
    (hk : c.kind = .pathWithMatch) :
    (sumSearch sc c find evs bc).out =
      if (sumSearch sc c find evs bc).matchCount > 0 then Summary.writePathLine sc.lt c else [] := by
  rw [sumSearch_matchCount, sumSearch_eq]
  simp [sumFinish, hk, preFinish_out]

/-- `--files-without-match`: the path line iff the match count is zero -/
theorem sumSearch_out_L (sc : SCfg) (c : SumCfg) (find : Oracle) (evs : List Event) (bc : Nat)
    (hk : c.kind = .pathWithoutMatch) :
    (sumSearch sc c find evs bc).out =
      if (sumSearch sc c find evs bc).matchCount == 0 then Summary.writePathLine sc.lt c else [] := by
  rw [sumSearch_matchCount, sumSearch_eq]
  simp [sumFinish, hk, preFinish_out]

/-- `-c`: path field, the count in decimal, line terminator (nothing for a zero count unless `--include-zero`) -/
theorem sumSearch_out_count (sc : SCfg) (c : SumCfg) (find : Oracle) (evs : List Event) (bc : Nat)
    (hk : c.kind = .count) :
    (sumSearch sc c find evs bc).out =
      if !c.excludeZero || (sumSearch sc c find evs bc).matchCount > 0 then
        writePathField c ++ decimal (sumSearch sc c find evs bc).matchCount ++ sc.lt.bytes
      else [] := by
  rw [sumSearch_matchCount, sumSearch_eq]
  simp [sumFinish, hk, preFinish_out]

theorem writePathLine_ne_nil (lt : LineTerm) (c : SumCfg) (p : Bytes) (hp : c.path = some p) :
    Summary.writePathLine lt c ≠ [] := by
  unfold Summary.writePathLine
  simp only [hp]
  cases c.pathTerminator <;> cases lt <;> simp [LineTerm.bytes]

/-! ### Standard: match_count > 0 iff a matched callback arrived (limit not 0) -/

theorem stdEvent_mono (sc : SCfg) (c : StdCfg) (find : Oracle) (st : StdState) (ev : Event) :
    st.matchCount ≤ (stdEvent sc c find st ev).1.matchCount := by
  cases ev <;> simp [stdEvent, stdMatched, stdContext, stdContextBreak, StdState.write]

theorem stdEvents_mono (sc : SCfg) (c : StdCfg) (find : Oracle) :
    ∀ (evs : List Event) (st : StdState), st.matchCount ≤ (stdEvents sc c find st evs).matchCount := by
  intro evs
  induction evs with
  | nil => intro st; simp [stdEvents]
  | cons ev rest ih =>
    intro st
    rw [stdEvents_cons]
    have h1 := stdEvent_mono sc c find st ev
    split
    · exact Nat.le_trans h1 (ih _)
    · exact h1

theorem stdEvents_pos (sc : SCfg) (c : StdCfg) (find : Oracle) (hN : c.maxMatches ≠ some 0) :
    ∀ (evs : List Event) (st : StdState),
      (stdEvents sc c find st evs).matchCount > 0 ↔ (st.matchCount > 0 ∨ hasMatched evs = true) := by
  intro evs
  induction evs with
  | nil => intro st; simp [stdEvents, hasMatched]
  | cons ev rest ih =>
    intro st
    by_cases hpos : st.matchCount > 0
    · have := stdEvents_mono sc c find (ev :: rest) st
      constructor
      · intro _; exact Or.inl hpos
      · intro _; omega
    · have hz : st.matchCount = 0 := by omega
      rw [stdEvents_cons]
      cases ev with
      | contextBreak =>
        simp only [stdEvent, stdContextBreak, ↓reduceIte]
        rw [ih]
        simp [StdState.write, hasMatched, Event.isMatched]
      | context k b off ln =>
        have hq : ∀ ar, shouldQuit c.maxMatches 0 ar = false := by
          intro ar
          unfold shouldQuit
          cases hm : c.maxMatches with
          | none => rfl
          | some l =>
            have : l ≠ 0 := by intro h; apply hN; rw [hm, h]
            have : 0 < l := by omega
            simp [this]
        simp only [stdEvent, stdContext, StdState.write, hz, hq, Bool.not_false, ↓reduceIte]
        rw [ih]
        simp [hasMatched, Event.isMatched]
      | matched buf rs re off ln =>
        have h1 : (stdEvent sc c find st (.matched buf rs re off ln)).1.matchCount = st.matchCount + 1 := by
          simp [stdEvent, stdMatched, StdState.write]
        simp only [hasMatched, List.any_cons, Event.isMatched, Bool.true_or, or_true, iff_true]
        split
        · have := stdEvents_mono sc c find rest (stdEvent sc c find st (.matched buf rs re off ln)).1
          omega
        · omega

/-! ### -o records (single-line path) -/

/-- the record `-o` prints for one match of a line -/
def onlyRecord (lt : LineTerm) (c : StdCfg) (s : Sunk) (m : Span) : Rec :=
  { path := recPath c, lineNo := s.lineNo, col := optIf c.column (m.s + 1), off := optIf c.byteOffset (s.absOff + m.s)
  , isCtx := s.ctx.isSome, text := completed lt (slice s.bytes m.s m.e) }

/-- With `--only-matching` the slow path prints exactly one record per match: the matched text, the line's
number, the match's own offset and column. -/
theorem sinkSlow_only (sc : SCfg) (c : StdCfg) (s : Sunk) (ho : c.onlyMatching = true) :
    sinkSlow sc c s = (s.ms.map (onlyRecord sc.lt c s)).flatMap (printRecord c) := by
  unfold sinkSlow
  simp only [ho, ↓reduceIte, List.flatMap_map]
  congr 1
  funext m
  rw [prelude_line_eq]
  simp [onlyRecord, optIf]

/-! ### aggregation over files -/

theorem aggregate_matched (q so : Bool) :
    ∀ (rs : List FileResult) (acc : Bool × Option Stats),
      (aggregate q so rs acc).1 = (acc.1 || rs.any (·.hasMatch)) := by
  intro rs
  induction rs with
  | nil => intro acc; simp [aggregate]
  | cons r rest ih =>
    intro acc
    obtain ⟨m, st⟩ := acc
    simp only [aggregate, List.any_cons]
    by_cases h : ((m || r.hasMatch) && q) = true
    · simp only [h, ↓reduceIte]
      have : (m || r.hasMatch) = true := by
        simp only [Bool.and_eq_true] at h; exact h.1
      simp [this, ← Bool.or_assoc]
    · simp only [h, Bool.false_eq_true, ↓reduceIte]
      rw [ih]
      simp [Bool.or_assoc]

/-- sum of the per-file stats -/
def sumStats (rs : List FileResult) : Stats := rs.foldl (fun a r => a.add (r.stats.getD {})) {}

theorem aggregate_stats :
    ∀ (rs : List FileResult) (m : Bool) (s : Stats),
      (aggregate false true rs (m, some s)).2 = some (rs.foldl (fun a r => a.add (r.stats.getD {})) s) := by
  intro rs
  induction rs with
  | nil => intro m s; simp [aggregate]
  | cons r rest ih =>
    intro m s
    simp only [aggregate, Bool.and_false, Bool.false_eq_true, ↓reduceIte, Option.map_some, List.foldl_cons]
    exact ih _ _

end RgVerif.Lemmas.PrinterModes
