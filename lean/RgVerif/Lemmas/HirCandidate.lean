import RgVerif.Lemmas.HirLiteral
/-
From the invariant to the promise about the candidate-line search:
`extract_sound`, the certificate `covers`, and the leftmost-literal search `fastFind`.
-/
namespace RgVerif.Rx
open RgVerif

/-- every match of `h` contains one of the extracted literals -/
theorem extract_infix {lk : LookFn} {h : Hir} {L : List Lit} {hay : Bytes} {s e : Nat}
    (hL : (extract h).seq = some L) (hm : Matches lk h hay s e) : ∃ l ∈ L, l.bytes <:+: slice hay s e := by
  have := extract_inv h hm
  unfold TSeq.Inv at this
  rw [hL] at this
  obtain ⟨l, hl, hok⟩ := this
  exact ⟨l, hl, Lit.ok_infix hok⟩

/-! ### `covers` -/

theorem isInfixB_iff (a b : Bytes) : isInfixB a b = true ↔ a <:+: b := by
  induction b with
  | nil => simp [isInfixB]
  | cons x xs ih =>
    simp only [isInfixB, Bool.or_eq_true, ih, List.isPrefixOf_iff_prefix]
    constructor
    · rintro (h | h)
      · exact h.isInfix
      · exact List.IsInfix.trans h (List.suffix_cons x xs).isInfix
    · intro h
      rcases List.infix_cons_iff.1 h with h | h
      · exact Or.inl h
      · exact Or.inr h

theorem covers_infix {L L' : List Lit} (hc : covers L L' = true) {w : Bytes}
    (h : ∃ l ∈ L, l.bytes <:+: w) : ∃ l' ∈ L', l'.bytes <:+: w := by
  obtain ⟨l, hl, hin⟩ := h
  unfold covers at hc
  rw [List.all_eq_true] at hc
  have := hc l hl
  rw [List.any_eq_true] at this
  obtain ⟨l', hl', h'⟩ := this
  exact ⟨l', hl', List.IsInfix.trans ((isInfixB_iff _ _).1 h') hin⟩

/-! ### positions -/

/-- an occurrence inside the slice is an occurrence at a position of the haystack -/
theorem infix_slice_pos {l hay : Bytes} {s e : Nat} (he : e ≤ hay.length) (hse : s ≤ e)
    (h : l <:+: slice hay s e) : ∃ q, s ≤ q ∧ q + l.length ≤ e ∧ l <+: hay.drop q := by
  obtain ⟨a, c, hac⟩ := h
  have hlen : (slice hay s e).length = e - s := slice_length hay s e he
  have hl : a.length + l.length + c.length = e - s := by
    rw [← hlen, ← hac]; simp; omega
  refine ⟨s + a.length, by omega, by omega, ?_⟩
  -- hay.drop s = (a ++ l ++ c) ++ rest
  have hd : hay.drop s = (a ++ l ++ c) ++ (hay.drop s).drop (e - s) := by
    rw [hac]; unfold slice; exact (List.take_append_drop _ _).symm
  generalize (hay.drop s).drop (e - s) = rest at hd
  have : hay.drop (s + a.length) = l ++ (c ++ rest) := by
    rw [← List.drop_drop, hd]
    simp [List.append_assoc]
  rw [this]
  exact List.prefix_append _ _

theorem prefix_drop_noByte {l hay : Bytes} {p t : Nat} (h : l <+: hay.drop p) (ht : t ∉ l) :
    NoByteIn t hay p (p + l.length) := by
  intro i h1 h2 h3
  obtain ⟨r, hr⟩ := h
  have : (hay.drop p)[i - p]? = some t := by
    rw [List.getElem?_drop]; rw [show p + (i - p) = i by omega]; exact h3
  rw [← hr, List.getElem?_append_left (by omega)] at this
  exact ht (List.mem_of_getElem? this)

/-! ### the leftmost-literal search -/

theorem fastFindFrom_spec (L : List Lit) (hay : Bytes) :
    ∀ (fuel pos q : Nat) (l' : Lit), pos ≤ q → q ≤ hay.length → hay.length + 1 ≤ fuel + pos →
      l' ∈ L → l'.bytes <+: hay.drop q →
      ∃ p l, fastFindFrom L hay fuel pos = some (p + l.bytes.length) ∧ pos ≤ p ∧ p ≤ q ∧ l ∈ L ∧
        l.bytes <+: hay.drop p := by
  intro fuel
  induction fuel with
  | zero => intro pos q l' h1 h2 h3; omega
  | succ fuel ih =>
    intro pos q l' h1 h2 h3 hl' hpre
    simp only [fastFindFrom]
    split
    · rename_i l hfind
      have hmem := List.mem_of_find?_eq_some hfind
      have hp := List.find?_some hfind
      exact ⟨pos, l, rfl, Nat.le_refl _, h1, hmem, List.isPrefixOf_iff_prefix.1 hp⟩
    · rename_i hnone
      have hne : pos ≠ q := by
        rintro rfl
        have := List.find?_eq_none.1 hnone l' hl'
        exact this (List.isPrefixOf_iff_prefix.2 hpre)
      rw [if_pos (by omega)]
      obtain ⟨p, l, h, hp1, hp2, hp3⟩ := ih (pos + 1) q l' (by omega) h2 (by omega) hl' hpre
      exact ⟨p, l, h, by omega, hp2, hp3⟩

end RgVerif.Rx
