import RgVerif.Lemmas.HirConfig
/-
Context independence (clause (b) of `LineSafe`, DESIGN §4.1): inside a line window `[ls, le]` of a
buffer, an expression matches a span of the buffer iff it matches the corresponding span of the
line taken on its own — provided every look-around assertion of the expression is itself context
independent on that window.
-/
namespace RgVerif.Rx
open RgVerif

theorem slice_slice (buf : Bytes) {ls le a b : Nat} (h1 : ls ≤ a) (h3 : b ≤ le) :
    slice (slice buf ls le) (a - ls) (b - ls) = slice buf a b := by
  apply List.ext_getElem?
  intro j
  rw [slice_getElem?, slice_getElem?, slice_getElem?]
  by_cases hj : j < b - a
  · rw [if_pos (by omega), if_pos (by omega), if_pos hj]
    congr 1; omega
  · rw [if_neg (by omega), if_neg hj]

/-- a look is context independent on the window -/
def CtxLook (lk : LookFn) (buf : Bytes) (ls le : Nat) (k : Look) : Prop :=
  ∀ p, ls ≤ p → p ≤ le → lk k buf p = lk k (slice buf ls le) (p - ls)

/-- one direction only: a look that holds on the window taken alone holds in the buffer -/
def LiftLook (lk : LookFn) (buf : Bytes) (ls le : Nat) (k : Look) : Prop :=
  ∀ p, ls ≤ p → p ≤ le → lk k (slice buf ls le) (p - ls) = true → lk k buf p = true

theorem CtxLook.lift {lk : LookFn} {buf : Bytes} {ls le : Nat} {k : Look} (h : CtxLook lk buf ls le k) :
    LiftLook lk buf ls le k := fun p h1 h2 hk => by rw [h p h1 h2]; exact hk

mutual
/-- every look of the tree satisfies `p` -/
def allLooks (p : Look → Bool) : Hir → Bool
  | .look k => p k
  | .rep _ _ _ sub => allLooks p sub
  | .cap _ sub => allLooks p sub
  | .concat xs => allLooksL p xs
  | .alt xs => allLooksL p xs
  | _ => true
def allLooksL (p : Look → Bool) : HirList → Bool
  | .nil => true
  | .cons h t => allLooks p h && allLooksL p t
end

section
variable {lk : LookFn} {buf : Bytes} {ls le : Nat} {ok : Look → Bool}

mutual
theorem ctx_fwd (hle : le ≤ buf.length) (hok : ∀ k, ok k = true → CtxLook lk buf ls le k) :
    ∀ (h : Hir) {s e : Nat}, allLooks ok h = true → ls ≤ s → e ≤ le → Matches lk h buf s e →
      Matches lk h (slice buf ls le) (s - ls) (e - ls)
  | .empty, s, _, _, h1, h2, .empty _ => .empty (by rw [slice_length buf ls le hle]; omega)
  | .lit bs, s, _, _, h1, h2, .lit hl hsl => by
      rw [show s + bs.length - ls = (s - ls) + bs.length by omega]
      refine .lit (by rw [slice_length buf ls le hle]; omega) ?_
      rw [show (s - ls) + bs.length = s + bs.length - ls by omega, slice_slice buf h1 h2]
      exact hsl
  | .classB rs, s, _, _, h1, h2, .classB (b := b) hget hin => by
      rw [show s + 1 - ls = (s - ls) + 1 by omega]
      refine .classB ?_ hin
      rw [slice_getElem?, if_pos (by omega), show ls + (s - ls) = s by omega]
      exact hget
  | .classU rs, s, e, _, h1, h2, hm => by
      cases hm with
      | classU hin hsc hl hsl =>
        rename_i c
        rw [show s + (utf8Enc c).length - ls = (s - ls) + (utf8Enc c).length by omega]
        refine .classU hin hsc (by rw [slice_length buf ls le hle]; omega) ?_
        rw [show (s - ls) + (utf8Enc c).length = s + (utf8Enc c).length - ls by omega, slice_slice buf h1 h2]
        exact hsl
  | .look k, s, _, ha, h1, h2, .look _ hk => by
      simp only [allLooks] at ha
      exact .look (by rw [slice_length buf ls le hle]; omega) (by rw [← hok k ha s h1 h2]; exact hk)
  | .rep _ _ _ sub, s, e, ha, h1, h2, .rep n hmin hmax hr => by
      simp only [allLooks] at ha
      exact .rep n hmin hmax (ctx_fwd_rep hle hok sub ha h1 h2 hr)
  | .cap _ sub, s, e, ha, h1, h2, .cap hm => by
      simp only [allLooks] at ha
      exact .cap (ctx_fwd hle hok sub ha h1 h2 hm)
  | .concat xs, s, e, ha, h1, h2, .concat hm => by
      simp only [allLooks] at ha
      exact .concat (ctx_fwd_seq hle hok xs ha h1 h2 hm)
  | .alt xs, s, e, ha, h1, h2, .alt hm => by
      simp only [allLooks] at ha
      exact .alt (ctx_fwd_any hle hok xs ha h1 h2 hm)
theorem ctx_fwd_seq (hle : le ≤ buf.length) (hok : ∀ k, ok k = true → CtxLook lk buf ls le k) :
    ∀ (xs : HirList) {s e : Nat}, allLooksL ok xs = true → ls ≤ s → e ≤ le → MatchesSeq lk xs buf s e →
      MatchesSeq lk xs (slice buf ls le) (s - ls) (e - ls)
  | .nil, s, _, _, h1, h2, .nil _ => .nil (by rw [slice_length buf ls le hle]; omega)
  | .cons h t, s, e, ha, h1, h2, .cons (m := m) hm1 hm2 => by
      simp only [allLooksL, Bool.and_eq_true] at ha
      have a := Matches.span hm1
      have b := MatchesSeq.span hm2
      exact .cons (ctx_fwd hle hok h ha.1 h1 (by omega) hm1) (ctx_fwd_seq hle hok t ha.2 (by omega) h2 hm2)
theorem ctx_fwd_any (hle : le ≤ buf.length) (hok : ∀ k, ok k = true → CtxLook lk buf ls le k) :
    ∀ (xs : HirList) {s e : Nat}, allLooksL ok xs = true → ls ≤ s → e ≤ le → MatchesAny lk xs buf s e →
      MatchesAny lk xs (slice buf ls le) (s - ls) (e - ls)
  | .cons h t, s, e, ha, h1, h2, .head hm => by
      simp only [allLooksL, Bool.and_eq_true] at ha
      exact .head (ctx_fwd hle hok h ha.1 h1 h2 hm)
  | .cons h t, s, e, ha, h1, h2, .tail hm => by
      simp only [allLooksL, Bool.and_eq_true] at ha
      exact .tail (ctx_fwd_any hle hok t ha.2 h1 h2 hm)
theorem ctx_fwd_rep (hle : le ≤ buf.length) (hok : ∀ k, ok k = true → CtxLook lk buf ls le k) :
    ∀ (sub : Hir) {n s e : Nat}, allLooks ok sub = true → ls ≤ s → e ≤ le → MatchesRep lk sub buf n s e →
      MatchesRep lk sub (slice buf ls le) n (s - ls) (e - ls)
  | _, _, s, _, _, h1, h2, .zero _ => .zero (by rw [slice_length buf ls le hle]; omega)
  | sub, _, s, e, ha, h1, h2, .succ (m := m) hm1 hm2 => by
      have a := Matches.span hm1
      have b := MatchesRep.span hm2
      exact .succ (ctx_fwd hle hok sub ha h1 (by omega) hm1) (ctx_fwd_rep hle hok sub ha (by omega) h2 hm2)
end

mutual
theorem ctx_bwd (hll : ls ≤ le) (hle : le ≤ buf.length) (hok : ∀ k, ok k = true → LiftLook lk buf ls le k) :
    ∀ (h : Hir) {a b : Nat}, allLooks ok h = true → Matches lk h (slice buf ls le) a b →
      Matches lk h buf (ls + a) (ls + b)
  | .empty, a, _, _, .empty ha => .empty (by rw [slice_length buf ls le hle] at ha; omega)
  | .lit bs, a, _, _, .lit hl hsl => by
      rw [slice_length buf ls le hle] at hl
      rw [show ls + (a + bs.length) = (ls + a) + bs.length by omega]
      refine .lit (by omega) ?_
      have := slice_slice buf (ls := ls) (le := le) (a := ls + a) (b := ls + a + bs.length) (by omega) (by omega)
      rw [← this, show ls + a - ls = a by omega, show ls + a + bs.length - ls = a + bs.length by omega]
      exact hsl
  | .classB rs, a, _, _, .classB (b := c) hget hin => by
      rw [show ls + (a + 1) = (ls + a) + 1 by omega]
      refine .classB ?_ hin
      rw [slice_getElem?] at hget
      split at hget
      · exact hget
      · cases hget
  | .classU rs, a, b, _, hm => by
      cases hm with
      | classU hin hsc hl hsl =>
        rename_i c
        rw [slice_length buf ls le hle] at hl
        rw [show ls + (a + (utf8Enc c).length) = (ls + a) + (utf8Enc c).length by omega]
        refine .classU hin hsc (by omega) ?_
        have := slice_slice buf (ls := ls) (le := le) (a := ls + a) (b := ls + a + (utf8Enc c).length) (by omega) (by omega)
        rw [← this, show ls + a - ls = a by omega, show ls + a + (utf8Enc c).length - ls = a + (utf8Enc c).length by omega]
        exact hsl
  | .look k, a, _, hal, .look ha hk => by
      simp only [allLooks] at hal
      rw [slice_length buf ls le hle] at ha
      refine .look (by omega) ?_
      apply hok k hal (ls + a) (by omega) (by omega)
      rw [show ls + a - ls = a by omega]
      exact hk
  | .rep _ _ _ sub, a, b, hal, .rep n hmin hmax hr => by
      simp only [allLooks] at hal
      exact .rep n hmin hmax (ctx_bwd_rep hll hle hok sub hal hr)
  | .cap _ sub, a, b, hal, .cap hm => by
      simp only [allLooks] at hal
      exact .cap (ctx_bwd hll hle hok sub hal hm)
  | .concat xs, a, b, hal, .concat hm => by
      simp only [allLooks] at hal
      exact .concat (ctx_bwd_seq hll hle hok xs hal hm)
  | .alt xs, a, b, hal, .alt hm => by
      simp only [allLooks] at hal
      exact .alt (ctx_bwd_any hll hle hok xs hal hm)
theorem ctx_bwd_seq (hll : ls ≤ le) (hle : le ≤ buf.length) (hok : ∀ k, ok k = true → LiftLook lk buf ls le k) :
    ∀ (xs : HirList) {a b : Nat}, allLooksL ok xs = true → MatchesSeq lk xs (slice buf ls le) a b →
      MatchesSeq lk xs buf (ls + a) (ls + b)
  | .nil, a, _, _, .nil ha => .nil (by rw [slice_length buf ls le hle] at ha; omega)
  | .cons h t, a, b, hal, .cons hm1 hm2 => by
      simp only [allLooksL, Bool.and_eq_true] at hal
      exact .cons (ctx_bwd hll hle hok h hal.1 hm1) (ctx_bwd_seq hll hle hok t hal.2 hm2)
theorem ctx_bwd_any (hll : ls ≤ le) (hle : le ≤ buf.length) (hok : ∀ k, ok k = true → LiftLook lk buf ls le k) :
    ∀ (xs : HirList) {a b : Nat}, allLooksL ok xs = true → MatchesAny lk xs (slice buf ls le) a b →
      MatchesAny lk xs buf (ls + a) (ls + b)
  | .cons h t, a, b, hal, .head hm => by
      simp only [allLooksL, Bool.and_eq_true] at hal
      exact .head (ctx_bwd hll hle hok h hal.1 hm)
  | .cons h t, a, b, hal, .tail hm => by
      simp only [allLooksL, Bool.and_eq_true] at hal
      exact .tail (ctx_bwd_any hll hle hok t hal.2 hm)
theorem ctx_bwd_rep (hll : ls ≤ le) (hle : le ≤ buf.length) (hok : ∀ k, ok k = true → LiftLook lk buf ls le k) :
    ∀ (sub : Hir) {n a b : Nat}, allLooks ok sub = true → MatchesRep lk sub (slice buf ls le) n a b →
      MatchesRep lk sub buf n (ls + a) (ls + b)
  | _, _, a, _, _, .zero ha => .zero (by rw [slice_length buf ls le hle] at ha; omega)
  | sub, _, a, b, hal, .succ hm1 hm2 =>
      .succ (ctx_bwd hll hle hok sub hal hm1) (ctx_bwd_rep hll hle hok sub hal hm2)
end

/-- **Context independence**: on a window `[ls, le]` of the buffer on which all looks of `h` are
context independent, `h` matches a span of the buffer iff it matches that span of the window. -/
theorem matches_ctx_iff (hll : ls ≤ le) (hle : le ≤ buf.length)
    (hok : ∀ k, ok k = true → CtxLook lk buf ls le k) (h : Hir) (hal : allLooks ok h = true)
    {s e : Nat} (h1 : ls ≤ s) (hse : s ≤ e) (h2 : e ≤ le) :
    Matches lk h buf s e ↔ Matches lk h (slice buf ls le) (s - ls) (e - ls) := by
  constructor
  · exact ctx_fwd hle hok h hal h1 h2
  · intro hm
    have hsp := Matches.span hm
    have := ctx_bwd hll hle (fun k hk => (hok k hk).lift) h hal hm
    rwa [show ls + (s - ls) = s by omega, show ls + (e - ls) = e by omega] at this

end
/-- **Lifting**: if every look of `h` that holds on the window alone also holds in the buffer, a match of the
window taken alone is a match of the buffer. -/
theorem matches_lift {lk : LookFn} {buf : Bytes} {ls le : Nat} {ok : Look → Bool} (hll : ls ≤ le) (hle : le ≤ buf.length)
    (hok : ∀ k, ok k = true → LiftLook lk buf ls le k) (h : Hir) (hal : allLooks ok h = true)
    {s e : Nat} (h1 : ls ≤ s) (hse : s ≤ e)
    (hm : Matches lk h (slice buf ls le) (s - ls) (e - ls)) : Matches lk h buf s e := by
  have := ctx_bwd hll hle hok h hal hm
  rwa [show ls + (s - ls) = s by omega, show ls + (e - ls) = e by omega] at this

/-- the window `[ls, le)` is one line's content in the buffer: bounded on both sides by the
terminator `t` or by the ends of the buffer -/
structure IsLine (t : Nat) (buf : Bytes) (ls le : Nat) : Prop where
  le_len : le ≤ buf.length
  ls_le : ls ≤ le
  before : ls = 0 ∨ buf[ls - 1]? = some t
  after : le = buf.length ∨ buf[le]? = some t

/-- the general shape of a window: preceded by `\n` (or the buffer start), followed by the buffer end or
by a byte from a set `fol` (`\n` for LF lines; `\n` or `\r` for the content of a CRLF line) -/
structure Win (fol : Nat → Bool) (buf : Bytes) (ls le : Nat) : Prop where
  le_len : le ≤ buf.length
  ls_le : ls ≤ le
  before : ls = 0 ∨ buf[ls - 1]? = some 10
  after : le = buf.length ∨ ∃ r, buf[le]? = some r ∧ fol r = true

theorem IsLine.toWin {buf : Bytes} {ls le : Nat} (hl : IsLine 10 buf ls le) : Win (· == 10) buf ls le :=
  ⟨hl.le_len, hl.ls_le, hl.before, hl.after.imp id (fun h => ⟨10, h, rfl⟩)⟩

/-- looks whose value at a position of a line does not depend on what surrounds the line, for the
terminator `\n`: the LF line anchors and the six ASCII word assertions -/
def safeLookLF : Look → Bool
  | .StartLF | .EndLF | .WordAscii | .WordAsciiNegate | .WordStartAscii | .WordEndAscii
  | .WordStartHalfAscii | .WordEndHalfAscii => true
  | _ => false

section
variable {buf : Bytes} {ls le : Nat}

theorem ctx_prev {p : Nat} (h1 : ls < p) (h2 : p ≤ le) :
    (slice buf ls le).getD (p - ls - 1) 0 = buf.getD (p - 1) 0 := by
  rw [List.getD_eq_getElem?_getD, List.getD_eq_getElem?_getD, slice_getElem?, if_pos (by omega)]
  congr 2; omega

theorem ctx_cur {p : Nat} (h1 : ls ≤ p) (h2 : p < le) :
    (slice buf ls le).getD (p - ls) 0 = buf.getD p 0 := by
  rw [List.getD_eq_getElem?_getD, List.getD_eq_getElem?_getD, slice_getElem?, if_pos (by omega)]
  congr 2; omega

theorem ctx_len (hlen : le ≤ buf.length) : (slice buf ls le).length = le - ls :=
  slice_length buf ls le hlen

theorem ctx_before10 (hbefore : ls = 0 ∨ buf[ls - 1]? = some 10) (h : ls ≠ 0) : buf.getD (ls - 1) 0 = 10 := by
  rcases hbefore with h0 | hb
  · exact absurd h0 h
  · rw [List.getD_eq_getElem?_getD, hb]; rfl

theorem ctx_after10 (hl : IsLine 10 buf ls le) (h : le ≠ buf.length) : buf.getD le 0 = 10 := by
  rcases hl.after with h0 | hb
  · exact absurd h0 h
  · rw [List.getD_eq_getElem?_getD, hb]; rfl

/-- "start of line" -/
theorem ctx_startLF (hl : IsLine 10 buf ls le) {p : Nat} (h1 : ls ≤ p) (h2 : p ≤ le) :
    (p == 0 || buf.getD (p - 1) 0 == 10) = (p - ls == 0 || (slice buf ls le).getD (p - ls - 1) 0 == 10) := by
  by_cases hp : p = ls
  · subst hp
    by_cases h0 : p = 0
    · subst h0; rfl
    · rw [ctx_before10 hl.before h0, Nat.sub_self]; simp
  · rw [ctx_prev (by omega) h2]
    generalize buf.getD (p - 1) 0 = x
    have a : (p == 0) = false := beq_eq_false_iff_ne.2 (by omega)
    have b : (p - ls == 0) = false := beq_eq_false_iff_ne.2 (by omega)
    rw [a, b]

/-- "end of line" -/
theorem ctx_endLF (hl : IsLine 10 buf ls le) {p : Nat} (h1 : ls ≤ p) (h2 : p ≤ le) :
    (p == buf.length || buf.getD p 0 == 10) =
      (p - ls == (slice buf ls le).length || (slice buf ls le).getD (p - ls) 0 == 10) := by
  rw [ctx_len hl.le_len]
  by_cases hp : p = le
  · subst hp
    have b : (p - ls == p - ls) = true := beq_self_eq_true _
    rw [b, Bool.true_or]
    by_cases h0 : p = buf.length
    · rw [beq_iff_eq.2 h0]; rfl
    · rw [ctx_after10 hl h0]; simp
  · rw [ctx_cur h1 (by omega)]
    generalize buf.getD p 0 = x
    have a : (p == buf.length) = false := beq_eq_false_iff_ne.2 (by have := hl.le_len; omega)
    have b : (p - ls == le - ls) = false := beq_eq_false_iff_ne.2 (by omega)
    rw [a, b]

/-- "word byte before" -/
theorem ctx_wordBefore {fol : Nat → Bool} (hl : Win fol buf ls le) {p : Nat} (h1 : ls ≤ p) (h2 : p ≤ le) :
    (decide (p > 0) && isWordByte (buf.getD (p - 1) 0)) =
      (decide (p - ls > 0) && isWordByte ((slice buf ls le).getD (p - ls - 1) 0)) := by
  by_cases hp : p = ls
  · subst hp
    have b : decide (p - p > 0) = false := by simp
    rw [b, Bool.false_and]
    by_cases h0 : p = 0
    · subst h0; rfl
    · rw [ctx_before10 hl.before h0]; simp [isWordByte]
  · rw [ctx_prev (by omega) h2]
    generalize buf.getD (p - 1) 0 = x
    have a : decide (p > 0) = true := decide_eq_true (by omega)
    have b : decide (p - ls > 0) = true := decide_eq_true (by omega)
    rw [a, b]

/-- "word byte after" -/
theorem ctx_wordAfter {fol : Nat → Bool} (hl : Win fol buf ls le)
    (hf : ∀ r, fol r = true → isWordByte r = false) {p : Nat} (h1 : ls ≤ p) (h2 : p ≤ le) :
    (decide (p < buf.length) && isWordByte (buf.getD p 0)) =
      (decide (p - ls < (slice buf ls le).length) && isWordByte ((slice buf ls le).getD (p - ls) 0)) := by
  rw [ctx_len hl.le_len]
  by_cases hp : p = le
  · subst hp
    have b : decide (p - ls < p - ls) = false := by simp
    rw [b, Bool.false_and]
    by_cases h0 : p = buf.length
    · have a : decide (p < buf.length) = false := by simp [h0]
      rw [a, Bool.false_and]
    · rcases hl.after with h | ⟨r, hr, hfr⟩
      · exact absurd h h0
      · have : buf.getD p 0 = r := by rw [List.getD_eq_getElem?_getD, hr]; rfl
        rw [this, hf r hfr, Bool.and_false]
  · rw [ctx_cur h1 (by omega)]
    generalize buf.getD p 0 = x
    have a : decide (p < buf.length) = true := decide_eq_true (by have := hl.le_len; omega)
    have b : decide (p - ls < le - ls) = true := decide_eq_true (by omega)
    rw [a, b]

/-- the LF anchors and the ASCII word assertions are context independent on a line -/
theorem lookAt_ctx_lf (isWord : Nat → Bool) (hl : IsLine 10 buf ls le) (k : Look) (hk : safeLookLF k = true) :
    CtxLook (lookAt isWord) buf ls le k := by
  intro p h1 h2
  have e1 := ctx_startLF hl h1 h2
  have e2 := ctx_endLF hl h1 h2
  have e3 := ctx_wordBefore hl.toWin h1 h2
  have hf : ∀ r, (r == 10) = true → isWordByte r = false := by
    intro r hr
    have : r = 10 := by simpa using hr
    subst this; rfl
  have e4 := ctx_wordAfter hl.toWin hf h1 h2
  cases k <;> simp only [safeLookLF] at hk <;> first | (cases hk) | skip
  all_goals simp only [lookAt]
  · exact e1
  · exact e2
  · rw [e3, e4]
  · rw [e3, e4]
  · rw [e3, e4]
  · rw [e3, e4]
  · rw [e3]
  · rw [e4]

end
end RgVerif.Rx
