import RgVerif.Lemmas.GitClass
import RgVerif.Lemmas.GlobDocStarP
/-
Line level of C04 for `**` mixed with bracket classes: cores [`**/`] P₀ (`/**/` Pᵢ)* [`/**`] whose segments are
made of wildcard runs and classes (`**/*.[oa]`, `src/**/[a-z]*.rs`, `build/**`).  Same argument as
`GitStar.lean`, with `wm_pieces_pre` in place of `wm_simple_pre`.
-/
namespace RgVerif.Glob
open RgVerif RgVerif.GlobDoc

theorem poIndep_pieces_append (ci pn : Bool) (ps : List Piece) (rest : List Nat)
    (hhead : ps = [] ∨ ∃ s ps', ps = .cls s :: ps' ∧ s.wf = true ∧ s.nz = true)
    (hind : PoIndep ci pn rest) : PoIndep ci pn (piecesText ps ++ rest) := by
  rcases hhead with rfl | ⟨s, ps', rfl, hw, hnz⟩
  · simpa [piecesText] using hind
  · intro po po' t
    rw [piecesText_cons]
    simp only [Piece.text, List.cons_append, List.append_assoc]
    rw [wm_class ci pn po s hw hnz, wm_class ci pn po' s hw hnz]

theorem wm_pieces_pre (ci pn : Bool) (ps : List Piece) (rest : List Nat) (hok : piecesOk true ps = true)
    (hg : ps.all (Piece.gitOk ci) = true) (hhead : rest.head? ≠ some 42) (hind : PoIndep ci pn rest)
    (po : Bool) (t : Bytes) :
    GitSpec.wm ci pn po (piecesText ps ++ rest) t =
      amK (wmOpts ci pn) ((piecesToks true ps).map trAtom) (fun r => GitSpec.wm ci pn true rest r) t := by
  induction ps generalizing po t with
  | nil => simp only [piecesText, piecesToks, List.flatMap_nil, List.nil_append, List.map_nil, amK]
           exact hind po true t
  | cons p ps' ih =>
    have hps := piecesOk_tail true p ps' hok
    simp only [List.all_cons, Bool.and_eq_true] at hg
    have ih' := fun po t => ih hps hg.2 po t
    rw [piecesText_cons, piecesToks_cons, List.map_append, List.append_assoc, amK_append]
    cases p with
    | run g =>
      simp only [Piece.text, Piece.toks]
      have hci : ci = true → 92 ∉ g := by
        intro h hm
        have := hg.1
        simp [Piece.gitOk, h, hm] at this
      have hind' : PoIndep ci pn (piecesText ps' ++ rest) := by
        apply poIndep_pieces_append ci pn ps' rest _ hind
        cases ps' with
        | nil => exact Or.inl rfl
        | cons q qs =>
          cases q with
          | run g' => simp [piecesOk] at hok
          | cls s =>
            simp only [piecesOk, Bool.and_eq_true] at hok
            have := hg.2
            simp only [List.all_cons, Piece.gitOk, Bool.and_eq_true] at this
            exact Or.inr ⟨s, qs, rfl, hok.1.2, this.1.1.1⟩
      rw [wm_simple_pre ci pn g (piecesText ps' ++ rest) (piecesOk_run true g ps' hok) hci
        (piecesText_append_head true g ps' rest hok hhead) hind' po t]
      congr 1
      funext r
      exact ih' true r
    | cls s =>
      have hw : s.wf = true := by simp only [piecesOk, Bool.and_eq_true] at hok; exact hok.1
      have hgs := hg.1
      simp only [Piece.gitOk, Bool.and_eq_true, Bool.not_eq_eq_eq_not, Bool.not_true] at hgs
      simp only [Piece.text, Piece.toks, List.cons_append, List.map_cons, List.map_nil, trAtom, List.append_assoc]
      rw [wm_class ci pn po s hw hgs.1.1]
      cases t with
      | nil => simp [amK]
      | cons b t' =>
        simp only [amK]
        rw [cls_mem_eq ci pn s hw (fun h => by simpa [h] using hgs.1.2) b, ih' false t']
        by_cases hb : b = 47
        · subst hb
          have h47 : clsHas (wmOpts ci pn) s.isNeg s.ranges 47 = false := hgs.2
          simp [h47]
        · have : (b == 47) = false := by simpa using hb
          simp [this]

/-! ### `wildmatch` on the whole grammar -/

theorem poIndep_tailP (ci : Bool) (segs : List (List Piece)) (post : Bool) :
    PoIndep ci true (tailTextP segs post) := by
  cases segs with
  | nil => cases post <;> simp only [tailTextP, ↓reduceIte, Bool.false_eq_true]
           · exact poIndep_nil ci true
           · exact poIndep_slash ci true _
  | cons s segs => exact poIndep_slash ci true _

theorem wm_seg_tailP (ci : Bool) (s : List Piece) (tail : List Nat) (X : List Atom)
    (hs : piecesOk true s = true) (hg : s.all (Piece.gitOk ci) = true) (hhead : tail.head? ≠ some 42)
    (hind : PoIndep ci true tail)
    (htail : ∀ r, GitSpec.wm ci true true tail r = atomsMatch (wmOpts ci true) X r) (po : Bool) (r : Bytes) :
    GitSpec.wm ci true po (piecesText s ++ tail) r =
      atomsMatch (wmOpts ci true) ((piecesToks true s).flatMap trAtoms ++ X) r := by
  rw [wm_pieces_pre ci true s tail hs hg hhead hind po r, flatMap_trAtoms_pieces true s hs, atomsMatch_append]
  congr 1
  funext r'
  exact htail r'

theorem wm_tailP (ci : Bool) (segs : List (List Piece)) (post : Bool)
    (hw : segs.all (piecesOk true) = true) (hg : ∀ s ∈ segs, s.all (Piece.gitOk ci) = true) (t : Bytes) :
    GitSpec.wm ci true true (tailTextP segs post) t =
      atomsMatch (wmOpts ci true) ((tailToksP true segs post).flatMap trAtoms) t := by
  induction segs generalizing t with
  | nil =>
    cases post
    · simp [tailTextP, tailToksP, wm_nil, atomsMatch]
    · simp only [tailTextP, ↓reduceIte, tailToksP, List.flatMap_cons, List.flatMap_nil, List.append_nil, trAtoms]
      rw [wm_step ci true true 47 [42, 42] t (by decide) (by decide) (by simp)]
      cases t with
      | nil => simp [tokOf, atomsMatch]
      | cons b t' =>
        simp only [tokOf, Nat.reduceBEq, Bool.false_eq_true, ↓reduceIte, BEq.rfl, wm_dstar_end,
          Bool.and_true, atomsMatch]
        have hany : ((splits t').any fun xr => List.isEmpty xr.2) = true := by
          simp only [List.any_eq_true, Prod.exists]
          exact ⟨t', [], mem_splits_iff.mpr (by simp), rfl⟩
        rw [hany, Bool.and_true]
  | cons s segs ih =>
    simp only [List.all_cons, Bool.and_eq_true] at hw
    have hg' : ∀ s' ∈ segs, s'.all (Piece.gitOk ci) = true := fun s' hs' => hg s' (by simp [hs'])
    have ih' := fun r => ih hw.2 hg' r
    simp only [tailTextP, List.cons_append, List.nil_append, List.append_assoc, tailToksP, List.flatMap_cons,
      trAtoms, List.flatMap_append]
    rw [wm_step ci true true 47 _ t (by decide) (by decide) (by simp)]
    cases t with
    | nil => simp [tokOf, atomsMatch]
    | cons b t' =>
      simp only [tokOf, Nat.reduceBEq, Bool.false_eq_true, ↓reduceIte, BEq.rfl, atomsMatch]
      congr 1
      rw [wm_dstar_slash, dirs_any_eq]
      congr 1
      funext r
      exact wm_seg_tailP ci s _ _ hw.1 (hg s (by simp)) (tailTextP_head segs post)
        (poIndep_tailP ci segs post) ih' true r

def StarGlobP.gitOk (ci : Bool) (sg : StarGlobP) : Bool :=
  sg.s0.all (Piece.gitOk ci) && sg.segs.all fun s => s.all (Piece.gitOk ci)

theorem wm_starGlobP (ci : Bool) (sg : StarGlobP) (hw : sg.wf true = true) (hg : sg.gitOk ci = true) (t : Bytes) :
    GitSpec.wm ci true true sg.text t =
      atomsMatch (wmOpts ci true) ((sg.toks true).flatMap trAtoms) t := by
  simp only [StarGlobP.wf, Bool.and_eq_true] at hw
  obtain ⟨⟨hs0, hsegs⟩, _⟩ := hw
  simp only [StarGlobP.gitOk, Bool.and_eq_true, List.all_eq_true] at hg
  have hg0 : sg.s0.all (Piece.gitOk ci) = true := by simpa [List.all_eq_true] using hg.1
  have hgs : ∀ s ∈ sg.segs, s.all (Piece.gitOk ci) = true := fun s hs => by
    simpa [List.all_eq_true] using hg.2 s hs
  have hbody : ∀ po r, GitSpec.wm ci true po (piecesText sg.s0 ++ tailTextP sg.segs sg.post) r =
      atomsMatch (wmOpts ci true)
        ((piecesToks true sg.s0).flatMap trAtoms ++ (tailToksP true sg.segs sg.post).flatMap trAtoms) r :=
    fun po r => wm_seg_tailP ci sg.s0 _ _ hs0 hg0 (tailTextP_head sg.segs sg.post)
      (poIndep_tailP ci sg.segs sg.post) (fun r => wm_tailP ci sg.segs sg.post hsegs hgs r) po r
  unfold StarGlobP.text StarGlobP.toks
  cases hp : sg.pre
  · simp only [Bool.false_eq_true, ↓reduceIte, List.nil_append, List.flatMap_append]
    exact hbody true t
  · simp only [↓reduceIte, List.cons_append, List.nil_append, List.flatMap_append, List.flatMap_cons,
      List.flatMap_nil, List.append_nil, trAtoms, trAtom, List.singleton_append, atomsMatch]
    rw [wm_dstar_slash, dirs_any_eq]
    congr 1
    funext r
    exact hbody true r

end RgVerif.Glob

namespace RgVerif.Gitignore
open RgVerif RgVerif.Glob RgVerif.GlobDoc

/-- conditions on such a core -/
structure StarCoreOKP (ci : Bool) (sg : StarGlobP) : Prop where
  wf : sg.wf true = true
  git : sg.gitOk ci = true
  slash : sg.text.contains 47 = true
  head : ∃ c0 tl, sg.text = c0 :: tl ∧ c0 ≠ 92 ∧ c0 ≠ 33 ∧ c0 ≠ 47 ∧ c0 ≠ 35
  last : ∃ cl, sg.text.getLast? = some cl ∧ cl ≠ 47 ∧ cl ≠ 92 ∧ cl ≠ 32 ∧ isWs cl = false
  endsDstar : endsWith sg.text [47, 42, 42] = sg.post
  dpos : GitSpec.okDstarPos sg.text = true

def okStarCoreP (ci : Bool) (sg : StarGlobP) : Bool :=
  sg.wf true && sg.gitOk ci && sg.text.contains 47 &&
  (match sg.text.head? with
   | some c0 => c0 != 92 && c0 != 33 && c0 != 47 && c0 != 35
   | none => false) &&
  (match sg.text.getLast? with
   | some cl => cl != 47 && cl != 92 && cl != 32 && !isWs cl
   | none => false) &&
  (endsWith sg.text [47, 42, 42] == sg.post) && GitSpec.okDstarPos sg.text

theorem starCoreOKP_of (ci : Bool) (sg : StarGlobP) (h : okStarCoreP ci sg = true) : StarCoreOKP ci sg := by
  unfold okStarCoreP at h
  simp only [Bool.and_eq_true, beq_iff_eq] at h
  obtain ⟨⟨⟨⟨⟨⟨h1, h2⟩, h3⟩, h4⟩, h5⟩, h6⟩, h7⟩ := h
  refine ⟨h1, h2, h3, ?_, ?_, h6, h7⟩
  · cases hc : sg.text with
    | nil => simp [hc] at h4
    | cons c0 tl =>
      simp only [hc, List.head?_cons, Bool.and_eq_true, bne_iff_ne, ne_eq] at h4
      exact ⟨c0, tl, rfl, h4.1.1.1, h4.1.1.2, h4.1.2, h4.2⟩
  · cases hl : sg.text.getLast? with
    | none => simp [hl] at h5
    | some cl =>
      simp only [hl, Bool.and_eq_true, bne_iff_ne, ne_eq, Bool.not_eq_eq_eq_not, Bool.not_true] at h5
      exact ⟨cl, rfl, h5.1.1.1, h5.1.1.2, h5.1.2, h5.2⟩

/-- the glob ripgrep compiles: a final `/**` becomes `/**/*` -/
def rgStarP (sg : StarGlobP) : StarGlobP :=
  if sg.post then { sg with segs := sg.segs ++ [[.run [42]]], post := false } else sg

theorem tailTextP_post (segs : List (List Piece)) :
    tailTextP segs true ++ [47, 42] = tailTextP (segs ++ [[.run [42]]]) false := by
  induction segs with
  | nil => rfl
  | cons s segs ih => simp only [tailTextP, List.cons_append, List.append_assoc, ih]

theorem tailToksP_post (segs : List (List Piece)) :
    tailToksP true (segs ++ [[.run [42]]]) false = tailToksP true segs false ++ [.recZero, .star] := by
  induction segs with
  | nil => rfl
  | cons s segs ih => simp [tailToksP, ih]

theorem tailToksP_true (segs : List (List Piece)) :
    tailToksP true segs true = tailToksP true segs false ++ [.recSuffix] := by
  induction segs with
  | nil => rfl
  | cons s segs ih => simp [tailToksP, ih]

theorem rgStarP_text (sg : StarGlobP) :
    (rgStarP sg).text = sg.text ++ (if sg.post then [47, 42] else []) := by
  unfold rgStarP
  cases hp : sg.post
  · simp
  · simp only [↓reduceIte, StarGlobP.text, List.append_assoc]
    rw [← tailTextP_post]; simp [hp]

theorem rgStarP_wf (sg : StarGlobP) (h : sg.wf true = true) : (rgStarP sg).wf true = true := by
  unfold rgStarP
  cases hp : sg.post
  · simpa using h
  · simp only [StarGlobP.wf, Bool.and_eq_true] at h ⊢
    simp only [↓reduceIte, List.all_append, List.all_cons, List.all_nil, Bool.and_true, Bool.and_eq_true]
    refine ⟨⟨h.1.1, h.1.2, by decide⟩, by simp⟩

/-- `/**/*` and `/**` select the same paths -/
theorem atoms_rgStarP (o : DocOpts) (hls : o.ls = true) (sg : StarGlobP) (p : Bytes) :
    atomsMatch o (((rgStarP sg).toks true).flatMap trAtoms) p =
      atomsMatch o ((sg.toks true).flatMap trAtoms) p := by
  have key : ∀ r, atomsMatch o ([Tok.recZero, Tok.star].flatMap trAtoms) r =
      atomsMatch o ([Tok.recSuffix].flatMap trAtoms) r := by
    intro r
    have := atoms_rgStar o hls ⟨false, [], [], true⟩ r
    simpa [rgStar, StarGlob.toks, tailToks, simpleToks, tokOf] using this
  unfold rgStarP
  cases hp : sg.post
  · simp
  · simp only [↓reduceIte, StarGlobP.toks, tailToksP_post, tailToksP_true, hp, List.flatMap_append,
      ← List.append_assoc]
    rw [atomsMatch_append, atomsMatch_append]
    congr 1
    funext r
    exact key r

theorem actualOf_starP (abs : Bool) (sg : StarGlobP) (ci : Bool) (h : StarCoreOKP ci sg) :
    actualOf abs sg.text = (rgStarP sg).text := by
  unfold actualOf
  simp only [h.slash, Bool.not_true, Bool.and_false, Bool.false_eq_true, ↓reduceIte, h.endsDstar]
  rw [rgStarP_text]
  cases sg.post <;> simp

/-- ripgrep's glob for such a line -/
def rgGlobSP (ci neg abs dir : Bool) (sg : StarGlobP) : GiGlob :=
  { original := lineOf neg abs dir sg.text, actual := (rgStarP sg).text,
    isWhitelist := neg, isOnlyDir := dir,
    glob := { opts := giOpts ci, tokens := ((rgStarP sg).toks true).map Token.s } }

theorem addLine_starP (ci neg abs dir : Bool) (sg : StarGlobP) (h : StarCoreOKP ci sg) :
    addLine ci (lineOf neg abs dir sg.text) = .glob (rgGlobSP ci neg abs dir sg) := by
  obtain ⟨c0, tl, hcore, h92, h33, h47, h35⟩ := h.head
  obtain ⟨cl, hlast, hl47, hl92, hl32, hlws⟩ := h.last
  unfold addLine
  rw [lineOf_startsWith35 neg abs dir hcore h35]
  simp only [Bool.false_eq_true, ↓reduceIte]
  rw [lineOf_trim neg abs dir hlast hlws hl32, lineOf_ne_nil neg abs dir hcore]
  simp only [Bool.false_eq_true, ↓reduceIte]
  rw [lineOf_splitPrefix neg abs dir hcore ⟨h92, h33, h47⟩]
  have hne2 : (sg.text ++ (if dir then [47] else [])).isEmpty = false := by
    rw [hcore]; simp
  simp only [hne2, Bool.false_eq_true, ↓reduceIte]
  rw [splitDirSlash_core dir hlast ⟨hl47, hl92⟩]
  simp only
  have hne3 : (sg.text).isEmpty = false := by rw [hcore]; simp
  simp only [hne3, Bool.and_false, Bool.false_eq_true, ↓reduceIte]
  rw [actualOf_starP abs sg ci h, parse_starGlobP (giOpts ci) (rgStarP sg) (rgStarP_wf sg h.wf)]
  rfl

/-- **`**` spans whole directories, with bracket classes in the segments** -/
theorem lineAgree_starP (ci neg abs dir : Bool) (sg : StarGlobP) (h : StarCoreOKP ci sg) :
    LineAgree ci (lineOf neg abs dir sg.text) := by
  intro rel isDir hwf
  unfold mHit sHit
  rw [addLine_starP ci neg abs dir sg h, parsePat_lineOf' neg abs dir _ h.head h.last, h.slash]
  have hm : (rgGlobSP ci neg abs dir sg).glob.isMatch (joinPath rel) =
      GitSpec.wm ci true true sg.text (joinPath rel) := by
    unfold rgGlobSP Glob.isMatch
    simp only
    rw [tokMatch_eq _ _ _ (starGlobP_toks_ne true (rgStarP sg) (rgStarP_wf sg h.wf)),
      tokensK_eq_atomsMatch_star (giOpts ci) _ (starGlobP_toks_starTok true (rgStarP sg) (rgStarP_wf sg h.wf)),
      show docOpts (giOpts ci) = wmOpts ci true from rfl,
      atoms_rgStarP (wmOpts ci true) rfl sg, wm_starGlobP ci sg h.wf h.git]
  simp only [GiGlob.hits, GitSpec.patMatches, GitSpec.matchPathname_eq_wm _ _ _ h.dpos, hm, joinComps_eq,
    Bool.not_true, Bool.and_false, Bool.false_eq_true, ↓reduceIte]
  simp only [rgGlobSP]
  simp [Bool.and_comm]

/-- gitignore lines `[!][/]core[/]` with core [`**/`] P₀ (`/**/` Pᵢ)* [`/**`], the Pᵢ made of wildcard runs and
bracket classes (guards as in `okLineC`) -/
def okLineSP (ci : Bool) (l : List Nat) : Bool :=
  let d := decomposeW l
  let sg := decomposeStarP true d.2.2.2
  lineOf d.1 d.2.1 d.2.2.1 sg.text == l && okStarCoreP ci sg

theorem lineAgree_of_okLineSP (ci : Bool) (l : List Nat) (h : okLineSP ci l = true) : LineAgree ci l := by
  unfold okLineSP at h
  simp only [Bool.and_eq_true, beq_iff_eq] at h
  rw [← h.1]
  exact lineAgree_starP ci _ _ _ _ (starCoreOKP_of ci _ h.2)

/-- the same followed by unescaped spaces -/
def okLineSPB (ci : Bool) (l : List Nat) : Bool :=
  let l0 := (l.reverse.dropWhile (· == 32)).reverse
  okLineSP ci l0 && (l0 ++ spaces (l.length - l0.length) == l) &&
  (match l0.getLast? with
   | some c => !isWs c && c != 92 && c != 32
   | none => false)

theorem lineAgree_of_okLineSPB (ci : Bool) (l : List Nat) (h : okLineSPB ci l = true) : LineAgree ci l := by
  unfold okLineSPB at h
  simp only [Bool.and_eq_true, beq_iff_eq] at h
  obtain ⟨⟨h1, h2⟩, h3⟩ := h
  rw [← h2]
  cases hl : ((l.reverse.dropWhile (· == 32)).reverse).getLast? with
  | none => simp [hl] at h3
  | some c =>
    simp only [hl, Bool.and_eq_true, Bool.not_eq_eq_eq_not, Bool.not_true, bne_iff_ne, ne_eq] at h3
    exact lineAgree_blank ci _ _ hl h3.1.1 h3.1.2 h3.2 (lineAgree_of_okLineSP ci _ h1)

-- `**/*.[oa]`, `!/src/**/[a-z]*.rs`, `build/**`, `**/x[0-9]/**  `;  outside: `**/[!a]` (class accepts `/`)
example : okLineSP false [42, 42, 47, 42, 46, 91, 111, 97, 93] = true ∧
    okLineSP true [33, 47, 115, 47, 42, 42, 47, 91, 97, 45, 122, 93, 42, 46, 114] = true ∧
    okLineSP false [98, 47, 42, 42] = true ∧
    okLineSPB false [42, 42, 47, 120, 91, 48, 45, 57, 93, 47, 42, 42, 32, 32] = true ∧
    okLineSP false [42, 42, 47, 91, 33, 97, 93] = false := by decide

end RgVerif.Gitignore
