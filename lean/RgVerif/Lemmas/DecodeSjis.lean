import RgVerif.Lemmas.Decode
/-
The streaming Shift_JIS decoder of Model/Decode.lean against the whole-string specification
`transcodeSjis`, for every index table.
-/
namespace RgVerif.Decode
open RgVerif RgVerif.Utf16Spec

def RS (idx : Nat → Option Nat) (s : Option Nat) (bs : Bytes) : Bytes :=
  (Machine.runBytes (sjisMachine idx) s bs).2 ++
    (if (Machine.runBytes (sjisMachine idx) s bs).1.isSome then utf8Encode replacement else [])

theorem RS_nil (idx : Nat → Option Nat) (s : Option Nat) :
    RS idx s [] = if s.isSome then utf8Encode replacement else [] := by
  simp [RS, Machine.runBytes]; rfl

theorem RS_cons (idx : Nat → Option Nat) (s : Option Nat) (b : Nat) (r : Bytes) :
    RS idx s (b :: r) = (sjisStep idx s b).2 ++ RS idx (sjisStep idx s b).1 r := by
  show (sjisStep idx s b).2 ++ (Machine.runBytes (sjisMachine idx) (sjisStep idx s b).1 r).2 ++
      (if (Machine.runBytes (sjisMachine idx) (sjisStep idx s b).1 r).1.isSome then utf8Encode replacement else []) = _
  simp [RS, List.append_assoc]

theorem lead_facts (l : Nat) (h : sjisIsLead l = true) :
    ¬ l ≤ 0x80 ∧ (decide (0xA1 ≤ l) && decide (l ≤ 0xDF)) = false := by
  simp only [sjisIsLead, Bool.or_eq_true, Bool.and_eq_true, decide_eq_true_eq] at h
  constructor
  · omega
  · simp only [Bool.and_eq_false_imp, decide_eq_true_eq, decide_eq_false_iff_not]
    omega

theorem RS_spec (idx : Nat → Option Nat) (bs : Bytes) :
    RS idx none bs = transcodeSjis idx bs ∧
    ∀ l, sjisIsLead l = true → RS idx (some l) bs = transcodeSjis idx (l :: bs) := by
  induction bs with
  | nil =>
    refine ⟨by simp [RS_nil, transcodeSjis], fun l hl => ?_⟩
    obtain ⟨h1, h2⟩ := lead_facts l hl
    rw [RS_nil, transcodeSjis.eq_def]
    simp [h1, h2, hl]
  | cons b r ih =>
    obtain ⟨ih0, ihl⟩ := ih
    constructor
    · rw [RS_cons, transcodeSjis.eq_def]
      simp only [sjisStep, sjisStart]
      by_cases h1 : b ≤ 0x80
      · simp [h1, ih0]
      · by_cases h2 : (decide (0xA1 ≤ b) && decide (b ≤ 0xDF)) = true
        · simp [h1, h2, ih0]
        · by_cases h3 : sjisIsLead b = true
          · simp only [h1, h2, h3, if_false, if_true, List.nil_append, Bool.false_eq_true]
            rw [ihl b h3, transcodeSjis.eq_def]
            simp [h1, h2, h3]
          · simp [h1, h2, h3, ih0]
    · intro l hl
      obtain ⟨h1, h2⟩ := lead_facts l hl
      rw [RS_cons, transcodeSjis.eq_def]
      simp only [h1, h2, hl, if_false, if_true, Bool.false_eq_true, sjisStep]
      cases hp : sjisPair idx l b with
      | some c => simp [ih0]
      | none =>
        by_cases hb : b < 0x80
        · have hb' : b ≤ 0x80 := by omega
          simp [hb, sjisStart, hb', ih0, List.append_assoc]
        · simp [hb, ih0]

/-- **The streaming Shift_JIS decoder computes the whole-string specification**, whatever the index. -/
theorem sjis_decode_eq (idx : Nat → Option Nat) (bs : Bytes) :
    (sjisMachine idx).decode [bs] = transcodeSjis idx bs := by
  have h := (RS_spec idx bs).1
  have hdec : (sjisMachine idx).decode [bs] = RS idx none bs := by
    simp only [Machine.decode, Machine.runChunks, List.append_nil, RS]
    rfl
  rw [hdec, h]

end RgVerif.Decode
