import RgVerif.Lemmas.WalkEq
/-
C06: the serial walker model computes the reachability spec, provided no reachable directory is
both off the root's device and rejected by an entry test) — since the repair of F25: unconditionally.
-/
namespace RgVerif.Walk

theorem skipEntry_eq (cfg : Cfg) (ig : List Anc) (p : Path) (name : Name) (v : View) :
    skipEntry cfg ig p name v = !accepted cfg ig p name v := by
  unfold skipEntry accepted
  have := tooBig_guard cfg v
  cases h1 : ignoredBy cfg ig name v <;> cases h3 : filteredOut cfg p v <;>
    cases h2 : tooBig cfg v <;> simp_all
  all_goals (cases v <;> simp_all [tooBig, View.isDir])

/-- walkdir's `stack_path` mirrors the `ig` chain when links are followed. -/
def SpOk (cfg : Cfg) (sp : List Nat) (ig : List Anc) : Prop :=
  cfg.followLinks = true → sp = ig.map (·.1)

/-- The root device is only recorded with `same_file_system`. -/
def RdOk (cfg : Cfg) (rd : Option Nat) : Prop := cfg.sameFs = false → rd = none

theorem pushed_eq (cfg : Cfg) (rd : Option Nat) (dev : Nat) (h : RdOk cfg rd) :
    (if cfg.sameFs then devOk rd dev else true) = devOk rd dev := by
  cases hs : cfg.sameFs
  · rw [h hs]; simp [devOk]
  · simp

/-- The serial jump function agrees with the spec's. -/
def JOk (cfg : Cfg) (js : SerContents) (jr : Contents) : Prop :=
  ∀ sp ig depth p rd kids, SpOk cfg sp ig → RdOk cfg rd →
    js sp ig depth p rd kids = (jr ig depth p rd kids, ig)

theorem spOk_cons {cfg : Cfg} {sp : List Nat} {ig : List Anc} (h : SpOk cfg sp ig) (ino : Nat)
    (ign : List Name) : SpOk cfg (if cfg.followLinks then ino :: sp else sp) ((ino, ign) :: ig) := by
  intro hf
  simp [hf, h hf]

theorem wdHandle_ok (cfg : Cfg) (forest : List Node) (sp : List Nat) (rd : Option Nat) (p : Path)
    (k : Node) (v : View) (h : followEntry cfg forest sp p k = .ok v) (hrd : RdOk cfg rd) :
    wdHandle cfg forest sp rd p k = .ok (v, match v with
      | .dir d _ => devOk rd d.dev
      | _ => false) := by
  unfold wdHandle
  simp only [h]
  cases v <;> simp [pushed_eq cfg rd _ hrd]

theorem wdHandle_err (cfg : Cfg) (forest : List Node) (sp : List Nat) (rd : Option Nat) (p : Path)
    (k : Node) (e : Out) (h : followEntry cfg forest sp p k = .error e) :
    wdHandle cfg forest sp rd p k = .error e := by
  unfold wdHandle
  simp only [h]

theorem followEntry_sp (cfg : Cfg) (forest : List Node) (sp : List Nat) (ig : List Anc) (p : Path)
    (k : Node) (h : SpOk cfg sp ig) :
    followEntry cfg forest sp p k = followEntry cfg forest (ig.map (·.1)) p k := by
  by_cases hf : cfg.followLinks = true
  · rw [h hf]
  · have hf' : cfg.followLinks = false := by simpa using hf
    unfold followEntry
    simp [hf']

mutual
theorem serEntry_eq (cfg : Cfg) (forest : List Node) (js : SerContents) (jr : Contents)
    (hj : JOk cfg js jr)
    (rd : Option Nat) (hrd : RdOk cfg rd) (sp : List Nat) (ig : List Anc) (hsp : SpOk cfg sp ig)
    (depth : Nat) (pp : Path) :
    (k : Node) →
      serEntry cfg forest js rd sp ig depth pp k =
        ⟨reachEntry cfg forest jr rd ig depth pp k, false, ig⟩
  | .file name size => by
    unfold serEntry reachEntry
    rw [wdHandle_ok cfg forest sp rd _ (.file name size) (.file size)
      (followEntry_nolink _ _ _ _ _ rfl) hrd]
    simp only [Node.name, skipEntry_eq]
    cases accepted cfg ig (pp ++ [name]) name (View.file size) <;> simp
  | .dir name ino dev ign kids => by
    unfold serEntry reachEntry
    rw [wdHandle_ok cfg forest sp rd _ (.dir name ino dev ign kids) (.dir ⟨ino, dev, ign, kids⟩ false)
      (followEntry_nolink _ _ _ _ _ rfl) hrd]
    simp only [skipEntry_eq]
    cases hacc : accepted cfg ig (pp ++ [name]) name (.dir ⟨ino, dev, ign, kids⟩ false)
    · simp_all
    · simp only [Bool.not_true, Bool.false_eq_true, if_false, if_true]
      cases hd : (devOk rd dev && depthOk cfg (depth + 1))
      · simp
      · have ih := serKids_eq cfg forest js jr hj rd hrd
          (if cfg.followLinks then ino :: sp else sp) ((ino, ign) :: ig) (spOk_cons hsp ino ign)
          (depth + 1) (pp ++ [name]) kids
        simp [ih]
  | .link name len tgt => by
    unfold serEntry reachEntry
    by_cases hf : cfg.followLinks = true
    · simp only [hf, if_true]
      cases hr : resolve forest tgt with
      | broken =>
        rw [wdHandle_err cfg forest sp rd _ (.link name len tgt) (.broken (pp ++ [name]))
          (by rw [followEntry_sp cfg forest sp ig _ _ hsp]
              simp [followEntry, hf, lstat, View.isSymlink, stat, hr, Node.name])]
      | file s =>
        rw [wdHandle_ok cfg forest sp rd _ (.link name len tgt) (.file s)
          (by rw [followEntry_sp cfg forest sp ig _ _ hsp]
              simp [followEntry, hf, lstat, View.isSymlink, stat, hr, Node.name]) hrd]
        simp only [Node.name, skipEntry_eq]
        cases accepted cfg ig (pp ++ [name]) name (View.file s) <;> simp
      | symlink l =>
        rw [wdHandle_ok cfg forest sp rd _ (.link name len tgt) (.symlink l)
          (by rw [followEntry_sp cfg forest sp ig _ _ hsp]
              simp [followEntry, hf, lstat, View.isSymlink, stat, hr, Node.name]) hrd]
        simp only [Node.name, skipEntry_eq]
        cases accepted cfg ig (pp ++ [name]) name (View.symlink l) <;> simp
      | dir d via =>
        have hvia := resolve_dir_via hr
        subst hvia
        by_cases hl : inAnc ig d.ino = true
        · rw [wdHandle_err cfg forest sp rd _ (.link name len tgt) (.loop (pp ++ [name]))
            (by rw [followEntry_sp cfg forest sp ig _ _ hsp,
                  followEntry_link_dir cfg forest ig _ name len tgt d true hf hr]
                simp [hl, Node.name])]
          simp [hl]
        · rw [wdHandle_ok cfg forest sp rd _ (.link name len tgt) (.dir d true)
            (by rw [followEntry_sp cfg forest sp ig _ _ hsp,
                  followEntry_link_dir cfg forest ig _ name len tgt d true hf hr]
                simp [hl, Node.name]) hrd]
          simp only [Node.name, skipEntry_eq, hl]
          cases hacc : accepted cfg ig (pp ++ [name]) name (.dir d true)
          · simp_all
          · simp only [Bool.not_true, Bool.false_eq_true, if_false, if_true]
            cases hd : (devOk rd d.dev && depthOk cfg (depth + 1))
            · simp
            · have := hj (if cfg.followLinks then d.ino :: sp else sp) ((d.ino, d.ign) :: ig)
                (depth + 1) (pp ++ [name]) rd d.kids (spOk_cons hsp d.ino d.ign) hrd
              simp only [hf, if_true] at this
              simp [this]
    · have hf' : cfg.followLinks = false := by simpa using hf
      rw [wdHandle_ok cfg forest sp rd _ (.link name len tgt) (.symlink len)
        (by simp [followEntry, hf', lstat]) hrd]
      simp only [Node.name, skipEntry_eq, hf', Bool.false_eq_true, if_false]
      cases accepted cfg ig (pp ++ [name]) name (View.symlink len) <;> simp
theorem serKids_eq (cfg : Cfg) (forest : List Node) (js : SerContents) (jr : Contents)
    (hj : JOk cfg js jr)
    (rd : Option Nat) (hrd : RdOk cfg rd) (sp : List Nat) (ig : List Anc) (hsp : SpOk cfg sp ig)
    (depth : Nat) (pp : Path) :
    (ks : List Node) →
      serKids cfg forest js rd sp ig depth pp ks = (reachKids cfg forest jr rd ig depth pp ks, ig)
  | [] => by simp [serKids, reachKids]
  | k :: ks => by
    unfold serKids reachKids
    rw [serEntry_eq cfg forest js jr hj rd hrd sp ig hsp depth pp k]
    simp only [Bool.false_eq_true, if_false]
    rw [serKids_eq cfg forest js jr hj rd hrd sp ig hsp depth pp ks]
end

theorem serContents_ok (cfg : Cfg) (forest : List Node) :
    ∀ f, JOk cfg (serContents cfg forest f) (reachContents cfg forest f) := by
  intro f
  induction f with
  | zero => intro sp ig depth p rd kids _ _; rfl
  | succ f ih =>
    intro sp ig depth p rd kids hsp hrd
    simp only [serContents, reachContents]
    exact serKids_eq cfg forest _ _ ih rd hrd sp ig hsp depth p kids

theorem serRoot_eq (cfg : Cfg) (forest : List Node) (fuel : Nat) (r : Node) :
    serRoot cfg forest fuel r = reachRoot cfg forest fuel r := by
  unfold serRoot reachRoot
  cases hs : stat forest r with
  | broken => rfl
  | file s => rfl
  | symlink l => rfl
  | dir d via =>
    simp only []
    cases hd : depthOk cfg 0
    · simp
    · have := serContents_ok cfg forest fuel (if cfg.followLinks then [d.ino] else [])
        [(d.ino, d.ign)] 0 [r.name] (if cfg.sameFs then some d.dev else none) d.kids
        (by intro hf; simp [hf]) (by intro hs; simp [hs])
      simp [this]

/-- The serial walker reports exactly the reachable entries (same order even). -/
theorem serial_eq (cfg : Cfg) (forest : List Node) (fuel : Nat) (roots : List Node) :
    serial cfg forest fuel roots = reach cfg forest fuel roots := by
  unfold serial reach
  congr 1
  funext r
  exact serRoot_eq cfg forest fuel r

end RgVerif.Walk
