import RgVerif.Lemmas.WalkEq
/-
C06: the serial walker model computes the reachability spec, provided no reachable directory is
both off the root's device and rejected by an entry test (`hazard… = false`).
-/
namespace RgVerif.Walk

theorem skipEntry_eq (cfg : Cfg) (ig : List Anc) (p : Path) (name : Name) (v : View) :
    skipEntry cfg ig p name v = !accepted cfg ig p name v := by
  unfold skipEntry accepted
  have := tooBig_guard cfg v
  cases h1 : ignoredBy cfg ig name v <;> cases h3 : filteredOut cfg p v <;>
    cases h2 : tooBig cfg v <;> simp_all
  all_goals (cases v <;> simp_all [tooBig, View.isDir])

/-- walkdir's `stack_path` mirrors the `ig` chain when links are followed. -/
def SpOk (cfg : Cfg) (sp : List Nat) (ig : List Anc) : Prop :=
  cfg.followLinks = true → sp = ig.map (·.1)

/-- The root device is only recorded with `same_file_system`. -/
def RdOk (cfg : Cfg) (rd : Option Nat) : Prop := cfg.sameFs = false → rd = none

theorem pushed_eq (cfg : Cfg) (rd : Option Nat) (dev : Nat) (h : RdOk cfg rd) :
    (if cfg.sameFs then devOk rd dev else true) = devOk rd dev := by
  cases hs : cfg.sameFs
  · rw [h hs]; simp [devOk]
  · simp

/-- The serial jump function agrees with the spec's on hazard-free directories. -/
def JOk (cfg : Cfg) (js : SerContents) (jr : Contents)
    (jh : List Anc → Nat → Path → Option Nat → List Node → Bool) : Prop :=
  ∀ sp ig depth p rd kids, SpOk cfg sp ig → RdOk cfg rd → jh ig depth p rd kids = false →
    js sp ig depth p rd kids = (jr ig depth p rd kids, ig)

theorem spOk_cons {cfg : Cfg} {sp : List Nat} {ig : List Anc} (h : SpOk cfg sp ig) (ino : Nat)
    (ign : List Name) : SpOk cfg (if cfg.followLinks then ino :: sp else sp) ((ino, ign) :: ig) := by
  intro hf
  simp [hf, h hf]

theorem wdHandle_ok (cfg : Cfg) (forest : List Node) (sp : List Nat) (rd : Option Nat) (p : Path)
    (k : Node) (v : View) (h : followEntry cfg forest sp p k = .ok v) (hrd : RdOk cfg rd) :
    wdHandle cfg forest sp rd p k = .ok (v, match v with
      | .dir d _ => devOk rd d.dev
      | _ => false) := by
  unfold wdHandle
  simp only [h]
  cases v <;> simp [pushed_eq cfg rd _ hrd]

theorem wdHandle_err (cfg : Cfg) (forest : List Node) (sp : List Nat) (rd : Option Nat) (p : Path)
    (k : Node) (e : Out) (h : followEntry cfg forest sp p k = .error e) :
    wdHandle cfg forest sp rd p k = .error e := by
  unfold wdHandle
  simp only [h]

theorem followEntry_sp (cfg : Cfg) (forest : List Node) (sp : List Nat) (ig : List Anc) (p : Path)
    (k : Node) (h : SpOk cfg sp ig) :
    followEntry cfg forest sp p k = followEntry cfg forest (ig.map (·.1)) p k := by
  by_cases hf : cfg.followLinks = true
  · rw [h hf]
  · have hf' : cfg.followLinks = false := by simpa using hf
    unfold followEntry
    simp [hf']

mutual
theorem serEntry_eq (cfg : Cfg) (forest : List Node) (js : SerContents) (jr : Contents)
    (jh : List Anc → Nat → Path → Option Nat → List Node → Bool) (hj : JOk cfg js jr jh)
    (rd : Option Nat) (hrd : RdOk cfg rd) (sp : List Nat) (ig : List Anc) (hsp : SpOk cfg sp ig)
    (depth : Nat) (pp : Path) :
    (k : Node) → hazardEntry cfg forest jh rd ig depth pp k = false →
      serEntry cfg forest js rd sp ig depth pp k =
        ⟨reachEntry cfg forest jr rd ig depth pp k, false, ig⟩
  | .file name size => by
    intro _
    unfold serEntry reachEntry
    rw [wdHandle_ok cfg forest sp rd _ (.file name size) (.file size)
      (followEntry_nolink _ _ _ _ _ rfl) hrd]
    simp only [Node.name, skipEntry_eq]
    cases accepted cfg ig (pp ++ [name]) name (View.file size) <;> simp
  | .dir name ino dev ign kids => by
    intro hz
    unfold hazardEntry at hz
    unfold serEntry reachEntry
    rw [wdHandle_ok cfg forest sp rd _ (.dir name ino dev ign kids) (.dir ⟨ino, dev, ign, kids⟩ false)
      (followEntry_nolink _ _ _ _ _ rfl) hrd]
    simp only [skipEntry_eq]
    cases hacc : accepted cfg ig (pp ++ [name]) name (.dir ⟨ino, dev, ign, kids⟩ false)
    · simp only [hacc] at hz
      simp_all
    · simp only [hacc, if_true] at hz
      simp only [Bool.not_true, Bool.false_eq_true, if_false, if_true]
      cases hd : (devOk rd dev && depthOk cfg (depth + 1))
      · simp
      · simp only [hd, Bool.true_and] at hz
        have ih := serKids_eq cfg forest js jr jh hj rd hrd
          (if cfg.followLinks then ino :: sp else sp) ((ino, ign) :: ig) (spOk_cons hsp ino ign)
          (depth + 1) (pp ++ [name]) kids hz
        simp [ih]
  | .link name len tgt => by
    intro hz
    unfold hazardEntry at hz
    unfold serEntry reachEntry
    by_cases hf : cfg.followLinks = true
    · simp only [hf, if_true] at hz ⊢
      cases hr : resolve forest tgt with
      | broken =>
        rw [wdHandle_err cfg forest sp rd _ (.link name len tgt) (.broken (pp ++ [name]))
          (by rw [followEntry_sp cfg forest sp ig _ _ hsp]
              simp [followEntry, hf, lstat, View.isSymlink, stat, hr, Node.name])]
      | file s =>
        rw [wdHandle_ok cfg forest sp rd _ (.link name len tgt) (.file s)
          (by rw [followEntry_sp cfg forest sp ig _ _ hsp]
              simp [followEntry, hf, lstat, View.isSymlink, stat, hr, Node.name]) hrd]
        simp only [Node.name, skipEntry_eq]
        cases accepted cfg ig (pp ++ [name]) name (View.file s) <;> simp
      | symlink l =>
        rw [wdHandle_ok cfg forest sp rd _ (.link name len tgt) (.symlink l)
          (by rw [followEntry_sp cfg forest sp ig _ _ hsp]
              simp [followEntry, hf, lstat, View.isSymlink, stat, hr, Node.name]) hrd]
        simp only [Node.name, skipEntry_eq]
        cases accepted cfg ig (pp ++ [name]) name (View.symlink l) <;> simp
      | dir d via =>
        have hvia := resolve_dir_via hr
        subst hvia
        simp only [hr] at hz
        by_cases hl : inAnc ig d.ino = true
        · rw [wdHandle_err cfg forest sp rd _ (.link name len tgt) (.loop (pp ++ [name]))
            (by rw [followEntry_sp cfg forest sp ig _ _ hsp,
                  followEntry_link_dir cfg forest ig _ name len tgt d true hf hr]
                simp [hl, Node.name])]
          simp [hl]
        · rw [wdHandle_ok cfg forest sp rd _ (.link name len tgt) (.dir d true)
            (by rw [followEntry_sp cfg forest sp ig _ _ hsp,
                  followEntry_link_dir cfg forest ig _ name len tgt d true hf hr]
                simp [hl, Node.name]) hrd]
          simp only [hl, Bool.false_eq_true, if_false] at hz
          simp only [Node.name, skipEntry_eq, hl]
          cases hacc : accepted cfg ig (pp ++ [name]) name (.dir d true)
          · simp only [hacc] at hz
            simp_all
          · simp only [hacc, if_true] at hz
            simp only [Bool.not_true, Bool.false_eq_true, if_false, if_true]
            cases hd : (devOk rd d.dev && depthOk cfg (depth + 1))
            · simp
            · simp only [hd, Bool.true_and] at hz
              have := hj (if cfg.followLinks then d.ino :: sp else sp) ((d.ino, d.ign) :: ig)
                (depth + 1) (pp ++ [name]) rd d.kids (spOk_cons hsp d.ino d.ign) hrd hz
              simp only [hf, if_true] at this
              simp [this]
    · have hf' : cfg.followLinks = false := by simpa using hf
      rw [wdHandle_ok cfg forest sp rd _ (.link name len tgt) (.symlink len)
        (by simp [followEntry, hf', lstat]) hrd]
      simp only [Node.name, skipEntry_eq, hf', Bool.false_eq_true, if_false]
      cases accepted cfg ig (pp ++ [name]) name (View.symlink len) <;> simp
theorem serKids_eq (cfg : Cfg) (forest : List Node) (js : SerContents) (jr : Contents)
    (jh : List Anc → Nat → Path → Option Nat → List Node → Bool) (hj : JOk cfg js jr jh)
    (rd : Option Nat) (hrd : RdOk cfg rd) (sp : List Nat) (ig : List Anc) (hsp : SpOk cfg sp ig)
    (depth : Nat) (pp : Path) :
    (ks : List Node) → hazardKids cfg forest jh rd ig depth pp ks = false →
      serKids cfg forest js rd sp ig depth pp ks = (reachKids cfg forest jr rd ig depth pp ks, ig)
  | [] => by intro _; simp [serKids, reachKids]
  | k :: ks => by
    intro hz
    unfold hazardKids at hz
    simp only [Bool.or_eq_false_iff] at hz
    unfold serKids reachKids
    rw [serEntry_eq cfg forest js jr jh hj rd hrd sp ig hsp depth pp k hz.1]
    simp only [Bool.false_eq_true, if_false]
    rw [serKids_eq cfg forest js jr jh hj rd hrd sp ig hsp depth pp ks hz.2]
end

theorem serContents_ok (cfg : Cfg) (forest : List Node) :
    ∀ f, JOk cfg (serContents cfg forest f) (reachContents cfg forest f) (hazardContents cfg forest f) := by
  intro f
  induction f with
  | zero => intro sp ig depth p rd kids _ _ _; rfl
  | succ f ih =>
    intro sp ig depth p rd kids hsp hrd hz
    simp only [serContents, reachContents, hazardContents] at hz ⊢
    exact serKids_eq cfg forest _ _ _ ih rd hrd sp ig hsp depth p kids hz

theorem serRoot_eq (cfg : Cfg) (forest : List Node) (fuel : Nat) (r : Node)
    (hz : hazardRoot cfg forest fuel r = false) :
    serRoot cfg forest fuel r = reachRoot cfg forest fuel r := by
  unfold hazardRoot at hz
  unfold serRoot reachRoot
  cases hs : stat forest r with
  | broken => rfl
  | file s => rfl
  | symlink l => rfl
  | dir d via =>
    simp only [hs] at hz
    simp only []
    cases hd : depthOk cfg 0
    · simp
    · simp only [hd, Bool.true_and] at hz
      have := serContents_ok cfg forest fuel (if cfg.followLinks then [d.ino] else [])
        [(d.ino, d.ign)] 0 [r.name] (if cfg.sameFs then some d.dev else none) d.kids
        (by intro hf; simp [hf]) (by intro hs; simp [hs]) hz
      simp [this]

/-- The serial walker reports exactly the reachable entries (same order even) on hazard-free inputs. -/
theorem serial_eq (cfg : Cfg) (forest : List Node) (fuel : Nat) (roots : List Node)
    (hz : hazardFree cfg forest fuel roots = true) :
    serial cfg forest fuel roots = reach cfg forest fuel roots := by
  unfold hazardFree at hz
  simp only [Bool.not_eq_eq_eq_not, Bool.not_true, List.any_eq_false] at hz
  unfold serial reach
  induction roots with
  | nil => rfl
  | cons r rs ih =>
    simp only [List.flatMap_cons]
    rw [serRoot_eq cfg forest fuel r (by simpa using hz r (by simp)),
      ih (fun x hx => hz x (by simp [hx]))]

end RgVerif.Walk
