import RgVerif.Lemmas.GitLine3
import RgVerif.Lemmas.GlobDocStar
/-
Line level of C04 with `**`: cores of the form  [`**/`] S₀ (`/**/` Sᵢ)* [`/**`]  (wildcard segments).
git's `wildmatch` reads `**/`, `/**/`, `/**` as "spans whole directories"; ripgrep compiles them to
`RecursivePrefix` / `RecursiveZeroOrMore` / (`/**` rewritten to `/**/*`) — the same sets of paths.
-/
namespace RgVerif.Glob
open RgVerif RgVerif.GlobDoc

/-! ### continuation form of the documented matcher -/

def amK (o : DocOpts) : List Atom → (Bytes → Bool) → Bytes → Bool
  | [], k, p => k p
  | .lit _ :: _, _, [] => false
  | .lit c :: as, k, b :: p => sameChar o c b && amK o as k p
  | .any :: _, _, [] => false
  | .any :: as, k, b :: p => wild o b && amK o as k p
  | .cls _ _ :: _, _, [] => false
  | .cls neg items :: as, k, b :: p => clsHas o neg items b && amK o as k p
  | .star :: as, k, p => (splits p).any fun xr => xr.1.all (wild o) && amK o as k xr.2
  | .dirs :: as, k, p => (splits p).any fun xr => (xr.1.isEmpty || xr.1.getLast? == some 47) && amK o as k xr.2
  | .rest :: as, k, p => (splits p).any fun xr => amK o as k xr.2

theorem amK_append (o : DocOpts) (as bs : List Atom) (k : Bytes → Bool) (p : Bytes) :
    amK o (as ++ bs) k p = amK o as (amK o bs k) p := by
  induction as generalizing p with
  | nil => rfl
  | cons a as ih =>
    cases a <;> cases p <;> simp [amK, ih]

theorem atomsMatch_eq_amK (o : DocOpts) (as : List Atom) (p : Bytes) :
    atomsMatch o as p = amK o as (fun r => r.isEmpty) p := by
  induction as generalizing p with
  | nil => rfl
  | cons a as ih =>
    cases a <;> cases p <;> simp [amK, atomsMatch, ih]

theorem atomsMatch_append (o : DocOpts) (as bs : List Atom) (p : Bytes) :
    atomsMatch o (as ++ bs) p = amK o as (atomsMatch o bs) p := by
  rw [atomsMatch_eq_amK, amK_append]
  congr 1
  funext r
  exact (atomsMatch_eq_amK o bs r).symm

/-! ### `wildmatch` through a wildcard segment followed by more pattern -/

theorem amK_tokOf (o : DocOpts) (c : Nat) (as : List Atom) (k : Bytes → Bool) (t : Bytes) :
    amK o (trAtom (tokOf c) :: as) k t =
      match tokOf c, t with
      | .any, b :: t' => wild o b && amK o as k t'
      | .any, [] => false
      | .star, t => (starRests (wild o) t).any fun r => amK o as k r
      | _, b :: t' => sameChar o c b && amK o as k t'
      | _, [] => false := by
  by_cases h63 : c = 63
  · subst h63; cases t <;> simp [tokOf, trAtom, amK]
  · by_cases h42 : c = 42
    · subst h42
      simp only [tokOf, Nat.reduceBEq, Bool.false_eq_true, ↓reduceIte, BEq.rfl, trAtom, amK]
      rw [star_any_eq]
    · have hb63 : (c == 63) = false := by simpa using h63
      have hb42 : (c == 42) = false := by simpa using h42
      cases t <;> simp [tokOf, hb63, hb42, trAtom, amK]

theorem wm_slash_indep (ci pn po po' : Bool) (q : List Nat) (t : Bytes) :
    GitSpec.wm ci pn po (47 :: q) t = GitSpec.wm ci pn po' (47 :: q) t := by
  rw [wm_step ci pn po 47 q t (by decide) (by decide) (by simp),
      wm_step ci pn po' 47 q t (by decide) (by decide) (by simp)]

/-- patterns whose meaning does not depend on what preceded them -/
def PoIndep (ci pn : Bool) (rest : List Nat) : Prop :=
  ∀ po po' t, GitSpec.wm ci pn po rest t = GitSpec.wm ci pn po' rest t

theorem poIndep_nil (ci pn : Bool) : PoIndep ci pn [] := fun _ _ t => by simp [wm_nil]
theorem poIndep_slash (ci pn : Bool) (q : List Nat) : PoIndep ci pn (47 :: q) :=
  fun po po' t => wm_slash_indep ci pn po po' q t

theorem wm_simple_pre (ci pn : Bool) (S rest : List Nat) (hS : simpleGlob true S = true)
    (hci : ci = true → 92 ∉ S) (hrest : rest.head? ≠ some 42) (hind : PoIndep ci pn rest)
    (po : Bool) (t : Bytes) :
    GitSpec.wm ci pn po (S ++ rest) t =
      amK (wmOpts ci pn) ((simpleToks true S).map trAtom) (fun r => GitSpec.wm ci pn true rest r) t := by
  induction S using simpleToks.induct (be := true) generalizing po t with
  | case1 => simp only [List.nil_append, simpleToks, List.map_nil, amK]; exact hind po true t
  | case2 c hesc => simp [simpleGlob, hesc] at hS
  | case3 c hesc =>
    have hesc' : (c == 92 && true) = false := by simpa using hesc
    have h92 : c ≠ 92 := by simpa using hesc'
    simp only [simpleGlob, Bool.and_eq_true, hesc', Bool.not_false, and_true] at hS
    simp only [List.cons_append, List.nil_append]
    rw [wm_step ci pn po c rest t hS h92 (fun h => hrest h.2)]
    simp only [simpleToks, hesc', Bool.false_eq_true, ↓reduceIte, List.map_cons, List.map_nil]
    rw [amK_tokOf]
    simp only [amK, hind false true, hind (c == 47) true]
    by_cases h63 : c = 63
    · subst h63; cases t <;> simp [tokOf]
    · by_cases h42 : c = 42
      · subst h42; simp [tokOf]
      · have hb63 : (c == 63) = false := by simpa using h63
        have hb42 : (c == 42) = false := by simpa using h42
        cases t <;> simp [tokOf, hb63, hb42]
  | case4 c e g hesc ih =>
    simp only [Bool.and_true, beq_iff_eq] at hesc
    subst hesc
    have hcif : ci = false := by
      cases ci
      · rfl
      · exact absurd (by simp) (hci rfl)
    subst hcif
    simp only [simpleGlob, BEq.rfl, Bool.and_self, ↓reduceIte, Bool.and_eq_true, decide_eq_true_eq] at hS
    simp only [List.cons_append]
    rw [GitSpec.wm.eq_def]
    simp only [BEq.rfl, ↓reduceIte, Bool.false_eq_true, simpleToks, Bool.and_self, List.map_cons, trAtom]
    cases t with
    | nil => simp [amK]
    | cons b t' =>
      simp only [amK, sameChar, wmOpts, Bool.false_eq_true, ↓reduceIte]
      rw [ih hS.2 (by intro h; cases h) _ t']
      congr 1
      exact Bool.eq_iff_iff.mpr ⟨fun h => by simpa using (by simpa using h : b = e).symm,
        fun h => by simpa using (by simpa using h : e = b).symm⟩
  | case5 c e g hesc ih =>
    have hesc' : (c == 92 && true) = false := by simpa using hesc
    have h92 : c ≠ 92 := by simpa using hesc'
    simp only [simpleGlob, hesc', Bool.false_eq_true, ↓reduceIte, Bool.and_eq_true,
      Bool.not_eq_eq_eq_not, Bool.not_true, Bool.and_eq_false_iff, beq_eq_false_iff_ne, ne_eq] at hS
    have hci' : ci = true → 92 ∉ e :: g := fun h hm => hci h (by simp [hm])
    simp only [List.cons_append]
    rw [wm_step ci pn po c (e :: (g ++ rest)) t hS.1.1 h92 (by
      rintro ⟨h1, h2⟩
      simp only [List.head?_cons, Option.some.injEq] at h2
      rcases hS.1.2 with h | h
      · exact h h1
      · exact h h2)]
    simp only [simpleToks, hesc', Bool.false_eq_true, ↓reduceIte, List.map_cons]
    have ih' := fun po t => ih hS.2 hci' po t
    simp only [List.cons_append] at ih'
    rw [amK_tokOf]
    simp only [ih']
    by_cases h63 : c = 63
    · subst h63; cases t <;> simp [tokOf]
    · by_cases h42 : c = 42
      · subst h42; simp [tokOf]
      · have hb63 : (c == 63) = false := by simpa using h63
        have hb42 : (c == 42) = false := by simpa using h42
        cases t <;> simp [tokOf, hb63, hb42]

/-! ### the `**` pieces in `wildmatch` (with `WM_PATHNAME`) -/

theorem wm_dstar_slash (ci : Bool) (q : List Nat) (t : Bytes) :
    GitSpec.wm ci true true (42 :: 42 :: 47 :: q) t =
      (t :: afterSlashes t).any (GitSpec.wm ci true true q) := by
  rw [GitSpec.wm.eq_def]
  simp only [Nat.reduceBEq, Bool.false_eq_true, ↓reduceIte, BEq.rfl, List.head?_cons, List.dropWhile,
    Bool.true_and, List.isEmpty_cons, Bool.false_or, Bool.or_true, List.length_cons,
    skipWhile_eq_starRests, Bool.not_true]
  have hdrop1 : List.drop (q.length + 1 + 1 - (q.length + 1) + 1) (42 :: 47 :: q) = q := by
    have : q.length + 1 + 1 - (q.length + 1) + 1 = 2 := by omega
    rw [this]; rfl
  have hdrop2 : List.drop (q.length + 1 + 1 - (q.length + 1)) (42 :: 47 :: q) = 47 :: q := by
    have : q.length + 1 + 1 - (q.length + 1) = 1 := by omega
    rw [this]; rfl
  rw [hdrop1, hdrop2]
  apply Bool.eq_iff_iff.mpr
  simp only [Bool.or_eq_true, List.any_eq_true, List.any_cons]
  constructor
  · rintro (h | ⟨r, hr, hw⟩)
    · exact Or.inl h
    · rw [wm_step ci true false 47 q r (by decide) (by decide) (by simp)] at hw
      cases r with
      | nil => simp [tokOf] at hw
      | cons b r' =>
        simp only [tokOf, Nat.reduceBEq, Bool.false_eq_true, ↓reduceIte, sameChar_47, BEq.rfl,
          Bool.and_eq_true, beq_iff_eq] at hw
        obtain ⟨rfl, hw⟩ := hw
        obtain ⟨x, hx⟩ := mem_starRests_true.mp hr
        exact Or.inr ⟨r', mem_afterSlashes.mpr ⟨x, hx⟩, hw⟩
  · rintro (h | ⟨r', hr, hw⟩)
    · exact Or.inl h
    · obtain ⟨x, hx⟩ := mem_afterSlashes.mp hr
      refine Or.inr ⟨47 :: r', mem_starRests_true.mpr ⟨x, hx⟩, ?_⟩
      rw [wm_step ci true false 47 q _ (by decide) (by decide) (by simp)]
      simp [tokOf, sameChar_47, hw]

theorem wm_dstar_end (ci : Bool) (t : Bytes) : GitSpec.wm ci true true [42, 42] t = true := by
  rw [GitSpec.wm.eq_def]
  simp only [Nat.reduceBEq, Bool.false_eq_true, ↓reduceIte, BEq.rfl, List.head?_cons, List.dropWhile,
    List.isEmpty_nil, Bool.true_and, Bool.or_true, List.head?_nil, skipWhile_eq_starRests]
  simp only [Bool.or_eq_true, List.any_eq_true]
  right
  exact ⟨[], mem_starRests_true.mpr ⟨t, by simp⟩, by simp [wm_nil]⟩

/-! ### `wildmatch` on the whole `**` grammar -/

theorem poIndep_tail (ci : Bool) (segs : List (List Nat)) (post : Bool) :
    PoIndep ci true (tailText segs post) := by
  cases segs with
  | nil => cases post <;> simp only [tailText, ↓reduceIte, Bool.false_eq_true]
           · exact poIndep_nil ci true
           · exact poIndep_slash ci true _
  | cons s segs => exact poIndep_slash ci true _

theorem atoms_simple_eq (s : List Nat) (hs : simpleGlob true s = true) :
    (simpleToks true s).flatMap trAtoms = (simpleToks true s).map trAtom :=
  flatMap_trAtoms_simple _ (simpleToks_simple true s hs)

theorem wm_seg_tail (ci : Bool) (s tail : List Nat) (X : List Atom) (hs : simpleGlob true s = true)
    (hci : ci = true → 92 ∉ s) (hhead : tail.head? ≠ some 42) (hind : PoIndep ci true tail)
    (htail : ∀ r, GitSpec.wm ci true true tail r = atomsMatch (wmOpts ci true) X r) (po : Bool) (r : Bytes) :
    GitSpec.wm ci true po (s ++ tail) r =
      atomsMatch (wmOpts ci true) ((simpleToks true s).flatMap trAtoms ++ X) r := by
  rw [wm_simple_pre ci true s tail hs hci hhead hind po r, atoms_simple_eq s hs, atomsMatch_append]
  congr 1
  funext r'
  exact htail r'

theorem wm_tail (ci : Bool) (segs : List (List Nat)) (post : Bool)
    (hw : segs.all (simpleGlob true) = true) (hci : ci = true → ∀ s ∈ segs, 92 ∉ s) (t : Bytes) :
    GitSpec.wm ci true true (tailText segs post) t =
      atomsMatch (wmOpts ci true) ((tailToks true segs post).flatMap trAtoms) t := by
  induction segs generalizing t with
  | nil =>
    cases post
    · simp [tailText, tailToks, wm_nil, atomsMatch]
    · simp only [tailText, ↓reduceIte, tailToks, List.flatMap_cons, List.flatMap_nil, List.append_nil, trAtoms]
      rw [wm_step ci true true 47 [42, 42] t (by decide) (by decide) (by simp)]
      cases t with
      | nil => simp [tokOf, atomsMatch]
      | cons b t' =>
        simp only [tokOf, Nat.reduceBEq, Bool.false_eq_true, ↓reduceIte, BEq.rfl, wm_dstar_end,
          Bool.and_true, atomsMatch]
        have hany : ((splits t').any fun xr => List.isEmpty xr.2) = true := by
          simp only [List.any_eq_true, Prod.exists]
          exact ⟨t', [], mem_splits_iff.mpr (by simp), rfl⟩
        rw [hany, Bool.and_true]
  | cons s segs ih =>
    simp only [List.all_cons, Bool.and_eq_true] at hw
    have hci' : ci = true → ∀ s' ∈ segs, 92 ∉ s' := fun h s' hs' => hci h s' (by simp [hs'])
    have ih' := fun r => ih hw.2 hci' r
    simp only [tailText, List.cons_append, List.nil_append, List.append_assoc, tailToks, List.flatMap_cons,
      trAtoms, List.flatMap_append]
    rw [wm_step ci true true 47 _ t (by decide) (by decide) (by simp)]
    cases t with
    | nil => simp [tokOf, atomsMatch]
    | cons b t' =>
      simp only [tokOf, Nat.reduceBEq, Bool.false_eq_true, ↓reduceIte, BEq.rfl, atomsMatch]
      congr 1
      rw [wm_dstar_slash, dirs_any_eq]
      congr 1
      funext r
      exact wm_seg_tail ci s _ _ hw.1 (fun h => hci h s (by simp)) (tailText_head segs post)
        (poIndep_tail ci segs post) ih' true r

theorem mem_tailText (segs : List (List Nat)) (post : Bool) (s : List Nat) (hs : s ∈ segs) {c : Nat}
    (hm : c ∈ s) : c ∈ tailText segs post := by
  induction segs with
  | nil => simp at hs
  | cons s' segs ih =>
    simp only [tailText, List.cons_append, List.nil_append, List.append_assoc, List.mem_cons,
      List.mem_append]
    rcases List.mem_cons.mp hs with rfl | hs
    · right; right; right; right; left; exact hm
    · right; right; right; right; right; exact ih hs

theorem wm_starGlob (ci : Bool) (sg : StarGlob) (hw : sg.wf true = true)
    (hci : ci = true → 92 ∉ sg.text) (t : Bytes) :
    GitSpec.wm ci true true sg.text t =
      atomsMatch (wmOpts ci true) ((sg.toks true).flatMap trAtoms) t := by
  simp only [StarGlob.wf, Bool.and_eq_true] at hw
  obtain ⟨⟨hs0, hsegs⟩, _⟩ := hw
  have hci0 : ci = true → 92 ∉ sg.s0 := fun h hm => hci h (by simp [StarGlob.text, hm])
  have hcis : ci = true → ∀ s ∈ sg.segs, 92 ∉ s := by
    intro h s hs hm
    apply hci h
    simp only [StarGlob.text, List.mem_append]
    right
    exact mem_tailText sg.segs sg.post s hs hm
  have hbody : ∀ po r, GitSpec.wm ci true po (sg.s0 ++ tailText sg.segs sg.post) r =
      atomsMatch (wmOpts ci true)
        ((simpleToks true sg.s0).flatMap trAtoms ++ (tailToks true sg.segs sg.post).flatMap trAtoms) r :=
    fun po r => wm_seg_tail ci sg.s0 _ _ hs0 hci0 (tailText_head sg.segs sg.post)
      (poIndep_tail ci sg.segs sg.post) (fun r => wm_tail ci sg.segs sg.post hsegs hcis r) po r
  unfold StarGlob.text StarGlob.toks
  cases hp : sg.pre
  · simp only [Bool.false_eq_true, ↓reduceIte, List.nil_append, List.flatMap_append]
    exact hbody true t
  · simp only [↓reduceIte, List.cons_append, List.nil_append, List.flatMap_append, List.flatMap_cons,
      List.flatMap_nil, List.append_nil, trAtoms, trAtom, List.singleton_append, atomsMatch]
    rw [wm_dstar_slash, dirs_any_eq]
    congr 1
    funext r
    exact hbody true r

end RgVerif.Glob

namespace RgVerif.Gitignore
open RgVerif RgVerif.Glob RgVerif.GlobDoc

/-- conditions on a `**` core of a gitignore line -/
structure StarCoreOK (ci : Bool) (sg : StarGlob) : Prop where
  wf : sg.wf true = true
  slash : sg.text.contains 47 = true
  head : ∃ c0 tl, sg.text = c0 :: tl ∧ c0 ≠ 92 ∧ c0 ≠ 33 ∧ c0 ≠ 47 ∧ c0 ≠ 35
  last : ∃ cl, sg.text.getLast? = some cl ∧ cl ≠ 47 ∧ cl ≠ 92 ∧ cl ≠ 32 ∧ isWs cl = false
  noEscCi : ci = true → 92 ∉ sg.text
  endsDstar : endsWith sg.text [47, 42, 42] = sg.post
  /-- every `**` follows a `/` or starts the pattern, so git's separate comparison of the literal prefix changes nothing -/
  dpos : GitSpec.okDstarPos sg.text = true

def okStarCore (ci : Bool) (sg : StarGlob) : Bool :=
  sg.wf true && sg.text.contains 47 &&
  (match sg.text.head? with
   | some c0 => c0 != 92 && c0 != 33 && c0 != 47 && c0 != 35
   | none => false) &&
  (match sg.text.getLast? with
   | some cl => cl != 47 && cl != 92 && cl != 32 && !isWs cl
   | none => false) &&
  (!ci || !sg.text.contains 92) &&
  (endsWith sg.text [47, 42, 42] == sg.post) && GitSpec.okDstarPos sg.text

theorem starCoreOK_of (ci : Bool) (sg : StarGlob) (h : okStarCore ci sg = true) : StarCoreOK ci sg := by
  unfold okStarCore at h
  simp only [Bool.and_eq_true, beq_iff_eq] at h
  obtain ⟨⟨⟨⟨⟨⟨h1, h2⟩, h3⟩, h4⟩, h5⟩, h6⟩, h7⟩ := h
  refine ⟨h1, h2, ?_, ?_, ?_, h6, h7⟩
  · cases hc : sg.text with
    | nil => simp [hc] at h3
    | cons c0 tl =>
      simp only [hc, List.head?_cons, Bool.and_eq_true, bne_iff_ne, ne_eq] at h3
      exact ⟨c0, tl, rfl, h3.1.1.1, h3.1.1.2, h3.1.2, h3.2⟩
  · cases hl : sg.text.getLast? with
    | none => simp [hl] at h4
    | some cl =>
      simp only [hl, Bool.and_eq_true, bne_iff_ne, ne_eq, Bool.not_eq_eq_eq_not, Bool.not_true] at h4
      exact ⟨cl, rfl, h4.1.1.1, h4.1.1.2, h4.1.2, h4.2⟩
  · intro hci hm
    subst hci
    simp at h5
    exact h5 hm

/-- the glob ripgrep compiles: a final `/**` becomes `/**/*` -/
def rgStar (sg : StarGlob) : StarGlob :=
  if sg.post then { sg with segs := sg.segs ++ [[42]], post := false } else sg

theorem tailText_post (segs : List (List Nat)) :
    tailText segs true ++ [47, 42] = tailText (segs ++ [[42]]) false := by
  induction segs with
  | nil => rfl
  | cons s segs ih => simp only [tailText, List.cons_append, List.append_assoc, ih]

theorem tailToks_post (segs : List (List Nat)) :
    tailToks true (segs ++ [[42]]) false = tailToks true segs false ++ [.recZero, .star] := by
  induction segs with
  | nil => rfl
  | cons s segs ih => simp [tailToks, ih]

theorem tailToks_true (segs : List (List Nat)) :
    tailToks true segs true = tailToks true segs false ++ [.recSuffix] := by
  induction segs with
  | nil => rfl
  | cons s segs ih => simp [tailToks, ih]

theorem rgStar_text (sg : StarGlob) :
    (rgStar sg).text = sg.text ++ (if sg.post then [47, 42] else []) := by
  unfold rgStar
  cases hp : sg.post
  · simp
  · simp only [↓reduceIte, StarGlob.text, List.append_assoc]
    rw [← tailText_post]; simp [hp]

theorem rgStar_wf (sg : StarGlob) (h : sg.wf true = true) : (rgStar sg).wf true = true := by
  unfold rgStar
  cases hp : sg.post
  · simpa using h
  · simp only [StarGlob.wf, Bool.and_eq_true] at h ⊢
    simp only [↓reduceIte, List.all_append, List.all_cons, List.all_nil, Bool.and_true, Bool.and_eq_true]
    refine ⟨⟨h.1.1, h.1.2, by decide⟩, by simp⟩

/-- `/**/*` and `/**` select the same paths -/
theorem atoms_rgStar (o : DocOpts) (hls : o.ls = true) (sg : StarGlob) (p : Bytes) :
    atomsMatch o (((rgStar sg).toks true).flatMap trAtoms) p =
      atomsMatch o ((sg.toks true).flatMap trAtoms) p := by
  unfold rgStar
  cases hp : sg.post
  · simp
  · simp only [↓reduceIte, StarGlob.toks, tailToks_post, tailToks_true, hp, List.flatMap_append,
      ← List.append_assoc]
    rw [atomsMatch_append, atomsMatch_append]
    congr 1
    funext r
    simp only [List.flatMap_cons, List.flatMap_nil, trAtoms, trAtom, List.append_nil,
      List.cons_append, List.nil_append]
    cases r with
    | nil => simp [atomsMatch]
    | cons b r1 =>
      simp only [atomsMatch]
      congr 1
      have hd := dirs_any_eq (fun r => (splits r).any fun xr => xr.1.all (wild o) && xr.2.isEmpty) r1
      rw [hd]
      have h1 : ((splits r1).any fun xr => List.isEmpty xr.2) = true := by
        simp only [List.any_eq_true, Prod.exists]
        exact ⟨r1, [], mem_splits_iff.mpr (by simp), rfl⟩
      rw [h1]
      -- choose the last component of `r1`
      simp only [List.any_eq_true, List.mem_cons]
      have hlast : afterLast 47 r1 = r1 ∨ afterLast 47 r1 ∈ afterSlashes r1 := by
        rcases afterLast_cases 47 r1 with ⟨_, h⟩ | ⟨x, hx⟩
        · exact Or.inl h
        · exact Or.inr (mem_afterSlashes.mpr ⟨x, hx⟩)
      refine ⟨afterLast 47 r1, hlast, ?_⟩
      simp only [List.any_eq_true, Prod.exists, Bool.and_eq_true, List.all_eq_true]
      refine ⟨afterLast 47 r1, [], mem_splits_iff.mpr (by simp), ?_, rfl⟩
      intro c hc
      have : c ≠ 47 := fun h => not_mem_afterLast 47 r1 (h ▸ hc)
      simp [wild, hls, this]

theorem actualOf_star (abs : Bool) (sg : StarGlob) (ci : Bool) (h : StarCoreOK ci sg) :
    actualOf abs sg.text = (rgStar sg).text := by
  unfold actualOf
  simp only [h.slash, Bool.not_true, Bool.and_false, Bool.false_eq_true, ↓reduceIte, h.endsDstar]
  rw [rgStar_text]
  cases sg.post <;> simp

/-- ripgrep's glob for a `**` line -/
def rgGlobS (ci neg abs dir : Bool) (sg : StarGlob) : GiGlob :=
  { original := lineOf neg abs dir sg.text, actual := (rgStar sg).text,
    isWhitelist := neg, isOnlyDir := dir,
    glob := { opts := giOpts ci, tokens := ((rgStar sg).toks true).map Token.s } }

theorem addLine_star (ci neg abs dir : Bool) (sg : StarGlob) (h : StarCoreOK ci sg) :
    addLine ci (lineOf neg abs dir sg.text) = .glob (rgGlobS ci neg abs dir sg) := by
  obtain ⟨c0, tl, hcore, h92, h33, h47, h35⟩ := h.head
  obtain ⟨cl, hlast, hl47, hl92, hl32, hlws⟩ := h.last
  unfold addLine
  rw [lineOf_startsWith35 neg abs dir hcore h35]
  simp only [Bool.false_eq_true, ↓reduceIte]
  rw [lineOf_trim neg abs dir hlast hlws hl32, lineOf_ne_nil neg abs dir hcore]
  simp only [Bool.false_eq_true, ↓reduceIte]
  rw [lineOf_splitPrefix neg abs dir hcore ⟨h92, h33, h47⟩]
  have hne2 : (sg.text ++ (if dir then [47] else [])).isEmpty = false := by
    rw [hcore]; simp
  simp only [hne2, Bool.false_eq_true, ↓reduceIte]
  rw [splitDirSlash_core dir hlast ⟨hl47, hl92⟩]
  simp only
  have hne3 : (sg.text).isEmpty = false := by rw [hcore]; simp
  simp only [hne3, Bool.and_false, Bool.false_eq_true, ↓reduceIte]
  rw [actualOf_star abs sg ci h, parse_starGlob (giOpts ci) (rgStar sg) (rgStar_wf sg h.wf)]
  rfl

theorem parsePat_star (ci neg abs dir : Bool) (sg : StarGlob) (h : StarCoreOK ci sg) :
    GitSpec.parsePat (lineOf neg abs dir sg.text) =
      some { negative := neg, mustBeDir := dir, noDir := false, text := sg.text } := by
  obtain ⟨c0, tl, hcore, h92, h33, h47, h35⟩ := h.head
  obtain ⟨cl, hlast, hl47, hl92, hl32, hlws⟩ := h.last
  have hl := lineOf_getLast (core := sg.text) neg abs dir hlast
  have hne : lineOf neg abs dir sg.text ≠ [] := by
    intro hn; have := lineOf_ne_nil (core := sg.text) neg abs dir hcore; simp [hn] at this
  have htrim : GitSpec.trimSpaces (lineOf neg abs dir sg.text) = lineOf neg abs dir sg.text := by
    unfold GitSpec.trimSpaces
    rw [trimSpaces_go_last _ _ _ hne (by rw [hl]; cases dir <;> simp [hl32])]; rfl
  have hhead : ((lineOf neg abs dir sg.text).isEmpty || (lineOf neg abs dir sg.text).head? == some 35) = false := by
    rw [hcore]
    cases neg <;> cases abs <;> simp [lineOf, h35]
  unfold GitSpec.parsePat
  rw [hhead, htrim]
  simp only [Bool.false_eq_true, ↓reduceIte]
  rw [stripNeg_lineOf neg abs dir hcore h33]
  simp only
  rw [stripDir_lineOf abs dir hlast hl47]
  simp only
  rw [contains_lineOf abs _ rfl, stripLead_lineOf abs hcore h47, h.slash]
  simp

/-- **`**` spans whole directories**: `addline_wildmatch` for lines whose core is
[`**/`] S₀ (`/**/` Sᵢ)* [`/**`] -/
theorem lineAgree_star (ci neg abs dir : Bool) (sg : StarGlob) (h : StarCoreOK ci sg) :
    LineAgree ci (lineOf neg abs dir sg.text) := by
  intro rel isDir hwf
  unfold mHit sHit
  rw [addLine_star ci neg abs dir sg h, parsePat_star ci neg abs dir sg h]
  have hm : (rgGlobS ci neg abs dir sg).glob.isMatch (joinPath rel) =
      GitSpec.wm ci true true sg.text (joinPath rel) := by
    unfold rgGlobS Glob.isMatch
    simp only
    rw [tokMatch_eq _ _ _ (starGlob_toks_ne true (rgStar sg) (rgStar_wf sg h.wf)),
      tokensK_eq_atomsMatch_star (giOpts ci) _ (starGlob_toks_starTok true (rgStar sg) (rgStar_wf sg h.wf)),
      show docOpts (giOpts ci) = wmOpts ci true from rfl,
      atoms_rgStar (wmOpts ci true) rfl sg, wm_starGlob ci sg h.wf h.noEscCi]
  simp only [GiGlob.hits, GitSpec.patMatches, GitSpec.matchPathname_eq_wm _ _ _ h.dpos, hm, joinComps_eq,
    Bool.false_eq_true, ↓reduceIte]
  simp only [rgGlobS]
  simp [Bool.and_comm]

/-- the `**` sub-grammar of gitignore lines, as a decidable predicate -/
def okLineS (ci : Bool) (l : List Nat) : Bool :=
  let d := decomposeW l
  let sg := decomposeStar d.2.2.2
  lineOf d.1 d.2.1 d.2.2.1 sg.text == l && okStarCore ci sg

theorem lineAgree_of_okLineS (ci : Bool) (l : List Nat) (h : okLineS ci l = true) : LineAgree ci l := by
  unfold okLineS at h
  simp only [Bool.and_eq_true, beq_iff_eq] at h
  rw [← h.1]
  exact lineAgree_star ci _ _ _ _ (starCoreOK_of ci _ h.2)

end RgVerif.Gitignore
