import RgVerif.Lemmas.ReadByLineGLoop
namespace RgVerif.Searcher
open RgVerif RgVerif.Matcher RgVerif.Lines RgVerif.GrepSpec RgVerif.LineBuffer

/-- **The reader strategy without context lines, for every sink script, chunking and capacity, in
closed form**: for some well-formed splitting `ls` of the input into lines, exactly `specRun`. -/
theorem readByLine_specRun {cfg : Config} (m : MatcherI) (σ : Script) (h : NoCtx' cfg)
    (hslow : isLineByLineFast cfg m (Core.new cfg false) = false)
    (lbcfg : LineBuffer.Config) (hlt : lbcfg.lineterm = cfg.lineTerm.asByte) (hb : lbcfg.binary = .none)
    (hal : lbcfg.alloc = .eager) (rdr : Reader) (hz : NoZero rdr.script) :
    ∃ ls, GoodLines cfg.lineTerm.asByte ls ∧ ls.flatten = rdr.data ∧
      (readByLine cfg m σ lbcfg rdr).events = (specRun cfg m σ ls).1 ∧
      (readByLine cfg m σ lbcfg rdr).result = (specRun cfg m σ ls).2 := by
  unfold readByLine specRun
  dsimp only
  have hb0 : begin σ (Core.new cfg false) = emit σ (Core.new cfg false) .begin := rfl
  rw [hb0]
  have hlen0 : (Core.new cfg false).events.length = 0 := rfl
  have hsplit : GoodLines cfg.lineTerm.asByte (splitLines cfg.lineTerm.asByte rdr.data) ∧
      (splitLines cfg.lineTerm.asByte rdr.data).flatten = rdr.data :=
    ⟨splitLines_good _ _, splitLines_flatten _ _⟩
  rcases emit_cases σ (Core.new cfg false) .begin with ⟨hσ, heq⟩ | ⟨hσ, heq⟩ | ⟨hσ, heq⟩
  · rw [hlen0] at hσ
    rw [heq]
    dsimp only
    rw [if_pos rfl]
    generalize hc0 : ({ Core.new cfg false with events := (Core.new cfg false).events ++ [Event.begin] } : Core) = c0
    have hR : RInvG cfg m σ lbcfg rdr.data ⟨c0, LB.init lbcfg, rdr⟩ [] := by
      refine ⟨⟨[], [], rdr.data, Inv.init' lbcfg rdr⟩, hz, rfl, ?_, by simp [LB.init, LB.buffer],
        by simp [LB.init, LB.buffer], .nil, Or.inl (fun x hx => by simp at hx), ?_, ?_, ?_, rfl, ?_, ?_, ?_, ?_⟩
      · rw [← hc0]; simp [lineRun, Core.new]
      · rw [← hc0]; rfl
      · rw [← hc0]; rfl
      · rw [← hc0]; rfl
      · rw [← hc0]; simp [Core.new]
      · rw [← hc0]
        simp only [LB.init, LB.buffer, List.take_nil, List.drop_nil, List.length_nil, lineRun]
        rw [lnAt_zero cfg _ _ rfl]
        simp [Core.new, ln0]
      · rw [← hc0]; simp [lineRun, Core.new]
      · simp [lineRun, LB.init, LB.buffer]
    obtain ⟨ls, hg, hfl, hev, hbo, hend⟩ := rblLoop_G h hslow hlt hb hal (rblFuel rdr) _ _ hR
      (by simp only [LB.init, LB.buffer, rblFuel]; simp; omega)
    generalize rblLoop cfg m σ (rblFuel rdr) ⟨c0, LB.init lbcfg, rdr⟩ = g at hev hbo hend ⊢
    obtain ⟨s', res⟩ := g
    refine ⟨ls, hg, hfl, ?_⟩
    rw [hσ]
    dsimp only at hev hbo hend ⊢
    cases hout : (lineRun cfg m σ 1 0 (ln0 cfg) false ls).out with
    | err =>
      rw [hout] at hend
      dsimp only at hend
      subst hend
      exact ⟨by simp [Run.events, hev], rfl⟩
    | stop =>
      rw [hout] at hend
      dsimp only at hend
      subst hend
      dsimp only
      have hf := finish_events σ s'.core (lineRun cfg m σ 1 0 (ln0 cfg) false ls).endOff s'.lb.binOff
      simp only [Run.events]
      rw [hf.1, hf.2, hev, hbo]
      exact ⟨by simp, by simp [Nat.add_comm]⟩
    | done =>
      rw [hout] at hend
      dsimp only at hend
      obtain ⟨hres, habs⟩ := hend
      subst hres
      dsimp only
      have hf := finish_events σ s'.core s'.lb.abs s'.lb.binOff
      simp only [Run.events]
      rw [hf.1, hf.2, hev, hbo, habs]
      exact ⟨by simp, by simp [Nat.add_comm]⟩
  · rw [hlen0] at hσ
    rw [heq, hσ]
    dsimp only
    rw [if_neg (by decide)]
    dsimp only
    refine ⟨_, hsplit.1, hsplit.2, ?_⟩
    have hf := finish_events σ ({ Core.new cfg false with events := (Core.new cfg false).events ++ [Event.begin] } : Core)
      (LB.init lbcfg).abs (LB.init lbcfg).binOff
    simp only [Run.events]
    rw [hf.1, hf.2]
    simp [Core.new, LB.init]
  · rw [hlen0] at hσ
    rw [heq, hσ]
    exact ⟨_, hsplit.1, hsplit.2, by simp [Run.events, Core.new], rfl⟩

/-- **C02 without context lines, for every sink script**: reader = slice, events and result. -/
theorem readByLine_eq_sliceByLine_G {cfg : Config} (m : MatcherI) (σ : Script) (h : NoCtx' cfg)
    (hslow : isLineByLineFast cfg m (Core.new cfg true) = false)
    (lbcfg : LineBuffer.Config) (hlt : lbcfg.lineterm = cfg.lineTerm.asByte) (hb : lbcfg.binary = .none)
    (hal : lbcfg.alloc = .eager) (rdr : Reader) (hz : NoZero rdr.script) :
    (readByLine cfg m σ lbcfg rdr).events = (sliceByLine cfg m σ rdr.data).events ∧
      (readByLine cfg m σ lbcfg rdr).result = (sliceByLine cfg m σ rdr.data).result := by
  have hslow' : isLineByLineFast cfg m (Core.new cfg false) = false :=
    isLineByLineFast_false_all cfg m true hslow _
  obtain ⟨ls, hg, hfl, hev, hres⟩ := readByLine_specRun m σ h hslow' lbcfg hlt hb hal rdr hz
  have hs := sliceByLine_specRun m σ h rdr.data hslow ls hg hfl
  exact ⟨by rw [hev, hs.1], by rw [hres, hs.2]⟩

end RgVerif.Searcher
