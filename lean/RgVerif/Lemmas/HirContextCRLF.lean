import RgVerif.Lemmas.HirContextU
/-
Clause (b) for CRLF mode: the window is the *content* of a line (the text before `\n`, minus a `\r`
directly before that `\n`).  What may follow the window is `\n`, or `\r\n`, or the end of the buffer.
-/
namespace RgVerif.Rx
open RgVerif

/-- `[ls, le)` is the content of a line under `--crlf` (`lines::without_terminator`): preceded by `\n`
or the buffer start; followed by the buffer end, by `\n` (then the content does not end in `\r`), or by
`\r\n`; and free of `\n`. -/
structure IsLineCRLF (buf : Bytes) (ls le : Nat) : Prop where
  le_len : le ≤ buf.length
  ls_le : ls ≤ le
  before : ls = 0 ∨ buf[ls - 1]? = some 10
  after : le = buf.length ∨ (buf[le]? = some 10 ∧ (le = ls ∨ buf[le - 1]? ≠ some 13)) ∨
          (buf[le]? = some 13 ∧ buf[le + 1]? = some 10)
  noLF : NoByteIn 10 buf ls le

def folCRLF (r : Nat) : Bool := r == 10 || r == 13

theorem IsLineCRLF.toWin {buf : Bytes} {ls le : Nat} (hl : IsLineCRLF buf ls le) : Win folCRLF buf ls le := by
  refine ⟨hl.le_len, hl.ls_le, hl.before, ?_⟩
  rcases hl.after with h | ⟨h, _⟩ | ⟨h, _⟩
  · exact Or.inl h
  · exact Or.inr ⟨10, h, rfl⟩
  · exact Or.inr ⟨13, h, rfl⟩

/-- looks that are context independent on the content of a CRLF line: the CRLF-aware line anchors
and the ASCII word assertions -/
def safeLookCRLF : Look → Bool
  | .StartCRLF | .EndCRLF | .WordAscii | .WordAsciiNegate | .WordStartAscii | .WordEndAscii
  | .WordStartHalfAscii | .WordEndHalfAscii => true
  | _ => false

section
variable {buf : Bytes} {ls le : Nat}

theorem getD_of_get? {i r : Nat} (h : buf[i]? = some r) : buf.getD i 0 = r := by
  rw [List.getD_eq_getElem?_getD, h]; rfl

theorem noLF_getD (hl : IsLineCRLF buf ls le) {i : Nat} (h1 : ls ≤ i) (h2 : i < le) : buf.getD i 0 ≠ 10 := by
  intro h
  have hlt : i < buf.length := by have := hl.le_len; omega
  apply hl.noLF i h1 h2
  rw [List.getD_eq_getElem?_getD, List.getElem?_eq_getElem hlt] at h
  rw [List.getElem?_eq_getElem hlt]
  simpa using h

/-- `is_start_crlf` -/
theorem ctx_startCRLF (hl : IsLineCRLF buf ls le) {p : Nat} (h1 : ls ≤ p) (h2 : p ≤ le) :
    (p == 0 || buf.getD (p - 1) 0 == 10 ||
        (buf.getD (p - 1) 0 == 13 && (decide (p ≥ buf.length) || buf.getD p 0 != 10))) =
      (p - ls == 0 || (slice buf ls le).getD (p - ls - 1) 0 == 10 ||
        ((slice buf ls le).getD (p - ls - 1) 0 == 13 &&
          (decide (p - ls ≥ (slice buf ls le).length) || (slice buf ls le).getD (p - ls) 0 != 10))) := by
  rw [ctx_len hl.le_len]
  by_cases hp : p = ls
  · subst hp
    by_cases h0 : p = 0
    · subst h0; rfl
    · rw [ctx_before10 hl.before h0, Nat.sub_self]; simp
  · rw [ctx_prev (by omega) h2]
    have a : (p == 0) = false := beq_eq_false_iff_ne.2 (by omega)
    have b : (p - ls == 0) = false := beq_eq_false_iff_ne.2 (by omega)
    rw [a, b]
    by_cases hpe : p = le
    · subst hpe
      have c : decide (p - ls ≥ p - ls) = true := decide_eq_true (Nat.le_refl _)
      rw [c, Bool.true_or, Bool.and_true]
      rcases hl.after with h | ⟨h, hr⟩ | ⟨h, _⟩
      · have d : decide (p ≥ buf.length) = true := decide_eq_true (by omega)
        rw [d, Bool.true_or, Bool.and_true]
      · -- followed by `\\n`: the content does not end in `\\r`
        have hne : buf.getD (p - 1) 0 ≠ 13 := by
          rcases hr with hr | hr
          · omega
          · intro h13
            apply hr
            have hlt : p - 1 < buf.length := by have := hl.le_len; omega
            rw [List.getD_eq_getElem?_getD, List.getElem?_eq_getElem hlt] at h13
            rw [List.getElem?_eq_getElem hlt]
            simpa using h13
        have e : (buf.getD (p - 1) 0 == 13) = false := beq_eq_false_iff_ne.2 hne
        rw [e, Bool.false_and]
      · rw [getD_of_get? h]
        simp
    · rw [ctx_cur h1 (by omega)]
      have c : decide (p ≥ buf.length) = false := decide_eq_false (by have := hl.le_len; omega)
      have d : decide (p - ls ≥ le - ls) = false := decide_eq_false (by omega)
      rw [c, d]

/-- `is_end_crlf` -/
theorem ctx_endCRLF (hl : IsLineCRLF buf ls le) {p : Nat} (h1 : ls ≤ p) (h2 : p ≤ le) :
    (p == buf.length || buf.getD p 0 == 13 ||
        (buf.getD p 0 == 10 && (p == 0 || buf.getD (p - 1) 0 != 13))) =
      (p - ls == (slice buf ls le).length || (slice buf ls le).getD (p - ls) 0 == 13 ||
        ((slice buf ls le).getD (p - ls) 0 == 10 &&
          (p - ls == 0 || (slice buf ls le).getD (p - ls - 1) 0 != 13))) := by
  rw [ctx_len hl.le_len]
  by_cases hpe : p = le
  · subst hpe
    have b : (p - ls == p - ls) = true := beq_self_eq_true _
    rw [b, Bool.true_or, Bool.true_or]
    rcases hl.after with h | ⟨h, hr⟩ | ⟨h, _⟩
    · rw [beq_iff_eq.2 h]; rfl
    · rw [getD_of_get? h]
      rcases hr with hr | hr
      · subst hr
        by_cases h0 : p = 0
        · subst h0; simp
        · rw [ctx_before10 hl.before h0]; simp
      · have hne : buf.getD (p - 1) 0 ≠ 13 := by
          intro h13
          by_cases hp0 : p = 0
          · subst hp0
            rw [getD_of_get? h] at h13; omega
          · apply hr
            have hlt : p - 1 < buf.length := by have := hl.le_len; omega
            rw [List.getD_eq_getElem?_getD, List.getElem?_eq_getElem hlt] at h13
            rw [List.getElem?_eq_getElem hlt]
            simpa using h13
        have e : (buf.getD (p - 1) 0 != 13) = true := by simpa using hne
        rw [e]; simp
    · rw [getD_of_get? h]; simp
  · rw [ctx_cur h1 (by omega)]
    have hne : buf.getD p 0 ≠ 10 := noLF_getD hl h1 (by omega)
    have e : (buf.getD p 0 == 10) = false := beq_eq_false_iff_ne.2 hne
    have a : (p == buf.length) = false := beq_eq_false_iff_ne.2 (by have := hl.le_len; omega)
    have b : (p - ls == le - ls) = false := beq_eq_false_iff_ne.2 (by omega)
    rw [e, a, b, Bool.false_and, Bool.false_and]

theorem folCRLF_nonword (r : Nat) (h : folCRLF r = true) : isWordByte r = false := by
  unfold folCRLF at h
  rcases Bool.or_eq_true_iff.1 h with h | h
  · have : r = 10 := by simpa using h
    subst this; rfl
  · have : r = 13 := by simpa using h
    subst this; rfl

/-- the CRLF anchors and the ASCII word assertions are context independent on the content of a CRLF line -/
theorem lookAt_ctx_crlf (isWord : Nat → Bool) (hl : IsLineCRLF buf ls le) (k : Look) (hk : safeLookCRLF k = true) :
    CtxLook (lookAt isWord) buf ls le k := by
  intro p h1 h2
  have e1 := ctx_startCRLF hl h1 h2
  have e2 := ctx_endCRLF hl h1 h2
  have e3 := ctx_wordBefore hl.toWin h1 h2
  have e4 := ctx_wordAfter hl.toWin folCRLF_nonword h1 h2
  cases k <;> simp only [safeLookCRLF] at hk <;> first | (cases hk) | skip
  all_goals simp only [lookAt]
  · exact e1
  · exact e2
  · rw [e3, e4]
  · rw [e3, e4]
  · rw [e3, e4]
  · rw [e3, e4]
  · rw [e3]
  · rw [e4]

/-- … and so are the six Unicode word assertions when the content does not start with a UTF-8
continuation byte and neither `\n` nor `\r` is a word character -/
theorem lookAt_ctx_crlf_unicode (isWord : Nat → Bool) (hw10 : isWord 10 = false) (hw13 : isWord 13 = false)
    (hl : IsLineCRLF buf ls le) (hg : ls = le ∨ isContByte (buf.getD ls 0) = false)
    (k : Look) (hk : safeLookU k = true) : CtxLook (lookAt isWord) buf ls le k :=
  lookAt_ctx_unicodeW isWord hw10 (fol := folCRLF)
    (by
      intro r hr
      unfold folCRLF at hr
      rcases Bool.or_eq_true_iff.1 hr with h | h
      · have : r = 10 := by simpa using h
        subst this; exact ⟨by decide, hw10⟩
      · have : r = 13 := by simpa using h
        subst this; exact ⟨by decide, hw13⟩)
    { hl.toWin with guard := hg } k hk

end
end RgVerif.Rx
