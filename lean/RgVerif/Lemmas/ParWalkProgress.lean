import RgVerif.Lemmas.ParWalkSafety
/-
C07 progress: the termination measure, the `active_workers` counting invariant, deadlock freedom.
-/
namespace RgVerif.ParWalk

theorem order_length {n w : Nat} (h : w < n) : (order n w).length = n - 1 := by
  simp only [order, List.length_append, List.length_range']
  omega

theorem mem_order {n w v : Nat} (hw : w < n) (hv : v < n) (hne : v ≠ w) : v ∈ order n w := by
  simp only [order, List.mem_append, List.mem_range'_1]
  omega

theorem afterRecv_cost_le (n : Nat) (b : Bool) (m : Msg) : (afterRecv b m).cost n ≤ 4 + m.cost n := by
  cases b <;> cases m <;> simp [afterRecv, Pc.cost, Msg.cost]

theorem afterRecv_true_cost (n : Nat) (m : Msg) : (afterRecv true m).cost n = 4 + m.cost n := by
  cases m <;> simp [afterRecv, Pc.cost, Msg.cost]

theorem afterRecv_false_cost (n : Nat) (m : Msg) : (afterRecv false m).cost n = 3 + m.cost n := by
  cases m <;> simp [afterRecv, Pc.cost, Msg.cost]

theorem tree_cost_eq (n : Nat) (t : Tree) : t.cost n = (n + 11) + costL n t.kids := by
  cases t; simp [Tree.cost, Tree.kids]

/-- What a stutter step leaves unchanged: everything but the stepping worker's place in the idle loop. -/
def Stutter (s : State) (w : Nat) (s' : State) : Prop :=
  (s.pc w).idle = true ∧ (s'.pc w).idle = true ∧ s'.dq = s.dq ∧ s'.active = s.active ∧
  s'.quitNow = s.quitNow ∧ s'.visited = s.visited ∧ s'.quitAsked = s.quitAsked ∧
  ∀ u, u ≠ w → s'.pc u = s.pc u

/-- Every step strictly lowers the measure, except the steps of the idle loop that find nothing
(own deque empty, failed steal attempt, sleep), which keep it. -/
theorem step_mu {n : Nat} {s s' : State} {w : Nat} (hs : Step n s w s') :
    mu n s' < mu n s ∨ (mu n s' = mu n s ∧ Stutter s w s') := by
  cases hs
  case stealOk v b vs keep rest m hv hne hdq hw hpc =>
    left
    obtain ⟨r, h1, h2⟩ := sumTo_split (Pc.cost n ∘ s.pc) hw
    obtain ⟨q, h3, h4⟩ := sumTo_split2 (dqCost n ∘ s.dq) hv hw hne
    simp only [mu, comp_upd, h2, h4, h1, h3, Function.comp, hpc, hdq, dqCost_append, dqCost_cons]
    have hc := afterRecv_cost_le n b m
    generalize (afterRecv b m).cost n = c at hc ⊢
    cases b <;> simp only [Pc.cost, List.length_cons] <;> omega
  case popOk b m d hdq hw hpc =>
    left
    obtain ⟨r, h1, h2⟩ := sumTo_split (Pc.cost n ∘ s.pc) hw
    obtain ⟨q, h3, h4⟩ := sumTo_split (dqCost n ∘ s.dq) hw
    simp only [mu, comp_upd, h2, h4, h1, h3, Function.comp, hpc, hdq, dqCost_cons]
    have hc := afterRecv_cost_le n b m
    generalize (afterRecv b m).cost n = c at hc ⊢
    cases b <;> simp only [Pc.cost] <;> omega
  case popEmpty b hdq hw hpc =>
    obtain ⟨r, h1, h2⟩ := sumTo_split (Pc.cost n ∘ s.pc) hw
    simp only [mu, comp_upd, h2, h1, Function.comp, hpc]
    have := order_length hw
    cases b
    · left; simp only [Pc.cost]; omega
    · right
      refine ⟨by simp only [Pc.cost], ?_⟩
      refine ⟨by rw [hpc]; rfl, by simp [Pc.idle], rfl, rfl, rfl, rfl, rfl, ?_⟩
      intro u hu; exact upd_other _ _ hu
  case stealFail v b vs hw hpc =>
    obtain ⟨r, h1, h2⟩ := sumTo_split (Pc.cost n ∘ s.pc) hw
    simp only [mu, comp_upd, h2, h1, Function.comp, hpc]
    cases b
    · left; simp only [Pc.cost, List.length_cons]; omega
    · right
      refine ⟨by simp only [Pc.cost], ?_⟩
      refine ⟨by rw [hpc]; rfl, by simp [Pc.idle], rfl, rfl, rfl, rfl, rfl, ?_⟩
      intro u hu; exact upd_other _ _ hu
  case stealDone b hw hpc =>
    obtain ⟨r, h1, h2⟩ := sumTo_split (Pc.cost n ∘ s.pc) hw
    simp only [mu, comp_upd, h2, h1, Function.comp, hpc]
    cases b
    · left; simp [Pc.cost]
    · right
      refine ⟨by simp [Pc.cost], ?_⟩
      refine ⟨by rw [hpc]; rfl, by simp [Pc.idle], rfl, rfl, rfl, rfl, rfl, ?_⟩
      intro u hu; exact upd_other _ _ hu
  case sleep hw hpc =>
    obtain ⟨r, h1, h2⟩ := sumTo_split (Pc.cost n ∘ s.pc) hw
    simp only [mu, comp_upd, h2, h1, Function.comp, hpc]
    right
    refine ⟨by simp only [Pc.cost], ?_⟩
    refine ⟨by rw [hpc]; rfl, by simp [Pc.idle], rfl, rfl, rfl, rfl, rfl, ?_⟩
    intro u hu; exact upd_other _ _ hu
  case checkQuitNow v hq hw hpc =>
    left
    obtain ⟨r, h1, h2⟩ := sumTo_split (Pc.cost n ∘ s.pc) hw
    simp only [mu, comp_upd, h2, h1, Function.comp, hpc]
    rcases v with _ | m
    · simp only [Pc.cost]; omega
    · cases m <;> simp only [Pc.cost] <;> omega
  case activate m hw hpc =>
    left
    obtain ⟨r, h1, h2⟩ := sumTo_split (Pc.cost n ∘ s.pc) hw
    simp only [mu, comp_upd, h2, h1, Function.comp, hpc]
    cases m <;> simp only [Pc.cost, Msg.cost] <;> omega
  case visitCont t hw hpc =>
    left
    obtain ⟨r, h1, h2⟩ := sumTo_split (Pc.cost n ∘ s.pc) hw
    simp only [mu, comp_upd, h2, h1, Function.comp, hpc]
    have := tree_cost_eq n t
    simp only [Pc.cost]; omega
  case visitQuit t hw hpc =>
    left
    obtain ⟨r, h1, h2⟩ := sumTo_split (Pc.cost n ∘ s.pc) hw
    simp only [mu, comp_upd, h2, h1, Function.comp, hpc]
    have := tree_cost_eq n t
    simp only [Pc.cost]; omega
  all_goals
    left
    rename_i hw hpc
    obtain ⟨r, h1, h2⟩ := sumTo_split (Pc.cost n ∘ s.pc) hw
    obtain ⟨q, h3, h4⟩ := sumTo_split (dqCost n ∘ s.dq) hw
    simp only [mu, comp_upd, h2, h4, h1, h3, Function.comp, hpc, dqCost_cons]
    simp only [Pc.cost, Msg.cost, costL]
    omega

/-! ### The `active_workers` counter -/

/-- 1 iff the worker is currently counted in `active_workers`. -/
def Pc.counted : Pc → Nat
  | .recv true => 0
  | .steal true _ => 0
  | .sleep => 0
  | .activate _ => 0
  | .sendQuit false => 0
  | .exiting false => 0
  | .exited false => 0
  | _ => 1

/-- 1 iff the worker is the one whose `deactivate_worker()` returned 0. -/
def Pc.zeroed : Pc → Nat
  | .sendQuit false => 1
  | .exiting false => 1
  | .exited false => 1
  | _ => 0

theorem afterRecv_counted (b : Bool) (m : Msg) :
    (afterRecv b m).counted = (if b then 0 else 1) ∧ (afterRecv b m).zeroed = 0 := by
  cases b <;> simp [afterRecv, Pc.counted, Pc.zeroed]

/-- `active_workers` equals the number of counted workers, and either somebody is counted or the
worker that saw the counter reach 0 exists (it broadcasts `Quit`). -/
def CountInv (n : Nat) (s : State) : Prop :=
  s.active = sumTo n (Pc.counted ∘ s.pc) ∧
  0 < sumTo n (Pc.counted ∘ s.pc) + sumTo n (Pc.zeroed ∘ s.pc)

theorem step_count {n : Nat} {s s' : State} {w : Nat} (hs : Step n s w s') (ih : CountInv n s) :
    CountInv n s' := by
  obtain ⟨ih1, ih2⟩ := ih
  cases hs
  all_goals
    rename_i hw hpc
    try simp only [counterStep, quiescentCount] at *
    obtain ⟨r, h1, h2⟩ := sumTo_split (Pc.counted ∘ s.pc) hw
    obtain ⟨q, h3, h4⟩ := sumTo_split (Pc.zeroed ∘ s.pc) hw
    simp only [CountInv, comp_upd, h2, h4]
    rw [h1] at ih1 ih2
    rw [h3] at ih2
    simp only [Function.comp, hpc] at ih1 ih2
    first
      | (rename Bool => b
         have hc := afterRecv_counted b ‹Msg›
         rw [hc.1, hc.2]
         cases b <;> simp only [Pc.counted, Pc.zeroed] at ih1 ih2 ⊢ <;> simp at ih1 ih2 ⊢ <;> omega)
      | (rename Bool => b
         cases b <;> simp only [Pc.counted, Pc.zeroed] at ih1 ih2 ⊢ <;> simp at ih1 ih2 ⊢ <;> omega)
      | (simp only [Pc.counted, Pc.zeroed] at ih1 ih2 ⊢; omega)

theorem reachable_count {n : Nat} {roots : List Tree} {s : State} (hn : 0 < n)
    (h : Reachable n roots s) : CountInv n s := by
  induction h with
  | init =>
    have : sumTo n (Pc.counted ∘ fun _ => Pc.recv false) = n := by
      exact (sumTo_congr (fun i _ => rfl)).trans (sumTo_const_one n)
    simp only [CountInv, init]
    rw [this]
    omega
  | step _ hs ih => exact step_count hs ih

/-! ### Once somebody has left, a `Quit` message exists (the domino) -/

def Pc.quitHand : Pc → Nat
  | .check (some .quit) => 1
  | .activate .quit => 1
  | .sendQuit _ => 1
  | _ => 0

def Msg.q : Msg → Nat
  | .quit => 1
  | .work _ => 0

def dqQuits (d : List Msg) : Nat := (d.map Msg.q).sum

/-- 1 iff the worker has decided to leave (it is about to push / has pushed its `Quit`). -/
def Pc.gone : Pc → Nat
  | .sendQuit _ => 1
  | .exiting _ => 1
  | .exited _ => 1
  | _ => 0

@[simp] theorem dqQuits_nil : dqQuits [] = 0 := by simp [dqQuits]
@[simp] theorem dqQuits_cons (m : Msg) (d : List Msg) : dqQuits (m :: d) = m.q + dqQuits d := by
  simp [dqQuits]
@[simp] theorem dqQuits_append (d e : List Msg) : dqQuits (d ++ e) = dqQuits d + dqQuits e := by
  simp [dqQuits, List.sum_append]

theorem afterRecv_quitHand (b : Bool) (m : Msg) :
    (afterRecv b m).quitHand = m.q ∧ (afterRecv b m).gone = 0 := by
  cases b <;> cases m <;> simp [afterRecv, Pc.quitHand, Pc.gone, Msg.q]

/-- Number of `Quit` messages in deques and in hand. -/
def quits (n : Nat) (s : State) : Nat :=
  sumTo n (Pc.quitHand ∘ s.pc) + sumTo n (dqQuits ∘ s.dq)

def QuitInv (n : Nat) (s : State) : Prop :=
  0 < sumTo n (Pc.gone ∘ s.pc) → 0 < quits n s

theorem step_quitinv {n : Nat} {s s' : State} {w : Nat} (hs : Step n s w s') (ih : QuitInv n s) :
    QuitInv n s' := by
  unfold QuitInv quits at *
  cases hs
  case stealOk v b vs keep rest m hv hne hdq hw hpc =>
    obtain ⟨r, h1, h2⟩ := sumTo_split (Pc.quitHand ∘ s.pc) hw
    obtain ⟨g, h5, h6⟩ := sumTo_split (Pc.gone ∘ s.pc) hw
    obtain ⟨q, h3, h4⟩ := sumTo_split2 (dqQuits ∘ s.dq) hv hw hne
    simp only [comp_upd, h2, h4, h6, h1, h3, h5]
    rw [h1, h3, h5] at ih
    simp only [Function.comp, hpc, hdq, dqQuits_append, dqQuits_cons] at ih ⊢
    have hc := afterRecv_quitHand b m
    rw [hc.1, hc.2]
    simp only [Pc.quitHand, Pc.gone] at ih
    omega
  case popOk b m d hdq hw hpc =>
    obtain ⟨r, h1, h2⟩ := sumTo_split (Pc.quitHand ∘ s.pc) hw
    obtain ⟨g, h5, h6⟩ := sumTo_split (Pc.gone ∘ s.pc) hw
    obtain ⟨q, h3, h4⟩ := sumTo_split (dqQuits ∘ s.dq) hw
    simp only [comp_upd, h2, h4, h6, h1, h3, h5]
    rw [h1, h3, h5] at ih
    simp only [Function.comp, hpc, hdq, dqQuits_cons] at ih ⊢
    have hc := afterRecv_quitHand b m
    rw [hc.1, hc.2]
    simp only [Pc.quitHand, Pc.gone] at ih
    omega
  all_goals
    rename_i hw hpc
    obtain ⟨r, h1, h2⟩ := sumTo_split (Pc.quitHand ∘ s.pc) hw
    obtain ⟨g, h5, h6⟩ := sumTo_split (Pc.gone ∘ s.pc) hw
    obtain ⟨q, h3, h4⟩ := sumTo_split (dqQuits ∘ s.dq) hw
    simp only [comp_upd, h2, h4, h6, h1, h3, h5]
    rw [h1, h3, h5] at ih
    simp only [Function.comp, hpc, dqQuits_cons] at ih ⊢
    first
      | (simp only [Pc.quitHand, Pc.gone, Msg.q] at ih ⊢; omega)
      | (rename Bool => b
         cases b <;> simp only [Pc.quitHand, Pc.gone, Msg.q] at ih ⊢ <;> simp at ih ⊢ <;> omega)
      | (rename Msg => m
         cases m <;> simp only [Pc.quitHand, Pc.gone, Msg.q] at ih ⊢ <;> omega)
      | (rename Option Msg => v
         rcases v with _ | m
         · simp only [Pc.quitHand, Pc.gone, Msg.q] at ih ⊢; omega
         · cases m <;> simp only [Pc.quitHand, Pc.gone, Msg.q] at ih ⊢ <;> omega)

theorem reachable_quitinv {n : Nat} {roots : List Tree} {s : State}
    (h : Reachable n roots s) : QuitInv n s := by
  induction h with
  | init =>
    intro h
    rw [sumTo_zero (by intro i _; rfl)] at h
    omega
  | step _ hs ih => exact step_quitinv hs ih

end RgVerif.ParWalk
