import RgVerif.Model.WalkTree
import RgVerif.Lemmas.WalkEq
import RgVerif.Lemmas.WalkNodup
/-
The entries of the work tree are the entries the (deterministic) parallel walker model reports.
-/
namespace RgVerif.Walk
open RgVerif.ParWalk (Tree entriesL)

theorem entriesL_append (a b : List Tree) : entriesL (a ++ b) = entriesL a ++ entriesL b := by
  induction a with
  | nil => simp [entriesL]
  | cons t a ih => simp [entriesL, ih]

theorem entriesOf_append (a b : List Out) : entriesOf (a ++ b) = entriesOf a ++ entriesOf b := by
  simp [entriesOf, List.filterMap_append]

theorem entriesOf_cons_entry (p : Path) (os : List Out) :
    entriesOf (.entry p :: os) = p :: entriesOf os := by
  simp [entriesOf, Out.entry?]

theorem entriesL_single (l : ParWalk.Label) (ks : List Tree) :
    entriesL [Tree.node l ks] = l :: entriesL ks := by
  simp [entriesL, ParWalk.Tree.entries]

theorem followEntry_err (cfg : Cfg) (forest : List Node) (is : List Nat) (p : Path) (k : Node)
    (e : Out) (h : followEntry cfg forest is p k = .error e) : e.entry? = none := by
  unfold followEntry at h
  split at h
  · split at h
    · cases h; rfl
    · split at h
      · cases h; rfl
      · cases h
    · cases h
  · cases h

/-- `generate_work` reports only errors itself; the entry is reported when its work is run. -/
theorem generateWork_errs (cfg : Cfg) (forest : List Node) (anc : List Anc) (depth : Nat)
    (rd : Option Nat) (pp : Path) (k : Node) :
    entriesOf (generateWork cfg forest anc depth rd pp k).1 = [] := by
  cases hf : followEntry cfg forest (anc.map (·.1)) (pp ++ [k.name]) k with
  | error e =>
    rw [generateWork_err cfg forest anc depth rd pp k e hf]
    simp [entriesOf, followEntry_err cfg forest _ _ k e hf]
  | ok v =>
    rw [generateWork_ok cfg forest anc depth rd pp k v hf]
    simp [entriesOf]

mutual
theorem workEntry_entries (cfg : Cfg) (forest : List Node) (jt : TreeContents) (jo : Contents)
    (hj : ∀ a d p r ks, entriesL (jt a d p r ks) = entriesOf (jo a d p r ks))
    (rd : Option Nat) (anc : List Anc) (depth : Nat) (pp : Path) :
    (k : Node) → entriesL (workEntry cfg forest jt rd anc depth pp k) =
      entriesOf (parEntry cfg forest jo rd anc depth pp k)
  | .file name size => by
    unfold workEntry parEntry
    have he := generateWork_errs cfg forest anc (depth + 1) rd pp (.file name size)
    cases hg : generateWork cfg forest anc (depth + 1) rd pp (.file name size) with
    | mk errs ow =>
      rw [hg] at he
      cases ow with
      | none => simpa [entriesL] using he.symm
      | some w =>
        simp only [] at he
        simp only [entriesOf_append, he, List.nil_append, runOne, entriesOf_cons_entry, entriesL_single]
        cases enterDir cfg w <;> simp [hj, entriesL, entriesOf]
  | .link name len tgt => by
    unfold workEntry parEntry
    have he := generateWork_errs cfg forest anc (depth + 1) rd pp (.link name len tgt)
    cases hg : generateWork cfg forest anc (depth + 1) rd pp (.link name len tgt) with
    | mk errs ow =>
      rw [hg] at he
      cases ow with
      | none => simpa [entriesL] using he.symm
      | some w =>
        simp only [] at he
        simp only [entriesOf_append, he, List.nil_append, runOne, entriesOf_cons_entry, entriesL_single]
        cases enterDir cfg w <;> simp [hj, entriesL, entriesOf]
  | .dir name ino dev ign kids => by
    unfold workEntry parEntry
    have he := generateWork_errs cfg forest anc (depth + 1) rd pp (.dir name ino dev ign kids)
    cases hg : generateWork cfg forest anc (depth + 1) rd pp (.dir name ino dev ign kids) with
    | mk errs ow =>
      rw [hg] at he
      cases ow with
      | none => simpa [entriesL] using he.symm
      | some w =>
        simp only [] at he
        simp only [entriesOf_append, he, List.nil_append, runOne, entriesOf_cons_entry, entriesL_single]
        cases hen : enterDir cfg w with
        | none => simp [entriesL, entriesOf]
        | some a =>
          simp only []
          rw [workKids_entries cfg forest jt jo hj w.rootDev a w.depth w.path kids]
theorem workKids_entries (cfg : Cfg) (forest : List Node) (jt : TreeContents) (jo : Contents)
    (hj : ∀ a d p r ks, entriesL (jt a d p r ks) = entriesOf (jo a d p r ks))
    (rd : Option Nat) (anc : List Anc) (depth : Nat) (pp : Path) :
    (ks : List Node) → entriesL (workKids cfg forest jt rd anc depth pp ks) =
      entriesOf (parKids cfg forest jo rd anc depth pp ks)
  | [] => by simp [workKids, parKids, entriesL, entriesOf]
  | k :: ks => by
    unfold workKids parKids
    rw [entriesL_append, entriesOf_append, workEntry_entries cfg forest jt jo hj rd anc depth pp k,
      workKids_entries cfg forest jt jo hj rd anc depth pp ks]
end

theorem workContents_entries (cfg : Cfg) (forest : List Node) :
    ∀ f a d p r ks, entriesL (workContents cfg forest f a d p r ks) =
      entriesOf (parContents cfg forest f a d p r ks) := by
  intro f
  induction f with
  | zero => intro a d p r ks; simp [workContents, parContents, entriesL, entriesOf]
  | succ f ih =>
    intro a d p r ks
    simp only [workContents, parContents]
    exact workKids_entries cfg forest _ _ ih r a d p ks

theorem workRoot_entries (cfg : Cfg) (forest : List Node) (fuel : Nat) (r : Node) :
    entriesL (workRoot cfg forest fuel r) = entriesOf (parRoot cfg forest fuel r) := by
  unfold workRoot parRoot
  cases hs : stat forest r with
  | broken => simp [entriesL, entriesOf, Out.entry?]
  | file s =>
    simp only [runOne, entriesOf_cons_entry, entriesL_single]
    generalize enterDir cfg _ = e
    cases e <;> simp [workContents_entries, entriesL, entriesOf]
  | symlink l =>
    simp only [runOne, entriesOf_cons_entry, entriesL_single]
    generalize enterDir cfg _ = e
    cases e <;> simp [workContents_entries, entriesL, entriesOf]
  | dir d via =>
    simp only [runOne, entriesOf_cons_entry, entriesL_single]
    generalize enterDir cfg _ = e
    cases e <;> simp [workContents_entries, entriesL, entriesOf]

/-- The entries of the tree of works are exactly the entries of the reachable set (in order). -/
theorem workForest_entries (cfg : Cfg) (forest : List Node) (fuel : Nat) (roots : List Node) :
    entriesL (workForest cfg forest fuel roots) = entriesOf (reach cfg forest fuel roots) := by
  rw [← parallel_eq]
  unfold workForest parallel
  induction roots with
  | nil => simp [entriesL, entriesOf]
  | cons r rs ih =>
    simp only [List.flatMap_cons]
    rw [entriesL_append, entriesOf_append, workRoot_entries, ih]

theorem entriesOf_sublist (os : List Out) : (entriesOf os).Sublist (os.map Out.path) := by
  induction os with
  | nil => simp [entriesOf]
  | cons o os ih =>
    cases o with
    | entry p =>
      simp only [entriesOf, List.filterMap_cons, Out.entry?, List.map_cons, Out.path]
      exact ih.cons₂ p
    | loop p =>
      simp only [entriesOf, List.filterMap_cons, Out.entry?, List.map_cons]
      exact ih.cons _
    | broken p =>
      simp only [entriesOf, List.filterMap_cons, Out.entry?, List.map_cons]
      exact ih.cons _

theorem reach_entries_nodup (cfg : Cfg) (forest : List Node) (hwf : WfL forest) (fuel : Nat)
    (roots : List Node) (hn : (roots.map Node.name).Nodup) (hw : WfL roots) :
    (entriesOf (reach cfg forest fuel roots)).Nodup :=
  (reach_pathsNodup cfg forest hwf fuel roots hn hw).1.sublist (entriesOf_sublist _)

end RgVerif.Walk
