import RgVerif.Lemmas.SearcherC01
/-
`LineSafe` from a matcher-level contract: if "the pattern matches the span [s, e) of a haystack" is a relation
`Mt` such that matches stay clear of the terminator, are context independent on line windows, the engine
never jumps over a match (no match ends before the reported one starts) and the candidate finder sound, then the matcher is line safe on every buffer (one-byte terminator).
The regex-level half (C11 / `Props/C01Regex.lean`) provides these clauses for `Rx.Matches`.
-/
namespace RgVerif.Searcher
open RgVerif RgVerif.Matcher RgVerif.Lines RgVerif.GrepSpec

/-- the matcher-level contract, for terminator byte `t`; `G hay w c` is a guard on line windows (e.g. "the
window does not start with a UTF-8 continuation byte") under which context independence is available -/
structure MatchContract (t : Nat) (m : MatcherI) (Mt : Bytes → Nat → Nat → Prop)
    (G : Bytes → Nat → Nat → Prop) : Prop where
  bounds : ∀ {hay s e}, Mt hay s e → s ≤ e ∧ e ≤ hay.length
  noTerm : ∀ {hay s e}, Mt hay s e → ∀ x, s ≤ x → x < e → hay[x]? ≠ some t
  /-- the reported end belongs to a match, and no match of the haystack ends strictly before that match starts
  (weaker than "minimal start": regex-automata 0.4.7 does not always return the leftmost match — validated by the
  C11 harness — but it never jumps over a match; with `noTerm` this is all the fast path needs) -/
  shortest_some : ∀ {hay i}, m.shortestAt hay 0 = some i → ∃ s, Mt hay s i ∧ ∀ s' e', Mt hay s' e' → s ≤ e'
  shortest_none : ∀ {hay}, m.shortestAt hay 0 = none → ∀ s e, ¬ Mt hay s e
  /-- a match of a line taken alone is a match of every haystack of which the line is a window `[w, w + c]` that
  passes the guard `G` ("no false negatives": needed on every route) -/
  lift : ∀ (hay : Bytes) (w c : Nat), G hay w c → (w = 0 ∨ hay[w - 1]? = some t) → (w + c = hay.length ∨ hay[w + c]? = some t) →
    w + c ≤ hay.length → ∀ s e, w ≤ s → s ≤ e → e ≤ w + c →
    Mt ((hay.drop w).take c) (s - w) (e - w) → Mt hay s e
  /-- the converse ("a match found in the haystack inside a line's window is a match of the line alone") is only
  needed of a matcher that ever answers `Confirmed`; since /repo 4165f41 a pattern whose look-arounds can see beyond
  the line answers `Candidate` and the searcher judges the line itself -/
  lower : (∃ hay i, m.findCandidateLine hay = some (.confirmed i)) →
    ∀ (hay : Bytes) (w c : Nat), G hay w c → (w = 0 ∨ hay[w - 1]? = some t) → (w + c = hay.length ∨ hay[w + c]? = some t) →
    w + c ≤ hay.length → ∀ s e, w ≤ s → s ≤ e → e ≤ w + c →
    Mt hay s e → Mt ((hay.drop w).take c) (s - w) (e - w)
  cand_none : ∀ {hay}, m.findCandidateLine hay = none → ∀ s e, ¬ Mt hay s e
  cand_conf : ∀ {hay i}, m.findCandidateLine hay = some (.confirmed i) → m.shortestAt hay 0 = some i
  /-- a candidate is the end of an occurrence of a prefilter literal (not directly behind a terminator, no terminator
  between the end of any match and it), or the end of the match the engine reports (to be judged on the line) -/
  cand_cand : ∀ {hay i}, m.findCandidateLine hay = some (.candidate i) →
    (1 ≤ i ∧ i ≤ hay.length ∧ hay[i - 1]? ≠ some t ∧ ∀ s e, Mt hay s e → ∀ x, e ≤ x → x < i → hay[x]? ≠ some t) ∨
    m.shortestAt hay 0 = some i

section
variable {t : Nat} {buf : Bytes} {sl : List SLine}

/-- every position before the end lies in exactly one line -/
theorem exists_line (_L : Layout t buf sl) : ∀ (k X : Nat), k ≤ sl.length → X < offsetAt sl k →
    ∃ j, j < k ∧ offsetAt sl j ≤ X ∧ X < offsetAt sl (j + 1) := by
  intro k
  induction k with
  | zero => intro X _ h; rw [off_zero] at h; omega
  | succ k ih =>
    intro X hk hX
    by_cases h : X < offsetAt sl k
    · obtain ⟨j, h1, h2, h3⟩ := ih X (by omega) h
      exact ⟨j, by omega, h2, h3⟩
    · exact ⟨k, by omega, by omega, hX⟩

/-- the bytes of line `j` inside the buffer -/
theorem Layout.get_line (L : Layout t buf sl) (hlen : buf.length = offsetAt sl sl.length) (j a : Nat)
    (hj : j < sl.length) (ha : a < (bytesAt sl j).length) : buf[offsetAt sl j + a]? = (bytesAt sl j)[a]? := by
  obtain ⟨A, C, hbuf, hA, _, _⟩ := Searcher.Layout.split_at L hlen j hj
  rw [hbuf, ← hA, List.append_assoc, List.getElem?_append_right (by omega)]
  have : A.length + a - A.length = a := by omega
  rw [this, List.getElem?_append_left ha]

/-- a line: its content (no terminator inside), then the terminator unless it is an unterminated last line -/
theorem Layout.line_shape (L : Layout t buf sl) (hlen : buf.length = offsetAt sl sl.length) (j : Nat)
    (hj : j < sl.length) :
    t ∉ withoutTerminator (bytesAt sl j) (.byte t) ∧
    ((bytesAt sl j = withoutTerminator (bytesAt sl j) (.byte t) ++ [t]) ∨
     (bytesAt sl j = withoutTerminator (bytesAt sl j) (.byte t) ∧ j + 1 = sl.length)) := by
  obtain ⟨A, C, hbuf, hA, _, hterm⟩ := Searcher.Layout.split_at L hlen j hj
  have hwt := withoutTerminator_eq_content (.byte t) (bytesAt sl j)
  rcases hterm with ⟨body, hb, hnb⟩ | ⟨hu, hC⟩
  · have : content (.byte t) (bytesAt sl j) = body := by
      rw [hb]; simp [content, LineTerm.asByte]
    rw [hwt, this]
    exact ⟨hnb, Or.inl hb⟩
  · have hlast : (bytesAt sl j).getLast? ≠ some t := by
      intro h
      exact hu.2 (List.mem_of_getLast? h)
    have : content (.byte t) (bytesAt sl j) = bytesAt sl j := by
      simp [content, LineTerm.asByte, hlast]
    rw [hwt, this]
    refine ⟨hu.2, Or.inr ⟨rfl, ?_⟩⟩
    apply Classical.byContradiction; intro hne
    have := L.term_of_lt j (by omega)
    obtain ⟨b, hb, _⟩ := this
    exact hu.2 (by rw [hb]; simp)


/-- content of line `j` (terminator byte removed) -/
def ct (t : Nat) (sl : List SLine) (j : Nat) : Bytes := withoutTerminator (bytesAt sl j) (.byte t)

/-- the window of line `j ≥ p` inside the haystack `buf[start of line p ..]` -/
structure Win (t : Nat) (buf : Bytes) (sl : List SLine) (p j : Nat) : Prop where
  le_len : offsetAt sl j - offsetAt sl p + (ct t sl j).length ≤ (buf.drop (offsetAt sl p)).length
  slice_eq : ((buf.drop (offsetAt sl p)).drop (offsetAt sl j - offsetAt sl p)).take (ct t sl j).length = ct t sl j
  before : offsetAt sl j - offsetAt sl p = 0 ∨
    (buf.drop (offsetAt sl p))[offsetAt sl j - offsetAt sl p - 1]? = some t
  after : offsetAt sl j - offsetAt sl p + (ct t sl j).length = (buf.drop (offsetAt sl p)).length ∨
    (buf.drop (offsetAt sl p))[offsetAt sl j - offsetAt sl p + (ct t sl j).length]? = some t
  inside : ∀ x, offsetAt sl j - offsetAt sl p ≤ x → x < offsetAt sl j - offsetAt sl p + (ct t sl j).length →
    (buf.drop (offsetAt sl p))[x]? ≠ some t
  /-- where the window ends relative to the next line -/
  next : offsetAt sl j + (ct t sl j).length + 1 = offsetAt sl (j + 1) ∨
    (offsetAt sl j + (ct t sl j).length = offsetAt sl (j + 1) ∧ j + 1 = sl.length)

theorem window (L : Layout t buf sl) (hlen : buf.length = offsetAt sl sl.length) (p j : Nat) (hpj : p ≤ j)
    (hj : j < sl.length) : Win t buf sl p j := by
  have hpo : offsetAt sl p ≤ offsetAt sl j := off_mono sl hpj
  have hsucc := off_succ sl j hj
  have hjn : offsetAt sl (j + 1) ≤ buf.length := by rw [hlen]; exact off_mono sl (by omega)
  obtain ⟨hnt, hshape⟩ := Searcher.Layout.line_shape L hlen j hj
  obtain ⟨A, C, hbuf, hA, _, _⟩ := Searcher.Layout.split_at L hlen j hj
  have hget : ∀ x, (buf.drop (offsetAt sl p))[x]? = buf[offsetAt sl p + x]? := fun x => by
    rw [List.getElem?_drop]
  have hdrop : (buf.drop (offsetAt sl p)).drop (offsetAt sl j - offsetAt sl p) = bytesAt sl j ++ C := by
    rw [List.drop_drop, show offsetAt sl p + (offsetAt sl j - offsetAt sl p) = offsetAt sl j by omega, hbuf, ← hA,
      List.append_assoc, List.drop_left]
  have hlenc : (ct t sl j).length ≤ (bytesAt sl j).length := by
    rcases hshape with h | ⟨h, _⟩
    · conv => rhs; rw [h]
      unfold ct; simp
    · unfold ct; rw [← h]; exact Nat.le_refl _
  have hlen_hay : (buf.drop (offsetAt sl p)).length = buf.length - offsetAt sl p := by simp
  have hnext : offsetAt sl j + (ct t sl j).length + 1 = offsetAt sl (j + 1) ∨
      (offsetAt sl j + (ct t sl j).length = offsetAt sl (j + 1) ∧ j + 1 = sl.length) := by
    rcases hshape with h | ⟨h, hl⟩
    · left
      have : (bytesAt sl j).length = (ct t sl j).length + 1 := by
        conv => lhs; rw [h]
        unfold ct; simp
      omega
    · right
      have : (bytesAt sl j).length = (ct t sl j).length := by unfold ct; rw [← h]
      exact ⟨by omega, hl⟩
  refine ⟨by omega, ?_, ?_, ?_, ?_, hnext⟩
  · rw [hdrop]
    rcases hshape with h | ⟨h, _⟩
    · have : bytesAt sl j ++ C = ct t sl j ++ ([t] ++ C) := by
        conv => lhs; rw [h]
        unfold ct; simp
      rw [this]; exact take_len_app _ _
    · have : bytesAt sl j ++ C = ct t sl j ++ C := by
        conv => lhs; rw [h]
        rfl
      rw [this]; exact take_len_app _ _
  · by_cases hpj' : p = j
    · left; subst hpj'; omega
    · right
      have hj1 : j - 1 + 1 = j := by omega
      have hterm := L.term_of_lt (j - 1) (by omega)
      obtain ⟨b, hb, _⟩ := hterm
      have hs1 := off_succ sl (j - 1) (by omega)
      rw [hj1] at hs1
      have hlt : offsetAt sl p < offsetAt sl j := L.off_lt (by omega) (by omega)
      rw [hget, show offsetAt sl p + (offsetAt sl j - offsetAt sl p - 1)
          = offsetAt sl (j - 1) + ((bytesAt sl (j - 1)).length - 1) by
            have : 0 < (bytesAt sl (j - 1)).length := by rw [hb]; simp
            omega]
      rw [Searcher.Layout.get_line L hlen (j - 1) _ (by omega) (by rw [hb]; simp)]
      rw [hb]; simp
  · rcases hshape with h | ⟨h, hl⟩
    · right
      rw [hget, show offsetAt sl p + (offsetAt sl j - offsetAt sl p + (ct t sl j).length)
          = offsetAt sl j + (ct t sl j).length by omega]
      have hl1 : (bytesAt sl j).length = (ct t sl j).length + 1 := by
        conv => lhs; rw [h]
        unfold ct; simp
      rw [Searcher.Layout.get_line L hlen j _ hj (by omega)]
      conv => lhs; rw [h]
      unfold ct; simp
    · left
      rcases hnext with h1 | ⟨h1, h2⟩
      · have : (bytesAt sl j).length = (ct t sl j).length := by unfold ct; rw [← h]
        omega
      · rw [hlen_hay, hlen, ← h2, ← h1]; omega
  · intro x h1 h2
    rw [hget, show offsetAt sl p + x = offsetAt sl j + (x - (offsetAt sl j - offsetAt sl p)) by omega]
    have ha : x - (offsetAt sl j - offsetAt sl p) < (ct t sl j).length := by omega
    rw [Searcher.Layout.get_line L hlen j _ hj (by omega)]
    have hpre : (bytesAt sl j)[x - (offsetAt sl j - offsetAt sl p)]?
        = (ct t sl j)[x - (offsetAt sl j - offsetAt sl p)]? := by
      rcases hshape with h | ⟨h, _⟩
      · conv => lhs; rw [h]
        unfold ct at ha ⊢
        rw [List.getElem?_append_left ha]
      · conv => lhs; rw [h]
        rfl
    rw [hpre, List.getElem?_eq_getElem ha]
    intro he
    have hmem : (ct t sl j)[x - (offsetAt sl j - offsetAt sl p)] ∈ ct t sl j := List.getElem_mem ha
    simp only [Option.some.injEq] at he
    rw [he] at hmem
    exact hnt hmem


/-- a non-terminator byte of the haystack lies strictly inside the content of some line -/
theorem pos_strict (L : Layout t buf sl) (hlen : buf.length = offsetAt sl sl.length) (p x : Nat)
    (hx : x < (buf.drop (offsetAt sl p)).length) (hnt : (buf.drop (offsetAt sl p))[x]? ≠ some t) :
    ∃ j, p ≤ j ∧ j < sl.length ∧ offsetAt sl j - offsetAt sl p ≤ x ∧
      x < offsetAt sl j - offsetAt sl p + (ct t sl j).length := by
  have hl : (buf.drop (offsetAt sl p)).length = buf.length - offsetAt sl p := by simp
  obtain ⟨j, hj, h1, h2⟩ := exists_line L sl.length (offsetAt sl p + x) (Nat.le_refl _) (by omega)
  have hpj : p ≤ j := by
    apply Classical.byContradiction; intro hc
    have := off_mono sl (show j + 1 ≤ p by omega); omega
  have hpo : offsetAt sl p ≤ offsetAt sl j := off_mono sl hpj
  have W := window L hlen p j hpj hj
  refine ⟨j, hpj, hj, by omega, ?_⟩
  rcases W.next with hn | ⟨hn, _⟩
  · apply Classical.byContradiction; intro hc
    have hxe : x = offsetAt sl j - offsetAt sl p + (ct t sl j).length := by omega
    rcases W.after with ha | ha
    · omega
    · rw [← hxe] at ha; exact hnt ha
  · omega

/-- every position of the haystack lies in the window of some line, or is the end behind a final terminator -/
theorem pos_window (L : Layout t buf sl) (hlen : buf.length = offsetAt sl sl.length) (p x : Nat) (hp : p < sl.length)
    (hx : x ≤ (buf.drop (offsetAt sl p)).length) :
    (∃ j, p ≤ j ∧ j < sl.length ∧ offsetAt sl j - offsetAt sl p ≤ x ∧
      x ≤ offsetAt sl j - offsetAt sl p + (ct t sl j).length) ∨
    (x = (buf.drop (offsetAt sl p)).length ∧ Term t (bytesAt sl (sl.length - 1)) ∧
      offsetAt sl (sl.length - 1) + (ct t sl (sl.length - 1)).length + 1 = offsetAt sl sl.length) := by
  have hl : (buf.drop (offsetAt sl p)).length = buf.length - offsetAt sl p := by simp
  have hpn : offsetAt sl p ≤ buf.length := by rw [hlen]; exact off_mono sl (by omega)
  by_cases hlt : x < (buf.drop (offsetAt sl p)).length
  · left
    obtain ⟨j, hj, h1, h2⟩ := exists_line L sl.length (offsetAt sl p + x) (Nat.le_refl _) (by omega)
    have hpj : p ≤ j := by
      apply Classical.byContradiction; intro hc
      have := off_mono sl (show j + 1 ≤ p by omega); omega
    have hpo : offsetAt sl p ≤ offsetAt sl j := off_mono sl hpj
    have W := window L hlen p j hpj hj
    refine ⟨j, hpj, hj, by omega, ?_⟩
    rcases W.next with hn | ⟨hn, _⟩ <;> omega
  · have hxe : x = (buf.drop (offsetAt sl p)).length := by omega
    have hj : sl.length - 1 < sl.length := by omega
    have W := window L hlen p (sl.length - 1) (by omega) hj
    have e : sl.length - 1 + 1 = sl.length := by omega
    have hpo : offsetAt sl p ≤ offsetAt sl (sl.length - 1) := off_mono sl (by omega)
    rcases W.next with hn | ⟨hn, _⟩
    · right
      rw [e] at hn
      refine ⟨hxe, ?_, hn⟩
      obtain ⟨hnt, hshape⟩ := Searcher.Layout.line_shape L hlen (sl.length - 1) hj
      rcases hshape with h | ⟨h, _⟩
      · exact ⟨_, h, hnt⟩
      · have hs := off_succ sl (sl.length - 1) hj
        rw [e] at hs
        have : (bytesAt sl (sl.length - 1)).length = (ct t sl (sl.length - 1)).length := by unfold ct; rw [← h]
        omega
    · left
      rw [e] at hn
      exact ⟨sl.length - 1, by omega, hj, by omega, by omega⟩

theorem inLine_of_win (L : Layout t buf sl) (hlen : buf.length = offsetAt sl sl.length) (p j x : Nat) (hpj : p ≤ j)
    (hj : j < sl.length) (h1 : offsetAt sl j - offsetAt sl p ≤ x)
    (h2 : x ≤ offsetAt sl j - offsetAt sl p + (ct t sl j).length) : InLine t sl j (offsetAt sl p + x) := by
  have hpo : offsetAt sl p ≤ offsetAt sl j := off_mono sl hpj
  have W := window L hlen p j hpj hj
  obtain ⟨hnt, hshape⟩ := Searcher.Layout.line_shape L hlen j hj
  refine ⟨hj, by omega, by rcases W.next with hn | ⟨hn, _⟩ <;> omega, ?_⟩
  intro hm
  have hle : offsetAt sl p + x - offsetAt sl j ≤ (ct t sl j).length := by omega
  have hpre : (bytesAt sl j).take (offsetAt sl p + x - offsetAt sl j)
      = (ct t sl j).take (offsetAt sl p + x - offsetAt sl j) := by
    rcases hshape with h | ⟨h, _⟩
    · conv => lhs; rw [h]
      unfold ct at hle ⊢
      rw [List.take_append_of_le_length hle]
    · conv => lhs; rw [h]
      rfl
  rw [hpre] at hm
  exact hnt (List.mem_of_mem_take hm)


variable {cfg : Config} {m : MatcherI} {Mt : Bytes → Nat → Nat → Prop} {G : Bytes → Nat → Nat → Prop}

/-- every line window of the buffer passes the guard -/
def WinGuard (t : Nat) (buf : Bytes) (sl : List SLine) (G : Bytes → Nat → Nat → Prop) : Prop :=
  ∀ p j, p ≤ j → j < sl.length → G (buf.drop (offsetAt sl p)) (offsetAt sl j - offsetAt sl p) (ct t sl j).length

theorem pmLine_iff (hlt : cfg.lineTerm = .byte t) (hc : MatchContract t m Mt G) (j : Nat) :
    pmLine cfg m sl j = true ↔ ∃ s e, Mt (ct t sl j) s e := by
  unfold pmLine MatcherI.isMatch ct
  rw [hlt]
  constructor
  · intro h
    cases hs : m.shortestAt (withoutTerminator (bytesAt sl j) (.byte t)) 0 with
    | none => rw [hs] at h; cases h
    | some i => obtain ⟨s, hm, _⟩ := hc.shortest_some hs; exact ⟨s, i, hm⟩
  · rintro ⟨s, e, hm⟩
    cases hs : m.shortestAt (withoutTerminator (bytesAt sl j) (.byte t)) 0 with
    | none => exact absurd hm (hc.shortest_none hs s e)
    | some i => rfl

/-- a match inside a line taken alone is a match of the haystack, shifted into the line's window -/
theorem lift_match (L : Layout t buf sl) (hlen : buf.length = offsetAt sl sl.length) (hc : MatchContract t m Mt G)
    (hG : WinGuard t buf sl G) (p j : Nat) (hpj : p ≤ j) (hj : j < sl.length) {s e : Nat} (hm : Mt (ct t sl j) s e) :
    Mt (buf.drop (offsetAt sl p)) (s + (offsetAt sl j - offsetAt sl p)) (e + (offsetAt sl j - offsetAt sl p)) ∧
      s ≤ e ∧ e ≤ (ct t sl j).length := by
  have W := window L hlen p j hpj hj
  obtain ⟨hse, hel⟩ := hc.bounds hm
  refine ⟨?_, hse, hel⟩
  have := hc.lift (buf.drop (offsetAt sl p)) (offsetAt sl j - offsetAt sl p) (ct t sl j).length (hG p j hpj hj)
    W.before W.after W.le_len
    (s + (offsetAt sl j - offsetAt sl p)) (e + (offsetAt sl j - offsetAt sl p)) (by omega) (by omega) (by omega)
  rw [W.slice_eq, Nat.add_sub_cancel, Nat.add_sub_cancel] at this
  exact this hm

/-- a match of the haystack that stays inside a line's window is a match of the line taken alone -/
theorem lower_match (L : Layout t buf sl) (hlen : buf.length = offsetAt sl sl.length) (hc : MatchContract t m Mt G)
    (hconf : ∃ hay i, m.findCandidateLine hay = some (.confirmed i))
    (hG : WinGuard t buf sl G) (p j : Nat) (hpj : p ≤ j) (hj : j < sl.length) {s e : Nat} (hm : Mt (buf.drop (offsetAt sl p)) s e)
    (h1 : offsetAt sl j - offsetAt sl p ≤ s) (h2 : e ≤ offsetAt sl j - offsetAt sl p + (ct t sl j).length) :
    pmLine cfg m sl j = true ∨ cfg.lineTerm ≠ .byte t := by
  by_cases hlt : cfg.lineTerm = .byte t
  · left
    have W := window L hlen p j hpj hj
    obtain ⟨hse, _⟩ := hc.bounds hm
    have := hc.lower hconf (buf.drop (offsetAt sl p)) (offsetAt sl j - offsetAt sl p) (ct t sl j).length (hG p j hpj hj)
      W.before W.after W.le_len s e h1 hse h2
    rw [W.slice_eq] at this
    exact (pmLine_iff hlt hc j).2 ⟨_, _, this hm⟩
  · exact Or.inr hlt

/-- no line in `[p, j)` matches, given that every match of the haystack starts at or after `lo ≥` the window of `j` -/
theorem no_match_before (L : Layout t buf sl) (hlen : buf.length = offsetAt sl sl.length)
    (hlt : cfg.lineTerm = .byte t) (hc : MatchContract t m Mt G) (hG : WinGuard t buf sl G) (p j : Nat)
    (hj : j ≤ sl.length)
    (hlastterm : ∀ j', j' < j → j' + 1 = sl.length →
      offsetAt sl j' + (ct t sl j').length + 1 = offsetAt sl (j' + 1))
    (hleft : ∀ s' e', Mt (buf.drop (offsetAt sl p)) s' e' → offsetAt sl j - offsetAt sl p ≤ s') :
    ∀ j', p ≤ j' → j' < j → pmLine cfg m sl j' = false := by
  intro j' h1 h2
  rw [Bool.eq_false_iff]
  intro hpm
  obtain ⟨s, e, hm⟩ := (pmLine_iff hlt hc j').1 hpm
  obtain ⟨hl, hse, hel⟩ := lift_match L hlen hc hG p j' h1 (by omega) hm
  have := hleft _ _ hl
  have W := window L hlen p j' h1 (by omega)
  have hpo : offsetAt sl p ≤ offsetAt sl j' := off_mono sl h1
  have hjj : offsetAt sl (j' + 1) ≤ offsetAt sl j := off_mono sl (by omega)
  rcases W.next with hn | ⟨hn, hl2⟩
  · omega
  · have := hlastterm j' h2 hl2; omega

/-- where the end `i` of the match the engine reports on `buf[start of line p ..]` lies: inside the window of a line `j`
together with its start (no line before `j` matches), or behind the final terminator (no line matches at all) -/
theorem shortest_line (L : Layout t buf sl) (hlen : buf.length = offsetAt sl sl.length)
    (hlt : cfg.lineTerm = .byte t) (hc : MatchContract t m Mt G) (hG : WinGuard t buf sl G) (p : Nat) (hp : p < sl.length)
    {i : Nat} (hshort : m.shortestAt (buf.drop (offsetAt sl p)) 0 = some i) :
    (∃ j s, p ≤ j ∧ j < sl.length ∧ InLine cfg.lineTerm.asByte sl j (offsetAt sl p + i) ∧
        Mt (buf.drop (offsetAt sl p)) s i ∧ offsetAt sl j - offsetAt sl p ≤ s ∧
        i ≤ offsetAt sl j - offsetAt sl p + (ct t sl j).length ∧
        ∀ j', p ≤ j' → j' < j → pmLine cfg m sl j' = false) ∨
    (offsetAt sl p + i = buf.length ∧ Term cfg.lineTerm.asByte (bytesAt sl (sl.length - 1)) ∧
      ∀ j, p ≤ j → j < sl.length → pmLine cfg m sl j = false) := by
  have hasb : cfg.lineTerm.asByte = t := by rw [hlt]; rfl
  obtain ⟨s, hm, hleft⟩ := hc.shortest_some hshort
  obtain ⟨hsi, hil⟩ := hc.bounds hm
  rcases pos_window L hlen p s hp (by omega) with ⟨j, hpj, hj, hw1, hw2⟩ | ⟨hse, hterm, hnx⟩
  · left
    have W := window L hlen p j hpj hj
    -- the match cannot run past the end of the line's content
    have hie : i ≤ offsetAt sl j - offsetAt sl p + (ct t sl j).length := by
      apply Classical.byContradiction; intro hgt
      rcases W.after with ha | ha
      · omega
      · exact hc.noTerm hm _ hw2 (by omega) ha
    refine ⟨j, s, hpj, hj, ?_, hm, hw1, hie, ?_⟩
    · rw [hasb]; exact inLine_of_win L hlen p j i hpj hj (by omega) hie
    · exact no_match_before L hlen hlt hc hG p j (by omega) (fun j' h1 h2 => by omega)
        (fun s' e' h' => by
          -- a match starting before line `j` would end at or after `s` (hleft), hence contain the terminator
          -- that precedes line `j`
          have hle := hleft s' e' h'
          apply Classical.byContradiction; intro hlt'
          rcases W.before with hb | hb
          · omega
          · exact hc.noTerm h' _ (by omega) (by omega) hb)
  · right
    have hl : (buf.drop (offsetAt sl p)).length = buf.length - offsetAt sl p := by simp
    have hpn : offsetAt sl p ≤ buf.length := by rw [hlen]; exact off_mono sl (by omega)
    refine ⟨by omega, by rw [hasb]; exact hterm, ?_⟩
    have hnb := no_match_before L hlen hlt hc hG p sl.length (Nat.le_refl _)
      (fun j' h1 h2 => by
        have : j' = sl.length - 1 := by omega
        subst this
        have e : sl.length - 1 + 1 = sl.length := by omega
        rw [e]; exact hnx)
      (fun s' e' h' => by
        -- a match ending at the very end of a terminated buffer but starting earlier would contain the final terminator
        have hle := hleft s' e' h'
        have hb' := hc.bounds h'
        rw [← hlen]
        apply Classical.byContradiction; intro hlt'
        have hjl : sl.length - 1 < sl.length := by omega
        have W := window L hlen p (sl.length - 1) (by omega) hjl
        have hpo : offsetAt sl p ≤ offsetAt sl (sl.length - 1) := off_mono sl (by omega)
        rcases W.after with ha | ha
        · omega
        · exact hc.noTerm h' _ (by omega) (by omega) ha)
    exact fun j h1 h2 => hnb j h1 h2

/-- **the matcher-level contract makes the matcher line safe on every buffer** (one-byte terminator) -/
theorem lineSafe_of_contract (L : Layout t buf sl) (hlen : buf.length = offsetAt sl sl.length)
    (hlt : cfg.lineTerm = .byte t) (hc : MatchContract t m Mt G) (hG : WinGuard t buf sl G) :
    LineSafe cfg m buf sl := by
  have hasb : cfg.lineTerm.asByte = t := by rw [hlt]; rfl
  constructor
  · -- none
    intro p hp hnone j hpj hj
    rw [Bool.eq_false_iff]
    intro hpm
    obtain ⟨s, e, hm⟩ := (pmLine_iff hlt hc j).1 hpm
    exact hc.cand_none hnone _ _ (lift_match L hlen hc hG p j hpj hj hm).1
  · -- confirmed
    intro p i hp hconf
    rcases shortest_line (cfg := cfg) L hlen hlt hc hG p hp (hc.cand_conf hconf) with
      ⟨j, s, hpj, hj, hin, hm, hw1, hie, hbefore⟩ | hend
    · left
      refine ⟨j, hpj, hin, ?_, hbefore⟩
      rcases lower_match (cfg := cfg) L hlen hc ⟨_, _, hconf⟩ hG p j hpj hj hm hw1 hie with h | h
      · exact h
      · exact absurd hlt h
    · exact Or.inr hend
  · -- candidate
    intro p i hp hcand
    rcases hc.cand_cand hcand with ⟨hi1, hil, hnt, hnot⟩ | hshort
    · obtain ⟨j, hpj, hj, hw1, hw2⟩ := pos_strict L hlen p (i - 1) (by omega) hnt
      refine Or.inl ⟨j, hpj, ?_, ?_⟩
      · rw [hasb]; exact inLine_of_win L hlen p j i hpj hj (by omega) (by omega)
      · intro j' h1 h2
        rw [Bool.eq_false_iff]
        intro hpm
        obtain ⟨s, e, hm⟩ := (pmLine_iff hlt hc j').1 hpm
        obtain ⟨hl, hse, hel⟩ := lift_match L hlen hc hG p j' h1 (by omega) hm
        have W := window L hlen p j' h1 (by omega)
        have hpo : offsetAt sl p ≤ offsetAt sl j' := off_mono sl h1
        have hjj : offsetAt sl (j' + 1) ≤ offsetAt sl j := off_mono sl (by omega)
        rcases W.next with hn | ⟨hn, hl2⟩
        · rcases W.after with ha | ha
          · have hl' : (buf.drop (offsetAt sl p)).length = buf.length - offsetAt sl p := by simp
            omega
          · exact hnot _ _ hl _ (by omega) (by omega) ha
        · omega
    · -- the end of the engine's match: the searcher judges the line, only "no matching line before it" is needed
      rcases shortest_line (cfg := cfg) L hlen hlt hc hG p hp hshort with
        ⟨j, s, hpj, hj, hin, _, _, _, hbefore⟩ | hend
      · exact Or.inl ⟨j, hpj, hin, hbefore⟩
      · exact Or.inr hend

end
end RgVerif.Searcher
