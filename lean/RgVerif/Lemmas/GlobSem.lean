import RgVerif.Model.GlobSet
/-
Semantic lemmas about the token matcher of `Model/Glob.lean`: what each `tokRests` produces,
how `tokensK` distributes over append, and that continuations only ever see suffixes of the path.
-/
namespace RgVerif.Glob

/-! ### UTF-8 bytes of characters -/

theorem utf8Enc_ne_nil (c : Nat) : utf8Enc c ≠ [] := by
  unfold utf8Enc; split <;> (try split) <;> (try split) <;> simp

/-- a byte below 128 occurs in the encoding of `c` only if it is `c` -/
theorem mem_utf8Enc_lt {c b : Nat} (hb : b < 128) (h : b ∈ utf8Enc c) : b = c := by
  unfold utf8Enc at h
  split at h
  · simpa using h
  · split at h
    · simp at h; omega
    · split at h
      · simp at h; omega
      · simp at h; omega

theorem mem_utf8Str_lt {cs : List Nat} {b : Nat} (hb : b < 128) (h : b ∈ utf8Str cs) : b ∈ cs := by
  unfold utf8Str at h
  rw [List.mem_flatMap] at h
  obtain ⟨c, hc, hbc⟩ := h
  have := mem_utf8Enc_lt hb hbc
  subst this; exact hc

theorem utf8Str_nil : utf8Str [] = [] := rfl
theorem utf8Str_cons (c : Nat) (cs : List Nat) : utf8Str (c :: cs) = utf8Enc c ++ utf8Str cs := by
  simp [utf8Str]
theorem utf8Str_append (a b : List Nat) : utf8Str (a ++ b) = utf8Str a ++ utf8Str b := by
  simp [utf8Str]

theorem utf8Str_eq_nil {cs : List Nat} : utf8Str cs = [] ↔ cs = [] := by
  cases cs with
  | nil => simp [utf8Str]
  | cons c cs =>
    simp only [utf8Str_cons, List.append_eq_nil_iff, reduceCtorEq, iff_false, not_and]
    intro h; exact absurd h (utf8Enc_ne_nil c)

theorem utf8Enc_47 : utf8Enc 47 = [47] := by simp [utf8Enc]
theorem utf8Enc_46 : utf8Enc 46 = [46] := by simp [utf8Enc]

/-! ### pieces -/

theorem litRest_false_iff (xs p r : Bytes) : litRest false xs p = some r ↔ p = xs ++ r := by
  induction xs generalizing p with
  | nil => simp [litRest, eq_comm]
  | cons x xs ih =>
    cases p with
    | nil => simp [litRest]
    | cons b p =>
      simp only [litRest, eqB, Bool.false_eq_true, ↓reduceIte, beq_iff_eq, List.cons_append,
        List.cons.injEq]
      split
      · rename_i h; simp [ih, h]
      · rename_i h; simp; intro h'; exact absurd h'.symm h

theorem mem_starRests {ok : Nat → Bool} {p r : Bytes} :
    r ∈ starRests ok p ↔ ∃ x, p = x ++ r ∧ ∀ b ∈ x, ok b = true := by
  induction p with
  | nil =>
    simp only [starRests, List.mem_singleton]
    constructor
    · intro h; exact ⟨[], by simp [h], by simp⟩
    · rintro ⟨x, hx, _⟩
      have := List.append_eq_nil_iff.mp hx.symm
      exact this.2
  | cons b p ih =>
    simp only [starRests, List.mem_cons]
    constructor
    · rintro (h | h)
      · exact ⟨[], by simp [h], by simp⟩
      · split at h
        · rename_i hb
          obtain ⟨x, hx, hall⟩ := ih.mp h
          refine ⟨b :: x, by simp [hx], ?_⟩
          intro c hc
          rcases List.mem_cons.mp hc with rfl | hc
          · exact hb
          · exact hall c hc
        · simp at h
    · rintro ⟨x, hx, hall⟩
      cases x with
      | nil => left; simpa using hx.symm
      | cons c x =>
        simp only [List.cons_append, List.cons.injEq] at hx
        obtain ⟨rfl, hx⟩ := hx
        right
        have hb : ok b = true := hall b (by simp)
        simp only [hb, ↓reduceIte]
        exact ih.mpr ⟨x, hx, fun c hc => hall c (by simp [hc])⟩

theorem mem_starRests_true {p r : Bytes} : r ∈ starRests (fun _ => true) p ↔ ∃ x, p = x ++ r := by
  rw [mem_starRests]; simp

theorem mem_afterSlashes {p r : Bytes} : r ∈ afterSlashes p ↔ ∃ x, p = x ++ 47 :: r := by
  induction p with
  | nil => simp [afterSlashes]
  | cons b p ih =>
    simp only [afterSlashes, List.mem_append]
    constructor
    · rintro (h | h)
      · split at h
        · rename_i hb
          simp only [List.mem_singleton] at h
          have : b = 47 := by simpa using hb
          exact ⟨[], by simp [h, this]⟩
        · simp at h
      · obtain ⟨x, hx⟩ := ih.mp h
        exact ⟨b :: x, by simp [hx]⟩
    · rintro ⟨x, hx⟩
      cases x with
      | nil =>
        simp only [List.nil_append, List.cons.injEq] at hx
        left; simp [hx.1, hx.2]
      | cons c x =>
        simp only [List.cons_append, List.cons.injEq] at hx
        right; exact ih.mpr ⟨x, hx.2⟩

/-- every remainder a token can leave is a suffix of the path -/
theorem tokRests_suffix (o : Opts) (t : Tok) {p r : Bytes} (h : r ∈ tokRests o t p) : r <:+ p := by
  cases t with
  | lit c =>
    simp only [tokRests, Option.mem_toList] at h
    -- by induction on the literal
    have key : ∀ (xs p r : Bytes), litRest o.ci xs p = some r → r <:+ p := by
      intro xs
      induction xs with
      | nil => intro p r h; simp [litRest] at h; simp [h]
      | cons x xs ih =>
        intro p r h
        cases p with
        | nil => simp [litRest] at h
        | cons b p =>
          simp only [litRest] at h
          split at h
          · exact (ih p r h).trans (List.suffix_cons b p)
          · simp at h
    exact key _ _ _ h
  | any =>
    cases p with
    | nil => simp [tokRests] at h
    | cons b p =>
      simp only [tokRests] at h
      split at h
      · simp at h; subst h; exact List.suffix_cons b _
      · simp at h
  | star =>
    obtain ⟨x, hx, _⟩ := mem_starRests.mp h
    exact ⟨x, hx.symm⟩
  | recPrefix =>
    simp only [tokRests, List.mem_cons] at h
    rcases h with rfl | h
    · exact List.suffix_refl _
    · obtain ⟨x, hx⟩ := mem_afterSlashes.mp h
      exact ⟨x ++ [47], by simp [hx]⟩
  | recSuffix =>
    cases p with
    | nil => simp [tokRests] at h
    | cons b p =>
      simp only [tokRests] at h
      split at h
      · obtain ⟨x, hx⟩ := mem_starRests_true.mp h
        exact ⟨b :: x, by simp [hx]⟩
      · simp at h
  | recZero =>
    cases p with
    | nil => simp [tokRests] at h
    | cons b p =>
      simp only [tokRests] at h
      split at h
      · simp only [List.mem_cons] at h
        rcases h with rfl | h
        · exact List.suffix_cons b _
        · obtain ⟨x, hx⟩ := mem_afterSlashes.mp h
          exact ⟨b :: x ++ [47], by simp [hx]⟩
      · simp at h
  | cls neg rs =>
    cases p with
    | nil => simp [tokRests] at h
    | cons b p =>
      simp only [tokRests] at h
      split at h
      · simp at h; subst h; exact List.suffix_cons b _
      · simp at h

/-! ### sequences -/

theorem seqK_append (o : Opts) (a b : List Tok) (k : Bytes → Bool) (p : Bytes) :
    seqK o (a ++ b) k p = seqK o a (seqK o b k) p := by
  induction a generalizing p with
  | nil => rfl
  | cons t ts ih => simp only [List.cons_append, seqK]; congr 1; funext r; exact ih r

theorem tokensK_append (o : Opts) (a b : List Token) (k : Bytes → Bool) (p : Bytes) :
    tokensK o (a ++ b) k p = tokensK o a (tokensK o b k) p := by
  induction a generalizing p with
  | nil => rfl
  | cons t ts ih =>
    cases t with
    | s t => simp only [List.cons_append, tokensK]; congr 1; funext r; exact ih r
    | alts bs =>
      simp only [List.cons_append, tokensK]
      split
      · exact ih p
      · congr 1; funext b; congr 1; funext r; exact ih r

theorem seqK_suffix (o : Opts) (ts : List Tok) (k : Bytes → Bool) (p : Bytes)
    (h : seqK o ts k p = true) : ∃ r, r <:+ p ∧ k r = true := by
  induction ts generalizing p with
  | nil => exact ⟨p, List.suffix_refl _, h⟩
  | cons t ts ih =>
    simp only [seqK, List.any_eq_true] at h
    obtain ⟨r, hr, hk⟩ := h
    obtain ⟨r', hr', hk'⟩ := ih r hk
    exact ⟨r', hr'.trans (tokRests_suffix o t hr), hk'⟩

/-- continuations are only ever asked about suffixes of the path -/
theorem tokensK_suffix (o : Opts) (ts : List Token) (k : Bytes → Bool) (p : Bytes)
    (h : tokensK o ts k p = true) : ∃ r, r <:+ p ∧ k r = true := by
  induction ts generalizing p with
  | nil => exact ⟨p, List.suffix_refl _, h⟩
  | cons t ts ih =>
    cases t with
    | s t =>
      simp only [tokensK, List.any_eq_true] at h
      obtain ⟨r, hr, hk⟩ := h
      obtain ⟨r', hr', hk'⟩ := ih r hk
      exact ⟨r', hr'.trans (tokRests_suffix o t hr), hk'⟩
    | alts bs =>
      simp only [tokensK] at h
      split at h
      · exact ih p h
      · simp only [List.any_eq_true] at h
        obtain ⟨b, _, hb⟩ := h
        obtain ⟨r, hr, hk⟩ := seqK_suffix o b _ p hb
        obtain ⟨r', hr', hk'⟩ := ih r hk
        exact ⟨r', hr'.trans hr, hk'⟩

/-! ### literal runs -/

/-- the tokens `Literal(c)` for each `c` of a string -/
def lits (cs : List Nat) : List Token := cs.map fun c => .s (.lit c)

theorem allLits_eq_some {ts : List Token} {l : List Nat} (h : allLits ts = some l) : ts = lits l := by
  induction ts generalizing l with
  | nil => simp [allLits] at h; subst h; rfl
  | cons t ts ih =>
    cases t with
    | alts bs => simp [allLits] at h
    | s t =>
      cases t <;> simp [allLits] at h
      rename_i c
      obtain ⟨l', hl', rfl⟩ := h
      simp [lits, ih hl']

theorem allLits_lits (l : List Nat) : allLits (lits l) = some l := by
  induction l with
  | nil => rfl
  | cons c l ih => simp [lits, allLits] at *; exact ih

/-- with case folding off, a run of literal tokens strips exactly its UTF-8 bytes -/
theorem tokensK_lits (o : Opts) (hci : o.ci = false) (l : List Nat) (ts : List Token)
    (k : Bytes → Bool) (p : Bytes) :
    tokensK o (lits l ++ ts) k p = true ↔ ∃ r, p = utf8Str l ++ r ∧ tokensK o ts k r = true := by
  induction l generalizing p with
  | nil => simp [lits, utf8Str]
  | cons c l ih =>
    simp only [lits, List.map_cons, List.cons_append, tokensK, tokRests, hci, List.any_eq_true,
      Option.mem_toList, utf8Str_cons, List.append_assoc]
    constructor
    · rintro ⟨r, hr, hk⟩
      have := (litRest_false_iff _ _ _).mp hr
      obtain ⟨r', hr', hk'⟩ := (ih r).mp hk
      exact ⟨r', by rw [this, hr'], hk'⟩
    · rintro ⟨r, hr, hk⟩
      refine ⟨utf8Str l ++ r, (litRest_false_iff _ _ _).mpr hr, ?_⟩
      exact (ih _).mpr ⟨r, rfl, hk⟩

theorem tokensK_lits_end (o : Opts) (hci : o.ci = false) (l : List Nat) (p : Bytes) :
    tokensK o (lits l) (fun r => r.isEmpty) p = true ↔ p = utf8Str l := by
  have := tokensK_lits o hci l [] (fun r => r.isEmpty) p
  simp only [List.append_nil, tokensK, List.isEmpty_iff] at this
  rw [this]
  constructor
  · rintro ⟨r, hr, rfl⟩; simpa using hr
  · intro h; exact ⟨[], by simp [h], rfl⟩

/-- unless the token list is the single `**`, `tokMatch` is the sequence matcher anchored at the end -/
theorem tokMatch_eq (o : Opts) (toks : List Token) (p : Bytes) (h : toks ≠ [.s .recPrefix]) :
    tokMatch o toks p = tokensK o toks (fun r => r.isEmpty) p := by
  unfold tokMatch
  split
  · exact absurd rfl h
  · rfl

end RgVerif.Glob
