import RgVerif.Lemmas.SearcherTop
/-
Consequences of the grep model's form (`Spec/Grep.lean`): numbering, order/uniqueness, byte count.
They are facts about `grepSpecLines`; `Props/C03.lean` transfers them to the model's event stream.
-/
namespace RgVerif.GrepSpec
open RgVerif RgVerif.Matcher RgVerif.Lines RgVerif.Searcher

/-- the byte offset carried by a delivered line -/
def evOff : Event → Option Nat
  | .matched _ off _ => some off
  | .context _ _ off _ => some off
  | _ => none

/-- the line number carried by a delivered line -/
def evLine : Event → Option (Option Nat)
  | .matched ln _ _ => some ln
  | .context _ ln _ _ => some ln
  | _ => none

def evBytes : Event → Option Bytes
  | .matched _ _ bs => some bs
  | .context _ _ _ bs => some bs
  | _ => none

theorem mem_lineEvents {cfg : Config} {sl : List SLine} {i : Nat} {ev : Event} (h : ev ∈ lineEvents cfg sl i) :
    ev = Event.contextBreak ∨ ∃ k, kindAt cfg sl i = some k ∧ ev = evOf cfg sl i k := by
  unfold lineEvents at h
  cases hk : kindAt cfg sl i with
  | none => simp [hk] at h
  | some k =>
    simp only [hk] at h
    rcases List.mem_append.mp h with h1 | h1
    · left; split at h1 <;> simp at h1; exact h1
    · right
      refine ⟨k, rfl, ?_⟩
      cases k <;> simpa [evOf] using h1

/-- **numbers are true**: every delivered line is some line `i` of the (effective) input, with its true
1-based number, its true starting offset and its own bytes. -/
theorem spec_numbers_true (cfg : Config) (sl0 : List SLine) (ev : Event) (h : ev ∈ grepSpecLines cfg sl0)
    (off : Nat) (ho : evOff ev = some off) :
    ∃ i, i < (effective cfg sl0).length ∧ off = offsetAt (effective cfg sl0) i ∧
      evLine ev = some (lineNo cfg i) ∧ evBytes ev = some (bytesAt (effective cfg sl0) i) := by
  rw [Searcher.grepSpecLines_eq] at h
  simp only [List.cons_append, List.mem_cons, List.mem_append, List.mem_flatMap, List.mem_range,
    List.mem_singleton, List.not_mem_nil, or_false] at h
  rcases h with rfl | ⟨i, hi, hev⟩ | rfl
  · simp [evOff] at ho
  · rcases mem_lineEvents hev with rfl | ⟨k, _, rfl⟩
    · simp [evOff] at ho
    · refine ⟨i, hi, ?_, ?_, ?_⟩ <;> cases k <;> simp_all [evOf, evOff, evLine, evBytes]
  · simp [evOff] at ho

/-- **byte count**: a search that is not cut short by `stop_on_nonmatch` ends with `finish(total length)`. -/
theorem spec_bytecount_full (cfg : Config) (sel : Bytes → Bool) (inp : Bytes) (h : cfg.stopOnNonmatch = false) :
    (grepSpec cfg sel inp).getLast? = some (Event.finish inp.length none) := by
  unfold grepSpec
  rw [Searcher.grepSpecLines_eq]
  simp only [effective, h, Bool.false_eq_true, if_false]
  rw [List.getLast?_append]
  have h1 : (lsOf ((splitLines cfg.lineTerm.asByte inp).map fun l => (l, sel l))).flatten = inp := by
    simp [lsOf, List.map_map, Function.comp_def, splitLines_flatten]
  have : offsetAt ((splitLines cfg.lineTerm.asByte inp).map fun l => (l, sel l))
      ((splitLines cfg.lineTerm.asByte inp).map fun l => (l, sel l)).length = inp.length := by
    rw [← off_flat, ← lsOf_length, List.take_length, h1]
  simp only [List.length_map] at this
  simp [this]

theorem filterMap_lineEvents (cfg : Config) (sl : List SLine) (i : Nat) :
    (lineEvents cfg sl i).filterMap evOff = if delivered cfg sl i then [offsetAt sl i] else [] := by
  unfold lineEvents delivered
  cases hk : kindAt cfg sl i with
  | none => simp
  | some k =>
    simp only [Option.isSome_some, if_true, List.filterMap_append]
    have : (if breakBefore cfg sl i = true then [Event.contextBreak] else []).filterMap evOff = [] := by
      split <;> simp [evOff]
    rw [this]
    cases k <;> simp [evOff]

/-- offsets of the delivered lines among the first `n` lines -/
def deliveredOffs (cfg : Config) (sl : List SLine) (n : Nat) : List Nat :=
  (List.range n).flatMap fun i => if delivered cfg sl i then [offsetAt sl i] else []

theorem deliveredOffs_lt {t : Nat} {buf : Bytes} {cfg : Config} {sl : List SLine} (L : Layout t buf sl) :
    ∀ (n : Nat), n ≤ sl.length → ∀ x ∈ deliveredOffs cfg sl n, x < offsetAt sl n := by
  intro n hn x hx
  simp only [deliveredOffs, List.mem_flatMap, List.mem_range] at hx
  obtain ⟨i, hi, hx⟩ := hx
  split at hx
  · simp at hx; subst hx; exact L.off_lt hi hn
  · simp at hx

theorem deliveredOffs_sorted {t : Nat} {buf : Bytes} {cfg : Config} {sl : List SLine} (L : Layout t buf sl) :
    ∀ (n : Nat), n ≤ sl.length → (deliveredOffs cfg sl n).Pairwise (· < ·) := by
  intro n
  induction n with
  | zero => intro _; simp [deliveredOffs]
  | succ n ih =>
    intro hn
    have ih' := ih (by omega)
    unfold deliveredOffs at *
    rw [flatMap_range_succ']
    rw [List.pairwise_append]
    refine ⟨ih', ?_, ?_⟩
    · split <;> simp
    · intro a ha b hb
      have h1 := deliveredOffs_lt (cfg := cfg) L n (by omega) a ha
      split at hb
      · simp at hb; subst hb; exact h1
      · simp at hb
where
  flatMap_range_succ' {α : Type} (f : Nat → List α) (j : Nat) :
      (List.range (j + 1)).flatMap f = (List.range j).flatMap f ++ f j := by
    rw [List.range_succ, List.flatMap_append]; simp

/-- **order and uniqueness**: the offsets of the delivered lines, in delivery order, are strictly
increasing — results come in input order and no line is delivered twice. -/
theorem spec_sorted_nodup (cfg : Config) (sel : Bytes → Bool) (inp : Bytes) :
    ((grepSpec cfg sel inp).filterMap evOff).Pairwise (· < ·) := by
  unfold grepSpec
  obtain ⟨rest, hpre, _, _⟩ := effective_spec cfg ((splitLines cfg.lineTerm.asByte inp).map fun l => (l, sel l))
  have Lf := layout_splitLines cfg.lineTerm.asByte inp sel
  rw [Searcher.grepSpecLines_eq]
  generalize effective cfg ((splitLines cfg.lineTerm.asByte inp).map fun l => (l, sel l)) = sl at *
  rw [hpre] at Lf
  have L : Layout cfg.lineTerm.asByte inp sl := Searcher.Layout.prefix Lf
  have : (Event.begin :: (List.range sl.length).flatMap (lineEvents cfg sl) ++
      [Event.finish (offsetAt sl sl.length) none]).filterMap evOff = deliveredOffs cfg sl sl.length := by
    simp only [List.cons_append, List.filterMap_cons, evOff, List.filterMap_append, List.filterMap_nil,
      List.append_nil, deliveredOffs, List.filterMap_flatMap]
    congr 1
    funext i
    exact filterMap_lineEvents cfg sl i
  rw [this]
  exact deliveredOffs_sorted L sl.length (Nat.le_refl _)

/-- **context windows are exact** (the per-line form of the model, spelled out): a line is delivered iff it
is selected, or lies at most `A` lines after or (passthru off) at most `B` lines before a selected line, or
passthru is on. -/
theorem spec_context_exact (cfg : Config) (sl : List SLine) (i : Nat) :
    delivered cfg sl i = true ↔
      (selAt sl i = true ∨ (∃ j, j < i ∧ selAt sl j = true ∧ i - j ≤ cfg.afterContext) ∨ cfg.passthru = true ∨
        ∃ j, i < j ∧ selAt sl j = true ∧ j - i ≤ cfg.beforeContext) := by
  unfold delivered kindAt
  have hb : beforeWin cfg.beforeContext sl i = true ↔ ∃ j, i < j ∧ selAt sl j = true ∧ j - i ≤ cfg.beforeContext := by
    rw [beforeWin_iff]
    constructor
    · rintro ⟨d, hd, hs⟩; exact ⟨i + 1 + d, by omega, hs, by omega⟩
    · rintro ⟨j, h1, h2, h3⟩
      exact ⟨j - i - 1, by omega, by have : i + 1 + (j - i - 1) = j := by omega
                                     rw [this]; exact h2⟩
  rw [← afterWin_iff, ← hb]
  cases selAt sl i <;> cases afterWin cfg.afterContext sl i <;> cases cfg.passthru <;>
    cases beforeWin cfg.beforeContext sl i <;> simp

/-- **separators**: a break is signalled before delivered line `i` iff context is enabled, line `i - 1` is
not delivered and an earlier line is: exactly between non-adjacent groups. -/
theorem spec_break_iff_gap (cfg : Config) (sl : List SLine) (i : Nat) (hd : delivered cfg sl i = true) :
    Event.contextBreak ∈ lineEvents cfg sl i ↔
      ((cfg.beforeContext > 0 ∨ cfg.afterContext > 0) ∧ i ≥ 1 ∧ delivered cfg sl (i - 1) = false ∧
        ∃ j, j < i ∧ delivered cfg sl j = true) := by
  unfold delivered at hd
  cases hk : kindAt cfg sl i with
  | none => simp [hk] at hd
  | some k =>
    rw [lineEvents_some hk]
    have hne : Event.contextBreak ≠ evOf cfg sl i k := by cases k <;> simp [evOf]
    simp only [List.mem_append, List.mem_singleton, hne, or_false]
    unfold breakBefore anyContext
    rw [← any_range_delivered]
    cases hb1 : decide (cfg.beforeContext > 0) <;> cases hb2 : decide (cfg.afterContext > 0) <;>
      cases h1 : decide (i ≥ 1) <;> cases h2 : delivered cfg sl (i - 1) <;>
      cases h3 : (List.range i).any (delivered cfg sl) <;>
      simp_all

end RgVerif.GrepSpec
