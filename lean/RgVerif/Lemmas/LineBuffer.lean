import RgVerif.Model.LineBuffer
/-
Helper lemmas and the invariant of the roll buffer (used by Props/C02 and Props/C14).

Ghost decomposition: `inp = a ++ (m ++ rest)` where
  * `a`    raw bytes already consumed by the caller (`a.length = abs`),
  * `m`    raw bytes currently held in `buf[pos..end]` (`buf.drop pos = tr m`),
  * `rest` raw bytes not delivered (the reader's remaining data, unless a `Quit` byte stopped the buffer).
-/
namespace RgVerif.LineBuffer
open RgVerif

/-! ### byte search -/

theorem findByte_none_iff (b : Nat) (xs : Bytes) : findByte b xs = none ↔ b ∉ xs := by
  induction xs with
  | nil => simp [findByte]
  | cons x xs ih =>
    unfold findByte
    by_cases h : x = b
    · simp [h]
    · have h' : ¬ b = x := fun e => h e.symm
      simp [h, h', ih]

theorem findByte_some (b : Nat) (xs : Bytes) (i : Nat) (h : findByte b xs = some i) :
    i < xs.length ∧ xs.drop i = b :: xs.drop (i + 1) ∧ b ∉ xs.take i := by
  induction xs generalizing i with
  | nil => simp [findByte] at h
  | cons x xs ih =>
    unfold findByte at h
    by_cases hx : x = b
    · simp [hx] at h
      subst h
      simp [hx]
    · simp [hx] at h
      obtain ⟨j, hj, rfl⟩ := h
      obtain ⟨h1, h2, h3⟩ := ih j hj
      refine ⟨by simp; omega, by simpa using h2, ?_⟩
      have hx' : ¬ b = x := fun e => hx e.symm
      simp [List.take_succ_cons, hx', h3]

theorem findByte_append (b : Nat) (xs ys : Bytes) :
    findByte b (xs ++ ys) =
      match findByte b xs with
      | some i => some i
      | none => (findByte b ys).map (· + xs.length) := by
  induction xs with
  | nil => simp [findByte]
  | cons x xs ih =>
    simp only [List.cons_append, findByte]
    by_cases hx : x = b
    · simp [hx]
    · simp only [hx, if_false, ih]
      cases h : findByte b xs with
      | some i => simp
      | none =>
        cases h2 : findByte b ys with
        | none => simp
        | some j => simp; omega

theorem rfindByte_none (b : Nat) (xs : Bytes) (h : rfindByte b xs = none) : b ∉ xs := by
  induction xs with
  | nil => simp
  | cons y ys ihy =>
    unfold rfindByte at h
    cases h3 : rfindByte b ys with
    | some k => simp [h3] at h
    | none =>
      simp only [h3] at h
      by_cases hyb : y = b
      · simp [hyb] at h
      · have hyb' : ¬ b = y := fun e => hyb e.symm
        simp [hyb', ihy h3]

theorem rfindByte_some (b : Nat) (xs : Bytes) (i : Nat) (h : rfindByte b xs = some i) :
    i < xs.length ∧ xs[i]? = some b ∧ b ∉ xs.drop (i + 1) := by
  induction xs generalizing i with
  | nil => simp [rfindByte] at h
  | cons x xs ih =>
    unfold rfindByte at h
    cases h2 : rfindByte b xs with
    | some j =>
      simp [h2] at h
      subst h
      obtain ⟨h1, h3, h4⟩ := ih j h2
      exact ⟨by simp; omega, by simpa using h3, by simpa using h4⟩
    | none =>
      simp only [h2] at h
      by_cases hx : x = b
      · simp [hx] at h
        subst h
        have : b ∉ xs := rfindByte_none b xs h2
        simp [hx, this]
      · simp [hx] at h

/-! ### replace_bytes -/

theorem replaceTail_eq_map (src repl : Nat) (xs : Bytes) :
    replaceTail src repl xs = xs.map (convByte src repl) := by
  induction xs with
  | nil => rfl
  | cons x xs ih => simp [replaceTail, convByte, ih]

theorem map_conv_of_not_mem (b lt : Nat) (xs : Bytes) (h : b ∉ xs) :
    xs.map (convByte b lt) = xs := by
  induction xs with
  | nil => rfl
  | cons x xs ih =>
    have hx : ¬ x = b := fun e => h (by simp [e])
    have hr : b ∉ xs := fun e => h (by simp [e])
    simp [convByte, hx, ih hr]

theorem map_conv_self (b : Nat) (xs : Bytes) : xs.map (convByte b b) = xs := by
  induction xs with
  | nil => rfl
  | cons x xs ih =>
    simp only [List.map_cons, ih, convByte]
    by_cases hx : x = b <;> simp [hx]

/-- `replace_bytes` rewrites the slice to `map (convByte src repl)`. -/
theorem replaceBytes_fst (bytes : Bytes) (src repl : Nat) :
    (replaceBytes bytes src repl).1 = bytes.map (convByte src repl) := by
  unfold replaceBytes
  by_cases h : src = repl
  · simp [h, map_conv_self]
  · simp only [h, if_false]
    cases hf : findByte src bytes with
    | none =>
      have := (findByte_none_iff src bytes).1 hf
      simp [map_conv_of_not_mem _ _ _ this]
    | some first =>
      obtain ⟨h1, h2, h3⟩ := findByte_some _ _ _ hf
      simp only [replaceTail_eq_map]
      conv => rhs; rw [← List.take_append_drop first bytes, h2]
      simp [map_conv_of_not_mem _ _ _ h3, convByte]

/-- … and returns the offset of the first occurrence (nothing when `src = replacement`). -/
theorem replaceBytes_snd (bytes : Bytes) (src repl : Nat) (h : src ≠ repl) :
    (replaceBytes bytes src repl).2 = findByte src bytes := by
  unfold replaceBytes
  simp only [h, if_false]
  cases hf : findByte src bytes <;> simp

theorem replaceBytes_snd_self (bytes : Bytes) (b : Nat) : (replaceBytes bytes b b).2 = none := by
  simp [replaceBytes]

/-! ### the transformation a detection mode applies to delivered bytes -/

def BinDet.tr (lt : Nat) : BinDet → Bytes → Bytes
  | .convert b, xs => xs.map (convByte b lt)
  | _, xs => xs

@[simp] theorem tr_length (lt : Nat) (d : BinDet) (xs : Bytes) : (d.tr lt xs).length = xs.length := by
  cases d <;> simp [BinDet.tr]

theorem tr_append (lt : Nat) (d : BinDet) (xs ys : Bytes) :
    d.tr lt (xs ++ ys) = d.tr lt xs ++ d.tr lt ys := by
  cases d <;> simp [BinDet.tr]

theorem tr_drop (lt : Nat) (d : BinDet) (xs : Bytes) (n : Nat) :
    d.tr lt (xs.drop n) = (d.tr lt xs).drop n := by
  cases d <;> simp [BinDet.tr]

theorem tr_take (lt : Nat) (d : BinDet) (xs : Bytes) (n : Nat) :
    d.tr lt (xs.take n) = (d.tr lt xs).take n := by
  cases d <;> simp [BinDet.tr]

/-! ### reader -/

theorem read_bytes (r r' : Reader) (free : Nat) (nb : Bytes) (h : r.read free = (.bytes nb, r')) :
    r.data = nb ++ r'.data ∧ nb.length ≤ free ∧ r'.script.length ≤ r.script.length := by
  unfold Reader.read at h
  split at h
  · simp only [Prod.mk.injEq, ReadRes.bytes.injEq] at h
    obtain ⟨h1, h2⟩ := h
    subst h1 h2
    simp
    omega
  split at h
  · simp only [Prod.mk.injEq, ReadRes.bytes.injEq] at h
    obtain ⟨h1, h2⟩ := h
    subst h1 h2
    simp
    omega
  · simp at h
  · rename_i n rest hs
    simp only [Prod.mk.injEq, ReadRes.bytes.injEq] at h
    obtain ⟨h1, h2⟩ := h
    subst h1 h2
    simp [hs]
    omega

theorem read_intr (r r' : Reader) (free : Nat) (h : r.read free = (.interrupted, r')) :
    r'.data = r.data ∧ r'.script.length < r.script.length := by
  unfold Reader.read at h
  split at h
  · simp at h
  split at h <;> simp at h
  rename_i rest hs
  obtain rfl := h
  simp [hs]

/-- A reader that obeys the `Read` contract returns 0 bytes only at EOF (or for an empty buffer). -/
def NoZero (script : List Step) : Prop := ∀ st ∈ script, st ≠ Step.ret 0

theorem read_script_suffix (r r' : Reader) (free : Nat) (x : ReadRes) (h : r.read free = (x, r')) :
    ∃ pre, r.script = pre ++ r'.script := by
  unfold Reader.read at h
  split at h
  · simp only [Prod.mk.injEq] at h
    obtain ⟨_, h2⟩ := h
    subst h2
    exact ⟨[], by simp⟩
  split at h
  · simp only [Prod.mk.injEq] at h
    obtain ⟨_, h2⟩ := h
    subst h2
    exact ⟨[], by simp⟩
  · rename_i rest hs
    simp only [Prod.mk.injEq] at h
    obtain ⟨_, h2⟩ := h
    subst h2
    exact ⟨[Step.intr], by simp [hs]⟩
  · rename_i n rest hs
    simp only [Prod.mk.injEq] at h
    obtain ⟨_, h2⟩ := h
    subst h2
    exact ⟨[Step.ret n], by simp [hs]⟩

theorem read_zero_eof (r r' : Reader) (free : Nat) (hz : NoZero r.script) (hfree : 0 < free)
    (h : r.read free = (.bytes [], r')) : r'.data = [] := by
  unfold Reader.read at h
  split at h
  · rename_i hb
    simp only [Prod.mk.injEq, ReadRes.bytes.injEq] at h
    obtain ⟨h1, h2⟩ := h
    subst h2
    have : r.data.length = 0 := by
      cases hd : r.data with
      | nil => rfl
      | cons x xs => rw [hd] at h1; simp at h1; omega
    simp [List.length_eq_zero_iff.1 this]
  split at h
  · simp only [Prod.mk.injEq, ReadRes.bytes.injEq] at h
    obtain ⟨h1, h2⟩ := h
    subst h2
    have : min free r.data.length = 0 ∨ r.data = [] := by
      cases hd : r.data with
      | nil => right; rfl
      | cons x xs => rw [hd] at h1; simp at h1; omega
    cases this with
    | inl h0 =>
      have : r.data.length = 0 := by omega
      simp [List.length_eq_zero_iff.1 this]
    | inr h0 => simp [h0]
  · simp at h
  · rename_i n rest hs
    simp only [Prod.mk.injEq, ReadRes.bytes.injEq] at h
    obtain ⟨h1, h2⟩ := h
    subst h2
    have hn : n ≠ 0 := by
      intro hn
      exact hz (Step.ret n) (by simp [hs]) (by simp [hn])
    have : r.data.length = 0 := by
      cases hd : r.data with
      | nil => rfl
      | cons x xs => rw [hd] at h1; simp at h1; omega
    simp [List.length_eq_zero_iff.1 this]

end RgVerif.LineBuffer
