import RgVerif.Model.RegexConfig
import RgVerif.Lemmas.HirStrip
import RgVerif.Lemmas.HirNonMatching
import RgVerif.Lemmas.HirCandidate
/-
Glue lemmas for the composition `C11`: word / whole-line wrapping adds only assertions, the
fixed-strings route yields terminator-free literals.
-/
namespace RgVerif.Rx
open RgVerif

theorem matches_wrap3 {lk : LookFn} {k1 k2 : Look} {h : Hir} {hay : Bytes} {s e : Nat}
    (hm : Matches lk (.concat (.cons (.look k1) (.cons h (.cons (.look k2) .nil)))) hay s e) :
    Matches lk h hay s e := by
  cases hm with
  | concat hm =>
    cases hm with
    | cons h1 h2 =>
      cases h1 with
      | look _ _ =>
        cases h2 with
        | cons h3 h4 =>
          cases h4 with
          | cons h5 h6 =>
            cases h5 with
            | look _ _ =>
              cases h6 with
              | nil _ => exact h3

/-- the wrapped expression matches only spans the inner expression matches -/
theorem matches_wrap {lk : LookFn} (cfg : Config) {h : Hir} {hay : Bytes} {s e : Nat}
    (hm : Matches lk (cfg.wrap h) hay s e) : Matches lk h hay s e := by
  unfold Config.wrap at hm
  split at hm
  · exact matches_wrap3 hm
  · split at hm
    · exact matches_wrap3 hm
    · exact hm

theorem hasLineTerminator_false {lt : LineTerm} {p : Bytes} (h : hasLineTerminator lt p = false) :
    ∀ t ∈ lt.bytes, t ∉ p := by
  intro t ht hmem
  cases lt with
  | byte b =>
    simp only [LineTerm.bytes, List.mem_singleton] at ht
    subst ht
    simp only [hasLineTerminator, List.any_eq_false] at h
    exact h t hmem (by simp)
  | crlf =>
    simp only [LineTerm.bytes, List.mem_cons, List.not_mem_nil, or_false] at ht
    simp only [hasLineTerminator, List.any_eq_false] at h
    have := h t hmem
    rcases ht with rfl | rfl <;> simp at this

theorem isFixedStrings_noTerm {cfg : Config} {pats : List Bytes} {lt : LineTerm}
    (hf : cfg.isFixedStrings pats = true) (hlt : cfg.lineTerm = some lt) :
    ∀ p ∈ pats, ∀ t ∈ lt.bytes, t ∉ p := by
  intro p hp
  apply hasLineTerminator_false
  unfold Config.isFixedStrings at hf
  rw [hlt] at hf
  split at hf
  · cases hf
  · split at hf
    · simp only [Bool.not_eq_true', List.any_eq_false] at hf
      have := hf p hp
      simpa using this
    · simp only [List.all_eq_true, Bool.and_eq_true, Bool.not_eq_true'] at hf
      exact (hf p hp).2

/-- an alternation of literals matches one of the literals -/
theorem matches_altLits {lk : LookFn} : ∀ (pats : List Bytes) {hay : Bytes} {s e : Nat},
    MatchesAny lk (HirList.ofList (pats.map fun p => if p.isEmpty then Hir.empty else Hir.lit p)) hay s e →
    ∃ p ∈ pats, slice hay s e = p
  | [], _, _, _, hm => by cases hm
  | p :: rest, hay, s, e, hm => by
      simp only [List.map_cons, HirList.ofList] at hm
      cases hm with
      | head h1 =>
        refine ⟨p, by simp, ?_⟩
        split at h1
        · rename_i hp
          cases h1
          rw [slice_self]
          exact (List.isEmpty_iff.1 hp).symm
        · cases h1 with
          | lit _ hsl => exact hsl
      | tail h1 =>
        obtain ⟨q, hq, h⟩ := matches_altLits rest h1
        exact ⟨q, by simp [hq], h⟩

/-- whichever route `ConfiguredHIR::new` takes, the resulting expression never matches a terminator byte -/
theorem configuredHir_noTerm {lk : LookFn} {cfg : Config} {norm : Hir → Hir} {pats : List Bytes} {translated h0 : Hir}
    {lt : LineTerm} (hcfg : cfg.configuredHir norm pats translated = .ok h0) (hlt : cfg.lineTerm = some lt)
    {hay : Bytes} {s e : Nat} (hm : Matches lk h0 hay s e)
    (hsound : ∀ h', stripN norm translated lt = .ok h' → Matches lk h' hay s e → ∀ t ∈ lt.bytes, t ∉ slice hay s e) :
    ∀ t ∈ lt.bytes, t ∉ slice hay s e := by
  unfold Config.configuredHir at hcfg
  split at hcfg
  · rename_i hfix
    cases hcfg
    intro t ht
    cases hm with
    | alt hany =>
      obtain ⟨p, hp, hsl⟩ := matches_altLits pats hany
      rw [hsl]
      exact isFixedStrings_noTerm hfix hlt p hp t ht
  · split at hcfg
    · cases hcfg
    · unfold Config.stripped at hcfg
      rw [hlt] at hcfg
      simp only at hcfg
      split at hcfg
      · rename_i h' hstr
        cases hcfg
        exact hsound _ hstr hm
      · cases hcfg

end RgVerif.Rx
