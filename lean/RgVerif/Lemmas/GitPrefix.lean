import RgVerif.Spec.GitSpec
/-
git's `match_pathname` compares the literal prefix of a pattern separately (`nowildcardlen`).  That is the same
as running `wildmatch` on the whole pattern unless a `**` directly follows a literal prefix that does not end
in `/` (then git lets the `**` span directories; see finding `literal-prefix-then-double-star`).
-/
namespace RgVerif.GitSpec

/-- no `**` directly after a non-empty literal prefix that does not end in `/` -/
def okDstarPos (text : List Nat) : Bool :=
  let k := simpleLen text
  k == 0 || (text.take k).getLast? == some 47 || !((text.drop k).take 2 == [42, 42])

theorem wm_nil' (ci pn po : Bool) (t : Bytes) : wm ci pn po [] t = t.isEmpty := by
  rw [wm.eq_def]

/-- what precedes only matters in front of `**` -/
theorem wm_po_indep (ci pn : Bool) (rest : List Nat) (h : (rest.take 2 == [42, 42]) = false) (po po' : Bool)
    (t : Bytes) : wm ci pn po rest t = wm ci pn po' rest t := by
  cases rest with
  | nil => rw [wm_nil', wm_nil']
  | cons c p =>
    have e1 := wm.eq_def ci pn po (c :: p) t
    have e2 := wm.eq_def ci pn po' (c :: p) t
    rw [e1, e2]
    by_cases h42 : c = 42
    · subst h42
      have hh : (p.head? == some 42) = false := by
        cases p with
        | nil => rfl
        | cons e p' =>
          simp only [List.take, List.take_zero] at h
          simp only [List.head?_cons]
          apply Bool.eq_false_iff.mpr
          intro he
          have : e = 42 := by simpa using he
          subst this
          simp at h
      simp only [Nat.reduceBEq, Bool.false_eq_true, ↓reduceIte, BEq.rfl, hh, Bool.false_and]
    · have hb : (c == 42) = false := by simpa using h42
      simp only [hb, Bool.false_eq_true, ↓reduceIte]

theorem takeWhile_append_drop (p : List Nat) (f : Nat → Bool) :
    p = p.takeWhile f ++ p.drop (p.takeWhile f).length := by
  induction p with
  | nil => rfl
  | cons c p ih =>
    simp only [List.takeWhile]
    cases f c
    · rfl
    · simp only [List.length_cons, List.drop_succ_cons, List.cons_append]
      rw [← ih]

theorem take_takeWhile (p : List Nat) (f : Nat → Bool) :
    p.take (p.takeWhile f).length = p.takeWhile f := by
  induction p with
  | nil => rfl
  | cons c p ih =>
    simp only [List.takeWhile]
    cases f c
    · rfl
    · simp [ih]

theorem mem_takeWhile' (p : List Nat) (f : Nat → Bool) : ∀ c ∈ p.takeWhile f, f c = true := by
  induction p with
  | nil => simp
  | cons a p ih =>
    simp only [List.takeWhile]
    cases hf : f a
    · simp
    · intro c hc
      rcases List.mem_cons.mp hc with rfl | hc
      · exact hf
      · exact ih c hc

/-- `wildmatch` through literal characters -/
theorem wm_literal (ci pn po : Bool) (pre rest : List Nat) (hpre : ∀ c ∈ pre, isGlobSpecial c = false)
    (t : Bytes) :
    wm ci pn po (pre ++ rest) t =
      (decide (pre.length ≤ t.length) && eqFold ci pre (t.take pre.length) &&
        wm ci pn (match pre.getLast? with | none => po | some c => c == 47) rest (t.drop pre.length)) := by
  induction pre generalizing po t with
  | nil => simp [eqFold]
  | cons c pre ih =>
    have hc := hpre c (by simp)
    simp only [isGlobSpecial, Bool.or_eq_false_iff, beq_eq_false_iff_ne, ne_eq] at hc
    obtain ⟨⟨⟨h42, h63⟩, h91⟩, h92⟩ := hc
    have hb42 : (c == 42) = false := by simpa using h42
    have hb63 : (c == 63) = false := by simpa using h63
    have hb91 : (c == 91) = false := by simpa using h91
    have hb92 : (c == 92) = false := by simpa using h92
    rw [List.cons_append, wm.eq_def]
    simp only [hb42, hb63, hb91, hb92, Bool.false_eq_true, ↓reduceIte]
    cases t with
    | nil => simp
    | cons b t' =>
      simp only
      rw [ih _ (fun x hx => hpre x (by simp [hx]))]
      have hlast : (match (c :: pre).getLast? with | none => po | some x => x == 47) =
          (match pre.getLast? with | none => c == 47 | some x => x == 47) := by
        cases pre with
        | nil => rfl
        | cons e pre' => rw [List.getLast?_cons_cons]; rfl
      rw [hlast]
      simp only [List.length_cons, Nat.add_le_add_iff_right, List.take_succ_cons, List.drop_succ_cons]
      have hfold : eqFold ci (c :: pre) (b :: List.take pre.length t') =
          ((if ci then toLower b == toLower c else b == c) && eqFold ci pre (List.take pre.length t')) := by
        unfold eqFold
        cases ci
        · simp only [Bool.false_eq_true, ↓reduceIte, List.cons_beq_cons]
          congr 1
          exact Bool.eq_iff_iff.mpr ⟨fun h => by simpa using (by simpa using h : c = b).symm,
            fun h => by simpa using (by simpa using h : b = c).symm⟩
        · simp only [↓reduceIte, List.map_cons, List.cons_beq_cons]
          congr 1
          exact Bool.eq_iff_iff.mpr ⟨fun h => by simpa using (by simpa using h : toLower c = toLower b).symm,
            fun h => by simpa using (by simpa using h : toLower b = toLower c).symm⟩
      rw [hfold]
      generalize (if ci then toLower b == toLower c else b == c) = x1
      generalize decide (pre.length ≤ t'.length) = x2
      generalize eqFold ci pre (List.take pre.length t') = x3
      cases x1 <;> cases x2 <;> cases x3 <;> simp

/-- **`match_pathname` is `wildmatch` on the whole pattern**, unless `**` directly follows a literal prefix -/
theorem matchPathname_eq_wm (ci : Bool) (text name : Bytes) (h : okDstarPos text = true) :
    matchPathname ci text name = wm ci true true text name := by
  have hsplit := takeWhile_append_drop text (fun c => !isGlobSpecial c)
  have hpre : ∀ c ∈ text.takeWhile (fun c => !isGlobSpecial c), isGlobSpecial c = false := by
    intro c hc
    have := mem_takeWhile' text _ c hc
    simpa using this
  have htake : text.take (simpleLen text) = text.takeWhile (fun c => !isGlobSpecial c) :=
    take_takeWhile text _
  have hw := wm_literal ci true true _ (text.drop (simpleLen text)) hpre name
  have hlen : (text.takeWhile (fun c => !isGlobSpecial c)).length = simpleLen text := rfl
  rw [hlen] at hw
  have hsplit' : text.takeWhile (fun c => !isGlobSpecial c) ++ text.drop (simpleLen text) = text := hsplit.symm
  rw [hsplit'] at hw
  rw [hw]
  unfold matchPathname
  simp only [htake]
  congr 1
  unfold okDstarPos at h
  simp only [htake, Bool.or_eq_true, beq_iff_eq, Bool.not_eq_eq_eq_not, Bool.not_true] at h
  rcases h with (h | h) | h
  · have : text.takeWhile (fun c => !isGlobSpecial c) = [] := List.eq_nil_of_length_eq_zero (hlen.trans h)
    rw [this]; rfl
  · rw [h]; simp
  · exact wm_po_indep ci true _ h _ _ _

theorem takeWhile_all (p : List Nat) (f : Nat → Bool) (h : ∀ c ∈ p, f c = true) : p.takeWhile f = p := by
  induction p with
  | nil => rfl
  | cons a p ih =>
    simp only [List.takeWhile, h a (by simp)]
    rw [ih (fun c hc => h c (by simp [hc]))]

theorem okDstarPos_of_literal (text : List Nat) (h : ∀ c ∈ text, isGlobSpecial c = false) :
    okDstarPos text = true := by
  unfold okDstarPos simpleLen
  rw [takeWhile_all text _ (fun c hc => by simp [h c hc])]
  simp

end RgVerif.GitSpec
