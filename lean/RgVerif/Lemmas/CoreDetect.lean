import RgVerif.Lemmas.CorePres
namespace RgVerif.Searcher
open RgVerif RgVerif.Matcher RgVerif.Lines

theorem lines_findByte_none {t : Nat} {xs : Bytes} (h : Lines.findByte t xs = none) : t ∉ xs := by
  induction xs with
  | nil => simp
  | cons x xs ih =>
    unfold Lines.findByte at h
    by_cases hx : (x == t) = true
    · simp [hx] at h
    · simp only [hx, Bool.false_eq_true, if_false, Option.map_eq_none_iff] at h
      have hne : ¬ x = t := by simpa using hx
      have hne' : ¬ t = x := fun e => hne e.symm
      simp [hne', ih h]

def Event.isBD : Event → Bool
  | .binaryData _ => true
  | _ => false

/-- the byte the detection looks for -/
def BinaryDetection.byte? : BinaryDetection → Option Nat
  | .quit b => some b
  | .convert b => some b
  | .none => Option.none

theorem bd_emit (σ : Script) (st : Core) (off : Nat) :
    (emit σ { st with binaryByteOffset := some off } (.binaryData off)).1.events = st.events ++ [Event.binaryData off] ∧
    (emit σ { st with binaryByteOffset := some off } (.binaryData off)).1.binaryByteOffset = some off ∧
    (emit σ { st with binaryByteOffset := some off } (.binaryData off)).1.binary = st.binary := by
  refine ⟨emit_events σ _ _, ?_, ?_⟩ <;> (unfold emit; dsimp only; split <;> rfl)

/-- What `Core::detect_binary` does, by cases. -/
theorem detectBinary_cases (cfg : Config) (σ : Script) (buf : Bytes) (r : Span) (st : Core) (b : Nat)
    (hb : cfg.binary.byte? = some b) :
    (st.binaryByteOffset.isSome = true ∧ detectBinary cfg σ buf r st = (st, .ok cfg.binary.quitByte.isSome)) ∨
    (st.binaryByteOffset = none ∧ b ∉ slice buf r.s r.e ∧ detectBinary cfg σ buf r st = (st, .ok false)) ∨
    (st.binaryByteOffset = none ∧ ∃ off,
      (detectBinary cfg σ buf r st).1.events = st.events ++ [Event.binaryData off] ∧
      (detectBinary cfg σ buf r st).1.binaryByteOffset = some off ∧
      (detectBinary cfg σ buf r st).1.binary = st.binary ∧
      ((detectBinary cfg σ buf r st).2 = .ok false → cfg.binary.quitByte = none)) := by
  cases hbo : st.binaryByteOffset with
  | some o => left; unfold detectBinary; simp [hbo]
  | none =>
    right
    -- the tail shared by Quit and Convert
    have tail : ∀ (qs : Bool),
        (b ∉ slice buf r.s r.e ∧
          (match Lines.findByte b (slice buf r.s r.e) with
            | some i =>
              match binaryData σ { st with binaryByteOffset := some (r.s + i) } (r.s + i) with
              | (st, .err) => (st, Res.err)
              | (st, .ok false) => (st, .ok true)
              | (st, .ok true) => (st, .ok qs)
            | none => (st, .ok false)) = (st, .ok false)) ∨
        ∃ off,
          (match Lines.findByte b (slice buf r.s r.e) with
            | some i =>
              match binaryData σ { st with binaryByteOffset := some (r.s + i) } (r.s + i) with
              | (st, .err) => (st, Res.err)
              | (st, .ok false) => (st, .ok true)
              | (st, .ok true) => (st, .ok qs)
            | none => (st, .ok false)).1.events = st.events ++ [Event.binaryData off] ∧
          (match Lines.findByte b (slice buf r.s r.e) with
            | some i =>
              match binaryData σ { st with binaryByteOffset := some (r.s + i) } (r.s + i) with
              | (st, .err) => (st, Res.err)
              | (st, .ok false) => (st, .ok true)
              | (st, .ok true) => (st, .ok qs)
            | none => (st, .ok false)).1.binaryByteOffset = some off ∧
          (match Lines.findByte b (slice buf r.s r.e) with
            | some i =>
              match binaryData σ { st with binaryByteOffset := some (r.s + i) } (r.s + i) with
              | (st, .err) => (st, Res.err)
              | (st, .ok false) => (st, .ok true)
              | (st, .ok true) => (st, .ok qs)
            | none => (st, .ok false)).1.binary = st.binary ∧
          ((match Lines.findByte b (slice buf r.s r.e) with
            | some i =>
              match binaryData σ { st with binaryByteOffset := some (r.s + i) } (r.s + i) with
              | (st, .err) => (st, Res.err)
              | (st, .ok false) => (st, .ok true)
              | (st, .ok true) => (st, .ok qs)
            | none => (st, .ok false)).2 = .ok false → qs = false) := by
      intro qs
      cases hf : Lines.findByte b (slice buf r.s r.e) with
      | none => left; exact ⟨lines_findByte_none hf, rfl⟩
      | some i =>
        right
        refine ⟨r.s + i, ?_⟩
        simp only [binaryData]
        have h := bd_emit σ st (r.s + i)
        generalize emit σ { st with binaryByteOffset := some (r.s + i) } (.binaryData (r.s + i)) = g at h ⊢
        obtain ⟨s1, r1⟩ := g
        cases r1 with
        | err => exact ⟨h.1, h.2.1, h.2.2, by simp⟩
        | ok bb => cases bb <;> exact ⟨h.1, h.2.1, h.2.2, by simp⟩
    cases hc : cfg.binary with
    | none => rw [hc] at hb; simp [BinaryDetection.byte?] at hb
    | quit b' =>
      rw [hc] at hb
      simp only [BinaryDetection.byte?, Option.some.injEq] at hb
      subst hb
      unfold detectBinary
      simp only [hbo, hc, Option.isSome_none, Bool.false_eq_true, if_false, BinaryDetection.quitByte, Option.isSome_some]
      cases tail true with
      | inl h => exact Or.inl ⟨trivial, h.1, h.2⟩
      | inr h =>
        obtain ⟨off, h1, h2, h3, h4⟩ := h
        exact Or.inr ⟨trivial, off, h1, h2, h3, fun hh => by simpa using h4 hh⟩
    | convert b' =>
      rw [hc] at hb
      simp only [BinaryDetection.byte?, Option.some.injEq] at hb
      subst hb
      unfold detectBinary
      simp only [hbo, hc, Option.isSome_none, Bool.false_eq_true, if_false, BinaryDetection.quitByte]
      cases tail false with
      | inl h => exact Or.inl ⟨trivial, h.1, h.2⟩
      | inr h =>
        obtain ⟨off, h1, h2, h3, h4⟩ := h
        exact Or.inr ⟨trivial, off, h1, h2, h3, fun _ => trivial⟩

end RgVerif.Searcher
