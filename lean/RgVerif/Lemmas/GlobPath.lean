import RgVerif.Model.GlobSet
/-
Lemmas about `pathutil`: the last path component, `file_name`, `file_name_ext`.
-/
namespace RgVerif.Glob

/-- the part of `p` after the last occurrence of `c` (all of `p` when `c` does not occur) -/
def afterLast (c : Nat) (p : Bytes) : Bytes := (p.reverse.takeWhile (· != c)).reverse

theorem lastComp_eq (p : Bytes) : lastComp p = afterLast 47 p := rfl

theorem all_takeWhile {α} (q : α → Bool) (l : List α) : ∀ a ∈ l.takeWhile q, q a = true := by
  induction l with
  | nil => simp
  | cons x l ih =>
    intro a ha
    rw [List.takeWhile_cons] at ha
    split at ha
    · rcases List.mem_cons.mp ha with rfl | ha
      · assumption
      · exact ih a ha
    · simp at ha

theorem not_mem_afterLast (c : Nat) (p : Bytes) : c ∉ afterLast c p := by
  intro h
  unfold afterLast at h
  rw [List.mem_reverse] at h
  have := all_takeWhile _ _ c h
  simp at this

theorem afterLast_append {c : Nat} (x : Bytes) {y : Bytes} (hy : c ∉ y) :
    afterLast c (x ++ y) = afterLast c x ++ y := by
  unfold afterLast
  rw [List.reverse_append, List.takeWhile_append_of_pos, List.reverse_append, List.reverse_reverse]
  intro a ha
  rw [List.mem_reverse] at ha
  simp only [bne_iff_ne, ne_eq]
  intro hac; subst hac; exact hy ha

theorem afterLast_snoc (c : Nat) (x : Bytes) : afterLast c (x ++ [c]) = [] := by
  unfold afterLast
  rw [List.reverse_append]
  simp

theorem afterLast_append_cons {c : Nat} (x : Bytes) {y : Bytes} (hy : c ∉ y) :
    afterLast c (x ++ c :: y) = y := by
  have : x ++ c :: y = (x ++ [c]) ++ y := by simp
  rw [this, afterLast_append _ hy, afterLast_snoc]; rfl

theorem afterLast_of_not_mem {c : Nat} {y : Bytes} (hy : c ∉ y) : afterLast c y = y := by
  have := afterLast_append (c := c) [] hy
  simpa [afterLast] using this

theorem afterLast_cases (c : Nat) (p : Bytes) :
    (c ∉ p ∧ afterLast c p = p) ∨ ∃ x, p = x ++ c :: afterLast c p := by
  by_cases hc : c ∈ p
  · right
    have hsplit := List.takeWhile_append_dropWhile (p := (· != c)) (l := p.reverse)
    have hne : p.reverse.dropWhile (· != c) ≠ [] := by
      intro hnil
      rw [hnil, List.append_nil] at hsplit
      have := all_takeWhile (· != c) p.reverse c (by rw [hsplit]; simpa using hc)
      simp at this
    have hhead := List.head_dropWhile_not (· != c) hne
    obtain ⟨d, ds, hd⟩ := List.exists_cons_of_ne_nil hne
    simp only [hd, List.head_cons, bne_eq_false_iff_eq] at hhead
    subst hhead
    rw [hd] at hsplit
    refine ⟨ds.reverse, ?_⟩
    have := congrArg List.reverse hsplit
    simp only [List.reverse_append, List.reverse_cons, List.reverse_reverse, List.append_assoc,
      List.singleton_append] at this
    exact this.symm
  · left; exact ⟨hc, afterLast_of_not_mem hc⟩

theorem afterLast_suffix (c : Nat) (p : Bytes) : afterLast c p <:+ p := by
  rcases afterLast_cases c p with ⟨_, h⟩ | ⟨x, h⟩
  · rw [h]; exact List.suffix_refl _
  · exact ⟨x ++ [c], by rw [List.append_assoc]; simpa using h.symm⟩

/-! ### `file_name`, `file_name_ext`, `Candidate::new` outside the dots class -/

theorem fileName_of_not_dots {p : Bytes} (hp : p ≠ []) (hd : lastCompDots p = false) :
    fileName p = some (lastComp p) := by
  unfold fileName
  unfold lastCompDots at hd
  have : p.isEmpty = false := by cases p <;> simp_all
  simp [this, hd]

theorem fileNameExt_of_mem {name : Bytes} (h : 46 ∈ name) :
    fileNameExt name = some (46 :: afterLast 46 name) := by
  unfold fileNameExt
  have hne : name.isEmpty = false := by cases name <;> simp_all
  simp [hne, h, afterLast]

theorem fileNameExt_of_not_mem {name : Bytes} (h : 46 ∉ name) : fileNameExt name = none := by
  unfold fileNameExt
  split
  · rfl
  · simp [h]

/-- basename of the candidate, outside the dots class -/
theorem candidate_basename {p : Bytes} (hd : lastCompDots p = false) :
    (candidate p).basename = lastComp p := by
  unfold candidate
  by_cases hp : p = []
  · subst hp; simp [fileName, lastComp]
  · simp [fileName_of_not_dots hp hd]

theorem candidate_path (p : Bytes) : (candidate p).path = p := rfl

/-- extension of the candidate, outside the dots class -/
theorem candidate_ext {p : Bytes} (hd : lastCompDots p = false) :
    (candidate p).ext = if 46 ∈ lastComp p then 46 :: afterLast 46 (lastComp p) else [] := by
  have hb := candidate_basename hd
  unfold candidate at hb ⊢
  simp only at hb ⊢
  rw [hb]
  split
  · rename_i h; simp [fileNameExt_of_mem h]
  · rename_i h; simp [fileNameExt_of_not_mem h]

/-- a path ends with `. e` (no `.`, no `/` in `e`) iff its candidate extension is `. e` — outside
the dots class -/
theorem ext_eq_iff_suffix {p e : Bytes} (hd : lastCompDots p = false)
    (h46 : 46 ∉ e) (h47 : 47 ∉ e) :
    (candidate p).ext = 46 :: e ↔ (46 :: e) <:+ p := by
  rw [candidate_ext hd]
  have h47' : 47 ∉ (46 :: e) := by simp [h47]
  constructor
  · intro h
    split at h
    · -- lastComp p = x ++ 46 :: afterLast, and afterLast = e
      rename_i hm
      simp only [List.cons.injEq, true_and] at h
      rcases afterLast_cases 46 (lastComp p) with ⟨hno, _⟩ | ⟨x, hx⟩
      · exact absurd hm hno
      · rw [h] at hx
        have hs : (46 :: e) <:+ lastComp p := ⟨x, hx.symm⟩
        exact hs.trans (by rw [lastComp_eq]; exact afterLast_suffix 47 p)
    · simp at h
  · rintro ⟨x, hx⟩
    have hl : lastComp p = lastComp x ++ 46 :: e := by
      rw [← hx, lastComp_eq, lastComp_eq, afterLast_append _ h47']
    have hm : 46 ∈ lastComp p := by rw [hl]; simp
    simp only [hm, ↓reduceIte, List.cons.injEq, true_and]
    rw [hl, afterLast_append_cons _ h46]

end RgVerif.Glob
