import RgVerif.Lemmas.ParWalkBasic
/-
C07 safety invariants: conservation of entries, shape of the deques w.r.t. `Quit`.
-/
namespace RgVerif.ParWalk

/-- `quit_now` is only ever set (or about to be set) after a visitor asked to quit. -/
theorem quitNow_asked {n : Nat} {roots : List Tree} {s : State} (h : Reachable n roots s) :
    (s.quitNow = true → s.quitAsked = true) ∧ (∀ w, s.pc w = .setQuit → s.quitAsked = true) := by
  induction h with
  | init => simp [init]
  | @step s s' w _ hs ih =>
    obtain ⟨ih1, ih2⟩ := ih
    cases hs
    all_goals
      rename_i hw hpc
      simp only []
      refine ⟨?_, ?_⟩
      · first
          | exact ih1
          | (intro _; exact ih2 w hpc)
          | (intro _; trivial)
      · intro w' hw'
        by_cases e : w' = w
        · subst e
          simp only [upd_same] at hw'
          first
            | trivial
            | (exfalso; revert hw'; simp [afterRecv]; done)
            | (exfalso; revert hw'; cases ‹Bool› <;> simp [afterRecv]; done)
        · simp only [upd_other _ _ e] at hw'
          first
            | exact ih2 w' hw'
            | trivial

@[simp] theorem afterRecv_cnt (x : Label) (b : Bool) (m : Msg) : (afterRecv b m).cnt x = m.cnt x := by
  cases b <;> rfl

/-- One step never creates an entry, and loses one only after a visitor asked to quit. -/
theorem step_conserved {n : Nat} {s s' : State} {w : Nat} (hs : Step n s w s') (x : Label) :
    s'.visited.count x + held n x s' ≤ s.visited.count x + held n x s ∧
    (s'.quitAsked = false → (s.quitNow = true → s.quitAsked = true) →
      s'.visited.count x + held n x s' = s.visited.count x + held n x s) := by
  cases hs
  case stealOk v b vs keep rest m hv hne hdq hw hpc =>
    obtain ⟨r, h1, h2⟩ := sumTo_split (Pc.cnt x ∘ s.pc) hw
    obtain ⟨q, h3, h4⟩ := sumTo_split2 (dqCnt x ∘ s.dq) hv hw hne
    simp only [held, comp_upd, h2, h4, h1, h3, Function.comp, hpc, hdq, afterRecv_cnt,
      dqCnt_append, dqCnt_cons]
    simp only [Pc.cnt]
    omega
  case popOk b m d hdq hw hpc =>
    obtain ⟨r, h1, h2⟩ := sumTo_split (Pc.cnt x ∘ s.pc) hw
    obtain ⟨q, h3, h4⟩ := sumTo_split (dqCnt x ∘ s.dq) hw
    simp only [held, comp_upd, h2, h4, h1, h3, Function.comp, hpc, hdq, afterRecv_cnt, dqCnt_cons]
    simp only [Pc.cnt]
    omega
  case checkQuitNow v hq hw hpc =>
    obtain ⟨r, h1, h2⟩ := sumTo_split (Pc.cnt x ∘ s.pc) hw
    simp only [held, comp_upd, h2, h1, Function.comp, hpc]
    refine ⟨?_, ?_⟩
    · simp only [Pc.cnt]; omega
    · intro ha hb
      rw [hb hq] at ha
      exact absurd ha (by decide)
  case stealDone b hw hpc =>
    obtain ⟨r, h1, h2⟩ := sumTo_split (Pc.cnt x ∘ s.pc) hw
    simp only [held, comp_upd, h2, h1, Function.comp, hpc]
    cases b <;> simp [Pc.cnt]
  case visitCont t hw hpc =>
    obtain ⟨r, h1, h2⟩ := sumTo_split (Pc.cnt x ∘ s.pc) hw
    simp only [held, comp_upd, h2, h1, Function.comp, hpc, List.count_append, List.count_cons,
      List.count_nil, beq_iff_eq]
    simp only [Pc.cnt]
    have := cntT_eq x t
    split at this <;> simp_all <;> omega
  case visitQuit t hw hpc =>
    obtain ⟨r, h1, h2⟩ := sumTo_split (Pc.cnt x ∘ s.pc) hw
    simp only [held, comp_upd, h2, h1, Function.comp, hpc, List.count_append, List.count_cons,
      List.count_nil, beq_iff_eq]
    simp only [Pc.cnt]
    have := cntT_eq x t
    refine ⟨?_, by intro h; exact absurd h (by decide)⟩
    split at this <;> simp_all <;> omega
  all_goals
    rename_i hw hpc
    obtain ⟨r, h1, h2⟩ := sumTo_split (Pc.cnt x ∘ s.pc) hw
    obtain ⟨q, h3, h4⟩ := sumTo_split (dqCnt x ∘ s.dq) hw
    simp only [held, comp_upd, h2, h4, h1, h3, Function.comp, hpc, afterRecv_cnt,
      dqCnt_append, dqCnt_cons]
    simp only [Pc.cnt, Msg.cnt, cntL_cons, cntL_nil]
    refine ⟨by omega, ?_⟩
    intro _ _
    first | trivial | omega

theorem step_quitAsked_mono {n : Nat} {s s' : State} {w : Nat} (hs : Step n s w s') :
    s.quitAsked = true → s'.quitAsked = true := by
  cases hs <;> simp

theorem step_quitNow_mono {n : Nat} {s s' : State} {w : Nat} (hs : Step n s w s') :
    s.quitNow = true → s'.quitNow = true := by
  cases hs <;> simp

/-- No entry is ever handed out twice or invented; none is lost before a visitor asks to quit. -/
theorem conserved {n : Nat} {roots : List Tree} {s : State} (hn : 0 < n)
    (h : Reachable n roots s) (x : Label) :
    s.visited.count x + held n x s ≤ cntL x roots ∧
    (s.quitAsked = false → s.visited.count x + held n x s = cntL x roots) := by
  induction h with
  | init =>
    rw [init_held n x hn]
    simp [init]
  | @step s s' w hr hs ih =>
    obtain ⟨h1, h2⟩ := step_conserved hs x
    refine ⟨by omega, ?_⟩
    intro hq
    have hq0 : s.quitAsked = false := by
      cases e : s.quitAsked
      · rfl
      · rw [step_quitAsked_mono hs e] at hq; exact absurd hq (by decide)
    have := h2 hq (quitNow_asked hr).1
    have := ih.2 hq0
    omega

/-! ### Shape of the deques with respect to `Quit` -/

def Msg.isQuit : Msg → Bool
  | .quit => true
  | .work _ => false

/-- The worker has pushed its `Quit` and left (or is leaving) the loop. -/
def Pc.done : Pc → Bool
  | .exiting _ => true
  | .exited _ => true
  | _ => false

/-- Program points at which the worker's own deque is empty as long as `quit_now` is unset. -/
def Pc.ownEmpty : Pc → Bool
  | .steal _ _ => true
  | .check none => true
  | .check (some .quit) => true
  | .activate .quit => true
  | .deact => true
  | .sleep => true
  | .recv true => true
  | .sendQuit _ => true
  | _ => false

/-- Per-worker invariant relating program point and own deque (`q` = `quit_now`). -/
def Local (q : Bool) (pc : Pc) (d : List Msg) : Prop :=
  (pc.done = false → ∀ m, m ∈ d → m.isQuit = false) ∧
  (pc.done = true → ∀ m, m ∈ d.tail → m.isQuit = false) ∧
  (q = false → pc.ownEmpty = true → d = []) ∧
  (q = false → pc.done = true → ∀ m, m ∈ d → m.isQuit = true)

theorem Local.toTrue {q : Bool} {pc : Pc} {d : List Msg} (h : Local q pc d) : Local true pc d := by
  refine ⟨h.1, h.2.1, ?_, ?_⟩
  · intro h; cases h
  · intro h; cases h

theorem mem_tail_of_mem_rest {α : Type} {keep rest : List α} {m x : α} (h : x ∈ rest) :
    x ∈ (keep ++ m :: rest).tail := by
  cases keep with
  | nil => simpa using h
  | cons a k => simp [h]

theorem mem_tail_keep {α : Type} {keep rest : List α} {m x : α} (h : x ∈ keep.tail) :
    x ∈ (keep ++ m :: rest).tail := by
  cases keep with
  | nil => simp at h
  | cons a k => simp at h; simp [h]

theorem step_local {n : Nat} {s s' : State} {w : Nat} (hs : Step n s w s')
    (ih : ∀ u, u < n → Local s.quitNow (s.pc u) (s.dq u)) :
    ∀ u, u < n → Local s'.quitNow (s'.pc u) (s'.dq u) := by
  cases hs
  case stealOk v b vs keep rest m hv hne hdq hw hpc =>
    intro u hu
    have iw := ih w hw
    have iv := ih v hv
    rw [hpc] at iw
    rw [hdq] at iv
    simp only []
    by_cases e : u = w
    · subst e
      rw [upd_same, upd_same]
      have hnd : (afterRecv b m).done = false := by cases b <;> rfl
      refine ⟨?_, ?_, ?_, ?_⟩
      · intro _ x hx
        rcases List.mem_append.1 hx with hx | hx
        · cases hd : (s.pc v).done
          · exact iv.1 hd x (by simp [hx])
          · exact iv.2.1 hd x (mem_tail_of_mem_rest hx)
        · exact iw.1 rfl x hx
      · intro h; rw [hnd] at h; cases h
      · intro hq he
        have hm : m.isQuit = true := by
          cases b <;> cases m <;> simp_all [afterRecv, Pc.ownEmpty, Msg.isQuit]
        have hdv : (s.pc v).done = true := by
          cases hd : (s.pc v).done
          · have := iv.1 hd m (by simp)
            rw [hm] at this; cases this
          · rfl
        have hall := iv.2.2.2 hq hdv
        have hk : keep = [] := by
          cases keep with
          | nil => rfl
          | cons a k =>
            have := iv.2.1 hdv m (by simp)
            rw [hm] at this; cases this
        subst hk
        have hr : rest = [] := by
          cases rest with
          | nil => rfl
          | cons a r =>
            have h1 := iv.2.1 hdv a (by simp)
            have h2 := hall a (by simp)
            rw [h1] at h2; cases h2
        rw [hr, iw.2.2.1 hq rfl]; rfl
      · intro _ h; rw [hnd] at h; cases h
    · rw [upd_other _ _ e, upd_other _ _ e]
      by_cases e2 : u = v
      · subst e2
        rw [upd_same]
        refine ⟨?_, ?_, ?_, ?_⟩
        · intro hd x hx; exact iv.1 hd x (by simp [hx])
        · intro hd x hx; exact iv.2.1 hd x (mem_tail_keep hx)
        · intro hq he; have := iv.2.2.1 hq he; simp at this
        · intro hq hd x hx; exact iv.2.2.2 hq hd x (by simp [hx])
      · rw [upd_other _ _ e2]
        exact ih u hu
  all_goals
    rename_i hw hpc
    intro u hu
    simp only []
    by_cases e : u = w
    · subst e
      have iw := ih u hu
      rw [hpc] at iw
      simp only [upd_same]
      clear ih
      first
        | (rename Bool => b
           cases b <;> simp_all [Local, Pc.done, Pc.ownEmpty, afterRecv, Msg.isQuit] <;> done)
        | (rename Bool => b; rename Msg => m
           cases b <;> cases m <;> simp_all [Local, Pc.done, Pc.ownEmpty, afterRecv, Msg.isQuit] <;> done)
        | (simp_all [Local, Pc.done, Pc.ownEmpty, afterRecv, Msg.isQuit]; done)
        | (rename Msg => m
           cases m <;> simp_all [Local, Pc.done, Pc.ownEmpty, afterRecv, Msg.isQuit] <;> done)
    · simp only [upd_other _ _ e]
      first
        | exact ih u hu
        | exact (ih u hu).toTrue

theorem distribute_noquit (n : Nat) (rs : List Tree) (i : Nat) (acc : Nat → List Msg)
    (h : ∀ u m, m ∈ acc u → m.isQuit = false) :
    ∀ u m, m ∈ distribute n rs i acc u → m.isQuit = false := by
  induction rs generalizing i acc with
  | nil => exact h
  | cons r rs ih =>
    simp only [distribute]
    apply ih
    intro u m hm
    by_cases e : u = i % n
    · subst e
      rw [upd_same] at hm
      rcases List.mem_cons.1 hm with hm | hm
      · subst hm; rfl
      · exact h _ m hm
    · rw [upd_other _ _ e] at hm
      exact h u m hm

/-- The per-worker deque invariant holds in every reachable state. -/
theorem reachable_local {n : Nat} {roots : List Tree} {s : State} (h : Reachable n roots s) :
    ∀ u, u < n → Local s.quitNow (s.pc u) (s.dq u) := by
  induction h with
  | init =>
    intro u _
    refine ⟨?_, ?_, ?_, ?_⟩
    · intro _ m hm
      exact distribute_noquit n roots 0 (fun _ => []) (by intro u m hm; cases hm) u m hm
    · intro h; cases h
    · intro _ h; cases h
    · intro _ h; cases h
  | step _ hs ih => exact step_local hs ih
