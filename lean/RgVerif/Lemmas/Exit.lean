import RgVerif.Spec.ExitSpec
/-
Helper lemmas for C15: what the four driver loops of `main.rs` compute, stated on the item list.
-/
namespace RgVerif.Exit
open RgVerif.ExitSpec

/-- Every write to stdout succeeds. -/
def WritesOk (xs : List Item) : Prop := ∀ x ∈ xs, writesOk x = true

theorem WritesOk.tail {x : Item} {xs : List Item} (h : WritesOk (x :: xs)) : WritesOk xs :=
  fun y hy => h y (List.mem_cons_of_mem _ hy)

theorem WritesOk.head {x : Item} {xs : List Item} (h : WritesOk (x :: xs)) : writesOk x = true :=
  h x (List.mem_cons_self)

@[simp] theorem errMessage_matched (c : Cfg) (st : St) (d : Diag) : (errMessage c st d).matched = st.matched := rfl
@[simp] theorem errMessage_searched (c : Cfg) (st : St) (d : Diag) : (errMessage c st d).searched = st.searched := rfl
@[simp] theorem errMessage_errored (c : Cfg) (st : St) (d : Diag) : (errMessage c st d).errored = true := rfl
@[simp] theorem errMessage_out (c : Cfg) (st : St) (d : Diag) : (errMessage c st d).out = st.out := rfl
@[simp] theorem errMessage_brokenPipe (c : Cfg) (st : St) (d : Diag) : (errMessage c st d).brokenPipe = st.brokenPipe := rfl

@[simp] theorem files_beq_search : (Mode.files == Mode.search) = false := by decide
@[simp] theorem search_beq_files : (Mode.search == Mode.files) = false := by decide

/-! ### `search` -/

theorem searchLoop_nopipe (c : Cfg) (items : List Item) (st : St) (h : WritesOk items) :
    (searchLoop c items st).2 = false := by
  induction items generalizing st with
  | nil => rfl
  | cons x xs ih =>
    have ht := h.tail
    have hh := h.head
    cases x with
    | walkErr => simpa [searchLoop] using ih _ ht
    | skip => simpa [searchLoop] using ih _ ht
    | file id sr wr =>
      cases sr with
      | pipe => simp [writesOk] at hh
      | err => simpa [searchLoop] using ih _ ht
      | ok m =>
        simp only [searchLoop]
        split
        · rfl
        · exact ih _ ht

theorem searchLoop_matched (c : Cfg) (items : List Item) (st : St) (h : WritesOk items) :
    (searchLoop c items st).1.matched = (st.matched || items.any isMatch) := by
  induction items generalizing st with
  | nil => simp [searchLoop]
  | cons x xs ih =>
    have ht := h.tail
    have hh := h.head
    cases x with
    | walkErr => simp [searchLoop, ih _ ht, isMatch]
    | skip => simp [searchLoop, ih _ ht, isMatch]
    | file id sr wr =>
      cases sr with
      | pipe => simp [writesOk] at hh
      | err => simp [searchLoop, ih _ ht, isMatch]
      | ok m =>
        simp only [searchLoop]
        split
        · rename_i hq
          simp only [Bool.and_eq_true, Bool.or_eq_true] at hq
          cases m <;> simp_all [isMatch]
        · rw [ih _ ht]
          cases m <;> simp [isMatch]

/-- Unless the loop stopped at a match under quit-after-match, every entry was visited. -/
theorem searchLoop_full (c : Cfg) (hc : c.mode = .search) (items : List Item) (st : St) (h : WritesOk items)
    (hq : ((searchLoop c items st).1.matched && c.qam) = false) :
    (searchLoop c items st).1.errored = (st.errored || items.any (isFault c)) ∧
    (searchLoop c items st).1.searched = (st.searched || items.any isFile) := by
  induction items generalizing st with
  | nil => simp [searchLoop]
  | cons x xs ih =>
    have ht := h.tail
    have hh := h.head
    cases x with
    | walkErr =>
      simp only [searchLoop] at hq ⊢
      have := ih _ ht hq
      simp [this, isFault, isFile]
    | skip =>
      simp only [searchLoop] at hq ⊢
      have := ih _ ht hq
      simp [this, isFault, isFile]
    | file id sr wr =>
      cases sr with
      | pipe => simp [writesOk] at hh
      | err =>
        simp only [searchLoop] at hq ⊢
        have := ih _ ht hq
        simp [this, isFault, isFile, hc]
      | ok m =>
        simp only [searchLoop] at hq ⊢
        split at hq
        · rename_i hq'
          simp_all
        · rename_i hq'
          rw [if_neg hq']
          have := ih _ ht hq
          simp [this, isFault, isFile]

/-! ### `search_parallel` -/

theorem parSearchLoop_flags (c : Cfg) (hc : c.mode = .search) (ran : List Item) (st : St) (h : WritesOk ran) :
    (parSearchLoop c ran st).1.matched = (st.matched || ran.any isMatch) ∧
    (parSearchLoop c ran st).1.errored = (st.errored || ran.any (isFault c)) ∧
    (parSearchLoop c ran st).1.searched = (st.searched || ran.any isFile) ∧
    (parSearchLoop c ran st).1.brokenPipe = st.brokenPipe := by
  induction ran generalizing st with
  | nil => simp [parSearchLoop]
  | cons x xs ih =>
    have ht := h.tail
    have hh := h.head
    cases x with
    | walkErr =>
      simp only [parSearchLoop, parSearchStep]
      have := ih (errMessage c st .walk) ht
      simp [this, isMatch, isFault, isFile]
    | skip =>
      simp only [parSearchLoop, parSearchStep]
      have := ih st ht
      simp [this, isMatch, isFault, isFile]
    | file id sr wr =>
      cases sr with
      | pipe => simp [writesOk] at hh
      | err =>
        cases wr with
        | pipe => simp [writesOk] at hh
        | err => simp [writesOk] at hh
        | ok =>
          simp only [parSearchLoop, parSearchStep]
          have := ih (errMessage c { st with searched := true } (.file id)) ht
          simp [this, isMatch, isFault, isFile, hc]
      | ok m =>
        cases wr with
        | pipe => simp [writesOk] at hh
        | err => simp [writesOk] at hh
        | ok =>
          simp only [parSearchLoop, parSearchStep]
          cases m <;> simp [ih, ht, isMatch, isFault, isFile]

/-- When no write fails, `Quit` is only ever returned with `matched` set under quit-after-match. -/
theorem parSearchLoop_quit (c : Cfg) (ran : List Item) (st : St) (h : WritesOk ran)
    (hq : (parSearchLoop c ran st).2 = true) :
    (parSearchLoop c ran st).1.matched = true ∧ c.qam = true := by
  induction ran generalizing st with
  | nil => simp [parSearchLoop] at hq
  | cons x xs ih =>
    have ht := h.tail
    have hh := h.head
    -- matched is monotone along the loop
    have mono : ∀ (ys : List Item) (s : St), s.matched = true → (parSearchLoop c ys s).1.matched = true := by
      intro ys
      induction ys with
      | nil => intro s hs; simpa [parSearchLoop] using hs
      | cons y ys ihy =>
        intro s hs
        simp only [parSearchLoop]
        apply ihy
        cases y with
        | walkErr => simpa [parSearchStep] using hs
        | skip => simpa [parSearchStep] using hs
        | file id sr wr =>
          cases sr <;> cases wr <;> simp [parSearchStep, hs]
    cases x with
    | walkErr =>
      simp only [parSearchLoop, parSearchStep, Bool.false_or] at hq ⊢
      exact ih _ ht hq
    | skip =>
      simp only [parSearchLoop, parSearchStep, Bool.false_or] at hq ⊢
      exact ih _ ht hq
    | file id sr wr =>
      cases sr with
      | pipe => simp [writesOk] at hh
      | err =>
        cases wr with
        | pipe => simp [writesOk] at hh
        | err => simp [writesOk] at hh
        | ok =>
          simp only [parSearchLoop, parSearchStep, Bool.false_or] at hq ⊢
          exact ih _ ht hq
      | ok m =>
        cases wr with
        | pipe => simp [writesOk] at hh
        | err => simp [writesOk] at hh
        | ok =>
          simp only [parSearchLoop, parSearchStep] at hq ⊢
          simp only [Bool.or_eq_true, Bool.and_eq_true] at hq
          rcases hq with ⟨hm, hqam⟩ | hq
          · exact ⟨mono _ _ (by simpa using hm), hqam⟩
          · exact ih _ ht hq

/-! ### `files` -/

theorem filesLoop_ok (c : Cfg) (items : List Item) (st : St) (h : WritesOk items) :
    (filesLoop c items st).2 = none ∧
    (filesLoop c items st).1.matched = (st.matched || items.any isFile) := by
  induction items generalizing st with
  | nil => simp [filesLoop]
  | cons x xs ih =>
    have ht := h.tail
    have hh := h.head
    cases x with
    | walkErr =>
      have := ih (errMessage c st .walk) ht
      simp only [errMessage_matched] at this
      simpa [filesLoop, isFile] using this
    | skip => simpa [filesLoop, isFile] using ih _ ht
    | file id sr wr =>
      simp only [filesLoop]
      split
      · simp [isFile]
      · cases wr with
        | pipe => cases sr <;> simp [writesOk] at hh
        | err => cases sr <;> simp [writesOk] at hh
        | ok =>
          have := ih { st with matched := true, out := st.out ++ [id] } ht
          simpa [isFile] using this

theorem filesLoop_full (c : Cfg) (hc : c.mode = .files) (items : List Item) (st : St) (h : WritesOk items)
    (hq : ((filesLoop c items st).1.matched && c.qam) = false) :
    (filesLoop c items st).1.errored = (st.errored || items.any (isFault c)) := by
  induction items generalizing st with
  | nil => simp [filesLoop]
  | cons x xs ih =>
    have ht := h.tail
    have hh := h.head
    cases x with
    | walkErr =>
      simp only [filesLoop] at hq ⊢
      simp [ih _ ht hq, isFault]
    | skip =>
      simp only [filesLoop] at hq ⊢
      simp [ih _ ht hq, isFault]
    | file id sr wr =>
      simp only [filesLoop] at hq ⊢
      split at hq
      · simp_all
      · rename_i hqam
        rw [if_neg hqam]
        cases wr with
        | pipe => cases sr <;> simp [writesOk] at hh
        | err => cases sr <;> simp [writesOk] at hh
        | ok =>
          have := ih { st with matched := true, out := st.out ++ [id] } ht (by simpa using hq)
          cases sr <;> simp [this, isFault, hc]

/-! ### `files_parallel` -/

theorem filesParWalk_flags (c : Cfg) (hc : c.mode = .files) (ran : List Item) (st : St) :
    (filesParWalk c ran st).1.matched = (st.matched || ran.any isFile) ∧
    (filesParWalk c ran st).1.errored = (st.errored || ran.any (isFault c)) := by
  induction ran generalizing st with
  | nil => simp [filesParWalk]
  | cons x xs ih =>
    cases x with
    | walkErr => simp [filesParWalk, ih, isFile, isFault]
    | skip => simp [filesParWalk, ih, isFile, isFault]
    | file id sr wr =>
      simp only [filesParWalk]
      have := ih { st with matched := true }
      cases sr <;> simp [this, isFile, isFault, hc]

theorem filesParWalk_sent_ok (c : Cfg) (ran : List Item) (st : St) (h : WritesOk ran) :
    ∀ p ∈ (filesParWalk c ran st).2, p.2 = WriteRes.ok := by
  induction ran generalizing st with
  | nil => simp [filesParWalk]
  | cons x xs ih =>
    have ht := h.tail
    have hh := h.head
    cases x with
    | walkErr => simpa [filesParWalk] using ih _ ht
    | skip => simpa [filesParWalk] using ih _ ht
    | file id sr wr =>
      simp only [filesParWalk]
      split
      · exact ih _ ht
      · intro p hp
        rcases List.mem_cons.mp hp with rfl | hp
        · cases wr <;> cases sr <;> simp_all [writesOk]
        · exact ih _ ht p hp

theorem printThread_ok (sent : List (Nat × WriteRes)) (h : ∀ p ∈ sent, p.2 = WriteRes.ok) :
    (printThread sent).2 = .ok := by
  induction sent with
  | nil => rfl
  | cons p ps ih =>
    obtain ⟨id, r⟩ := p
    have hr : r = .ok := h (id, r) List.mem_cons_self
    subst hr
    simp only [printThread]
    exact ih (fun q hq => h q (List.mem_cons_of_mem _ hq))

/-! ### `main` unfolded per driver -/

/-- state after `if args.has_implicit_path() && !searched { eprint_nothing_searched() }` -/
def afterCheck (c : Cfg) (st : St) : St :=
  if c.implicitPath && !st.searched then errMessage c st .nothingSearched else st

theorem afterCheck_errored (c : Cfg) (st : St) :
    (afterCheck c st).errored = (st.errored || (c.implicitPath && !st.searched)) := by
  unfold afterCheck
  split
  · rename_i h; simp [h]
  · rename_i h
    have : (c.implicitPath && !st.searched) = false := by simpa using h
    simp [this]

@[simp] theorem afterCheck_out (c : Cfg) (st : St) : (afterCheck c st).out = st.out := by
  unfold afterCheck; split <;> rfl

@[simp] theorem initSt_matched (c : Cfg) : (initSt c).matched = false := by unfold initSt; split <;> rfl
@[simp] theorem initSt_searched (c : Cfg) : (initSt c).searched = false := by unfold initSt; split <;> rfl
@[simp] theorem initSt_brokenPipe (c : Cfg) : (initSt c).brokenPipe = false := by unfold initSt; split <;> rfl
@[simp] theorem initSt_out (c : Cfg) : (initSt c).out = [] := by unfold initSt; split <;> rfl
@[simp] theorem initSt_errored (c : Cfg) : (initSt c).errored = c.configErr := by
  unfold initSt; split
  · rename_i h; simp [h]
  · rename_i h; simp at h; simp [h]

theorem mem_initSt_diags (c : Cfg) (d : Diag) (h : d ∈ (initSt c).diags) : d = .config := by
  unfold initSt errMessage at h
  split at h
  · split at h <;> simp at h
    exact h
  · simp at h

theorem initSt_of_no_configErr (c : Cfg) (h : c.configErr = false) : initSt c = {} := by
  simp [initSt, h]

/-- What `main` makes of a driver that reaches its final flush in state `st` with `matched = m`. -/
def conclude (c : Cfg) (st : St) (m : Bool) : Final :=
  match c.flush with
  | .ok => ⟨exitCode m c.quiet st.errored, st.diags, st.out⟩
  | .pipe => ⟨0, st.diags, st.out⟩
  | .err => ⟨2, st.diags ++ [.fatal], st.out⟩

theorem conclude_ok (c : Cfg) (st : St) (m : Bool) (h : c.flush = .ok) :
    conclude c st m = ⟨exitCode m c.quiet st.errored, st.diags, st.out⟩ := by simp [conclude, h]

theorem conclude_pipe (c : Cfg) (st : St) (m : Bool) (h : c.flush = .pipe) :
    conclude c st m = ⟨0, st.diags, st.out⟩ := by simp [conclude, h]

theorem conclude_err (c : Cfg) (st : St) (m : Bool) (h : c.flush = .err) :
    conclude c st m = ⟨2, st.diags ++ [.fatal], st.out⟩ := by simp [conclude, h]

@[simp] theorem conclude_out (c : Cfg) (st : St) (m : Bool) : (conclude c st m).out = st.out := by
  unfold conclude; split <;> rfl

theorem main_finalFlush (c : Cfg) (st : St) (m : Bool) :
    (match finalFlush c st m with
      | (st, .ok matched) => (⟨exitCode matched c.quiet st.errored, st.diags, st.out⟩ : Final)
      | (st, .errPipe) => ⟨exitBrokenPipe, st.diags, st.out⟩
      | (st, .errOther) => ⟨exitFatal, st.diags ++ [.fatal], st.out⟩) = conclude c st m := by
  unfold finalFlush conclude
  cases c.flush <;> rfl

theorem main_search_seq (c : Cfg) (ran : List Item) (hm : c.mode = .search) (hmp : c.matchesPossible = true)
    (hp : c.parallel = false) (hok : c.setupOk = true) :
    main c .ok ran =
      if (searchLoop c ran (initSt c)).2 then ⟨0, (searchLoop c ran (initSt c)).1.diags, (searchLoop c ran (initSt c)).1.out⟩
      else conclude c (afterCheck c (searchLoop c ran (initSt c)).1) (searchLoop c ran (initSt c)).1.matched := by
  simp only [main, run, hm, hmp, hp, search, hok]
  cases h : searchLoop c ran (initSt c) with
  | mk st piped =>
    cases piped
    · cases hf : c.flush <;> simp [finalFlush, conclude, hf, afterCheck] <;> split <;> rfl
    · simp

theorem main_search_par (c : Cfg) (ran : List Item) (hm : c.mode = .search) (hmp : c.matchesPossible = true)
    (hp : c.parallel = true) (hok : c.setupOk = true) :
    main c .ok ran =
      if (parSearchLoop c ran (initSt c)).1.brokenPipe then
        ⟨0, (parSearchLoop c ran (initSt c)).1.diags, (parSearchLoop c ran (initSt c)).1.out⟩
      else ⟨exitCode (parSearchLoop c ran (initSt c)).1.matched c.quiet (afterCheck c (parSearchLoop c ran (initSt c)).1).errored,
            (afterCheck c (parSearchLoop c ran (initSt c)).1).diags, (afterCheck c (parSearchLoop c ran (initSt c)).1).out⟩ := by
  simp only [main, run, hm, hmp, hp, searchParallel, hok]
  cases h : parSearchLoop c ran (initSt c) with
  | mk st q =>
    cases hb : st.brokenPipe
    · simp [afterCheck]
      split <;> rfl
    · simp

theorem main_files_seq (c : Cfg) (ran : List Item) (hm : c.mode = .files)
    (hp : c.parallel = false) (hok : c.setupOk = true) :
    main c .ok ran =
      match (filesLoop c ran (initSt c)).2 with
      | none => conclude c (filesLoop c ran (initSt c)).1 (filesLoop c ran (initSt c)).1.matched
      | some .pipe => ⟨0, (filesLoop c ran (initSt c)).1.diags, (filesLoop c ran (initSt c)).1.out⟩
      | some _ => ⟨2, (filesLoop c ran (initSt c)).1.diags ++ [.fatal], (filesLoop c ran (initSt c)).1.out⟩ := by
  simp only [main, run, hm, hp, files, hok]
  cases h : filesLoop c ran (initSt c) with
  | mk st failed =>
    cases failed with
    | none => cases hf : c.flush <;> simp [finalFlush, conclude, hf]
    | some w => cases w <;> simp

theorem main_files_par (c : Cfg) (ran : List Item) (hm : c.mode = .files)
    (hp : c.parallel = true) (hok : c.setupOk = true) :
    main c .ok ran =
      match (printThread (filesParWalk c ran (initSt c)).2).2 with
      | .ok => conclude c { (filesParWalk c ran (initSt c)).1 with
                  out := (filesParWalk c ran (initSt c)).1.out ++ (printThread (filesParWalk c ran (initSt c)).2).1 }
                (filesParWalk c ran (initSt c)).1.matched
      | .pipe => ⟨0, (filesParWalk c ran (initSt c)).1.diags,
            (filesParWalk c ran (initSt c)).1.out ++ (printThread (filesParWalk c ran (initSt c)).2).1⟩
      | .err => ⟨2, (filesParWalk c ran (initSt c)).1.diags ++ [.fatal],
          (filesParWalk c ran (initSt c)).1.out ++ (printThread (filesParWalk c ran (initSt c)).2).1⟩ := by
  simp only [main, run, hm, hp, filesParallel, hok]
  cases h : filesParWalk c ran (initSt c) with
  | mk st sent =>
    cases h2 : printThread sent with
    | mk o r =>
      cases r
      · cases hf : c.flush <;> simp [finalFlush, conclude, hf]
      · simp
      · simp

theorem qam_quiet (c : Cfg) (h : c.qam = true) : c.quiet = true := by
  simp [Cfg.qam] at h; exact h.2

theorem exitCode_eq_specExit (m q e : Bool) : exitCode m q e = specExit m e q := by
  cases m <;> cases q <;> cases e <;> decide

/-- The one place where quit-after-match meets the table: flags may be partial only when the
status is already decided by `matched ∧ quiet`. -/
theorem exit_core (c : Cfg) (m e M E : Bool) (hM : M = m) (hE : (m && c.qam) = false → E = e) :
    exitCode m c.quiet e = specExit M E c.quiet := by
  subst hM
  cases hq : (M && c.qam) with
  | false => rw [hE hq, exitCode_eq_specExit]
  | true =>
    simp only [Bool.and_eq_true] at hq
    rw [qam_quiet c hq.2, hq.1]
    cases e <;> cases E <;> decide

/-! ### Diagnostics come from faulty entries only -/

theorem mem_errMessage (c : Cfg) (st : St) (d e : Diag) (h : e ∈ (errMessage c st d).diags) :
    e ∈ st.diags ∨ e = d := by
  unfold errMessage at h
  simp only at h
  split at h
  · rcases List.mem_append.mp h with h | h
    · exact .inl h
    · exact .inr (by simpa using h)
  · exact .inl h

theorem searchLoop_diags (c : Cfg) (hm : c.mode = .search) (hp : c.parallel = false) (items : List Item) (st : St) :
    ∀ d ∈ (searchLoop c items st).1.diags, d ∈ st.diags ∨ d ∈ items.filterMap (diagOf c) := by
  induction items generalizing st with
  | nil => intro d hd; exact .inl hd
  | cons x xs ih =>
    intro d hd
    cases x with
    | walkErr =>
      simp only [searchLoop] at hd
      rcases ih _ d hd with h | h
      · rcases mem_errMessage _ _ _ _ h with h | h
        · exact .inl h
        · exact .inr (by simp [diagOf, h])
      · exact .inr (by simp only [List.filterMap_cons, diagOf]; exact List.mem_cons_of_mem _ h)
    | skip =>
      simp only [searchLoop] at hd
      rcases ih _ d hd with h | h
      · exact .inl h
      · exact .inr (by simpa [diagOf] using h)
    | file id sr wr =>
      cases sr with
      | pipe =>
        simp only [searchLoop] at hd
        exact .inl hd
      | err =>
        simp only [searchLoop] at hd
        rcases ih _ d hd with h | h
        · rcases mem_errMessage _ _ _ _ h with h | h
          · exact .inl h
          · exact .inr (by simp [diagOf, hm, hp, h])
        · refine .inr ?_
          rw [List.filterMap_cons]
          split
          · exact h
          · exact List.mem_cons_of_mem _ h
      | ok m =>
        simp only [searchLoop] at hd
        split at hd
        · exact .inl hd
        · rcases ih _ d hd with h | h
          · exact .inl h
          · exact .inr (by cases wr <;> simp_all [diagOf])

theorem parSearchLoop_diags (c : Cfg) (hm : c.mode = .search) (hp : c.parallel = true) (items : List Item) (st : St) :
    ∀ d ∈ (parSearchLoop c items st).1.diags, d ∈ st.diags ∨ d ∈ items.filterMap (diagOf c) := by
  induction items generalizing st with
  | nil => intro d hd; exact .inl hd
  | cons x xs ih =>
    intro d hd
    simp only [parSearchLoop] at hd
    have step : ∀ e ∈ (parSearchStep c st x).1.diags, e ∈ st.diags ∨ diagOf c x = some e := by
      intro e he
      cases x with
      | walkErr =>
        rcases mem_errMessage _ _ _ _ he with h | h
        · exact .inl h
        · exact .inr (by simp [diagOf, h])
      | skip => exact .inl he
      | file id sr wr =>
        cases sr with
        | pipe =>
          cases wr with
          | pipe => exact .inl he
          | ok =>
            rcases mem_errMessage _ _ _ _ he with h | h
            · exact .inl h
            · exact .inr (by simp [diagOf, hm, hp, h])
          | err =>
            rcases mem_errMessage _ _ _ _ he with h | h
            · exact .inl h
            · exact .inr (by simp [diagOf, hm, hp, h])
        | err =>
          cases wr with
          | pipe => exact .inl he
          | ok =>
            rcases mem_errMessage _ _ _ _ he with h | h
            · exact .inl h
            · exact .inr (by simp [diagOf, hm, hp, h])
          | err =>
            rcases mem_errMessage _ _ _ _ he with h | h
            · exact .inl h
            · exact .inr (by simp [diagOf, hm, hp, h])
        | ok m =>
          cases wr with
          | ok => exact .inl he
          | pipe => exact .inl he
          | err =>
            rcases mem_errMessage _ _ _ _ he with h | h
            · exact .inl h
            · exact .inr (by simp [diagOf, hm, hp, h])
    rcases ih _ d hd with h | h
    · rcases step d h with h | h
      · exact .inl h
      · exact .inr (by simp [h])
    · refine .inr ?_
      rw [List.filterMap_cons]
      split
      · exact h
      · exact List.mem_cons_of_mem _ h

theorem filesLoop_diags (c : Cfg) (items : List Item) (st : St) :
    ∀ d ∈ (filesLoop c items st).1.diags, d ∈ st.diags ∨ d ∈ items.filterMap (diagOf c) := by
  induction items generalizing st with
  | nil => intro d hd; exact .inl hd
  | cons x xs ih =>
    intro d hd
    cases x with
    | walkErr =>
      simp only [filesLoop] at hd
      rcases ih _ d hd with h | h
      · rcases mem_errMessage _ _ _ _ h with h | h
        · exact .inl h
        · exact .inr (by simp [diagOf, h])
      · exact .inr (by simp only [List.filterMap_cons, diagOf]; exact List.mem_cons_of_mem _ h)
    | skip =>
      simp only [filesLoop] at hd
      rcases ih _ d hd with h | h
      · exact .inl h
      · exact .inr (by simpa [diagOf] using h)
    | file id sr wr =>
      simp only [filesLoop] at hd
      split at hd
      · exact .inl hd
      · cases wr with
        | pipe => exact .inl hd
        | err => exact .inl hd
        | ok =>
          rcases ih _ d hd with h | h
          · exact .inl h
          · refine .inr ?_
            rw [List.filterMap_cons]
            split
            · exact h
            · exact List.mem_cons_of_mem _ h

theorem filesParWalk_diags (c : Cfg) (items : List Item) (st : St) :
    ∀ d ∈ (filesParWalk c items st).1.diags, d ∈ st.diags ∨ d ∈ items.filterMap (diagOf c) := by
  induction items generalizing st with
  | nil => intro d hd; exact .inl hd
  | cons x xs ih =>
    intro d hd
    cases x with
    | walkErr =>
      simp only [filesParWalk] at hd
      rcases ih _ d hd with h | h
      · rcases mem_errMessage _ _ _ _ h with h | h
        · exact .inl h
        · exact .inr (by simp [diagOf, h])
      · exact .inr (by simp only [List.filterMap_cons, diagOf]; exact List.mem_cons_of_mem _ h)
    | skip =>
      simp only [filesParWalk] at hd
      rcases ih _ d hd with h | h
      · exact .inl h
      · exact .inr (by simpa [diagOf] using h)
    | file id sr wr =>
      simp only [filesParWalk] at hd
      rcases ih _ d hd with h | h
      · exact .inl h
      · refine .inr ?_
        rw [List.filterMap_cons]
        split
        · exact h
        · exact List.mem_cons_of_mem _ h

/-! ### A diagnostic once printed stays printed -/

theorem mem_errMessage_of_mem (c : Cfg) (st : St) (e d : Diag) (h : d ∈ st.diags) : d ∈ (errMessage c st e).diags := by
  unfold errMessage
  simp only
  split
  · exact List.mem_append_left _ h
  · exact h

theorem searchLoop_keeps (c : Cfg) (items : List Item) (st : St) (d : Diag) (h : d ∈ st.diags) :
    d ∈ (searchLoop c items st).1.diags := by
  induction items generalizing st with
  | nil => exact h
  | cons x xs ih =>
    cases x with
    | walkErr => simp only [searchLoop]; exact ih _ (mem_errMessage_of_mem _ _ _ _ h)
    | skip => simp only [searchLoop]; exact ih _ h
    | file id sr wr =>
      cases sr with
      | pipe => simp only [searchLoop]; exact h
      | err => simp only [searchLoop]; exact ih _ (mem_errMessage_of_mem _ _ _ _ h)
      | ok m =>
        simp only [searchLoop]
        split
        · exact h
        · exact ih _ h

theorem parSearchStep_keeps (c : Cfg) (x : Item) (st : St) (d : Diag) (h : d ∈ st.diags) :
    d ∈ (parSearchStep c st x).1.diags := by
  cases x with
  | walkErr => exact mem_errMessage_of_mem _ _ _ _ h
  | skip => exact h
  | file id sr wr =>
    cases sr <;> cases wr <;> first | exact h | exact mem_errMessage_of_mem _ _ _ _ h

theorem parSearchLoop_keeps (c : Cfg) (items : List Item) (st : St) (d : Diag) (h : d ∈ st.diags) :
    d ∈ (parSearchLoop c items st).1.diags := by
  induction items generalizing st with
  | nil => exact h
  | cons x xs ih => simp only [parSearchLoop]; exact ih _ (parSearchStep_keeps c x st d h)

theorem filesLoop_keeps (c : Cfg) (items : List Item) (st : St) (d : Diag) (h : d ∈ st.diags) :
    d ∈ (filesLoop c items st).1.diags := by
  induction items generalizing st with
  | nil => exact h
  | cons x xs ih =>
    cases x with
    | walkErr => simp only [filesLoop]; exact ih _ (mem_errMessage_of_mem _ _ _ _ h)
    | skip => simp only [filesLoop]; exact ih _ h
    | file id sr wr =>
      simp only [filesLoop]
      split
      · exact h
      · cases wr with
        | pipe => exact h
        | err => exact h
        | ok => exact ih _ h

theorem filesParWalk_keeps (c : Cfg) (items : List Item) (st : St) (d : Diag) (h : d ∈ st.diags) :
    d ∈ (filesParWalk c items st).1.diags := by
  induction items generalizing st with
  | nil => exact h
  | cons x xs ih =>
    cases x with
    | walkErr => simp only [filesParWalk]; exact ih _ (mem_errMessage_of_mem _ _ _ _ h)
    | skip => simp only [filesParWalk]; exact ih _ h
    | file id sr wr => simp only [filesParWalk]; exact ih _ h

theorem afterCheck_keeps (c : Cfg) (st : St) (d : Diag) (h : d ∈ st.diags) : d ∈ (afterCheck c st).diags := by
  unfold afterCheck
  split
  · exact mem_errMessage_of_mem _ _ _ _ h
  · exact h

theorem mem_afterCheck (c : Cfg) (st : St) (d : Diag) (h : d ∈ (afterCheck c st).diags) :
    d ∈ st.diags ∨ d = .nothingSearched := by
  unfold afterCheck at h
  split at h
  · exact mem_errMessage _ _ _ _ h
  · exact .inl h

theorem conclude_keeps (c : Cfg) (st : St) (m : Bool) (d : Diag) (h : d ∈ st.diags) : d ∈ (conclude c st m).diags := by
  unfold conclude
  split
  · exact h
  · exact h
  · exact List.mem_append_left _ h

theorem config_in_initSt (c : Cfg) (h : c.configErr = true) (hm : c.messages = true) : Diag.config ∈ (initSt c).diags := by
  simp [initSt, errMessage, h, hm]

/-! ### Broken pipe in `--files` -/

theorem filesLoop_pipe (c : Cfg) (items : List Item) (st : St) (h : filesPipe c items = true) :
    (filesLoop c items st).2 = some .pipe := by
  induction items generalizing st with
  | nil => simp [filesPipe] at h
  | cons x xs ih =>
    cases x with
    | walkErr =>
      simp only [filesPipe] at h
      simp only [filesLoop]
      exact ih _ h
    | skip =>
      simp only [filesPipe] at h
      simp only [filesLoop]
      exact ih _ h
    | file id sr wr =>
      simp only [filesPipe] at h
      simp only [filesLoop]
      split at h
      · simp at h
      · rename_i hq
        rw [if_neg hq]
        cases wr with
        | pipe => rfl
        | err => simp at h
        | ok => exact ih _ h

theorem filesParWalk_sent_matched (c : Cfg) (items : List Item) (st : St)
    (h : (filesParWalk c items st).2 ≠ []) : (filesParWalk c items st).1.matched = true := by
  induction items generalizing st with
  | nil => simp [filesParWalk] at h
  | cons x xs ih =>
    cases x with
    | walkErr => simp only [filesParWalk] at h ⊢; exact ih _ h
    | skip => simp only [filesParWalk] at h ⊢; exact ih _ h
    | file id sr wr =>
      simp only [filesParWalk]
      have mono : ∀ (ys : List Item) (s : St), s.matched = true → (filesParWalk c ys s).1.matched = true := by
        intro ys
        induction ys with
        | nil => intro s hs; simpa [filesParWalk] using hs
        | cons y ys ihy =>
          intro s hs
          cases y with
          | walkErr => simp only [filesParWalk]; exact ihy _ (by simpa using hs)
          | skip => simp only [filesParWalk]; exact ihy _ hs
          | file => simp only [filesParWalk]; exact ihy _ rfl
      exact mono _ _ rfl

theorem printThread_pipe_ne_nil (sent : List (Nat × WriteRes)) (h : (printThread sent).2 = .pipe) : sent ≠ [] := by
  intro hs; subst hs; simp [printThread] at h

/-! ### Results do not depend on faults elsewhere -/

/-- The part of the state the result stream depends on. -/
def Core (a b : St) : Prop := a.matched = b.matched ∧ a.out = b.out

theorem Core.rfl' (a : St) : Core a a := ⟨rfl, rfl⟩

theorem searchLoop_core (c : Cfg) (items : List Item) (a b : St) (h : Core a b) :
    Core (searchLoop c items a).1 (searchLoop c items b).1 := by
  induction items generalizing a b with
  | nil => exact h
  | cons x xs ih =>
    cases x with
    | walkErr => simp only [searchLoop]; exact ih _ _ h
    | skip => simp only [searchLoop]; exact ih _ _ h
    | file id sr wr =>
      cases sr with
      | pipe => simp only [searchLoop]; exact h
      | err => simp only [searchLoop]; exact ih _ _ h
      | ok m =>
        simp only [searchLoop, h.1, h.2]
        split
        · exact ⟨rfl, rfl⟩
        · exact ih _ _ ⟨rfl, rfl⟩

theorem searchLoop_drop (c : Cfg) (pre post : List Item) (f : Item)
    (hf : isFault c f = true) (st : St) :
    Core (searchLoop c (pre ++ f :: post) st).1 (searchLoop c (pre ++ post) st).1 := by
  induction pre generalizing st with
  | nil =>
    cases f with
    | walkErr => simp only [List.nil_append, searchLoop]; exact searchLoop_core c post _ _ ⟨rfl, rfl⟩
    | skip => simp [isFault] at hf
    | file id sr wr =>
      cases sr with
      | err => simp only [List.nil_append, searchLoop]; exact searchLoop_core c post _ _ ⟨rfl, rfl⟩
      | pipe => simp [isFault] at hf
      | ok m => simp [isFault] at hf
  | cons x xs ih =>
    cases x with
    | walkErr => simp only [List.cons_append, searchLoop]; exact ih _
    | skip => simp only [List.cons_append, searchLoop]; exact ih _
    | file id sr wr =>
      cases sr with
      | pipe => simp only [List.cons_append, searchLoop]; exact ⟨rfl, rfl⟩
      | err => simp only [List.cons_append, searchLoop]; exact ih _
      | ok m =>
        simp only [List.cons_append, searchLoop]
        split
        · exact ⟨rfl, rfl⟩
        · exact ih _

theorem parSearchStep_core (c : Cfg) (x : Item) (a b : St) (h : Core a b) :
    Core (parSearchStep c a x).1 (parSearchStep c b x).1 := by
  cases x with
  | walkErr => exact h
  | skip => exact h
  | file id sr wr =>
    cases sr with
    | pipe => cases wr <;> exact h
    | err => cases wr <;> exact h
    | ok m => cases wr <;> exact ⟨by simp [parSearchStep, h.1], by simp [parSearchStep, h.2]⟩

theorem parSearchLoop_core (c : Cfg) (items : List Item) (a b : St) (h : Core a b) :
    Core (parSearchLoop c items a).1 (parSearchLoop c items b).1 := by
  induction items generalizing a b with
  | nil => exact h
  | cons x xs ih => simp only [parSearchLoop]; exact ih _ _ (parSearchStep_core c x a b h)

theorem parSearchLoop_drop (c : Cfg) (pre post : List Item) (f : Item)
    (hf : isFault c f = true) (st : St) :
    Core (parSearchLoop c (pre ++ f :: post) st).1 (parSearchLoop c (pre ++ post) st).1 := by
  induction pre generalizing st with
  | nil =>
    simp only [List.nil_append, parSearchLoop]
    apply parSearchLoop_core
    cases f with
    | walkErr => exact ⟨rfl, rfl⟩
    | skip => simp [isFault] at hf
    | file id sr wr =>
      cases sr with
      | err => cases wr <;> exact ⟨rfl, rfl⟩
      | pipe => simp [isFault] at hf
      | ok m => simp [isFault] at hf
  | cons x xs ih => simp only [List.cons_append, parSearchLoop]; exact ih _

theorem filesLoop_core (c : Cfg) (items : List Item) (a b : St) (h : Core a b) :
    Core (filesLoop c items a).1 (filesLoop c items b).1 := by
  induction items generalizing a b with
  | nil => exact h
  | cons x xs ih =>
    cases x with
    | walkErr => simp only [filesLoop]; exact ih _ _ h
    | skip => simp only [filesLoop]; exact ih _ _ h
    | file id sr wr =>
      simp only [filesLoop]
      split
      · exact ⟨rfl, h.2⟩
      · cases wr with
        | pipe => exact ⟨rfl, h.2⟩
        | err => exact ⟨rfl, h.2⟩
        | ok => exact ih _ _ ⟨rfl, by simp [h.2]⟩

theorem filesLoop_drop (c : Cfg) (hm : c.mode = .files) (pre post : List Item) (f : Item)
    (hf : isFault c f = true) (st : St) :
    Core (filesLoop c (pre ++ f :: post) st).1 (filesLoop c (pre ++ post) st).1 := by
  have hw : f = .walkErr := by
    cases f with
    | walkErr => rfl
    | skip => simp [isFault] at hf
    | file id sr wr => cases sr <;> simp [isFault, hm] at hf
  subst hw
  induction pre generalizing st with
  | nil => simp only [List.nil_append, filesLoop]; exact filesLoop_core c post _ _ ⟨rfl, rfl⟩
  | cons x xs ih =>
    cases x with
    | walkErr => simp only [List.cons_append, filesLoop]; exact ih _
    | skip => simp only [List.cons_append, filesLoop]; exact ih _
    | file id sr wr =>
      simp only [List.cons_append, filesLoop]
      split
      · exact ⟨rfl, rfl⟩
      · cases wr with
        | pipe => exact ⟨rfl, rfl⟩
        | err => exact ⟨rfl, rfl⟩
        | ok => exact ih _

theorem filesParWalk_sent_indep (c : Cfg) (items : List Item) (a b : St) :
    (filesParWalk c items a).2 = (filesParWalk c items b).2 := by
  induction items generalizing a b with
  | nil => rfl
  | cons x xs ih =>
    cases x with
    | walkErr => simp only [filesParWalk]; exact ih _ _
    | skip => simp only [filesParWalk]; exact ih _ _
    | file id sr wr => simp only [filesParWalk]; rw [ih _ { b with matched := true }]

theorem filesParWalk_out (c : Cfg) (items : List Item) (a : St) :
    (filesParWalk c items a).1.out = a.out := by
  induction items generalizing a with
  | nil => rfl
  | cons x xs ih =>
    cases x with
    | walkErr => simp only [filesParWalk]; rw [ih]; rfl
    | skip => simp only [filesParWalk]; exact ih _
    | file id sr wr => simp only [filesParWalk]; rw [ih]

theorem filesParWalk_drop (c : Cfg) (pre post : List Item) (st : St) :
    (filesParWalk c (pre ++ .walkErr :: post) st).2 = (filesParWalk c (pre ++ post) st).2 := by
  induction pre generalizing st with
  | nil => simp only [List.nil_append, filesParWalk]; exact filesParWalk_sent_indep c post _ _
  | cons x xs ih =>
    cases x with
    | walkErr => simp only [List.cons_append, filesParWalk]; exact ih _
    | skip => simp only [List.cons_append, filesParWalk]; exact ih _
    | file id sr wr => simp only [List.cons_append, filesParWalk]; rw [ih]

/-! ### Without an early stop, every healthy entry's results are produced, in order -/

@[simp] theorem okId_walkErr (c : Cfg) : okId c .walkErr = none := rfl
@[simp] theorem okId_skip (c : Cfg) : okId c .skip = none := rfl
@[simp] theorem okId_ok (c : Cfg) (id : Nat) (m : Bool) (wr : WriteRes) : okId c (.file id (.ok m) wr) = some id := rfl
@[simp] theorem okId_err (c : Cfg) (id : Nat) (wr : WriteRes) :
    okId c (.file id .err wr) = if c.mode == .files then some id else none := rfl
@[simp] theorem okId_pipe (c : Cfg) (id : Nat) (wr : WriteRes) :
    okId c (.file id .pipe wr) = if c.mode == .files then some id else none := rfl


theorem searchLoop_out (c : Cfg) (hm : c.mode = .search) (hq : c.qam = false) (items : List Item) (st : St)
    (h : WritesOk items) : (searchLoop c items st).1.out = st.out ++ items.filterMap (okId c) := by
  induction items generalizing st with
  | nil => simp [searchLoop]
  | cons x xs ih =>
    have ht := h.tail
    have hh := h.head
    cases x with
    | walkErr => simp [searchLoop, ih _ ht, List.filterMap_cons]
    | skip => simp [searchLoop, ih _ ht, List.filterMap_cons]
    | file id sr wr =>
      cases sr with
      | pipe => simp [writesOk] at hh
      | err => simp [searchLoop, ih _ ht, List.filterMap_cons, hm]
      | ok m => simp [searchLoop, hq, ih _ ht, List.filterMap_cons]

theorem parSearchLoop_out (c : Cfg) (hm : c.mode = .search) (items : List Item) (st : St)
    (h : WritesOk items) : (parSearchLoop c items st).1.out = st.out ++ items.filterMap (okId c) := by
  induction items generalizing st with
  | nil => simp [parSearchLoop]
  | cons x xs ih =>
    have ht := h.tail
    have hh := h.head
    cases x with
    | walkErr => simp [parSearchLoop, parSearchStep, ih _ ht, List.filterMap_cons]
    | skip => simp [parSearchLoop, parSearchStep, ih _ ht, List.filterMap_cons]
    | file id sr wr =>
      cases sr with
      | pipe => simp [writesOk] at hh
      | err =>
        cases wr with
        | pipe => simp [writesOk] at hh
        | err => simp [writesOk] at hh
        | ok => simp [parSearchLoop, parSearchStep, ih _ ht, List.filterMap_cons, hm]
      | ok m =>
        cases wr with
        | pipe => simp [writesOk] at hh
        | err => simp [writesOk] at hh
        | ok => simp [parSearchLoop, parSearchStep, ih _ ht, List.filterMap_cons]

theorem filesLoop_out (c : Cfg) (hm : c.mode = .files) (hq : c.qam = false) (items : List Item) (st : St)
    (h : WritesOk items) : (filesLoop c items st).1.out = st.out ++ items.filterMap (okId c) := by
  induction items generalizing st with
  | nil => simp [filesLoop]
  | cons x xs ih =>
    have ht := h.tail
    have hh := h.head
    cases x with
    | walkErr => simp [filesLoop, ih _ ht, List.filterMap_cons]
    | skip => simp [filesLoop, ih _ ht, List.filterMap_cons]
    | file id sr wr =>
      cases wr with
      | pipe => cases sr <;> simp [writesOk] at hh
      | err => cases sr <;> simp [writesOk] at hh
      | ok => cases sr <;> simp [filesLoop, hq, ih _ ht, List.filterMap_cons, hm]

theorem filesPar_out (c : Cfg) (hm : c.mode = .files) (hq : c.qam = false) (items : List Item) (st : St)
    (h : WritesOk items) :
    (printThread (filesParWalk c items st).2).1 = items.filterMap (okId c) := by
  induction items generalizing st with
  | nil => simp [filesParWalk, printThread]
  | cons x xs ih =>
    have ht := h.tail
    have hh := h.head
    cases x with
    | walkErr => simp [filesParWalk, ih _ ht, List.filterMap_cons]
    | skip => simp [filesParWalk, ih _ ht, List.filterMap_cons]
    | file id sr wr =>
      cases wr with
      | pipe => cases sr <;> simp [writesOk] at hh
      | err => cases sr <;> simp [writesOk] at hh
      | ok => cases sr <;> simp [filesParWalk, hq, printThread, ih _ ht, List.filterMap_cons, hm]

/-! ### `--stats` -/

theorem searchStats_ok (c : Cfg) (hq : c.qam = false) (items : List Item) (matched : Bool) (s : Stats)
    (h : WritesOk items) :
    searchStats c items matched s = some ⟨s.searches + items.countP isOk, s.withMatch + items.countP isMatch⟩ := by
  induction items generalizing matched s with
  | nil => simp [searchStats]
  | cons x xs ih =>
    have ht := h.tail
    have hh := h.head
    cases x with
    | walkErr => simp [searchStats, ih _ _ ht, isOk, isMatch, List.countP_cons]
    | skip => simp [searchStats, ih _ _ ht, isOk, isMatch, List.countP_cons]
    | file id sr wr =>
      cases sr with
      | pipe => simp [writesOk] at hh
      | err => simp [searchStats, ih _ _ ht, isOk, isMatch, List.countP_cons]
      | ok m =>
        simp only [searchStats, hq, Bool.and_false, Bool.false_eq_true, if_false]
        rw [ih _ _ ht]
        cases m <;> simp [Stats.add, isOk, isMatch, List.countP_cons] <;> omega

theorem parStats_eq (items : List Item) (s : Stats) :
    parStats items s = ⟨s.searches + items.countP isOk, s.withMatch + items.countP isMatch⟩ := by
  induction items generalizing s with
  | nil => simp [parStats]
  | cons x xs ih =>
    cases x with
    | walkErr => simp [parStats, ih, isOk, isMatch, List.countP_cons]
    | skip => simp [parStats, ih, isOk, isMatch, List.countP_cons]
    | file id sr wr =>
      cases sr with
      | pipe => simp [parStats, ih, isOk, isMatch, List.countP_cons]
      | err => simp [parStats, ih, isOk, isMatch, List.countP_cons]
      | ok m => cases m <;> simp [parStats, ih, Stats.add, isOk, isMatch, List.countP_cons] <;> omega

end RgVerif.Exit
