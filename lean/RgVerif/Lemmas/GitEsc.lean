import RgVerif.Lemmas.GitBlank
/-
Line level of C04 for lines that start with an escaped `!` or `#` (`\!important`, `\#notes#`): ripgrep drops the
backslash in `add_line` and compiles the rest; git keeps `\!` / `\#` in the pattern, where `wildmatch` reads it as the
literal character.  The rest of the line is in the wildcard sub-grammar.
-/
namespace RgVerif.Gitignore
open RgVerif RgVerif.Glob RgVerif.GlobDoc

/-- `\c` and `c` mean the same to `wildmatch` when `c` is `!` or `#` -/
theorem wm_esc_first (ci pn po : Bool) (c0 : Nat) (hc : c0 = 33 ∨ c0 = 35) (tl : List Nat) (t : Bytes) :
    GitSpec.wm ci pn po (92 :: c0 :: tl) t = GitSpec.wm ci pn po (c0 :: tl) t := by
  have e1 := GitSpec.wm.eq_def ci pn po (92 :: c0 :: tl) t
  have e2 := GitSpec.wm.eq_def ci pn po (c0 :: tl) t
  rw [e1, e2]
  rcases hc with rfl | rfl <;> cases t <;> simp [GitSpec.toLower, GitSpec.isUpper]

/-- the line `\c…[/]` -/
def escLine (dir : Bool) (coreR : List Nat) : List Nat := lineOf false false dir (92 :: coreR)

structure EscCoreOK (ci : Bool) (coreR : List Nat) : Prop where
  simple : simpleGlob true coreR = true
  head : ∃ c0 tl, coreR = c0 :: tl ∧ (c0 = 33 ∨ c0 = 35)
  last : ∃ cl, coreR.getLast? = some cl ∧ cl ≠ 47 ∧ cl ≠ 92 ∧ cl ≠ 32 ∧ isWs cl = false
  noEscCi : ci = true → 92 ∉ coreR

def okEscCore (ci : Bool) (coreR : List Nat) : Bool :=
  simpleGlob true coreR &&
  (match coreR.head? with
   | some c0 => c0 == 33 || c0 == 35
   | none => false) &&
  (match coreR.getLast? with
   | some cl => cl != 47 && cl != 92 && cl != 32 && !isWs cl
   | none => false) &&
  (!ci || !coreR.contains 92)

theorem escCoreOK_of {ci : Bool} {coreR : List Nat} (h : okEscCore ci coreR = true) : EscCoreOK ci coreR := by
  unfold okEscCore at h
  simp only [Bool.and_eq_true] at h
  obtain ⟨⟨⟨h1, h2⟩, h3⟩, h4⟩ := h
  refine ⟨h1, ?_, ?_, ?_⟩
  · cases coreR with
    | nil => simp at h2
    | cons c0 tl =>
      simp only [List.head?_cons, Bool.or_eq_true, beq_iff_eq] at h2
      exact ⟨c0, tl, rfl, h2⟩
  · cases hl : coreR.getLast? with
    | none => simp [hl] at h3
    | some cl =>
      simp only [hl, Bool.and_eq_true, bne_iff_ne, ne_eq, Bool.not_eq_eq_eq_not, Bool.not_true] at h3
      exact ⟨cl, rfl, h3.1.1.1, h3.1.1.2, h3.1.2, h3.2⟩
  · intro hci hm
    subst hci
    simp at h4
    exact h4 hm

theorem addLine_escLine (ci dir : Bool) (coreR : List Nat) (h : EscCoreOK ci coreR) :
    ∃ g, addLine ci (escLine dir coreR) = .glob g ∧ g.glob = (rgGlobW ci false false dir coreR).glob ∧
      g.isWhitelist = false ∧ g.isOnlyDir = dir := by
  obtain ⟨c0, tl, hcore, hc0⟩ := h.head
  obtain ⟨cl, hlast, hl47, hl92, hl32, hlws⟩ := h.last
  have hne : coreR ≠ [] := by rw [hcore]; simp
  have hlast' : (92 :: coreR).getLast? = some cl := by rw [getLast?_cons_ne_nil _ hne]; exact hlast
  unfold addLine escLine
  rw [lineOf_startsWith35 false false dir (c0 := 92) (tl := coreR) rfl (by decide)]
  simp only [Bool.false_eq_true, ↓reduceIte]
  rw [lineOf_trim false false dir hlast' hlws hl32, lineOf_ne_nil false false dir (c0 := 92) (tl := coreR) rfl]
  simp only [Bool.false_eq_true, ↓reduceIte]
  have hsp : splitPrefix (lineOf false false dir (92 :: coreR)) =
      (false, false, coreR ++ (if dir then [47] else [])) := by
    rw [hcore]
    rcases hc0 with rfl | rfl <;> simp [lineOf, splitPrefix, startsWith, List.isPrefixOf]
  rw [hsp]
  have hne2 : (coreR ++ (if dir then [47] else [])).isEmpty = false := by rw [hcore]; simp
  simp only [hne2, Bool.false_eq_true, ↓reduceIte]
  rw [splitDirSlash_core dir hlast ⟨hl47, hl92⟩]
  simp only
  have hne3 : coreR.isEmpty = false := by rw [hcore]; simp
  simp only [hne3, Bool.and_false, Bool.false_eq_true, ↓reduceIte]
  rw [actualOf_simple' false h.simple hne]
  unfold rgGlobW
  cases hs : (!false && !coreR.contains 47)
  · simp only [Bool.false_eq_true, ↓reduceIte]
    rw [parse_simple (giOpts ci) coreR h.simple]
    exact ⟨_, rfl, rfl, rfl, rfl⟩
  · simp only [↓reduceIte]
    rw [parse_dstar_simple (giOpts ci) rfl h.simple]
    exact ⟨_, rfl, rfl, rfl, rfl⟩

theorem parsePat_escLine (ci dir : Bool) (coreR : List Nat) (h : EscCoreOK ci coreR) :
    GitSpec.parsePat (escLine dir coreR) =
      some { negative := false, mustBeDir := dir, noDir := !coreR.contains 47, text := 92 :: coreR } := by
  obtain ⟨c0, tl, hcore, hc0⟩ := h.head
  obtain ⟨cl, hlast, hl47, hl92, hl32, hlws⟩ := h.last
  have hne0 : coreR ≠ [] := by rw [hcore]; simp
  have hlast' : (92 :: coreR).getLast? = some cl := by rw [getLast?_cons_ne_nil _ hne0]; exact hlast
  unfold escLine
  have hl := lineOf_getLast (core := 92 :: coreR) false false dir hlast'
  have hne : lineOf false false dir (92 :: coreR) ≠ [] := by
    intro hn; have := lineOf_ne_nil (core := 92 :: coreR) (c0 := 92) (tl := coreR) false false dir rfl
    simp [hn] at this
  have htrim : GitSpec.trimSpaces (lineOf false false dir (92 :: coreR)) = lineOf false false dir (92 :: coreR) := by
    unfold GitSpec.trimSpaces
    rw [trimSpaces_go_last _ _ _ hne (by rw [hl]; cases dir <;> simp [hl32])]; rfl
  have hhead : ((lineOf false false dir (92 :: coreR)).isEmpty ||
      (lineOf false false dir (92 :: coreR)).head? == some 35) = false := by
    simp [lineOf]
  unfold GitSpec.parsePat
  rw [hhead, htrim]
  simp only [Bool.false_eq_true, ↓reduceIte]
  rw [stripNeg_lineOf false false dir (c0 := 92) (tl := coreR) rfl (by decide)]
  simp only
  rw [stripDir_lineOf false dir hlast' hl47]
  simp only
  rw [contains_lineOf false _ rfl, stripLead_lineOf false (c0 := 92) (tl := coreR) rfl (by decide)]
  simp

/-- **an escaped `!` or `#` at the start of a line** is that character, for ripgrep and for git -/
theorem lineAgree_escLine (ci dir : Bool) (coreR : List Nat) (h : EscCoreOK ci coreR) :
    LineAgree ci (escLine dir coreR) := by
  intro rel isDir hwf
  obtain ⟨c0, tl, hcore, hc0⟩ := h.head
  have hne : coreR ≠ [] := by rw [hcore]; simp
  obtain ⟨g, hadd, hg1, hg2, hg3⟩ := addLine_escLine ci dir coreR h
  unfold mHit sHit
  rw [hadd, parsePat_escLine ci dir coreR h]
  have hm := rgGlobW_matches' ci false false dir coreR h.simple hne h.noEscCi rel hwf
  have hd : GitSpec.okDstarPos (92 :: coreR) = true := by
    simp [GitSpec.okDstarPos, GitSpec.simpleLen, GitSpec.isGlobSpecial]
  have hw : ∀ pn t, GitSpec.wm ci pn true (92 :: coreR) t = GitSpec.wm ci pn true coreR t := by
    intro pn t; rw [hcore]; exact wm_esc_first ci pn true c0 hc0 tl t
  simp only [Bool.not_false, Bool.true_and] at hm
  simp only [GiGlob.hits, GitSpec.patMatches, GitSpec.matchPathname_eq_wm _ _ _ hd, hw, hg1, hg2, hg3, hm,
    joinComps_eq]
  cases coreR.contains 47 <;> simp [Bool.and_comm]

/-- best-effort split of a trimmed line into (directory-only, what follows the backslash) -/
def escParts (l0 : List Nat) : Bool × List Nat :=
  if l0.getLast? == some 47 then (true, l0.dropLast.drop 1) else (false, l0.drop 1)

/-- lines `\!…` / `\#…` whose remainder is in the wildcard sub-grammar, optionally directory-only, optionally
followed by unescaped spaces -/
def okLineE (ci : Bool) (l : List Nat) : Bool :=
  let l0 := (l.reverse.dropWhile (· == 32)).reverse
  let dp := escParts l0
  escLine dp.1 dp.2 == l0 && okEscCore ci dp.2 && (l0 ++ spaces (l.length - l0.length) == l)

theorem lineAgree_of_okLineE (ci : Bool) (l : List Nat) (h : okLineE ci l = true) : LineAgree ci l := by
  unfold okLineE at h
  simp only [Bool.and_eq_true, beq_iff_eq] at h
  obtain ⟨⟨h1, h2⟩, h3⟩ := h
  generalize (l.reverse.dropWhile (· == 32)).reverse = l0 at h1 h2 h3
  generalize escParts l0 = dp at h1 h2
  obtain ⟨dir, coreR⟩ := dp
  simp only at h1 h2
  have hok := escCoreOK_of h2
  have hag := lineAgree_escLine ci dir coreR hok
  obtain ⟨cl, hlast, hl47, hl92, hl32, hlws⟩ := hok.last
  obtain ⟨c0, tl, hcore, _⟩ := hok.head
  have hne : coreR ≠ [] := by rw [hcore]; simp
  have hl := lineOf_getLast (core := 92 :: coreR) false false dir
    (by rw [getLast?_cons_ne_nil _ hne]; exact hlast)
  rw [← h3, ← h1]
  refine lineAgree_blank ci _ _ hl ?_ ?_ ?_ hag
  · cases dir <;> simp_all [isWs]
  · cases dir <;> simp_all
  · cases dir <;> simp_all

-- `\#a`, `\!x*.b/`, `\#a  `;  outside: `\a`
example : okLineE false [92, 35, 97] = true ∧ okLineE true [92, 33, 120, 42, 46, 98, 47] = true ∧
    okLineE false [92, 35, 97, 32, 32] = true ∧ okLineE false [92, 97] = false := by decide

end RgVerif.Gitignore
