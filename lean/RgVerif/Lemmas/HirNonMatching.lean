import RgVerif.Model.NonMatching
import RgVerif.Lemmas.HirBasic
/-
Soundness of `non_matching.rs`: every byte inside a match has been removed from the set.
-/
namespace RgVerif.Rx
open RgVerif

theorem bsMem_add (m b x : Nat) : bsMem (bsAdd m b) x = (bsMem m x || x == b) := by
  unfold bsMem bsAdd
  rw [Nat.testBit_or, Nat.one_shiftLeft, Nat.testBit_two_pow]
  congr 1
  by_cases h : b = x
  · subst h; simp
  · have h' : x ≠ b := fun e => h e.symm
    simp [h, h']

theorem bsMem_addRange (m lo hi x : Nat) :
    bsMem (bsAddRange m lo hi) x = (bsMem m x || (decide (lo ≤ x) && decide (x ≤ hi))) := by
  unfold bsMem bsAddRange
  split
  · rw [Nat.testBit_or, Nat.testBit_shiftLeft, Nat.testBit_two_pow_sub_one]
    congr 1
    by_cases h1 : lo ≤ x <;> by_cases h2 : x ≤ hi <;> simp [h1, h2] <;> omega
  · have : ¬ (lo ≤ x ∧ x ≤ hi) := by omega
    by_cases h1 : lo ≤ x <;> by_cases h2 : x ≤ hi <;> simp [h1, h2] <;> omega

theorem bsMem_addRange_mono {m lo hi x : Nat} (h : bsMem m x = true) : bsMem (bsAddRange m lo hi) x = true := by
  rw [bsMem_addRange, h]; rfl

theorem bsMem_addRange_in {m lo hi x : Nat} (h1 : lo ≤ x) (h2 : x ≤ hi) : bsMem (bsAddRange m lo hi) x = true := by
  rw [bsMem_addRange]; simp [h1, h2]

theorem addDigits_mono {m marker qlo qhi x : Nat} (h : bsMem m x = true) :
    bsMem (addDigits m marker qlo qhi) x = true := by
  unfold addDigits
  split
  · exact bsMem_addRange_mono h
  · split
    · exact bsMem_addRange_mono h
    · exact bsMem_addRange_mono (bsMem_addRange_mono h)

theorem addDigits_mem {m marker qlo qhi q : Nat} (h1 : qlo ≤ q) (h2 : q ≤ qhi) :
    bsMem (addDigits m marker qlo qhi) (marker + q % 64) = true := by
  unfold addDigits
  split
  · exact bsMem_addRange_in (by omega) (by omega)
  · split
    · exact bsMem_addRange_in (by omega) (by omega)
    · by_cases hq : q % 64 ≤ qhi % 64
      · exact bsMem_addRange_mono (bsMem_addRange_in (by omega) (by omega))
      · exact bsMem_addRange_in (by omega) (by omega)

theorem addUtf8Len_mono {m lo hi a b n x : Nat} (h : bsMem m x = true) :
    bsMem (addUtf8Len m lo hi a b n) x = true := by
  unfold addUtf8Len
  simp only
  split
  · split
    · exact bsMem_addRange_mono h
    · exact addDigits_mono (addDigits_mono h)
    · exact addDigits_mono (addDigits_mono (addDigits_mono h))
    · exact addDigits_mono (addDigits_mono (addDigits_mono (addDigits_mono h)))
  · exact h

theorem addUtf8Range_mono {m lo hi x : Nat} (h : bsMem m x = true) : bsMem (addUtf8Range m lo hi) x = true := by
  unfold addUtf8Range
  exact addUtf8Len_mono (addUtf8Len_mono (addUtf8Len_mono (addUtf8Len_mono (addUtf8Len_mono h))))

theorem addUtf8Len_mem1 {m lo hi c : Nat} (h1 : lo ≤ c) (h2 : c ≤ hi) (hc : c ≤ 0x7F) :
    bsMem (addUtf8Len m lo hi 0 0x7F 1) c = true := by
  unfold addUtf8Len
  simp only
  rw [if_pos (by omega)]
  exact bsMem_addRange_in (by omega) (by omega)

theorem addUtf8Len_mem2 {m lo hi c x : Nat} (h1 : lo ≤ c) (h2 : c ≤ hi) (ha : 0x80 ≤ c) (hb : c ≤ 0x7FF)
    (hx : x = 0xC0 + c / 64 ∨ x = 0x80 + c % 64) :
    bsMem (addUtf8Len m lo hi 0x80 0x7FF 2) x = true := by
  unfold addUtf8Len
  simp only
  rw [if_pos (by omega)]
  rcases hx with rfl | rfl
  · have e : c / 64 = (c / 64) % 64 := by omega
    rw [e]
    exact addDigits_mono (addDigits_mem (Nat.div_le_div_right (by omega)) (Nat.div_le_div_right (by omega)))
  · exact addDigits_mem (by omega) (by omega)

theorem addUtf8Len_mem3 {m lo hi a b c x : Nat} (h1 : lo ≤ c) (h2 : c ≤ hi) (ha : a ≤ c) (hb : c ≤ b)
    (hb' : b ≤ 0xFFFF)
    (hx : x = 0xE0 + c / 4096 ∨ x = 0x80 + c / 64 % 64 ∨ x = 0x80 + c % 64) :
    bsMem (addUtf8Len m lo hi a b 3) x = true := by
  unfold addUtf8Len
  simp only
  rw [if_pos (by omega)]
  rcases hx with rfl | rfl | rfl
  · have e : c / 4096 = (c / 4096) % 64 := by omega
    rw [e]
    exact addDigits_mono (addDigits_mono
      (addDigits_mem (Nat.div_le_div_right (by omega)) (Nat.div_le_div_right (by omega))))
  · exact addDigits_mono (addDigits_mem (Nat.div_le_div_right (by omega)) (Nat.div_le_div_right (by omega)))
  · exact addDigits_mem (by omega) (by omega)

theorem addUtf8Len_mem4 {m lo hi c x : Nat} (h1 : lo ≤ c) (h2 : c ≤ hi) (ha : 0x10000 ≤ c) (hb : c ≤ 0x10FFFF)
    (hx : x = 0xF0 + c / 262144 ∨ x = 0x80 + c / 4096 % 64 ∨ x = 0x80 + c / 64 % 64 ∨ x = 0x80 + c % 64) :
    bsMem (addUtf8Len m lo hi 0x10000 0x10FFFF 4) x = true := by
  unfold addUtf8Len
  simp only
  rw [if_pos (by omega)]
  rcases hx with rfl | rfl | rfl | rfl
  · have e : c / 262144 = (c / 262144) % 64 := by omega
    rw [e]
    exact addDigits_mono (addDigits_mono (addDigits_mono
      (addDigits_mem (Nat.div_le_div_right (by omega)) (Nat.div_le_div_right (by omega)))))
  · exact addDigits_mono (addDigits_mono
      (addDigits_mem (Nat.div_le_div_right (by omega)) (Nat.div_le_div_right (by omega))))
  · exact addDigits_mono (addDigits_mem (Nat.div_le_div_right (by omega)) (Nat.div_le_div_right (by omega)))
  · exact addDigits_mem (by omega) (by omega)

/-- `addUtf8Range` covers every byte of the encoding of every scalar value in the range
(the modelled `Utf8Sequences` is a superset of what a class can consume). -/
theorem addUtf8Range_mem {m lo hi c x : Nat} (h1 : lo ≤ c) (h2 : c ≤ hi) (hs : isScalar c = true)
    (hx : x ∈ utf8Enc c) : bsMem (addUtf8Range m lo hi) x = true := by
  unfold isScalar at hs
  simp only [Bool.or_eq_true, Bool.and_eq_true, decide_eq_true_eq] at hs
  unfold utf8Enc at hx
  unfold addUtf8Range
  simp only
  split at hx
  · simp only [List.mem_singleton] at hx
    subst hx
    exact addUtf8Len_mono (addUtf8Len_mono (addUtf8Len_mono (addUtf8Len_mono
      (addUtf8Len_mem1 h1 h2 (by omega)))))
  · split at hx
    · simp only [List.mem_cons, List.not_mem_nil, or_false] at hx
      exact addUtf8Len_mono (addUtf8Len_mono (addUtf8Len_mono
        (addUtf8Len_mem2 h1 h2 (by omega) (by omega) hx)))
    · split at hx
      · simp only [List.mem_cons, List.not_mem_nil, or_false] at hx
        by_cases hd : c ≤ 0xD7FF
        · exact addUtf8Len_mono (addUtf8Len_mono
            (addUtf8Len_mem3 h1 h2 (by omega) hd (by omega) hx))
        · exact addUtf8Len_mono
            (addUtf8Len_mem3 h1 h2 (by omega) (by omega : c ≤ 0xFFFF) (by omega) hx)
      · simp only [List.mem_cons, List.not_mem_nil, or_false] at hx
        exact addUtf8Len_mem4 h1 h2 (by omega) (by omega) hx

/-! ### folds -/

theorem foldl_bsAdd_mono (bs : Bytes) (m x : Nat) (h : bsMem m x = true) : bsMem (bs.foldl bsAdd m) x = true := by
  induction bs generalizing m with
  | nil => exact h
  | cons b t ih => exact ih _ (by rw [bsMem_add, h]; rfl)

theorem foldl_bsAdd_mem (bs : Bytes) (m x : Nat) (h : x ∈ bs) : bsMem (bs.foldl bsAdd m) x = true := by
  induction bs generalizing m with
  | nil => cases h
  | cons b t ih =>
    rcases List.mem_cons.1 h with rfl | h
    · exact foldl_bsAdd_mono t _ _ (by rw [bsMem_add]; simp)
    · exact ih _ h

theorem foldl_addRange_mono (rs : Ranges) (m x : Nat) (h : bsMem m x = true) :
    bsMem (rs.foldl (fun m r => bsAddRange m r.1 r.2) m) x = true := by
  induction rs generalizing m with
  | nil => exact h
  | cons r t ih => exact ih _ (bsMem_addRange_mono h)

theorem foldl_addRange_mem (rs : Ranges) (m x : Nat) (h : inCls rs x = true) :
    bsMem (rs.foldl (fun m r => bsAddRange m r.1 r.2) m) x = true := by
  induction rs generalizing m with
  | nil => simp [inCls] at h
  | cons r t ih =>
    simp only [inCls, List.any_cons, Bool.or_eq_true, Bool.and_eq_true, decide_eq_true_eq] at h
    rcases h with h | h
    · exact foldl_addRange_mono t _ _ (bsMem_addRange_in h.1 h.2)
    · exact ih _ (by simpa [inCls] using h)

theorem foldl_addUtf8_mono (rs : Ranges) (m x : Nat) (h : bsMem m x = true) :
    bsMem (rs.foldl (fun m r => addUtf8Range m r.1 r.2) m) x = true := by
  induction rs generalizing m with
  | nil => exact h
  | cons r t ih => exact ih _ (addUtf8Range_mono h)

theorem foldl_addUtf8_mem (rs : Ranges) (m c x : Nat) (h : inCls rs c = true) (hs : isScalar c = true)
    (hx : x ∈ utf8Enc c) : bsMem (rs.foldl (fun m r => addUtf8Range m r.1 r.2) m) x = true := by
  induction rs generalizing m with
  | nil => simp [inCls] at h
  | cons r t ih =>
    simp only [inCls, List.any_cons, Bool.or_eq_true, Bool.and_eq_true, decide_eq_true_eq] at h
    rcases h with h | h
    · exact foldl_addUtf8_mono t _ _ (addUtf8Range_mem h.1 h.2 hs hx)
    · exact ih _ (by simpa [inCls] using h)

/-! ### the tree -/

theorem lookRemoved_mono (m x : Nat) (k : Look) (h : bsMem m x = true) : bsMem (lookRemoved m k) x = true := by
  cases k <;> simp [lookRemoved, bsMem_add, h]

mutual
theorem matchingSet_mono : ∀ (h : Hir) (m x : Nat), bsMem m x = true → bsMem (matchingSet h m) x = true
  | .empty, _, _, hm => by simpa [matchingSet] using hm
  | .look k, _, _, hm => by simpa [matchingSet] using lookRemoved_mono _ _ k hm
  | .lit bs, _, _, hm => by simpa [matchingSet] using foldl_bsAdd_mono bs _ _ hm
  | .classU rs, _, _, hm => by simpa [matchingSet] using foldl_addUtf8_mono rs _ _ hm
  | .classB rs, _, _, hm => by simpa [matchingSet] using foldl_addRange_mono rs _ _ hm
  | .rep _ _ _ sub, m, x, hm => by simpa [matchingSet] using matchingSet_mono sub m x hm
  | .cap _ sub, m, x, hm => by simpa [matchingSet] using matchingSet_mono sub m x hm
  | .concat xs, m, x, hm => by simpa [matchingSet] using matchingSetL_mono xs m x hm
  | .alt xs, m, x, hm => by simpa [matchingSet] using matchingSetL_mono xs m x hm
theorem matchingSetL_mono : ∀ (xs : HirList) (m x : Nat), bsMem m x = true → bsMem (matchingSetL xs m) x = true
  | .nil, _, _, hm => by simpa [matchingSetL] using hm
  | .cons h t, m, x, hm => by
      simp only [matchingSetL]
      exact matchingSetL_mono t _ x (matchingSet_mono h m x hm)
end

/-- Every byte inside a match is in the removed set. -/
def Covered (M : Nat) (hay : Bytes) (s e : Nat) : Prop :=
  ∀ i x, s ≤ i → i < e → hay[i]? = some x → bsMem M x = true

theorem covered_of_slice {M : Nat} {hay : Bytes} {s e : Nat} {w : Bytes} (hw : slice hay s e = w)
    (h : ∀ x ∈ w, bsMem M x = true) : Covered M hay s e := by
  intro i x h1 h2 h3
  apply h
  rw [← hw, mem_slice_iff]
  exact ⟨i, h1, h2, h3⟩

mutual
theorem matchingSet_sound {lk : LookFn} : ∀ (h : Hir) (m : Nat) {hay : Bytes} {s e : Nat},
    Matches lk h hay s e → Covered (matchingSet h m) hay s e
  | .empty, _, _, _, _, .empty _ => fun i x h1 h2 => by omega
  | .lit bs, m, _, _, _, .lit _ hsl => by
      apply covered_of_slice hsl
      intro x hx
      simpa [matchingSet] using foldl_bsAdd_mem bs m x hx
  | .classB rs, m, _, s, _, .classB (b := c) hget hin => by
      intro i x h1 h2 h3
      have : i = s := by omega
      subst this
      rw [hget] at h3
      cases h3
      simpa [matchingSet] using foldl_addRange_mem rs m _ hin
  | .classU rs, m, _, _, _, .classU (c := c) hin hsc _ hsl => by
      apply covered_of_slice hsl
      intro x hx
      simpa [matchingSet] using foldl_addUtf8_mem rs m c x hin hsc hx
  | .look _, _, _, _, _, .look _ _ => fun i x h1 h2 => by omega
  | .rep _ _ _ sub, m, _, _, _, .rep n _ _ hr => by
      simp only [matchingSet]
      exact matchingSet_sound_rep sub m hr
  | .cap _ sub, m, _, _, _, .cap hm => by
      simp only [matchingSet]
      exact matchingSet_sound sub m hm
  | .concat xs, m, _, _, _, .concat hm => by
      simp only [matchingSet]
      exact matchingSet_sound_seq xs m hm
  | .alt xs, m, _, _, _, .alt hm => by
      simp only [matchingSet]
      exact matchingSet_sound_any xs m hm
theorem matchingSet_sound_seq {lk : LookFn} : ∀ (xs : HirList) (m : Nat) {hay : Bytes} {s e : Nat},
    MatchesSeq lk xs hay s e → Covered (matchingSetL xs m) hay s e
  | .nil, _, _, _, _, .nil _ => fun i x h1 h2 => by omega
  | .cons h t, m, _, _, _, .cons (m := mid) h1 h2 => by
      have a := matchingSet_sound h m h1
      have c := matchingSet_sound_seq t (matchingSet h m) h2
      intro i x hi1 hi2 hi3
      simp only [matchingSetL]
      rcases Nat.lt_or_ge i mid with hlt | hge
      · exact matchingSetL_mono t _ x (a i x hi1 hlt hi3)
      · exact c i x hge hi2 hi3
theorem matchingSet_sound_any {lk : LookFn} : ∀ (xs : HirList) (m : Nat) {hay : Bytes} {s e : Nat},
    MatchesAny lk xs hay s e → Covered (matchingSetL xs m) hay s e
  | .cons h t, m, _, _, _, .head h1 => by
      have a := matchingSet_sound h m h1
      intro i x hi1 hi2 hi3
      simp only [matchingSetL]
      exact matchingSetL_mono t _ x (a i x hi1 hi2 hi3)
  | .cons h t, m, _, _, _, .tail h1 => by
      simp only [matchingSetL]
      exact matchingSet_sound_any t _ h1
theorem matchingSet_sound_rep {lk : LookFn} : ∀ (sub : Hir) (m : Nat) {hay : Bytes} {n s e : Nat},
    MatchesRep lk sub hay n s e → Covered (matchingSet sub m) hay s e
  | _, _, _, _, _, _, .zero _ => fun i x h1 h2 => by omega
  | sub, m, _, _, _, _, .succ (m := mid) h1 h2 => by
      have a := matchingSet_sound sub m h1
      have c := matchingSet_sound_rep sub m h2
      intro i x hi1 hi2 hi3
      rcases Nat.lt_or_ge i mid with hlt | hge
      · exact a i x hi1 hlt hi3
      · exact c i x hge hi2 hi3
end

theorem mem_nonMatching {h : Hir} {b : Nat} : b ∈ nonMatching h ↔ b < 256 ∧ bsMem (matchingSet h 0) b = false := by
  unfold nonMatching
  simp [List.mem_filter]

end RgVerif.Rx
