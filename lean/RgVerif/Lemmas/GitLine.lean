import RgVerif.Lemmas.GitFile
/-
Line level of C04 for the literal sub-grammar: `[!][/]name(/name)*[/]` with names made of plain characters.
For these lines ripgrep's rewritten glob (`**/name` or the anchored path) matches exactly when git's rules do
(basename rule for patterns without `/`, anchoring otherwise, directory-only, negation).
-/
namespace RgVerif.Gitignore
open RgVerif RgVerif.Glob

/-- characters that are literal for both `glob.rs` and `wildmatch.c`, not special to `add_line`, not blank -/
def plain (c : Nat) : Bool :=
  c < 128 && !isWs c &&
  !([92, 42, 63, 91, 93, 123, 125, 44, 47, 33, 35].contains c)

/-- `[!][/]comps.join("/")[/]` -/
def mkLine (neg abs dir : Bool) (comps : List (List Nat)) : List Nat :=
  (if neg then [33] else []) ++ (if abs then [47] else []) ++ joinPath comps ++ (if dir then [47] else [])

def okComps (comps : List (List Nat)) : Bool :=
  !comps.isEmpty && comps.all fun c => !c.isEmpty && c.all plain

/-- best-effort inverse of `mkLine` (its correctness is not needed: `okLine` re-checks the result) -/
def splitSlash : List Nat → List Nat → List (List Nat)
  | [], cur => [cur]
  | c :: rest, cur => if c == 47 then cur :: splitSlash rest [] else splitSlash rest (cur ++ [c])

def decompose (l : List Nat) : Bool × Bool × Bool × List (List Nat) :=
  let (neg, l) := if l.head? == some 33 then (true, l.drop 1) else (false, l)
  let (abs, l) := if l.head? == some 47 then (true, l.drop 1) else (false, l)
  let (dir, l) := if l.getLast? == some 47 then (true, l.dropLast) else (false, l)
  (neg, abs, dir, splitSlash l [])

/-- the literal sub-grammar of gitignore lines, as a decidable predicate -/
def okLine (l : List Nat) : Bool :=
  let d := decompose l
  mkLine d.1 d.2.1 d.2.2.1 d.2.2.2 == l && okComps d.2.2.2

/-! ### facts about plain text -/

theorem plain_lt {c : Nat} (h : plain c = true) : c < 128 := by
  simp [plain] at h; exact h.1.1

theorem plain_ne {c : Nat} (h : plain c = true) :
    c ≠ 92 ∧ c ≠ 42 ∧ c ≠ 63 ∧ c ≠ 91 ∧ c ≠ 123 ∧ c ≠ 125 ∧ c ≠ 44 ∧ c ≠ 47 ∧ c ≠ 33 ∧ c ≠ 35 ∧ c ≠ 32 := by
  simp only [plain, Bool.and_eq_true, decide_eq_true_eq, Bool.not_eq_eq_eq_not, Bool.not_true] at h
  obtain ⟨⟨_, hws⟩, hl⟩ := h
  have hl' : ¬ c ∈ [92, 42, 63, 91, 93, 123, 125, 44, 47, 33, 35] := by simpa using hl
  simp only [List.mem_cons, List.not_mem_nil, or_false, not_or] at hl'
  refine ⟨hl'.1, hl'.2.1, hl'.2.2.1, hl'.2.2.2.1, hl'.2.2.2.2.2.1, hl'.2.2.2.2.2.2.1, hl'.2.2.2.2.2.2.2.1,
    hl'.2.2.2.2.2.2.2.2.1, hl'.2.2.2.2.2.2.2.2.2.1, hl'.2.2.2.2.2.2.2.2.2.2, ?_⟩
  intro h32; subst h32; simp [isWs] at hws

theorem plain_not_ws {c : Nat} (h : plain c = true) : isWs c = false := by
  simp only [plain, Bool.and_eq_true, Bool.not_eq_eq_eq_not, Bool.not_true] at h
  exact h.1.2

/-- characters of the core: plain or `/` -/
def coreChar (c : Nat) : Bool := plain c || c == 47

theorem utf8Enc_ascii {c : Nat} (h : c < 128) : utf8Enc c = [c] := by simp [utf8Enc, h]

theorem utf8Str_ascii {cs : List Nat} (h : ∀ c ∈ cs, c < 128) : utf8Str cs = cs := by
  induction cs with
  | nil => rfl
  | cons c cs ih =>
    rw [utf8Str_cons, utf8Enc_ascii (h c (by simp)), ih (fun x hx => h x (by simp [hx]))]; rfl

theorem coreChar_lt {c : Nat} (h : coreChar c = true) : c < 128 := by
  simp only [coreChar, Bool.or_eq_true, beq_iff_eq] at h
  rcases h with h | h
  · exact plain_lt h
  · omega

/-- the parser turns a run of core characters into literal tokens -/
theorem parseLoop_core (o : Opts) (cs : List Nat) (hcs : ∀ c ∈ cs, coreChar c = true)
    (fuel : Nat) (st : PState) (hb : st.branches = []) (hf : cs.length < fuel) :
    parseLoop o fuel st cs = .ok { outer := st.outer ++ lits cs, branches := [], cur := none } := by
  induction cs generalizing fuel st with
  | nil =>
    cases fuel with
    | zero => omega
    | succ fuel => simp [parseLoop, lits, hb]
  | cons c cs ih =>
    cases fuel with
    | zero => simp at hf
    | succ fuel =>
      have hc := hcs c (by simp)
      have hne : c ≠ 63 ∧ c ≠ 42 ∧ c ≠ 91 ∧ c ≠ 123 ∧ c ≠ 125 ∧ c ≠ 44 ∧ c ≠ 92 := by
        simp only [coreChar, Bool.or_eq_true, beq_iff_eq] at hc
        rcases hc with hc | hc
        · have := plain_ne hc
          exact ⟨this.2.2.1, this.2.1, this.2.2.2.1, this.2.2.2.2.1, this.2.2.2.2.2.1, this.2.2.2.2.2.2.1, this.1⟩
        · subst hc; decide
      unfold parseLoop
      simp only [beq_iff_eq, hne.1, hne.2.1, hne.2.2.1, hne.2.2.2.1, hne.2.2.2.2.1, hne.2.2.2.2.2.1,
        hne.2.2.2.2.2.2, ↓reduceIte]
      have hpush : ({ st with cur := some c } : PState).push (.lit c) =
          { outer := st.outer ++ [.s (.lit c)], branches := [], cur := some c } := by
        simp [PState.push, hb]
      rw [hpush, ih (fun x hx => hcs x (by simp [hx])) fuel _ rfl (by simpa using hf)]
      simp [lits]

theorem parse_core (o : Opts) (cs : List Nat) (hcs : ∀ c ∈ cs, coreChar c = true) :
    parse o cs = .ok (lits cs) := by
  unfold parse
  rw [parseLoop_core o cs hcs _ _ rfl (by omega)]
  simp [PState.depth]

/-- `**/` followed by core characters parses to `RecursivePrefix` and literals -/
theorem parse_dstar_core (o : Opts) (cs : List Nat) (hcs : ∀ c ∈ cs, coreChar c = true) :
    parse o ([42, 42, 47] ++ cs) = .ok (.s .recPrefix :: lits cs) := by
  unfold parse
  simp only [List.cons_append, List.nil_append, List.length_cons]
  unfold parseLoop
  simp only [Nat.reduceBEq, Bool.false_eq_true, ↓reduceIte, BEq.rfl]
  unfold parseStar
  simp only [PState.haveTokens, List.isEmpty_nil, Bool.not_true, Bool.not_false, ↓reduceIte, isSep,
    BEq.rfl]
  rw [parseLoop_core o cs hcs _ _ (by simp [PState.push]) (by omega)]
  simp [PState.depth, PState.push]

/-! ### `wildmatch` on literal text -/

theorem wm_core (pn prevOk : Bool) (cs : List Nat) (hcs : ∀ c ∈ cs, coreChar c = true) (t : Bytes) :
    GitSpec.wm false pn prevOk cs t = (t == cs) := by
  induction cs generalizing prevOk t with
  | nil =>
    unfold GitSpec.wm
    cases t <;> simp
  | cons c cs ih =>
    have hc := hcs c (by simp)
    have hne : c ≠ 92 ∧ c ≠ 63 ∧ c ≠ 91 ∧ c ≠ 42 := by
      simp only [coreChar, Bool.or_eq_true, beq_iff_eq] at hc
      rcases hc with hc | hc
      · have := plain_ne hc
        exact ⟨this.1, this.2.2.1, this.2.2.2.1, this.2.1⟩
      · subst hc; decide
    unfold GitSpec.wm
    simp only [beq_iff_eq, hne.1, hne.2.1, hne.2.2.1, hne.2.2.2, ↓reduceIte, Bool.false_eq_true]
    have ih' : ∀ po t, GitSpec.wm false pn po cs t = (t == cs) :=
      fun po t => ih po (fun x hx => hcs x (by simp [hx])) t
    cases t with
    | nil => simp
    | cons b t =>
      simp only [ih']
      by_cases hbc : b = c
      · subst hbc; simp
      · simp [hbc]

/-! ### the core `name(/name)*` -/

structure CoreFacts (core : List Nat) (multi : Bool) : Prop where
  all : ∀ c ∈ core, coreChar c = true
  head : ∃ c0 tl, core = c0 :: tl ∧ plain c0 = true
  last : ∃ cl, core.getLast? = some cl ∧ plain cl = true
  slash : core.contains 47 = multi

theorem plain_comp_facts {c : List Nat} (hne : c ≠ []) (hp : ∀ x ∈ c, plain x = true) :
    CoreFacts c false := by
  refine ⟨fun x hx => by simp [coreChar, hp x hx], ?_, ?_, ?_⟩
  · cases c with
    | nil => exact absurd rfl hne
    | cons c0 tl => exact ⟨c0, tl, rfl, hp c0 (by simp)⟩
  · refine ⟨c.getLast hne, List.getLast?_eq_some_getLast hne, hp _ (List.getLast_mem hne)⟩
  · have : 47 ∉ c := fun h => (plain_ne (hp 47 h)).2.2.2.2.2.2.2.1 rfl
    simpa using this

theorem core_facts {comps : List (List Nat)} (h : okComps comps = true) :
    CoreFacts (joinPath comps) (decide (2 ≤ comps.length)) := by
  induction comps with
  | nil => simp [okComps] at h
  | cons c cs ih =>
    simp only [okComps, List.isEmpty_cons, Bool.not_false, List.all_cons, Bool.and_eq_true,
      Bool.not_eq_eq_eq_not, Bool.not_true, List.isEmpty_eq_false_iff, ne_eq, List.all_eq_true,
      Bool.true_and] at h
    obtain ⟨⟨hcne, hcp⟩, hrest⟩ := h
    have hc := plain_comp_facts hcne hcp
    cases cs with
    | nil => simpa [joinPath] using hc
    | cons c2 cs2 =>
      have hok : okComps (c2 :: cs2) = true := by
        simp only [okComps, List.isEmpty_cons, Bool.not_false, Bool.true_and, List.all_eq_true,
          Bool.and_eq_true, Bool.not_eq_eq_eq_not, Bool.not_true, List.isEmpty_eq_false_iff, ne_eq]
        intro x hx; exact hrest x hx
      have hr := ih hok
      refine ⟨?_, ?_, ?_, ?_⟩
      · intro x hx
        simp only [joinPath, List.append_assoc, List.singleton_append, List.mem_append,
          List.mem_cons] at hx
        rcases hx with hx | hx | hx
        · exact hc.all x hx
        · subst hx; simp [coreChar]
        · exact hr.all x hx
      · obtain ⟨c0, tl, hct, hp0⟩ := hc.head
        exact ⟨c0, tl ++ [47] ++ joinPath (c2 :: cs2), by simp [joinPath, hct], hp0⟩
      · obtain ⟨cl, hcl, hpl⟩ := hr.last
        refine ⟨cl, ?_, hpl⟩
        obtain ⟨r0, rtl, hrt, _⟩ := hr.head
        simp only [joinPath, List.append_assoc, List.singleton_append]
        rw [List.getLast?_append, hrt, List.getLast?_cons_cons, ← hrt, hcl]
        simp
      · simp [joinPath]

theorem trimRight_of_last {l : List Nat} {c : Nat} (h : l.getLast? = some c) (hc : isWs c = false) :
    trimRight l = l := by
  have hne : l ≠ [] := by intro hn; simp [hn] at h
  have hl := List.dropLast_concat_getLast hne
  rw [List.getLast?_eq_some_getLast hne] at h
  simp only [Option.some.injEq] at h
  unfold trimRight
  rw [← hl, List.reverse_append]
  simp [h, hc]

theorem endsWith_bs_sp_false {l : List Nat} {c : Nat} (h : l.getLast? = some c) (hc : c ≠ 32) :
    endsWith l [92, 32] = false := by
  have hne : l ≠ [] := by intro hn; simp [hn] at h
  have hl := List.dropLast_concat_getLast hne
  rw [List.getLast?_eq_some_getLast hne] at h
  simp only [Option.some.injEq] at h
  unfold endsWith
  apply Bool.eq_false_iff.mpr
  intro hs
  rw [List.isSuffixOf_iff_suffix] at hs
  obtain ⟨t, ht⟩ := hs
  have := congrArg List.getLast? ht
  rw [← hl] at this
  simp [h] at this
  exact hc this.symm

end RgVerif.Gitignore
