import RgVerif.Lemmas.ReadByLineStep
namespace RgVerif.Searcher
open RgVerif RgVerif.Matcher RgVerif.Lines RgVerif.GrepSpec RgVerif.LineBuffer

/-- Invariant of the `ReadByLine::run` loop (at the top of the loop) when no context is configured:
`Ls` are the lines searched so far. -/
structure RInv (cfg : Config) (m : MatcherI) (lbcfg : LineBuffer.Config) (inp : Bytes) (s : RBL) (Ls : List Bytes) : Prop where
  lbinv : ∃ a mm rest, LineBuffer.Inv lbcfg inp s.lb s.rdr a mm rest
  nz : NoZero s.rdr.script
  ev : s.core.events = Event.begin :: lineEvs cfg m 0 (ln0 cfg) Ls
  flat : Ls.flatten = inp.take (s.lb.abs + s.lb.buffer.length)
  dle : s.lb.abs + s.lb.buffer.length ≤ inp.length
  good : GoodLines cfg.lineTerm.asByte Ls
  align : AllTerm cfg.lineTerm.asByte Ls ∨ s.lb.abs + s.lb.buffer.length = inp.length
  cabs : s.core.absoluteByteOffset = s.lb.abs
  acl : s.core.afterContextLeft = 0
  cbin : s.core.binaryByteOffset = none
  lbbin : s.lb.binOff = none
  llc : s.core.lastLineCounted ≤ s.lb.buffer.length
  ln : lnAt cfg s.lb.buffer s.core s.lb.buffer.length
        = (ln0 cfg).map (· + count (inp.take (s.lb.abs + s.lb.buffer.length)) cfg.lineTerm.asByte)

theorem roll_noCtx' {cfg : Config} (h : NoCtx cfg) (buf : Bytes) (st : Core) :
    ∃ c1, roll cfg buf st = (c1, buf.length) ∧ c1.events = st.events ∧
      c1.absoluteByteOffset = st.absoluteByteOffset + buf.length ∧
      c1.afterContextLeft = st.afterContextLeft ∧ c1.binaryByteOffset = st.binaryByteOffset ∧
      c1.lastLineCounted = 0 ∧ c1.pos = 0 ∧ c1.lineNumber = lnAt cfg buf st buf.length := by
  have hco := countLines_other cfg buf st buf.length
  have hcl := countLines_ln cfg buf st buf.length
  refine ⟨_, roll_noCtx h buf st, hco.1, ?_, hco.2.2.1, hco.2.2.2.1, rfl, rfl, hcl⟩
  show (countLines cfg buf st buf.length).absoluteByteOffset + buf.length = _
  rw [hco.2.1]

/-- `ReadByLine::fill` under the invariant: the core is re-based on the next window. -/
theorem rblFill_noCtx {cfg : Config} {m : MatcherI} {lbcfg : LineBuffer.Config} {inp : Bytes} (h : NoCtx cfg)
    (hlt : lbcfg.lineterm = cfg.lineTerm.asByte) (hb : lbcfg.binary = .none) (hal : lbcfg.alloc = .eager)
    {s : RBL} {Ls : List Bytes} (hR : RInv cfg m lbcfg inp s Ls) :
    ∃ s1, rblFill cfg allCont s = (s1, .ok (!s1.lb.buffer.isEmpty)) ∧
      (∃ a mm rest, LineBuffer.Inv lbcfg inp s1.lb s1.rdr a mm rest) ∧ NoZero s1.rdr.script ∧
      s1.lb.abs = s.lb.abs + s.lb.buffer.length ∧ s1.lb.binOff = none ∧
      s1.lb.buffer = window inp s1.lb.abs s1.lb.buffer.length ∧
      s1.lb.abs + s1.lb.buffer.length ≤ inp.length ∧
      (s1.lb.buffer.getLast? = some cfg.lineTerm.asByte ∨ s1.lb.abs + s1.lb.buffer.length = inp.length) ∧
      s1.core.events = s.core.events ∧ s1.core.absoluteByteOffset = s1.lb.abs ∧
      s1.core.afterContextLeft = 0 ∧ s1.core.binaryByteOffset = none ∧ s1.core.lastLineCounted = 0 ∧
      s1.core.pos = 0 ∧
      s1.core.lineNumber = (ln0 cfg).map (· + count (inp.take s1.lb.abs) cfg.lineTerm.asByte) := by
  obtain ⟨a, mm, rest, hI⟩ := hR.lbinv
  obtain ⟨lb1, hcons, more, a', m', rest', hres, hmore, hI2, habs, hbin, hnz, hwin, hle, hal2⟩ :=
    lb_step hI hb hal hR.nz
  obtain ⟨c1, hroll, r1, r2, r3, r4, r5, r6, r7⟩ := roll_noCtx' h s.lb.buffer s.core
  unfold rblFill
  simp only [hroll, hcons]
  -- name the result of `fill`
  cases hf : lb1.fill s.rdr with
  | mk lb2 p =>
    cases p with
    | mk rdr2 res =>
      simp only [hf] at hres hmore hI2 habs hbin hnz hwin hle hal2
      subst hres
      simp only [hR.lbbin, Option.isSome_none, Bool.not_false, if_true, hbin]
      have hfacts : (∃ a mm rest, LineBuffer.Inv lbcfg inp lb2 rdr2 a mm rest) ∧ NoZero rdr2.script ∧
          lb2.abs = s.lb.abs + s.lb.buffer.length ∧ lb2.binOff = none ∧
          lb2.buffer = window inp lb2.abs lb2.buffer.length ∧ lb2.abs + lb2.buffer.length ≤ inp.length ∧
          (lb2.buffer.getLast? = some cfg.lineTerm.asByte ∨ lb2.abs + lb2.buffer.length = inp.length) ∧
          c1.events = s.core.events ∧ c1.absoluteByteOffset = lb2.abs ∧ c1.afterContextLeft = 0 ∧
          c1.binaryByteOffset = none ∧ c1.lastLineCounted = 0 ∧ c1.pos = 0 ∧
          c1.lineNumber = (ln0 cfg).map (· + count (inp.take lb2.abs) cfg.lineTerm.asByte) :=
        ⟨⟨a', m', rest', hI2⟩, hnz, habs, hbin, hwin, hle, by rw [← hlt]; exact hal2, r1,
          by rw [r2, hR.cabs, habs], r3.trans hR.acl, r4.trans hR.cbin, r5, r6, by rw [r7, hR.ln, habs]⟩
      by_cases hm : more = true
      · -- data was read: go on
        have hne : lb2.buffer.isEmpty = false := by simpa [hm] using hmore.symm
        have hsq : shouldBinaryQuit cfg lb2 = false := by simp [shouldBinaryQuit, hbin]
        have hcond : (s.lb.buffer.length == 0 && s.lb.buffer.length == lb2.buffer.length) = false := by
          cases hb0 : lb2.buffer with
          | nil => simp [hb0] at hne
          | cons x xs =>
            cases hb1 : s.lb.buffer with
            | nil => simp
            | cons y ys => simp
        simp only [hm, Bool.not_true, hsq, Bool.or_self, Bool.false_eq_true, if_false, hcond]
        exact ⟨⟨c1, lb2, rdr2⟩, by simp [hne], hfacts⟩
      · -- EOF
        have hm' : more = false := by simpa using hm
        simp only [hm', Bool.not_false, Bool.true_or, if_true]
        have he : lb2.buffer.isEmpty = true := by simpa [hm'] using hmore.symm
        exact ⟨⟨c1, lb2, rdr2⟩, by simp [he], hfacts⟩

theorem count_append' (a b : Bytes) (t : Nat) : count (a ++ b) t = count a t + count b t := by
  simp [count]

/-- **The loop of `ReadByLine::run` without context, for every chunking and capacity**: it ends by
the EOF exit with all lines of the input searched. -/
theorem rblLoop_noCtx {cfg : Config} {m : MatcherI} {lbcfg : LineBuffer.Config} {inp : Bytes} (h : NoCtx cfg)
    (hslow : isLineByLineFast cfg m (Core.new cfg false) = false)
    (hlt : lbcfg.lineterm = cfg.lineTerm.asByte) (hb : lbcfg.binary = .none) (hal : lbcfg.alloc = .eager) :
    ∀ (fuel : Nat) (s : RBL) (Ls : List Bytes), RInv cfg m lbcfg inp s Ls →
      inp.length - (s.lb.abs + s.lb.buffer.length) + 2 ≤ fuel →
      ∃ s' Ls', rblLoop cfg m allCont fuel s = (s', .ok none) ∧
        s'.core.events = Event.begin :: lineEvs cfg m 0 (ln0 cfg) Ls' ∧
        GoodLines cfg.lineTerm.asByte Ls' ∧ Ls'.flatten = inp ∧ s'.lb.abs = inp.length ∧ s'.lb.binOff = none := by
  intro fuel
  induction fuel with
  | zero => intro s Ls _ hf; omega
  | succ fuel ih =>
    intro s Ls hR hf
    obtain ⟨s1, hfill, hlb, hnz, habs, hbin, hwin, hle, hal2, e1, e2, e3, e4, e5, e6, e7⟩ :=
      rblFill_noCtx h hlt hb hal hR
    rw [rblLoop, hfill]
    cases hemp : s1.lb.buffer.isEmpty with
    | true =>
      -- EOF: nothing more to search
      simp only [Bool.not_true]
      have hnil : s1.lb.buffer = [] := by simpa using hemp
      have hD : s1.lb.abs = inp.length := by
        cases hal2 with
        | inl hl => rw [hnil] at hl; simp at hl
        | inr hl => rw [hnil] at hl; simpa using hl
      refine ⟨s1, Ls, rfl, by rw [e1, hR.ev], hR.good, ?_, hD, hbin⟩
      rw [hR.flat, ← habs, hD]
      simp
    | false =>
      simp only [Bool.not_false]
      have hne : s1.lb.buffer ≠ [] := by
        intro hc; rw [hc] at hemp; simp at hemp
      -- the slow path on the new window
      have hfast : isLineByLineFast cfg m s1.core = false := by
        rw [isLineByLineFast_noson cfg m h.hson s1.core (Core.new cfg false)]; exact hslow
      obtain ⟨c2, hrun, hA⟩ := matchByLineSlow_buffer m h s1.lb.buffer s1.core
        (splitLines cfg.lineTerm.asByte s1.lb.buffer) (splitLines_good _ _) (splitLines_flatten _ _) e6 e5 e3 e4
      simp only [matchByLine, hfast, hrun, Bool.false_eq_true, if_false]
      -- the invariant for the next round
      have hfl := splitLines_flatten cfg.lineTerm.asByte s1.lb.buffer
      have hD : s.lb.abs + s.lb.buffer.length = s1.lb.abs := habs.symm
      have hlen0 : (inp.take s1.lb.abs).length = s1.lb.abs := by
        rw [List.length_take]; omega
      have hAllOld : AllTerm cfg.lineTerm.asByte Ls := by
        cases hR.align with
        | inl ha => exact ha
        | inr he =>
          exfalso
          rw [hD] at he
          have : s1.lb.buffer.length = 0 := by omega
          exact hne (List.length_eq_zero_iff.mp this)
      have hR2 : RInv cfg m lbcfg inp { s1 with core := c2 } (Ls ++ splitLines cfg.lineTerm.asByte s1.lb.buffer) := by
        refine ⟨hlb, hnz, ?_, ?_, hle, goodLines_append_allTerm hAllOld (splitLines_good _ _), ?_, ?_, hA.acl, hA.bin, hbin, ?_, ?_⟩
        · show c2.events = _
          rw [hA.ev, e1, hR.ev, lineEvs_append, hR.flat, hD, hlen0, e2, lnAt_zero cfg _ _ e5, e7]
          simp
        · show (Ls ++ _).flatten = _
          rw [List.flatten_append, hR.flat, hD, hfl, take_add_window, ← hwin]
        · show _ ∨ s1.lb.abs + s1.lb.buffer.length = inp.length
          cases hal2 with
          | inr he => exact Or.inr he
          | inl hl =>
            left
            intro x hx
            simp only [List.mem_append] at hx
            cases hx with
            | inl hx => exact hAllOld x hx
            | inr hx =>
              exact goodLines_allTerm_of_last (splitLines_good _ _) (by rw [hfl]; exact hl) x hx
        · show c2.absoluteByteOffset = s1.lb.abs
          rw [hA.abs, e2]
        · show c2.lastLineCounted ≤ s1.lb.buffer.length
          have := hA.llc
          rw [hfl] at this
          simpa using this
        · show lnAt cfg s1.lb.buffer c2 s1.lb.buffer.length = _
          have := hA.ln
          rw [hfl, Nat.zero_add, lnAt_zero cfg _ _ e5, e7] at this
          rw [this, take_add_window, ← hwin, count_append']
          cases ln0 cfg <;> simp [Nat.add_assoc]
      have hpos : 0 < s1.lb.buffer.length := List.length_pos_iff.mpr hne
      obtain ⟨s', Ls', hl, hev, hg, hflat, hend, hbo⟩ := ih { s1 with core := c2 } _ hR2
        (by show inp.length - (s1.lb.abs + s1.lb.buffer.length) + 2 ≤ fuel; omega)
      exact ⟨s', Ls', hl, hev, hg, hflat, hend, hbo⟩

end RgVerif.Searcher
