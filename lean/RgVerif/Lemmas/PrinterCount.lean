import RgVerif.Lemmas.PrinterJsonRun
import RgVerif.Lemmas.PrinterStd
/-
Helper lemmas for C10: the Summary, Standard and JSON sinks all refine one counting fold over the event
stream (`countFold`): they count the same `matched` callbacks, find the same individual matches in them with the
same `find_iter_at_in_context`, and stop at the same event when a limit is set.
-/
namespace RgVerif.Lemmas.PrinterCount
open RgVerif RgVerif.Matcher RgVerif.Replace RgVerif.Json RgVerif.Printer RgVerif.PrinterSpec RgVerif.Summary
open RgVerif.Lemmas.PrinterIter RgVerif.Lemmas.PrinterJsonRun

/-- `-m N` reached -/
def limitReached (lim : Option Nat) (mc : Nat) : Bool :=
  match lim with
  | none => false
  | some n => mc ≥ n

/-- The reference count: matched callbacks and individual matches inside them, up to and including the
`N`-th matched callback. -/
def countFold (sc : SCfg) (find : Oracle) (lim : Option Nat) : Nat → Nat → List Event → Nat × Nat
  | mc, sub, [] => (mc, sub)
  | mc, sub, .matched buf rs re _ _ :: rest =>
    if limitReached lim (mc + 1) then (mc + 1, sub + (findIterInContext sc find buf rs re).length)
    else countFold sc find lim (mc + 1) (sub + (findIterInContext sc find buf rs re).length) rest
  | mc, sub, _ :: rest => countFold sc find lim mc sub rest

/-- while a search is running the limit has not been reached -/
def Below (lim : Option Nat) (mc : Nat) : Prop := limitReached lim mc = false

theorem below_of_not_reached {lim : Option Nat} {mc : Nat} (h : limitReached lim (mc + 1) = false) :
    Below lim (mc + 1) := h

theorem shouldQuit_zero (lim : Option Nat) (mc : Nat) : shouldQuit lim mc 0 = limitReached lim mc := by
  unfold shouldQuit limitReached
  cases lim with
  | none => rfl
  | some l =>
    by_cases h : mc < l
    · have : ¬ mc ≥ l := by omega
      simp [h, this]
    · have : mc ≥ l := by omega
      simp [h, this]

theorem countFold_shift (sc : SCfg) (find : Oracle) (lim : Option Nat) :
    ∀ (evs : List Event) (mc sub : Nat),
      (countFold sc find lim mc sub evs).1 = (countFold sc find lim mc 0 evs).1 ∧
      (countFold sc find lim mc sub evs).2 = sub + (countFold sc find lim mc 0 evs).2 := by
  intro evs
  induction evs with
  | nil => intro mc sub; simp [countFold]
  | cons ev rest ih =>
    intro mc sub
    cases ev with
    | contextBreak => simpa [countFold] using ih mc sub
    | context k b off ln => simpa [countFold] using ih mc sub
    | matched buf rs re off ln =>
      simp only [countFold]
      by_cases hl : limitReached lim (mc + 1) = true
      · simp [hl]
      · simp only [hl, Bool.false_eq_true, ↓reduceIte, Nat.zero_add]
        have h1 := ih (mc + 1) (sub + (findIterInContext sc find buf rs re).length)
        have h2 := ih (mc + 1) ((findIterInContext sc find buf rs re).length)
        constructor
        · rw [h1.1, h2.1]
        · rw [h1.2, h2.2]; omega

/-- the reference count of a whole search under `-m N` (`-m 0` searches nothing) -/
def refCount (sc : SCfg) (find : Oracle) (lim : Option Nat) (evs : List Event) : Nat × Nat :=
  if lim == some 0 then (0, 0) else countFold sc find lim 0 0 evs

theorem below_zero {lim : Option Nat} (h : (lim == some 0) = false) : Below lim 0 := by
  unfold Below limitReached
  cases lim with
  | none => rfl
  | some n =>
    have : n ≠ 0 := by intro hn; subst hn; simp at h
    have : ¬ (0 ≥ n) := by omega
    simp [this]

/-! ### Summary sink -/

/-- `SummarySink::matched` outside effective multi-line counting: one more matched callback, the matches inside it
added to the stats, and "go on" unless the kind quits early (no stats) or the limit is reached. -/
theorem sumMatched_eq (sc : SCfg) (c : SumCfg) (find : Oracle) (st : SumState) (buf : Bytes) (rs re : Nat)
    (hml : (sc.multiLine && !sc.invert) = false) :
    sumMatched sc c find st buf rs re =
      ({ st with matchCount := st.matchCount + 1
               , stats := st.stats.map fun s =>
                   { s with matchCount := s.matchCount + (findIterInContext sc find buf rs re).length
                          , matchedLines := s.matchedLines + (splitLines sc.lt.asByte (slice buf rs re)).length } },
       if st.stats.isNone && c.kind.quitEarly then false else !limitReached c.maxMatches (st.matchCount + 1)) := by
  unfold sumMatched limitReached
  simp only [hml, Bool.false_eq_true, ↓reduceIte]
  cases hs : st.stats with
  | none =>
    cases hq : c.kind.quitEarly <;> cases hm : c.maxMatches <;> simp
  | some s =>
    cases hm : c.maxMatches <;> simp

theorem sumEvents_cons (sc : SCfg) (c : SumCfg) (find : Oracle) (st : SumState) (ev : Event) (rest : List Event) :
    sumEvents sc c find st (ev :: rest) =
      if (sumEvent sc c find st ev).2 then sumEvents sc c find (sumEvent sc c find st ev).1 rest
      else (sumEvent sc c find st ev).1 := by
  rw [sumEvents]

/-- The Summary sink refines the counting fold. -/
theorem sumEvents_count (sc : SCfg) (c : SumCfg) (find : Oracle)
    (hml : (sc.multiLine && !sc.invert) = false) :
    ∀ (evs : List Event) (st : SumState), (st.stats.isNone && c.kind.quitEarly) = false →
      Below c.maxMatches st.matchCount →
      (sumEvents sc c find st evs).matchCount = (countFold sc find c.maxMatches st.matchCount 0 evs).1 ∧
      ((sumEvents sc c find st evs).stats.map (·.matchCount)) =
        (st.stats.map fun s => s.matchCount + (countFold sc find c.maxMatches st.matchCount 0 evs).2) := by
  intro evs
  induction evs with
  | nil => intro st _ _; cases hs : st.stats <;> simp [sumEvents, countFold, hs]
  | cons ev rest ih =>
    intro st hq hb
    rw [sumEvents_cons]
    cases ev with
    | contextBreak => simpa [sumEvent, countFold] using ih st hq hb
    | context k b off ln => simpa [sumEvent, countFold] using ih st hq hb
    | matched buf rs re off ln =>
      simp only [sumEvent, sumMatched_eq sc c find st buf rs re hml, hq, Bool.false_eq_true, ↓reduceIte, countFold]
      by_cases hl : limitReached c.maxMatches (st.matchCount + 1) = true
      · simp only [hl, Bool.not_true, Bool.false_eq_true, ↓reduceIte]
        cases st.stats <;> simp
      · have hl' : limitReached c.maxMatches (st.matchCount + 1) = false := by simpa using hl
        simp only [hl', Bool.not_false, ↓reduceIte, Bool.false_eq_true]
        have hq' : ((st.stats.map fun s =>
              { s with matchCount := s.matchCount + (findIterInContext sc find buf rs re).length
                     , matchedLines := s.matchedLines + (splitLines sc.lt.asByte (slice buf rs re)).length }).isNone
              && c.kind.quitEarly) = false := by
          cases hs : st.stats with
          | none => simpa [hs] using hq
          | some s => simp
        have := ih { st with matchCount := st.matchCount + 1
                           , stats := st.stats.map fun s =>
                               { s with matchCount := s.matchCount + (findIterInContext sc find buf rs re).length
                                      , matchedLines := s.matchedLines +
                                          (splitLines sc.lt.asByte (slice buf rs re)).length } } hq' hl'
        obtain ⟨h1, h2⟩ := this
        have hsh := countFold_shift sc find c.maxMatches rest (st.matchCount + 1)
          ((findIterInContext sc find buf rs re).length)
        dsimp only at h1 h2 ⊢
        simp only [Nat.zero_add]
        constructor
        · rw [h1, hsh.1]
        · rw [h2, hsh.2]
          cases st.stats with
          | none => rfl
          | some s => simp; omega

/-! ### Standard sink -/

theorem recordMatchesStd_length (sc : SCfg) (c : StdCfg) (find : Oracle) (buf : Bytes) (rs re : Nat)
    (hg : c.granular = true) :
    (recordMatchesStd sc c find buf rs re).length = (findIterInContext sc find buf rs re).length := by
  simp [recordMatchesStd, hg, shiftSpans]

/-- The Standard sink (no after-context) refines the counting fold. -/
theorem stdEvents_count (sc : SCfg) (c : StdCfg) (find : Oracle) (ha : sc.afterContext = 0) (hg : c.granular = true) :
    ∀ (evs : List Event) (st : StdState), st.afterRem = 0 → Below c.maxMatches st.matchCount →
      (stdEvents sc c find st evs).matchCount = (countFold sc find c.maxMatches st.matchCount 0 evs).1 ∧
      ((stdEvents sc c find st evs).stats.map (·.matchCount)) =
        (st.stats.map fun s => s.matchCount + (countFold sc find c.maxMatches st.matchCount 0 evs).2) := by
  intro evs
  induction evs with
  | nil => intro st _ _; cases hs : st.stats <;> simp [stdEvents, countFold, hs]
  | cons ev rest ih =>
    intro st har hb
    rw [Lemmas.PrinterStd.stdEvents_cons]
    cases ev with
    | contextBreak =>
      simp only [stdEvent, stdContextBreak, ↓reduceIte, countFold]
      exact ih _ (by simpa [StdState.write] using har) (by simpa [StdState.write] using hb)
    | context k b off ln =>
      have hb' : limitReached c.maxMatches st.matchCount = false := hb
      have har' : (if k == CtxKind.after then st.afterRem - 1 else st.afterRem) = 0 := by
        split <;> omega
      simp only [stdEvent, stdContext, StdState.write, har', shouldQuit_zero, hb', Bool.not_false, ↓reduceIte,
        countFold]
      exact ih _ rfl hb
    | matched buf rs re off ln =>
      have har' : (if moreThanLimit c.maxMatches (st.matchCount + 1) = true then st.afterRem - 1
          else sc.afterContext) = 0 := by
        split <;> omega
      simp only [stdEvent, stdMatched, StdState.write, har', shouldQuit_zero, countFold,
        recordMatchesStd_length sc c find buf rs re hg]
      by_cases hl : limitReached c.maxMatches (st.matchCount + 1) = true
      · simp only [hl, Bool.not_true, Bool.false_eq_true, ↓reduceIte]
        cases st.stats <;> simp
      · have hl' : limitReached c.maxMatches (st.matchCount + 1) = false := by simpa using hl
        simp only [hl', Bool.not_false, ↓reduceIte, Bool.false_eq_true]
        have := ih { st with matchCount := st.matchCount + 1, afterRem := 0
                           , stats := st.stats.map fun s =>
                               { s with matchCount := s.matchCount + (findIterInContext sc find buf rs re).length
                                      , matchedLines := s.matchedLines +
                                          (splitLines sc.lt.asByte (slice buf rs re)).length }
                           , out := st.out ++ sink sc c
                               { bytes := slice buf rs re, absOff := off, lineNo := ln, ctx := none
                               , ms := recordMatchesStd sc c find buf rs re } st.count st.total
                           , count := st.count + (sink sc c
                               { bytes := slice buf rs re, absOff := off, lineNo := ln, ctx := none
                               , ms := recordMatchesStd sc c find buf rs re } st.count st.total).length } rfl hl'
        obtain ⟨h1, h2⟩ := this
        have hsh := countFold_shift sc find c.maxMatches rest (st.matchCount + 1)
          ((findIterInContext sc find buf rs re).length)
        dsimp only at h1 h2 ⊢
        simp only [Nat.zero_add]
        constructor
        · rw [h1, hsh.1]
        · rw [h2, hsh.2]
          cases st.stats with
          | none => rfl
          | some s => simp; omega

/-- The match count of the Standard sink, whatever its configuration (no after-context). -/
theorem stdEvents_matchCount (sc : SCfg) (c : StdCfg) (find : Oracle) (ha : sc.afterContext = 0) :
    ∀ (evs : List Event) (st : StdState), st.afterRem = 0 → Below c.maxMatches st.matchCount →
      (stdEvents sc c find st evs).matchCount = (countFold sc find c.maxMatches st.matchCount 0 evs).1 := by
  intro evs
  induction evs with
  | nil => intro st _ _; simp [stdEvents, countFold]
  | cons ev rest ih =>
    intro st har hb
    rw [Lemmas.PrinterStd.stdEvents_cons]
    cases ev with
    | contextBreak =>
      simp only [stdEvent, stdContextBreak, ↓reduceIte, countFold]
      exact ih _ (by simpa [StdState.write] using har) (by simpa [StdState.write] using hb)
    | context k b off ln =>
      have hb' : limitReached c.maxMatches st.matchCount = false := hb
      have har' : (if k == CtxKind.after then st.afterRem - 1 else st.afterRem) = 0 := by
        split <;> omega
      simp only [stdEvent, stdContext, StdState.write, har', shouldQuit_zero, hb', Bool.not_false, ↓reduceIte,
        countFold]
      exact ih _ rfl hb
    | matched buf rs re off ln =>
      have har' : (if moreThanLimit c.maxMatches (st.matchCount + 1) = true then st.afterRem - 1
          else sc.afterContext) = 0 := by
        split <;> omega
      simp only [stdEvent, stdMatched, StdState.write, har', shouldQuit_zero, countFold]
      by_cases hl : limitReached c.maxMatches (st.matchCount + 1) = true
      · simp only [hl, Bool.not_true, Bool.false_eq_true, ↓reduceIte]
      · have hl' : limitReached c.maxMatches (st.matchCount + 1) = false := by simpa using hl
        simp only [hl', Bool.not_false, ↓reduceIte, Bool.false_eq_true]
        rw [ih _ (by rfl) (by simpa [Below] using hl')]
        exact (countFold_shift sc find c.maxMatches rest (st.matchCount + 1) _).1.symm

/-! ### JSON sink -/

/-- number of submatch objects in the `match` messages -/
def matchSubs (msgs : List Msg) : Nat :=
  (msgs.map fun m => match m with | .matched _ _ _ _ subs => subs.length | _ => 0).sum

theorem matchSubs_append (a b : List Msg) : matchSubs (a ++ b) = matchSubs a + matchSubs b := by
  simp [matchSubs, List.map_append, List.sum_append]

theorem matchSubs_writeBegin (jc : JsonCfg) (st : JsonState) : matchSubs (st.writeBegin jc).msgs = matchSubs st.msgs := by
  unfold JsonState.writeBegin
  split
  · rfl
  · simp [matchSubs]

/-- The JSON sink (no after-context, no abort) refines the counting fold; the submatch objects it prints in
`match` messages are counted by its own `stats.matches`. -/
theorem jsonEvents_count (sc : SCfg) (jc : JsonCfg) (find : Oracle) (ha : sc.afterContext = 0) :
    ∀ (evs : List Event) (st : JsonState), st.afterRem = 0 → st.panicked = false →
      Below jc.maxMatches st.matchCount → (jsonEvents sc jc find st evs).panicked = false →
      (jsonEvents sc jc find st evs).matchCount = (countFold sc find jc.maxMatches st.matchCount 0 evs).1 ∧
      (jsonEvents sc jc find st evs).stats.matchCount =
        st.stats.matchCount + (countFold sc find jc.maxMatches st.matchCount 0 evs).2 ∧
      matchSubs (jsonEvents sc jc find st evs).msgs =
        matchSubs st.msgs + (countFold sc find jc.maxMatches st.matchCount 0 evs).2 := by
  intro evs
  induction evs with
  | nil => intro st _ _ _ _; simp [jsonEvents, countFold]
  | cons ev rest ih =>
    intro st har h0 hb hp
    rw [jsonEvents_cons] at hp ⊢
    cases ev with
    | contextBreak =>
      simp only [jsonEvent, ↓reduceIte, countFold] at hp ⊢
      exact ih st har h0 hb hp
    | context k b off ln =>
      have hb' : limitReached jc.maxMatches st.matchCount = false := hb
      have hmc : (st.writeBegin jc).matchCount = st.matchCount := by
        unfold JsonState.writeBegin; split <;> rfl
      have harw : (st.writeBegin jc).afterRem = 0 := by
        unfold JsonState.writeBegin; split <;> simpa using har
      have har' : (if k == CtxKind.after then (st.writeBegin jc).afterRem - 1 else (st.writeBegin jc).afterRem) = 0 := by
        split <;> omega
      simp only [jsonEvent, jsonContext, har'] at hp ⊢
      split at hp
      · -- out-of-range slice: the search aborts, contradicting `hp`
        simp at hp
      · rename_i subs hsubs
        simp only [shouldQuit_zero, hmc, hb', Bool.not_false, ↓reduceIte, countFold] at hp ⊢
        have := ih _ (by rfl) (by simpa [writeBegin_panicked] using h0) (by simpa [hmc] using hb) hp
        obtain ⟨h1, h2, h3⟩ := this
        refine ⟨h1, ?_, ?_⟩
        · rw [h2]
          have : (st.writeBegin jc).stats = st.stats := by unfold JsonState.writeBegin; split <;> rfl
          simp [this]
        · rw [h3, matchSubs_append, matchSubs_writeBegin]
          simp [matchSubs]
    | matched buf rs re off ln =>
      have hmc : (st.writeBegin jc).matchCount = st.matchCount := by
        unfold JsonState.writeBegin; split <;> rfl
      have harw : (st.writeBegin jc).afterRem = 0 := by
        unfold JsonState.writeBegin; split <;> simpa using har
      have hst : (st.writeBegin jc).stats = st.stats := by unfold JsonState.writeBegin; split <;> rfl
      have har' : (if moreThanLimit jc.maxMatches ((st.writeBegin jc).matchCount + 1) = true
          then (st.writeBegin jc).afterRem - 1 else sc.afterContext) = 0 := by
        split <;> omega
      simp only [jsonEvent, jsonMatched, har'] at hp ⊢
      split at hp
      · simp at hp
      · rename_i subs hsubs
        obtain ⟨hsub, _⟩ := subMatches_some hsubs
        have hlen : subs.length = (findIterInContext sc find buf rs re).length := by
          rw [hsub]; simp [recordMatchesJson, shiftSpans]
        simp only [shouldQuit_zero, hmc, countFold] at hp ⊢
        by_cases hl : limitReached jc.maxMatches (st.matchCount + 1) = true
        · simp only [hl, Bool.not_true, Bool.false_eq_true, ↓reduceIte, hst, recordMatchesJson, shiftSpans,
            List.length_map, Nat.zero_add, matchSubs_append, matchSubs_writeBegin]
          refine ⟨trivial, trivial, ?_⟩
          simp [matchSubs, hlen]
        · have hl' : limitReached jc.maxMatches (st.matchCount + 1) = false := by simpa using hl
          simp only [hl', Bool.not_false, ↓reduceIte, Bool.false_eq_true] at hp ⊢
          have := ih _ (by rfl) (by simpa [writeBegin_panicked] using h0) (by simpa [Below, hmc] using hl') hp
          obtain ⟨h1, h2, h3⟩ := this
          have hsh := countFold_shift sc find jc.maxMatches rest (st.matchCount + 1)
            ((findIterInContext sc find buf rs re).length)
          dsimp only at h1 h2 h3 ⊢
          simp only [Nat.zero_add]
          refine ⟨by rw [h1, hsh.1], ?_, ?_⟩
          · rw [h2, hsh.2, hst]
            simp [recordMatchesJson, shiftSpans]
            omega
          · rw [h3, hsh.2, matchSubs_append, matchSubs_writeBegin]
            simp [matchSubs, hlen]
            omega

end RgVerif.Lemmas.PrinterCount
