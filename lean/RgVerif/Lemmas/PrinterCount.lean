import RgVerif.Lemmas.PrinterJsonRun
import RgVerif.Lemmas.PrinterStd
/-
Helper lemmas for C10: the Summary, Standard and JSON sinks all refine one counting fold over the event
stream (`countFold`): they count the same `matched` callbacks, find the same individual matches in them with the
same `find_iter_at_in_context`, and stop at the same event when a limit is set.
-/
namespace RgVerif.Lemmas.PrinterCount
open RgVerif RgVerif.Matcher RgVerif.Replace RgVerif.Json RgVerif.Printer RgVerif.PrinterSpec RgVerif.Summary
open RgVerif.Lemmas.PrinterIter RgVerif.Lemmas.PrinterJsonRun

/-- `-m N` reached -/
def limitReached (lim : Option Nat) (mc : Nat) : Bool :=
  match lim with
  | none => false
  | some n => mc ≥ n

/-- The reference count: matched callbacks and individual matches inside them, up to and including the
`N`-th matched callback. -/
def countFold (sc : SCfg) (find : Oracle) (lim : Option Nat) : Nat → Nat → List Event → Nat × Nat
  | mc, sub, [] => (mc, sub)
  | mc, sub, .matched buf rs re _ _ :: rest =>
    if limitReached lim (mc + 1) then (mc + 1, sub + (findIterInContext sc find buf rs re).length)
    else countFold sc find lim (mc + 1) (sub + (findIterInContext sc find buf rs re).length) rest
  | mc, sub, _ :: rest => countFold sc find lim mc sub rest

/-- while a search is running the limit has not been reached -/
def Below (lim : Option Nat) (mc : Nat) : Prop := limitReached lim mc = false

theorem below_of_not_reached {lim : Option Nat} {mc : Nat} (h : limitReached lim (mc + 1) = false) :
    Below lim (mc + 1) := h

theorem shouldQuit_zero (lim : Option Nat) (mc : Nat) : shouldQuit lim mc 0 = limitReached lim mc := by
  unfold shouldQuit limitReached
  cases lim with
  | none => rfl
  | some l =>
    by_cases h : mc < l
    · have : ¬ mc ≥ l := by omega
      simp [h, this]
    · have : mc ≥ l := by omega
      simp [h, this]

/-! ### Summary sink -/

/-- what the counting part of the Summary state looks like relative to the fold -/
theorem sumEvents_count (sc : SCfg) (c : SumCfg) (find : Oracle)
    (hml : (sc.multiLine && !sc.invert) = false) (hq : c.hasStats = true ∨ c.kind.quitEarly = false) :
    ∀ (evs : List Event) (st : SumState), (c.hasStats = true ↔ st.stats.isSome) → Below c.maxMatches st.matchCount →
      (sumEvents sc c find st evs).matchCount =
        (countFold sc find c.maxMatches st.matchCount ((st.stats.getD {}).matchCount) evs).1 ∧
      (st.stats.isSome → ((sumEvents sc c find st evs).stats.getD {}).matchCount =
        (countFold sc find c.maxMatches st.matchCount ((st.stats.getD {}).matchCount) evs).2) := by
  intro evs
  induction evs with
  | nil => intro st _ _; simp [sumEvents, countFold]
  | cons ev rest ih =>
    intro st hst hb
    cases ev with
    | contextBreak =>
      simp only [sumEvents, sumEvent, ↓reduceIte, countFold]
      exact ih st hst hb
    | context k b off ln =>
      simp only [sumEvents, sumEvent, ↓reduceIte, countFold]
      exact ih st hst hb
    | matched buf rs re off ln =>
      simp only [sumEvents, sumEvent, sumMatched, hml, Bool.false_eq_true, ↓reduceIte, countFold]
      cases hs : st.stats with
      | none =>
        have hns : c.hasStats = false := by
          cases hh : c.hasStats with
          | false => rfl
          | true => have := hst.mp hh; simp [hs] at this
        have hqe : c.kind.quitEarly = false := by
          rcases hq with h | h
          · simp [hns] at h
          · exact h
        simp only [Option.isNone_none, Bool.not_false, Bool.and_self, ↓reduceIte, hqe, Bool.false_eq_true,
          Option.getD_none]
        by_cases hl : limitReached c.maxMatches (st.matchCount + 1) = true
        · have : (match c.maxMatches with | none => false | some l => decide (st.matchCount + 1 ≥ l)) = true := by
            simpa [limitReached] using hl
          simp [this, hl]
        · have hl' : limitReached c.maxMatches (st.matchCount + 1) = false := by simpa using hl
          have : (match c.maxMatches with | none => false | some l => decide (st.matchCount + 1 ≥ l)) = false := by
            simpa [limitReached] using hl'
          simp only [this, Bool.not_false, ↓reduceIte, hl', Bool.false_eq_true]
          have := ih { st with matchCount := st.matchCount + 1 } (by simpa [hs] using hst) hl'
          simpa [hs] using this
      | some s =>
        simp only [Option.isNone_some, Bool.false_and, Bool.false_eq_true, ↓reduceIte, Option.getD_some]
        by_cases hl : limitReached c.maxMatches (st.matchCount + 1) = true
        · have : (match c.maxMatches with | none => false | some l => decide (st.matchCount + 1 ≥ l)) = true := by
            simpa [limitReached] using hl
          simp [this, hl]
        · have hl' : limitReached c.maxMatches (st.matchCount + 1) = false := by simpa using hl
          have : (match c.maxMatches with | none => false | some l => decide (st.matchCount + 1 ≥ l)) = false := by
            simpa [limitReached] using hl'
          simp only [this, Bool.not_false, ↓reduceIte, hl', Bool.false_eq_true]
          have := ih { st with matchCount := st.matchCount + 1
                             , stats := some { s with matchCount := s.matchCount + (findIterInContext sc find buf rs re).length
                                                    , matchedLines := s.matchedLines +
                                                        (splitLines sc.lt.asByte (slice buf rs re)).length } }
            (by simpa [hs] using hst) hl'
          simpa using this

end RgVerif.Lemmas.PrinterCount
