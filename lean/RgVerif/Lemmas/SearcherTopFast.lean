import RgVerif.Lemmas.SearcherFast
import RgVerif.Lemmas.SearcherTop
/-
`SliceByLine::run` on the fast path equals the grep model (given the `find_by_line_fast` contract).
-/
namespace RgVerif.Searcher
open RgVerif RgVerif.Matcher RgVerif.Lines RgVerif.GrepSpec

/-- the lines of an input with the selection bits the code would compute for them -/
def linesOf (cfg : Config) (m : MatcherI) (inp : Bytes) : List SLine :=
  (splitLines cfg.lineTerm.asByte inp).map fun l => (l, lineSel cfg m l)

theorem linesOf_length (cfg : Config) (m : MatcherI) (inp : Bytes) :
    inp.length = offsetAt (linesOf cfg m inp) (linesOf cfg m inp).length := by
  have h1 : (lsOf (linesOf cfg m inp)).flatten = inp := by
    simp [linesOf, lsOf, List.map_map, Function.comp_def, splitLines_flatten]
  rw [← off_flat, ← lsOf_length, List.take_length, h1]

theorem fast_passthru_false {cfg : Config} {m : MatcherI} {st : Core} (h : isLineByLineFast cfg m st = true) :
    cfg.passthru = false := by
  unfold isLineByLineFast at h
  cases hp : cfg.passthru
  · rfl
  · simp [hp] at h

/-- **Fast path = grep model** (no `stop_on_nonmatch`): with an all-continue sink and no binary detection,
when `is_line_by_line_fast` holds at the start and `find_by_line_fast` meets its contract on this input,
the sink sees exactly the grep model of the input. -/
theorem sliceByLine_fast (cfg : Config) (m : MatcherI) (inp : Bytes) (hbin : cfg.binary = .none)
    (hfast : isLineByLineFast cfg m (Core.new cfg true) = true) (hstop : cfg.stopOnNonmatch = false)
    (hfind : FindSpec cfg m inp (linesOf cfg m inp)) :
    (sliceByLine cfg m allCont inp).events = grepSpec cfg (lineSel cfg m) inp ∧
      (sliceByLine cfg m allCont inp).result = .ok () := by
  have hpt := fast_passthru_false hfast
  have L : Layout cfg.lineTerm.asByte inp (linesOf cfg m inp) := layout_splitLines _ inp (lineSel cfg m)
  have hlen := linesOf_length cfg m inp
  have hspec : grepSpec cfg (lineSel cfg m) inp = Event.begin ::
      (List.range (linesOf cfg m inp).length).flatMap (lineEvents cfg (linesOf cfg m inp)) ++
      [Event.finish inp.length none] := by
    unfold grepSpec
    rw [grepSpecLines_eq]
    simp only [effective, hstop, Bool.false_eq_true, if_false]
    rw [hlen]; rfl
  unfold sliceByLine
  dsimp only
  rw [begin_allCont]
  simp only [if_true]
  rw [detectBinary_none hbin rfl]
  by_cases hne : inp = []
  · subst hne
    simp [sliceLoop, st0, Core.new, finish, emit_allCont, byteCount, ite_self, Run.events, grepSpec, splitLines,
      grepSpecLines, effective, stopTrunc, offsetAt]
  · have hF : FastInv cfg (linesOf cfg m inp) 0 0 (st0 cfg) :=
      ⟨(slowInv_init cfg _ true).inv, Nat.le_refl _, fun j h1 h2 => by omega, aclOK_init _ _, by simp [st0, Core.new, off_zero]⟩
    obtain ⟨st', e1, hpos, hbo, hev⟩ := matchByLineFast_spec (m := m) L rfl hbin hpt hlen hstop hfind hF
    have hfast0 : isLineByLineFast cfg m (st0 cfg) = true := by
      rw [isLineByLineFast_congr cfg m (st := st0 cfg) (st' := Core.new cfg true) rfl]; exact hfast
    have hloop : sliceLoop cfg m allCont inp (inp.length + 1) (st0 cfg) = (st', .ok ()) := by
      have hd : (List.drop (st0 cfg).pos inp).isEmpty = false := by
        cases inp with
        | nil => exact absurd rfl hne
        | cons a r => rfl
      rw [sliceLoop, hd]
      simp only [Bool.false_eq_true, if_false, matchByLine, hfast0, if_true, e1]
      cases hl : inp.length with
      | zero => exact absurd (List.length_eq_zero_iff.mp hl) hne
      | succ k =>
        simp only [sliceLoop, hpos, hl]
        rw [← hl]; simp
    dsimp only
    rw [hloop]
    simp only [finish, emit_allCont, byteCount, ite_self, hbo, Run.events, hpos, hev, hspec]
    exact ⟨by simp, trivial⟩

end RgVerif.Searcher
