import RgVerif.Lemmas.HirConfig
/-
Regex-level facts used by C01 (`config.rs`, `ast.rs`): what the word / whole-line wrappers and the
fixed-strings route mean, and that the early exits of the smart-case analysis do not change its answer.
-/
namespace RgVerif.Rx
open RgVerif

/-! ### wrappers -/

theorem matches_look3_iff {lk : LookFn} {k1 k2 : Look} {h : Hir} {hay : Bytes} {s e : Nat} :
    Matches lk (.concat (.cons (.look k1) (.cons h (.cons (.look k2) .nil)))) hay s e ↔
      (lk k1 hay s = true ∧ Matches lk h hay s e ∧ lk k2 hay e = true) := by
  constructor
  · intro hm
    cases hm with
    | concat hm =>
      cases hm with
      | cons h1 h2 =>
        cases h1 with
        | look _ hk1 =>
          cases h2 with
          | cons h3 h4 =>
            cases h4 with
            | cons h5 h6 =>
              cases h5 with
              | look _ hk2 =>
                cases h6 with
                | nil _ => exact ⟨hk1, h3, hk2⟩
  · rintro ⟨hk1, hm, hk2⟩
    have hsp := Matches.span hm
    exact .concat (.cons (.look (by omega) hk1) (.cons hm (.cons (.look hsp.2 hk2) (.nil hsp.2))))

/-- `-w`: the pattern must match and be flanked by the half word boundaries. -/
theorem matches_intoWord {lk : LookFn} (cfg : Config) {h : Hir} {hay : Bytes} {s e : Nat} :
    Matches lk (cfg.intoWord h) hay s e ↔
      (lk (if cfg.unicode then .WordStartHalfUnicode else .WordStartHalfAscii) hay s = true ∧
       Matches lk h hay s e ∧
       lk (if cfg.unicode then .WordEndHalfUnicode else .WordEndHalfAscii) hay e = true) :=
  matches_look3_iff

/-- `-x`: the pattern must match from a line start to a line end. -/
theorem matches_intoWholeLine {lk : LookFn} (cfg : Config) {h : Hir} {hay : Bytes} {s e : Nat} :
    Matches lk (cfg.intoWholeLine h) hay s e ↔
      (lk (if cfg.crlf then .StartCRLF else .StartLF) hay s = true ∧
       Matches lk h hay s e ∧
       lk (if cfg.crlf then .EndCRLF else .EndLF) hay e = true) :=
  matches_look3_iff

/-! ### fixed strings / several patterns -/

theorem matchesAny_altLits_iff {lk : LookFn} : ∀ (pats : List Bytes) {hay : Bytes} {s e : Nat},
    MatchesAny lk (HirList.ofList (pats.map fun p => if p.isEmpty then Hir.empty else Hir.lit p)) hay s e ↔
    (s ≤ e ∧ e ≤ hay.length ∧ ∃ p ∈ pats, slice hay s e = p)
  | [], _, _, _ => by
      constructor
      · intro hm; cases hm
      · rintro ⟨_, _, p, hp, _⟩; cases hp
  | p :: rest, hay, s, e => by
      have ih := matchesAny_altLits_iff (lk := lk) rest (hay := hay) (s := s) (e := e)
      simp only [List.map_cons, HirList.ofList]
      constructor
      · intro hm
        have hsp := MatchesAny.span hm
        refine ⟨hsp.1, hsp.2, ?_⟩
        cases hm with
        | head h1 =>
          refine ⟨p, by simp, ?_⟩
          split at h1
          · rename_i hp
            cases h1
            rw [slice_self]
            exact (List.isEmpty_iff.1 hp).symm
          · cases h1 with
            | lit _ hsl => exact hsl
        | tail h1 =>
          obtain ⟨_, _, q, hq, h⟩ := ih.1 h1
          exact ⟨q, by simp [hq], h⟩
      · rintro ⟨h1, h2, q, hq, hsl⟩
        rcases List.mem_cons.1 hq with rfl | hq
        · apply MatchesAny.head
          have hlen : q.length = e - s := by rw [← hsl]; exact slice_length hay s e h2
          split
          · rename_i hp
            have : q = [] := List.isEmpty_iff.1 hp
            subst this
            have : e = s := by simp at hlen; omega
            subst this
            exact .empty h2
          · have he : e = s + q.length := by omega
            subst he
            exact .lit h2 hsl
        · exact .tail (ih.2 ⟨h1, h2, q, hq, hsl⟩)

/-- The fixed-strings route (`-F`, or patterns without meta characters): a span matches iff it is
one of the patterns. -/
theorem matches_fixedHir {lk : LookFn} (pats : List Bytes) {hay : Bytes} {s e : Nat} :
    Matches lk (fixedHir pats) hay s e ↔ (s ≤ e ∧ e ≤ hay.length ∧ ∃ p ∈ pats, slice hay s e = p) := by
  unfold fixedHir
  constructor
  · intro hm
    cases hm with
    | alt hm => exact (matchesAny_altLits_iff pats).1 hm
  · intro h
    exact .alt ((matchesAny_altLits_iff pats).2 h)

/-! ### smart case -/

section
variable (isUpper : Nat → Bool)

mutual
def anyLitAst : Ast → Bool
  | .other => false
  | .literal _ => true
  | .bracketed set => anyLitSet set
  | .repetition x => anyLitAst x
  | .group x => anyLitAst x
  | .alternation xs => anyLitAstL xs
  | .concat xs => anyLitAstL xs
def anyLitAstL : AstList → Bool
  | .nil => false
  | .cons x t => anyLitAst x || anyLitAstL t
def anyLitSet : ClassSet → Bool
  | .itemOther => false
  | .itemLiteral _ => true
  | .itemRange _ _ => true
  | .itemBracketed set => anyLitSet set
  | .itemUnion xs => anyLitSetL xs
  | .binaryOp l r => anyLitSet l || anyLitSet r
def anyLitSetL : ClassSetList → Bool
  | .nil => false
  | .cons x t => anyLitSet x || anyLitSetL t
end

mutual
def anyUpAst : Ast → Bool
  | .other => false
  | .literal c => isUpper c
  | .bracketed set => anyUpSet set
  | .repetition x => anyUpAst x
  | .group x => anyUpAst x
  | .alternation xs => anyUpAstL xs
  | .concat xs => anyUpAstL xs
def anyUpAstL : AstList → Bool
  | .nil => false
  | .cons x t => anyUpAst x || anyUpAstL t
def anyUpSet : ClassSet → Bool
  | .itemOther => false
  | .itemLiteral c => isUpper c
  | .itemRange lo hi => isUpper lo || isUpper hi
  | .itemBracketed set => anyUpSet set
  | .itemUnion xs => anyUpSetL xs
  | .binaryOp l r => anyUpSet l || anyUpSet r
def anyUpSetL : ClassSetList → Bool
  | .nil => false
  | .cons x t => anyUpSet x || anyUpSetL t
end

/-- what an analysis that has seen `lit`/`up` so far should hold afterwards -/
def AstAnalysis.plus (a : AstAnalysis) (lit up : Bool) : AstAnalysis :=
  { anyLiteral := a.anyLiteral || lit, anyUppercase := a.anyUppercase || up }

theorem AstAnalysis.done_plus {a : AstAnalysis} (h : a.done = true) (lit up : Bool) : a.plus lit up = a := by
  unfold AstAnalysis.done at h
  cases a
  simp_all [AstAnalysis.plus]

theorem AstAnalysis.plus_plus (a : AstAnalysis) (l1 u1 l2 u2 : Bool) :
    (a.plus l1 u1).plus l2 u2 = a.plus (l1 || l2) (u1 || u2) := by
  simp [AstAnalysis.plus, Bool.or_assoc]

theorem AstAnalysis.lit_eq (a : AstAnalysis) (c : Nat) : a.lit isUpper c = a.plus true (isUpper c) := by
  simp [AstAnalysis.lit, AstAnalysis.plus]

theorem AstAnalysis.plus_false (a : AstAnalysis) : a.plus false false = a := by
  cases a; simp [AstAnalysis.plus]

mutual
theorem analyseAst_spec : ∀ (x : Ast) (a : AstAnalysis),
    analyseAst isUpper x a = a.plus (anyLitAst x) (anyUpAst isUpper x)
  | .other, a => by simp [analyseAst, anyLitAst, anyUpAst, AstAnalysis.plus_false]
  | .literal c, a => by
      simp only [analyseAst, anyLitAst, anyUpAst]
      split
      · rename_i h; exact (AstAnalysis.done_plus h _ _).symm
      · exact AstAnalysis.lit_eq isUpper a c
  | .bracketed set, a => by
      simp only [analyseAst, anyLitAst, anyUpAst]
      split
      · rename_i h; exact (AstAnalysis.done_plus h _ _).symm
      · exact analyseSet_spec set a
  | .repetition x, a => by
      simp only [analyseAst, anyLitAst, anyUpAst]
      split
      · rename_i h; exact (AstAnalysis.done_plus h _ _).symm
      · exact analyseAst_spec x a
  | .group x, a => by
      simp only [analyseAst, anyLitAst, anyUpAst]
      split
      · rename_i h; exact (AstAnalysis.done_plus h _ _).symm
      · exact analyseAst_spec x a
  | .alternation xs, a => by
      simp only [analyseAst, anyLitAst, anyUpAst]
      split
      · rename_i h; exact (AstAnalysis.done_plus h _ _).symm
      · exact analyseAstList_spec xs a
  | .concat xs, a => by
      simp only [analyseAst, anyLitAst, anyUpAst]
      split
      · rename_i h; exact (AstAnalysis.done_plus h _ _).symm
      · exact analyseAstList_spec xs a
theorem analyseAstList_spec : ∀ (xs : AstList) (a : AstAnalysis),
    analyseAstList isUpper xs a = a.plus (anyLitAstL xs) (anyUpAstL isUpper xs)
  | .nil, a => by simp [analyseAstList, anyLitAstL, anyUpAstL, AstAnalysis.plus_false]
  | .cons x t, a => by
      simp only [analyseAstList, anyLitAstL, anyUpAstL]
      rw [analyseAst_spec x a, analyseAstList_spec t, AstAnalysis.plus_plus]
theorem analyseSet_spec : ∀ (x : ClassSet) (a : AstAnalysis),
    analyseSet isUpper x a = a.plus (anyLitSet x) (anyUpSet isUpper x)
  | .itemOther, a => by simp [analyseSet, anyLitSet, anyUpSet, AstAnalysis.plus_false]
  | .itemLiteral c, a => by
      simp only [analyseSet, anyLitSet, anyUpSet]
      split
      · rename_i h; exact (AstAnalysis.done_plus h _ _).symm
      · exact AstAnalysis.lit_eq isUpper a c
  | .itemRange lo hi, a => by
      simp only [analyseSet, anyLitSet, anyUpSet]
      split
      · rename_i h; exact (AstAnalysis.done_plus h _ _).symm
      · rw [AstAnalysis.lit_eq, AstAnalysis.lit_eq, AstAnalysis.plus_plus]; simp
  | .itemBracketed set, a => by
      simp only [analyseSet, anyLitSet, anyUpSet]
      split
      · rename_i h; exact (AstAnalysis.done_plus h _ _).symm
      · exact analyseSet_spec set a
  | .itemUnion xs, a => by
      simp only [analyseSet, anyLitSet, anyUpSet]
      split
      · rename_i h; exact (AstAnalysis.done_plus h _ _).symm
      · exact analyseSetList_spec xs a
  | .binaryOp l r, a => by
      simp only [analyseSet, anyLitSet, anyUpSet]
      split
      · rename_i h; exact (AstAnalysis.done_plus h _ _).symm
      · rw [analyseSet_spec l a, analyseSet_spec r, AstAnalysis.plus_plus]
theorem analyseSetList_spec : ∀ (xs : ClassSetList) (a : AstAnalysis),
    analyseSetList isUpper xs a = a.plus (anyLitSetL xs) (anyUpSetL isUpper xs)
  | .nil, a => by simp [analyseSetList, anyLitSetL, anyUpSetL, AstAnalysis.plus_false]
  | .cons x t, a => by
      simp only [analyseSetList, anyLitSetL, anyUpSetL]
      rw [analyseSet_spec x a, analyseSetList_spec t, AstAnalysis.plus_plus]
end

/-- The case decision of `ConfiguredHIR::new`: insensitive iff `-i`, or smart case with at least one
literal and no upper-case literal anywhere in the pattern (the `done()` early exits are harmless). -/
theorem isCaseInsensitive_spec (cfg : Config) (ast : Ast) :
    cfg.isCaseInsensitive (analyseAst isUpper ast {}) =
      (cfg.caseInsensitive || (cfg.caseSmart && anyLitAst ast && !anyUpAst isUpper ast)) := by
  rw [analyseAst_spec]
  unfold Config.isCaseInsensitive AstAnalysis.plus
  cases cfg.caseInsensitive <;> cases cfg.caseSmart <;> simp

end

end RgVerif.Rx
