import RgVerif.Model.RegexConfig
import RgVerif.Lemmas.HirContextCRLF
/-
Facts about `verify_on_line` (/repo 4165f41): without it every look of the expression is a line anchor of the
configured terminator; the two shapes of `find_candidate_line`.
-/
namespace RgVerif.Rx
open RgVerif

mutual
/-- no look of the tree satisfies `p`  ⇒  every look satisfies `!p` -/
theorem allLooks_of_not_anyLook (p : Look → Bool) : ∀ (h : Hir), anyLook p h = false → allLooks (fun k => !p k) h = true
  | .empty, _ => rfl
  | .lit _, _ => rfl
  | .classB _, _ => rfl
  | .classU _, _ => rfl
  | .look k, h => by simpa [anyLook, allLooks] using h
  | .rep _ _ _ sub, h => by simp only [anyLook] at h; simp only [allLooks]; exact allLooks_of_not_anyLook p sub h
  | .cap _ sub, h => by simp only [anyLook] at h; simp only [allLooks]; exact allLooks_of_not_anyLook p sub h
  | .concat xs, h => by simp only [anyLook] at h; simp only [allLooks]; exact allLooksL_of_not_anyLookL p xs h
  | .alt xs, h => by simp only [anyLook] at h; simp only [allLooks]; exact allLooksL_of_not_anyLookL p xs h
theorem allLooksL_of_not_anyLookL (p : Look → Bool) : ∀ (xs : HirList), anyLookL p xs = false → allLooksL (fun k => !p k) xs = true
  | .nil, _ => rfl
  | .cons h t, hx => by
      simp only [anyLookL, Bool.or_eq_false_iff] at hx
      simp only [allLooksL, Bool.and_eq_true]
      exact ⟨allLooks_of_not_anyLook p h hx.1, allLooksL_of_not_anyLookL p t hx.2⟩
end

mutual
theorem allLooks_mono {p q : Look → Bool} (hpq : ∀ k, p k = true → q k = true) : ∀ (h : Hir), allLooks p h = true → allLooks q h = true
  | .empty, _ => rfl
  | .lit _, _ => rfl
  | .classB _, _ => rfl
  | .classU _, _ => rfl
  | .look k, h => by simp only [allLooks] at h ⊢; exact hpq k h
  | .rep _ _ _ sub, h => by simp only [allLooks] at h ⊢; exact allLooks_mono hpq sub h
  | .cap _ sub, h => by simp only [allLooks] at h ⊢; exact allLooks_mono hpq sub h
  | .concat xs, h => by simp only [allLooks] at h ⊢; exact allLooksL_mono hpq xs h
  | .alt xs, h => by simp only [allLooks] at h ⊢; exact allLooksL_mono hpq xs h
theorem allLooksL_mono {p q : Look → Bool} (hpq : ∀ k, p k = true → q k = true) : ∀ (xs : HirList), allLooksL p xs = true → allLooksL q xs = true
  | .nil, _ => rfl
  | .cons h t, hx => by
      simp only [allLooksL, Bool.and_eq_true] at hx ⊢
      exact ⟨allLooks_mono hpq h hx.1, allLooksL_mono hpq t hx.2⟩
end

mutual
theorem allLooks_and_mono {p q r : Look → Bool} (hpq : ∀ k, p k = true → q k = true → r k = true) :
    ∀ (h : Hir), allLooks p h = true → allLooks q h = true → allLooks r h = true
  | .empty, _, _ => rfl
  | .lit _, _, _ => rfl
  | .classB _, _, _ => rfl
  | .classU _, _, _ => rfl
  | .look k, h1, h2 => by simp only [allLooks] at h1 h2 ⊢; exact hpq k h1 h2
  | .rep _ _ _ sub, h1, h2 => by simp only [allLooks] at h1 h2 ⊢; exact allLooks_and_mono hpq sub h1 h2
  | .cap _ sub, h1, h2 => by simp only [allLooks] at h1 h2 ⊢; exact allLooks_and_mono hpq sub h1 h2
  | .concat xs, h1, h2 => by simp only [allLooks] at h1 h2 ⊢; exact allLooksL_and_mono hpq xs h1 h2
  | .alt xs, h1, h2 => by simp only [allLooks] at h1 h2 ⊢; exact allLooksL_and_mono hpq xs h1 h2
theorem allLooksL_and_mono {p q r : Look → Bool} (hpq : ∀ k, p k = true → q k = true → r k = true) :
    ∀ (xs : HirList), allLooksL p xs = true → allLooksL q xs = true → allLooksL r xs = true
  | .nil, _, _ => rfl
  | .cons h t, h1, h2 => by
      simp only [allLooksL, Bool.and_eq_true] at h1 h2 ⊢
      exact ⟨allLooks_and_mono hpq h h1.1 h2.1, allLooksL_and_mono hpq t h1.2 h2.2⟩
end

/-- without `verify_on_line` every look of the expression is a line anchor of the configured terminator -/
theorem allLooks_own_of_not_verify (cfg : Config) (h : Hir) (hv : cfg.verifyOnLine h = false) :
    allLooks cfg.isOwnAnchor h = true := by
  unfold Config.verifyOnLine at hv
  have := allLooks_of_not_anyLook (fun k => !cfg.isOwnAnchor k) h hv
  exact allLooks_mono (by intro k hk; simpa using hk) h this

theorem findCandidateLine_of_not_verify (m : MatcherM) (shortest : Bytes → Option Nat) (hay : Bytes)
    (hv : m.verifyOnLine = false) :
    m.findCandidateLine shortest hay =
      (match m.fastLits with
       | some L => (fastFind L hay).map .candidate
       | none => (shortest hay).map .confirmed) := by
  unfold MatcherM.findCandidateLine
  rw [hv]; rfl

theorem findCandidateLine_verify (m : MatcherM) (shortest : Bytes → Option Nat) (hay : Bytes)
    (hv : m.verifyOnLine = true) (hf : m.fastLits = none) :
    m.findCandidateLine shortest hay = (shortest hay).map .candidate := by
  unfold MatcherM.findCandidateLine
  rw [hf, hv]; rfl

theorem build_verifyOnLine {cfg : Config} {pats : List Bytes} {translated : Hir} {acc : Bool}
    {optimize : Seq → Seq} {norm : Hir → Hir} {m : MatcherM}
    (hb : cfg.build pats translated acc optimize norm = .ok m) : m.verifyOnLine = cfg.verifyOnLine m.hir := by
  unfold Config.build at hb
  split at hb
  · cases hb
  · simp only [Except.ok.injEq] at hb
    subst hb
    rfl

end RgVerif.Rx
