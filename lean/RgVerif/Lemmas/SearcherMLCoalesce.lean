import RgVerif.Spec.MultiLine
/-
`coalesce` (adjacent matched lines become one block) and appending.
-/
namespace RgVerif.Searcher
open RgVerif RgVerif.Matcher RgVerif.Lines RgVerif.GrepSpec RgVerif.MLSpec

/-- one step of `coalesce` -/
def merge1 (ev : Event) (r : List Event) : List Event :=
  match ev, r with
  | .matched ln off bs, .matched ln' off' bs' :: rest' =>
    if off + bs.length == off' then .matched ln off (bs ++ bs') :: rest'
    else ev :: .matched ln' off' bs' :: rest'
  | _, r => ev :: r

theorem coalesce_cons (ev : Event) (rest : List Event) : coalesce (ev :: rest) = merge1 ev (coalesce rest) := by
  conv => lhs; rw [coalesce.eq_def]
  dsimp only
  generalize coalesce rest = r
  cases ev <;> rfl

/-- the events `x` then `y` are a matched line directly followed by a matched line -/
def Joins : Event → Event → Prop
  | .matched _ off bs, .matched _ off' _ => off + bs.length = off'
  | _, _ => False

theorem merge1_noJoin (ev : Event) (y : Event) (r : List Event) (h : ¬ Joins ev y) : merge1 ev (y :: r) = ev :: y :: r := by
  unfold merge1
  split
  · rename_i ln off bs ln' off' bs' rest' heq
    simp only [List.cons.injEq] at heq
    obtain ⟨rfl, rfl⟩ := heq
    have : ¬ (off + bs.length = off') := h
    simp [this]
  · rfl

theorem merge1_nil (ev : Event) : merge1 ev [] = [ev] := by
  unfold merge1; split
  · rename_i heq; simp at heq
  · rfl

theorem merge1_append (ev : Event) (y : Event) (r ys : List Event) :
    merge1 ev ((y :: r) ++ ys) = merge1 ev (y :: r) ++ ys := by
  unfold merge1
  split
  · rename_i ln off bs ln' off' bs' rest' heq
    simp only [List.cons_append, List.cons.injEq] at heq
    obtain ⟨rfl, rfl⟩ := heq
    split <;> simp_all
  · rename_i hno
    split
    · rename_i ln off bs ln' off' bs' rest' heq
      simp only [List.cons.injEq] at heq
      obtain ⟨rfl, rfl⟩ := heq
      exact absurd rfl (hno ln off bs ln' off' bs' (r ++ ys) rfl)
    · rfl

theorem coalesce_ne_nil : ∀ (x : Event) (X : List Event), ∃ h t, coalesce (x :: X) = h :: t := by
  intro x X
  rw [coalesce_cons]
  unfold merge1
  split
  · split <;> exact ⟨_, _, rfl⟩
  · exact ⟨_, _, rfl⟩

/-- the last event of a non-empty list -/
def lastEv : List Event → Option Event
  | [] => none
  | [x] => some x
  | _ :: y :: r => lastEv (y :: r)

/-- `coalesce` distributes over `++` when the last event of the left part does not join the first of the right -/
theorem coalesce_append : ∀ (X Y : List Event),
    (∀ x y t, lastEv X = some x → coalesce Y = y :: t → ¬ Joins x y) →
    coalesce (X ++ Y) = coalesce X ++ coalesce Y := by
  intro X
  induction X with
  | nil => intro Y _; simp [coalesce]
  | cons x X ih =>
    intro Y h
    rw [List.cons_append, coalesce_cons, coalesce_cons]
    cases X with
    | nil =>
      simp only [List.nil_append, coalesce, merge1_nil]
      cases hY : coalesce Y with
      | nil => simp [merge1_nil]
      | cons y t =>
        rw [merge1_noJoin x y t (h x y t rfl hY)]
        rfl
    | cons x' X' =>
      rw [ih Y (fun a b t ha hb => h a b t ha hb)]
      obtain ⟨h', t', e⟩ := coalesce_ne_nil x' X'
      rw [e]
      exact merge1_append x h' t' (coalesce Y)

def isMatchedEv : Event → Bool
  | .matched .. => true
  | _ => false

theorem coalesce_noMatched : ∀ (Y : List Event), (∀ e ∈ Y, isMatchedEv e = false) → coalesce Y = Y := by
  intro Y
  induction Y with
  | nil => intro _; rfl
  | cons y Y ih =>
    intro h
    rw [coalesce_cons, ih (fun e he => h e (List.mem_cons_of_mem _ he))]
    have hy := h y (List.mem_cons_self ..)
    unfold merge1
    split
    · simp [isMatchedEv] at hy
    · rfl

theorem not_joins_right (x y : Event) (h : isMatchedEv y = false) : ¬ Joins x y := by
  cases x <;> cases y <;> simp_all [Joins, isMatchedEv]

theorem not_joins_left (x y : Event) (h : isMatchedEv x = false) : ¬ Joins x y := by
  cases x <;> cases y <;> simp_all [Joins, isMatchedEv]

/-- appending events none of which is `matched` -/
theorem coalesce_append_ctx (X Y : List Event) (hY : ∀ e ∈ Y, isMatchedEv e = false) :
    coalesce (X ++ Y) = coalesce X ++ Y := by
  rw [coalesce_append X Y, coalesce_noMatched Y hY]
  intro x y t _ hy
  rw [coalesce_noMatched Y hY] at hy
  exact not_joins_right x y (hY y (by rw [hy]; exact List.mem_cons_self ..))

/-- the matched events of the lines of one block -/
def lineMatches (ln : Nat → Option Nat) (off : Nat → Nat) (bytes : Nat → Bytes) : Nat → Nat → List Event
  | _, 0 => []
  | a, d + 1 => .matched (ln a) (off a) (bytes a) :: lineMatches ln off bytes (a + 1) d

/-- the bytes of `d` lines from line `a` on -/
def blockBytes (bytes : Nat → Bytes) : Nat → Nat → Bytes
  | _, 0 => []
  | a, d + 1 => bytes a ++ blockBytes bytes (a + 1) d

/-- adjacent matched lines coalesce to one block -/
theorem coalesce_lineMatches (ln : Nat → Option Nat) (off : Nat → Nat) (bytes : Nat → Bytes)
    (hoff : ∀ j, off (j + 1) = off j + (bytes j).length) : ∀ (d a : Nat),
    coalesce (lineMatches ln off bytes a (d + 1)) = [.matched (ln a) (off a) (blockBytes bytes a (d + 1))] := by
  intro d
  induction d with
  | zero => intro a; simp [lineMatches, blockBytes, coalesce_cons, coalesce, merge1_nil]
  | succ d ih =>
    intro a
    rw [lineMatches, coalesce_cons, ih (a + 1)]
    unfold merge1
    simp only [hoff a, beq_self_eq_true, if_true]
    rfl

end RgVerif.Searcher
