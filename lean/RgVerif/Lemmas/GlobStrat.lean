import RgVerif.Lemmas.GlobSem
import RgVerif.Lemmas.GlobPath
/-
Each of the six recognisers of `impl Glob`, when it fires, yields a token shape whose regex meaning
(`tokMatch`) is exactly the lookup its strategy performs on the candidate (outside the dots class for the
three strategies that look at the basename / extension).
-/
namespace RgVerif.Glob

theorem bool_eq_of_iff {a b : Bool} (h : a = true ↔ b = true) : a = b := by
  cases a <;> cases b <;> simp_all

theorem lits_append (a b : List Nat) : lits (a ++ b) = lits a ++ lits b := by simp [lits]
theorem lits_cons (c : Nat) (l : List Nat) : lits (c :: l) = .s (.lit c) :: lits l := rfl
theorem lits_reverse (l : List Nat) : lits l.reverse = (lits l).reverse := by simp [lits]

theorem lits_ne_single_recPrefix (pre : List Token) (l : List Nat) (hl : l ≠ []) :
    pre ++ lits l ≠ [.s .recPrefix] := by
  intro h
  have hlast := congrArg List.getLast? h
  obtain ⟨l', c, rfl⟩ : ∃ l' c, l = l' ++ [c] := ⟨l.dropLast, l.getLast hl, (List.dropLast_concat_getLast hl).symm⟩
  simp [lits] at hlast

/-! ### `literal` -/

theorem literal_shape {g : Glob} {l : List Nat} (h : literal g = some l) :
    g.opts.ci = false ∧ g.tokens = lits l ∧ l ≠ [] := by
  unfold literal at h
  cases hci : g.opts.ci with
  | true => simp only [hci, ↓reduceIte, reduceCtorEq] at h
  | false =>
    simp only [hci, Bool.false_eq_true, ↓reduceIte] at h
    cases hl : allLits g.tokens with
    | none => simp [hl] at h
    | some lit =>
      simp only [hl] at h
      by_cases hne : lit.isEmpty = true
      · simp [hne] at h
      · simp only [hne, Bool.false_eq_true, ↓reduceIte, Option.some.injEq] at h
        subst h
        exact ⟨rfl, allLits_eq_some hl, by intro h; simp [h] at hne⟩

theorem literal_correct {g : Glob} {l : List Nat} (h : literal g = some l) (p : Bytes) :
    stratAnswer g (.literal l) (candidate p) = g.isMatch p := by
  obtain ⟨hci, htok, hne⟩ := literal_shape h
  apply bool_eq_of_iff
  unfold Glob.isMatch
  rw [htok, tokMatch_eq _ _ _ (by simpa using lits_ne_single_recPrefix [] l hne),
    tokensK_lits_end _ hci]
  simp only [stratAnswer, candidate_path, beq_iff_eq]
  exact eq_comm

/-! ### `basename_literal` -/

theorem basenameOk_lits {o : Opts} {l : List Nat} (h : basenameOk o (lits l) = true) : 47 ∉ l := by
  induction l with
  | nil => simp
  | cons c l ih =>
    simp only [lits_cons, basenameOk] at h
    split at h
    · simp at h
    · rename_i hc
      simp only [List.mem_cons, not_or]
      exact ⟨by intro h'; apply hc; simp [h'], ih h⟩

theorem basenameLiteral_shape {g : Glob} {l : List Nat} (h : basenameLiteral g = some l) :
    g.opts.ci = false ∧ g.tokens = .s .recPrefix :: lits l ∧ l ≠ [] ∧ 47 ∉ l := by
  unfold basenameLiteral at h
  split at h
  · simp at h
  · rename_i toks ht
    unfold basenameTokens at ht
    split at ht
    · simp at ht
    · rename_i hci
      split at ht
      · rename_i rest hg
        split at ht
        · simp at ht
        · rename_i hre
          split at ht
          · rename_i hok
            simp only [Option.some.injEq] at ht
            subst ht
            have hl := allLits_eq_some h
            subst hl
            refine ⟨by simpa using hci, hg, ?_, basenameOk_lits hok⟩
            intro hnil; subst hnil; simp [lits] at hre
          · simp at ht
      · simp at ht

/-- `^(?:/?|.*/)LIT$` -/
theorem recPrefix_lits_match (o : Opts) (hci : o.ci = false) (l : List Nat) (p : Bytes) :
    tokensK o (.s .recPrefix :: lits l) (fun r => r.isEmpty) p = true ↔
      p = utf8Str l ∨ ∃ x, p = x ++ 47 :: utf8Str l := by
  simp only [tokensK, tokRests, List.any_cons, Bool.or_eq_true, List.any_eq_true,
    tokensK_lits_end o hci]
  constructor
  · rintro (h | ⟨r, hr, rfl⟩)
    · exact Or.inl h
    · exact Or.inr (mem_afterSlashes.mp hr)
  · rintro (h | h)
    · exact Or.inl h
    · exact Or.inr ⟨_, mem_afterSlashes.mpr h, rfl⟩

theorem basenameLiteral_correct {g : Glob} {l : List Nat} (h : basenameLiteral g = some l)
    (p : Bytes) (hd : lastCompDots p = false) :
    stratAnswer g (.basenameLiteral l) (candidate p) = g.isMatch p := by
  obtain ⟨hci, htok, hne, h47⟩ := basenameLiteral_shape h
  have h47' : 47 ∉ utf8Str l := fun hm => h47 (mem_utf8Str_lt (by decide) hm)
  have hLne : utf8Str l ≠ [] := fun hm => hne (utf8Str_eq_nil.mp hm)
  apply bool_eq_of_iff
  unfold Glob.isMatch
  rw [htok, tokMatch_eq _ _ _ (by
    have := lits_ne_single_recPrefix [.s .recPrefix] l hne
    simpa using this), recPrefix_lits_match _ hci]
  simp only [stratAnswer, candidate_basename hd, Bool.and_eq_true, Bool.not_eq_eq_eq_not,
    Bool.not_true, List.isEmpty_eq_false_iff, beq_iff_eq, lastComp_eq]
  constructor
  · rintro ⟨_, hl⟩
    rcases afterLast_cases 47 p with ⟨_, hp⟩ | ⟨x, hx⟩
    · left; rw [← hp, hl]
    · right; exact ⟨x, by rw [hl]; exact hx⟩
  · rintro (hp | ⟨x, hx⟩)
    · subst hp
      rw [afterLast_of_not_mem h47']
      exact ⟨hLne, rfl⟩
    · subst hx
      rw [afterLast_append_cons _ h47']
      exact ⟨hLne, rfl⟩

/-! ### `ext` -/

theorem extLits_shape {ts : List Token} {l : List Nat} (h : extLits ts = some l) :
    ts = lits l ∧ 46 ∉ l ∧ 47 ∉ l := by
  induction ts generalizing l with
  | nil => simp [extLits] at h; subst h; simp [lits]
  | cons t ts ih =>
    cases t with
    | alts bs => simp [extLits] at h
    | s t =>
      cases t <;> simp only [extLits] at h <;> try (simp at h)
      rename_i c
      obtain ⟨hc, l', hl', rfl⟩ := h
      obtain ⟨h1, h2, h3⟩ := ih hl'
      refine ⟨by simp [lits, h1], ?_, ?_⟩
      · simp only [List.mem_cons, not_or]; exact ⟨fun h => hc.1 h.symm, h2⟩
      · simp only [List.mem_cons, not_or]; exact ⟨fun h => hc.2 h.symm, h3⟩

/-- the two shapes `ext` accepts -/
theorem ext_shape {g : Glob} {e : List Nat} (h : ext g = some e) :
    g.opts.ci = false ∧ ∃ l, e = 46 :: l ∧ 46 ∉ l ∧ 47 ∉ l ∧
      ((g.opts.ls = false ∧ g.tokens = .s .star :: .s (.lit 46) :: lits l) ∨
       g.tokens = .s .recPrefix :: .s .star :: .s (.lit 46) :: lits l) := by
  unfold ext at h
  split at h
  · simp at h
  · rename_i hci
    refine ⟨by simpa using hci, ?_⟩
    split at h
    · simp at h
    · rename_i t0 rest hg
      by_cases ht0 : t0 = Token.s .recPrefix
      · -- start = 1
        subst ht0
        simp only [beq_self_eq_true, ↓reduceIte, hg] at h
        cases rest with
        | nil => simp at h
        | cons t1 rest =>
          simp only [List.getElem?_cons_succ, List.getElem?_cons_zero] at h
          split at h
          · rename_i ht1
            simp only [Option.some.injEq] at ht1
            subst ht1
            simp only [Nat.reduceBEq, Bool.false_and, Bool.false_eq_true, ↓reduceIte] at h
            cases rest with
            | nil => simp at h
            | cons t2 rest =>
              simp only [List.getElem?_cons_succ, List.getElem?_cons_zero] at h
              split at h
              · rename_i ht2
                simp only [Option.some.injEq] at ht2
                subst ht2
                split at h
                · simp at h
                · rename_i l hl
                  simp only [Nat.reduceAdd, List.drop_succ_cons, List.drop_zero] at hl
                  obtain ⟨h1, h2, h3⟩ := extLits_shape hl
                  simp only [Option.some.injEq] at h
                  exact ⟨l, h.symm, h2, h3, Or.inr (by rw [hg, h1])⟩
              · simp at h
          · simp at h
      · -- start = 0
        have hb : (t0 == Token.s .recPrefix) = false := by simpa using ht0
        simp only [hb, Bool.false_eq_true, ↓reduceIte, hg, List.getElem?_cons_zero] at h
        split at h
        · rename_i ht1
          simp only [Option.some.injEq] at ht1
          subst ht1
          simp only [BEq.rfl, Bool.true_and] at h
          split at h
          · simp at h
          · rename_i hls
            cases rest with
            | nil => simp at h
            | cons t2 rest =>
              simp only [Nat.zero_add, List.getElem?_cons_succ, List.getElem?_cons_zero] at h
              split at h
              · rename_i ht2
                simp only [Option.some.injEq] at ht2
                subst ht2
                split at h
                · simp at h
                · rename_i l hl
                  simp only [Nat.reduceAdd, List.drop_succ_cons, List.drop_zero] at hl
                  obtain ⟨h1, h2, h3⟩ := extLits_shape hl
                  simp only [Option.some.injEq] at h
                  exact ⟨l, h.symm, h2, h3, Or.inl ⟨by simpa using hls, by rw [hg, h1]⟩⟩
              · simp at h
        · simp at h

/-- `[^/]*LIT$` / `.*LIT$` -/
theorem star_lits_match (o : Opts) (hci : o.ci = false) (m : List Nat) (p : Bytes) :
    tokensK o (.s .star :: lits m) (fun r => r.isEmpty) p = true ↔
      ∃ y, p = y ++ utf8Str m ∧ ∀ b ∈ y, anyOk o b = true := by
  simp only [tokensK, tokRests, List.any_eq_true, tokensK_lits_end o hci]
  constructor
  · rintro ⟨r, hr, rfl⟩; exact mem_starRests.mp hr
  · rintro h; exact ⟨_, mem_starRests.mpr h, rfl⟩

theorem anyOk_of_not_ls {o : Opts} (h : o.ls = false) (b : Nat) : anyOk o b = true := by
  simp [anyOk, h]

theorem anyOk_of_ne {o : Opts} {b : Nat} (h : b ≠ 47) : anyOk o b = true := by
  simp [anyOk, h]

/-- `^(?:/?|.*/)[^/]*E$` (and with `.*`) is "ends with E" when `E` has no slash -/
theorem recPrefix_star_lits_match (o : Opts) (hci : o.ci = false) (m : List Nat)
    (h47 : 47 ∉ utf8Str m) (p : Bytes) :
    tokensK o (.s .recPrefix :: .s .star :: lits m) (fun r => r.isEmpty) p = true ↔
      utf8Str m <:+ p := by
  constructor
  · intro h
    have := tokensK_append o [.s .recPrefix, .s .star] (lits m) (fun r => r.isEmpty) p
    simp only [List.cons_append, List.nil_append] at this
    rw [this] at h
    obtain ⟨r, hr, hk⟩ := tokensK_suffix o _ _ p h
    rw [tokensK_lits_end o hci] at hk
    subst hk; exact hr
  · rintro ⟨x, hx⟩
    rw [show tokensK o (.s .recPrefix :: .s .star :: lits m) (fun r => r.isEmpty) p
        = (tokRests o .recPrefix p).any (tokensK o (.s .star :: lits m) (fun r => r.isEmpty)) from rfl]
    simp only [tokRests, List.any_cons, Bool.or_eq_true, List.any_eq_true]
    -- split x at its last slash
    rcases afterLast_cases 47 x with ⟨hno, _⟩ | ⟨x', hx'⟩
    · left
      exact (star_lits_match o hci m p).mpr ⟨x, hx.symm, fun b hb =>
        anyOk_of_ne (fun h => hno (h ▸ hb))⟩
    · right
      refine ⟨afterLast 47 x ++ utf8Str m, mem_afterSlashes.mpr ⟨x', ?_⟩, ?_⟩
      · rw [← hx]; conv => lhs; rw [hx']
        simp
      · exact (star_lits_match o hci m _).mpr ⟨afterLast 47 x, rfl, fun b hb =>
          anyOk_of_ne (fun h => not_mem_afterLast 47 x (h ▸ hb))⟩

theorem ext_correct {g : Glob} {e : List Nat} (h : ext g = some e)
    (p : Bytes) (hd : lastCompDots p = false) :
    stratAnswer g (.extension e) (candidate p) = g.isMatch p := by
  obtain ⟨hci, l, rfl, h46, h47, hshape⟩ := ext_shape h
  have h46' : 46 ∉ utf8Str l := fun hm => h46 (mem_utf8Str_lt (by decide) hm)
  have h47' : 47 ∉ utf8Str l := fun hm => h47 (mem_utf8Str_lt (by decide) hm)
  have hE : utf8Str (46 :: l) = 46 :: utf8Str l := by rw [utf8Str_cons, utf8Enc_46]; rfl
  have h47E : 47 ∉ utf8Str (46 :: l) := by rw [hE]; simp [h47']
  have hstrat : stratAnswer g (.extension (46 :: l)) (candidate p) = true ↔ (46 :: utf8Str l) <:+ p := by
    rw [← ext_eq_iff_suffix hd h46' h47']
    simp only [stratAnswer, hE, Bool.and_eq_true, Bool.not_eq_eq_eq_not, Bool.not_true,
      List.isEmpty_eq_false_iff, beq_iff_eq]
    constructor
    · rintro ⟨_, h⟩; exact h.symm
    · intro h; rw [h]; simp
  apply bool_eq_of_iff
  rw [hstrat]
  unfold Glob.isMatch
  rcases hshape with ⟨hls, htok⟩ | htok
  · rw [htok, tokMatch_eq _ _ _ (by simp)]
    have := star_lits_match g.opts hci (46 :: l) p
    rw [lits_cons] at this
    rw [this, hE]
    constructor
    · rintro ⟨x, hx⟩; exact ⟨x, hx.symm, fun b _ => anyOk_of_not_ls hls b⟩
    · rintro ⟨y, hy, _⟩; exact ⟨y, hy.symm⟩
  · rw [htok, tokMatch_eq _ _ _ (by simp)]
    have := recPrefix_star_lits_match g.opts hci (46 :: l) h47E p
    rw [lits_cons] at this
    rw [this, hE]

end RgVerif.Glob
