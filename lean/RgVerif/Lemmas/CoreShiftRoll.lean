import RgVerif.Lemmas.CoreShiftLoop
/-
`Core::roll` between two windows of the roll buffer: the reader forgets `last_line_visited`, the
slice searcher does not; what is kept (`max_context + 1` whole lines, or everything since the last
visited line) makes every later comparison come out the same (`XRel`).
-/
namespace RgVerif.Searcher
open RgVerif RgVerif.Matcher RgVerif.Lines RgVerif.GrepSpec

theorem countLines_flags (cfg : Config) (buf : Bytes) (st : Core) (u : Nat) :
    (countLines cfg buf st u).hasSunk = st.hasSunk ∧ (countLines cfg buf st u).hasMatched = st.hasMatched ∧
    (countLines cfg buf st u).lastLineVisited = st.lastLineVisited := by
  unfold countLines
  split
  · simp
  · split <;> simp

/-- what is kept when `roll` cuts at the context start: `max_context + 1` whole lines; on the
slice side the region since `v` ends with the same lines, preceded by a terminator -/
theorem roll_far {cfg : Config} {B pre w post pre' w' post' : Bytes} (W : WinOf B pre w post) (W' : WinOf B pre' w' post')
    (Lw : List Bytes) (hall : AllTerm cfg.lineTerm.asByte Lw) (hfl : Lw.flatten = w) (k : Nat) (hk1 : 1 ≤ k)
    (hk : k + (cfg.maxContext + 1) = Lw.length)
    (c : Nat) (hc : c = ((Lw.take k).flatten).length) (hpre' : pre'.length = pre.length + c)
    (hw' : w.length - c ≤ w'.length) (v : Nat) (hv : v < c + pre.length) :
    Far cfg w' 0 (w.length - c) (Lw.drop k) ∧ Far cfg B v (w.length - c + pre'.length) (Lw.drop k) := by
  have hBlen : B.length = pre.length + (w.length + post.length) := by rw [W.eq]; simp
  have hsplit : w = (Lw.take k).flatten ++ (Lw.drop k).flatten := by
    rw [← List.flatten_append, List.take_append_drop, hfl]
  have hL : w.length = c + ((Lw.drop k).flatten).length := by
    have := congrArg List.length hsplit
    rw [List.length_append, ← hc] at this
    exact this
  have hallA : AllTerm cfg.lineTerm.asByte (Lw.take k) := fun y hy => hall y (List.mem_of_mem_take hy)
  have hallD : AllTerm cfg.lineTerm.asByte (Lw.drop k) := fun y hy => hall y (List.mem_of_mem_drop hy)
  have hAne : Lw.take k ≠ [] := by
    intro h0
    have := congrArg List.length h0
    rw [List.length_take, List.length_nil] at this
    omega
  have hcpos : 0 < c := by rw [hc]; exact allTerm_flatten_pos hallA hAne
  have hmany : cfg.maxContext + 1 ≤ (Lw.drop k).length := by simp; omega
  -- the kept part of the old window
  have hkeep : slice w c w.length = (Lw.drop k).flatten := by
    unfold Lines.slice
    rw [List.take_length, hsplit, hc, List.drop_left]
  have hs1 : slice B (c + pre.length) (w.length + pre.length) = (Lw.drop k).flatten := by
    rw [W.slice c w.length (Nat.le_refl _)]; exact hkeep
  -- the byte before it is a terminator
  have hlastA : ((Lw.take k).flatten).getLast? = some cfg.lineTerm.asByte := allTerm_flatten_getLast hallA hAne
  have hbyte : slice w (c - 1) c = [cfg.lineTerm.asByte] := by
    unfold Lines.slice
    have h1 : w.take c = (Lw.take k).flatten := by rw [hsplit, hc, List.take_left]
    rw [h1]
    obtain ⟨A', hA'⟩ : ∃ A', (Lw.take k).flatten = A' ++ [cfg.lineTerm.asByte] :=
      List.getLast?_eq_some_iff.mp hlastA
    rw [hA'] at hc ⊢
    have : c - 1 = A'.length := by rw [hc]; simp
    rw [this, List.drop_left]
  have hs2 : slice B (c - 1 + pre.length) (c + pre.length) = [cfg.lineTerm.asByte] := by
    rw [W.slice (c - 1) c (by omega)]; exact hbyte
  constructor
  · refine ⟨Nat.zero_le _, hw', ⟨[], ?_, Or.inl rfl⟩, hallD, hmany⟩
    have := W'.slice 0 (w.length - c) hw'
    rw [hpre', show 0 + (pre.length + c) = c + pre.length by omega,
      show w.length - c + (pre.length + c) = w.length + pre.length by omega, hs1] at this
    rw [← this]; simp
  · refine ⟨by omega, by omega, ⟨slice B v (c + pre.length), ?_, Or.inr ?_⟩, hallD, hmany⟩
    · rw [hpre', show w.length - c + (pre.length + c) = w.length + pre.length by omega,
        slice_split B v (c + pre.length) (w.length + pre.length) (by omega) (by omega) (by omega), hs1]
    · rw [slice_split B v (c - 1 + pre.length) (c + pre.length) (by omega) (by omega) (by omega), hs2]
      simp

/-- **`Core::roll` keeps the two searches related**: the reader's state after the roll, on the next
window `w'` (which starts `consumed` bytes further), against the untouched slice-side state. -/
theorem roll_sim {cfg : Config} {B pre w post pre' w' post' : Bytes} (W : WinOf B pre w post) (W' : WinOf B pre' w' post')
    {s1 s2 : Core} (E : ESim cfg B w pre.length s1 s2) (hP : PostAt s2 w.length)
    (hX : XRel cfg B w pre.length s1 s2 w.length)
    (hwT : w = [] ∨ w.getLast? = some cfg.lineTerm.asByte)
    (hpre' : pre'.length = pre.length + (roll cfg w s2).2) (hw' : w.length - (roll cfg w s2).2 ≤ w'.length) :
    (roll cfg w s2).2 ≤ w.length ∧
    ESim cfg B w' pre'.length s1 (roll cfg w s2).1 ∧ PostAt (roll cfg w s2).1 (w.length - (roll cfg w s2).2) ∧
    XRel cfg B w' pre'.length s1 (roll cfg w s2).1 (w.length - (roll cfg w s2).2) := by
  obtain ⟨hllv, hpos, hJ⟩ := hP
  have hple := preceding_le w cfg.lineTerm.asByte cfg.maxContext
  have hBlen : B.length = pre.length + (w.length + post.length) := by rw [W.eq]; simp
  have hB'len : B.length = pre'.length + (w'.length + post'.length) := by rw [W'.eq]; simp
  have hroll : roll cfg w s2 =
      ({ (countLines cfg w s2 (if cfg.maxContext = 0 then w.length
            else max (preceding w cfg.lineTerm.asByte cfg.maxContext) s2.lastLineVisited)) with
          absoluteByteOffset := (countLines cfg w s2 (if cfg.maxContext = 0 then w.length
            else max (preceding w cfg.lineTerm.asByte cfg.maxContext) s2.lastLineVisited)).absoluteByteOffset +
              (if cfg.maxContext = 0 then w.length
                else max (preceding w cfg.lineTerm.asByte cfg.maxContext) s2.lastLineVisited),
          lastLineCounted := 0, lastLineVisited := 0,
          pos := w.length - (if cfg.maxContext = 0 then w.length
            else max (preceding w cfg.lineTerm.asByte cfg.maxContext) s2.lastLineVisited) },
        (if cfg.maxContext = 0 then w.length
            else max (preceding w cfg.lineTerm.asByte cfg.maxContext) s2.lastLineVisited)) := by
    unfold roll
    by_cases h0 : cfg.maxContext = 0
    · simp [h0]
    · simp [h0]
  rw [hroll] at hpre' hw' ⊢
  dsimp only at hpre' hw' ⊢
  generalize hcs : preceding w cfg.lineTerm.asByte cfg.maxContext = cs at *
  have hcdef : cfg.maxContext ≠ 0 →
      (if cfg.maxContext = 0 then w.length else max cs s2.lastLineVisited) = max cs s2.lastLineVisited := by
    intro h; rw [if_neg h]
  have hcge0 : s2.lastLineVisited ≤ (if cfg.maxContext = 0 then w.length else max cs s2.lastLineVisited) := by
    split <;> omega
  have hcle0 : (if cfg.maxContext = 0 then w.length else max cs s2.lastLineVisited) ≤ w.length := by
    split <;> omega
  generalize (if cfg.maxContext = 0 then w.length else max cs s2.lastLineVisited) = c at *
  have hc : cfg.maxContext ≠ 0 → max cs s2.lastLineVisited = c := fun h => (hcdef h).symm
  have hcge : s2.lastLineVisited ≤ c := hcge0
  have hcle : c ≤ w.length := hcle0
  have hco := countLines_other cfg w s2 c
  have hfl := countLines_flags cfg w s2 c
  refine ⟨hcle, ?_, ?_, ?_⟩
  · refine ⟨⟨?_, ?_, ?_, E.bin1, ?_⟩, ?_, ?_, ?_, ?_, E.llc1, Nat.le_refl _, ?_⟩
    · show s1.events = (countLines cfg w s2 c).events
      rw [hco.1]; exact E.ev
    · show s1.absoluteByteOffset + pre'.length = (countLines cfg w s2 c).absoluteByteOffset + c
      rw [hco.2.1]; have := E.abs; omega
    · show s1.pos = w.length - c + pre'.length
      have := E.pos; omega
    · show (countLines cfg w s2 c).binaryByteOffset = none
      rw [hco.2.2.2.1]; exact E.bin2
    · show s1.lastLineVisited ≤ 0 + pre'.length
      have := E.llv; omega
    · show s1.afterContextLeft = (countLines cfg w s2 c).afterContextLeft
      rw [hco.2.2.1]; exact E.acl
    · show s1.hasSunk = (countLines cfg w s2 c).hasSunk
      rw [hfl.1]; exact E.sunk
    · show s1.hasMatched = (countLines cfg w s2 c).hasMatched
      rw [hfl.2.1]; exact E.hm
    · intro p _ hpw
      show s1.lineNumber.map (· + count (slice B s1.lastLineCounted (p + pre'.length)) cfg.lineTerm.asByte)
        = (countLines cfg w s2 c).lineNumber.map (· + count (slice w' 0 p) cfg.lineTerm.asByte)
      rw [countLines_ln, ← E.ln c hcge hcle]
      unfold lnAt
      have h1 := W'.slice 0 p hpw
      have h2 := count_slice_add B cfg.lineTerm.asByte s1.lastLineCounted (c + pre.length) (p + pre'.length)
        (by have := E.llc1; have := E.llv; omega) (by omega)
      rw [show 0 + pre'.length = c + pre.length by omega] at h1
      rw [h1] at h2
      cases s1.lineNumber with
      | none => rfl
      | some n => simp only [Option.map_some]; rw [← h2, Nat.add_assoc]
  · refine ⟨Nat.zero_le _, rfl, ?_⟩
    show 0 = w.length - c ∨ (countLines cfg w s2 c).afterContextLeft = 0
    rw [hco.2.2.1]
    cases hJ with
    | inl h => left; omega
    | inr h => exact Or.inr h
  · -- the cut at the context start
    by_cases hmc : cfg.maxContext = 0
    · exact Or.inr (Or.inr hmc)
    have hc := hc hmc
    have key : ∀ (Lw : List Bytes), AllTerm cfg.lineTerm.asByte Lw → Lw.flatten = w → s2.lastLineVisited < cs →
        ∃ Z, Far cfg w' 0 (w.length - c) Z ∧ Far cfg B s1.lastLineVisited (w.length - c + pre'.length) Z := by
      intro Lw hall hflat hlt
      have hne : Lw ≠ [] := by
        intro h0
        have hw0 : w.length = 0 := by rw [← hflat, h0]; rfl
        omega
      have hp := preceding_allTerm hall hne cfg.maxContext
      rw [hflat, hcs] at hp
      have hk1 : 1 ≤ Lw.length - 1 - cfg.maxContext := by
        apply Classical.byContradiction
        intro hn
        have : Lw.length - 1 - cfg.maxContext = 0 := by omega
        rw [this] at hp
        simp at hp
        omega
      have hceq : c = cs := by omega
      have := roll_far W W' Lw hall hflat (Lw.length - 1 - cfg.maxContext) hk1 (by omega) c (by rw [hceq, hp]) hpre' hw'
        s1.lastLineVisited (by have := E.llv; omega)
      exact ⟨_, this.1, this.2⟩
    cases hX with
    | inl hT =>
      by_cases hle : cs ≤ s2.lastLineVisited
      · left
        show s1.lastLineVisited = 0 + pre'.length
        omega
      · right; left
        refine ⟨rfl, ?_⟩
        have hwne : w ≠ [] := by intro h0; rw [h0] at hple; simp at hple; omega
        have hlast : w.getLast? = some cfg.lineTerm.asByte := by
          cases hwT with
          | inl h0 => exact absurd h0 hwne
          | inr h1 => exact h1
        exact key (splitLines cfg.lineTerm.asByte w)
          (goodLines_allTerm_of_last (splitLines_good _ _) (by rw [splitLines_flatten]; exact hlast))
          (splitLines_flatten _ _) (by omega)
    | inr hL0 =>
      have hL := hL0.resolve_right hmc
      obtain ⟨h0, Z, F2, F1⟩ := hL
      right; left
      refine ⟨rfl, ?_⟩
      obtain ⟨x, hx, hxt⟩ := F2.x
      rw [h0] at hx
      have hw0 : slice w 0 w.length = w := by unfold Lines.slice; simp
      rw [hw0] at hx
      by_cases hz : cs = 0
      · have hc0 : c = 0 := by omega
        rw [hc0] at hpre' hw' ⊢
        refine ⟨Z, ⟨Nat.zero_le _, hw', ⟨x, ?_, hxt⟩, F2.term, F2.many⟩, ?_⟩
        · have h1 := W'.slice 0 (w.length - 0) hw'
          have h2 := W.slice 0 w.length (Nat.le_refl _)
          rw [show 0 + pre'.length = 0 + pre.length by omega,
            show w.length - 0 + pre'.length = w.length + pre.length by omega, h2, hw0] at h1
          rw [← h1]; exact hx
        · rw [show w.length - 0 + pre'.length = w.length + pre.length by omega]; exact F1
      · have hX : AllTerm cfg.lineTerm.asByte (splitLines cfg.lineTerm.asByte x) := by
          cases hxt with
          | inl h0 => rw [h0]; intro y hy; simp [splitLines] at hy
          | inr h0 => exact goodLines_allTerm_of_last (splitLines_good _ _) (by rw [splitLines_flatten]; exact h0)
        exact key (splitLines cfg.lineTerm.asByte x ++ Z) (allTerm_append hX F2.term)
          (by rw [List.flatten_append, splitLines_flatten, hx]) (by omega)

end RgVerif.Searcher
