import RgVerif.Model.Literal
import RgVerif.Lemmas.HirBasic
/-
The invariant behind inner-literal extraction (`TSeqInv` of DESIGN §4.11) and one lemma per
operation of `Seq` / `TSeq` / `Extractor`.

For a matched word `w` and a literal `l` of a sequence tagged `p` (`prefix`):

  p = true,  exact   : w = l                p = false, exact   : l is a suffix of w
  p = true,  inexact : l is a prefix of w   p = false, inexact : l occurs inside w

`Seq.Inv p s w` : the sequence is infinite, or some literal of it is `ok` for `w`.
-/
set_option linter.unusedSimpArgs false
namespace RgVerif.Rx
open RgVerif

def Lit.ok (p : Bool) (l : Lit) (w : Bytes) : Prop :=
  match p, l.exact with
  | true, true => w = l.bytes
  | true, false => l.bytes <+: w
  | false, true => l.bytes <:+ w
  | false, false => l.bytes <:+: w

def Seq.Inv (p : Bool) (s : Seq) (w : Bytes) : Prop :=
  match s with
  | none => True
  | some L => ∃ l ∈ L, l.ok p w

def TSeq.Inv (t : TSeq) (w : Bytes) : Prop := Seq.Inv t.pre t.seq w

/-! ### literals -/

theorem Lit.ok_infix {p : Bool} {l : Lit} {w : Bytes} (h : l.ok p w) : l.bytes <:+: w := by
  unfold Lit.ok at h
  split at h
  · subst h; exact List.infix_refl _
  · exact h.isInfix
  · exact h.isInfix
  · exact h

theorem Lit.ok_inexact {p : Bool} {l : Lit} {w : Bytes} (h : l.ok p w) : l.inexact.ok p w := by
  cases p <;> cases he : l.exact <;> simp_all [Lit.ok, Lit.inexact]
  exact h.isInfix

theorem Lit.ok_weaken {l : Lit} {w : Bytes} (h : l.ok true w) : l.ok false w := by
  cases he : l.exact <;> simp_all [Lit.ok]
  exact h.isInfix

theorem Lit.ok_and {p q : Bool} {l : Lit} {w : Bytes} (h : l.ok p w) : l.ok (p && q) w := by
  cases p <;> cases q <;> simp_all
  exact Lit.ok_weaken h

theorem Lit.ok_and' {p q : Bool} {l : Lit} {w : Bytes} (h : l.ok q w) : l.ok (p && q) w := by
  rw [Bool.and_comm]; exact Lit.ok_and h

/-- an inexact literal stays `ok` when the word is extended to the right -/
theorem Lit.ok_ext {p : Bool} {l : Lit} {w w2 : Bytes} (he : l.exact = false) (h : l.ok p w) :
    l.ok p (w ++ w2) := by
  cases p <;> simp_all [Lit.ok]
  · exact List.IsInfix.trans h (List.prefix_append w w2).isInfix
  · exact List.IsPrefix.trans h (List.prefix_append w w2)

/-- in non-prefix mode a literal stays `ok` when the word is extended to the left -/
theorem Lit.ok_left {l : Lit} {w w0 : Bytes} (h : l.ok false w) : l.ok false (w0 ++ w) := by
  cases he : l.exact <;> simp_all [Lit.ok]
  · exact List.IsInfix.trans h (List.suffix_append w0 w).isInfix
  · exact List.IsSuffix.trans h (List.suffix_append w0 w)

/-- the cross product step: an exact `l1` extended by `l2` -/
theorem Lit.ok_cross {p : Bool} {l1 l2 : Lit} {w1 w2 : Bytes} (h1 : l1.ok p w1) (he : l1.exact = true)
    (h2 : l2.ok true w2) : Lit.ok p ⟨l1.bytes ++ l2.bytes, l2.exact⟩ (w1 ++ w2) := by
  cases p <;> cases he2 : l2.exact <;> simp_all [Lit.ok]
  · -- l1 suffix of w1, l2 prefix of w2
    obtain ⟨a, rfl⟩ := h1
    obtain ⟨b, rfl⟩ := h2
    exact ⟨a, b, by simp⟩
  · obtain ⟨a, rfl⟩ := h1
    exact ⟨a, by simp⟩

theorem Lit.ok_keepFirst {p : Bool} {l : Lit} {w : Bytes} (n : Nat) (h : l.ok p w) : (l.keepFirst n).ok p w := by
  unfold Lit.keepFirst
  split
  · exact h
  · have hi := Lit.ok_infix h
    cases p <;> cases he : l.exact <;> simp_all [Lit.ok]
    · exact List.IsInfix.trans (List.take_prefix n l.bytes).isInfix hi
    · exact List.IsInfix.trans (List.take_prefix n l.bytes).isInfix hi
    · exact List.IsPrefix.trans (List.take_prefix n l.bytes) h
    · exact List.take_prefix n l.bytes

/-- same bytes, weaker exactness -/
theorem Lit.ok_of_weaker {p : Bool} {l l' : Lit} {w : Bytes} (hb : l'.bytes = l.bytes)
    (he : l'.exact = true → l.exact = true) (h : l.ok p w) : l'.ok p w := by
  cases hl' : l'.exact
  · have : l' = (⟨l.bytes, l.exact⟩ : Lit).inexact := by
      cases l'; simp_all [Lit.inexact]
    have h' : (⟨l.bytes, l.exact⟩ : Lit).ok p w := h
    rw [this]; exact Lit.ok_inexact h'
  · have : l' = l := by
      cases l'; cases l; simp_all
    rw [this]; exact h

/-! ### dedup -/

theorem dedupGo_spec (prev : Lit) (rest : List Lit) :
    ∀ l ∈ prev :: rest, ∃ l' ∈ dedupGo prev rest, l'.bytes = l.bytes ∧ (l'.exact = true → l.exact = true) := by
  induction rest generalizing prev with
  | nil => intro l hl; simp at hl; subst hl; exact ⟨l, by simp [dedupGo], rfl, id⟩
  | cons b rest ih =>
    intro l hl
    simp only [dedupGo]
    split
    · rename_i hbe
      have hbe' : prev.bytes = b.bytes := by simpa using hbe
      -- merged element
      let merged : Lit := if prev.exact != b.exact then prev.inexact else prev
      have hm_bytes : merged.bytes = prev.bytes := by
        simp only [merged]; split <;> simp [Lit.inexact]
      have hm_prev : merged.exact = true → prev.exact = true := by
        simp only [merged]; split <;> simp [Lit.inexact]
      have hm_b : merged.exact = true → b.exact = true := by
        simp only [merged]
        split
        · simp [Lit.inexact]
        · rename_i hne; intro hp; simp at hne; rw [← hne]; exact hp
      rcases List.mem_cons.1 hl with rfl | hl
      · obtain ⟨l', hl', h1, h2⟩ := ih merged merged (by simp)
        exact ⟨l', hl', by rw [h1, hm_bytes], fun h => hm_prev (h2 h)⟩
      · rcases List.mem_cons.1 hl with rfl | hl
        · obtain ⟨l', hl', h1, h2⟩ := ih merged merged (by simp)
          exact ⟨l', hl', by rw [h1, hm_bytes, hbe'], fun h => hm_b (h2 h)⟩
        · exact ih merged l (by simp [hl])
    · rcases List.mem_cons.1 hl with rfl | hl
      · exact ⟨l, by simp, rfl, id⟩
      · obtain ⟨l', hl', h⟩ := ih b l hl
        exact ⟨l', by simp [hl'], h⟩

theorem dedupLits_spec (L : List Lit) :
    ∀ l ∈ L, ∃ l' ∈ dedupLits L, l'.bytes = l.bytes ∧ (l'.exact = true → l.exact = true) := by
  cases L with
  | nil => intro l hl; cases hl
  | cons a rest => exact dedupGo_spec a rest

theorem dedupLits_inv {p : Bool} {L : List Lit} {w : Bytes} (h : ∃ l ∈ L, l.ok p w) :
    ∃ l ∈ dedupLits L, l.ok p w := by
  obtain ⟨l, hl, hok⟩ := h
  obtain ⟨l', hl', hb, he⟩ := dedupLits_spec L l hl
  exact ⟨l', hl', Lit.ok_of_weaker hb he hok⟩

/-- dedup keeps "all inexact" -/
theorem dedupGo_allInexact (prev : Lit) (rest : List Lit) (h : ∀ l ∈ prev :: rest, l.exact = false) :
    ∀ l ∈ dedupGo prev rest, l.exact = false := by
  induction rest generalizing prev with
  | nil => simpa [dedupGo] using h
  | cons b rest ih =>
    simp only [dedupGo]
    split
    · apply ih
      intro l hl
      rcases List.mem_cons.1 hl with rfl | hl
      · split
        · simp [Lit.inexact]
        · exact h _ (by simp)
      · exact h l (by simp [hl])
    · intro l hl
      rcases List.mem_cons.1 hl with rfl | hl
      · exact h _ (by simp)
      · exact ih b (fun l hl => h l (by simp [hl])) l hl

theorem dedupLits_allInexact (L : List Lit) (h : ∀ l ∈ L, l.exact = false) : ∀ l ∈ dedupLits L, l.exact = false := by
  cases L with
  | nil => intro l hl; cases hl
  | cons a rest => exact dedupGo_allInexact a rest h

/-! ### `Seq` -/

theorem Seq.inv_none {p : Bool} {w : Bytes} : Seq.Inv p none w := trivial

theorem Seq.inv_and {p q : Bool} {s : Seq} {w : Bytes} (h : Seq.Inv p s w) : Seq.Inv (p && q) s w := by
  cases s with
  | none => trivial
  | some L => obtain ⟨l, hl, hok⟩ := h; exact ⟨l, hl, Lit.ok_and hok⟩

theorem Seq.inv_and' {p q : Bool} {s : Seq} {w : Bytes} (h : Seq.Inv q s w) : Seq.Inv (p && q) s w := by
  rw [Bool.and_comm]; exact Seq.inv_and h

theorem Seq.inv_makeInexact {p : Bool} {s : Seq} {w : Bytes} (h : Seq.Inv p s w) : Seq.Inv p s.makeInexact w := by
  cases s with
  | none => trivial
  | some L =>
    obtain ⟨l, hl, hok⟩ := h
    exact ⟨l.inexact, List.mem_map.2 ⟨l, hl, rfl⟩, Lit.ok_inexact hok⟩

theorem Seq.inv_keepFirstBytes {p : Bool} {s : Seq} {w : Bytes} (n : Nat) (h : Seq.Inv p s w) :
    Seq.Inv p (s.keepFirstBytes n) w := by
  cases s with
  | none => trivial
  | some L =>
    obtain ⟨l, hl, hok⟩ := h
    exact ⟨l.keepFirst n, List.mem_map.2 ⟨l, hl, rfl⟩, Lit.ok_keepFirst n hok⟩

theorem Seq.inv_dedup {p : Bool} {s : Seq} {w : Bytes} (h : Seq.Inv p s w) : Seq.Inv p s.dedup w := by
  cases s with
  | none => trivial
  | some L => exact dedupLits_inv h

theorem Seq.isInexact_iff {s : Seq} : s.isInexact = true ↔ ∀ L, s = some L → ∀ l ∈ L, l.exact = false := by
  cases s with
  | none => simp [Seq.isInexact]
  | some L => simp [Seq.isInexact]

/-- an all-inexact sequence keeps its invariant when the word grows to the right -/
theorem Seq.inv_ext {p : Bool} {s : Seq} {w w2 : Bytes} (hi : s.isInexact = true) (h : Seq.Inv p s w) :
    Seq.Inv p s (w ++ w2) := by
  cases s with
  | none => trivial
  | some L =>
    obtain ⟨l, hl, hok⟩ := h
    exact ⟨l, hl, Lit.ok_ext (Seq.isInexact_iff.1 hi L rfl l hl) hok⟩

theorem Seq.inv_left {s : Seq} {w w0 : Bytes} (h : Seq.Inv false s w) : Seq.Inv false s (w0 ++ w) := by
  cases s with
  | none => trivial
  | some L => obtain ⟨l, hl, hok⟩ := h; exact ⟨l, hl, Lit.ok_left hok⟩

theorem Seq.makeInexact_isInexact (s : Seq) : s.makeInexact.isInexact = true := by
  cases s with
  | none => rfl
  | some L => simp [Seq.makeInexact, Seq.isInexact, Lit.inexact]

theorem Seq.inv_union_left {p : Bool} {s1 s2 : Seq} {w : Bytes} (h : Seq.Inv p s1 w) : Seq.Inv p (s1.union s2) w := by
  cases s2 with
  | none => trivial
  | some L2 =>
    cases s1 with
    | none => trivial
    | some L1 =>
      obtain ⟨l, hl, hok⟩ := h
      exact dedupLits_inv ⟨l, List.mem_append_left _ hl, hok⟩

theorem Seq.inv_union_right {p : Bool} {s1 s2 : Seq} {w : Bytes} (h : Seq.Inv p s2 w) : Seq.Inv p (s1.union s2) w := by
  cases s2 with
  | none => trivial
  | some L2 =>
    cases s1 with
    | none => trivial
    | some L1 =>
      obtain ⟨l, hl, hok⟩ := h
      exact dedupLits_inv ⟨l, List.mem_append_right _ hl, hok⟩

theorem Seq.inv_crossForward {p : Bool} {s1 s2 : Seq} {w1 w2 : Bytes} (h1 : Seq.Inv p s1 w1)
    (h2 : Seq.Inv true s2 w2) : Seq.Inv p (s1.crossForward s2) (w1 ++ w2) := by
  cases s2 with
  | none =>
    simp only [Seq.crossForward]
    split
    · trivial
    · exact Seq.inv_ext (Seq.makeInexact_isInexact s1) (Seq.inv_makeInexact h1)
  | some L2 =>
    cases s1 with
    | none => trivial
    | some L1 =>
      obtain ⟨l1, hl1, hok1⟩ := h1
      obtain ⟨l2, hl2, hok2⟩ := h2
      simp only [Seq.crossForward]
      apply dedupLits_inv
      cases he : l1.exact
      · refine ⟨l1, ?_, Lit.ok_ext he hok1⟩
        rw [List.mem_flatMap]
        exact ⟨l1, hl1, by simp [he]⟩
      · refine ⟨⟨l1.bytes ++ l2.bytes, l2.exact⟩, ?_, Lit.ok_cross hok1 he hok2⟩
        rw [List.mem_flatMap]
        exact ⟨l1, hl1, by simp only [he, if_true]; exact List.mem_map.2 ⟨l2, hl2, rfl⟩⟩

/-! ### `TSeq` -/

theorem TSeq.inv_makeInexact {t : TSeq} {w : Bytes} (h : t.Inv w) : t.makeInexact.Inv w :=
  Seq.inv_makeInexact h

theorem TSeq.inv_ext {t : TSeq} {w w2 : Bytes} (hi : t.seq.isInexact = true) (h : t.Inv w) : t.Inv (w ++ w2) :=
  Seq.inv_ext hi h

theorem TSeq.inv_enforce {t : TSeq} {w : Bytes} (h : t.Inv w) : (enforceLiteralLen t).Inv w :=
  Seq.inv_keepFirstBytes _ h

theorem TSeq.choose_cases (a b : TSeq) : a.choose b = a.makeInexact ∨ a.choose b = b.makeInexact := by
  unfold TSeq.choose
  simp only
  repeat' split
  all_goals simp

theorem TSeq.choose_isInexact (a b : TSeq) : (a.choose b).seq.isInexact = true := by
  rcases TSeq.choose_cases a b with h | h <;> rw [h] <;> exact Seq.makeInexact_isInexact _

/-- whichever side `choose` takes (it makes both inexact first) -/
theorem TSeq.inv_choose {a b : TSeq} {w : Bytes} (ha : a.makeInexact.Inv w) (hb : b.makeInexact.Inv w) :
    (a.choose b).Inv w := by
  rcases TSeq.choose_cases a b with h | h <;> rw [h]
  · exact ha
  · exact hb

/-- the invariant of `prev` in `extract_concat`: all inexact, hence stable under right extension -/
def TSeq.InvI (t : TSeq) (w : Bytes) : Prop := t.seq.isInexact = true ∧ t.Inv w

theorem TSeq.invI_ext {t : TSeq} {w w2 : Bytes} (h : t.InvI w) : t.InvI (w ++ w2) :=
  ⟨h.1, TSeq.inv_ext h.1 h.2⟩

/-- `Extractor::cross` -/
theorem inv_exCross {t1 t2 : TSeq} {w1 w2 : Bytes} (h1 : t1.Inv w1) (h2 : t2.Inv w2) :
    (exCross t1 t2).Inv (w1 ++ w2) := by
  unfold exCross
  split
  · rename_i hp
    have hp' : t2.pre = false := by simpa using hp
    apply TSeq.inv_choose
    · exact TSeq.inv_ext (Seq.makeInexact_isInexact _) (TSeq.inv_makeInexact h1)
    · have h2' : Seq.Inv false t2.seq w2 := by
        have := h2; unfold TSeq.Inv at this; rwa [hp'] at this
      have := Seq.inv_left (w0 := w1) (Seq.inv_makeInexact h2')
      unfold TSeq.Inv TSeq.makeInexact
      simp only [hp']
      exact this
  · rename_i hp
    have hp' : t2.pre = true := by simpa using hp
    apply TSeq.inv_enforce
    unfold TSeq.Inv
    simp only
    apply Seq.inv_crossForward h1
    have h2' : Seq.Inv true t2.seq w2 := by
      have := h2; unfold TSeq.Inv at this; rwa [hp'] at this
    split
    · trivial
    · exact h2'

theorem exCross_pre_of_pre {t1 t2 : TSeq} (h : t2.pre = true) : (exCross t1 t2).pre = t1.pre := by
  unfold exCross
  simp [h, enforceLiteralLen, TSeq.keepFirstBytes]

/-- `Extractor::union`, left operand -/
theorem inv_exUnion_left {t1 t2 : TSeq} {w : Bytes} (h : t1.Inv w) : (exUnion t1 t2).Inv w := by
  unfold exUnion
  simp only
  split
  · unfold TSeq.Inv
    apply Seq.inv_union_left
    exact Seq.inv_and (Seq.inv_dedup (Seq.inv_keepFirstBytes _ h))
  · unfold TSeq.Inv
    exact Seq.inv_union_left (Seq.inv_and h)

/-- `Extractor::union`, right operand -/
theorem inv_exUnion_right {t1 t2 : TSeq} {w : Bytes} (h : t2.Inv w) : (exUnion t1 t2).Inv w := by
  unfold exUnion
  simp only
  split
  · unfold TSeq.Inv
    apply Seq.inv_union_right
    split
    · trivial
    · exact Seq.inv_and' (Seq.inv_dedup (Seq.inv_keepFirstBytes _ h))
  · unfold TSeq.Inv
    exact Seq.inv_union_right (Seq.inv_and' h)

/-! ### classes -/

theorem mem_classElems {rs : Ranges} {c : Nat} (h : inCls rs c = true) : c ∈ classElems rs := by
  obtain ⟨r, hr, h1, h2⟩ := (inCls_iff rs c).1 h
  unfold classElems
  rw [List.mem_flatMap]
  refine ⟨r, hr, ?_⟩
  rw [List.mem_range'_1]
  omega

theorem foldl_push_spec (f : Nat → Lit) (xs : List Nat) (L0 : List Lit) :
    ∃ L, xs.foldl (fun s c => Seq.push s (f c)) (some L0) = some L ∧ (∀ l ∈ L0, l ∈ L) ∧ (∀ c ∈ xs, f c ∈ L) := by
  induction xs generalizing L0 with
  | nil => exact ⟨L0, rfl, fun _ h => h, fun _ h => by cases h⟩
  | cons x xs ih =>
    simp only [List.foldl_cons]
    have hstep : ∃ L1, Seq.push (some L0) (f x) = some L1 ∧ (∀ l ∈ L0, l ∈ L1) ∧ f x ∈ L1 := by
      simp only [Seq.push, Option.map]
      split
      · rename_i hlast
        refine ⟨L0, rfl, fun _ h => h, ?_⟩
        exact List.mem_of_getLast? (by simpa using hlast)
      · exact ⟨L0 ++ [f x], rfl, fun l h => List.mem_append_left _ h, by simp⟩
    obtain ⟨L1, h1, h2, h3⟩ := hstep
    rw [h1]
    obtain ⟨L, hL, hsub, hall⟩ := ih L1
    refine ⟨L, hL, fun l h => hsub l (h2 l h), ?_⟩
    intro c hc
    rcases List.mem_cons.1 hc with rfl | hc
    · exact hsub _ h3
    · exact hall c hc

theorem inv_extractClassBytes {lk : LookFn} {rs : Ranges} {hay : Bytes} {s e : Nat}
    (hm : Matches lk (.classB rs) hay s e) : (extractClassBytes rs).Inv (slice hay s e) := by
  cases hm with
  | classB hget hin =>
    rename_i b
    unfold extractClassBytes
    split
    · trivial
    · apply TSeq.inv_enforce
      obtain ⟨L, hL, _, hall⟩ := foldl_push_spec (fun b => ⟨[b], true⟩) (classElems rs) []
      unfold TSeq.Inv
      simp only [Seq.empty]
      rw [hL]
      refine ⟨⟨[b], true⟩, hall b (mem_classElems hin), ?_⟩
      simp only [Lit.ok]
      -- the slice is the single byte
      apply List.ext_getElem?
      intro j
      rw [slice_getElem?]
      cases j with
      | zero => simp [hget]
      | succ j => simp

theorem inv_extractClassUnicode {lk : LookFn} {rs : Ranges} {hay : Bytes} {s e : Nat}
    (hm : Matches lk (.classU rs) hay s e) : (extractClassUnicode rs).Inv (slice hay s e) := by
  cases hm with
  | classU hin hsc hl hsl =>
    rename_i c
    unfold extractClassUnicode
    split
    · trivial
    · apply TSeq.inv_enforce
      obtain ⟨L, hL, _, hall⟩ := foldl_push_spec (fun c => ⟨utf8Enc c, true⟩) ((classElems rs).filter isScalar) []
      unfold TSeq.Inv
      simp only [Seq.empty]
      rw [hL]
      refine ⟨⟨utf8Enc c, true⟩, hall c (List.mem_filter.2 ⟨mem_classElems hin, hsc⟩), ?_⟩
      simp only [Lit.ok]
      exact hsl

/-! ### repetitions -/

theorem inv_singleton_empty (p : Bool) : (TSeq.mk (Seq.singleton ⟨[], true⟩) p).Inv [] := by
  refine ⟨⟨[], true⟩, by simp, ?_⟩
  cases p <;> simp [Lit.ok]

/-- all `n` iterations are crossed (or the loop stopped on an all-inexact sequence) -/
theorem inv_crossLoop_full {lk : LookFn} {sub : Hir} {T : TSeq} {hay : Bytes}
    (hsub : ∀ s e, Matches lk sub hay s e → T.Inv (slice hay s e)) :
    ∀ (n : Nat) (seq : TSeq) (s0 s e : Nat), s0 ≤ s → MatchesRep lk sub hay n s e →
      seq.Inv (slice hay s0 s) → (crossLoop T n seq).Inv (slice hay s0 e) := by
  intro n
  induction n with
  | zero =>
    intro seq s0 s e _ hr hseq
    cases hr
    exact hseq
  | succ n ih =>
    intro seq s0 s e hs0 hr hseq
    cases hr with
    | succ h1 h2 =>
      rename_i m
      have a := Matches.span h1
      have b := MatchesRep.span h2
      simp only [crossLoop]
      split
      · rename_i hi
        rw [slice_append hay s0 s e hs0 (by omega)]
        exact TSeq.inv_ext hi hseq
      · apply ih (exCross seq T) s0 m e (by omega) h2
        rw [slice_append hay s0 s m hs0 a.1]
        exact inv_exCross hseq (hsub s m h1)

/-- only the first `k ≤ n` iterations are crossed; the result is then made inexact -/
theorem inv_crossLoop_part {lk : LookFn} {sub : Hir} {T : TSeq} {hay : Bytes}
    (hsub : ∀ s e, Matches lk sub hay s e → T.Inv (slice hay s e)) :
    ∀ (k n : Nat) (seq : TSeq) (s0 s e : Nat), k ≤ n → s0 ≤ s → MatchesRep lk sub hay n s e →
      seq.Inv (slice hay s0 s) → (crossLoop T k seq).makeInexact.Inv (slice hay s0 e) := by
  intro k
  induction k with
  | zero =>
    intro n seq s0 s e _ hs0 hr hseq
    have b := MatchesRep.span hr
    simp only [crossLoop]
    rw [slice_append hay s0 s e hs0 b.1]
    exact TSeq.inv_ext (Seq.makeInexact_isInexact _) (TSeq.inv_makeInexact hseq)
  | succ k ih =>
    intro n seq s0 s e hk hs0 hr hseq
    cases hr with
    | zero _ => omega
    | succ h1 h2 =>
      rename_i n' m
      have a := Matches.span h1
      have b := MatchesRep.span h2
      simp only [crossLoop]
      split
      · rw [slice_append hay s0 s e hs0 (by omega)]
        exact TSeq.inv_ext (Seq.makeInexact_isInexact _) (TSeq.inv_makeInexact hseq)
      · apply ih n' (exCross seq T) s0 m e (by omega) (by omega) h2
        rw [slice_append hay s0 s m hs0 a.1]
        exact inv_exCross hseq (hsub s m h1)

/-- at least one iteration: the (inexact) literals of the first iteration -/
theorem inv_rep_first {lk : LookFn} {sub : Hir} {T : TSeq} {hay : Bytes}
    (hsub : ∀ s e, Matches lk sub hay s e → T.Inv (slice hay s e))
    {n s e : Nat} (hn : 1 ≤ n) (hr : MatchesRep lk sub hay n s e) : T.makeInexact.Inv (slice hay s e) := by
  cases hr with
  | zero _ => omega
  | succ h1 h2 =>
    rename_i n' m
    have a := Matches.span h1
    have b := MatchesRep.span h2
    rw [slice_append hay s m e a.1 b.1]
    exact TSeq.inv_ext (Seq.makeInexact_isInexact _) (TSeq.inv_makeInexact (hsub s m h1))

theorem inv_extractRepetition {lk : LookFn} {sub : Hir} {T : TSeq} {hay : Bytes}
    (hsub : ∀ s e, Matches lk sub hay s e → T.Inv (slice hay s e))
    {min : Nat} {max : Option Nat} {greedy : Bool} {s e : Nat}
    (hm : Matches lk (.rep min max greedy sub) hay s e) :
    (extractRepetition min max greedy T).Inv (slice hay s e) := by
  cases hm with
  | rep n hmin hmax hr =>
    unfold extractRepetition
    split
    · -- min = 0
      have key : (if (max != some 1) = true then T.makeInexact else T).Inv (slice hay s e) ∨
          (TSeq.singleton ⟨[], true⟩).Inv (slice hay s e) := by
        cases n with
        | zero =>
          right
          cases hr
          rw [slice_self]
          exact inv_singleton_empty true
        | succ n' =>
          left
          split
          · exact inv_rep_first hsub (by omega) hr
          · rename_i hmax1
            have hmx : max = some 1 := by simpa using hmax1
            have := hmax 1 hmx
            have hn' : n' = 0 := by omega
            subst hn'
            cases hr with
            | succ h1 h2 =>
              cases h2
              exact hsub _ _ h1
      simp only
      split
      · rcases key with k | k
        · exact inv_exUnion_left k
        · exact inv_exUnion_right k
      · rcases key with k | k
        · exact inv_exUnion_right k
        · exact inv_exUnion_left k
    · rename_i hmin0
      have hmin0' : min ≠ 0 := by simpa using hmin0
      split
      · rename_i mx
        have hnmx := hmax mx rfl
        split
        · rename_i heq
          have heq' : min = mx := by simpa using heq
          have hn : n = min := by omega
          simp only
          split
          · exact inv_crossLoop_part hsub _ n _ s s e (Nat.le_trans (Nat.min_le_left _ _) (by omega)) (Nat.le_refl _) hr
              (by rw [slice_self]; exact inv_singleton_empty true)
          · rename_i hle
            have hk : Nat.min min limitRepeat = n := by rw [hn]; exact Nat.min_eq_left (by omega)
            rw [hk]
            exact inv_crossLoop_full hsub n _ s s e (Nat.le_refl _) hr
              (by rw [slice_self]; exact inv_singleton_empty true)
        · split
          · exact inv_crossLoop_part hsub _ n _ s s e (Nat.le_trans (Nat.min_le_left _ _) (by omega)) (Nat.le_refl _) hr
              (by rw [slice_self]; exact inv_singleton_empty true)
          · exact inv_rep_first hsub (by omega) hr
      · exact inv_rep_first hsub (by omega) hr

/-! ### the induction over the HIR -/

def PrevInv (prev : Option TSeq) (w : Bytes) : Prop :=
  match prev with
  | none => True
  | some p => p.InvI w

theorem PrevInv.ext {prev : Option TSeq} {w w2 : Bytes} (h : PrevInv prev w) : PrevInv prev (w ++ w2) := by
  cases prev with
  | none => trivial
  | some p => exact TSeq.invI_ext h

theorem inv_of_not_finite {t : TSeq} {w : Bytes} (h : (!t.seq.isFinite) = true) : t.Inv w := by
  unfold TSeq.Inv
  cases hs : t.seq with
  | none => trivial
  | some L => simp [Seq.isFinite, hs] at h

theorem inv_restart (w : Bytes) : (TSeq.mk (Seq.singleton ⟨[], true⟩) false).Inv w :=
  ⟨⟨[], true⟩, by simp [Seq.singleton], by simp [Lit.ok]⟩

/-- the union loop never loses what the sequence already covers -/
theorem extractAlt_keep : ∀ (xs : HirList) (seq : TSeq) (w : Bytes), seq.Inv w → (extractAlt xs seq).Inv w
  | .nil, seq, w, h => by simpa [extractAlt] using h
  | .cons h t, seq, w, hs => by
      simp only [extractAlt]
      split
      · exact hs
      · exact extractAlt_keep t _ w (inv_exUnion_left hs)

mutual
/-- **`extract_inv`**: for every HIR and every match of it, the extracted sequence satisfies the
invariant for the matched word. -/
theorem extract_inv {lk : LookFn} : ∀ (h : Hir) {hay : Bytes} {s e : Nat},
    Matches lk h hay s e → (extract h).Inv (slice hay s e)
  | .empty, _, _, _, .empty _ => by
      rw [slice_self]; exact inv_singleton_empty true
  | .look _, _, _, _, .look _ _ => by
      rw [slice_self]; exact inv_singleton_empty true
  | .lit bs, _, _, _, .lit _ hsl => by
      simp only [extract]
      apply TSeq.inv_enforce
      exact ⟨⟨bs, true⟩, by simp [TSeq.singleton, Seq.singleton], by simp [Lit.ok, TSeq.singleton, hsl]⟩
  | .classU rs, _, _, _, hm => by
      simp only [extract]; exact inv_extractClassUnicode hm
  | .classB rs, _, _, _, hm => by
      simp only [extract]; exact inv_extractClassBytes hm
  | .rep min max greedy sub, hay, _, _, hm => by
      simp only [extract]
      exact inv_extractRepetition (fun s e h => extract_inv sub h) hm
  | .cap _ sub, _, _, _, .cap hm => by
      simp only [extract]; exact extract_inv sub hm
  | .concat xs, hay, s, e, .concat hm => by
      simp only [extract]
      exact extractConcat_inv xs _ none (Nat.le_refl s) hm (by rw [slice_self]; exact inv_singleton_empty true) trivial
  | .alt xs, _, _, _, .alt hm => by
      simp only [extract]; exact extractAlt_inv xs _ hm
theorem extractConcat_inv {lk : LookFn} : ∀ (xs : HirList) (seq : TSeq) (prev : Option TSeq)
    {hay : Bytes} {s0 s e : Nat}, s0 ≤ s → MatchesSeq lk xs hay s e →
    seq.Inv (slice hay s0 s) → PrevInv prev (slice hay s0 s) → (extractConcat xs seq prev).Inv (slice hay s0 e)
  | .nil, seq, prev, _, _, _, _, _, .nil _, hseq, hprev => by
      simp only [extractConcat]
      split
      · rename_i p
        exact TSeq.inv_choose (TSeq.inv_makeInexact hprev.2) (TSeq.inv_makeInexact hseq)
      · exact hseq
  | .cons h t, seq, prev, hay, s0, s, e, hs0, .cons (m := m) h1 h2, hseq, hprev => by
      have a := Matches.span h1
      have b := MatchesSeq.span h2
      simp only [extractConcat]
      split
      · rename_i hi
        have hfull : seq.Inv (slice hay s0 e) := by
          rw [slice_append hay s0 s e hs0 (by omega)]
          exact TSeq.inv_ext hi hseq
        split
        · exact hfull
        · split
          · exact hfull
          · apply extractConcat_inv t _ _ (by omega : s0 ≤ m) h2
            · rw [slice_append hay s0 s m hs0 a.1]
              exact inv_exCross (inv_restart _) (extract_inv h h1)
            · rw [slice_append hay s0 s m hs0 a.1]
              apply TSeq.invI_ext
              cases prev with
              | none => exact ⟨hi, hseq⟩
              | some p =>
                exact ⟨TSeq.choose_isInexact _ _,
                  TSeq.inv_choose (TSeq.inv_makeInexact hprev.2) (TSeq.inv_makeInexact hseq)⟩
      · apply extractConcat_inv t _ _ (by omega : s0 ≤ m) h2
        · rw [slice_append hay s0 s m hs0 a.1]
          exact inv_exCross hseq (extract_inv h h1)
        · rw [slice_append hay s0 s m hs0 a.1]
          exact hprev.ext
theorem extractAlt_inv {lk : LookFn} : ∀ (xs : HirList) (seq : TSeq) {hay : Bytes} {s e : Nat},
    MatchesAny lk xs hay s e → (extractAlt xs seq).Inv (slice hay s e)
  | .cons h t, seq, _, _, _, .head h1 => by
      simp only [extractAlt]
      split
      · rename_i hf; exact inv_of_not_finite hf
      · exact extractAlt_keep t _ _ (inv_exUnion_right (extract_inv h h1))
  | .cons h t, seq, _, _, _, .tail h1 => by
      simp only [extractAlt]
      split
      · rename_i hf; exact inv_of_not_finite hf
      · exact extractAlt_inv t _ h1
end

end RgVerif.Rx
