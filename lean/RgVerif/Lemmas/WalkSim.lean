import RgVerif.Model.WalkEvents
import RgVerif.Lemmas.WalkSerialGen
/-
C06: the operational serial model (walkdir `IntoIter` + `WalkEventIter` + `Walk::next` as state
machines, `Model/WalkEvents.lean`) computes what the recursive serial model computes.
-/
namespace RgVerif.Walk

theorem cfg_with_follow (cfg : Cfg) : { cfg with followLinks := cfg.followLinks } = cfg := by
  cases cfg; rfl

/-- The iterator state during the listing of a root's contents. -/
def mkIt (cfg : Cfg) (rd : Option Nat) (stack : List Frame) (sp : List Nat) (D : Nat)
    (peek : Option WdItem) : EvIter :=
  { wd := { start := none, s := ⟨stack, sp⟩, rootDev := rd, follow := cfg.followLinks },
    depth := D, next := peek }

def popSp (cfg : Cfg) (sp : List Nat) : List Nat := if cfg.followLinks then sp.tail else sp

/-! ### `handle_entry` in terms of the recursive model's `wdHandle` (depth > 0) -/

theorem handleEntry_err (cfg : Cfg) (forest : List Node) (rd : Option Nat) (s : WdS) (depth : Nat)
    (pp : Path) (k : Node) (e : Out)
    (h : wdHandle cfg forest s.sp rd (pp ++ [k.name]) k = .error e) :
    handleEntry cfg forest rd cfg.followLinks s depth pp k = (.err e depth, s) := by
  unfold wdHandle at h
  unfold handleEntry
  cases hf : followEntry cfg forest s.sp (pp ++ [k.name]) k with
  | error e' => simp only [hf] at h ⊢; cases h; rfl
  | ok v => simp only [hf] at h; cases v <;> simp at h

theorem handleEntry_dir (cfg : Cfg) (forest : List Node) (rd : Option Nat) (s : WdS) (depth : Nat)
    (hd : 0 < depth) (pp : Path) (k : Node) (d : DirView) (via pushed : Bool)
    (h : wdHandle cfg forest s.sp rd (pp ++ [k.name]) k = .ok (.dir d via, pushed)) :
    handleEntry cfg forest rd cfg.followLinks s depth pp k =
      (.ok ⟨pp ++ [k.name], depth, .dir d via, some d⟩,
        if pushed then s.push cfg.followLinks (pp ++ [k.name]) d else s) := by
  unfold wdHandle at h
  unfold handleEntry
  cases hf : followEntry cfg forest s.sp (pp ++ [k.name]) k with
  | error e' => simp only [hf] at h; cases h
  | ok v =>
    simp only [hf] at h ⊢
    cases v with
    | dir d' via' =>
      simp only [Except.ok.injEq, Prod.mk.injEq, View.dir.injEq] at h
      obtain ⟨⟨h1, h2⟩, h3⟩ := h
      subst h1 h2 h3
      have : decide (0 < depth) = true := by simpa using hd
      simp only [this, Bool.and_true]
      cases cfg.sameFs <;> simp
    | file sz => simp at h
    | symlink l => simp at h
    | broken => simp at h

theorem handleEntry_other (cfg : Cfg) (forest : List Node) (rd : Option Nat) (s : WdS) (depth : Nat)
    (hd : 0 < depth) (pp : Path) (k : Node) (v : View) (pushed : Bool) (hv : v.isDir = false)
    (h : wdHandle cfg forest s.sp rd (pp ++ [k.name]) k = .ok (v, pushed)) :
    handleEntry cfg forest rd cfg.followLinks s depth pp k =
      (.ok ⟨pp ++ [k.name], depth, v, none⟩, s) := by
  unfold wdHandle at h
  unfold handleEntry
  cases hf : followEntry cfg forest s.sp (pp ++ [k.name]) k with
  | error e' => simp only [hf] at h; cases h
  | ok v' =>
    simp only [hf] at h ⊢
    have hne : depth ≠ 0 := by omega
    cases v' with
    | dir d' via' =>
      simp only [Except.ok.injEq, Prod.mk.injEq] at h
      rw [← h.1] at hv; simp [View.isDir] at hv
    | file sz => simp only [Except.ok.injEq, Prod.mk.injEq] at h; rw [← h.1]
    | symlink l => simp only [Except.ok.injEq, Prod.mk.injEq] at h; rw [← h.1]; simp [hne]
    | broken => simp only [Except.ok.injEq, Prod.mk.injEq] at h; rw [← h.1]

/-! ### Single steps of the machines -/

section
variable (cfg : Cfg) (forest : List Node) (rd : Option Nat)

theorem wdLoop_exhausted (pp : Path) (below : List Frame) (sp : List Nat) :
    wdLoop cfg forest rd cfg.followLinks (⟨pp, []⟩ :: below) sp =
      wdLoop cfg forest rd cfg.followLinks below (popSp cfg sp) := by
  simp only [wdLoop, popSp]
  split <;> simp

theorem wdLoop_over (fr : Frame) (below : List Frame) (sp : List Nat)
    (h : depthOk cfg below.length = false) :
    wdLoop cfg forest rd cfg.followLinks (fr :: below) sp =
      wdLoop cfg forest rd cfg.followLinks below (popSp cfg sp) := by
  unfold depthOk at h
  simp only [wdLoop, popSp]
  cases hm : cfg.maxDepth with
  | none => simp [hm] at h
  | some m =>
    simp only [hm, decide_eq_false_iff_not, Nat.not_lt] at h
    have : decide (m < below.length + 1) = true := by simp; omega
    simp [this]

theorem wdLoop_item (pp : Path) (k : Node) (ks : List Node) (below : List Frame) (sp : List Nat)
    (h : depthOk cfg below.length = true) :
    wdLoop cfg forest rd cfg.followLinks (⟨pp, k :: ks⟩ :: below) sp =
      (some (handleEntry cfg forest rd cfg.followLinks ⟨⟨pp, ks⟩ :: below, sp⟩ (below.length + 1) pp k).1,
        (handleEntry cfg forest rd cfg.followLinks ⟨⟨pp, ks⟩ :: below, sp⟩ (below.length + 1) pp k).2) := by
  unfold depthOk at h
  simp only [wdLoop]
  cases hm : cfg.maxDepth with
  | none => simp
  | some m =>
    simp only [hm, decide_eq_true_eq] at h
    have : decide (m < below.length + 1) = false := by simp; omega
    simp [this]

/-- Reading ahead does not change what the event iterator does. -/
theorem evNext_peek (stack : List Frame) (sp : List Nat) (D : Nat) (item : WdItem) (s' : WdS)
    (h : wdLoop cfg forest rd cfg.followLinks stack sp = (some item, s')) :
    evNext cfg forest (mkIt cfg rd stack sp D none) =
      evNext cfg forest (mkIt cfg rd s'.stack s'.sp D (some item)) := by
  obtain ⟨st, sp'⟩ := s'
  simp only [evNext, mkIt, wdNext, h]
  rfl

theorem walkLoop_peek (stack : List Frame) (sp : List Nat) (D : Nat) (item : WdItem) (s' : WdS)
    (h : wdLoop cfg forest rd cfg.followLinks stack sp = (some item, s'))
    (m : Nat) (ig : List Anc) (acc : List Out) :
    walkLoop cfg forest m (mkIt cfg rd stack sp D none) ig acc =
      walkLoop cfg forest m (mkIt cfg rd s'.stack s'.sp D (some item)) ig acc := by
  cases m with
  | zero => rfl
  | succ m => simp only [walkLoop, evNext_peek cfg forest rd stack sp D item s' h]

/-- Two stacks on which walkdir's loop does the same are indistinguishable. -/
theorem walkLoop_wdLoop_congr (st1 st2 : List Frame) (sp1 sp2 : List Nat) (D : Nat)
    (h : wdLoop cfg forest rd cfg.followLinks st1 sp1 = wdLoop cfg forest rd cfg.followLinks st2 sp2)
    (m : Nat) (ig : List Anc) (acc : List Out) :
    walkLoop cfg forest m (mkIt cfg rd st1 sp1 D none) ig acc =
      walkLoop cfg forest m (mkIt cfg rd st2 sp2 D none) ig acc := by
  cases m with
  | zero => rfl
  | succ m =>
    have : evNext cfg forest (mkIt cfg rd st1 sp1 D none) = evNext cfg forest (mkIt cfg rd st2 sp2 D none) := by
      cases h2 : wdLoop cfg forest rd cfg.followLinks st2 sp2 with
      | mk item s' =>
        rw [h2] at h
        simp only [evNext, mkIt, wdNext, h, h2]
    simp only [walkLoop, this]

def WdItem.depth : WdItem → Nat
  | .ok d => d.depth
  | .err _ dp => dp

/-- Pending `Exit` events are delivered before the item that was read ahead. -/
theorem walkLoop_flush (stack : List Frame) (sp : List Nat) (item : WdItem) :
    ∀ (k m : Nat) (ig : List Anc) (acc : List Out),
      walkLoop cfg forest (k + m) (mkIt cfg rd stack sp (item.depth + k) (some item)) ig acc =
        walkLoop cfg forest m (mkIt cfg rd stack sp item.depth (some item)) (ig.drop k) acc := by
  intro k
  induction k with
  | zero => intro m ig acc; simp
  | succ k ih =>
    intro m ig acc
    rw [show k + 1 + m = (k + m) + 1 by omega]
    have hev : evNext cfg forest (mkIt cfg rd stack sp (item.depth + (k + 1)) (some item)) =
        (some .exit, mkIt cfg rd stack sp (item.depth + k) (some item)) := by
      simp only [evNext, mkIt]
      have : item.depth < item.depth + (k + 1) := by omega
      cases item with
      | ok d => simp only [WdItem.depth] at this ⊢; simp [this]
      | err o dp => simp only [WdItem.depth] at this ⊢; simp [this]
    simp only [walkLoop, hev]
    rw [ih m ig.tail acc]
    simp

theorem walkLoop_err (stack : List Frame) (sp : List Nat) (o : Out) (e m : Nat) (ig : List Anc)
    (acc : List Out) :
    walkLoop cfg forest (m + 1) (mkIt cfg rd stack sp e (some (.err o e))) ig acc =
      walkLoop cfg forest m (mkIt cfg rd stack sp e none) ig (o :: acc) := by
  simp [walkLoop, evNext, mkIt]

/-- The stack is empty: the remaining `Exit`s are delivered and the iterator ends. -/
theorem walkLoop_drain (sp : List Nat) : ∀ (D m : Nat) (ig : List Anc) (acc : List Out),
    walkLoop cfg forest (D + 1 + m) (mkIt cfg rd [] sp D none) ig acc = some acc.reverse := by
  intro D
  induction D with
  | zero =>
    intro m ig acc
    rw [show 0 + 1 + m = m + 1 by omega]
    simp [walkLoop, evNext, mkIt, wdNext, wdLoop]
  | succ D ih =>
    intro m ig acc
    rw [show D + 1 + 1 + m = (D + 1 + m) + 1 by omega]
    have hev : evNext cfg forest (mkIt cfg rd [] sp (D + 1) none) =
        (some .exit, mkIt cfg rd [] sp D none) := by
      simp [evNext, mkIt, wdNext, wdLoop]
    simp only [walkLoop, hev]
    exact ih m ig.tail acc

end

/-! ### The simulation statements -/

/-- The machine lists the frame `⟨pp, ks⟩` lying on `below` and reports `out` while doing so
(`igL` = the `ig` stack at the level of this frame; more may be stacked on it: pending `Exit`s). -/
def SimK (cfg : Cfg) (forest : List Node) (rd : Option Nat) (out : List Out) (pp : Path)
    (ks : List Node) (below : List Frame) (sp : List Nat) (igL : List Anc) : Prop :=
  ∀ (D : Nat) (ig : List Anc) (acc : List Out),
    below.length + 1 ≤ D → ig.length = D → ig.drop (D - (below.length + 1)) = igL →
    ∃ n D' ig', below.length + 1 ≤ D' ∧ ig'.length = D' ∧ ig'.drop (D' - (below.length + 1)) = igL ∧
      ∀ m, walkLoop cfg forest (n + m) (mkIt cfg rd (⟨pp, ks⟩ :: below) sp D none) ig acc =
        walkLoop cfg forest m (mkIt cfg rd below (popSp cfg sp) D' none) ig' (out.reverse ++ acc)

/-- The machine handles the first item `k` of the frame `⟨pp, k :: ks⟩` and everything below it. -/
def SimE (cfg : Cfg) (forest : List Node) (rd : Option Nat) (out : List Out) (abort : Bool) (pp : Path)
    (k : Node) (ks : List Node) (below : List Frame) (sp : List Nat) (igL : List Anc) : Prop :=
  ∀ (D : Nat) (ig : List Anc) (acc : List Out),
    below.length + 1 ≤ D → ig.length = D → ig.drop (D - (below.length + 1)) = igL →
    ∃ n D' ig', below.length + 1 ≤ D' ∧ ig'.length = D' ∧ ig'.drop (D' - (below.length + 1)) = igL ∧
      ∀ m, walkLoop cfg forest (n + m) (mkIt cfg rd (⟨pp, k :: ks⟩ :: below) sp D none) ig acc =
        walkLoop cfg forest m
          (if abort then mkIt cfg rd below (popSp cfg sp) D' none
           else mkIt cfg rd (⟨pp, ks⟩ :: below) sp D' none) ig' (out.reverse ++ acc)

/-- What `Walk::next` makes of one walkdir item, given what the contents of a followed / real
directory produce (`outC`). -/
def entryRes (cfg : Cfg) (igL : List Anc) (depth : Nat) (p : Path) (name : Name)
    (res : Except Out (View × Bool)) (outC : DirView → List Out) : List Out × Bool :=
  match res with
  | .error e => ([e], false)
  | .ok (dent, pushed) =>
    match dent with
    | .dir d _ =>
      if skipEntry cfg igL p name dent then ([], false)
      else if pushed && depthOk cfg (depth + 1) then (.entry p :: outC d, false)
      else ([.entry p], false)
    | _ => if skipEntry cfg igL p name dent then ([], false) else ([.entry p], false)

theorem getLast_snoc (pp : Path) (x : Name) : (pp ++ [x]).getLast?.getD 0 = x := by simp

theorem popSp_push (cfg : Cfg) (x : Nat) (sp : List Nat) :
    popSp cfg (if cfg.followLinks then x :: sp else sp) = sp := by
  unfold popSp
  cases cfg.followLinks <;> simp

theorem drop_succ_of_drop_cons {α : Type} (l : List α) (a : Nat) (x : α) (t : List α)
    (h : l.drop a = x :: t) : l.drop (a + 1) = t := by
  rw [← List.drop_drop, h]; rfl

theorem length_drop_eq {α : Type} (l : List α) (D L : Nat) (h : l.length = D) (hL : L ≤ D) :
    (l.drop (D - L)).length = L := by
  rw [List.length_drop, h]; omega

section
variable (cfg : Cfg) (forest : List Node) (rd : Option Nat)

theorem walkLoop_dir (stack : List Frame) (sp : List Nat) (dd : Dent) (info : DirView)
    (hdir : dd.dir = some info) (m : Nat) (ig : List Anc) (acc : List Out) :
    walkLoop cfg forest (m + 1) (mkIt cfg rd stack sp dd.depth (some (.ok dd))) ig acc =
      if (decide (dd.depth ≠ rootDepth) && skipEntry cfg ig dd.path (dd.path.getLast?.getD 0) dd.view) = true then
        walkLoop cfg forest m
          (mkIt cfg rd
            (if !(cfg.sameFs && decide (dd.depth ≠ rootDepth) && !devOk rd info.dev) then
              WdS.pop cfg.followLinks ⟨stack, sp⟩ else ⟨stack, sp⟩).stack
            (if !(cfg.sameFs && decide (dd.depth ≠ rootDepth) && !devOk rd info.dev) then
              WdS.pop cfg.followLinks ⟨stack, sp⟩ else ⟨stack, sp⟩).sp
            (dd.depth + 1) none) ((info.ino, info.ign) :: ig) acc
      else
        walkLoop cfg forest m (mkIt cfg rd stack sp (dd.depth + 1) none) ((info.ino, info.ign) :: ig)
          (.entry dd.path :: acc) := by
  have hev : evNext cfg forest (mkIt cfg rd stack sp dd.depth (some (.ok dd))) =
      (some (.dir dd info), mkIt cfg rd stack sp (dd.depth + 1) none) := by
    simp [evNext, mkIt, hdir]
  simp only [walkLoop, hev]
  split <;> rfl

theorem walkLoop_file (stack : List Frame) (sp : List Nat) (dd : Dent)
    (hdir : dd.dir = none) (m : Nat) (ig : List Anc) (acc : List Out) :
    walkLoop cfg forest (m + 1) (mkIt cfg rd stack sp dd.depth (some (.ok dd))) ig acc =
      if (decide (dd.depth ≠ rootDepth) && skipEntry cfg ig dd.path (dd.path.getLast?.getD 0) dd.view) = true then
        walkLoop cfg forest m (mkIt cfg rd stack sp dd.depth none) ig acc
      else walkLoop cfg forest m (mkIt cfg rd stack sp dd.depth none) ig (.entry dd.path :: acc) := by
  have hev : evNext cfg forest (mkIt cfg rd stack sp dd.depth (some (.ok dd))) =
      (some (.file dd), mkIt cfg rd stack sp dd.depth none) := by
    simp [evNext, mkIt, hdir]
  simp only [walkLoop, hev]

/-- From the frame `⟨pp, k :: ks⟩` to the point where the item `k` has been read and the pending
`Exit`s have been delivered. -/
theorem reach_item (pp : Path) (k : Node) (ks : List Node) (below : List Frame) (sp : List Nat)
    (hdep : depthOk cfg below.length = true) (item : WdItem) (s' : WdS)
    (hh : handleEntry cfg forest rd cfg.followLinks ⟨⟨pp, ks⟩ :: below, sp⟩ (below.length + 1) pp k = (item, s'))
    (hid : item.depth = below.length + 1)
    (D : Nat) (ig : List Anc) (acc : List Out) (hD : below.length + 1 ≤ D) (m : Nat) :
    walkLoop cfg forest ((D - (below.length + 1)) + m) (mkIt cfg rd (⟨pp, k :: ks⟩ :: below) sp D none) ig acc =
      walkLoop cfg forest m (mkIt cfg rd s'.stack s'.sp (below.length + 1) (some item))
        (ig.drop (D - (below.length + 1))) acc := by
  have h1 := wdLoop_item cfg forest rd pp k ks below sp hdep
  rw [hh] at h1
  rw [walkLoop_peek cfg forest rd _ sp D item s' h1]
  have := walkLoop_flush cfg forest rd s'.stack s'.sp item (D - (below.length + 1)) m ig acc
  rw [hid, show below.length + 1 + (D - (below.length + 1)) = D by omega] at this
  exact this

/-- The core of the simulation: one item of a frame, given that the machine simulates the contents
of the directory the item may denote. -/
theorem simE_gen (pp : Path) (k : Node) (ks : List Node) (below : List Frame) (sp : List Nat)
    (igL : List Anc) (hdep : depthOk cfg below.length = true) (outC : DirView → List Out)
    (hC : ∀ d via, wdHandle cfg forest sp rd (pp ++ [k.name]) k = .ok (.dir d via, true) →
      depthOk cfg (below.length + 1) = true →
      SimK cfg forest rd (outC d) (pp ++ [k.name]) d.kids (⟨pp, ks⟩ :: below)
        (if cfg.followLinks then d.ino :: sp else sp) ((d.ino, d.ign) :: igL)) :
    SimE cfg forest rd
      (entryRes cfg igL below.length (pp ++ [k.name]) k.name
        (wdHandle cfg forest sp rd (pp ++ [k.name]) k) outC).1
      (entryRes cfg igL below.length (pp ++ [k.name]) k.name
        (wdHandle cfg forest sp rd (pp ++ [k.name]) k) outC).2 pp k ks below sp igL := by
  intro D ig acc hD hlen hdrop
  have hL : 0 < below.length + 1 := by omega
  have higL : igL.length = below.length + 1 := by rw [← hdrop]; exact length_drop_eq ig D _ hlen hD
  cases hw : wdHandle cfg forest sp rd (pp ++ [k.name]) k with
  | error e =>
    have hh := handleEntry_err cfg forest rd ⟨⟨pp, ks⟩ :: below, sp⟩ (below.length + 1) pp k e hw
    refine ⟨(D - (below.length + 1)) + 1, below.length + 1, igL, Nat.le_refl _, higL, by simp, ?_⟩
    intro m
    rw [Nat.add_assoc, reach_item cfg forest rd pp k ks below sp hdep _ _ hh rfl D ig acc hD (1 + m), hdrop,
      Nat.add_comm 1 m, walkLoop_err]
    simp [entryRes]
  | ok res =>
    obtain ⟨dent, pushed⟩ := res
    cases dent with
    | dir d via =>
      have hh := handleEntry_dir cfg forest rd ⟨⟨pp, ks⟩ :: below, sp⟩ (below.length + 1) hL pp k d via pushed hw
      have hri := fun m => reach_item cfg forest rd pp k ks below sp hdep _ _ hh rfl D ig acc hD (m + 1)
      simp only [hdrop] at hri
      have hdirstep := fun (st : List Frame) (sp' : List Nat) m =>
        walkLoop_dir cfg forest rd st sp' ⟨pp ++ [k.name], below.length + 1, .dir d via, some d⟩ d rfl m igL acc
      simp only [getLast_snoc] at hdirstep
      have hne : decide (below.length + 1 ≠ rootDepth) = true := by simp [rootDepth]
      simp only [hne, Bool.true_and] at hdirstep
      cases hsk : skipEntry cfg igL (pp ++ [k.name]) k.name (.dir d via) with
      | true =>
        -- skipped: skip_current_dir pops the top list
        refine ⟨(D - (below.length + 1)) + 1, below.length + 1 + 1, (d.ino, d.ign) :: igL, by omega,
          by simp [higL], by simp, ?_⟩
        intro m
        rw [Nat.add_assoc, Nat.add_comm 1 m, hri m, hdirstep, hsk]
        simp only [if_true, entryRes, hsk]
        have hpush : pushed = (!cfg.sameFs || devOk rd d.dev) := by
          unfold wdHandle at hw
          cases hf : followEntry cfg forest sp (pp ++ [k.name]) k with
          | error e => simp only [hf] at hw; cases hw
          | ok v =>
            simp only [hf] at hw
            cases v <;> simp at hw
            rw [← hw.2, hw.1.1]
        subst hpush
        cases cfg.sameFs <;> cases devOk rd d.dev <;> simp [WdS.pop, WdS.push, popSp, mkIt] <;>
          (cases cfg.followLinks <;> simp)
      | false =>
        simp only [hsk, Bool.false_eq_true, if_false] at hdirstep
        cases hpd : (pushed && depthOk cfg (below.length + 1)) with
        | true =>
          simp only [Bool.and_eq_true] at hpd
          obtain ⟨hp, hdo⟩ := hpd
          subst hp
          have hK := hC d via hw hdo (below.length + 1 + 1) ((d.ino, d.ign) :: igL)
            (.entry (pp ++ [k.name]) :: acc) (by simp) (by simp [higL]) (by simp)
          obtain ⟨n2, D2, ig2, h1, h2, h3, h4⟩ := hK
          simp only [List.length_cons] at h1 h3
          refine ⟨(D - (below.length + 1)) + 1 + n2, D2, ig2, by omega, h2, ?_, ?_⟩
          · have := drop_succ_of_drop_cons ig2 _ _ _ h3
            rw [show D2 - (below.length + 1 + 1) + 1 = D2 - (below.length + 1) by omega] at this
            exact this
          · intro m
            rw [show D - (below.length + 1) + 1 + n2 + m = (D - (below.length + 1)) + ((n2 + m) + 1) by omega,
              hri (n2 + m), hdirstep]
            simp only [if_true, WdS.push]
            rw [h4 m, popSp_push]
            simp [entryRes, hsk, hdo]
        | false =>
          -- the entry is reported; its directory is not listed (not pushed, or pushed beyond max_depth)
          refine ⟨(D - (below.length + 1)) + 1, below.length + 1 + 1, (d.ino, d.ign) :: igL, by omega,
            by simp [higL], by simp, ?_⟩
          intro m
          rw [Nat.add_assoc, Nat.add_comm 1 m, hri m, hdirstep]
          simp only [entryRes, hsk, hpd, Bool.false_eq_true, if_false]
          cases pushed with
          | false => simp
          | true =>
            simp only [Bool.true_and] at hpd
            simp only [if_true, WdS.push, List.reverse_cons, List.reverse_nil, List.nil_append,
              List.singleton_append]
            have := walkLoop_wdLoop_congr cfg forest rd (⟨pp ++ [k.name], d.kids⟩ :: ⟨pp, ks⟩ :: below)
              (⟨pp, ks⟩ :: below) (if cfg.followLinks then d.ino :: sp else sp) sp (below.length + 1 + 1)
              (by rw [wdLoop_over cfg forest rd _ _ _ (by simpa using hpd), popSp_push]) m
              ((d.ino, d.ign) :: igL) (.entry (pp ++ [k.name]) :: acc)
            exact this
    | file sz =>
      have hh := handleEntry_other cfg forest rd ⟨⟨pp, ks⟩ :: below, sp⟩ (below.length + 1) hL pp k _ pushed rfl hw
      have hri := fun m => reach_item cfg forest rd pp k ks below sp hdep _ _ hh rfl D ig acc hD (m + 1)
      simp only [hdrop] at hri
      have hst := fun m =>
        walkLoop_file cfg forest rd (⟨pp, ks⟩ :: below) sp ⟨pp ++ [k.name], below.length + 1, .file sz, none⟩ rfl m igL acc
      simp only [getLast_snoc] at hst
      have hne : decide (below.length + 1 ≠ rootDepth) = true := by simp [rootDepth]
      simp only [hne, Bool.true_and] at hst
      refine ⟨(D - (below.length + 1)) + 1, below.length + 1, igL, Nat.le_refl _, higL, by simp, ?_⟩
      intro m
      rw [Nat.add_assoc, Nat.add_comm 1 m, hri m, hst]
      cases hsk : skipEntry cfg igL (pp ++ [k.name]) k.name (.file sz) <;> simp [entryRes, hsk]
    | symlink l =>
      have hh := handleEntry_other cfg forest rd ⟨⟨pp, ks⟩ :: below, sp⟩ (below.length + 1) hL pp k _ pushed rfl hw
      have hri := fun m => reach_item cfg forest rd pp k ks below sp hdep _ _ hh rfl D ig acc hD (m + 1)
      simp only [hdrop] at hri
      have hst := fun m =>
        walkLoop_file cfg forest rd (⟨pp, ks⟩ :: below) sp ⟨pp ++ [k.name], below.length + 1, .symlink l, none⟩ rfl m igL acc
      simp only [getLast_snoc] at hst
      have hne : decide (below.length + 1 ≠ rootDepth) = true := by simp [rootDepth]
      simp only [hne, Bool.true_and] at hst
      refine ⟨(D - (below.length + 1)) + 1, below.length + 1, igL, Nat.le_refl _, higL, by simp, ?_⟩
      intro m
      rw [Nat.add_assoc, Nat.add_comm 1 m, hri m, hst]
      cases hsk : skipEntry cfg igL (pp ++ [k.name]) k.name (.symlink l) <;> simp [entryRes, hsk]
    | broken =>
      have hh := handleEntry_other cfg forest rd ⟨⟨pp, ks⟩ :: below, sp⟩ (below.length + 1) hL pp k _ pushed rfl hw
      have hri := fun m => reach_item cfg forest rd pp k ks below sp hdep _ _ hh rfl D ig acc hD (m + 1)
      simp only [hdrop] at hri
      have hst := fun m =>
        walkLoop_file cfg forest rd (⟨pp, ks⟩ :: below) sp ⟨pp ++ [k.name], below.length + 1, .broken, none⟩ rfl m igL acc
      simp only [getLast_snoc] at hst
      have hne : decide (below.length + 1 ≠ rootDepth) = true := by simp [rootDepth]
      simp only [hne, Bool.true_and] at hst
      refine ⟨(D - (below.length + 1)) + 1, below.length + 1, igL, Nat.le_refl _, higL, by simp, ?_⟩
      intro m
      rw [Nat.add_assoc, Nat.add_comm 1 m, hri m, hst]
      cases hsk : skipEntry cfg igL (pp ++ [k.name]) k.name .broken <;> simp [entryRes, hsk]

end

/-! ### The recursive model in terms of `entryRes` -/

theorem wdHandle_dirnode (cfg : Cfg) (forest : List Node) (sp : List Nat) (rd : Option Nat) (p : Path)
    (name ino dev : Nat) (ign : List Name) (kids : List Node) :
    wdHandle cfg forest sp rd p (.dir name ino dev ign kids) =
      .ok (.dir ⟨ino, dev, ign, kids⟩ false, if cfg.sameFs then devOk rd dev else true) := by
  unfold wdHandle
  rw [followEntry_nolink _ _ _ _ _ rfl]
  rfl

theorem serEntry_res_dir (cfg : Cfg) (forest : List Node) (js : SerContents) (rd : Option Nat)
    (sp : List Nat) (ig : List Anc) (depth : Nat) (pp : Path) (name ino dev : Nat) (ign : List Name)
    (kids : List Node) :
    let r := serEntry cfg forest js rd sp ig depth pp (.dir name ino dev ign kids)
    (r.outs, r.abort) =
      entryRes cfg ig depth (pp ++ [name]) name
        (wdHandle cfg forest sp rd (pp ++ [name]) (.dir name ino dev ign kids))
        (fun _ => (serKids cfg forest js rd (if cfg.followLinks then ino :: sp else sp)
          ((ino, ign) :: ig) (depth + 1) (pp ++ [name]) kids).1) := by
  simp only []
  unfold serEntry
  rw [wdHandle_dirnode]
  simp only [entryRes]
  generalize (if cfg.sameFs then devOk rd dev else true) = pushed
  cases hsk : skipEntry cfg ig (pp ++ [name]) name (.dir ⟨ino, dev, ign, kids⟩ false) <;>
    cases hpd : (pushed && depthOk cfg (depth + 1)) <;> simp [hsk, hpd]

theorem serEntry_res_other (cfg : Cfg) (forest : List Node) (js : SerContents) (rd : Option Nat)
    (sp : List Nat) (ig : List Anc) (depth : Nat) (pp : Path) (k : Node)
    (hk : ∀ name ino dev ign kids, k ≠ .dir name ino dev ign kids) :
    let r := serEntry cfg forest js rd sp ig depth pp k
    (r.outs, r.abort) =
      entryRes cfg ig depth (pp ++ [k.name]) k.name (wdHandle cfg forest sp rd (pp ++ [k.name]) k)
        (fun d => (js (if cfg.followLinks then d.ino :: sp else sp) ((d.ino, d.ign) :: ig) (depth + 1)
          (pp ++ [k.name]) rd d.kids).1) := by
  simp only []
  cases k with
  | dir name ino dev ign kids => exact absurd rfl (hk name ino dev ign kids)
  | file name size =>
    unfold serEntry
    simp only [entryRes]
    split
    · rename_i e he; simp only [he]
    · rename_i dent pushed he
      simp only [he]
      split
      · rename_i d via
        simp only [Node.name]
        by_cases hsk : skipEntry cfg ig (pp ++ [name]) name (.dir d via) = true <;>
          by_cases hpd : (pushed && depthOk cfg (depth + 1)) = true <;> simp [hsk, hpd]
      · rename_i hnd
        cases dent with
        | dir d via => exact absurd rfl (hnd d via)
        | file sz => simp only []; split <;> rfl
        | symlink l => simp only []; split <;> rfl
        | broken => simp only []; split <;> rfl
  | link name len tgt =>
    unfold serEntry
    simp only [entryRes]
    split
    · rename_i e he; simp only [he]
    · rename_i dent pushed he
      simp only [he]
      split
      · rename_i d via
        simp only [Node.name]
        by_cases hsk : skipEntry cfg ig (pp ++ [name]) name (.dir d via) = true <;>
          by_cases hpd : (pushed && depthOk cfg (depth + 1)) = true <;> simp [hsk, hpd]
      · rename_i hnd
        cases dent with
        | dir d via => exact absurd rfl (hnd d via)
        | file sz => simp only []; split <;> rfl
        | symlink l => simp only []; split <;> rfl
        | broken => simp only []; split <;> rfl

/-! ### The simulation -/

/-- The machine simulates the jump function wherever fewer than `n` directories are free. -/
def HJ (cfg : Cfg) (forest : List Node) (rd : Option Nat) (js : SerContents) (n : Nat) : Prop :=
  ∀ (sp : List Nat) (igL : List Anc) (pp : Path) (ks : List Node) (below : List Frame),
    SpOk cfg sp igL → free forest igL < n → depthOk cfg below.length = true →
    SimK cfg forest rd (js sp igL below.length pp rd ks).1 pp ks below sp igL

theorem simK_nil (cfg : Cfg) (forest : List Node) (rd : Option Nat) (pp : Path) (below : List Frame)
    (sp : List Nat) (igL : List Anc) : SimK cfg forest rd [] pp [] below sp igL := by
  intro D ig acc hD hlen hdrop
  refine ⟨0, D, ig, hD, hlen, hdrop, ?_⟩
  intro m
  rw [Nat.zero_add]
  exact walkLoop_wdLoop_congr cfg forest rd _ _ _ _ D (wdLoop_exhausted cfg forest rd pp below sp) m ig acc

mutual
theorem simE (cfg : Cfg) (forest : List Node) (rd : Option Nat) (js : SerContents) (n : Nat)
    (hJ : HJ cfg forest rd js n) (hb : JBal js) (sp : List Nat) (igL : List Anc)
    (hsp : SpOk cfg sp igL) (hn : free forest igL ≤ n) (pp : Path) (below : List Frame)
    (hdep : depthOk cfg below.length = true) :
    (k : Node) → (ks : List Node) →
      SimE cfg forest rd (serEntry cfg forest js rd sp igL below.length pp k).outs
        (serEntry cfg forest js rd sp igL below.length pp k).abort pp k ks below sp igL
  | .dir name ino dev ign kids, ks => by
    have hres := serEntry_res_dir cfg forest js rd sp igL below.length pp name ino dev ign kids
    have hr1 := congrArg Prod.fst hres
    have hr2 := congrArg Prod.snd hres
    simp only [] at hr1 hr2
    rw [hr1, hr2]
    apply simE_gen cfg forest rd pp (.dir name ino dev ign kids) ks below sp igL hdep
    intro d via hw hdo
    rw [wdHandle_dirnode] at hw
    simp only [Except.ok.injEq, Prod.mk.injEq, View.dir.injEq] at hw
    obtain ⟨⟨hd, _⟩, _⟩ := hw
    subst hd
    exact simK cfg forest rd js n hJ hb (if cfg.followLinks then ino :: sp else sp) ((ino, ign) :: igL)
      (spOk_cons hsp ino ign) (Nat.le_trans (free_cons_le forest _ igL) hn) (pp ++ [name])
      (⟨pp, ks⟩ :: below) (by simpa using hdo) kids
  | .file name size, ks => by
    have hk : ∀ name' ino dev ign kids, Node.file name size ≠ .dir name' ino dev ign kids := by
      intros; simp
    have hres := serEntry_res_other cfg forest js rd sp igL below.length pp (.file name size) hk
    have hr1 := congrArg Prod.fst hres
    have hr2 := congrArg Prod.snd hres
    simp only [] at hr1 hr2
    rw [hr1, hr2]
    apply simE_gen cfg forest rd pp (.file name size) ks below sp igL hdep
    intro d via hw hdo
    have hinv := wdHandle_dir_inv cfg forest sp rd _ _ d via true hk hw
    exact hJ _ _ _ _ (⟨pp, ks⟩ :: below) (spOk_cons hsp d.ino d.ign)
      (Nat.lt_of_lt_of_le (free_cons_lt forest d.ino d.ign igL hinv.2.2
        (by rw [← spOk_inAnc hsp hinv.1]; exact hinv.2.1)) hn) (by simpa using hdo)
  | .link name len tgt, ks => by
    have hk : ∀ name' ino dev ign kids, Node.link name len tgt ≠ .dir name' ino dev ign kids := by
      intros; simp
    have hres := serEntry_res_other cfg forest js rd sp igL below.length pp (.link name len tgt) hk
    have hr1 := congrArg Prod.fst hres
    have hr2 := congrArg Prod.snd hres
    simp only [] at hr1 hr2
    rw [hr1, hr2]
    apply simE_gen cfg forest rd pp (.link name len tgt) ks below sp igL hdep
    intro d via hw hdo
    have hinv := wdHandle_dir_inv cfg forest sp rd _ _ d via true hk hw
    exact hJ _ _ _ _ (⟨pp, ks⟩ :: below) (spOk_cons hsp d.ino d.ign)
      (Nat.lt_of_lt_of_le (free_cons_lt forest d.ino d.ign igL hinv.2.2
        (by rw [← spOk_inAnc hsp hinv.1]; exact hinv.2.1)) hn) (by simpa using hdo)
theorem simK (cfg : Cfg) (forest : List Node) (rd : Option Nat) (js : SerContents) (n : Nat)
    (hJ : HJ cfg forest rd js n) (hb : JBal js) (sp : List Nat) (igL : List Anc)
    (hsp : SpOk cfg sp igL) (hn : free forest igL ≤ n) (pp : Path) (below : List Frame)
    (hdep : depthOk cfg below.length = true) :
    (ks : List Node) →
      SimK cfg forest rd (serKids cfg forest js rd sp igL below.length pp ks).1 pp ks below sp igL
  | [] => by
    unfold serKids
    exact simK_nil cfg forest rd pp below sp igL
  | k :: ks => by
    have hE := simE cfg forest rd js n hJ hb sp igL hsp hn pp below hdep k ks
    have hKs := simK cfg forest rd js n hJ hb sp igL hsp hn pp below hdep ks
    have hig := serEntry_ig cfg forest js hb rd sp igL below.length pp k
    intro D ig acc hD hlen hdrop
    obtain ⟨n1, D1, ig1, h1, h2, h3, h4⟩ := hE D ig acc hD hlen hdrop
    unfold serKids
    simp only []
    cases hab : (serEntry cfg forest js rd sp igL below.length pp k).abort with
    | true =>
      simp only [hab, if_true] at h4 ⊢
      exact ⟨n1, D1, ig1, h1, h2, h3, h4⟩
    | false =>
      simp only [hab, Bool.false_eq_true, if_false] at h4 ⊢
      rw [hig]
      obtain ⟨n2, D2, ig2, g1, g2, g3, g4⟩ := hKs D1 ig1
        ((serEntry cfg forest js rd sp igL below.length pp k).outs.reverse ++ acc) h1 h2 h3
      refine ⟨n1 + n2, D2, ig2, g1, g2, g3, ?_⟩
      intro m
      rw [Nat.add_assoc, h4 (n2 + m), g4 m]
      simp
end

/-- The machine simulates the contents function of the recursive model wherever the link-jump fuel
exceeds the number of free directories. -/
theorem hJ_serContents (cfg : Cfg) (forest : List Node) (rd : Option Nat) :
    ∀ f, HJ cfg forest rd (serContents cfg forest f) f := by
  intro f
  induction f with
  | zero => intro sp igL pp ks below _ h _; omega
  | succ f ih =>
    intro sp igL pp ks below hsp hfree hdep
    simp only [serContents]
    exact simK cfg forest rd _ f ih (serContents_bal cfg forest f) sp igL hsp (by omega) pp below hdep ks

/-! ### Roots -/

def it0 (cfg : Cfg) (forest : List Node) (r : Node) : EvIter :=
  { wd := { start := some r, s := { stack := [], sp := [] }, rootDev := none,
            follow := cfg.followLinks || (stat forest r).isFile },
    depth := 0, next := none }

theorem resolve_not_symlink (forest : List Node) (tgt : Target) (l : Nat) :
    resolve forest tgt ≠ .symlink l := by
  cases tgt with
  | missing => simp [resolve]
  | file s => simp [resolve]
  | dir i => simp only [resolve]; split <;> simp

/-- A root that cannot be stat-ed. -/
theorem root_broken (cfg : Cfg) (forest : List Node) (r : Node) (hs : stat forest r = .broken) (m : Nat) :
    walkLoop cfg forest (m + 2) (it0 cfg forest r) [] [] = some [.broken [r.name]] := by
  have h1 : evNext cfg forest (it0 cfg forest r) =
      (some (.err (.broken [r.name])), mkIt cfg none [] [] 0 none) := by
    simp [evNext, it0, wdNext, hs, View.isFile, mkIt]
  have h2 := walkLoop_drain cfg forest none [] 0 m [] [.broken [r.name]]
  rw [show m + 2 = (0 + 1 + m) + 1 by omega]
  simp only [walkLoop, h1]
  rw [h2]; rfl

theorem walkLoop_drain' (cfg : Cfg) (forest : List Node) (w : Wd) (hs : w.start = none)
    (hst : w.s.stack = []) : ∀ (D m : Nat) (ig : List Anc) (acc : List Out),
    walkLoop cfg forest (D + 1 + m) { wd := w, depth := D, next := none } ig acc = some acc.reverse := by
  have hw : wdNext cfg forest w = (none, { w with s := ⟨[], w.s.sp⟩ }) := by
    simp [wdNext, hs, hst, wdLoop]
  intro D
  induction D generalizing w with
  | zero =>
    intro m ig acc
    rw [show 0 + 1 + m = m + 1 by omega]
    simp [walkLoop, evNext, hw]
  | succ D ih =>
    intro m ig acc
    rw [show D + 1 + 1 + m = (D + 1 + m) + 1 by omega]
    have hev : evNext cfg forest { wd := w, depth := D + 1, next := none } =
        (some .exit, { wd := { w with s := ⟨[], w.s.sp⟩ }, depth := D, next := none }) := by
      simp [evNext, hw]
    simp only [walkLoop, hev]
    exact ih { w with s := ⟨[], w.s.sp⟩ } hs rfl (by simp [wdNext, hs, wdLoop]) m ig.tail acc

/-- A root that is not a directory (a file, or a link to one). -/
theorem root_file (cfg : Cfg) (forest : List Node) (r : Node) (hs : stat forest r ≠ .broken)
    (hd : (stat forest r).isDir = false) (m : Nat) :
    walkLoop cfg forest (m + 2) (it0 cfg forest r) [] [] = some [.entry [r.name]] := by
  have key : ∃ dd : Dent, dd.path = [r.name] ∧ dd.depth = 0 ∧
      (evNext cfg forest (it0 cfg forest r)).1 = some (.file dd) ∧
      (evNext cfg forest (it0 cfg forest r)).2.wd.start = none ∧
      (evNext cfg forest (it0 cfg forest r)).2.wd.s.stack = [] ∧
      (evNext cfg forest (it0 cfg forest r)).2.depth = 0 ∧
      (evNext cfg forest (it0 cfg forest r)).2.next = none := by
    cases r with
    | file name size =>
      refine ⟨⟨[name], 0, .file size, none⟩, rfl, rfl, ?_, ?_, ?_, ?_, ?_⟩ <;>
        simp [evNext, it0, wdNext, stat, lstat, View.isFile, handleEntry, followEntry, View.isSymlink, Node.name]
    | dir name ino dev ign kids => simp [stat, lstat, View.isDir] at hd
    | link name len tgt =>
      cases hr : resolve forest tgt with
      | broken => simp [stat, hr] at hs
      | dir d via => simp [stat, hr, View.isDir] at hd
      | symlink l => exact absurd hr (resolve_not_symlink forest tgt l)
      | file sz =>
        refine ⟨⟨[name], 0, .file sz, none⟩, rfl, rfl, ?_, ?_, ?_, ?_, ?_⟩ <;>
          simp [evNext, it0, wdNext, stat, hr, lstat, View.isFile, handleEntry, followEntry, View.isSymlink,
            Node.name]
  obtain ⟨dd, hp, hdp, h1, h2, h3, h4, h5⟩ := key
  rw [show m + 2 = (0 + 1 + m) + 1 by omega]
  simp only [walkLoop]
  generalize evNext cfg forest (it0 cfg forest r) = e at h1 h2 h3 h4 h5 ⊢
  obtain ⟨e1, e2⟩ := e
  obtain ⟨w, dep, nx⟩ := e2
  simp only at h1 h2 h3 h4 h5
  subst h1 h4 h5
  simp only [hdp]
  simp only [rootDepth, ne_eq, not_true_eq_false, decide_false, Bool.false_and, Bool.false_eq_true, if_false]
  rw [walkLoop_drain' cfg forest w h2 h3 0 m [] [.entry dd.path], hp]
  rfl

/-- A root directory (or link to one): after the first event its frame is on the stack. -/
theorem root_dir (cfg : Cfg) (forest : List Node) (r : Node) (d : DirView) (via : Bool)
    (hs : stat forest r = .dir d via) :
    ∃ v : View, evNext cfg forest (it0 cfg forest r) =
      (some (.dir ⟨[r.name], 0, v, some d⟩ d),
        mkIt cfg (if cfg.sameFs then some d.dev else none) [⟨[r.name], d.kids⟩]
          (if cfg.followLinks then [d.ino] else []) 1 none) := by
  cases r with
  | file name size => simp [stat, lstat] at hs
  | dir name ino dev ign kids =>
    simp only [stat, lstat, View.dir.injEq] at hs
    obtain ⟨h1, h2⟩ := hs
    subst h1
    refine ⟨.dir ⟨ino, dev, ign, kids⟩ false, ?_⟩
    cases hf : cfg.followLinks <;> cases hsf : cfg.sameFs <;>
      simp [evNext, it0, wdNext, stat, lstat, View.isFile, handleEntry, followEntry, View.isSymlink, Node.name,
        mkIt, WdS.push, hf, hsf]
  | link name len tgt =>
    simp only [stat] at hs
    have hvia := resolve_dir_via hs
    subst hvia
    cases hf : cfg.followLinks with
    | true =>
      refine ⟨.dir d true, ?_⟩
      cases hsf : cfg.sameFs <;>
        simp [evNext, it0, wdNext, stat, hs, lstat, View.isFile, handleEntry, followEntry, View.isSymlink,
          Node.name, mkIt, WdS.push, hf, hsf]
    | false =>
      refine ⟨.symlink len, ?_⟩
      cases hsf : cfg.sameFs <;>
        simp [evNext, it0, wdNext, stat, hs, lstat, View.isFile, handleEntry, followEntry, View.isSymlink,
          Node.name, mkIt, WdS.push, hf, hsf]

theorem serialEventsRoot_eq (cfg : Cfg) (forest : List Node) (F : Nat) (hF : dirCount forest + 1 ≤ F)
    (r : Node) :
    ∃ N, ∀ fuel, N ≤ fuel → serialEventsRoot cfg forest fuel r = some (serRoot cfg forest F r) := by
  have hdef : ∀ fuel, serialEventsRoot cfg forest fuel r = walkLoop cfg forest fuel (it0 cfg forest r) [] [] :=
    fun _ => rfl
  cases hs : stat forest r with
  | broken =>
    refine ⟨2, fun fuel hf => ?_⟩
    rw [hdef, show fuel = (fuel - 2) + 2 by omega, root_broken cfg forest r hs]
    simp [serRoot, hs]
  | file sz =>
    refine ⟨2, fun fuel hf => ?_⟩
    rw [hdef, show fuel = (fuel - 2) + 2 by omega,
      root_file cfg forest r (by rw [hs]; simp) (by rw [hs]; rfl)]
    simp [serRoot, hs]
  | symlink l =>
    refine ⟨2, fun fuel hf => ?_⟩
    rw [hdef, show fuel = (fuel - 2) + 2 by omega,
      root_file cfg forest r (by rw [hs]; simp) (by rw [hs]; rfl)]
    simp [serRoot, hs]
  | dir d via =>
    obtain ⟨v, hev⟩ := root_dir cfg forest r d via hs
    have hstep : ∀ m, walkLoop cfg forest (m + 1) (it0 cfg forest r) [] [] =
        walkLoop cfg forest m
          (mkIt cfg (if cfg.sameFs then some d.dev else none) [⟨[r.name], d.kids⟩]
            (if cfg.followLinks then [d.ino] else []) 1 none) [(d.ino, d.ign)] [.entry [r.name]] := by
      intro m
      simp [walkLoop, hev, rootDepth]
    cases hd : depthOk cfg 0 with
    | true =>
      have hK := hJ_serContents cfg forest (if cfg.sameFs then some d.dev else none) F
        (if cfg.followLinks then [d.ino] else []) [(d.ino, d.ign)] [r.name] d.kids []
        (by intro hf; simp [hf]) (by have := free_le_dirCount forest [(d.ino, d.ign)]; omega)
        (by simpa using hd)
      obtain ⟨n, D', ig', _, _, _, h4⟩ := hK 1 [(d.ino, d.ign)] [.entry [r.name]] (by simp) rfl (by simp)
      refine ⟨1 + n + (D' + 1), fun fuel hf => ?_⟩
      rw [hdef, show fuel = (n + (D' + 1 + (fuel - (1 + n + (D' + 1))))) + 1 by omega, hstep, h4,
        walkLoop_drain]
      simp [serRoot, hs, hd]
    | false =>
      refine ⟨3, fun fuel hf => ?_⟩
      rw [hdef, show fuel = (1 + 1 + (fuel - 3)) + 1 by omega, hstep,
        walkLoop_wdLoop_congr cfg forest _ _ [] _ (popSp cfg (if cfg.followLinks then [d.ino] else [])) 1
          (wdLoop_over cfg forest _ _ [] _ (by simpa using hd)),
        walkLoop_drain]
      simp [serRoot, hs, hd]

/-- The operational model of the serial walker (walkdir's iterator, `WalkEventIter`, `Walk::next` as
state machines) reports — for every sufficiently large step budget — exactly the list the recursive
model `serial` reports. -/
theorem serialEvents_eq (cfg : Cfg) (forest : List Node) (F : Nat) (hF : dirCount forest + 1 ≤ F) :
    ∀ roots : List Node, ∃ N, ∀ fuel, N ≤ fuel →
      serialEvents cfg forest fuel roots = some (serial cfg forest F roots) := by
  have gen : ∀ (roots : List Node) (acc : List Out), ∃ N, ∀ fuel, N ≤ fuel →
      roots.foldl (fun a r => do
        let x ← a
        let y ← serialEventsRoot cfg forest fuel r
        pure (x ++ y)) (some acc) = some (acc ++ serial cfg forest F roots) := by
    intro roots
    induction roots with
    | nil => intro acc; exact ⟨0, fun _ _ => by simp [serial]⟩
    | cons r rs ih =>
      intro acc
      obtain ⟨N1, h1⟩ := serialEventsRoot_eq cfg forest F hF r
      obtain ⟨N2, h2⟩ := ih (acc ++ serRoot cfg forest F r)
      refine ⟨max N1 N2, fun fuel hf => ?_⟩
      simp only [List.foldl_cons]
      rw [h1 fuel (by omega)]
      have := h2 fuel (by omega)
      simp only [serial, List.flatMap_cons, ← List.append_assoc] at this ⊢
      exact this
  intro roots
  obtain ⟨N, h⟩ := gen roots []
  exact ⟨N, fun fuel hf => by simpa [serialEvents] using h fuel hf⟩

end RgVerif.Walk
