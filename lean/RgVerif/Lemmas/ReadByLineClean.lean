import RgVerif.Lemmas.CoreEvents
import RgVerif.Lemmas.LineBufferFill
namespace RgVerif.Searcher
open RgVerif RgVerif.Matcher RgVerif.Lines RgVerif.LineBuffer

/-- no delivered line holds the byte `b` -/
def CleanOf (b : Nat) (evs : List Event) : Prop := ∀ ev ∈ evs, b ∉ ev.lineBytes

theorem CleanOf.ext {b : Nat} {buf : Bytes} {st st' : Core} (h : Ext buf st st') (hb : b ∉ buf)
    (hc : CleanOf b st.events) : CleanOf b st'.events := by
  obtain ⟨new, e, p⟩ := h
  intro ev hev
  rw [e] at hev
  simp only [List.mem_append] at hev
  cases hev with
  | inl h1 => exact hc ev h1
  | inr h1 => exact fun hx => hb (p ev h1 b hx)

theorem CleanOf.same {b : Nat} {st st' : Core} (h : st'.events = st.events) (hc : CleanOf b st.events) :
    CleanOf b st'.events := by rw [h]; exact hc

theorem CleanOf.emit_nobytes {b : Nat} (σ : Script) (st : Core) (ev : Event) (h0 : ev.lineBytes = [])
    (hc : CleanOf b st.events) : CleanOf b (emit σ st ev).1.events := by
  rw [emit_events]
  intro e he
  simp only [List.mem_append, List.mem_singleton] at he
  cases he with
  | inl h1 => exact hc e h1
  | inr h1 => rw [h1, h0]; simp

/-- the reader strategy's invariant for the binary byte: the roll buffer is in a reachable state
for the input and the sink has seen no line holding the byte -/
structure RC (lbcfg : LineBuffer.Config) (inp : Bytes) (b : Nat) (s : RBL) : Prop where
  lbinv : ∃ a mm rest, LineBuffer.Inv lbcfg inp s.lb s.rdr a mm rest
  clean : CleanOf b s.core.events

theorem RC.buffer_clean {lbcfg : LineBuffer.Config} {inp : Bytes} {b : Nat} {s : RBL}
    (hb : lbcfg.binary = .quit b ∨ (lbcfg.binary = .convert b ∧ b ≠ lbcfg.lineterm))
    (h : RC lbcfg inp b s) : b ∉ s.lb.buffer := by
  obtain ⟨a, mm, rest, hI⟩ := h.lbinv
  intro hm
  have hm' := mem_buffer_of hm
  cases hb with
  | inl hq => exact hI.hides_quit b hq hm'
  | inr hc => exact hI.hides_convert b hc.1 hc.2 hm'

theorem rblFill_rc {lbcfg : LineBuffer.Config} {inp : Bytes} {b : Nat} (cfg : Config) (σ : Script) (s : RBL)
    (h : RC lbcfg inp b s) : RC lbcfg inp b (rblFill cfg σ s).1 := by
  obtain ⟨a, mm, rest, hI⟩ := h.lbinv
  have hroll := roll_events cfg s.lb.buffer s.core
  unfold rblFill
  generalize roll cfg s.lb.buffer s.core = rr at hroll ⊢
  obtain ⟨core1, consumed⟩ := rr
  have hc1 : CleanOf b core1.events := CleanOf.same hroll h.clean
  dsimp only
  cases hcons : s.lb.consume consumed with
  | none => exact ⟨⟨a, mm, rest, hI⟩, hc1⟩
  | some lb1 =>
    dsimp only
    have hI1 := hI.consume consumed lb1 hcons
    obtain ⟨m', rest', hI2, _, _, _⟩ := fill_spec lbcfg inp lb1 s.rdr _ _ _ hI1
    cases hf : lb1.fill s.rdr with
    | mk lb2 p =>
      cases p with
      | mk rdr2 res =>
        rw [hf] at hI2
        have hinv2 : ∃ a mm rest, LineBuffer.Inv lbcfg inp lb2 rdr2 a mm rest := ⟨_, _, _, hI2⟩
        cases res with
        | allocErr => exact ⟨hinv2, hc1⟩
        | fuel => exact ⟨hinv2, hc1⟩
        | ok didread =>
          dsimp only
          -- the hand-off of the binary offset tells the sink nothing about lines
          have hho : ∀ (g : Core × Res Bool), CleanOf b g.1.events →
              RC lbcfg inp b
                (match g with
                  | (core, .err) => ((⟨core, lb2, rdr2⟩ : RBL), (Res.err : Res Bool))
                  | (core, .ok false) => (⟨core, lb2, rdr2⟩, .ok false)
                  | (core, .ok true) =>
                    if (!didread || shouldBinaryQuit cfg lb2) = true then (⟨core, lb2, rdr2⟩, .ok false)
                    else if (consumed == 0 && s.lb.buffer.length == lb2.buffer.length) = true then
                      match lb2.consume s.lb.buffer.length with
                      | some lb' => (⟨core, lb', rdr2⟩, .ok false)
                      | none => (⟨core, lb2, rdr2⟩, .err)
                    else (⟨core, lb2, rdr2⟩, .ok true)).1 := by
            intro g hg
            obtain ⟨c2, r2⟩ := g
            cases r2 with
            | err => exact ⟨hinv2, hg⟩
            | ok bb =>
              cases bb with
              | false => exact ⟨hinv2, hg⟩
              | true =>
                dsimp only
                split
                · exact ⟨hinv2, hg⟩
                · split
                  · cases hc2 : lb2.consume s.lb.buffer.length with
                    | none => exact ⟨hinv2, hg⟩
                    | some lb3 => exact ⟨⟨_, _, _, hI2.consume _ lb3 hc2⟩, hg⟩
                  · exact ⟨hinv2, hg⟩
          apply hho
          split
          · split
            · exact CleanOf.emit_nobytes σ core1 _ rfl hc1
            · exact hc1
          · exact hc1

theorem finish_clean {b : Nat} (σ : Script) (st : Core) (n : Nat) (bo : Option Nat) (hc : CleanOf b st.events) :
    CleanOf b (finish σ st n bo).1.events := by
  unfold finish
  have := CleanOf.emit_nobytes σ st (.finish n bo) rfl hc
  generalize emit σ st (.finish n bo) = g at this ⊢
  obtain ⟨c3, r3⟩ := g
  cases r3 <;> exact this

theorem rblLoop_rc {lbcfg : LineBuffer.Config} {inp : Bytes} {b : Nat}
    (hb : lbcfg.binary = .quit b ∨ (lbcfg.binary = .convert b ∧ b ≠ lbcfg.lineterm))
    (cfg : Config) (m : MatcherI) (σ : Script) (fuel : Nat) :
    ∀ s, RC lbcfg inp b s → RC lbcfg inp b (rblLoop cfg m σ fuel s).1 := by
  induction fuel with
  | zero => intro s h; exact h
  | succ fuel ih =>
    intro s h
    unfold rblLoop
    have hf := rblFill_rc cfg σ s h
    generalize rblFill cfg σ s = g at hf ⊢
    obtain ⟨s1, r1⟩ := g
    cases r1 with
    | err => exact hf
    | ok bb =>
      cases bb with
      | false => exact hf
      | true =>
        dsimp only
        have hm := matchByLine_ext cfg m σ s1.lb.buffer s1.core
        have hclean := CleanOf.ext hm (hf.buffer_clean hb) hf.clean
        generalize matchByLine cfg m σ s1.lb.buffer s1.core = g2 at hclean ⊢
        obtain ⟨c2, r2⟩ := g2
        have h2 : RC lbcfg inp b { s1 with core := c2 } := ⟨hf.lbinv, hclean⟩
        cases r2 with
        | err => exact h2
        | ok b2 =>
          cases b2 with
          | false => exact h2
          | true => exact ih _ h2

/-- **The reader strategy never shows the sink the binary byte** — for every configuration
(contexts, passthru, inversion, …), matcher, sink script, input, read script and capacity. -/
theorem readByLine_clean (cfg : Config) (m : MatcherI) (σ : Script) (lbcfg : LineBuffer.Config) (b : Nat)
    (hb : lbcfg.binary = .quit b ∨ (lbcfg.binary = .convert b ∧ b ≠ lbcfg.lineterm)) (rdr : Reader) :
    CleanOf b (readByLine cfg m σ lbcfg rdr).events := by
  have hbeg : CleanOf b (begin σ (Core.new cfg false)).1.events :=
    CleanOf.emit_nobytes σ _ _ rfl (by intro ev hev; simp [Core.new] at hev)
  unfold readByLine
  dsimp only
  split
  · rename_i st1 heq
    rw [heq] at hbeg
    exact hbeg
  · rename_i st1 keepgoing heq
    rw [heq] at hbeg
    have h0 : RC lbcfg rdr.data b ⟨st1, LB.init lbcfg, rdr⟩ := ⟨⟨[], [], rdr.data, Inv.init' lbcfg rdr⟩, hbeg⟩
    have hl : RC lbcfg rdr.data b
        (if keepgoing = true then rblLoop cfg m σ (rblFuel rdr) ⟨st1, LB.init lbcfg, rdr⟩
         else (⟨st1, LB.init lbcfg, rdr⟩, Res.ok none)).1 := by
      split
      · exact rblLoop_rc hb cfg m σ _ _ h0
      · exact h0
    generalize (if keepgoing = true then rblLoop cfg m σ (rblFuel rdr) ⟨st1, LB.init lbcfg, rdr⟩
         else (⟨st1, LB.init lbcfg, rdr⟩, Res.ok none)) = g2 at hl ⊢
    obtain ⟨s', r'⟩ := g2
    cases r' with
    | err => exact hl.clean
    | ok stopped =>
      exact finish_clean σ s'.core _ _ hl.clean

end RgVerif.Searcher
