import RgVerif.Lemmas.CoreShiftRoll
import RgVerif.Lemmas.ReadByLineCStep
import RgVerif.Lemmas.ReadByLineGSlice
/-
The loop of `ReadByLine::run` WITH context lines against one `match_by_line_slow` over the whole
input: `Core::roll` keeps `max_context + 1` lines, the roll buffer hands out the next window, the
searches stay related (`ESim`, `XRel`).
-/
namespace RgVerif.Searcher
open RgVerif RgVerif.Matcher RgVerif.Lines RgVerif.GrepSpec RgVerif.LineBuffer

theorem win_of_window (inp : Bytes) (abs len : Nat) (h : abs + len ≤ inp.length) :
    WinOf inp (inp.take abs) (window inp abs len) (inp.drop (abs + len)) ∧ (inp.take abs).length = abs := by
  refine ⟨⟨?_⟩, by simp; omega⟩
  unfold window
  rw [← List.drop_drop, List.take_append_drop, List.take_append_drop]

theorem window_length (inp : Bytes) (abs len : Nat) (h : abs + len ≤ inp.length) : (window inp abs len).length = len := by
  unfold window; simp; omega

theorem stepLines_from (t : Nat) (buf : Bytes) (p : Nat) (hp : p ≤ buf.length) :
    stepLines t buf p buf.length = spansFrom p (splitLines t (buf.drop p)) := by
  rw [stepLines_region t buf p buf.length hp (Nat.le_refl _)]
  unfold Lines.slice
  rw [List.take_length]

theorem roll_fields (cfg : Config) (buf : Bytes) (st : Core) (h : st.lastLineVisited ≤ buf.length) :
    (roll cfg buf st).2 ≤ buf.length ∧ (roll cfg buf st).1.pos = buf.length - (roll cfg buf st).2 ∧
    (roll cfg buf st).1.lastLineVisited = 0 ∧ (roll cfg buf st).1.events = st.events ∧
    (roll cfg buf st).1.binaryByteOffset = st.binaryByteOffset := by
  have hple := preceding_le buf cfg.lineTerm.asByte cfg.maxContext
  unfold roll
  dsimp only
  refine ⟨?_, rfl, rfl, (countLines_other _ _ _ _).1, (countLines_other _ _ _ _).2.2.2.1⟩
  split
  · exact Nat.le_refl _
  · omega

/-- `ReadByLine::fill` with detection off, whatever `Core::roll` keeps: it goes on with the next
window (which starts `consumed` bytes further and ends later), or it stops at the end of the input,
or -- under a heap limit only -- the allocation fails (an error, no callback). -/
theorem rblFill_C {cfg : Config} {lbcfg : LineBuffer.Config} {inp : Bytes} (σ : Script)
    (hlt : lbcfg.lineterm = cfg.lineTerm.asByte) (hb : lbcfg.binary = .none)
    {s : RBL} (hI : ∃ a mm rest, LineBuffer.Inv lbcfg inp s.lb s.rdr a mm rest) (hnz0 : NoZero s.rdr.script)
    (hlbbin : s.lb.binOff = none) (hllv : s.core.lastLineVisited ≤ s.lb.buffer.length)
    (hdle : s.lb.abs + s.lb.buffer.length ≤ inp.length) :
    (lbcfg.alloc ≠ .eager ∧ ∃ s1, rblFill cfg σ s = (s1, .err) ∧ s1.core = (roll cfg s.lb.buffer s.core).1) ∨
    ∃ s1 r, rblFill cfg σ s = (s1, .ok r) ∧
      (∃ a mm rest, LineBuffer.Inv lbcfg inp s1.lb s1.rdr a mm rest) ∧ NoZero s1.rdr.script ∧
      s1.lb.binOff = none ∧ s1.core = (roll cfg s.lb.buffer s.core).1 ∧
      s1.lb.buffer = window inp s1.lb.abs s1.lb.buffer.length ∧ s1.lb.abs + s1.lb.buffer.length ≤ inp.length ∧
      (r = true →
        s1.lb.abs = s.lb.abs + (roll cfg s.lb.buffer s.core).2 ∧
        s.lb.buffer.length - (roll cfg s.lb.buffer s.core).2 ≤ s1.lb.buffer.length ∧
        (s1.lb.buffer.getLast? = some cfg.lineTerm.asByte ∨ s1.lb.abs + s1.lb.buffer.length = inp.length) ∧
        (0 < (roll cfg s.lb.buffer s.core).2 ∨ s.lb.buffer.length < s1.lb.buffer.length)) ∧
      (r = false → s1.lb.abs = inp.length ∧ s.lb.abs + s.lb.buffer.length = inp.length) := by
  obtain ⟨a, mm, rest, hI⟩ := hI
  obtain ⟨hcle, _, _, _, _⟩ := roll_fields cfg s.lb.buffer s.core hllv
  obtain ⟨lb1, hcons, hcase⟩ := lb_stepC hI hb hnz0 (roll cfg s.lb.buffer s.core).2 hcle
  cases hcase with
  | inl herr =>
    left
    refine ⟨herr.2, ?_⟩
    unfold rblFill
    generalize hrl : roll cfg s.lb.buffer s.core = rl at *
    obtain ⟨c1, c⟩ := rl
    dsimp only at hcons ⊢
    simp only [hcons]
    cases hf : lb1.fill s.rdr with
    | mk lb2 p =>
      cases p with
      | mk rdr2 res =>
        have : res = .allocErr := by have := herr.1; rw [hf] at this; exact this
        subst this
        exact ⟨_, rfl, rfl⟩
  | inr hok =>
  right
  obtain ⟨more, a', m', rest', hres, hmore, hI2, habs, hbin, hnz, hwin, hle, hal2, hmono, hsame⟩ := hok
  unfold rblFill
  generalize hrl : roll cfg s.lb.buffer s.core = rl at *
  obtain ⟨c1, c⟩ := rl
  dsimp only at hcle hcons habs hmono hsame ⊢
  simp only [hcons]
  cases hf : lb1.fill s.rdr with
  | mk lb2 p =>
    cases p with
    | mk rdr2 res =>
      simp only [hf] at hres hmore hI2 habs hbin hnz hwin hle hal2 hmono hsame
      subst hres
      simp only [hlbbin, Option.isSome_none, Bool.not_false, if_true, hbin]
      rw [hlt] at hal2
      have hsq : shouldBinaryQuit cfg lb2 = false := by simp [shouldBinaryQuit, hbin]
      by_cases hm : more = true
      · have hne : lb2.buffer.isEmpty = false := by simpa [hm] using hmore.symm
        simp only [hm, Bool.not_true, hsq, Bool.or_self, Bool.false_eq_true, if_false]
        by_cases hcond : (c == 0 && s.lb.buffer.length == lb2.buffer.length) = true
        · -- only leftover context
          simp only [hcond, if_true]
          simp only [Bool.and_eq_true, beq_iff_eq] at hcond
          obtain ⟨hc0, hL⟩ := hcond
          have hend := hsame (by omega)
          have hcons2 : lb2.consume s.lb.buffer.length
              = some { lb2 with pos := lb2.pos + s.lb.buffer.length, abs := lb2.abs + s.lb.buffer.length } := by
            unfold LB.consume; simp [hL]
          rw [hcons2]
          refine ⟨_, false, rfl, ?_, hnz, hbin, rfl, ?_, ?_, fun h => by simp at h, fun _ => ⟨?_, ?_⟩⟩
          · exact ⟨_, _, _, hI2.consume _ _ hcons2⟩
          · have hw2 := (hI2.consume _ _ hcons2).window
            have hview : view lbcfg inp = inp := by simp [view, hb]
            rw [hview] at hw2
            exact hw2
          · have hbl := (hI2.consume _ _ hcons2).buffer_len
            have hbl2 := hI2.buffer_len
            show lb2.abs + s.lb.buffer.length + _ ≤ inp.length
            rw [hbl]
            show lb2.abs + s.lb.buffer.length + (lb2.last - (lb2.pos + s.lb.buffer.length)) ≤ inp.length
            omega
          · show lb2.abs + s.lb.buffer.length = inp.length
            omega
          · omega
        · simp only [hcond, Bool.false_eq_true, if_false]
          refine ⟨⟨c1, lb2, rdr2⟩, true, rfl, ⟨a', m', rest', hI2⟩, hnz, hbin, rfl, hwin, hle,
            fun _ => ⟨habs, hmono, hal2, ?_⟩, fun h => by simp at h⟩
          simp only [Bool.and_eq_true, beq_iff_eq, not_and] at hcond
          by_cases hc0 : c = 0
          · right
            have := hcond hc0
            show s.lb.buffer.length < lb2.buffer.length
            omega
          · left; omega
      · have hm' : more = false := by simpa using hm
        simp only [hm', Bool.not_false, Bool.true_or, if_true]
        have he : lb2.buffer.isEmpty = true := by simpa [hm'] using hmore.symm
        have hnil : lb2.buffer = [] := by simpa using he
        have hl0 : lb2.buffer.length = 0 := by rw [hnil]; rfl
        have hend := hsame (by omega)
        refine ⟨⟨c1, lb2, rdr2⟩, false, rfl, ⟨a', m', rest', hI2⟩, hnz, hbin, rfl, hwin, hle,
          fun h => by simp at h, fun _ => ⟨by show lb2.abs = inp.length; omega, by omega⟩⟩

/-- a search that starts at the end of the window does nothing -/
theorem matchByLine_at_end {cfg : Config} {m : MatcherI} (σ : Script) (buf : Bytes) (st : Core)
    (hfast : isLineByLineFast cfg m st = false) (hp : st.pos = buf.length) :
    matchByLine cfg m σ buf st = (st, .ok true) := by
  simp only [matchByLine, hfast, Bool.false_eq_true, if_false, matchByLineSlow]
  rw [hp, stepLines_from _ _ _ (Nat.le_refl _), List.drop_length]
  simp [splitLines, spansFrom, slowLoop]

/-- **Once the whole input has been searched**, the loop of `ReadByLine::run` only winds down:
`roll` / `consume` / `fill` with nothing new until only leftover context is in the buffer; no
callback, `Ok`, and the buffer's absolute position is the input length. -/
theorem rblLoop_end {cfg : Config} {m : MatcherI} {σ : Script} {lbcfg : LineBuffer.Config} {inp : Bytes}
    (hslow : isLineByLineFast cfg m (Core.new cfg false) = false)
    (hlt : lbcfg.lineterm = cfg.lineTerm.asByte) (hb : lbcfg.binary = .none) :
    ∀ (fuel : Nat) (s : RBL), s.lb.buffer.length + 2 ≤ fuel →
      (∃ a mm rest, LineBuffer.Inv lbcfg inp s.lb s.rdr a mm rest) → NoZero s.rdr.script → s.lb.binOff = none →
      s.lb.abs + s.lb.buffer.length = inp.length → s.core.pos = s.lb.buffer.length →
      s.core.lastLineVisited ≤ s.lb.buffer.length →
      ∃ s', ((rblLoop cfg m σ fuel s = (s', .ok none) ∧ s'.lb.abs = inp.length ∧ s'.lb.binOff = none) ∨
          (lbcfg.alloc ≠ .eager ∧ rblLoop cfg m σ fuel s = (s', .err))) ∧
        s'.core.events = s.core.events ∧ s'.core.binaryByteOffset = s.core.binaryByteOffset := by
  intro fuel
  induction fuel with
  | zero => intro s hf; omega
  | succ fuel ih =>
    intro s hf hI hnz hbo hend hpos hllv
    obtain ⟨hcle, hrpos, hrllv, hrev, hrbin⟩ := roll_fields cfg s.lb.buffer s.core hllv
    rcases rblFill_C σ hlt hb hI hnz hbo hllv (by omega) with
      ⟨hne, s1, hfill, hcore⟩ | ⟨s1, r, hfill, hI1, hnz1, hbo1, hcore, hwin, hle, htrue, hfalse⟩
    · rw [rblLoop, hfill]
      exact ⟨s1, Or.inr ⟨hne, rfl⟩, by rw [hcore, hrev], by rw [hcore, hrbin]⟩
    rw [rblLoop, hfill]
    cases r with
    | false =>
      refine ⟨s1, Or.inl ⟨rfl, (hfalse rfl).1, hbo1⟩, by rw [hcore, hrev], by rw [hcore, hrbin]⟩
    | true =>
      obtain ⟨habs, hmono, _, hprog⟩ := htrue rfl
      have hL1 : s1.lb.buffer.length = s.lb.buffer.length - (roll cfg s.lb.buffer s.core).2 := by omega
      have hp1 : s1.core.pos = s1.lb.buffer.length := by rw [hcore, hrpos, hL1]
      have hfast : isLineByLineFast cfg m s1.core = false := isLineByLineFast_false_all cfg m false hslow s1.core
      dsimp only
      rw [matchByLine_at_end σ s1.lb.buffer s1.core hfast hp1]
      dsimp only
      obtain ⟨s', h1, h2, h5⟩ := ih { s1 with core := s1.core } (by show s1.lb.buffer.length + 2 ≤ fuel; omega)
        hI1 hnz1 hbo1 (by show s1.lb.abs + s1.lb.buffer.length = inp.length; omega) hp1
        (by show s1.core.lastLineVisited ≤ _; rw [hcore, hrllv]; exact Nat.zero_le _)
      exact ⟨s', h1, by rw [h2]; show s1.core.events = _; rw [hcore, hrev],
        by rw [h5]; show s1.core.binaryByteOffset = _; rw [hcore, hrbin]⟩

/-- Invariant of the `ReadByLine::run` loop with context lines: the slice searcher's loop over the
lines `Ls` seen so far is at `S1`, related to the reader's core on the current window. -/
structure RInvC (cfg : Config) (m : MatcherI) (σ : Script) (lbcfg : LineBuffer.Config) (inp : Bytes) (S0 : Core)
    (s : RBL) (Ls : List Bytes) (S1 : Core) : Prop where
  lbinv : ∃ a mm rest, LineBuffer.Inv lbcfg inp s.lb s.rdr a mm rest
  nz : NoZero s.rdr.script
  lbbin : s.lb.binOff = none
  win : s.lb.buffer = window inp s.lb.abs s.lb.buffer.length
  dle : s.lb.abs + s.lb.buffer.length ≤ inp.length
  flat : Ls.flatten = inp.take (s.lb.abs + s.lb.buffer.length)
  allT : AllTerm cfg.lineTerm.asByte Ls
  wT : s.lb.buffer = [] ∨ s.lb.buffer.getLast? = some cfg.lineTerm.asByte
  run : slowLoop cfg m σ inp (spansFrom 0 Ls) S0 = (S1, .ok true)
  sim : ESim cfg inp s.lb.buffer s.lb.abs S1 s.core
  post : PostAt s.core s.lb.buffer.length
  x : XRel cfg inp s.lb.buffer s.lb.abs S1 s.core s.lb.buffer.length

/-- how the loop of `ReadByLine::run` ends, against ONE run of the slow loop over all lines of the input -/
def LoopEndC (cfg : Config) (m : MatcherI) (σ : Script) (inp : Bytes) (S0 : Core) (s' : RBL)
    (res : Res (Option Nat)) : Prop :=
  ∃ ls T1 r1, GoodLines cfg.lineTerm.asByte ls ∧ ls.flatten = inp ∧
    slowLoop cfg m σ inp (spansFrom 0 ls) S0 = (T1, r1) ∧
    T1.events = s'.core.events ∧ T1.binaryByteOffset = none ∧ s'.lb.binOff = none ∧
    match res with
    | .err => r1 = .err
    | .ok (some n) => r1 = .ok false ∧ T1.pos = n
    | .ok none => r1 = .ok true ∧ T1.pos = inp.length ∧ s'.lb.abs = inp.length

/-- the loop of `ReadByLine::run` ended with an allocation error (heap limit): its log is the slice
searcher's log after the lines `Ls` searched so far -/
def LoopErrC (cfg : Config) (m : MatcherI) (σ : Script) (inp : Bytes) (S0 : Core) (s' : RBL)
    (res : Res (Option Nat)) : Prop :=
  res = .err ∧ ∃ Ls tail S1, GoodLines cfg.lineTerm.asByte (Ls ++ tail) ∧ (Ls ++ tail).flatten = inp ∧
    slowLoop cfg m σ inp (spansFrom 0 Ls) S0 = (S1, .ok true) ∧ S1.events = s'.core.events

theorem window_take (inp : Bytes) (a n p : Nat) (hp : p ≤ n) : (window inp a n).take p = window inp a p := by
  unfold window
  rw [List.take_take, show min p n = p by omega]

theorem rblLoop_C {cfg : Config} {m : MatcherI} {σ : Script} {lbcfg : LineBuffer.Config} {inp : Bytes} {S0 : Core}
    (hbin : cfg.binary = .none)
    (hslow : isLineByLineFast cfg m (Core.new cfg false) = false)
    (hlt : lbcfg.lineterm = cfg.lineTerm.asByte) (hb : lbcfg.binary = .none) :
    ∀ (fuel : Nat) (s : RBL) (Ls : List Bytes) (S1 : Core), RInvC cfg m σ lbcfg inp S0 s Ls S1 →
      2 * (inp.length - s.lb.abs) - s.lb.buffer.length + 2 ≤ fuel →
      LoopEndC cfg m σ inp S0 (rblLoop cfg m σ fuel s).1 (rblLoop cfg m σ fuel s).2 ∨
      (lbcfg.alloc ≠ .eager ∧ LoopErrC cfg m σ inp S0 (rblLoop cfg m σ fuel s).1 (rblLoop cfg m σ fuel s).2) := by
  intro fuel
  induction fuel with
  | zero => intro s Ls S1 _ hf; omega
  | succ fuel ih =>
    intro s Ls S1 hR hf
    obtain ⟨hllv, hpos, hJ⟩ := hR.post
    have hdle := hR.dle
    obtain ⟨hcle, hrpos, hrllv, hrev, hrbin⟩ := roll_fields cfg s.lb.buffer s.core hllv
    rcases rblFill_C σ hlt hb hR.lbinv hR.nz hR.lbbin hllv hR.dle with
      ⟨hne, s1, hfill, hcore⟩ | ⟨s1, r, hfill, hI1, hnz1, hbo1, hcore, hwin, hle, htrue, hfalse⟩
    · rw [rblLoop, hfill]
      refine Or.inr ⟨hne, rfl, Ls, splitLines cfg.lineTerm.asByte (inp.drop (s.lb.abs + s.lb.buffer.length)), S1,
        goodLines_append_allTerm hR.allT (splitLines_good _ _), ?_, hR.run, ?_⟩
      · rw [List.flatten_append, hR.flat, splitLines_flatten, List.take_append_drop]
      · show S1.events = s1.core.events
        rw [hcore, hrev]; exact hR.sim.ev
    rw [rblLoop, hfill]
    cases r with
    | false =>
      have hflat : Ls.flatten = inp := by rw [hR.flat, (hfalse rfl).2]; simp
      refine Or.inl ⟨Ls, S1, .ok true, hR.allT.good, hflat, hR.run, ?_, hR.sim.bin1, hbo1, rfl, ?_, (hfalse rfl).1⟩
      · show S1.events = s1.core.events
        rw [hcore, hrev]; exact hR.sim.ev
      · have := hR.sim.pos
        have := (hfalse rfl).2
        omega
    | true =>
      obtain ⟨habs, hmono, hal2, hprog⟩ := htrue rfl
      dsimp only
      generalize hc : (roll cfg s.lb.buffer s.core).2 = c at *
      -- the two windows
      obtain ⟨W, hpl⟩ := win_of_window inp s.lb.abs s.lb.buffer.length hR.dle
      rw [← hR.win] at W
      obtain ⟨W', hpl'⟩ := win_of_window inp s1.lb.abs s1.lb.buffer.length hle
      rw [← hwin] at W'
      have E0 : ESim cfg inp s.lb.buffer (inp.take s.lb.abs).length S1 s.core := by rw [hpl]; exact hR.sim
      have X0 : XRel cfg inp s.lb.buffer (inp.take s.lb.abs).length S1 s.core s.lb.buffer.length := by
        rw [hpl]; exact hR.x
      obtain ⟨_, E1, P1, X1⟩ := roll_sim W W' E0 hR.post X0 hR.wT (by rw [hpl, hpl', hc]; exact habs)
        (by rw [hc]; exact hmono)
      rw [← hcore] at E1
      rw [hc, ← hcore] at P1 X1
      -- the lines of the new part of the window
      have hfast : isLineByLineFast cfg m s1.core = false := isLineByLineFast_false_all cfg m false hslow s1.core
      have hp1 : s1.core.pos = s.lb.buffer.length - c := by rw [hcore, hrpos]
      simp only [matchByLine, hfast, Bool.false_eq_true, if_false, matchByLineSlow]
      rw [hp1, stepLines_from _ _ _ hmono]
      generalize hp : s.lb.buffer.length - c = p at *
      have hgood := splitLines_good cfg.lineTerm.asByte (s1.lb.buffer.drop p)
      have hnflat := splitLines_flatten cfg.lineTerm.asByte (s1.lb.buffer.drop p)
      generalize splitLines cfg.lineTerm.asByte (s1.lb.buffer.drop p) = lsn at hgood hnflat ⊢
      have hprew : (s1.lb.buffer.take p).length = p := by simp; omega
      have hnlen : lsn.flatten.length = s1.lb.buffer.length - p := by rw [hnflat]; simp
      have hsim := slowLoop_sim W' hbin m σ lsn (s1.lb.buffer.take p) S1 s1.core E1
        (by rw [hprew, hnlen, hnflat, show p + (s1.lb.buffer.length - p) = s1.lb.buffer.length by omega,
          List.take_length, List.take_append_drop])
        (by rw [hprew, hnlen]; omega) (by rw [hprew]; exact P1) hgood (fun _ => by rw [hprew]; exact X1)
      rw [hprew, hnlen, show p + (s1.lb.buffer.length - p) = s1.lb.buffer.length by omega, hpl'] at hsim
      -- the slice side's loop over the lines so far and the new ones
      have hLsl : Ls.flatten.length = p + s1.lb.abs := by
        rw [hR.flat]; simp; omega
      have hrun2 : slowLoop cfg m σ inp (spansFrom 0 (Ls ++ lsn)) S0
          = slowLoop cfg m σ inp (spansFrom (p + s1.lb.abs) lsn) S1 := by
        rw [spansFrom_append, slowLoop_append, hR.run, Nat.zero_add, hLsl]
      have hflat2 : (Ls ++ lsn).flatten = inp.take (s1.lb.abs + s1.lb.buffer.length) := by
        rw [List.flatten_append, hR.flat, hnflat, show s.lb.abs + s.lb.buffer.length = s1.lb.abs + p by omega,
          take_add_window, take_add_window, List.append_assoc]
        congr 1
        rw [← window_take inp s1.lb.abs s1.lb.buffer.length p (by omega), ← hwin, List.take_append_drop]
      -- all lines of the input, for the exits that do not reach the end
      have hfull : ∃ tail, GoodLines cfg.lineTerm.asByte ((Ls ++ lsn) ++ tail) ∧ ((Ls ++ lsn) ++ tail).flatten = inp := by
        refine ⟨splitLines cfg.lineTerm.asByte (inp.drop (s1.lb.abs + s1.lb.buffer.length)), ?_, ?_⟩
        · cases hal2 with
          | inl hl =>
            apply goodLines_append_allTerm _ (splitLines_good _ _)
            apply allTerm_append hR.allT
            by_cases hd : s1.lb.buffer.drop p = []
            · have : lsn = [] := by
                cases hgood with
                | nil => rfl
                | last l hu => simp [hd] at hnflat; exact absurd hnflat hu.1
                | cons l ls' ht _ => simp [hd] at hnflat; exact absurd hnflat.1 ht.ne_nil
              rw [this]; intro x hx; simp at hx
            · apply goodLines_allTerm_of_last hgood
              rw [hnflat, List.getLast?_drop]
              have : ¬ s1.lb.buffer.length ≤ p := by
                intro hc2; exact hd (List.drop_eq_nil_of_le hc2)
              rw [if_neg this]; exact hl
          | inr he =>
            rw [he, List.drop_length]
            simp only [splitLines, List.append_nil]
            exact goodLines_append_allTerm hR.allT hgood
        · rw [List.flatten_append, hflat2, splitLines_flatten, List.take_append_drop]
      generalize hg2 : slowLoop cfg m σ s1.lb.buffer (spansFrom p lsn) s1.core = g2 at hsim ⊢
      generalize hg1 : slowLoop cfg m σ inp (spansFrom (p + s1.lb.abs) lsn) S1 = g1 at hsim hrun2
      obtain ⟨core2, res2⟩ := g2
      obtain ⟨T1, res1⟩ := g1
      obtain ⟨hS, hpostX⟩ := hsim
      have hres : res1 = res2 := hS.res
      subst hres
      have hrunfull : ∀ tail, res1 ≠ .ok true →
          slowLoop cfg m σ inp (spansFrom 0 ((Ls ++ lsn) ++ tail)) S0 = (T1, res1) := by
        intro tail hne
        rw [spansFrom_append, slowLoop_append, hrun2]
        cases res1 with
        | err => rfl
        | ok b =>
          cases b with
          | false => rfl
          | true => exact absurd rfl hne
      cases res1 with
      | err =>
        obtain ⟨tail, hgf, hff⟩ := hfull
        exact Or.inl ⟨_, T1, .err, hgf, hff, hrunfull tail (by simp), hS.fin.ev, hS.fin.bin1, hbo1, rfl⟩
      | ok b =>
        cases b with
        | false =>
          obtain ⟨tail, hgf, hff⟩ := hfull
          refine Or.inl ⟨_, T1, .ok false, hgf, hff, hrunfull tail (by simp), hS.fin.ev, hS.fin.bin1, hbo1, rfl, ?_⟩
          have : T1.pos = core2.pos + s1.lb.abs := hS.fin.pos
          show T1.pos = s1.lb.abs + core2.pos
          omega
        | true =>
          dsimp only
          have E2 : ESim cfg inp s1.lb.buffer s1.lb.abs T1 core2 := hS.cont rfl
          obtain ⟨P2, X2⟩ := hpostX rfl
          by_cases hend : s1.lb.abs + s1.lb.buffer.length = inp.length
          · -- the whole input has been searched
            obtain ⟨s', h1, h2, _⟩ := rblLoop_end (σ := σ) hslow hlt hb fuel { s1 with core := core2 }
              (by show s1.lb.buffer.length + 2 ≤ fuel; omega) hI1 hnz1 hbo1 hend P2.2.1 P2.1
            have hfl3 : (Ls ++ lsn).flatten = inp := by rw [hflat2, hend]; simp
            rcases h1 with ⟨h1, h3, h4⟩ | ⟨hne, h1⟩
            · rw [h1]
              refine Or.inl ⟨Ls ++ lsn, T1, .ok true, goodLines_append_allTerm hR.allT hgood, hfl3,
                hrun2, by rw [h2]; exact E2.ev, E2.bin1, h4, rfl, ?_, h3⟩
              have := E2.pos
              have : core2.pos = s1.lb.buffer.length := P2.2.1
              omega
            · rw [h1]
              exact Or.inr ⟨hne, rfl, Ls ++ lsn, [], T1, by simpa using goodLines_append_allTerm hR.allT hgood,
                by simpa using hfl3, hrun2, by rw [h2]; exact E2.ev⟩
          · have hlast : s1.lb.buffer.getLast? = some cfg.lineTerm.asByte := by
              cases hal2 with
              | inl h => exact h
              | inr h => exact absurd h hend
            have hallN : AllTerm cfg.lineTerm.asByte lsn := by
              by_cases hd : s1.lb.buffer.drop p = []
              · have : lsn = [] := by
                  cases hgood with
                  | nil => rfl
                  | last l hu => simp [hd] at hnflat; exact absurd hnflat hu.1
                  | cons l ls' ht _ => simp [hd] at hnflat; exact absurd hnflat.1 ht.ne_nil
                rw [this]; intro x hx; simp at hx
              · apply goodLines_allTerm_of_last hgood
                rw [hnflat, List.getLast?_drop]
                have : ¬ s1.lb.buffer.length ≤ p := by
                  intro hc2; exact hd (List.drop_eq_nil_of_le hc2)
                rw [if_neg this]; exact hlast
            have hX3 : XRel cfg inp s1.lb.buffer s1.lb.abs T1 core2 s1.lb.buffer.length := by
              by_cases hn : lsn = []
              · subst hn
                simp only [spansFrom, slowLoop, Prod.mk.injEq] at hg1 hg2
                rw [← hg1.1, ← hg2.1]
                have : s1.lb.buffer.length = p := by
                  simp only [List.flatten_nil, List.length_nil] at hnlen
                  omega
                rw [this, ← hpl']; exact X1
              · exact X2 hn hallN
            have hR2 : RInvC cfg m σ lbcfg inp S0 { s1 with core := core2 } (Ls ++ lsn) T1 :=
              ⟨hI1, hnz1, hbo1, hwin, hle, hflat2, allTerm_append hR.allT hallN, Or.inr hlast, hrun2, E2, P2, hX3⟩
            exact ih { s1 with core := core2 } _ T1 hR2
              (by show 2 * (inp.length - s1.lb.abs) - s1.lb.buffer.length + 2 ≤ fuel; omega)

end RgVerif.Searcher
