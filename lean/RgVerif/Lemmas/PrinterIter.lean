import RgVerif.Spec.PrinterSpec
/-
Helper lemmas for C09 / C10 about `find_iter_at_in_context`: what the collected matches look like for a matcher
whose answers are sane (`Sane`), and when the first answer of the matcher is the head of the list.
-/
namespace RgVerif.Lemmas.PrinterIter
open RgVerif RgVerif.Matcher RgVerif.Replace RgVerif.Printer RgVerif.PrinterSpec

/-- What is assumed of `find_at(haystack, ·)` for one haystack of length `len`: a reported match starts at or
after the search position, is well-formed and lies inside the haystack. (C11 is about the real matcher
meeting such a contract.) -/
structure Sane (find : Nat → Option Span) (len : Nat) : Prop where
  ge : ∀ p m, find p = some m → p ≤ m.s
  le : ∀ p m, find p = some m → m.s ≤ m.e
  bound : ∀ p m, find p = some m → m.e ≤ len

/-- the closure `find_iter_at_in_context` hands to `find_iter_at`, with the recording callback inlined -/
def step (re : Nat) (atEnd : Bool) : List Span → Span → List Span × Bool :=
  fun acc m => if beyondRange re atEnd m.s then (acc, false) else (acc ++ [⟨m.s, min m.e re⟩], true)

theorem beyondRange_false_iff (re : Nat) (atEnd : Bool) (s : Nat) :
    beyondRange re atEnd s = false ↔ (s < re ∨ (atEnd = true ∧ s = re)) := by
  unfold beyondRange
  cases atEnd <;> simp <;> omega

theorem step_cases (re : Nat) (atEnd : Bool) (acc : List Span) (m : Span) :
    (step re atEnd acc m = (acc, false)) ∨
    (step re atEnd acc m = (acc ++ [⟨m.s, min m.e re⟩], true) ∧ (m.s < re ∨ (atEnd = true ∧ m.s = re))) := by
  unfold step
  cases hb : beyondRange re atEnd m.s with
  | true => left; simp
  | false => right; exact ⟨by simp, (beyondRange_false_iff re atEnd m.s).mp hb⟩

theorem findIterInContext_eq (sc : SCfg) (find : Oracle) (bytes : Bytes) (rs re : Nat) :
    findIterInContext sc find bytes rs re =
      iterGo id (find (cutHaystack sc bytes re)) (cutHaystack sc bytes re).length
        (step re (isAtUnterminatedEnd sc.lt (cutHaystack sc bytes re) rs re))
        ((cutHaystack sc bytes re).length + 2) rs none [] := rfl

/-- unfolding of one round of the loop -/
theorem iterGo_succ {σ : Type} (find : Nat → Option Span) (len : Nat) (f : σ → Span → σ × Bool)
    (fuel lastEnd : Nat) (lastMatch : Option Nat) (st : σ) :
    iterGo id find len f (fuel + 1) lastEnd lastMatch st =
      if lastEnd > len then st
      else match find lastEnd with
        | none => st
        | some m =>
          if m.s == m.e then
            if some m.e == lastMatch then iterGo id find len f fuel (m.e + 1) lastMatch st
            else
              if (f st m).2 then iterGo id find len f fuel (m.e + 1) (some m.e) (f st m).1 else (f st m).1
          else
            if (f st m).2 then iterGo id find len f fuel m.e (some m.e) (f st m).1 else (f st m).1 := by
  rw [iterGo]
  by_cases h : lastEnd > len
  · simp [h]
  · simp only [h, ↓reduceIte]
    cases find lastEnd with
    | none => rfl
    | some m =>
      simp only [id]

/-- the loop ends when the matcher finds nothing -/
theorem iterGo_find_none {σ : Type} (find : Nat → Option Span) (len : Nat) (f : σ → Span → σ × Bool)
    (fuel lastEnd : Nat) (lastMatch : Option Nat) (st : σ) (h : find lastEnd = none) :
    iterGo id find len f fuel lastEnd lastMatch st = st := by
  cases fuel with
  | zero => simp [iterGo]
  | succ fuel =>
    rw [iterGo_succ, h]
    split <;> rfl

/-- The collected list only grows: the accumulator stays a prefix. -/
theorem iterGo_prefix (find : Nat → Option Span) (len re : Nat) (atEnd : Bool) :
    ∀ fuel lastEnd lastMatch acc, ∃ t, iterGo id find len (step re atEnd) fuel lastEnd lastMatch acc = acc ++ t := by
  intro fuel
  induction fuel with
  | zero => intro le lm acc; exact ⟨[], by simp [iterGo]⟩
  | succ fuel ih =>
    intro le lm acc
    rw [iterGo_succ]
    by_cases h : le > len
    · exact ⟨[], by simp [h]⟩
    · simp only [h, ↓reduceIte]
      cases find le with
      | none => exact ⟨[], by simp⟩
      | some m =>
        simp only
        have hstep : (step re atEnd acc m = (acc, false)) ∨ (step re atEnd acc m = (acc ++ [⟨m.s, min m.e re⟩], true)) := by
          rcases step_cases re atEnd acc m with h | ⟨h, _⟩
          · exact Or.inl h
          · exact Or.inr h
        by_cases h1 : (m.s == m.e) = true
        · simp only [h1, ↓reduceIte]
          by_cases h2 : (some m.e == lm) = true
          · simp only [h2, ↓reduceIte]; exact ih _ _ _
          · simp only [h2, Bool.false_eq_true, ↓reduceIte]
            rcases hstep with hs | hs
            · rw [hs]; exact ⟨[], by simp⟩
            · rw [hs]
              simp only [↓reduceIte]
              obtain ⟨t, ht⟩ := ih (m.e + 1) (some m.e) (acc ++ [⟨m.s, min m.e re⟩])
              exact ⟨⟨m.s, min m.e re⟩ :: t, by rw [ht]; simp⟩
        · simp only [h1, Bool.false_eq_true, ↓reduceIte]
          rcases hstep with hs | hs
          · rw [hs]; exact ⟨[], by simp⟩
          · rw [hs]
            simp only [↓reduceIte]
            obtain ⟨t, ht⟩ := ih m.e (some m.e) (acc ++ [⟨m.s, min m.e re⟩])
            exact ⟨⟨m.s, min m.e re⟩ :: t, by rw [ht]; simp⟩

/-- Invariant of everything that is collected, for a sane matcher: it starts at or after the start of the
range, is well-formed, lies inside the haystack and inside the range (its end is clamped to `re`), and starts
before `re` (or exactly at `re` under `atEnd`). -/
def Collected (len rs re : Nat) (atEnd : Bool) (m : Span) : Prop :=
  rs ≤ m.s ∧ m.s ≤ m.e ∧ m.e ≤ len ∧ m.e ≤ re ∧ (m.s < re ∨ (atEnd = true ∧ m.s = re))

theorem iterGo_collected (find : Nat → Option Span) (len rs re : Nat) (atEnd : Bool) (hs : Sane find len) :
    ∀ fuel lastEnd lastMatch acc, rs ≤ lastEnd → (∀ m ∈ acc, Collected len rs re atEnd m) →
      ∀ m ∈ iterGo id find len (step re atEnd) fuel lastEnd lastMatch acc, Collected len rs re atEnd m := by
  intro fuel
  induction fuel with
  | zero => intro le lm acc _ hacc; simpa [iterGo] using hacc
  | succ fuel ih =>
    intro le lm acc hle hacc
    rw [iterGo_succ]
    by_cases h : le > len
    · simpa [h] using hacc
    · simp only [h, ↓reduceIte]
      cases hf : find le with
      | none => simpa using hacc
      | some m =>
        simp only
        have hge := hs.ge le m hf
        have hme := hs.le le m hf
        have hb := hs.bound le m hf
        have hstep := step_cases re atEnd acc m
        have hnew : ∀ x ∈ acc ++ [⟨m.s, min m.e re⟩], (m.s < re ∨ (atEnd = true ∧ m.s = re)) →
            Collected len rs re atEnd x := by
          intro x hx hcond
          rcases List.mem_append.mp hx with hx | hx
          · exact hacc x hx
          · simp only [List.mem_singleton] at hx
            subst hx
            refine ⟨by simp only; omega, by simp only; omega, by simp only; omega, by simp only; omega, hcond⟩
        by_cases h1 : (m.s == m.e) = true
        · simp only [h1, ↓reduceIte]
          by_cases h2 : (some m.e == lm) = true
          · simp only [h2, ↓reduceIte]
            exact ih _ _ _ (by omega) hacc
          · simp only [h2, Bool.false_eq_true, ↓reduceIte]
            rcases hstep with hs' | ⟨hs', hcond⟩
            · rw [hs']; simpa using hacc
            · rw [hs']
              simp only [↓reduceIte]
              exact ih _ _ _ (by omega) (fun x hx => hnew x hx hcond)
        · simp only [h1, Bool.false_eq_true, ↓reduceIte]
          rcases hstep with hs' | ⟨hs', hcond⟩
          · rw [hs']; simpa using hacc
          · rw [hs']
            simp only [↓reduceIte]
            exact ih _ _ _ (by omega) (fun x hx => hnew x hx hcond)

/-- Everything `find_iter_at_in_context` reports, for a matcher that is sane on the cut haystack. -/
theorem findIterInContext_collected (sc : SCfg) (find : Oracle) (bytes : Bytes) (rs re : Nat)
    (hs : Sane (find (cutHaystack sc bytes re)) (cutHaystack sc bytes re).length) :
    ∀ m ∈ findIterInContext sc find bytes rs re,
      Collected (cutHaystack sc bytes re).length rs re
        (isAtUnterminatedEnd sc.lt (cutHaystack sc bytes re) rs re) m := by
  rw [findIterInContext_eq]
  exact iterGo_collected _ _ rs re _ hs _ rs none [] (Nat.le_refl _) (by simp)

/-- The first answer of the matcher, when it starts inside the range, is the first match reported. -/
theorem findIterInContext_head (sc : SCfg) (find : Oracle) (bytes : Bytes) (rs re : Nat) (m : Span)
    (hrs : rs ≤ (cutHaystack sc bytes re).length)
    (hf : find (cutHaystack sc bytes re) rs = some m)
    (hin : m.s < re ∨ (isAtUnterminatedEnd sc.lt (cutHaystack sc bytes re) rs re = true ∧ m.s = re)) :
    ∃ t, findIterInContext sc find bytes rs re = ⟨m.s, min m.e re⟩ :: t := by
  rw [findIterInContext_eq]
  have hfuel : (cutHaystack sc bytes re).length + 2 = ((cutHaystack sc bytes re).length + 1) + 1 := rfl
  rw [hfuel, iterGo_succ]
  have hnot : ¬ rs > (cutHaystack sc bytes re).length := by omega
  simp only [hnot, ↓reduceIte, hf]
  have hstep : step re (isAtUnterminatedEnd sc.lt (cutHaystack sc bytes re) rs re) [] m = ([⟨m.s, min m.e re⟩], true) := by
    unfold step
    rw [(beyondRange_false_iff re _ m.s).mpr hin]
    rfl
  by_cases h1 : (m.s == m.e) = true
  · simp only [h1, ↓reduceIte]
    have h2 : (some m.e == (none : Option Nat)) = false := rfl
    simp only [h2, Bool.false_eq_true, ↓reduceIte, hstep]
    obtain ⟨t, ht⟩ := iterGo_prefix (find (cutHaystack sc bytes re)) (cutHaystack sc bytes re).length re
      (isAtUnterminatedEnd sc.lt (cutHaystack sc bytes re) rs re) ((cutHaystack sc bytes re).length + 1) (m.e + 1)
      (some m.e) [⟨m.s, min m.e re⟩]
    exact ⟨t, by rw [ht]; rfl⟩
  · simp only [h1, Bool.false_eq_true, ↓reduceIte, hstep]
    obtain ⟨t, ht⟩ := iterGo_prefix (find (cutHaystack sc bytes re)) (cutHaystack sc bytes re).length re
      (isAtUnterminatedEnd sc.lt (cutHaystack sc bytes re) rs re) ((cutHaystack sc bytes re).length + 1) m.e
      (some m.e) [⟨m.s, min m.e re⟩]
    exact ⟨t, by rw [ht]; rfl⟩

end RgVerif.Lemmas.PrinterIter
