import RgVerif.Spec.PrinterSpec
/-
Helper lemmas for C09 / C10 about `find_iter_at_in_context`: what the collected matches look like for a matcher
whose answers are sane (`Sane`), and when the first answer of the matcher is the head of the list.  Both branches
(line-oriented: the line's own content searched from 0; multi-line: the cut buffer searched from `range.start`) are
instances of one callback shape `gstep keep tr`: stop at the first match that is not kept, record `tr m` otherwise.
-/
namespace RgVerif.Lemmas.PrinterIter
open RgVerif RgVerif.Matcher RgVerif.Replace RgVerif.Printer RgVerif.PrinterSpec

/-- What is assumed of `find_at(haystack, ·)` for one haystack of length `len`: a reported match starts at or
after the search position, is well-formed and lies inside the haystack. (C11 is about the real matcher
meeting such a contract.) -/
structure Sane (find : Nat → Option Span) (len : Nat) : Prop where
  ge : ∀ p m, find p = some m → p ≤ m.s
  le : ∀ p m, find p = some m → m.s ≤ m.e
  bound : ∀ p m, find p = some m → m.e ≤ len

/-- the callback shape of both branches -/
def gstep (keep : Span → Bool) (tr : Span → Span) : List Span → Span → List Span × Bool :=
  fun acc m => if keep m then (acc ++ [tr m], true) else (acc, false)

/-- multi-line branch: keep unless beyond the range, clamp the end -/
def keepML (re : Nat) (atEnd : Bool) (m : Span) : Bool := !beyondRange re atEnd m.s
def trML (re : Nat) (m : Span) : Span := ⟨m.s, min m.e re⟩
/-- line-oriented branch: keep everything, shift back by `rs` -/
def trLine (rs : Nat) (m : Span) : Span := ⟨m.s + rs, m.e + rs⟩

/-- the haystack shown to the matcher, the start position, and the callback, per branch -/
theorem findIterInContext_eq (sc : SCfg) (find : Oracle) (bytes : Bytes) (rs re : Nat) :
    findIterInContext sc find bytes rs re =
      if sc.multiLine then
        iterGo id (find (cutHaystack sc bytes re)) (cutHaystack sc bytes re).length
          (gstep (keepML re (isAtUnterminatedEnd sc.lt (cutHaystack sc bytes re) rs re)) (trML re))
          ((cutHaystack sc bytes re).length + 2) rs none []
      else
        iterGo id (find (lineHaystack sc.lt bytes rs re)) (lineHaystack sc.lt bytes rs re).length
          (gstep (fun _ => true) (trLine rs)) ((lineHaystack sc.lt bytes rs re).length + 2) 0 none [] := by
  unfold findIterInContext findIterAt gstep keepML trML trLine
  by_cases h : sc.multiLine = true
  · simp only [h, ↓reduceIte]
    congr 1
    funext acc m
    cases beyondRange re (isAtUnterminatedEnd sc.lt (cutHaystack sc bytes re) rs re) m.s <;> rfl
  · simp only [h, Bool.false_eq_true, ↓reduceIte]

theorem findIterInContext_shown (sc : SCfg) (find : Oracle) (bytes : Bytes) (rs re : Nat) :
    findIterInContext sc find bytes rs re =
      iterGo id (find (shownHay sc bytes rs re)) (shownHay sc bytes rs re).length
        (if sc.multiLine then gstep (keepML re (isAtUnterminatedEnd sc.lt (cutHaystack sc bytes re) rs re)) (trML re)
         else gstep (fun _ => true) (trLine rs))
        ((shownHay sc bytes rs re).length + 2) (shownFrom sc rs) none [] := by
  rw [findIterInContext_eq]
  unfold shownHay shownFrom
  by_cases h : sc.multiLine = true <;> simp [h]

/-- unfolding of one round of the loop -/
theorem iterGo_succ {σ : Type} (find : Nat → Option Span) (len : Nat) (f : σ → Span → σ × Bool)
    (fuel lastEnd : Nat) (lastMatch : Option Nat) (st : σ) :
    iterGo id find len f (fuel + 1) lastEnd lastMatch st =
      if lastEnd > len then st
      else match find lastEnd with
        | none => st
        | some m =>
          if m.s == m.e then
            if some m.e == lastMatch then iterGo id find len f fuel (m.e + 1) lastMatch st
            else
              if (f st m).2 then iterGo id find len f fuel (m.e + 1) (some m.e) (f st m).1 else (f st m).1
          else
            if (f st m).2 then iterGo id find len f fuel m.e (some m.e) (f st m).1 else (f st m).1 := by
  rw [iterGo]
  by_cases h : lastEnd > len
  · simp [h]
  · simp only [h, ↓reduceIte]
    cases find lastEnd with
    | none => rfl
    | some m =>
      simp only [id]

/-- the loop ends when the matcher finds nothing -/
theorem iterGo_find_none {σ : Type} (find : Nat → Option Span) (len : Nat) (f : σ → Span → σ × Bool)
    (fuel lastEnd : Nat) (lastMatch : Option Nat) (st : σ) (h : find lastEnd = none) :
    iterGo id find len f fuel lastEnd lastMatch st = st := by
  cases fuel with
  | zero => simp [iterGo]
  | succ fuel =>
    rw [iterGo_succ, h]
    split <;> rfl

theorem gstep_cases (keep : Span → Bool) (tr : Span → Span) (acc : List Span) (m : Span) :
    (gstep keep tr acc m = (acc, false) ∧ keep m = false) ∨
    (gstep keep tr acc m = (acc ++ [tr m], true) ∧ keep m = true) := by
  unfold gstep
  cases h : keep m <;> simp

/-- The collected list only grows: the accumulator stays a prefix. -/
theorem iterGo_prefix (find : Nat → Option Span) (len : Nat) (keep : Span → Bool) (tr : Span → Span) :
    ∀ fuel lastEnd lastMatch acc, ∃ t, iterGo id find len (gstep keep tr) fuel lastEnd lastMatch acc = acc ++ t := by
  intro fuel
  induction fuel with
  | zero => intro le lm acc; exact ⟨[], by simp [iterGo]⟩
  | succ fuel ih =>
    intro le lm acc
    rw [iterGo_succ]
    by_cases h : le > len
    · exact ⟨[], by simp [h]⟩
    · simp only [h, ↓reduceIte]
      cases find le with
      | none => exact ⟨[], by simp⟩
      | some m =>
        simp only
        rcases gstep_cases keep tr acc m with ⟨hs, _⟩ | ⟨hs, _⟩
        · by_cases h1 : (m.s == m.e) = true
          · simp only [h1, ↓reduceIte]
            by_cases h2 : (some m.e == lm) = true
            · simp only [h2, ↓reduceIte]; exact ih _ _ _
            · simp only [h2, Bool.false_eq_true, ↓reduceIte, hs]; exact ⟨[], by simp⟩
          · simp only [h1, Bool.false_eq_true, ↓reduceIte, hs]; exact ⟨[], by simp⟩
        · by_cases h1 : (m.s == m.e) = true
          · simp only [h1, ↓reduceIte]
            by_cases h2 : (some m.e == lm) = true
            · simp only [h2, ↓reduceIte]; exact ih _ _ _
            · simp only [h2, Bool.false_eq_true, ↓reduceIte, hs]
              obtain ⟨t, ht⟩ := ih (m.e + 1) (some m.e) (acc ++ [tr m])
              exact ⟨tr m :: t, by rw [ht]; simp⟩
          · simp only [h1, Bool.false_eq_true, ↓reduceIte, hs]
            obtain ⟨t, ht⟩ := ih m.e (some m.e) (acc ++ [tr m])
            exact ⟨tr m :: t, by rw [ht]; simp⟩

/-- **Everything collected is a kept answer of the matcher**, given from a position at or after `from`. -/
theorem iterGo_mem (find : Nat → Option Span) (len from_ : Nat) (keep : Span → Bool) (tr : Span → Span)
    (hs : Sane find len) :
    ∀ fuel lastEnd lastMatch acc, from_ ≤ lastEnd →
      ∀ x ∈ iterGo id find len (gstep keep tr) fuel lastEnd lastMatch acc,
        x ∈ acc ∨ ∃ p m, from_ ≤ p ∧ find p = some m ∧ keep m = true ∧ x = tr m := by
  intro fuel
  induction fuel with
  | zero => intro le lm acc _ x hx; left; simpa [iterGo] using hx
  | succ fuel ih =>
    intro le lm acc hle x hx
    rw [iterGo_succ] at hx
    by_cases h : le > len
    · left; simpa [h] using hx
    · simp only [h, ↓reduceIte] at hx
      cases hf : find le with
      | none => left; simpa [hf] using hx
      | some m =>
        simp only [hf] at hx
        have hge := hs.ge le m hf
        have hme := hs.le le m hf
        have lift : ∀ le' lm', from_ ≤ le' →
            x ∈ iterGo id find len (gstep keep tr) fuel le' lm' (acc ++ [tr m]) → keep m = true →
            x ∈ acc ∨ ∃ p m, from_ ≤ p ∧ find p = some m ∧ keep m = true ∧ x = tr m := by
          intro le' lm' hle' hx' hk
          rcases ih le' lm' (acc ++ [tr m]) hle' x hx' with h1 | h1
          · rcases List.mem_append.mp h1 with h2 | h2
            · exact Or.inl h2
            · simp only [List.mem_singleton] at h2
              exact Or.inr ⟨le, m, hle, hf, hk, h2⟩
          · exact Or.inr h1
        rcases gstep_cases keep tr acc m with ⟨hst, _⟩ | ⟨hst, hk⟩
        · by_cases h1 : (m.s == m.e) = true
          · simp only [h1, ↓reduceIte] at hx
            by_cases h2 : (some m.e == lm) = true
            · simp only [h2, ↓reduceIte] at hx
              exact ih _ _ _ (by omega) x hx
            · simp only [h2, Bool.false_eq_true, ↓reduceIte, hst] at hx; exact Or.inl hx
          · simp only [h1, Bool.false_eq_true, ↓reduceIte, hst] at hx; exact Or.inl hx
        · by_cases h1 : (m.s == m.e) = true
          · simp only [h1, ↓reduceIte] at hx
            by_cases h2 : (some m.e == lm) = true
            · simp only [h2, ↓reduceIte] at hx
              exact ih _ _ _ (by omega) x hx
            · simp only [h2, Bool.false_eq_true, ↓reduceIte, hst] at hx
              exact lift _ _ (by omega) hx hk
          · simp only [h1, Bool.false_eq_true, ↓reduceIte, hst] at hx
            exact lift _ _ (by omega) hx hk

/-- The first answer of the matcher, when kept, is the first match recorded. -/
theorem iterGo_head (find : Nat → Option Span) (len from_ : Nat) (keep : Span → Bool) (tr : Span → Span) (m : Span)
    (hfrom : from_ ≤ len) (hf : find from_ = some m) (hk : keep m = true) (fuel : Nat) :
    ∃ t, iterGo id find len (gstep keep tr) (fuel + 1) from_ none [] = tr m :: t := by
  rw [iterGo_succ]
  have hnot : ¬ from_ > len := by omega
  simp only [hnot, ↓reduceIte, hf]
  have hstep : gstep keep tr [] m = ([tr m], true) := by unfold gstep; simp [hk]
  by_cases h1 : (m.s == m.e) = true
  · simp only [h1, ↓reduceIte]
    have h2 : (some m.e == (none : Option Nat)) = false := rfl
    simp only [h2, Bool.false_eq_true, ↓reduceIte, hstep]
    obtain ⟨t, ht⟩ := iterGo_prefix find len keep tr fuel (m.e + 1) (some m.e) [tr m]
    exact ⟨t, by rw [ht]; rfl⟩
  · simp only [h1, Bool.false_eq_true, ↓reduceIte, hstep]
    obtain ⟨t, ht⟩ := iterGo_prefix find len keep tr fuel m.e (some m.e) [tr m]
    exact ⟨t, by rw [ht]; rfl⟩

theorem beyondRange_false_iff (re : Nat) (atEnd : Bool) (s : Nat) :
    beyondRange re atEnd s = false ↔ (s < re ∨ (atEnd = true ∧ s = re)) := by
  unfold beyondRange
  cases atEnd <;> simp <;> omega

theorem trim_le' (lt : LineTerm) (buf : Bytes) (s e : Nat) : trimLineTerminator lt buf s e ≤ e := by
  unfold trimLineTerminator
  split
  · simp only; split <;> omega
  · exact Nat.le_refl _

theorem lineHaystack_length_le (lt : LineTerm) (bytes : Bytes) (rs re : Nat) :
    (lineHaystack lt bytes rs re).length ≤ re - rs := by
  unfold lineHaystack slice
  have := trim_le' lt bytes rs re
  simp only [List.length_drop, List.length_take]
  omega

/-- **Everything `find_iter_at_in_context` reports lies inside the range**, for a matcher that is sane on the
haystack it is shown: `rs ≤ start ≤ end ≤ re`. -/
theorem findIterInContext_inside (sc : SCfg) (find : Oracle) (bytes : Bytes) (rs re : Nat) (hrr : rs ≤ re)
    (hs : Sane (find (shownHay sc bytes rs re)) (shownHay sc bytes rs re).length) :
    ∀ m ∈ findIterInContext sc find bytes rs re, rs ≤ m.s ∧ m.s ≤ m.e ∧ m.e ≤ re := by
  intro x hx
  rw [findIterInContext_shown] at hx
  by_cases hml : sc.multiLine = true
  · simp only [hml, ↓reduceIte] at hx
    have hfrom : shownFrom sc rs = rs := by simp [shownFrom, hml]
    rw [hfrom] at hx
    rcases iterGo_mem _ _ rs _ _ hs _ rs none [] (Nat.le_refl _) x hx with h | ⟨p, m, hp, hf, hk, rfl⟩
    · simp at h
    · have h1 := hs.ge p m hf
      have h2 := hs.le p m hf
      have hk' := (beyondRange_false_iff re _ m.s).mp (by simpa [keepML] using hk)
      simp only [trML]
      refine ⟨by omega, ?_, by omega⟩
      rcases hk' with h | ⟨_, h⟩ <;> omega
  · simp only [hml, Bool.false_eq_true, ↓reduceIte] at hx
    have hfrom : shownFrom sc rs = 0 := by simp [shownFrom, hml]
    rw [hfrom] at hx
    rcases iterGo_mem _ _ 0 _ _ hs _ 0 none [] (Nat.le_refl _) x hx with h | ⟨p, m, _, hf, _, rfl⟩
    · simp at h
    · have h2 := hs.le p m hf
      have h3 := hs.bound p m hf
      have hlen : (shownHay sc bytes rs re).length ≤ re - rs := by
        simp only [shownHay, hml, Bool.false_eq_true, ↓reduceIte]
        exact lineHaystack_length_le sc.lt bytes rs re
      simp only [trLine]
      exact ⟨by omega, by omega, by omega⟩

/-- The first answer of the matcher from the start of the range — when it starts inside the range in multi-line
mode; always in line-oriented mode — is the first match reported (shifted / clamped as the branch does). -/
theorem findIterInContext_head (sc : SCfg) (find : Oracle) (bytes : Bytes) (rs re : Nat) (m : Span)
    (hrs : shownFrom sc rs ≤ (shownHay sc bytes rs re).length)
    (hf : find (shownHay sc bytes rs re) (shownFrom sc rs) = some m)
    (hin : sc.multiLine = true →
      (m.s < re ∨ (isAtUnterminatedEnd sc.lt (cutHaystack sc bytes re) rs re = true ∧ m.s = re))) :
    ∃ t, findIterInContext sc find bytes rs re =
      (if sc.multiLine then (⟨m.s, min m.e re⟩ : Span) else ⟨m.s + rs, m.e + rs⟩) :: t := by
  rw [findIterInContext_shown]
  by_cases hml : sc.multiLine = true
  · simp only [hml, ↓reduceIte]
    have hk : keepML re (isAtUnterminatedEnd sc.lt (cutHaystack sc bytes re) rs re) m = true := by
      simp [keepML, (beyondRange_false_iff re _ m.s).mpr (hin hml)]
    obtain ⟨t, ht⟩ := iterGo_head _ _ _ _ (trML re) m hrs hf hk ((shownHay sc bytes rs re).length + 1)
    exact ⟨t, by rw [ht]; rfl⟩
  · simp only [hml, Bool.false_eq_true, ↓reduceIte]
    obtain ⟨t, ht⟩ := iterGo_head _ _ _ (fun _ => true) (trLine rs) m hrs hf rfl ((shownHay sc bytes rs re).length + 1)
    exact ⟨t, by rw [ht]; rfl⟩

end RgVerif.Lemmas.PrinterIter
