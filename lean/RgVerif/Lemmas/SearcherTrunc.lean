import RgVerif.Lemmas.SearcherSlow
/-
`stop_on_nonmatch`: facts about `stopTrunc` / `effective`, and restriction of a layout to a prefix of the lines.
-/
namespace RgVerif.Searcher
open RgVerif RgVerif.Matcher RgVerif.Lines RgVerif.GrepSpec

theorem selAt_cons_zero (x : SLine) (l : List SLine) : selAt (x :: l) 0 = x.2 := by simp [selAt]
theorem selAt_cons_succ (x : SLine) (l : List SLine) (j : Nat) : selAt (x :: l) (j + 1) = selAt l j := by
  simp [selAt]

theorem hasSel_zero (l : List SLine) : hasSel l 0 = false := by simp [hasSel]

theorem hasSel_cons_succ (x : SLine) (l : List SLine) (j : Nat) :
    hasSel (x :: l) (j + 1) = (x.2 || hasSel l j) := by
  induction j with
  | zero => simp [hasSel, selAt]
  | succ j ih => rw [hasSel_succ, ih, hasSel_succ, selAt_cons_succ, Bool.or_assoc]

theorem stopTrunc_cons_stop {x : SLine} {seen : Bool} (r : List SLine) (h : (!x.2 && seen) = true) :
    stopTrunc seen (x :: r) = [x] := by simp [stopTrunc, h]

theorem stopTrunc_cons_go {x : SLine} {seen : Bool} (r : List SLine) (h : ¬ (!x.2 && seen) = true) :
    stopTrunc seen (x :: r) = x :: stopTrunc (seen || x.2) r := by simp [stopTrunc, h]

theorem stopTrunc_prefix : ∀ (l : List SLine) (seen : Bool), ∃ rest, l = stopTrunc seen l ++ rest := by
  intro l
  induction l with
  | nil => intro seen; exact ⟨[], rfl⟩
  | cons x r ih =>
    intro seen
    by_cases hc : (!x.2 && seen) = true
    · rw [stopTrunc_cons_stop r hc]; exact ⟨r, rfl⟩
    · rw [stopTrunc_cons_go r hc]
      obtain ⟨rest, h⟩ := ih (seen || x.2)
      exact ⟨rest, by rw [List.cons_append, ← h]⟩

theorem stopTrunc_ok : ∀ (l : List SLine) (seen : Bool) (j : Nat), j + 1 < (stopTrunc seen l).length →
    selAt (stopTrunc seen l) j = false → (seen || hasSel (stopTrunc seen l) j) = false := by
  intro l
  induction l with
  | nil => intro seen j h; simp [stopTrunc] at h
  | cons x r ih =>
    intro seen j hj hs
    by_cases hc : (!x.2 && seen) = true
    · rw [stopTrunc_cons_stop r hc] at hj; simp at hj
    · rw [stopTrunc_cons_go r hc] at hj hs ⊢
      cases j with
      | zero =>
        rw [selAt_cons_zero] at hs
        rw [hasSel_zero]
        simp [hs] at hc
        simp [hc]
      | succ j =>
        rw [selAt_cons_succ] at hs
        have := ih (seen || x.2) j (by simp at hj; omega) hs
        rw [hasSel_cons_succ, ← Bool.or_assoc]; exact this

theorem stopTrunc_cut : ∀ (l : List SLine) (seen : Bool) (rest : List SLine), l = stopTrunc seen l ++ rest →
    rest ≠ [] → selAt (stopTrunc seen l) ((stopTrunc seen l).length - 1) = false ∧
      (seen || hasSel (stopTrunc seen l) ((stopTrunc seen l).length - 1)) = true := by
  intro l
  induction l with
  | nil => intro seen rest h hr; simp [stopTrunc] at h; exact absurd h hr
  | cons x r ih =>
    intro seen rest h hr
    by_cases hc : (!x.2 && seen) = true
    · rw [stopTrunc_cons_stop r hc]
      simp only [Bool.and_eq_true, Bool.not_eq_true'] at hc
      simp [selAt_cons_zero, hc.1, hc.2]
    · rw [stopTrunc_cons_go r hc] at h ⊢
      simp only [List.cons_append, List.cons.injEq, true_and] at h
      obtain ⟨h1, h2⟩ := ih (seen || x.2) rest h hr
      have hne : stopTrunc (seen || x.2) r ≠ [] := by
        intro he
        cases r with
        | nil => rw [he] at h; simp at h; exact hr h
        | cons y r' =>
          by_cases hc2 : (!y.2 && (seen || x.2)) = true
          · rw [stopTrunc_cons_stop r' hc2] at he; simp at he
          · rw [stopTrunc_cons_go r' hc2] at he; simp at he
      have hl : (x :: stopTrunc (seen || x.2) r).length - 1 = ((stopTrunc (seen || x.2) r).length - 1) + 1 := by
        have := List.length_pos_iff.mpr hne
        simp only [List.length_cons]; omega
      rw [hl, selAt_cons_succ, hasSel_cons_succ, ← Bool.or_assoc]
      exact ⟨h1, h2⟩

/-- the lines that count under `stop_on_nonmatch` are a prefix of all lines, satisfy `StopOK`, and if
something was cut off the slow loop leaves through its `stop_on_nonmatch` exit at their last line -/
theorem effective_spec (cfg : Config) (slf : List SLine) :
    ∃ rest, slf = effective cfg slf ++ rest ∧ StopOK cfg (effective cfg slf) ∧
      (rest ≠ [] → stopsAtEnd cfg (effective cfg slf) = true) := by
  unfold effective
  cases hc : cfg.stopOnNonmatch
  · exact ⟨[], by simp, fun h => by rw [hc] at h; exact Bool.noConfusion h, fun h => absurd rfl h⟩
  · obtain ⟨rest, h⟩ := stopTrunc_prefix slf false
    refine ⟨rest, by simpa using h, ?_, ?_⟩
    · intro _ j hj hs
      simpa using stopTrunc_ok slf false j (by simpa using hj) (by simpa using hs)
    · intro hr
      obtain ⟨h1, h2⟩ := stopTrunc_cut slf false rest h hr
      simp only [if_true, stopsAtEnd, hc, Bool.true_and, h1, Bool.not_false]
      simpa using h2

theorem offsetAt_prefix (sl rest : List SLine) (i : Nat) (h : i ≤ sl.length) :
    offsetAt (sl ++ rest) i = offsetAt sl i := by
  unfold offsetAt
  rw [List.take_append_of_le_length h]

theorem Layout.prefix {t : Nat} {buf : Bytes} {sl rest : List SLine} (L : Layout t buf (sl ++ rest)) :
    Layout t buf sl := by
  obtain ⟨extra, hf⟩ := L.flat
  constructor
  · exact ⟨(lsOf rest).flatten ++ extra, by rw [hf]; simp [lsOf]⟩
  · have := L.good.take sl.length
    simpa [lsOf] using this

theorem spans_prefix (sl rest : List SLine) :
    (List.range' 0 (sl ++ rest).length).map (span (sl ++ rest))
      = (List.range' 0 sl.length).map (span sl) ++ (List.range' sl.length rest.length).map (span (sl ++ rest)) := by
  have : (sl ++ rest).length = sl.length + rest.length := by simp
  rw [this, List.range'_append_1 |>.symm]
  rw [List.map_append]
  congr 1
  · apply List.map_congr_left
    intro j hj
    simp only [List.mem_range'_1] at hj
    simp only [span]
    rw [offsetAt_prefix _ _ _ (by omega), offsetAt_prefix _ _ _ (by omega)]
  · simp

end RgVerif.Searcher
