import RgVerif.Lemmas.SearcherTopFast
import RgVerif.Spec.LineSafe
/-
`find_by_line_fast` meets its contract (`FindSpec`) for every matcher that is *line safe* on the buffer:
what its candidate finder answers at a line start points into the first matching line (confirmed),
or into a line not after the first matching line (candidate), or says rightly that nothing matches.
This is the searcher-level half of C01 for the fast path; that the regex matcher is line safe is C11's business.
-/
namespace RgVerif.Searcher
open RgVerif RgVerif.Matcher RgVerif.Lines RgVerif.GrepSpec

/-- position `x` lies in line `j`: between its start and the end of its content (before the terminator) -/
def InLine (t : Nat) (sl : List SLine) (j x : Nat) : Prop :=
  j < sl.length ∧ offsetAt sl j ≤ x ∧ x ≤ offsetAt sl (j + 1) ∧ t ∉ (bytesAt sl j).take (x - offsetAt sl j)

/-- does the pattern match line `j` when asked about the line alone (terminator removed) -/
def pmLine (cfg : Config) (m : MatcherI) (sl : List SLine) (j : Nat) : Bool :=
  m.isMatch (withoutTerminator (bytesAt sl j) cfg.lineTerm)

/-- The contract the fast path needs from the matcher on the buffer `buf` = lines `sl`, for every line
start `p`: the answer of `find_candidate_line(&buf[start of line p..])` is sound. -/
structure LineSafe (cfg : Config) (m : MatcherI) (buf : Bytes) (sl : List SLine) : Prop where
  none_ok : ∀ p, p < sl.length → m.findCandidateLine (buf.drop (offsetAt sl p)) = none →
    ∀ j, p ≤ j → j < sl.length → pmLine cfg m sl j = false
  confirmed_ok : ∀ p i, p < sl.length → m.findCandidateLine (buf.drop (offsetAt sl p)) = some (.confirmed i) →
    (∃ j, p ≤ j ∧ InLine cfg.lineTerm.asByte sl j (offsetAt sl p + i) ∧ pmLine cfg m sl j = true ∧
      ∀ j', p ≤ j' → j' < j → pmLine cfg m sl j' = false) ∨
    (offsetAt sl p + i = buf.length ∧ Term cfg.lineTerm.asByte (bytesAt sl (sl.length - 1)) ∧
      ∀ j, p ≤ j → j < sl.length → pmLine cfg m sl j = false)
  /-- a candidate only has to be no false negative: it points into a line with no matching line before it, or
  (since /repo 4165f41 a candidate can be the end of an unconfirmed match) behind the final terminator when no line
  matches; the searcher judges the candidate's line on its own -/
  candidate_ok : ∀ p i, p < sl.length → m.findCandidateLine (buf.drop (offsetAt sl p)) = some (.candidate i) →
    (∃ j, p ≤ j ∧ InLine cfg.lineTerm.asByte sl j (offsetAt sl p + i) ∧
      ∀ j', p ≤ j' → j' < j → pmLine cfg m sl j' = false) ∨
    (offsetAt sl p + i = buf.length ∧ Term cfg.lineTerm.asByte (bytesAt sl (sl.length - 1)) ∧
      ∀ j, p ≤ j → j < sl.length → pmLine cfg m sl j = false)

theorem firstFrom_eq_none {f : Nat → Bool} : ∀ {d p : Nat}, (∀ j, p ≤ j → j < p + d → f j = false) →
    firstFrom f p d = none := by
  intro d
  induction d with
  | zero => intro p _; rfl
  | succ d ih =>
    intro p h
    unfold firstFrom
    rw [h p (Nat.le_refl _) (by omega)]
    simp only [Bool.false_eq_true, if_false]
    exact ih (fun j h1 h2 => h j (by omega) (by omega))

theorem firstFrom_eq_some {f : Nat → Bool} : ∀ {d p i : Nat}, p ≤ i → i < p + d → f i = true →
    (∀ j, p ≤ j → j < i → f j = false) → firstFrom f p d = some i := by
  intro d
  induction d with
  | zero => intro p i h1 h2; omega
  | succ d ih =>
    intro p i h1 h2 h3 h4
    unfold firstFrom
    by_cases hpi : p = i
    · subst hpi; simp [h3]
    · rw [h4 p (Nat.le_refl _) (by omega)]
      simp only [Bool.false_eq_true, if_false]
      exact ih (by omega) (by omega) h3 (fun j a b => h4 j (by omega) b)

theorem firstFrom_skip {f : Nat → Bool} : ∀ {d p q : Nat}, p ≤ q → q ≤ p + d →
    (∀ j, p ≤ j → j < q → f j = false) → firstFrom f p d = firstFrom f q (p + d - q) := by
  intro d
  induction d with
  | zero => intro p q h1 h2 _; have : q = p := by omega
            subst this; simp
  | succ d ih =>
    intro p q h1 h2 h3
    by_cases hpq : p = q
    · subst hpq; simp
    · rw [firstFrom, h3 p (Nat.le_refl _) (by omega)]
      simp only [Bool.false_eq_true, if_false]
      rw [ih (show p + 1 ≤ q by omega) (by omega) (fun j a b => h3 j (by omega) b)]
      congr 1; omega

theorem take_add_app {α : Type} (A B : List α) (a : Nat) : (A ++ B).take (A.length + a) = A ++ B.take a := by
  induction A with
  | nil => simp
  | cons x A ih => simp [Nat.succ_add, ih]

theorem drop_add_app {α : Type} (A B : List α) (a : Nat) : (A ++ B).drop (A.length + a) = B.drop a := by
  induction A with
  | nil => simp
  | cons x A ih => simp [Nat.succ_add, ih]

theorem allTerm_flatten_snoc {t : Nat} {ls : List Bytes} (h : AllTerm t ls) (hne : ls ≠ []) :
    ∃ A, ls.flatten = A ++ [t] := by
  rcases snoc_cases ls with rfl | ⟨init, l, rfl⟩
  · exact absurd rfl hne
  · obtain ⟨b, rfl, _⟩ := h l (by simp)
    exact ⟨init.flatten ++ b, by rw [flatten_snoc]; simp⟩

section
variable {t : Nat} {buf : Bytes} {sl : List SLine}

/-- the buffer around line `j` -/
theorem Layout.split_at (L : Layout t buf sl) (hlen : buf.length = offsetAt sl sl.length) (j : Nat)
    (hj : j < sl.length) :
    ∃ A C, buf = A ++ bytesAt sl j ++ C ∧ A.length = offsetAt sl j ∧ (A = [] ∨ ∃ A', A = A' ++ [t]) ∧
      (Term t (bytesAt sl j) ∨ (Unterm t (bytesAt sl j) ∧ C = [])) := by
  obtain ⟨extra, hf⟩ := L.flat
  have hextra : extra = [] := by
    have h1 := congrArg List.length hf
    rw [List.length_append, ← List.take_length (l := lsOf sl), off_flat, lsOf_length] at h1
    exact List.length_eq_zero_iff.mp (by omega)
  subst hextra
  have hjl : j < (lsOf sl).length := by rw [lsOf_length]; exact hj
  have hsplit : lsOf sl = (lsOf sl).take j ++ bytesAt sl j :: (lsOf sl).drop (j + 1) := by
    have : (lsOf sl)[j] = bytesAt sl j := by simp [bytesAt, lsOf, hj]
    rw [← this, ← List.drop_eq_getElem_cons hjl, List.take_append_drop]
  refine ⟨((lsOf sl).take j).flatten, ((lsOf sl).drop (j + 1)).flatten, ?_, off_flat sl j, ?_, ?_⟩
  · rw [hf, List.append_nil]
    conv => lhs; rw [hsplit]
    simp
  · by_cases h0 : j = 0
    · left; subst h0; simp
    · right
      have hat := L.good.allTerm_take j hjl
      exact allTerm_flatten_snoc hat (by
        intro he
        have h1 : (List.take j (lsOf sl)).length = 0 := by rw [he]; rfl
        rw [List.length_take] at h1
        have hl := lsOf_length sl
        omega)
  · have hg := (L.good.drop j)
    rw [List.drop_eq_getElem_cons hjl] at hg
    have hb : (lsOf sl)[j] = bytesAt sl j := by simp [bytesAt, lsOf, hj]
    rw [hb] at hg
    generalize hx : bytesAt sl j :: List.drop (j + 1) (lsOf sl) = x at hg
    cases hg with
    | nil => simp at hx
    | last l hu =>
      simp only [List.cons.injEq] at hx
      right
      rw [hx.1]
      exact ⟨hu, by rw [hx.2]; rfl⟩
    | cons l ls ht _ =>
      simp only [List.cons.injEq] at hx
      left; rw [hx.1]; exact ht

/-- `locate` of an empty range at a position inside line `j` is line `j`. -/
theorem locate_inLine (L : Layout t buf sl) (hlen : buf.length = offsetAt sl sl.length) {j x : Nat}
    (h : InLine t sl j x) : locate buf t ⟨x, x⟩ = span sl j := by
  obtain ⟨hj, hx1, hx2, hnt⟩ := h
  obtain ⟨A, C, hbuf, hA, hAt, hterm⟩ := Searcher.Layout.split_at L hlen j hj
  have hsucc := off_succ sl j hj
  generalize hLj : bytesAt sl j = Lj at *
  generalize ha : x - offsetAt sl j = a at hnt
  have hxa : x = A.length + a := by omega
  have hale : a ≤ Lj.length := by omega
  -- the part of the buffer before `x`
  have htake : buf.take x = A ++ Lj.take a := by
    rw [hbuf, hxa, List.append_assoc, take_add_app, List.take_append_of_le_length hale]
  have hstart : (rfindByte t (buf.take x) = none ∧ offsetAt sl j = 0) ∨
      (∃ i, rfindByte t (buf.take x) = some i ∧ i + 1 = offsetAt sl j) := by
    rw [htake]
    rcases hAt with rfl | ⟨A', rfl⟩
    · left
      exact ⟨by rw [List.nil_append, rfindByte_none hnt], by simpa using hA.symm⟩
    · right
      have : A' ++ [t] ++ List.take a Lj = A' ++ t :: List.take a Lj := by simp
      rw [this, rfindByte_term A' hnt]
      exact ⟨_, rfl, by simp at hA; omega⟩
  -- the byte before `x` is not a terminator
  have hprev : (decide (x > offsetAt sl j) && (buf[x - 1]? == some t)) = false := by
    by_cases ha0 : a = 0
    · have : ¬ (x > offsetAt sl j) := by omega
      simp [this]
    · have hidx : buf[x - 1]? = Lj[a - 1]? := by
        rw [hbuf, hxa, List.append_assoc, List.getElem?_append_right (by omega)]
        have : A.length + a - 1 - A.length = a - 1 := by omega
        rw [this, List.getElem?_append_left (by omega)]
      rw [hidx]
      have hlt : a - 1 < Lj.length := by omega
      rw [List.getElem?_eq_getElem hlt]
      have hmem : Lj[a - 1] ∈ Lj.take a := by
        rw [List.mem_take_iff_getElem]
        exact ⟨a - 1, by omega, rfl⟩
      have hne : Lj[a - 1] ≠ t := fun he => hnt (he ▸ hmem)
      simp [hne]
  -- the rest of line `j` from `x`
  have hdrop : buf.drop x = Lj.drop a ++ C := by
    rw [hbuf, hxa, List.append_assoc, drop_add_app, List.drop_append_of_le_length hale]
  have hend : (findByte t (buf.drop x) = none ∧ buf.length = offsetAt sl (j + 1)) ∨
      (∃ i, findByte t (buf.drop x) = some i ∧ x + i + 1 = offsetAt sl (j + 1)) := by
    rw [hdrop]
    rcases hterm with ⟨body, rfl, hnb⟩ | ⟨hu, rfl⟩
    · right
      have hab : a ≤ body.length := by
        apply Classical.byContradiction; intro hc
        have hlen2 : (body ++ [t]).length = body.length + 1 := by simp
        have ha' : a = body.length + 1 := by omega
        apply hnt
        rw [ha', ← hlen2, List.take_length]; simp
      have : List.drop a (body ++ [t]) ++ C = body.drop a ++ t :: C := by
        rw [List.drop_append_of_le_length hab]; simp
      rw [this, findByte_term C (fun hm => hnb (List.mem_of_mem_drop hm))]
      refine ⟨_, rfl, ?_⟩
      simp at hsucc ⊢; omega
    · left
      have hn : t ∉ Lj.drop a := fun hm => hu.2 (List.mem_of_mem_drop hm)
      have : j + 1 = sl.length := by
        apply Classical.byContradiction; intro hc
        have := L.term_of_lt j (by omega)
        rw [hLj] at this
        obtain ⟨b, rfl, _⟩ := this
        exact hu.2 (by simp)
      rw [this, hlen]
      exact ⟨by rw [List.append_nil, findByte_none hn], rfl⟩
  have hprev' : ∀ s0, s0 = offsetAt sl j → (decide (x > s0) && (buf[x - 1]? == some t)) = false := by
    intro s0 h0; rw [h0]; exact hprev
  unfold locate
  rcases hstart with ⟨h1, h1'⟩ | ⟨i1, h1, h1'⟩ <;> rcases hend with ⟨h2, h2'⟩ | ⟨i2, h2, h2'⟩
  · simp only [h1, h2, span]
    rw [hprev' 0 h1'.symm, ← h1', ← h2']; rfl
  · simp only [h1, h2, span]
    rw [hprev' 0 h1'.symm, ← h1', ← h2']; rfl
  · simp only [h1, h2, span]
    rw [hprev' (i1 + 1) h1', ← h1', ← h2']; rfl
  · simp only [h1, h2, span]
    rw [hprev' (i1 + 1) h1', ← h1', ← h2']; rfl


/-- `locate` of the empty range at the end of a buffer whose last line is terminated is the empty line there. -/
theorem locate_end (L : Layout t buf sl) (hlen : buf.length = offsetAt sl sl.length) (hn : 0 < sl.length)
    (hterm : Term t (bytesAt sl (sl.length - 1))) : locate buf t ⟨buf.length, buf.length⟩ = ⟨buf.length, buf.length⟩ := by
  obtain ⟨A, C, hbuf, hA, _, _⟩ := Searcher.Layout.split_at L hlen (sl.length - 1) (by omega)
  obtain ⟨body, hb, _⟩ := hterm
  have hsucc := off_succ sl (sl.length - 1) (by omega)
  have e : sl.length - 1 + 1 = sl.length := by omega
  rw [e] at hsucc
  have hC : C = [] := by
    have h1 := congrArg List.length hbuf
    simp only [List.length_append] at h1
    exact List.length_eq_zero_iff.mp (by omega)
  subst hC
  have hbuf' : buf = (A ++ body) ++ [t] := by rw [hbuf, hb]; simp
  have hr : rfindByte t (buf.take buf.length) = some (A ++ body).length := by
    rw [List.take_length]
    conv => lhs; rw [hbuf']
    exact rfindByte_term (A ++ body) (by simp)
  have hl : buf.length = (A ++ body).length + 1 := by
    conv => lhs; rw [hbuf']
    simp [Nat.add_assoc]
  unfold locate
  simp only [hr, List.drop_length, findByte]
  rw [← hl]
  simp

variable {cfg : Config} {m : MatcherI}

theorem pmAt_eq_pmLine (hsel : ∀ j, j < sl.length → selAt sl j = lineSel cfg m (bytesAt sl j)) (j : Nat)
    (hj : j < sl.length) : pmAt cfg sl j = pmLine cfg m sl j := by
  unfold pmAt pmLine
  rw [hsel j hj]
  unfold lineSel MatcherI.isMatch MatcherI.shortestMatch
  cases (m.shortestAt (withoutTerminator (bytesAt sl j) cfg.lineTerm) 0).isSome <;> cases cfg.invertMatch <;> rfl

theorem findLoop_spec (L : Layout t buf sl) (hlen : buf.length = offsetAt sl sl.length)
    (ht : cfg.lineTerm.asByte = t)
    (hsel : ∀ j, j < sl.length → selAt sl j = lineSel cfg m (bytesAt sl j)) (hs : LineSafe cfg m buf sl) :
    ∀ (fuel p : Nat), p ≤ sl.length → sl.length - p < fuel →
      findByLineFastLoop cfg m buf fuel (offsetAt sl p)
        = (firstFrom (pmAt cfg sl) p (sl.length - p)).map (span sl) := by
  have hpm : ∀ j, j < sl.length → pmAt cfg sl j = pmLine cfg m sl j := pmAt_eq_pmLine hsel
  intro fuel
  induction fuel with
  | zero => intro p _ h; omega
  | succ fuel ih =>
    intro p hp hfuel
    rw [findByLineFastLoop, drop_isEmpty_iff L hlen hp]
    by_cases hpn : p = sl.length
    · subst hpn; simp [firstFrom]
    · have hplt : p < sl.length := by omega
      simp only [hpn, decide_false, Bool.false_eq_true, if_false]
      cases hc : m.findCandidateLine (buf.drop (offsetAt sl p)) with
      | none =>
        have := hs.none_ok p hplt hc
        rw [firstFrom_eq_none (fun j h1 h2 => by rw [hpm j (by omega)]; exact this j h1 (by omega))]
        rfl
      | some kind =>
        cases kind with
        | confirmed i =>
          rcases hs.confirmed_ok p i hplt hc with ⟨j, hpj, hin, hpmj, hbefore⟩ | ⟨hend, hterm, hall⟩
          · have hj := hin.1
            have hloc := locate_inLine L hlen (ht ▸ hin)
            simp only [ht, hloc]
            have hne : ¬ ((span sl j).s == buf.length) = true := by
              have := L.off_lt (show j < sl.length from hj) (Nat.le_refl _)
              simp [span, hlen]; omega
            simp only [hne]
            rw [firstFrom_eq_some hpj (by omega) (by rw [hpm j hj]; exact hpmj)
              (fun j' h1 h2 => by rw [hpm j' (by omega)]; exact hbefore j' h1 h2)]
            rfl
          · have hloc := locate_end L hlen (by omega) (ht ▸ hterm)
            simp only [ht, hend, hloc, beq_self_eq_true, if_true]
            rw [firstFrom_eq_none (fun j h1 h2 => by rw [hpm j (by omega)]; exact hall j h1 (by omega))]
            cases fuel with
            | zero => rfl
            | succ f => rw [findByLineFastLoop]; simp
        | candidate i =>
          rcases hs.candidate_ok p i hplt hc with ⟨j, hpj, hin, hbefore⟩ | ⟨hend, hterm, hall⟩
          · have hj := hin.1
            have hloc := locate_inLine L hlen (ht ▸ hin)
            simp only [ht, hloc]
            have hne : ¬ ((span sl j).s == buf.length) = true := by
              have := L.off_lt (show j < sl.length from hj) (Nat.le_refl _)
              simp [span, hlen]; omega
            simp only [hne]
            have hsl : slice buf (span sl j).s (span sl j).e = bytesAt sl j := L.slice_line j hj
            rw [hsl]
            have hpmj : m.isMatch (withoutTerminator (bytesAt sl j) cfg.lineTerm) = pmLine cfg m sl j := rfl
            rw [hpmj]
            cases hv : pmLine cfg m sl j
            · simp only [Bool.false_eq_true, if_false]
              have he : (span sl j).e = offsetAt sl (j + 1) := rfl
              rw [he, ih (j + 1) (by omega) (by omega)]
              rw [firstFrom_skip (p := p) (q := j + 1) (d := sl.length - p) (by omega) (by omega)
                (fun j' h1 h2 => by
                  rw [hpm j' (by omega)]
                  by_cases hjj : j' = j
                  · subst hjj; exact hv
                  · exact hbefore j' h1 (by omega))]
              congr 2; omega
            · simp only [if_true]
              rw [firstFrom_eq_some hpj (by omega) (by rw [hpm j hj]; exact hv)
                (fun j' h1 h2 => by rw [hpm j' (by omega)]; exact hbefore j' h1 h2)]
              rfl
          · have hloc := locate_end L hlen (by omega) (ht ▸ hterm)
            simp only [ht, hend, hloc, beq_self_eq_true, if_true]
            rw [firstFrom_eq_none (fun j h1 h2 => by rw [hpm j (by omega)]; exact hall j h1 (by omega))]
            cases fuel with
            | zero => rfl
            | succ f => rw [findByLineFastLoop]; simp

/-- **A line-safe matcher makes `find_by_line_fast` meet its contract.** -/
theorem findSpec_of_lineSafe (L : Layout t buf sl) (hlen : buf.length = offsetAt sl sl.length)
    (ht : cfg.lineTerm.asByte = t)
    (hsel : ∀ j, j < sl.length → selAt sl j = lineSel cfg m (bytesAt sl j)) (hs : LineSafe cfg m buf sl) :
    FindSpec cfg m buf sl := by
  intro st p hp hpos
  unfold findByLineFast
  rw [hpos]
  apply findLoop_spec L hlen ht hsel hs _ p hp
  have hn : sl.length ≤ buf.length := by
    rw [hlen, ← off_flat, ← lsOf_length sl, List.take_length]
    exact L.good.length_le
  omega


theorem noneMatchB_spec {p q : Nat} (h : noneMatchB cfg m sl p q = true) :
    ∀ j, p ≤ j → j < q → pmLine cfg m sl j = false := by
  intro j h1 h2
  have := (List.all_eq_true.mp h) j (List.mem_range.mpr h2)
  have hn : ¬ j < p := by omega
  simpa [hn, pmLineB, pmLine] using this

theorem inLineB_spec {t' j x : Nat} (h : inLineB t' sl j x = true) : InLine t' sl j x := by
  simp only [inLineB, Bool.and_eq_true, decide_eq_true_eq, Bool.not_eq_true', List.contains_eq_mem,
    decide_eq_false_iff_not] at h
  exact ⟨h.1.1.1, h.1.1.2, h.1.2, h.2⟩

theorem lastTermB_spec {t' : Nat} (h : lastTermB t' sl = true) : Term t' (bytesAt sl (sl.length - 1)) := by
  simp only [lastTermB, Bool.and_eq_true, beq_iff_eq, Bool.not_eq_true', List.contains_eq_mem,
    decide_eq_false_iff_not] at h
  refine ⟨(bytesAt sl (sl.length - 1)).dropLast, ?_, h.2⟩
  rcases snoc_cases (bytesAt sl (sl.length - 1)) with he | ⟨i, x, he⟩
  · rw [he] at h; simp at h
  · rw [he] at h ⊢
    simp at h
    simp [h.1]

/-- the executable certificate check is sound -/
theorem lineSafeCheck_sound (h : lineSafeCheck cfg m buf sl = true) : LineSafe cfg m buf sl := by
  have hp : ∀ p, p < sl.length → _ := fun p hp => (List.all_eq_true.mp h) p (List.mem_range.mpr hp)
  constructor
  · intro p hlt hc
    have := hp p hlt
    simp only [hc] at this
    exact noneMatchB_spec this
  · intro p i hlt hc
    have := hp p hlt
    simp only [hc, Bool.or_eq_true, List.any_eq_true, Bool.and_eq_true, decide_eq_true_eq, beq_iff_eq] at this
    rcases this with ⟨j, _, ⟨⟨h1, h2⟩, h3⟩, h4⟩ | ⟨⟨h1, h2⟩, h3⟩
    · exact Or.inl ⟨j, h1, inLineB_spec h2, by simpa [pmLineB, pmLine] using h3, noneMatchB_spec h4⟩
    · exact Or.inr ⟨h1, lastTermB_spec h2, noneMatchB_spec h3⟩
  · intro p i hlt hc
    have := hp p hlt
    simp only [hc, Bool.or_eq_true, List.any_eq_true, Bool.and_eq_true, decide_eq_true_eq, beq_iff_eq] at this
    rcases this with ⟨j, _, ⟨h1, h2⟩, h3⟩ | ⟨⟨h1, h2⟩, h3⟩
    · exact Or.inl ⟨j, h1, inLineB_spec h2, noneMatchB_spec h3⟩
    · exact Or.inr ⟨h1, lastTermB_spec h2, noneMatchB_spec h3⟩

end
end RgVerif.Searcher
