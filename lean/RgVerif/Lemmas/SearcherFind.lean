import RgVerif.Lemmas.SearcherTopFast
/-
`find_by_line_fast` meets its contract (`FindSpec`) for every matcher that is *line safe* on the buffer:
what its candidate finder answers at a line start points into the first matching line (confirmed),
or into a line not after the first matching line (candidate), or says rightly that nothing matches.
This is the searcher-level half of C01 for the fast path; that the regex matcher is line safe is C11's business.
-/
namespace RgVerif.Searcher
open RgVerif RgVerif.Matcher RgVerif.Lines RgVerif.GrepSpec

/-- position `x` lies in line `j`: between its start and the end of its content (before the terminator) -/
def InLine (t : Nat) (sl : List SLine) (j x : Nat) : Prop :=
  j < sl.length ∧ offsetAt sl j ≤ x ∧ x ≤ offsetAt sl (j + 1) ∧ t ∉ (bytesAt sl j).take (x - offsetAt sl j)

/-- does the pattern match line `j` when asked about the line alone (terminator removed) -/
def pmLine (cfg : Config) (m : MatcherI) (sl : List SLine) (j : Nat) : Bool :=
  m.isMatch (withoutTerminator (bytesAt sl j) cfg.lineTerm)

/-- The contract the fast path needs from the matcher on the buffer `buf` = lines `sl`, for every line
start `p`: the answer of `find_candidate_line(&buf[start of line p..])` is sound. -/
structure LineSafe (cfg : Config) (m : MatcherI) (buf : Bytes) (sl : List SLine) : Prop where
  none_ok : ∀ p, p < sl.length → m.findCandidateLine (buf.drop (offsetAt sl p)) = none →
    ∀ j, p ≤ j → j < sl.length → pmLine cfg m sl j = false
  confirmed_ok : ∀ p i, p < sl.length → m.findCandidateLine (buf.drop (offsetAt sl p)) = some (.confirmed i) →
    (∃ j, p ≤ j ∧ InLine cfg.lineTerm.asByte sl j (offsetAt sl p + i) ∧ pmLine cfg m sl j = true ∧
      ∀ j', p ≤ j' → j' < j → pmLine cfg m sl j' = false) ∨
    (offsetAt sl p + i = buf.length ∧ Term cfg.lineTerm.asByte (bytesAt sl (sl.length - 1)) ∧
      ∀ j, p ≤ j → j < sl.length → pmLine cfg m sl j = false)
  candidate_ok : ∀ p i, p < sl.length → m.findCandidateLine (buf.drop (offsetAt sl p)) = some (.candidate i) →
    ∃ j, p ≤ j ∧ InLine cfg.lineTerm.asByte sl j (offsetAt sl p + i) ∧
      ∀ j', p ≤ j' → j' < j → pmLine cfg m sl j' = false

theorem firstFrom_eq_none {f : Nat → Bool} : ∀ {d p : Nat}, (∀ j, p ≤ j → j < p + d → f j = false) →
    firstFrom f p d = none := by
  intro d
  induction d with
  | zero => intro p _; rfl
  | succ d ih =>
    intro p h
    unfold firstFrom
    rw [h p (Nat.le_refl _) (by omega)]
    simp only [Bool.false_eq_true, if_false]
    exact ih (fun j h1 h2 => h j (by omega) (by omega))

theorem firstFrom_eq_some {f : Nat → Bool} : ∀ {d p i : Nat}, p ≤ i → i < p + d → f i = true →
    (∀ j, p ≤ j → j < i → f j = false) → firstFrom f p d = some i := by
  intro d
  induction d with
  | zero => intro p i h1 h2; omega
  | succ d ih =>
    intro p i h1 h2 h3 h4
    unfold firstFrom
    by_cases hpi : p = i
    · subst hpi; simp [h3]
    · rw [h4 p (Nat.le_refl _) (by omega)]
      simp only [Bool.false_eq_true, if_false]
      exact ih (by omega) (by omega) h3 (fun j a b => h4 j (by omega) b)

theorem firstFrom_skip {f : Nat → Bool} : ∀ {d p q : Nat}, p ≤ q → q ≤ p + d →
    (∀ j, p ≤ j → j < q → f j = false) → firstFrom f p d = firstFrom f q (p + d - q) := by
  intro d
  induction d with
  | zero => intro p q h1 h2 _; have : q = p := by omega
            subst this; simp
  | succ d ih =>
    intro p q h1 h2 h3
    by_cases hpq : p = q
    · subst hpq; simp
    · rw [firstFrom, h3 p (Nat.le_refl _) (by omega)]
      simp only [Bool.false_eq_true, if_false]
      rw [ih (show p + 1 ≤ q by omega) (by omega) (fun j a b => h3 j (by omega) b)]
      congr 1; omega

theorem allTerm_flatten_snoc {t : Nat} {ls : List Bytes} (h : AllTerm t ls) (hne : ls ≠ []) :
    ∃ A, ls.flatten = A ++ [t] := by
  rcases snoc_cases ls with rfl | ⟨init, l, rfl⟩
  · exact absurd rfl hne
  · obtain ⟨b, rfl, _⟩ := h l (by simp)
    exact ⟨init.flatten ++ b, by rw [flatten_snoc]; simp⟩

section
variable {t : Nat} {buf : Bytes} {sl : List SLine}

/-- the buffer around line `j` -/
theorem Layout.split_at (L : Layout t buf sl) (hlen : buf.length = offsetAt sl sl.length) (j : Nat)
    (hj : j < sl.length) :
    ∃ A C, buf = A ++ bytesAt sl j ++ C ∧ A.length = offsetAt sl j ∧ (A = [] ∨ ∃ A', A = A' ++ [t]) ∧
      (Term t (bytesAt sl j) ∨ (Unterm t (bytesAt sl j) ∧ C = [])) := by
  obtain ⟨extra, hf⟩ := L.flat
  have hextra : extra = [] := by
    have h1 := congrArg List.length hf
    rw [List.length_append, ← List.take_length (l := lsOf sl), off_flat, lsOf_length] at h1
    exact List.length_eq_zero_iff.mp (by omega)
  subst hextra
  have hjl : j < (lsOf sl).length := by rw [lsOf_length]; exact hj
  have hsplit : lsOf sl = (lsOf sl).take j ++ bytesAt sl j :: (lsOf sl).drop (j + 1) := by
    have : (lsOf sl)[j] = bytesAt sl j := by simp [bytesAt, lsOf, hj]
    rw [← this, ← List.drop_eq_getElem_cons hjl, List.take_append_drop]
  refine ⟨((lsOf sl).take j).flatten, ((lsOf sl).drop (j + 1)).flatten, ?_, off_flat sl j, ?_, ?_⟩
  · rw [hf, List.append_nil]
    conv => lhs; rw [hsplit]
    simp
  · by_cases h0 : j = 0
    · left; subst h0; simp
    · right
      have hat := L.good.allTerm_take j hjl
      exact allTerm_flatten_snoc hat (by
        intro he
        have := congrArg List.length he
        rw [List.length_take, lsOf_length] at this
        simp at this; omega)
  · have hg := (L.good.drop j)
    rw [List.drop_eq_getElem_cons hjl] at hg
    have hb : (lsOf sl)[j] = bytesAt sl j := by simp [bytesAt, lsOf, hj]
    rw [hb] at hg
    generalize hx : bytesAt sl j :: List.drop (j + 1) (lsOf sl) = x at hg
    cases hg with
    | nil => simp at hx
    | last l hu =>
      simp only [List.cons.injEq] at hx
      right
      rw [hx.1]
      exact ⟨hu, by rw [hx.2]; rfl⟩
    | cons l ls ht _ =>
      simp only [List.cons.injEq] at hx
      left; rw [hx.1]; exact ht

/-- `locate` of an empty range at a position inside line `j` is line `j`. -/
theorem locate_inLine (L : Layout t buf sl) (hlen : buf.length = offsetAt sl sl.length) {j x : Nat}
    (h : InLine t sl j x) : locate buf t ⟨x, x⟩ = span sl j := by
  obtain ⟨hj, hx1, hx2, hnt⟩ := h
  obtain ⟨A, C, hbuf, hA, hAt, hterm⟩ := Searcher.Layout.split_at L hlen j hj
  have hsucc := off_succ sl j hj
  generalize hLj : bytesAt sl j = Lj at *
  generalize ha : x - offsetAt sl j = a at hnt
  have hxa : x = A.length + a := by omega
  have hale : a ≤ Lj.length := by omega
  -- the part of the buffer before `x`
  have htake : buf.take x = A ++ Lj.take a := by
    rw [hbuf, hxa, List.append_assoc, List.take_append]; simp
  have hstart : (match rfindByte t (buf.take x) with | none => 0 | some i => i + 1) = offsetAt sl j := by
    rw [htake]
    rcases hAt with rfl | ⟨A', rfl⟩
    · simp only [List.nil_append, rfindByte_none hnt]
      simpa using hA
    · have : A' ++ [t] ++ List.take a Lj = A' ++ t :: List.take a Lj := by simp
      rw [this, rfindByte_term A' hnt]
      simp at hA; omega
  -- the byte before `x` is not a terminator
  have hprev : (decide (x > offsetAt sl j) && (buf[x - 1]? == some t)) = false := by
    by_cases ha0 : a = 0
    · have : ¬ (x > offsetAt sl j) := by omega
      simp [this]
    · have hidx : buf[x - 1]? = Lj[a - 1]? := by
        rw [hbuf, hxa, List.append_assoc, List.getElem?_append_right (by omega)]
        have : A.length + a - 1 - A.length = a - 1 := by omega
        rw [this, List.getElem?_append_left (by omega)]
      rw [hidx]
      have hlt : a - 1 < Lj.length := by omega
      rw [List.getElem?_eq_getElem hlt]
      have hmem : Lj[a - 1] ∈ Lj.take a := by
        rw [List.mem_take_iff_getElem]
        exact ⟨a - 1, by omega, rfl⟩
      have hne : Lj[a - 1] ≠ t := fun he => hnt (he ▸ hmem)
      simp [hne]
  -- the rest of line `j` from `x`
  have hdrop : buf.drop x = Lj.drop a ++ C := by
    rw [hbuf, hxa, List.append_assoc, List.drop_append]; simp
  have hend : (match findByte t (buf.drop x) with | none => buf.length | some i => x + i + 1)
      = offsetAt sl (j + 1) := by
    rw [hdrop]
    rcases hterm with ⟨body, rfl, hnb⟩ | ⟨hu, rfl⟩
    · have hab : a ≤ body.length := by
        apply Classical.byContradiction; intro hc
        have hlen2 : (body ++ [t]).length = body.length + 1 := by simp
        have ha' : a = body.length + 1 := by omega
        apply hnt
        rw [ha', ← hlen2, List.take_length]; simp
      have : List.drop a (body ++ [t]) ++ C = body.drop a ++ t :: C := by
        rw [List.drop_append_of_le_length hab]; simp
      rw [this, findByte_term C (fun hm => hnb (List.mem_of_mem_drop hm))]
      simp at hsucc ⊢; omega
    · have hn : t ∉ Lj.drop a := fun hm => hu.2 (List.mem_of_mem_drop hm)
      simp only [List.append_nil, findByte_none hn]
      have : j + 1 = sl.length := by
        apply Classical.byContradiction; intro hc
        have := L.term_of_lt j (by omega)
        rw [hLj] at this
        obtain ⟨b, rfl, _⟩ := this
        exact hu.2 (by simp)
      rw [this, hlen]
  unfold locate
  simp only [hstart, hprev, Bool.false_eq_true, if_false, hend, span]

end
end RgVerif.Searcher
