import RgVerif.Lemmas.ReadByLineLoop
namespace RgVerif.Searcher
open RgVerif RgVerif.Matcher RgVerif.Lines RgVerif.GrepSpec RgVerif.LineBuffer

/-- **The reader strategy without context, in closed form, for every chunking and capacity.** -/
theorem readByLine_noCtx {cfg : Config} (m : MatcherI) (h : NoCtx cfg)
    (hslow : isLineByLineFast cfg m (Core.new cfg false) = false)
    (lbcfg : LineBuffer.Config) (hlt : lbcfg.lineterm = cfg.lineTerm.asByte) (hb : lbcfg.binary = .none)
    (hal : lbcfg.alloc = .eager) (rdr : Reader) (hz : NoZero rdr.script) :
    ∃ Ls, GoodLines cfg.lineTerm.asByte Ls ∧ Ls.flatten = rdr.data ∧
      (readByLine cfg m allCont lbcfg rdr).events =
        Event.begin :: lineEvs cfg m 0 (ln0 cfg) Ls ++ [Event.finish rdr.data.length none] ∧
      (readByLine cfg m allCont lbcfg rdr).result = .ok () := by
  -- the state after `begin`
  have hbegin : begin allCont (Core.new cfg false)
      = ({ Core.new cfg false with events := [Event.begin] }, .ok true) := rfl
  generalize hc0 : ({ Core.new cfg false with events := [Event.begin] } : Core) = c0 at hbegin
  have hR : RInv cfg m lbcfg rdr.data ⟨c0, LB.init lbcfg, rdr⟩ [] := by
    refine ⟨⟨[], [], rdr.data, Inv.init' lbcfg rdr⟩, hz, ?_, by simp [LB.init, LB.buffer], by simp [LB.init, LB.buffer], .nil,
      Or.inl (fun x hx => by simp at hx), ?_, ?_, ?_, rfl, ?_, ?_⟩
    · rw [← hc0]; simp [lineEvs]
    · rw [← hc0]; rfl
    · rw [← hc0]; rfl
    · rw [← hc0]; rfl
    · rw [← hc0]; simp [Core.new]
    · rw [← hc0]
      simp only [LB.init, LB.buffer, List.take_nil, List.drop_nil, List.length_nil, Nat.add_zero, List.take_zero]
      rw [lnAt_zero cfg _ _ rfl]
      simp [Core.new, ln0, count]
  obtain ⟨s', Ls', hl, hev, hg, hflat, hend, hbo⟩ :=
    rblLoop_noCtx h hslow hlt hb hal (rblFuel rdr) _ _ hR
      (by simp only [LB.init, LB.buffer, rblFuel]; simp; omega)
  refine ⟨Ls', hg, hflat, ?_, ?_⟩
  · unfold readByLine
    simp only [hbegin, if_true, hl, finish, emit_allCont, Run.events, hev, hend, hbo]
  · unfold readByLine
    simp only [hbegin, if_true, hl, finish, emit_allCont]

/-- **C02, partial: reader = slice** when no context lines are configured (`-A`, `-B`, `-C` = 0, passthru
allowed), on the slow path, with an all-continue sink, binary detection off, eager allocation, no
`stop_on_nonmatch`: for every input, every read script (fragmentation, interrupted reads, the BOM
peek), every initial capacity, the event stream of `ReadByLine::run` — matched and passthru lines,
line numbers, absolute offsets, final byte count — equals that of `SliceByLine::run`. -/
theorem readByLine_eq_sliceByLine {cfg : Config} (m : MatcherI) (h : NoCtx cfg)
    (hslow : isLineByLineFast cfg m (Core.new cfg true) = false)
    (lbcfg : LineBuffer.Config) (hlt : lbcfg.lineterm = cfg.lineTerm.asByte) (hb : lbcfg.binary = .none)
    (hal : lbcfg.alloc = .eager) (rdr : Reader) (hz : NoZero rdr.script) :
    (readByLine cfg m allCont lbcfg rdr).events = (sliceByLine cfg m allCont rdr.data).events ∧
      (readByLine cfg m allCont lbcfg rdr).result = .ok () := by
  have hslow' : isLineByLineFast cfg m (Core.new cfg false) = false := by
    rw [isLineByLineFast_noson cfg m h.hson (Core.new cfg false) (Core.new cfg true)]; exact hslow
  obtain ⟨Ls, hg, hfl, hev, hres⟩ := readByLine_noCtx m h hslow' lbcfg hlt hb hal rdr hz
  refine ⟨?_, hres⟩
  rw [hev, sliceByLine_noCtx m h rdr.data hslow Ls hg hfl]

/-- the closed form does not look at `multi_line` -/
theorem lineEvs_ml (cfg : Config) (b : Bool) (m : MatcherI) (ls : List Bytes) : ∀ (off : Nat) (ln : Option Nat),
    lineEvs { cfg with multiLine := b } m off ln ls = lineEvs cfg m off ln ls := by
  induction ls with
  | nil => intro off ln; rfl
  | cons l ls ih =>
    intro off ln
    simp only [lineEvs, ih]
    rfl

theorem isLineByLineFast_ml (cfg : Config) (b : Bool) (m : MatcherI) (st st' : Core)
    (hm : st.hasMatched = st'.hasMatched) :
    isLineByLineFast { cfg with multiLine := b } m st = isLineByLineFast cfg m st' := by
  unfold isLineByLineFast
  simp only [hm]

theorem noCtx_ml {cfg : Config} (h : NoCtx cfg) (b : Bool) : NoCtx { cfg with multiLine := b } :=
  ⟨h.hA, h.hB, h.hbin, h.hson⟩

/-- `multi_line(true)` for a matcher that cannot match the terminator (so the searcher downgrades to
line-by-line mode) changes nothing — in the context-free, slow-path, all-continue setting of
`C02_partial`. -/
theorem searchSlice_ml_downgrade {cfg : Config} (m : MatcherI) (h : NoCtx cfg)
    (hslow : isLineByLineFast cfg m (Core.new cfg true) = false)
    (hdown : multiLineWithMatcher { cfg with multiLine := true } m = false) (inp : Bytes) :
    (searchSlice { cfg with multiLine := true } m allCont inp).events
      = (searchSlice { cfg with multiLine := false } m allCont inp).events := by
  have h0 : multiLineWithMatcher { cfg with multiLine := false } m = false := by simp [multiLineWithMatcher]
  unfold searchSlice
  simp only [hdown, h0, Bool.false_eq_true, if_false]
  have e1 := sliceByLine_noCtx (cfg := { cfg with multiLine := true }) m (noCtx_ml h true) inp
    (by rw [isLineByLineFast_ml cfg true m (Core.new { cfg with multiLine := true } true) (Core.new cfg true) rfl]; exact hslow)
    (splitLines cfg.lineTerm.asByte inp) (splitLines_good _ _) (splitLines_flatten _ _)
  have e2 := sliceByLine_noCtx (cfg := { cfg with multiLine := false }) m (noCtx_ml h false) inp
    (by rw [isLineByLineFast_ml cfg false m (Core.new { cfg with multiLine := false } true) (Core.new cfg true) rfl]; exact hslow)
    (splitLines cfg.lineTerm.asByte inp) (splitLines_good _ _) (splitLines_flatten _ _)
  rw [e1, e2, lineEvs_ml cfg true, lineEvs_ml cfg false]
  rfl

end RgVerif.Searcher
