import RgVerif.Spec.BlockSpec
namespace RgVerif.BlockSpec

theorem fold_seps (k : Nat) (st : PS) :
    (List.replicate k Line.sep).foldl pstep st = { st with pending := st.pending + k } := by
  induction k generalizing st with
  | zero => simp
  | succ k ih =>
    simp only [List.replicate_succ, List.foldl_cons, pstep]
    rw [ih]
    simp [Nat.add_assoc, Nat.add_comm 1 k]

/-- lines of the file that is already on top of the stack extend its block -/
theorem fold_cont (p : Nat) (ls : List Line) (hall : ∀ l ∈ ls, l.ofPathOrSep p = true) :
    ∀ (acc : List Line) (rest : List (Nat × List Line)) (gaps : List Nat) (j stray : Nat),
      ∃ acc' j', ls.foldl pstep ⟨(p, acc) :: rest, gaps, j, stray⟩ = ⟨(p, acc') :: rest, gaps, j', stray⟩ ∧
        acc' ++ List.replicate j' Line.sep = acc ++ List.replicate j Line.sep ++ ls := by
  induction ls with
  | nil => intro acc rest gaps j stray; exact ⟨acc, j, rfl, by simp⟩
  | cons l tl ih =>
    intro acc rest gaps j stray
    have htl : ∀ l ∈ tl, l.ofPathOrSep p = true := fun x hx => hall x (List.mem_cons_of_mem _ hx)
    have hl := hall l List.mem_cons_self
    cases l with
    | sep =>
      obtain ⟨acc', j', h1, h2⟩ := ih htl acc rest gaps (j + 1) stray
      refine ⟨acc', j', by simpa [pstep] using h1, ?_⟩
      rw [h2, List.replicate_succ']
      simp [List.append_assoc]
    | data q x =>
      have hq : q = p := by simpa [Line.ofPathOrSep] using hl
      subst hq
      obtain ⟨acc', j', h1, h2⟩ := ih htl (acc ++ List.replicate j Line.sep ++ [Line.data q x]) rest gaps 0 stray
      refine ⟨acc', j', by simpa [pstep] using h1, ?_⟩
      rw [h2]
      simp [List.append_assoc]

theorem getLast_seps (X : List Line) (j : Nat) : (X ++ List.replicate (j + 1) Line.sep).getLast? = some Line.sep := by
  rw [List.replicate_succ', ← List.append_assoc]
  simp

/-- a whole block pushed on a stack whose top (if any) belongs to another file -/
theorem fold_block (p : Nat) (b : List Line) (hwf : wfBlock p b = true) (st : PS)
    (htop : ∀ q ls rest, st.blocks = (q, ls) :: rest → q ≠ p) :
    b.foldl pstep st =
      match st.blocks with
      | [] => { st with blocks := [(p, b)], stray := st.pending, pending := 0 }
      | _ :: _ => { st with blocks := (p, b) :: st.blocks, gaps := st.pending :: st.gaps, pending := 0 } := by
  match b, hwf with
  | l :: tl, hwf =>
    simp only [wfBlock, Bool.and_eq_true] at hwf
    obtain ⟨⟨hfirst, hlast⟩, hall⟩ := hwf
    cases l with
    | sep => simp [Line.isData] at hfirst
    | data q x =>
      have hq : q = p := by simpa [Line.isData] using hfirst
      subst hq
      have htl : ∀ l ∈ tl, l.ofPathOrSep q = true := by
        intro l hl
        exact (List.all_eq_true.mp hall) l (List.mem_cons_of_mem _ hl)
      have hend : ∀ (acc' : List Line) (j' : Nat),
          acc' ++ List.replicate j' Line.sep = [Line.data q x] ++ List.replicate 0 Line.sep ++ tl → j' = 0 ∧ acc' = Line.data q x :: tl := by
        intro acc' j' h
        cases j' with
        | zero => exact ⟨rfl, by simpa using h⟩
        | succ j'' =>
          exfalso
          have h1 := getLast_seps acc' j''
          rw [h] at h1
          simp only [List.replicate_zero, List.append_nil, List.singleton_append] at h1
          rw [h1] at hlast
          simp [Line.isData] at hlast
      obtain ⟨pending, stray⟩ : ∃ a b, (a, b) = (st.pending, st.stray) := ⟨_, _, rfl⟩
      cases hb : st.blocks with
      | nil =>
        simp only [List.foldl_cons, pstep, hb]
        obtain ⟨acc', j', h1, h2⟩ := fold_cont q tl htl [Line.data q x] [] st.gaps 0 st.pending
        obtain ⟨hj, hacc⟩ := hend acc' j' h2
        subst hj hacc
        rw [h1]
      | cons top rest =>
        obtain ⟨tq, tls⟩ := top
        have hne : tq ≠ q := htop tq tls rest hb
        simp only [List.foldl_cons, pstep, hb, hne, if_false]
        obtain ⟨acc', j', h1, h2⟩ := fold_cont q tl htl [Line.data q x] ((tq, tls) :: rest) (st.pending :: st.gaps) 0 st.stray
        obtain ⟨hj, hacc⟩ := hend acc' j' h2
        subst hj hacc
        rw [h1]

theorem joinLines_cons (k : Nat) (p : Nat) (b : List Line) (rest : List (Nat × List Line)) :
    joinLines k ((p, b) :: rest) = b ++ rest.flatMap (fun pb => List.replicate k Line.sep ++ pb.2) := by
  induction rest generalizing p b with
  | nil => simp [joinLines]
  | cons pb rest ih =>
    obtain ⟨q, c⟩ := pb
    simp only [joinLines, List.flatMap_cons]
    rw [ih q c]
    simp [List.append_assoc]

/-- the remaining blocks, each preceded by its gap -/
theorem fold_rest (k : Nat) (rest : List (Nat × List Line)) :
    ∀ (q : Nat) (bq : List Line) (tl : List (Nat × List Line)) (gaps : List Nat) (stray : Nat),
      (∀ pb ∈ rest, wfBlock pb.1 pb.2 = true) → adjDistinct ((q, bq) :: rest) = true →
      (rest.flatMap (fun pb => List.replicate k Line.sep ++ pb.2)).foldl pstep ⟨(q, bq) :: tl, gaps, 0, stray⟩ =
        ⟨rest.reverse ++ (q, bq) :: tl, List.replicate rest.length k ++ gaps, 0, stray⟩ := by
  induction rest with
  | nil => intro q bq tl gaps stray _ _; simp
  | cons pb rest ih =>
    intro q bq tl gaps stray hwf hadj
    obtain ⟨p, b⟩ := pb
    have hwfp : wfBlock p b = true := hwf (p, b) List.mem_cons_self
    have hwfr : ∀ pb ∈ rest, wfBlock pb.1 pb.2 = true := fun x hx => hwf x (List.mem_cons_of_mem _ hx)
    simp only [adjDistinct, Bool.and_eq_true, bne_iff_ne, ne_eq] at hadj
    obtain ⟨hqp, hadj'⟩ := hadj
    simp only [List.flatMap_cons, List.foldl_append, fold_seps]
    rw [fold_block p b hwfp _ (by
      intro q' ls' rest' h
      simp only [List.cons.injEq, Prod.mk.injEq] at h
      rw [← h.1.1]; exact hqp)]
    simp only [Nat.zero_add]
    rw [ih p b ((q, bq) :: tl) (k :: gaps) stray hwfr hadj']
    simp [List.replicate_succ', List.append_assoc]

/-! ### `--heading` -/

theorem hfold_blanks (k : Nat) (st : HPS) (hk : 0 < k) :
    (List.replicate k HLine.blank).foldl hstep st = { st with pending := st.pending + k, isOpen := false } := by
  induction k generalizing st with
  | zero => omega
  | succ k ih =>
    simp only [List.replicate_succ, List.foldl_cons, hstep]
    cases k with
    | zero => simp
    | succ k' =>
      rw [ih _ (by omega)]
      simp [Nat.add_assoc, Nat.add_comm 1]

theorem hfold_bodies (tl : List HLine) (hall : ∀ l ∈ tl, l.isBody = true) :
    ∀ (p : Nat) (acc : List HLine) (rest : List (Nat × List HLine)) (gaps : List Nat) (j stray : Nat) (bad : Bool),
      tl.foldl hstep ⟨(p, acc) :: rest, gaps, j, true, stray, bad⟩ = ⟨(p, acc ++ tl) :: rest, gaps, j, true, stray, bad⟩ := by
  induction tl with
  | nil => intro p acc rest gaps j stray bad; simp
  | cons l tl ih =>
    intro p acc rest gaps j stray bad
    have hl := hall l List.mem_cons_self
    have htl : ∀ l ∈ tl, l.isBody = true := fun x hx => hall x (List.mem_cons_of_mem _ hx)
    cases l with
    | head q => simp [HLine.isBody] at hl
    | blank => simp [HLine.isBody] at hl
    | body x =>
      simp only [List.foldl_cons, hstep, if_true]
      rw [ih htl]
      simp [List.append_assoc]

theorem hfold_block (p : Nat) (b : List HLine) (hwf : wfHBlock p b = true) (st : HPS) :
    b.foldl hstep st =
      match st.blocks with
      | [] => { st with blocks := [(p, b)], stray := st.pending, pending := 0, isOpen := true }
      | _ :: _ => { st with blocks := (p, b) :: st.blocks, gaps := st.pending :: st.gaps, pending := 0, isOpen := true } := by
  match b, hwf with
  | .head q :: tl, hwf =>
    simp only [wfHBlock, Bool.and_eq_true, beq_iff_eq] at hwf
    obtain ⟨hq, hall⟩ := hwf
    subst hq
    have htl : ∀ l ∈ tl, l.isBody = true := List.all_eq_true.mp hall
    cases hb : st.blocks with
    | nil =>
      simp only [List.foldl_cons, hstep, hb]
      rw [hfold_bodies tl htl]
      simp
    | cons top rest =>
      simp only [List.foldl_cons, hstep, hb]
      rw [hfold_bodies tl htl]
      simp

theorem joinHLines_cons (k : Nat) (p : Nat) (b : List HLine) (rest : List (Nat × List HLine)) :
    joinHLines k ((p, b) :: rest) = b ++ rest.flatMap (fun pb => List.replicate k HLine.blank ++ pb.2) := by
  induction rest generalizing p b with
  | nil => simp [joinHLines]
  | cons pb rest ih =>
    obtain ⟨q, c⟩ := pb
    simp only [joinHLines, List.flatMap_cons]
    rw [ih q c]
    simp [List.append_assoc]

theorem hfold_rest (k : Nat) (hk : 0 < k) (rest : List (Nat × List HLine)) :
    ∀ (q : Nat) (bq : List HLine) (tl : List (Nat × List HLine)) (gaps : List Nat) (stray : Nat) (o : Bool),
      (∀ pb ∈ rest, wfHBlock pb.1 pb.2 = true) →
      (rest.flatMap (fun pb => List.replicate k HLine.blank ++ pb.2)).foldl hstep ⟨(q, bq) :: tl, gaps, 0, o, stray, false⟩ =
        ⟨rest.reverse ++ (q, bq) :: tl, List.replicate rest.length k ++ gaps, 0, (o || !rest.isEmpty), stray, false⟩ := by
  induction rest with
  | nil => intro q bq tl gaps stray o _; simp
  | cons pb rest ih =>
    intro q bq tl gaps stray o hwf
    obtain ⟨p, b⟩ := pb
    have hwfp : wfHBlock p b = true := hwf (p, b) List.mem_cons_self
    have hwfr : ∀ pb ∈ rest, wfHBlock pb.1 pb.2 = true := fun x hx => hwf x (List.mem_cons_of_mem _ hx)
    simp only [List.flatMap_cons, List.foldl_append]
    rw [hfold_blanks k _ hk, hfold_block p b hwfp]
    simp only [Nat.zero_add]
    rw [ih p b ((q, bq) :: tl) (k :: gaps) stray true hwfr]
    simp [List.replicate_succ', List.append_assoc]

end RgVerif.BlockSpec
