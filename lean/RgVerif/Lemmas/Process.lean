import RgVerif.Spec.ProcessSpec
/-
Helper lemmas for C18.
-/
namespace RgVerif.Process
open RgVerif.ProcessSpec

/-! ### close / read / consume -/

theorem close_closed (r : Reader) (ch : Child) : (close r ch).1.stdoutOpen = false := by
  unfold close
  split
  · rename_i h; simpa using h
  · cases ch.wait with
    | failed => rfl
    | exited s => cases s <;> simp <;> split <;> rfl

theorem close_eof (r : Reader) (ch : Child) : (close r ch).1.eof = r.eof := by
  unfold close
  split
  · rfl
  · cases ch.wait with
    | failed => rfl
    | exited s => cases s <;> simp <;> split <;> rfl

theorem close_of_closed (r : Reader) (ch : Child) (h : r.stdoutOpen = false) : close r ch = (r, .ok) := by
  unfold close; simp [h]

/-- the error condition of `close` on an open reader -/
def closeErrs (eof : Bool) (ch : Child) : Bool :=
  match ch.wait with
  | .failed => true
  | .exited true => false
  | .exited false => eof || !ch.stderr.isEmpty

theorem close_open (r : Reader) (ch : Child) (h : r.stdoutOpen = true) :
    (close r ch).2 = if closeErrs r.eof ch then .err else .ok := by
  unfold close closeErrs
  simp only [h, Bool.not_true, Bool.false_eq_true, if_false]
  cases ch.wait with
  | failed => rfl
  | exited s =>
    cases s
    · cases r.eof <;> cases ch.stderr.isEmpty <;> simp
    · rfl

theorem closeErrs_eq_spec (eof : Bool) (ch : Child) : closeErrs eof ch = specCloseErr eof ch := rfl

/-- Result of `consume` when every read succeeds on an open reader. -/
theorem consume_spec (ch : Child) (reads : List Nat) (stop : Option Nat) (r : Reader) (got : Nat)
    (hopen : r.stdoutOpen = true) (heof : r.eof = false) :
    let res := consume ch reads stop r got
    let early := match stop with
      | some k => decide (k ≤ reads.length)
      | none => false
    res.2.1 = got + (match stop with
      | some k => ((reads.take k).map (· + 1)).sum
      | none => (reads.map (· + 1)).sum) ∧
    ((res.2.2.1 = true ∨ res.2.2.2 = .err) ↔ closeErrs (!early) ch = true) := by
  obtain ⟨so, eof⟩ := r
  simp only at hopen heof
  subst hopen heof
  induction reads generalizing stop got with
  | nil =>
    have key : ∀ (g : Nat), (consume ch [] none ⟨true, false⟩ g).2.1 = g ∧
        (((consume ch [] none ⟨true, false⟩ g).2.2.1 = true ∨ (consume ch [] none ⟨true, false⟩ g).2.2.2 = .err) ↔
          closeErrs true ch = true) := by
      intro g
      cases hw : ch.wait with
      | failed => simp [consume, read, close, closeErrs, hw]
      | exited s =>
        cases s
        · simp [consume, read, close, closeErrs, hw]
        · simp [consume, read, close, closeErrs, hw]
    have key0 : ∀ (g : Nat), (consume ch [] (some 0) ⟨true, false⟩ g).2.1 = g ∧
        (((consume ch [] (some 0) ⟨true, false⟩ g).2.2.1 = true ∨ (consume ch [] (some 0) ⟨true, false⟩ g).2.2.2 = .err) ↔
          closeErrs false ch = true) := by
      intro g
      cases hw : ch.wait with
      | failed => simp [consume, close, closeErrs, hw]
      | exited s =>
        cases s
        · cases hs : ch.stderr.isEmpty <;> simp [consume, close, closeErrs, hw, hs]
        · simp [consume, close, closeErrs, hw]
    cases stop with
    | none => simpa using key got
    | some k =>
      cases k with
      | zero => simpa using key0 got
      | succ k =>
        have : consume ch [] (some (k + 1)) ⟨true, false⟩ got = consume ch [] none ⟨true, false⟩ got := by
          simp [consume]
        rw [this]
        simpa using key got
  | cons n rest ih =>
    cases stop with
    | none =>
      have hstep : consume ch (n :: rest) none ⟨true, false⟩ got = consume ch rest none ⟨true, false⟩ (got + (n + 1)) := by
        simp [consume, read]
      rw [hstep]
      have := ih none (got + (n + 1))
      simp only at this
      refine ⟨?_, this.2⟩
      rw [this.1]; simp [Nat.add_assoc]
    | some k =>
      cases k with
      | zero =>
        cases hw : ch.wait with
        | failed => simp [consume, close, closeErrs, hw]
        | exited s =>
          cases s
          · cases hs : ch.stderr.isEmpty <;> simp [consume, close, closeErrs, hw, hs]
          · simp [consume, close, closeErrs, hw]
      | succ k =>
        have hstep : consume ch (n :: rest) (some (k + 1)) ⟨true, false⟩ got =
            consume ch rest (some k) ⟨true, false⟩ (got + (n + 1)) := by
          simp [consume, read]
        rw [hstep]
        have := ih (some k) (got + (n + 1))
        simp only at this
        refine ⟨?_, ?_⟩
        · rw [this.1]; simp [Nat.add_assoc]
        · rw [this.2]; simp

/-! ### `--pre-glob` -/

theorem find_reverse_snoc (gs : List PreGlob) (g : PreGlob) :
    ((gs ++ [g]).reverse.find? (·.hit)) = if g.hit then some g else gs.reverse.find? (·.hit) := by
  simp only [List.reverse_append, List.reverse_cons, List.reverse_nil, List.nil_append, List.singleton_append,
    List.find?_cons]
  cases g.hit <;> simp

theorem lastHit_eq (gs : List PreGlob) (acc : Option PreGlob) :
    lastHit gs acc = ((gs.reverse.find? (·.hit)).or acc) := by
  induction gs generalizing acc with
  | nil => simp [lastHit]
  | cons g gs ih =>
    simp only [lastHit, ih, List.reverse_cons, List.find?_append, List.find?_cons, List.find?_nil]
    cases hh : g.hit <;> cases hf : gs.reverse.find? (·.hit) <;> simp [Option.or]

theorem overrideIgnored_eq_spec (gs : List PreGlob) : overrideIgnored gs = specIgnored gs := by
  unfold overrideIgnored specIgnored
  rw [lastHit_eq]
  cases gs.reverse.find? (·.hit) <;> simp [Option.or]

/-! ### pipes -/

theorem step_measure {K : Nat} {async : Bool} {s t : PState} (h : Step K async s t) : measure t < measure s := by
  cases h with
  | childOut h => simp [measure]; omega
  | childOutIgnored => simp [measure]
  | childOutKilled => simp [measure]
  | childErr h => simp [measure]; omega
  | read n h1 h2 => simp [measure]; omega
  | close => simp [measure]; omega
  | drain n _ h1 h2 => simp [measure]; omega
  | drainAfterWait n _ h1 h2 => simp [measure]; omega

/-- `n` steps -/
inductive ReachN (K : Nat) (async : Bool) : PState → Nat → PState → Prop where
  | zero (s) : ReachN K async s 0 s
  | succ {s t u n} : ReachN K async s n t → Step K async t u → ReachN K async s (n + 1) u

theorem reachN_measure {K : Nat} {async : Bool} {s t : PState} {n : Nat} (h : ReachN K async s n t) :
    measure t + n ≤ measure s := by
  induction h with
  | zero => simp
  | succ _ hs ih => have := step_measure hs; omega

theorem reachN_reach {K : Nat} {async : Bool} {s t : PState} {n : Nat} (h : ReachN K async s n t) :
    Reach K async s t := by
  induction h with
  | zero => exact .refl _
  | succ _ hs ih => exact .step ih hs

theorem async_progress {K : Nat} (hK : 1 ≤ K) (s : PState) (hd : ¬ Done s) : ∃ t, Step K true s t := by
  obtain ⟨prog, out, err, closed⟩ := s
  cases prog with
  | nil =>
    cases closed with
    | true => exact absurd ⟨rfl, .inl rfl⟩ hd
    | false =>
      have : out ≠ 0 := fun h => hd ⟨rfl, .inr h⟩
      exact ⟨_, .read out (by omega) (Nat.le_refl _)⟩
  | cons b rest =>
    cases b with
    | false =>
      cases closed with
      | true => exact ⟨_, .childOutIgnored⟩
      | false =>
        by_cases h : out < K
        · exact ⟨_, .childOut h⟩
        · exact ⟨_, .read out (by omega) (Nat.le_refl _)⟩
    | true =>
      by_cases h : err < K
      · exact ⟨_, .childErr h⟩
      · exact ⟨_, .drain err rfl (by omega) (Nat.le_refl _)⟩

/-- Without the drainer: as long as everything the child will ever write to stderr fits into the pipe,
its stderr writes never block. -/
theorem sync_invariant {K : Nat} {s t : PState} (h : Step K false s t)
    (hi : s.err + errOps s.prog ≤ K) : t.err + errOps t.prog ≤ K := by
  cases h with
  | childOut h => simpa [errOps] using hi
  | childOutIgnored => simpa [errOps] using hi
  | childOutKilled => simp [errOps] at hi ⊢; omega
  | childErr h => simp [errOps] at hi ⊢; omega
  | read n h1 h2 => simpa using hi
  | close => simpa using hi
  | drain n ha _ _ => cases ha
  | drainAfterWait n _ h1 h2 => simp [errOps] at hi ⊢; omega

theorem sync_progress_small {K : Nat} (hK : 1 ≤ K) (s : PState) (hi : s.err + errOps s.prog ≤ K)
    (hd : ¬ Done s) : ∃ t, Step K false s t := by
  obtain ⟨prog, out, err, closed⟩ := s
  cases prog with
  | nil =>
    cases closed with
    | true => exact absurd ⟨rfl, .inl rfl⟩ hd
    | false =>
      have : out ≠ 0 := fun h => hd ⟨rfl, .inr h⟩
      exact ⟨_, .read out (by omega) (Nat.le_refl _)⟩
  | cons b rest =>
    cases b with
    | false =>
      cases closed with
      | true => exact ⟨_, .childOutIgnored⟩
      | false =>
        by_cases h : out < K
        · exact ⟨_, .childOut h⟩
        · exact ⟨_, .read out (by omega) (Nat.le_refl _)⟩
    | true =>
      have : err < K := by simp [errOps] at hi; omega
      exact ⟨_, .childErr this⟩

theorem sync_fill (K : Nat) (j : Nat) (hj : j ≤ K) :
    Reach K false (initState (List.replicate (K + 1) true)) ⟨List.replicate (K + 1 - j) true, 0, j, false⟩ := by
  induction j with
  | zero => exact .refl _
  | succ j ih =>
    have := ih (by omega)
    have hrep : List.replicate (K + 1 - j) true = true :: List.replicate (K + 1 - (j + 1)) true := by
      have : K + 1 - j = (K + 1 - (j + 1)) + 1 := by omega
      rw [this, List.replicate_succ]
    rw [hrep] at this
    exact .step this (.childErr (by omega))

end RgVerif.Process
