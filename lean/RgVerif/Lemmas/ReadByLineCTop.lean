import RgVerif.Lemmas.ReadByLineCLoop
import RgVerif.Lemmas.ReadByLineGTop
import RgVerif.Lemmas.CorePres
/-
C02 with context lines: `ReadByLine::run` = `SliceByLine::run`, events and result, for every sink
script, read script and capacity (slow path, detection off).
-/
namespace RgVerif.Searcher
open RgVerif RgVerif.Matcher RgVerif.Lines RgVerif.GrepSpec RgVerif.LineBuffer

/-- the log at the end of a search whose loop ended in state `T1` with `r1` -/
def endEvents (T1 : Core) : Res Bool → List Event
  | .err => T1.events
  | _ => T1.events ++ [.finish T1.pos none]

def endResult (σ : Script) (T1 : Core) : Res Bool → Res Unit
  | .err => .err
  | _ => finRes (σ T1.events.length)

/-- `SliceByLine::run` in terms of ONE run of the slow loop over the lines of the input -/
theorem sliceByLine_via_slowLoop {cfg : Config} (m : MatcherI) (σ : Script) (hbin : cfg.binary = .none) (inp : Bytes)
    (hslow : isLineByLineFast cfg m (Core.new cfg true) = false) (hσ : σ 0 = .cont)
    (ls : List Bytes) (hg : GoodLines cfg.lineTerm.asByte ls) (hfl : ls.flatten = inp) (T1 : Core) (r1 : Res Bool)
    (hrun : slowLoop cfg m σ inp (spansFrom 0 ls)
      { Core.new cfg true with events := (Core.new cfg true).events ++ [Event.begin] } = (T1, r1))
    (hTbin : T1.binaryByteOffset = none) (hpos : r1 = .ok true → T1.pos = inp.length) :
    (sliceByLine cfg m σ inp).events = endEvents T1 r1 ∧
      (sliceByLine cfg m σ inp).result = endResult σ T1 r1 := by
  unfold sliceByLine
  dsimp only
  have hb0 : begin σ (Core.new cfg true) = emit σ (Core.new cfg true) .begin := rfl
  rw [hb0]
  have hlen0 : (Core.new cfg true).events.length = 0 := rfl
  rcases emit_cases σ (Core.new cfg true) .begin with ⟨hσ', heq⟩ | ⟨hσ', heq⟩ | ⟨hσ', heq⟩
  · rw [heq]
    dsimp only
    generalize hc0 : ({ Core.new cfg true with events := (Core.new cfg true).events ++ [Event.begin] } : Core) = c0
      at hrun ⊢
    have c_bin : c0.binaryByteOffset = none := by rw [← hc0]; rfl
    have c_pos : c0.pos = 0 := by rw [← hc0]; rfl
    rw [if_pos rfl, detectBinary_none hbin c_bin]
    dsimp only
    have hfast : isLineByLineFast cfg m c0 = false := isLineByLineFast_false_all cfg m true hslow c0
    by_cases hne : inp = []
    · subst hne
      have hls : ls = [] := by
        cases hg with
        | nil => rfl
        | last l hu => simp at hfl; exact absurd hfl hu.1
        | cons l ls' ht _ => simp at hfl; exact absurd hfl.1 ht.ne_nil
      subst hls
      simp only [spansFrom, slowLoop, Prod.mk.injEq] at hrun
      obtain ⟨h1, h2⟩ := hrun
      subst h1 h2
      simp only [sliceLoop, List.length_nil, Nat.zero_add, List.drop_nil, List.isEmpty_nil, if_true]
      have hf := finish_events σ c0 (byteCount cfg c0) c0.binaryByteOffset
      simp only [Run.events]
      rw [hf.1, hf.2]
      simp [byteCount, ite_self, c_bin, c_pos, endEvents, endResult]
    · have hd : (List.drop c0.pos inp).isEmpty = false := by
        rw [c_pos]
        cases inp with
        | nil => exact absurd rfl hne
        | cons a r => rfl
      have hsteps : stepLines cfg.lineTerm.asByte inp c0.pos inp.length = spansFrom 0 ls := by
        rw [c_pos]
        have := stepLines_good (t := cfg.lineTerm.asByte) (buf := inp) [] ls hg inp.length
          (by simp [hfl]) (by simp [hfl])
        simpa using this
      have hmbl : matchByLine cfg m σ inp c0 = (T1, r1) := by
        simp only [matchByLine, hfast, Bool.false_eq_true, if_false, matchByLineSlow, hsteps, hrun]
      rw [sliceLoop, hd]
      simp only [Bool.false_eq_true, if_false, hmbl]
      cases r1 with
      | err => exact ⟨rfl, rfl⟩
      | ok b =>
        cases b with
        | false =>
          dsimp only
          have hf := finish_events σ T1 (byteCount cfg T1) T1.binaryByteOffset
          simp only [Run.events]
          rw [hf.1, hf.2]
          simp [byteCount, ite_self, hTbin, endEvents, endResult]
        | true =>
          dsimp only
          have hp := hpos rfl
          have hloop : sliceLoop cfg m σ inp inp.length T1 = (T1, .ok ()) := by
            cases hl : inp.length with
            | zero => rfl
            | succ n => rw [sliceLoop]; simp [hp]
          rw [hloop]
          dsimp only
          have hf := finish_events σ T1 (byteCount cfg T1) T1.binaryByteOffset
          simp only [Run.events]
          rw [hf.1, hf.2]
          simp [byteCount, ite_self, hTbin, endEvents, endResult]
  · rw [hlen0, hσ] at hσ'; exact absurd hσ' (by decide)
  · rw [hlen0, hσ] at hσ'; exact absurd hσ' (by decide)

/-- "the log extends `E0`" survives everything `Core` does -/
theorem extPres (cfg : Config) (σ : Script) (buf : Bytes) (E0 : List Event) :
    CorePres cfg σ buf (fun st => ∃ rest, st.events = E0 ++ rest) where
  upd := fun _ _ h he _ _ => by obtain ⟨r, hr⟩ := h; exact ⟨r, by rw [he, hr]⟩
  brk := fun st o h => by
    obtain ⟨r, hr⟩ := h
    obtain ⟨n, hn, _⟩ := sinkBreakContext_ext cfg σ buf st o
    exact ⟨r ++ n, by rw [hn, hr, List.append_assoc]⟩
  sm := fun st rg h => by
    obtain ⟨r, hr⟩ := h
    obtain ⟨n, hn, _⟩ := sinkMatched_ext cfg σ buf st rg
    exact ⟨r ++ n, by rw [hn, hr, List.append_assoc]⟩
  sb := fun st rg h => by
    obtain ⟨r, hr⟩ := h
    obtain ⟨n, hn, _⟩ := sinkBeforeContext_ext cfg σ buf st rg
    exact ⟨r ++ n, by rw [hn, hr, List.append_assoc]⟩
  sa := fun st rg h => by
    obtain ⟨r, hr⟩ := h
    obtain ⟨n, hn, _⟩ := sinkAfterContext_ext cfg σ buf st rg
    exact ⟨r ++ n, by rw [hn, hr, List.append_assoc]⟩
  so := fun st rg h => by
    obtain ⟨r, hr⟩ := h
    obtain ⟨n, hn, _⟩ := sinkOtherContext_ext cfg σ buf st rg
    exact ⟨r ++ n, by rw [hn, hr, List.append_assoc]⟩

/-- the log of `SliceByLine::run` extends the log its slow loop has after any prefix `Ls` of the lines -/
theorem sliceByLine_prefix {cfg : Config} (m : MatcherI) (σ : Script) (hbin : cfg.binary = .none) (inp : Bytes)
    (hslow : isLineByLineFast cfg m (Core.new cfg true) = false) (hσ : σ 0 = .cont)
    (Ls tail : List Bytes) (hg : GoodLines cfg.lineTerm.asByte (Ls ++ tail)) (hfl : (Ls ++ tail).flatten = inp)
    (S1 : Core)
    (hrun : slowLoop cfg m σ inp (spansFrom 0 Ls)
      { Core.new cfg true with events := (Core.new cfg true).events ++ [Event.begin] } = (S1, .ok true)) :
    ∃ rest, (sliceByLine cfg m σ inp).events = S1.events ++ rest := by
  have H := extPres cfg σ inp S1.events
  unfold sliceByLine
  dsimp only
  have hb0 : begin σ (Core.new cfg true) = emit σ (Core.new cfg true) .begin := rfl
  rw [hb0]
  have hlen0 : (Core.new cfg true).events.length = 0 := rfl
  rcases emit_cases σ (Core.new cfg true) .begin with ⟨hσ', heq⟩ | ⟨hσ', heq⟩ | ⟨hσ', heq⟩
  · rw [heq]
    dsimp only
    generalize hc0 : ({ Core.new cfg true with events := (Core.new cfg true).events ++ [Event.begin] } : Core) = c0
      at hrun ⊢
    have c_bin : c0.binaryByteOffset = none := by rw [← hc0]; rfl
    have c_pos : c0.pos = 0 := by rw [← hc0]; rfl
    rw [if_pos rfl, detectBinary_none hbin c_bin]
    dsimp only
    have hfast : isLineByLineFast cfg m c0 = false := isLineByLineFast_false_all cfg m true hslow c0
    -- the loop of `SliceByLine::run` ends in a state whose log extends `S1`'s
    have hloop : ∃ rest, (sliceLoop cfg m σ inp (inp.length + 1) c0).1.events = S1.events ++ rest := by
      by_cases hne : inp = []
      · subst hne
        have hLs : Ls = [] := by
          cases hL : Ls with
          | nil => rfl
          | cons l ls' =>
            exfalso
            rw [hL] at hg hfl
            exact goodLines_flatten_ne_nil hg (by simp) hfl
        subst hLs
        simp only [spansFrom, slowLoop, Prod.mk.injEq] at hrun
        rw [← hrun.1]
        exact ⟨[], by simp [sliceLoop]⟩
      · have hd : (List.drop c0.pos inp).isEmpty = false := by
          rw [c_pos]
          cases inp with
          | nil => exact absurd rfl hne
          | cons a r => rfl
        have hsteps : stepLines cfg.lineTerm.asByte inp c0.pos inp.length = spansFrom 0 (Ls ++ tail) := by
          rw [c_pos]
          have := stepLines_good (t := cfg.lineTerm.asByte) (buf := inp) [] (Ls ++ tail) hg inp.length
            (by simp [hfl]) (by simp [hfl])
          simpa using this
        have hmbl : matchByLine cfg m σ inp c0
            = slowLoop cfg m σ inp (spansFrom (0 + Ls.flatten.length) tail) S1 := by
          simp only [matchByLine, hfast, Bool.false_eq_true, if_false, matchByLineSlow, hsteps]
          rw [spansFrom_append, slowLoop_append, hrun]
        have hI := slowLoop_pres H m (spansFrom (0 + Ls.flatten.length) tail) S1 ⟨[], by simp⟩
        rw [sliceLoop, hd]
        simp only [Bool.false_eq_true, if_false, hmbl]
        generalize slowLoop cfg m σ inp (spansFrom (0 + Ls.flatten.length) tail) S1 = g at hI ⊢
        obtain ⟨T1, r1⟩ := g
        cases r1 with
        | err => exact hI
        | ok b =>
          cases b with
          | false => exact hI
          | true => exact sliceLoop_pres H m _ T1 hI
    generalize sliceLoop cfg m σ inp (inp.length + 1) c0 = g at hloop ⊢
    obtain ⟨T, r⟩ := g
    obtain ⟨rest, hrest⟩ := hloop
    cases r with
    | err => exact ⟨rest, hrest⟩
    | ok u =>
      dsimp only
      have hf := finish_events σ T (byteCount cfg T) T.binaryByteOffset
      simp only [Run.events]
      rw [hf.1]
      exact ⟨rest ++ [.finish (byteCount cfg T) T.binaryByteOffset], by rw [hrest, List.append_assoc]⟩
  · rw [hlen0, hσ] at hσ'; exact absurd hσ' (by decide)
  · rw [hlen0, hσ] at hσ'; exact absurd hσ' (by decide)

/-- **C02 for every allocation policy, with or without context lines, for every sink script**: reader =
slice, events and result -- or, under a heap limit only, the reader fails with an allocation error
after a prefix of the slice searcher's callbacks. -/
theorem readByLine_vs_sliceByLine_alloc {cfg : Config} (m : MatcherI) (σ : Script)
    (hbin : cfg.binary = .none) (hslow : isLineByLineFast cfg m (Core.new cfg true) = false)
    (lbcfg : LineBuffer.Config) (hlt : lbcfg.lineterm = cfg.lineTerm.asByte) (hb : lbcfg.binary = .none)
    (rdr : Reader) (hz : NoZero rdr.script) :
    ((readByLine cfg m σ lbcfg rdr).events = (sliceByLine cfg m σ rdr.data).events ∧
      (readByLine cfg m σ lbcfg rdr).result = (sliceByLine cfg m σ rdr.data).result) ∨
    (lbcfg.alloc ≠ .eager ∧ (readByLine cfg m σ lbcfg rdr).result = .err ∧
      ∃ rest, (sliceByLine cfg m σ rdr.data).events = (readByLine cfg m σ lbcfg rdr).events ++ rest) := by
  have hslow' : isLineByLineFast cfg m (Core.new cfg false) = false :=
    isLineByLineFast_false_all cfg m true hslow _
  have hb0 : begin σ (Core.new cfg false) = emit σ (Core.new cfg false) .begin := rfl
  have hb1 : begin σ (Core.new cfg true) = emit σ (Core.new cfg true) .begin := rfl
  have hlen0 : (Core.new cfg false).events.length = 0 := rfl
  have hlen1 : (Core.new cfg true).events.length = 0 := rfl
  cases hσ : σ 0 with
  | cont =>
    unfold readByLine
    dsimp only
    rw [hb0]
    rcases emit_cases σ (Core.new cfg false) .begin with ⟨hσ', heq⟩ | ⟨hσ', heq⟩ | ⟨hσ', heq⟩
    · rw [heq]
      dsimp only
      rw [if_pos rfl]
      generalize hc0 : ({ Core.new cfg false with events := (Core.new cfg false).events ++ [Event.begin] } : Core) = c0
      generalize hc1 : ({ Core.new cfg true with events := (Core.new cfg true).events ++ [Event.begin] } : Core) = c1
      have hR : RInvC cfg m σ lbcfg rdr.data c1 ⟨c0, LB.init lbcfg, rdr⟩ [] c1 := by
        refine ⟨⟨[], [], rdr.data, Inv.init' lbcfg rdr⟩, hz, rfl, by simp [LB.init, LB.buffer, window],
          by simp [LB.init, LB.buffer], by simp [LB.init, LB.buffer], fun x hx => by simp at hx, Or.inl rfl, rfl, ?_, ?_, ?_⟩
        · show ESim cfg rdr.data [] 0 c1 c0
          refine ⟨⟨by rw [← hc0, ← hc1]; rfl, by rw [← hc0, ← hc1]; rfl, by rw [← hc0, ← hc1]; rfl,
            by rw [← hc1]; rfl, by rw [← hc0]; rfl⟩, by rw [← hc0, ← hc1]; exact Nat.le_refl _,
            by rw [← hc0, ← hc1]; rfl, by rw [← hc0, ← hc1]; rfl, by rw [← hc0, ← hc1]; rfl,
            by rw [← hc1]; exact Nat.le_refl _, by rw [← hc0]; exact Nat.le_refl _, ?_⟩
          intro p _ hp
          have hp0 : p = 0 := by simpa using hp
          subst hp0
          rw [← hc0, ← hc1]
          simp [lnAt, Core.new, Lines.slice, count]
        · show PostAt c0 0
          rw [← hc0]; exact ⟨Nat.le_refl _, rfl, Or.inl rfl⟩
        · show XRel cfg rdr.data [] 0 c1 c0 0
          left; rw [← hc0, ← hc1]; rfl
      have hE := rblLoop_C hbin hslow' hlt hb (rblFuel rdr) _ _ _ hR
        (by simp only [LB.init, LB.buffer, rblFuel]; simp; omega)
      generalize rblLoop cfg m σ (rblFuel rdr) ⟨c0, LB.init lbcfg, rdr⟩ = g at hE ⊢
      obtain ⟨s', res⟩ := g
      rcases hE with hE | ⟨hne, hres, Ls, tail, S1, hg, hfl, hrun, hev⟩
      rotate_left
      · -- allocation error: a prefix of the callbacks
        right
        dsimp only at hres hev
        subst hres
        rw [← hc1] at hrun
        obtain ⟨rest, hrest⟩ := sliceByLine_prefix m σ hbin rdr.data hslow hσ Ls tail hg hfl S1 hrun
        exact ⟨hne, rfl, rest, by rw [hrest, hev]; rfl⟩
      left
      obtain ⟨ls, T1, r1, hg, hfl, hrun, hev, hTb, hlb, hmatch⟩ := hE
      dsimp only at hev hlb hmatch
      have hpos : r1 = .ok true → T1.pos = rdr.data.length := by
        intro h
        cases res with
        | err => dsimp only at hmatch; rw [hmatch] at h; exact absurd h (by simp)
        | ok o =>
          cases o with
          | some n => dsimp only at hmatch; rw [hmatch.1] at h; exact absurd h (by simp)
          | none => exact hmatch.2.1
      rw [← hc1] at hrun
      have hS := sliceByLine_via_slowLoop m σ hbin rdr.data hslow hσ ls hg hfl T1 r1 hrun hTb hpos
      rw [hS.1, hS.2]
      cases res with
      | err =>
        dsimp only at hmatch ⊢
        subst hmatch
        exact ⟨by simp [Run.events, endEvents, hev], rfl⟩
      | ok o =>
        cases o with
        | some n =>
          dsimp only at hmatch ⊢
          obtain ⟨h1, h2⟩ := hmatch
          subst h1
          have hf := finish_events σ s'.core n s'.lb.binOff
          simp only [Run.events]
          rw [hf.1, hf.2, hlb, ← hev, ← h2]
          exact ⟨rfl, rfl⟩
        | none =>
          dsimp only at hmatch ⊢
          obtain ⟨h1, h2, h3⟩ := hmatch
          subst h1
          have hf := finish_events σ s'.core s'.lb.abs s'.lb.binOff
          simp only [Run.events]
          rw [hf.1, hf.2, hlb, ← hev, h3, ← h2]
          exact ⟨rfl, rfl⟩
    · rw [hlen0, hσ] at hσ'; exact absurd hσ' (by decide)
    · rw [hlen0, hσ] at hσ'; exact absurd hσ' (by decide)
  | stop =>
    have hr : (readByLine cfg m σ lbcfg rdr).events = [Event.begin, .finish 0 none] ∧
        (readByLine cfg m σ lbcfg rdr).result = finRes (σ 1) := by
      unfold readByLine
      dsimp only
      rw [hb0]
      rcases emit_cases σ (Core.new cfg false) .begin with ⟨hσ', heq⟩ | ⟨hσ', heq⟩ | ⟨hσ', heq⟩
      · rw [hlen0, hσ] at hσ'; exact absurd hσ' (by decide)
      · rw [heq]
        dsimp only
        rw [if_neg (by decide)]
        dsimp only
        have hf := finish_events σ ({ Core.new cfg false with events := (Core.new cfg false).events ++ [Event.begin] } : Core)
          (LB.init lbcfg).abs (LB.init lbcfg).binOff
        simp only [Run.events]
        rw [hf.1, hf.2]
        simp [Core.new, LB.init]
      · rw [hlen0, hσ] at hσ'; exact absurd hσ' (by decide)
    have hs : (sliceByLine cfg m σ rdr.data).events = [Event.begin, .finish 0 none] ∧
        (sliceByLine cfg m σ rdr.data).result = finRes (σ 1) := by
      unfold sliceByLine
      dsimp only
      rw [hb1]
      rcases emit_cases σ (Core.new cfg true) .begin with ⟨hσ', heq⟩ | ⟨hσ', heq⟩ | ⟨hσ', heq⟩
      · rw [hlen1, hσ] at hσ'; exact absurd hσ' (by decide)
      · rw [heq]
        dsimp only
        rw [if_neg (by decide)]
        dsimp only
        have hf := finish_events σ ({ Core.new cfg true with events := (Core.new cfg true).events ++ [Event.begin] } : Core)
          (byteCount cfg { Core.new cfg true with events := (Core.new cfg true).events ++ [Event.begin] })
          ({ Core.new cfg true with events := (Core.new cfg true).events ++ [Event.begin] } : Core).binaryByteOffset
        simp only [Run.events]
        rw [hf.1, hf.2]
        simp [byteCount, ite_self, Core.new]
      · rw [hlen1, hσ] at hσ'; exact absurd hσ' (by decide)
    exact Or.inl ⟨by rw [hr.1, hs.1], by rw [hr.2, hs.2]⟩
  | err =>
    have hr : (readByLine cfg m σ lbcfg rdr).events = [Event.begin] ∧
        (readByLine cfg m σ lbcfg rdr).result = .err := by
      unfold readByLine
      dsimp only
      rw [hb0]
      rcases emit_cases σ (Core.new cfg false) .begin with ⟨hσ', heq⟩ | ⟨hσ', heq⟩ | ⟨hσ', heq⟩
      · rw [hlen0, hσ] at hσ'; exact absurd hσ' (by decide)
      · rw [hlen0, hσ] at hσ'; exact absurd hσ' (by decide)
      · rw [heq]
        exact ⟨by simp [Run.events, Core.new], rfl⟩
    have hs : (sliceByLine cfg m σ rdr.data).events = [Event.begin] ∧
        (sliceByLine cfg m σ rdr.data).result = .err := by
      unfold sliceByLine
      dsimp only
      rw [hb1]
      rcases emit_cases σ (Core.new cfg true) .begin with ⟨hσ', heq⟩ | ⟨hσ', heq⟩ | ⟨hσ', heq⟩
      · rw [hlen1, hσ] at hσ'; exact absurd hσ' (by decide)
      · rw [hlen1, hσ] at hσ'; exact absurd hσ' (by decide)
      · rw [heq]
        exact ⟨by simp [Run.events, Core.new], rfl⟩
    exact Or.inl ⟨by rw [hr.1, hs.1], by rw [hr.2, hs.2]⟩

/-- the BOM peek in front of `search_reader` only uses up a prefix of the read script -/
theorem readFull_suffix : ∀ (fuel need rem : Nat) (sc : List Step), ∃ pre, sc = pre ++ (readFull fuel need rem sc).2 := by
  intro fuel
  induction fuel with
  | zero => intro need rem sc; exact ⟨[], rfl⟩
  | succ fuel ih =>
    intro need rem sc
    unfold readFull
    split
    · exact ⟨[], rfl⟩
    · cases sc with
      | nil => exact ⟨[], rfl⟩
      | cons st rest =>
        cases st with
        | intr =>
          obtain ⟨pre, hpre⟩ := ih need rem rest
          exact ⟨.intr :: pre, by simp only [List.cons_append]; rw [← hpre]⟩
        | ret n =>
          dsimp only
          split
          · exact ⟨[.ret n], rfl⟩
          · obtain ⟨pre, hpre⟩ := ih (need - min n (min need rem)) (rem - min n (min need rem)) rest
            exact ⟨.ret n :: pre, by simp only [List.cons_append]; rw [← hpre]⟩

theorem withBomPeek_noZero (r : Reader) (h : NoZero r.script) : NoZero r.withBomPeek.script := by
  obtain ⟨pre, hpre⟩ := readFull_suffix (r.script.length + 4) 3 r.data.length r.script
  intro st hst
  apply h st
  rw [hpre]
  have : r.withBomPeek.script = (readFull (r.script.length + 4) 3 r.data.length r.script).2 := rfl
  rw [this] at hst
  simp [hst]

theorem withBomPeek_data (r : Reader) : r.withBomPeek.data = r.data := rfl

/-- **C02 on the slow path, every configuration with detection off** (with or without context
lines), eager allocation: reader = slice, events and result, for every sink script. -/
theorem readByLine_eq_sliceByLine_all {cfg : Config} (m : MatcherI) (σ : Script)
    (hbin : cfg.binary = .none) (hslow : isLineByLineFast cfg m (Core.new cfg true) = false)
    (lbcfg : LineBuffer.Config) (hlt : lbcfg.lineterm = cfg.lineTerm.asByte) (hb : lbcfg.binary = .none)
    (hal : lbcfg.alloc = .eager) (rdr : Reader) (hz : NoZero rdr.script) :
    (readByLine cfg m σ lbcfg rdr).events = (sliceByLine cfg m σ rdr.data).events ∧
      (readByLine cfg m σ lbcfg rdr).result = (sliceByLine cfg m σ rdr.data).result := by
  rcases readByLine_vs_sliceByLine_alloc m σ hbin hslow lbcfg hlt hb rdr hz with h | h
  · exact h
  · exact absurd hal h.1

end RgVerif.Searcher
