import RgVerif.Spec.PrinterSpec
/-
Helper lemmas for C09: decimal round trip, record layout = what `PreludeWriter` writes, record parsing.
-/
namespace RgVerif.Lemmas.PrinterRecord
open RgVerif RgVerif.Matcher RgVerif.Replace RgVerif.Printer RgVerif.PrinterSpec

/-! ### decimal -/

theorem parseNat_append_one (b : Bytes) (d : Nat) : parseNat (b ++ [d]) = parseNat b * 10 + (d - 48) := by
  simp [parseNat, List.foldl_append]

theorem parseNat_decimal (n : Nat) : parseNat (decimal n) = n := by
  induction n using Nat.strongRecOn with
  | _ n ih =>
    rw [decimal]
    by_cases h : n < 10
    · simp [h, parseNat]
    · simp only [h, ↓reduceIte]
      rw [parseNat_append_one, ih (n / 10) (by omega)]
      omega

theorem decimal_digits (n : Nat) : ∀ d ∈ decimal n, isDigit d = true := by
  induction n using Nat.strongRecOn with
  | _ n ih =>
    rw [decimal]
    by_cases h : n < 10
    · simp only [h, ↓reduceIte, List.mem_singleton]
      intro d hd
      subst hd
      simp [isDigit]
      omega
    · simp only [h, ↓reduceIte, List.mem_append, List.mem_singleton]
      intro d hd
      rcases hd with hd | hd
      · exact ih (n / 10) (by omega) d hd
      · subst hd
        simp [isDigit]
        omega

theorem decimal_ne_nil (n : Nat) : decimal n ≠ [] := by
  rw [decimal]
  by_cases h : n < 10 <;> simp [h]

/-! ### splitting at a separator -/

theorem splitAt1_append (d : Nat) (x y : Bytes) (h : d ∉ x) : splitAt1 d (x ++ d :: y) = some (x, y) := by
  induction x with
  | nil => simp [splitAt1]
  | cons b rest ih =>
    have hb : (b == d) = false := by
      have : b ≠ d := by intro hbd; apply h; simp [hbd]
      simp [this]
    have hr : d ∉ rest := by intro hr; apply h; simp [hr]
    simp [splitAt1, hb, ih hr]

theorem sep_not_in_decimal (n sepB : Nat) (h : isDigit sepB = false) : sepB ∉ decimal n := by
  intro hm
  have := decimal_digits n sepB hm
  simp [h] at this

theorem parseNumField_print (sepB : Nat) (h : isDigit sepB = false) (v : Option Nat) (rest : Bytes) :
    parseNumField v.isSome sepB (numField [sepB] v ++ rest) = some (v, rest) := by
  cases v with
  | none => simp [parseNumField, numField]
  | some n =>
    simp only [parseNumField, numField, Option.isSome_some, ↓reduceIte, List.append_assoc, List.singleton_append]
    rw [splitAt1_append sepB (decimal n) rest (sep_not_in_decimal n sepB h)]
    simp [parseNat_decimal]

/-! ### the prelude is the record layout -/

theorem writeLine_eq_completed (lt : LineTerm) (line : Bytes) : writeLine lt line = completed lt line := by
  unfold writeLine completed LineTerm.isSuffix
  by_cases h : line.getLast? = some lt.asByte <;> simp [h]

/-- `PreludeWriter`'s separator state machine writes exactly the record layout. -/
theorem writePrelude_eq (c : StdCfg) (isCtx : Bool) (off : Nat) (ln col : Option Nat) :
    writePrelude c isCtx off ln col =
      pathField c (fieldSep c isCtx) (recPath c) ++ numField (fieldSep c isCtx) ln
        ++ numField (fieldSep c isCtx) (if c.column then col else none)
        ++ numField (fieldSep c isCtx) (optIf c.byteOffset off) := by
  unfold writePrelude PW.writePath PW.writeLineNumber PW.writeColumnNumber PW.writeByteOffset PW.writeNum
    PW.writeSeparator recPath pathField numField optIf
  cases hh : c.heading <;> cases hp : c.path <;> cases hpt : c.pathTerminator <;> cases ln <;>
    cases hc : c.column <;> cases col <;> cases hb : c.byteOffset <;> simp

/-! ### parsing a printed record -/

theorem parsePathField_print (c : StdCfg) (sepB pathSepB : Nat) (path : Option Bytes) (rest : Bytes)
    (hps : match c.pathTerminator with | some t => pathSepB = t | none => pathSepB = sepB)
    (hpath : ∀ p, path = some p → pathSepB ∉ p) :
    parsePathField path.isSome pathSepB (pathField c [sepB] path ++ rest) = some (path, rest) := by
  cases hp : path with
  | none => simp [parsePathField, pathField]
  | some p =>
    have hnot : pathSepB ∉ p := hpath p hp
    simp only [parsePathField, Option.isSome_some, ↓reduceIte, pathField]
    cases hpt : c.pathTerminator with
    | none =>
      simp only [hpt] at hps
      subst hps
      simp only [List.append_assoc, List.singleton_append]
      rw [splitAt1_append _ p rest hnot]
    | some t =>
      simp only [hpt] at hps
      subst hps
      simp only [List.append_assoc, List.singleton_append]
      rw [splitAt1_append _ p rest hnot]

theorem record_parses (c : StdCfg) (r : Rec) (sepB pathSepB : Nat) (g : ParseGuard c r sepB pathSepB) :
    parseRecord (shapeOf r sepB pathSepB) (printRecord c r) = some (r.path, r.lineNo, r.col, r.off, r.text) := by
  obtain ⟨hsep, hdig, hps, hpath⟩ := g
  unfold parseRecord printRecord shapeOf
  simp only [hsep, List.append_assoc]
  rw [parsePathField_print c sepB pathSepB r.path _ hps hpath]
  simp only [Option.bind_some]
  rw [parseNumField_print sepB hdig r.lineNo]
  simp only [Option.bind_some]
  rw [parseNumField_print sepB hdig r.col]
  simp only [Option.bind_some]
  rw [parseNumField_print sepB hdig r.off]
  simp only [Option.bind_some]

end RgVerif.Lemmas.PrinterRecord
