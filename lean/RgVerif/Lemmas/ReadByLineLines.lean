import RgVerif.Model.ReadByLine
import RgVerif.Lemmas.SearcherSlow
namespace RgVerif.Searcher
open RgVerif RgVerif.Matcher RgVerif.Lines RgVerif.GrepSpec

/-- line number "as of position `p`": what `count_lines(buf, p)` would make of it -/
def lnAt (cfg : Config) (buf : Bytes) (st : Core) (p : Nat) : Option Nat :=
  st.lineNumber.map (· + count (slice buf st.lastLineCounted p) cfg.lineTerm.asByte)

/-- The events of a run of lines without context: every selected line is a `matched`, under
passthru every other line an `Other` context line; `off` / `ln` are the absolute offset and the
line number of the first line. -/
def lineEvs (cfg : Config) (m : MatcherI) : Nat → Option Nat → List Bytes → List Event
  | _, _, [] => []
  | off, ln, l :: ls =>
    (if lineSel cfg m l then [Event.matched ln off l]
     else if cfg.passthru then [Event.context .other ln off l] else [])
    ++ lineEvs cfg m (off + l.length) (ln.map (· + count l cfg.lineTerm.asByte)) ls

theorem lineEvs_append (cfg : Config) (m : MatcherI) (xs ys : List Bytes) : ∀ (off : Nat) (ln : Option Nat),
    lineEvs cfg m off ln (xs ++ ys) = lineEvs cfg m off ln xs ++
      lineEvs cfg m (off + xs.flatten.length) (ln.map (· + count xs.flatten cfg.lineTerm.asByte)) ys := by
  induction xs with
  | nil => intro off ln; cases ln <;> simp [lineEvs, count]
  | cons x xs ih =>
    intro off ln
    simp only [List.cons_append, lineEvs, ih, List.append_assoc, List.flatten_cons, List.length_append]
    have e1 : off + x.length + xs.flatten.length = off + (x.length + xs.flatten.length) := by omega
    have e2 : (ln.map (· + count x cfg.lineTerm.asByte)).map (· + count xs.flatten cfg.lineTerm.asByte)
        = ln.map (· + count (x ++ xs.flatten) cfg.lineTerm.asByte) := by
      cases ln <;> simp [count, Nat.add_assoc]
    rw [e1, e2]

theorem slice_shift (pre w : Bytes) (s e : Nat) : slice (pre ++ w) (pre.length + s) (pre.length + e) = slice w s e := by
  unfold slice
  rw [List.take_append, List.drop_append]
  simp

theorem count_slice_add (buf : Bytes) (t a b c : Nat) (hab : a ≤ b) (hbc : b ≤ c) :
    count (slice buf a b) t + count (slice buf b c) t = count (slice buf a c) t := by
  unfold count slice
  have h1 : buf.take b = (buf.take c).take b := by rw [List.take_take]; congr 1; omega
  have : (buf.take c).drop a = (buf.take b).drop a ++ (buf.take c).drop b := by
    rw [h1]
    generalize buf.take c = x
    have : x.drop a = (x.drop a).take (b - a) ++ (x.drop a).drop (b - a) := (List.take_append_drop _ _).symm
    rw [this, List.drop_drop, ← List.drop_take]
    congr 2
    omega
  rw [this, List.count_append]

/-- the configurations of `C02_partial`: no context lines, no binary detection, no early stop -/
structure NoCtx (cfg : Config) : Prop where
  hA : cfg.afterContext = 0
  hB : cfg.beforeContext = 0
  hbin : cfg.binary = .none
  hson : cfg.stopOnNonmatch = false

theorem brkCond_noCtx {cfg : Config} (h : NoCtx cfg) (st : Core) (o : Nat) : brkCond cfg st o = false := by
  simp [brkCond, anyContext, h.hA, h.hB]

theorem lnAt_countLines (cfg : Config) (buf : Bytes) (st : Core) (u p : Nat) (h1 : st.lastLineCounted ≤ u)
    (h2 : u ≤ p) : lnAt cfg buf (countLines cfg buf st u) p = lnAt cfg buf st p := by
  unfold countLines lnAt
  cases hl : st.lineNumber with
  | none => simp [hl]
  | some n =>
    simp only
    split
    · simp [hl]
    · simp only [Option.map_some, Option.some.injEq]
      rw [Nat.add_assoc, count_slice_add buf _ _ u p h1 h2]

theorem countLines_ln (cfg : Config) (buf : Bytes) (st : Core) (u : Nat) :
    (countLines cfg buf st u).lineNumber = lnAt cfg buf st u := by
  unfold countLines lnAt
  cases hl : st.lineNumber with
  | none => simp [hl]
  | some n =>
    simp only [hl]
    split
    · rename_i hge
      have : slice buf st.lastLineCounted u = [] := by
        unfold slice
        apply List.drop_eq_nil_of_le
        simp
        omega
      simp [hl, this, count]
    · simp

theorem countLines_llc_le (cfg : Config) (buf : Bytes) (st : Core) (u : Nat) (h : st.lastLineCounted ≤ u) :
    (countLines cfg buf st u).lastLineCounted ≤ u := by
  unfold countLines
  split
  · exact h
  · split
    · exact h
    · simp

theorem countLines_other (cfg : Config) (buf : Bytes) (st : Core) (u : Nat) :
    (countLines cfg buf st u).events = st.events ∧
    (countLines cfg buf st u).absoluteByteOffset = st.absoluteByteOffset ∧
    (countLines cfg buf st u).afterContextLeft = st.afterContextLeft ∧
    (countLines cfg buf st u).binaryByteOffset = st.binaryByteOffset ∧
    (countLines cfg buf st u).binary = st.binary ∧
    (countLines cfg buf st u).pos = st.pos := by
  unfold countLines
  split
  · simp
  · split <;> simp

/-- delivering one line (`sink_matched` / `sink_other_context` after guard and break) -/
theorem deliverGen_props (cfg : Config) (buf : Bytes) (mk : Option Nat → Nat → Bytes → Event) (acl : Nat)
    (s0 : Core) (o e : Nat) (hllc : s0.lastLineCounted ≤ o) :
    let st1 := deliverGen cfg buf mk acl s0 ⟨o, e⟩
    st1.events = s0.events ++ [mk (lnAt cfg buf s0 o) (s0.absoluteByteOffset + o) (slice buf o e)] ∧
    st1.absoluteByteOffset = s0.absoluteByteOffset ∧ st1.afterContextLeft = acl ∧
    st1.binaryByteOffset = s0.binaryByteOffset ∧ st1.binary = s0.binary ∧ st1.pos = s0.pos ∧
    st1.lastLineCounted ≤ o ∧ (∀ p, o ≤ p → lnAt cfg buf st1 p = lnAt cfg buf s0 p) := by
  intro st1
  have hc := countLines_other cfg buf s0 o
  have hcl := countLines_ln cfg buf s0 o
  have hcc := countLines_llc_le cfg buf s0 o hllc
  refine ⟨?_, ?_, rfl, ?_, ?_, ?_, ?_, ?_⟩
  · show (countLines cfg buf s0 o).events ++ _ = _
    rw [hc.1, hcl, hc.2.1]
  · exact hc.2.1
  · exact hc.2.2.2.1
  · exact hc.2.2.2.2.1
  · exact hc.2.2.2.2.2
  · exact hcc
  · intro p hp
    have := lnAt_countLines cfg buf s0 o p hllc hp
    exact this

/-- what the closed form says about the state after a run of lines -/
structure AfterLines (cfg : Config) (m : MatcherI) (buf : Bytes) (o : Nat) (ls : List Bytes) (st st' : Core) : Prop where
  ev : st'.events = st.events ++ lineEvs cfg m (st.absoluteByteOffset + o) (lnAt cfg buf st o) ls
  abs : st'.absoluteByteOffset = st.absoluteByteOffset
  acl : st'.afterContextLeft = 0
  bin : st'.binaryByteOffset = none
  bflag : st'.binary = st.binary
  llc : st'.lastLineCounted ≤ o + ls.flatten.length
  ln : lnAt cfg buf st' (o + ls.flatten.length)
        = (lnAt cfg buf st o).map (· + count ls.flatten cfg.lineTerm.asByte)
  pos : ls ≠ [] → st'.pos = o + ls.flatten.length
  same : ls = [] → st' = st

theorem lnAt_step (cfg : Config) (buf : Bytes) (st : Core) (o n : Nat) (l : Bytes) (hllc : st.lastLineCounted ≤ o)
    (hl : slice buf o (o + n) = l) :
    lnAt cfg buf st (o + n) = (lnAt cfg buf st o).map (· + count l cfg.lineTerm.asByte) := by
  unfold lnAt
  cases st.lineNumber with
  | none => rfl
  | some k =>
    simp only [Option.map_some, Option.some.injEq]
    rw [Nat.add_assoc, ← hl, count_slice_add buf _ _ o _ hllc (by omega)]

/-- composing the closed form of the first line with that of the rest -/
theorem AfterLines.cons {cfg : Config} {m : MatcherI} {buf : Bytes} {o : Nat} {l : Bytes} {ls : List Bytes}
    {st st1 st' : Core} (evs : List Event)
    (hevs : evs = (if lineSel cfg m l then [Event.matched (lnAt cfg buf st o) (st.absoluteByteOffset + o) l]
       else if cfg.passthru then [Event.context .other (lnAt cfg buf st o) (st.absoluteByteOffset + o) l] else []))
    (e1 : st1.events = st.events ++ evs)
    (habs : st1.absoluteByteOffset = st.absoluteByteOffset) (hbf : st1.binary = st.binary)
    (hpos : st1.pos = o + l.length)
    (hln1 : lnAt cfg buf st1 (o + l.length) = (lnAt cfg buf st o).map (· + count l cfg.lineTerm.asByte))
    (hA : AfterLines cfg m buf (o + l.length) ls st1 st') :
    AfterLines cfg m buf o (l :: ls) st st' := by
  refine ⟨?_, by rw [hA.abs, habs], hA.acl, hA.bin, by rw [hA.bflag, hbf], ?_, ?_, ?_, fun hc => by simp at hc⟩
  · rw [hA.ev, e1, habs, hln1, hevs]
    simp [lineEvs, Nat.add_assoc]
  · have := hA.llc; simp only [List.flatten_cons, List.length_append]; omega
  · have := hA.ln
    simp only [List.flatten_cons, List.length_append]
    rw [← Nat.add_assoc, this, hln1]
    cases lnAt cfg buf st o <;> simp [count, Nat.add_assoc]
  · intro _
    simp only [List.flatten_cons, List.length_append]
    cases hls : ls with
    | nil =>
      have := hA.same hls
      rw [this, hpos]
      simp
    | cons x xs =>
      have := hA.pos (by simp [hls])
      rw [hls] at this
      rw [this]
      simp [Nat.add_assoc]

/-- **Closed form of `match_by_line_slow`'s loop without context**: over the spans of the lines
`ls` lying at `pre.length` in `buf`, with the all-continue sink, the loop runs to its end and the
sink sees `lineEvs`. -/
theorem slowLoop_lines {cfg : Config} (m : MatcherI) (buf : Bytes) (h : NoCtx cfg) :
    ∀ (ls : List Bytes) (pre : Bytes) (st : Core),
      buf.take (pre.length + ls.flatten.length) = pre ++ ls.flatten →
      st.lastLineCounted ≤ pre.length → st.afterContextLeft = 0 → st.binaryByteOffset = none →
      ∃ st', slowLoop cfg m allCont buf (spansFrom pre.length ls) st = (st', .ok true) ∧
        AfterLines cfg m buf pre.length ls st st' := by
  intro ls
  induction ls with
  | nil =>
    intro pre st _ _ hacl hbo
    refine ⟨st, by simp [spansFrom, slowLoop], ⟨by simp [lineEvs], rfl, hacl, hbo, rfl, by simpa, ?_, by simp, fun _ => rfl⟩⟩
    simp only [List.flatten_nil, List.length_nil, Nat.add_zero]
    cases lnAt cfg buf st pre.length <;> simp [count]
  | cons l ls ih =>
    intro pre st htake hllc hacl hbo
    have hl : slice buf pre.length (pre.length + l.length) = l := by
      unfold slice
      have : buf.take (pre.length + l.length) = pre ++ l := by
        have := congrArg (List.take (pre.length + l.length)) htake
        rw [List.take_take] at this
        simp only [List.flatten_cons, List.length_append] at this
        rw [show min (pre.length + l.length) (pre.length + (l.length + ls.flatten.length)) = pre.length + l.length by omega] at this
        rw [this, ← List.append_assoc, List.take_append_of_le_length (by simp)]
        apply List.take_of_length_le
        simp
      rw [this]
      simp
    have htake' : buf.take ((pre ++ l).length + ls.flatten.length) = (pre ++ l) ++ ls.flatten := by
      simpa [Nat.add_assoc] using htake
    simp only [spansFrom, slowLoop, hl]
    have hsel : ((m.shortestMatch (withoutTerminator l cfg.lineTerm)).isSome != cfg.invertMatch) = lineSel cfg m l := rfl
    rw [hsel]
    cases hs : lineSel cfg m l with
    | true =>
      rw [if_pos rfl]
      generalize hs0 : ({ st with pos := pre.length + l.length, hasMatched := true } : Core) = s0
      have q1 : s0.lastLineCounted = st.lastLineCounted := by rw [← hs0]
      have q2 : s0.binaryByteOffset = none := by rw [← hs0]; exact hbo
      have q3 : ∀ p, lnAt cfg buf s0 p = lnAt cfg buf st p := by intro p; rw [← hs0]; rfl
      have q4 : s0.absoluteByteOffset = st.absoluteByteOffset := by rw [← hs0]
      have q5 : s0.events = st.events := by rw [← hs0]
      have q6 : s0.binary = st.binary := by rw [← hs0]
      have q7 : s0.pos = pre.length + l.length := by rw [← hs0]
      have hbc : beforeContextByLine cfg allCont buf s0 pre.length = (s0, .ok true) := by
        simp [beforeContextByLine, h.hB]
      rw [hbc]
      simp only
      rw [sinkMatched_allCont _ h.hbin q2]
      simp only [brkCond_noCtx h, Bool.false_eq_true, if_false, List.append_nil, h.hson, Bool.false_and]
      have hd := deliverGen_props cfg buf Event.matched cfg.afterContext s0 pre.length (pre.length + l.length)
        (by rw [q1]; exact hllc)
      have hse : ({ s0 with events := s0.events } : Core) = s0 := rfl
      rw [hse]
      generalize hst1 : deliverGen cfg buf Event.matched cfg.afterContext s0 ⟨pre.length, pre.length + l.length⟩ = st1 at hd
      obtain ⟨d1, d2, d3, d4, d5, d6, d7, d8⟩ := hd
      obtain ⟨st', hrun, hA⟩ := ih (pre ++ l) st1 htake'
        (by simp only [List.length_append]; omega) (by rw [d3, h.hA]) (by rw [d4, q2])
      simp only [List.length_append] at hrun hA
      refine ⟨st', hrun, AfterLines.cons
        [Event.matched (lnAt cfg buf st pre.length) (st.absoluteByteOffset + pre.length) l] (by simp [hs]) ?_
        (by rw [d2, q4]) (by rw [d5, q6]) (by rw [d6, q7]) ?_ hA⟩
      · rw [d1, q5, q3, q4, hl]
      · rw [d8 _ (by omega), q3]
        exact lnAt_step cfg buf st pre.length l.length l hllc hl
    | false =>
      rw [if_neg (by decide)]
      generalize hs0 : ({ st with pos := pre.length + l.length } : Core) = s0
      have q0 : s0.afterContextLeft = 0 := by rw [← hs0]; exact hacl
      have q1 : s0.lastLineCounted = st.lastLineCounted := by rw [← hs0]
      have q2 : s0.binaryByteOffset = none := by rw [← hs0]; exact hbo
      have q3 : ∀ p, lnAt cfg buf s0 p = lnAt cfg buf st p := by intro p; rw [← hs0]; rfl
      have q4 : s0.absoluteByteOffset = st.absoluteByteOffset := by rw [← hs0]
      have q5 : s0.events = st.events := by rw [← hs0]
      have q6 : s0.binary = st.binary := by rw [← hs0]
      have q7 : s0.pos = pre.length + l.length := by rw [← hs0]
      have hge : ¬ (st.afterContextLeft ≥ 1) := by rw [hacl]; omega
      simp only [hge, if_false]
      cases hpt : cfg.passthru with
      | true =>
        simp only [↓reduceIte]
        rw [sinkOtherContext_allCont _ h.hbin q2]
        simp only [h.hson, Bool.false_and, Bool.false_eq_true, if_false]
        have hd := deliverGen_props cfg buf (Event.context .other) s0.afterContextLeft s0 pre.length (pre.length + l.length)
          (by rw [q1]; exact hllc)
        generalize hst1 : deliverGen cfg buf (Event.context .other) s0.afterContextLeft s0 ⟨pre.length, pre.length + l.length⟩ = st1 at hd
        obtain ⟨d1, d2, d3, d4, d5, d6, d7, d8⟩ := hd
        obtain ⟨st', hrun, hA⟩ := ih (pre ++ l) st1 htake'
          (by simp only [List.length_append]; omega) (by rw [d3, q0]) (by rw [d4, q2])
        simp only [List.length_append] at hrun hA
        refine ⟨st', hrun, AfterLines.cons
          [Event.context .other (lnAt cfg buf st pre.length) (st.absoluteByteOffset + pre.length) l] (by simp [hs, hpt]) ?_
          (by rw [d2, q4]) (by rw [d5, q6]) (by rw [d6, q7]) ?_ hA⟩
        · rw [d1, q5, q3, q4, hl]
        · rw [d8 _ (by omega), q3]
          exact lnAt_step cfg buf st pre.length l.length l hllc hl
      | false =>
        simp only [Bool.false_eq_true, ↓reduceIte, h.hson, Bool.false_and]
        obtain ⟨st', hrun, hA⟩ := ih (pre ++ l) s0 htake'
          (by simp only [List.length_append]; rw [q1]; omega) q0 q2
        simp only [List.length_append] at hrun hA
        refine ⟨st', hrun, AfterLines.cons [] (by simp [hs, hpt]) (by rw [q5]; simp) q4 q6 q7 ?_ hA⟩
        rw [q3]
        exact lnAt_step cfg buf st pre.length l.length l hllc hl

end RgVerif.Searcher
