import RgVerif.Model.ReplaceMulti
import RgVerif.Lemmas.ReplaceFold
import RgVerif.Lemmas.PrinterMulti
/-
Helper lemmas for C19 under -U: the state `replace_with_captures_in_context` ends in (last match end, recorded
expansion offsets) in terms of the matches the printer keeps, and the printed form of the replaced block.
-/
namespace RgVerif.Lemmas.ReplaceMulti
open RgVerif RgVerif.Matcher RgVerif.Interp RgVerif.ReplaceSpec RgVerif.Replace RgVerif.Printer RgVerif.PrinterSpec
open RgVerif.ReplaceMulti
open RgVerif.Lemmas.ReplaceIter RgVerif.Lemmas.ReplaceFold RgVerif.Lemmas.PrinterMulti

/-- the matches `replace_all` keeps for the range `[rs, re)` of the (cut) haystack `hay` -/
def kept (capsAt : Nat → Option Caps) (hay : Bytes) (rs re : Nat) (atEnd : Bool) : List Caps :=
  (allMatches capsAt hay.length rs).takeWhile (keep re atEnd)

/-- end of the last kept match, or the start of the range when nothing is kept -/
def lastEnd (rs : Nat) (ks : List Caps) : Nat :=
  match ks.getLast? with
  | some c => (sp c).e
  | none => rs

theorem fold_state (names : List (Bytes × Nat)) (bytes : Bytes) (re : Nat) (atEnd : Bool) (tmpl : Bytes) :
    ∀ (ms : List Caps) (st : RState),
      (foldUntil (replaceStep names bytes re atEnd tmpl) st ms).lastMatch = lastEnd st.lastMatch (ms.takeWhile (keep re atEnd)) ∧
      (foldUntil (replaceStep names bytes re atEnd tmpl) st ms).spans.length =
        st.spans.length + (ms.takeWhile (keep re atEnd)).length ∧
      (st.spans ≠ [] → (foldUntil (replaceStep names bytes re atEnd tmpl) st ms).spans.head? = st.spans.head?) := by
  intro ms
  induction ms with
  | nil => intro st; simp [foldUntil, lastEnd]
  | cons c ms ih =>
    intro st
    by_cases hk : keep re atEnd c = true
    · have hcond : beyondRange re atEnd (sp c).s = false := by
        unfold keep at hk
        unfold beyondRange
        cases atEnd <;> simp at hk ⊢ <;> omega
      have hstep : ∃ st' x, replaceStep names bytes re atEnd tmpl st c = (st', true) ∧
          st'.lastMatch = (sp c).e ∧ st'.spans = st.spans ++ [x] := by
        unfold replaceStep; simp only [sp] at hcond ⊢; simp only [hcond, Bool.false_eq_true, ↓reduceIte]
        exact ⟨_, _, rfl, rfl, rfl⟩
      obtain ⟨st', x, hst', hlm, hsp⟩ := hstep
      simp only [foldUntil, hst', ↓reduceIte, List.takeWhile_cons, hk]
      obtain ⟨h1, h2, h3⟩ := ih st'
      rw [hlm] at h1
      rw [hsp] at h2 h3
      refine ⟨?_, ?_, ?_⟩
      · rw [h1]
        simp only [lastEnd]
        cases hl : (ms.takeWhile (keep re atEnd)).getLast? with
        | none =>
          have : ms.takeWhile (keep re atEnd) = [] := by simpa using hl
          simp [this]
        | some d =>
          have : (c :: ms.takeWhile (keep re atEnd)).getLast? = some d := by
            rw [List.getLast?_cons]
            simp [hl]
          simp [this]
      · rw [h2]; simp; omega
      · intro hne
        rw [h3 (by simp)]
        cases hs : st.spans with
        | nil => exact absurd hs hne
        | cons a b => simp
    · have hcond : beyondRange re atEnd (sp c).s = true := by
        unfold keep at hk
        unfold beyondRange
        cases atEnd <;> simp at hk ⊢ <;> omega
      have hstep : replaceStep names bytes re atEnd tmpl st c = (st, false) := by
        unfold replaceStep; simp only [sp] at hcond; simp [hcond]
      simp [foldUntil, hstep, List.takeWhile_cons, hk, lastEnd]

/-- The state after `replace_with_captures_in_context`: where the last kept match ended and how many
expansions were recorded. -/
theorem replace_state (capsAt : Nat → Option Caps) (names : List (Bytes × Nat))
    (bytes : Bytes) (rs re : Nat) (atEnd : Bool) (tmpl : Bytes) (hs : Sane capsAt bytes.length) :
    (replaceWithCapturesInContext capsAt names bytes rs re atEnd tmpl).lastMatch = lastEnd rs (kept capsAt bytes rs re atEnd) ∧
    (replaceWithCapturesInContext capsAt names bytes rs re atEnd tmpl).spans.length = (kept capsAt bytes rs re atEnd).length := by
  rw [replace_unfold]
  simp only
  rw [iterGo_eq_fold]
  have hc := collect_eq_allMatches hs rs
  rw [hc]
  have := fold_state names bytes re atEnd tmpl (allMatches capsAt bytes.length rs) ⟨rs, [], []⟩
  simpa [kept] using And.intro this.1 this.2.1

/-- The guard of C19 under -U: no kept match ends beyond the block (which can only happen when the look-ahead
cut lets the matcher answer differently from what the searcher saw). -/
def NoMatchBeyond (capsAt : Nat → Option Caps) (hay : Bytes) (rs re : Nat) (atEnd : Bool) : Prop :=
  ∀ c ∈ kept capsAt hay rs re atEnd, (sp c).e ≤ min hay.length re

theorem lastEnd_le (rs : Nat) (ks : List Caps) (bound : Nat) (hrs : rs ≤ bound) (h : ∀ c ∈ ks, (sp c).e ≤ bound) :
    lastEnd rs ks ≤ bound := by
  unfold lastEnd
  cases hl : ks.getLast? with
  | none => exact hrs
  | some c => exact h c (List.mem_of_getLast? hl)

/-- Under the guard `replace_all` does not panic, and its buffer is the replace-all over the kept matches. -/
theorem replaceAllMulti_eq (sc : SCfg) (capsAtOf : Bytes → Nat → Option Caps) (names : List (Bytes × Nat))
    (haystack : Bytes) (rs re : Nat) (tmpl : Bytes)
    (hs : Sane (capsAtOf (cutHaystack sc haystack re)) (cutHaystack sc haystack re).length)
    (hrs : rs ≤ min (cutHaystack sc haystack re).length re)
    (hg : NoMatchBeyond (capsAtOf (cutHaystack sc haystack re)) (cutHaystack sc haystack re) rs re
      (isAtUnterminatedEnd sc.lt (cutHaystack sc haystack re) rs re)) :
    ∃ st, replaceAllMulti sc capsAtOf names haystack rs re tmpl = some st ∧
      st.dst = replaceAllSpec (cutHaystack sc haystack re)
        (fun c => interpolate (envOf (cutHaystack sc haystack re) names c) tmpl)
        (kept (capsAtOf (cutHaystack sc haystack re)) (cutHaystack sc haystack re) rs re
          (isAtUnterminatedEnd sc.lt (cutHaystack sc haystack re) rs re))
        rs (min (cutHaystack sc haystack re).length re) ∧
      st.spans.length = (kept (capsAtOf (cutHaystack sc haystack re)) (cutHaystack sc haystack re) rs re
          (isAtUnterminatedEnd sc.lt (cutHaystack sc haystack re) rs re)).length := by
  unfold replaceAllMulti
  simp only
  have hst := replace_state (capsAtOf (cutHaystack sc haystack re)) names (cutHaystack sc haystack re) rs re
    (isAtUnterminatedEnd sc.lt (cutHaystack sc haystack re) rs re) tmpl hs
  have hle := lastEnd_le rs _ _ hrs hg
  rw [← hst.1] at hle
  have hnot : ¬ (replaceWithCapturesInContext (capsAtOf (cutHaystack sc haystack re)) names (cutHaystack sc haystack re) rs re
      (isAtUnterminatedEnd sc.lt (cutHaystack sc haystack re) rs re) tmpl).lastMatch >
      min (cutHaystack sc haystack re).length re := by omega
  simp only [hnot, ↓reduceIte]
  refine ⟨_, rfl, ?_, hst.2⟩
  exact replace_eq_spec _ names _ rs re _ tmpl hs

/-- the replaced text of the block `[rs, re)`: replace-all (with ripgrep's interpolation) over the kept matches
of the cut haystack, unmatched text copied, up to the end of the block -/
def replacedText (sc : SCfg) (capsAtOf : Bytes → Nat → Option Caps) (names : List (Bytes × Nat))
    (buf : Bytes) (rs re : Nat) (tmpl : Bytes) : Bytes :=
  replaceAllSpec (cutHaystack sc buf re)
    (fun c => interpolate (envOf (cutHaystack sc buf re) names c) tmpl)
    (kept (capsAtOf (cutHaystack sc buf re)) (cutHaystack sc buf re) rs re
      (isAtUnterminatedEnd sc.lt (cutHaystack sc buf re) rs re))
    rs (min (cutHaystack sc buf re).length re)

/-- **Printed form of a replaced block**: when at least one match is kept, the block is printed from the
replaced text, line by line — every line a record of its own (line number `ln + i`, the column of the first
expansion on every line), a missing terminator completed. -/
theorem printReplacedBlock_eq (sc : SCfg) (c : StdCfg) (capsAtOf : Bytes → Nat → Option Caps)
    (names : List (Bytes × Nat)) (buf : Bytes) (rs re absOff : Nat) (ln : Option Nat) (tmpl : Bytes)
    (hml : sc.multiLine = true) (ho : c.onlyMatching = false) (hp : c.perMatch = false)
    (hs : Sane (capsAtOf (cutHaystack sc buf re)) (cutHaystack sc buf re).length)
    (hrs : rs ≤ min (cutHaystack sc buf re).length re)
    (hg : NoMatchBeyond (capsAtOf (cutHaystack sc buf re)) (cutHaystack sc buf re) rs re
      (isAtUnterminatedEnd sc.lt (cutHaystack sc buf re) rs re))
    (hk : kept (capsAtOf (cutHaystack sc buf re)) (cutHaystack sc buf re) rs re
      (isAtUnterminatedEnd sc.lt (cutHaystack sc buf re) rs re) ≠ [])
    (hok : (splitLines sc.lt.asByte (replacedText sc capsAtOf names buf rs re tmpl)).all (crlfLineOk sc.lt) = true) :
    ∃ k, printReplacedBlock sc c capsAtOf names buf rs re absOff ln tmpl =
      some ((blockRecords sc.lt c absOff ln (optIf c.column k) 0 0
        (splitLines sc.lt.asByte (replacedText sc capsAtOf names buf rs re tmpl))).flatMap (printRecord c)) := by
  obtain ⟨st, hst, hdst, hlen⟩ := replaceAllMulti_eq sc capsAtOf names buf rs re tmpl hs hrs hg
  have hspans : st.spans ≠ [] := by
    intro h
    rw [h] at hlen
    have : (kept (capsAtOf (cutHaystack sc buf re)) (cutHaystack sc buf re) rs re
      (isAtUnterminatedEnd sc.lt (cutHaystack sc buf re) rs re)).length = 0 := by simpa using hlen.symm
    exact hk (List.length_eq_zero_iff.mp this)
  have hne : st.spans.isEmpty = false := by
    cases h : st.spans with
    | nil => exact absurd h hspans
    | cons _ _ => rfl
  refine ⟨(st.spans.headD ⟨0, 0⟩).s + 1, ?_⟩
  unfold printReplacedBlock
  simp only [hst, sunkOf, hne, Bool.false_eq_true, ↓reduceIte]
  unfold sinkBody
  simp only [hne, Bool.false_eq_true, ↓reduceIte, hml, Option.isSome_none, Bool.not_false, Bool.and_self]
  have hdst' : st.dst = replacedText sc capsAtOf names buf rs re tmpl := hdst
  rw [sinkSlowMultiLine_eq sc c _ hspans ho hp (by simpa [hdst'] using hok)]
  simp [hdst']

/-- with no path, line number, column or byte offset a record is just its text -/
theorem blockRecords_plain (lt : LineTerm) (c : StdCfg) (absOff : Nat) (k : Nat)
    (hpath : c.path = none) (hcol : c.column = false) (hboff : c.byteOffset = false) :
    ∀ (lines : List Bytes) (i off : Nat),
      (blockRecords lt c absOff none (optIf c.column k) i off lines).flatMap (printRecord c) =
        lines.flatMap (completed lt) := by
  intro lines
  induction lines with
  | nil => intro i off; simp [blockRecords]
  | cons line rest ih =>
    intro i off
    simp only [blockRecords, List.flatMap_cons]
    rw [ih]
    simp [printRecord, pathField, numField, recPath, hpath, optIf, hcol, hboff]

end RgVerif.Lemmas.ReplaceMulti
