import RgVerif.Model.ReplaceMulti
import RgVerif.Lemmas.ReplaceFold
import RgVerif.Lemmas.PrinterMulti
/-
Helper lemmas for C19 under -U: the state `replace_with_captures_in_context` ends in (last match end, recorded
expansion offsets) in terms of the matches the printer keeps, and the printed form of the replaced block.
-/
namespace RgVerif.Lemmas.ReplaceMulti
open RgVerif RgVerif.Matcher RgVerif.Interp RgVerif.ReplaceSpec RgVerif.Replace RgVerif.Printer RgVerif.PrinterSpec
open RgVerif.ReplaceMulti
open RgVerif.Lemmas.ReplaceIter RgVerif.Lemmas.ReplaceFold RgVerif.Lemmas.PrinterMulti

/-- a match `replace_all` replaces: it starts inside the range (or exactly at its unterminated end) and — since
2e6bd1f — ends inside it, so that its expansion cannot copy bytes from beyond the reported lines -/
def keepIn (re : Nat) (atEnd : Bool) (c : Caps) : Bool := keep re atEnd c && decide ((sp c).e ≤ re)

/-- the matches `replace_all` replaces for the range `[rs, re)` of the (cut) haystack `hay`: the iterator's matches
up to the first one that starts beyond the range or reaches beyond it -/
def kept (capsAt : Nat → Option Caps) (hay : Bytes) (rs re : Nat) (atEnd : Bool) : List Caps :=
  (allMatches capsAt hay.length rs).takeWhile (keepIn re atEnd)

theorem keepIn_iff (re : Nat) (atEnd : Bool) (c : Caps) :
    keepIn re atEnd c = true ↔ (((sp c).s < re ∨ (atEnd = true ∧ (sp c).s = re)) ∧ (sp c).e ≤ re) := by
  unfold keepIn keep
  simp [Bool.and_eq_true, Bool.or_eq_true]

theorem beyondRange_eq_false_iff (re : Nat) (atEnd : Bool) (s : Nat) :
    beyondRange re atEnd s = false ↔ (s < re ∨ (atEnd = true ∧ s = re)) := by
  unfold beyondRange
  cases atEnd <;> simp <;> omega

theorem step_of_keepIn (names : List (Bytes × Nat)) (bytes : Bytes) (re : Nat) (atEnd : Bool) (tmpl : Bytes)
    (st : RState) (c : Caps) (hk : keepIn re atEnd c = true) :
    replaceStep names bytes re atEnd tmpl st c =
      (⟨(sp c).e, st.dst ++ slice bytes st.lastMatch (sp c).s ++ interpolate (envOf bytes names c) tmpl,
        st.spans ++ [⟨(st.dst ++ slice bytes st.lastMatch (sp c).s).length,
          (st.dst ++ slice bytes st.lastMatch (sp c).s).length + (interpolate (envOf bytes names c) tmpl).length⟩]⟩,
       true) := by
  obtain ⟨h1, h2⟩ := (keepIn_iff re atEnd c).mp hk
  have hb : beyondRange re atEnd (sp c).s = false := (beyondRange_eq_false_iff re atEnd _).mpr h1
  have he : ¬ ((sp c).e > re) := by omega
  unfold replaceStep
  simp only [sp] at hb he ⊢
  simp [hb, he]

theorem step_of_not_keepIn (names : List (Bytes × Nat)) (bytes : Bytes) (re : Nat) (atEnd : Bool) (tmpl : Bytes)
    (st : RState) (c : Caps) (hk : keepIn re atEnd c = false) :
    replaceStep names bytes re atEnd tmpl st c = (st, false) := by
  have hn : ¬ (((sp c).s < re ∨ (atEnd = true ∧ (sp c).s = re)) ∧ (sp c).e ≤ re) := by
    intro h
    have := (keepIn_iff re atEnd c).mpr h
    rw [hk] at this
    exact absurd this (by simp)
  unfold replaceStep
  by_cases hb : beyondRange re atEnd (sp c).s = true
  · simp only [sp] at hb ⊢
    simp [hb]
  · have hb' : beyondRange re atEnd (sp c).s = false := by simpa using hb
    have h1 := (beyondRange_eq_false_iff re atEnd _).mp hb'
    have he : (sp c).e > re := by
      by_cases h : (sp c).e ≤ re
      · exact absurd ⟨h1, h⟩ hn
      · omega
    simp only [sp] at hb' he ⊢
    simp [hb', he]

/-- **The replace loop is replace-all over the replaced matches**; the loop stops at the first match that starts
beyond the range or reaches beyond it, and everything from there to the end of the range is copied verbatim. -/
theorem fold_spec_multi (names : List (Bytes × Nat)) (bytes : Bytes) (re to : Nat) (atEnd : Bool) (tmpl : Bytes) :
    ∀ (ms : List Caps) (st : RState),
      (foldUntil (replaceStep names bytes re atEnd tmpl) st ms).dst ++
        slice bytes (foldUntil (replaceStep names bytes re atEnd tmpl) st ms).lastMatch to =
      st.dst ++ replaceAllSpec bytes (fun c => interpolate (envOf bytes names c) tmpl)
        (ms.takeWhile (keepIn re atEnd)) st.lastMatch to := by
  intro ms
  induction ms with
  | nil => intro st; simp [foldUntil, replaceAllSpec, slice]
  | cons c ms ih =>
    intro st
    by_cases hk : keepIn re atEnd c = true
    · simp only [foldUntil, step_of_keepIn names bytes re atEnd tmpl st c hk, ↓reduceIte, List.takeWhile_cons, hk]
      rw [ih]
      simp [replaceAllSpec, slice, sp, List.append_assoc]
    · have hk' : keepIn re atEnd c = false := by simpa using hk
      simp [foldUntil, step_of_not_keepIn names bytes re atEnd tmpl st c hk', hk', replaceAllSpec, slice]

theorem fold_spans (names : List (Bytes × Nat)) (bytes : Bytes) (re : Nat) (atEnd : Bool) (tmpl : Bytes) :
    ∀ (ms : List Caps) (st : RState),
      (foldUntil (replaceStep names bytes re atEnd tmpl) st ms).spans.length =
        st.spans.length + (ms.takeWhile (keepIn re atEnd)).length := by
  intro ms
  induction ms with
  | nil => intro st; simp [foldUntil]
  | cons c ms ih =>
    intro st
    by_cases hk : keepIn re atEnd c = true
    · simp only [foldUntil, step_of_keepIn names bytes re atEnd tmpl st c hk, ↓reduceIte, List.takeWhile_cons, hk]
      rw [ih]
      simp; omega
    · have hk' : keepIn re atEnd c = false := by simpa using hk
      simp [foldUntil, step_of_not_keepIn names bytes re atEnd tmpl st c hk', hk']

/-- `replace_all` in multi-line mode: its buffer is the replace-all over the replaced matches, one expansion offset
per replaced match — for every sane matcher, no guard. -/
theorem replaceAllMulti_eq (sc : SCfg) (capsAtOf : Bytes → Nat → Option Caps) (names : List (Bytes × Nat))
    (haystack : Bytes) (rs re : Nat) (tmpl : Bytes)
    (hs : Sane (capsAtOf (cutHaystack sc haystack re)) (cutHaystack sc haystack re).length) :
    (replaceAllMulti sc capsAtOf names haystack rs re tmpl).dst =
      replaceAllSpec (cutHaystack sc haystack re)
        (fun c => interpolate (envOf (cutHaystack sc haystack re) names c) tmpl)
        (kept (capsAtOf (cutHaystack sc haystack re)) (cutHaystack sc haystack re) rs re
          (isAtUnterminatedEnd sc.lt (cutHaystack sc haystack re) rs re))
        rs (min (cutHaystack sc haystack re).length re) ∧
    (replaceAllMulti sc capsAtOf names haystack rs re tmpl).spans.length =
      (kept (capsAtOf (cutHaystack sc haystack re)) (cutHaystack sc haystack re) rs re
          (isAtUnterminatedEnd sc.lt (cutHaystack sc haystack re) rs re)).length := by
  unfold replaceAllMulti
  simp only
  rw [replace_unfold]
  simp only
  rw [iterGo_eq_fold]
  have hc := collect_eq_allMatches hs rs
  rw [hc]
  have h1 := fold_spec_multi names (cutHaystack sc haystack re) re (min (cutHaystack sc haystack re).length re)
    (isAtUnterminatedEnd sc.lt (cutHaystack sc haystack re) rs re) tmpl
    (allMatches (capsAtOf (cutHaystack sc haystack re)) (cutHaystack sc haystack re).length rs) ⟨rs, [], []⟩
  have h2 := fold_spans names (cutHaystack sc haystack re) re
    (isAtUnterminatedEnd sc.lt (cutHaystack sc haystack re) rs re) tmpl
    (allMatches (capsAtOf (cutHaystack sc haystack re)) (cutHaystack sc haystack re).length rs) ⟨rs, [], []⟩
  exact ⟨by simpa [kept] using h1, by simpa [kept] using h2⟩

theorem mem_takeWhile_true {α : Type} (p : α → Bool) : ∀ (l : List α) (x : α), x ∈ l.takeWhile p → p x = true := by
  intro l
  induction l with
  | nil => intro x h; simp at h
  | cons a l ih =>
    intro x h
    rw [List.takeWhile_cons] at h
    by_cases ha : p a = true
    · simp only [ha, ↓reduceIte, List.mem_cons] at h
      rcases h with rfl | h
      · exact ha
      · exact ih x h
    · simp [ha] at h

/-- every replaced match lies inside the block: its expansion is built from captures of a match within `[rs, re]` -/
theorem kept_inside (capsAt : Nat → Option Caps) (hay : Bytes) (rs re : Nat) (atEnd : Bool) :
    ∀ c ∈ kept capsAt hay rs re atEnd, (sp c).e ≤ re := by
  intro c hc
  have := mem_takeWhile_true _ _ c hc
  unfold keepIn at this
  simp only [Bool.and_eq_true, decide_eq_true_eq] at this
  exact this.2

/-- the replaced text of the block `[rs, re)`: replace-all (with ripgrep's interpolation) over the kept matches
of the cut haystack, unmatched text copied, up to the end of the block -/
def replacedText (sc : SCfg) (capsAtOf : Bytes → Nat → Option Caps) (names : List (Bytes × Nat))
    (buf : Bytes) (rs re : Nat) (tmpl : Bytes) : Bytes :=
  replaceAllSpec (cutHaystack sc buf re)
    (fun c => interpolate (envOf (cutHaystack sc buf re) names c) tmpl)
    (kept (capsAtOf (cutHaystack sc buf re)) (cutHaystack sc buf re) rs re
      (isAtUnterminatedEnd sc.lt (cutHaystack sc buf re) rs re))
    rs (min (cutHaystack sc buf re).length re)

/-- **Printed form of a replaced block**: when at least one match is kept, the block is printed from the
replaced text, line by line — every line a record of its own (line number `ln + i`, the column of the first
expansion on every line), with its own terminator (b0493c8), a missing one completed. -/
theorem printReplacedBlock_eq (sc : SCfg) (c : StdCfg) (capsAtOf : Bytes → Nat → Option Caps)
    (names : List (Bytes × Nat)) (buf : Bytes) (rs re absOff : Nat) (ln : Option Nat) (tmpl : Bytes)
    (hml : sc.multiLine = true) (ho : c.onlyMatching = false) (hp : c.perMatch = false)
    (hs : Sane (capsAtOf (cutHaystack sc buf re)) (cutHaystack sc buf re).length)
    (hk : kept (capsAtOf (cutHaystack sc buf re)) (cutHaystack sc buf re) rs re
      (isAtUnterminatedEnd sc.lt (cutHaystack sc buf re) rs re) ≠ []) :
    ∃ k, printReplacedBlock sc c capsAtOf names buf rs re absOff ln tmpl =
      (blockRecords sc.lt c absOff ln (optIf c.column k) 0 0
        (splitLines sc.lt.asByte (replacedText sc capsAtOf names buf rs re tmpl))).flatMap (printRecord c) := by
  obtain ⟨hdst, hlen⟩ := replaceAllMulti_eq sc capsAtOf names buf rs re tmpl hs
  generalize hst : replaceAllMulti sc capsAtOf names buf rs re tmpl = st at hdst hlen
  have hspans : st.spans ≠ [] := by
    intro h
    rw [h] at hlen
    have : (kept (capsAtOf (cutHaystack sc buf re)) (cutHaystack sc buf re) rs re
      (isAtUnterminatedEnd sc.lt (cutHaystack sc buf re) rs re)).length = 0 := by simpa using hlen.symm
    exact hk (List.length_eq_zero_iff.mp this)
  have hne : st.spans.isEmpty = false := by
    cases h : st.spans with
    | nil => exact absurd h hspans
    | cons _ _ => rfl
  refine ⟨(st.spans.headD ⟨0, 0⟩).s + 1, ?_⟩
  unfold printReplacedBlock
  simp only [hst, sunkOf, hne, Bool.false_eq_true, ↓reduceIte]
  unfold sinkBody
  simp only [hne, Bool.false_eq_true, ↓reduceIte, hml, Option.isSome_none, Bool.not_false, Bool.and_self]
  have hdst' : st.dst = replacedText sc capsAtOf names buf rs re tmpl := hdst
  rw [sinkSlowMultiLine_eq sc c _ hspans ho hp]
  simp [hdst']

/-- with no path, line number, column or byte offset a record is just its text -/
theorem blockRecords_plain (lt : LineTerm) (c : StdCfg) (absOff : Nat) (k : Nat)
    (hpath : c.path = none) (hcol : c.column = false) (hboff : c.byteOffset = false) :
    ∀ (lines : List Bytes) (i off : Nat),
      (blockRecords lt c absOff none (optIf c.column k) i off lines).flatMap (printRecord c) =
        lines.flatMap (completed lt) := by
  intro lines
  induction lines with
  | nil => intro i off; simp [blockRecords]
  | cons line rest ih =>
    intro i off
    simp only [blockRecords, List.flatMap_cons]
    rw [ih]
    simp [printRecord, pathField, numField, recPath, hpath, optIf, hcol, hboff]

end RgVerif.Lemmas.ReplaceMulti
