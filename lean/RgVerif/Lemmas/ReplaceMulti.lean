import RgVerif.Model.ReplaceMulti
import RgVerif.Lemmas.ReplaceFold
import RgVerif.Lemmas.PrinterMulti
/-
Helper lemmas for C19 under -U: the state `replace_with_captures_in_context` ends in (last match end, recorded
expansion offsets) in terms of the matches the printer keeps, and the printed form of the replaced block.
-/
namespace RgVerif.Lemmas.ReplaceMulti
open RgVerif RgVerif.Matcher RgVerif.Interp RgVerif.ReplaceSpec RgVerif.Replace RgVerif.Printer RgVerif.PrinterSpec
open RgVerif.ReplaceMulti
open RgVerif.Lemmas.ReplaceIter RgVerif.Lemmas.ReplaceFold RgVerif.Lemmas.PrinterMulti

/-- the matches `replace_all` keeps for the range `[rs, re)` of the (cut) haystack `hay` -/
def kept (capsAt : Nat → Option Caps) (hay : Bytes) (rs re : Nat) (atEnd : Bool) : List Caps :=
  (allMatches capsAt hay.length rs).takeWhile (keep re atEnd)

/-! ### the regex iterator yields sorted, disjoint matches -/

theorem specIter_lower {capsAt : Nat → Option Caps} {len : Nat} (hs : Sane capsAt len) :
    ∀ fuel pos last c, c ∈ specIter capsAt len fuel pos last → pos ≤ (sp c).s := by
  intro fuel
  induction fuel with
  | zero => intro pos last c h; simp [specIter] at h
  | succ fuel ih =>
    intro pos last c h
    rw [specIter_succ] at h
    by_cases hgt : pos > len
    · simp [hgt] at h
    · simp only [hgt, ↓reduceIte] at h
      cases hc : capsAt pos with
      | none => simp [hc] at h
      | some c0 =>
        simp only [hc] at h
        split at h
        · unfold retry at h
          by_cases hgt' : pos + 1 > len
          · simp [hgt'] at h
          · simp only [hgt', ↓reduceIte] at h
            cases hc' : capsAt (pos + 1) with
            | none => simp [hc'] at h
            | some c1 =>
              simp only [hc', List.mem_cons] at h
              have h1 := hs.ge _ _ hc'
              have h2 := hs.le _ _ hc'
              rcases h with rfl | h
              · omega
              · have := ih _ _ _ h; omega
        · simp only [List.mem_cons] at h
          have h1 := hs.ge _ _ hc
          have h2 := hs.le _ _ hc
          rcases h with rfl | h
          · exact h1
          · have := ih _ _ _ h; omega

theorem specIter_pairwise {capsAt : Nat → Option Caps} {len : Nat} (hs : Sane capsAt len) :
    ∀ fuel pos last, (specIter capsAt len fuel pos last).Pairwise (fun a b => (sp a).e ≤ (sp b).s) := by
  intro fuel
  induction fuel with
  | zero => intro pos last; simp [specIter]
  | succ fuel ih =>
    intro pos last
    rw [specIter_succ]
    by_cases hgt : pos > len
    · simp [hgt]
    · simp only [hgt, ↓reduceIte]
      cases hc : capsAt pos with
      | none => simp
      | some c0 =>
        simp only
        split
        · unfold retry
          by_cases hgt' : pos + 1 > len
          · simp [hgt']
          · simp only [hgt', ↓reduceIte]
            cases hc' : capsAt (pos + 1) with
            | none => simp
            | some c1 =>
              simp only [List.pairwise_cons]
              exact ⟨fun x hx => specIter_lower hs _ _ _ x hx, ih _ _⟩
        · simp only [List.pairwise_cons]
          exact ⟨fun x hx => specIter_lower hs _ _ _ x hx, ih _ _⟩

/-- sorted, disjoint, well-formed: what the fold below needs of the iterator's matches -/
def SortedCaps (ms : List Caps) : Prop :=
  ms.Pairwise (fun a b => (sp a).e ≤ (sp b).s) ∧ ∀ c ∈ ms, (sp c).s ≤ (sp c).e

theorem allMatches_sorted {capsAt : Nat → Option Caps} {len : Nat} (hs : Sane capsAt len) (start : Nat) :
    SortedCaps (allMatches capsAt len start) := by
  refine ⟨specIter_pairwise hs _ _ _, ?_⟩
  intro c hc
  obtain ⟨p, hp⟩ := specIter_mem hc
  exact hs.le p c hp

/-! ### the replace loop over sorted matches, with `last_match` clamped to the end of the range -/

theorem fold_stop (names : List (Bytes × Nat)) (bytes : Bytes) (re : Nat) (atEnd : Bool) (tmpl : Bytes)
    (ms : List Caps) (st : RState) (h : ∀ c ∈ ms, keep re atEnd c = false) :
    foldUntil (replaceStep names bytes re atEnd tmpl) st ms = st ∧ ms.takeWhile (keep re atEnd) = [] := by
  cases ms with
  | nil => simp [foldUntil]
  | cons c rest =>
    have hk := h c (by simp)
    have hcond : beyondRange re atEnd (sp c).s = true := by
      unfold keep at hk
      unfold beyondRange
      cases atEnd <;> simp at hk ⊢ <;> omega
    have hstep : replaceStep names bytes re atEnd tmpl st c = (st, false) := by
      unfold replaceStep; simp only [sp] at hcond; simp [hcond]
    simp [foldUntil, hstep, List.takeWhile_cons, hk]

/-- **The replace loop is replace-all over the kept matches**, also when a kept match reaches beyond the range
(then it is the last one kept: every later match starts behind it). -/
theorem fold_spec_sorted (names : List (Bytes × Nat)) (bytes : Bytes) (re to : Nat) (atEnd : Bool) (tmpl : Bytes)
    (hto : to ≤ re) :
    ∀ (ms : List Caps), SortedCaps ms → ∀ (st : RState),
      (foldUntil (replaceStep names bytes re atEnd tmpl) st ms).dst ++
        slice bytes (foldUntil (replaceStep names bytes re atEnd tmpl) st ms).lastMatch to =
      st.dst ++ replaceAllSpec bytes (fun c => interpolate (envOf bytes names c) tmpl)
        (ms.takeWhile (keep re atEnd)) st.lastMatch to := by
  intro ms
  induction ms with
  | nil => intro _ st; simp [foldUntil, replaceAllSpec, slice]
  | cons c ms ih =>
    intro hsorted st
    have hpw := hsorted.1
    rw [List.pairwise_cons] at hpw
    have hrest : SortedCaps ms := ⟨hpw.2, fun x hx => hsorted.2 x (by simp [hx])⟩
    by_cases hk : keep re atEnd c = true
    · have hcond : beyondRange re atEnd (sp c).s = false := by
        unfold keep at hk
        unfold beyondRange
        cases atEnd <;> simp at hk ⊢ <;> omega
      have hstep : replaceStep names bytes re atEnd tmpl st c =
          (⟨min (sp c).e re, st.dst ++ slice bytes st.lastMatch (sp c).s ++ interpolate (envOf bytes names c) tmpl,
            st.spans ++ [⟨(st.dst ++ slice bytes st.lastMatch (sp c).s).length,
              (st.dst ++ slice bytes st.lastMatch (sp c).s).length + (interpolate (envOf bytes names c) tmpl).length⟩]⟩,
           true) := by
        unfold replaceStep; simp only [sp] at hcond ⊢; simp [hcond]
      simp only [foldUntil, hstep, ↓reduceIte, List.takeWhile_cons, hk]
      by_cases hce : (sp c).e ≤ re
      · have hmin : min (sp c).e re = (sp c).e := by omega
        rw [ih hrest, hmin]
        simp [replaceAllSpec, slice, sp, List.append_assoc]
      · -- the match reaches beyond the range: nothing behind it is kept
        have hnone : ∀ r ∈ ms, keep re atEnd r = false := by
          intro r hr
          have := hpw.1 r hr
          unfold keep
          cases atEnd <;> simp <;> omega
        obtain ⟨hf, htw⟩ := fold_stop names bytes re atEnd tmpl ms
          ⟨min (sp c).e re, st.dst ++ slice bytes st.lastMatch (sp c).s ++ interpolate (envOf bytes names c) tmpl,
            st.spans ++ [⟨(st.dst ++ slice bytes st.lastMatch (sp c).s).length,
              (st.dst ++ slice bytes st.lastMatch (sp c).s).length + (interpolate (envOf bytes names c) tmpl).length⟩]⟩
          hnone
        rw [hf, htw]
        have hmin : min (sp c).e re = re := by omega
        have e1 : slice bytes re to = [] := by
          unfold slice; apply List.drop_eq_nil_of_le; simp [List.length_take]; omega
        have e2 : (bytes.take to).drop (sp c).e = [] := by
          apply List.drop_eq_nil_of_le; simp [List.length_take]; omega
        simp only [hmin, e1, replaceAllSpec, List.append_nil]
        simp [slice, sp, e2, List.append_assoc] at e2 ⊢
        simpa [sp] using e2
    · have hcond : beyondRange re atEnd (sp c).s = true := by
        unfold keep at hk
        unfold beyondRange
        cases atEnd <;> simp at hk ⊢ <;> omega
      have hstep : replaceStep names bytes re atEnd tmpl st c = (st, false) := by
        unfold replaceStep; simp only [sp] at hcond; simp [hcond]
      simp [foldUntil, hstep, List.takeWhile_cons, hk, replaceAllSpec, slice]

theorem fold_spans (names : List (Bytes × Nat)) (bytes : Bytes) (re : Nat) (atEnd : Bool) (tmpl : Bytes) :
    ∀ (ms : List Caps) (st : RState),
      (foldUntil (replaceStep names bytes re atEnd tmpl) st ms).spans.length =
        st.spans.length + (ms.takeWhile (keep re atEnd)).length := by
  intro ms
  induction ms with
  | nil => intro st; simp [foldUntil]
  | cons c ms ih =>
    intro st
    by_cases hk : keep re atEnd c = true
    · have hcond : beyondRange re atEnd (sp c).s = false := by
        unfold keep at hk
        unfold beyondRange
        cases atEnd <;> simp at hk ⊢ <;> omega
      have hstep : ∃ st' x, replaceStep names bytes re atEnd tmpl st c = (st', true) ∧ st'.spans = st.spans ++ [x] := by
        unfold replaceStep; simp only [sp] at hcond ⊢; simp only [hcond, Bool.false_eq_true, ↓reduceIte]
        exact ⟨_, _, rfl, rfl⟩
      obtain ⟨st', x, hst', hsp⟩ := hstep
      simp only [foldUntil, hst', ↓reduceIte, List.takeWhile_cons, hk]
      rw [ih st', hsp]
      simp; omega
    · have hcond : beyondRange re atEnd (sp c).s = true := by
        unfold keep at hk
        unfold beyondRange
        cases atEnd <;> simp at hk ⊢ <;> omega
      have hstep : replaceStep names bytes re atEnd tmpl st c = (st, false) := by
        unfold replaceStep; simp only [sp] at hcond; simp [hcond]
      simp [foldUntil, hstep, hk]

/-- `replace_all` in multi-line mode: its buffer is the replace-all over the kept matches, one expansion offset per
kept match — for every sane matcher, no guard. -/
theorem replaceAllMulti_eq (sc : SCfg) (capsAtOf : Bytes → Nat → Option Caps) (names : List (Bytes × Nat))
    (haystack : Bytes) (rs re : Nat) (tmpl : Bytes)
    (hs : Sane (capsAtOf (cutHaystack sc haystack re)) (cutHaystack sc haystack re).length) :
    (replaceAllMulti sc capsAtOf names haystack rs re tmpl).dst =
      replaceAllSpec (cutHaystack sc haystack re)
        (fun c => interpolate (envOf (cutHaystack sc haystack re) names c) tmpl)
        (kept (capsAtOf (cutHaystack sc haystack re)) (cutHaystack sc haystack re) rs re
          (isAtUnterminatedEnd sc.lt (cutHaystack sc haystack re) rs re))
        rs (min (cutHaystack sc haystack re).length re) ∧
    (replaceAllMulti sc capsAtOf names haystack rs re tmpl).spans.length =
      (kept (capsAtOf (cutHaystack sc haystack re)) (cutHaystack sc haystack re) rs re
          (isAtUnterminatedEnd sc.lt (cutHaystack sc haystack re) rs re)).length := by
  unfold replaceAllMulti
  simp only
  rw [replace_unfold]
  simp only
  rw [iterGo_eq_fold]
  have hc := collect_eq_allMatches hs rs
  rw [hc]
  have hsorted := allMatches_sorted hs rs
  have h1 := fold_spec_sorted names (cutHaystack sc haystack re) re (min (cutHaystack sc haystack re).length re)
    (isAtUnterminatedEnd sc.lt (cutHaystack sc haystack re) rs re) tmpl (by omega)
    (allMatches (capsAtOf (cutHaystack sc haystack re)) (cutHaystack sc haystack re).length rs) hsorted ⟨rs, [], []⟩
  have h2 := fold_spans names (cutHaystack sc haystack re) re
    (isAtUnterminatedEnd sc.lt (cutHaystack sc haystack re) rs re) tmpl
    (allMatches (capsAtOf (cutHaystack sc haystack re)) (cutHaystack sc haystack re).length rs) ⟨rs, [], []⟩
  exact ⟨by simpa [kept] using h1, by simpa [kept] using h2⟩

/-- the replaced text of the block `[rs, re)`: replace-all (with ripgrep's interpolation) over the kept matches
of the cut haystack, unmatched text copied, up to the end of the block -/
def replacedText (sc : SCfg) (capsAtOf : Bytes → Nat → Option Caps) (names : List (Bytes × Nat))
    (buf : Bytes) (rs re : Nat) (tmpl : Bytes) : Bytes :=
  replaceAllSpec (cutHaystack sc buf re)
    (fun c => interpolate (envOf (cutHaystack sc buf re) names c) tmpl)
    (kept (capsAtOf (cutHaystack sc buf re)) (cutHaystack sc buf re) rs re
      (isAtUnterminatedEnd sc.lt (cutHaystack sc buf re) rs re))
    rs (min (cutHaystack sc buf re).length re)

/-- **Printed form of a replaced block**: when at least one match is kept, the block is printed from the
replaced text, line by line — every line a record of its own (line number `ln + i`, the column of the first
expansion on every line), a missing terminator completed. -/
theorem printReplacedBlock_eq (sc : SCfg) (c : StdCfg) (capsAtOf : Bytes → Nat → Option Caps)
    (names : List (Bytes × Nat)) (buf : Bytes) (rs re absOff : Nat) (ln : Option Nat) (tmpl : Bytes)
    (hml : sc.multiLine = true) (ho : c.onlyMatching = false) (hp : c.perMatch = false)
    (hs : Sane (capsAtOf (cutHaystack sc buf re)) (cutHaystack sc buf re).length)
    (hk : kept (capsAtOf (cutHaystack sc buf re)) (cutHaystack sc buf re) rs re
      (isAtUnterminatedEnd sc.lt (cutHaystack sc buf re) rs re) ≠ [])
    (hok : (splitLines sc.lt.asByte (replacedText sc capsAtOf names buf rs re tmpl)).all (crlfLineOk sc.lt) = true) :
    ∃ k, printReplacedBlock sc c capsAtOf names buf rs re absOff ln tmpl =
      (blockRecords sc.lt c absOff ln (optIf c.column k) 0 0
        (splitLines sc.lt.asByte (replacedText sc capsAtOf names buf rs re tmpl))).flatMap (printRecord c) := by
  obtain ⟨hdst, hlen⟩ := replaceAllMulti_eq sc capsAtOf names buf rs re tmpl hs
  generalize hst : replaceAllMulti sc capsAtOf names buf rs re tmpl = st at hdst hlen
  have hspans : st.spans ≠ [] := by
    intro h
    rw [h] at hlen
    have : (kept (capsAtOf (cutHaystack sc buf re)) (cutHaystack sc buf re) rs re
      (isAtUnterminatedEnd sc.lt (cutHaystack sc buf re) rs re)).length = 0 := by simpa using hlen.symm
    exact hk (List.length_eq_zero_iff.mp this)
  have hne : st.spans.isEmpty = false := by
    cases h : st.spans with
    | nil => exact absurd h hspans
    | cons _ _ => rfl
  refine ⟨(st.spans.headD ⟨0, 0⟩).s + 1, ?_⟩
  unfold printReplacedBlock
  simp only [hst, sunkOf, hne, Bool.false_eq_true, ↓reduceIte]
  unfold sinkBody
  simp only [hne, Bool.false_eq_true, ↓reduceIte, hml, Option.isSome_none, Bool.not_false, Bool.and_self]
  have hdst' : st.dst = replacedText sc capsAtOf names buf rs re tmpl := hdst
  rw [sinkSlowMultiLine_eq sc c _ hspans ho hp (by simpa [hdst'] using hok)]
  simp [hdst']

/-- with no path, line number, column or byte offset a record is just its text -/
theorem blockRecords_plain (lt : LineTerm) (c : StdCfg) (absOff : Nat) (k : Nat)
    (hpath : c.path = none) (hcol : c.column = false) (hboff : c.byteOffset = false) :
    ∀ (lines : List Bytes) (i off : Nat),
      (blockRecords lt c absOff none (optIf c.column k) i off lines).flatMap (printRecord c) =
        lines.flatMap (completed lt) := by
  intro lines
  induction lines with
  | nil => intro i off; simp [blockRecords]
  | cons line rest ih =>
    intro i off
    simp only [blockRecords, List.flatMap_cons]
    rw [ih]
    simp [printRecord, pathField, numField, recPath, hpath, optIf, hcol, hboff]

end RgVerif.Lemmas.ReplaceMulti
