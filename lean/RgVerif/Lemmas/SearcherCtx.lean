import RgVerif.Lemmas.SearcherSteps
import RgVerif.Lemmas.SearcherKinds
/-
`after_context_by_line` and `before_context_by_line` under the invariant, in terms of what the scan
knows (`Unsel`, `AclOK`).
-/
namespace RgVerif.Searcher
open RgVerif RgVerif.Matcher RgVerif.Lines RgVerif.GrepSpec

/-- `Inv` does not read `pos` / `hasMatched`. -/
theorem Inv.of_fields {cfg : Config} {sl : List SLine} {v : Nat} {st st' : Core} (h : Inv cfg sl v st)
    (h1 : st'.lastLineVisited = st.lastLineVisited) (h2 : st'.hasSunk = st.hasSunk)
    (h3 : st'.lastLineCounted = st.lastLineCounted) (h4 : st'.lineNumber = st.lineNumber)
    (h5 : st'.absoluteByteOffset = st.absoluteByteOffset) (h6 : st'.binaryByteOffset = st.binaryByteOffset)
    (h7 : st'.events = st.events) : Inv cfg sl v st' :=
  ⟨h1 ▸ h.llv, h2 ▸ h.sunk, h.deliv, by obtain ⟨c, hc, hl, hn⟩ := h.cnt; exact ⟨c, hc, fun hh => h3 ▸ hl hh, h4 ▸ hn⟩,
    h5 ▸ h.abs, h6 ▸ h.bin, h7 ▸ h.ev⟩

theorem aclOK_steps {A : Nat} {sl : List SLine} : ∀ (m v acl : Nat), AclOK A sl v acl → Unsel sl v (v + m) →
    m ≤ acl → AclOK A sl (v + m) (acl - m) := by
  intro m
  induction m with
  | zero => intro v acl h _ _; simpa using h
  | succ m ih =>
    intro v acl h hu hm
    have h1 := aclOK_step h (hu v (Nat.le_refl v) (by omega)) (by omega)
    have h2 := ih (v + 1) (acl - 1) h1 (hu.mono (by omega) (by omega)) (by omega)
    have e1 : v + 1 + m = v + (m + 1) := by omega
    have e2 : acl - 1 - m = acl - (m + 1) := by omega
    rw [e1, e2] at h2; exact h2

section
variable {t : Nat} {buf : Bytes} {sl : List SLine} {cfg : Config}

/-- `after_context_by_line(buf, start of line i)`: delivers the owed lines among `[v, i)`. -/
theorem afterCtx_step (L : Layout t buf sl) (ht : cfg.lineTerm.asByte = t) (hbin : cfg.binary = .none)
    {v i : Nat} {st : Core} (hI : Inv cfg sl v st) (hvi : v ≤ i) (hi : i ≤ sl.length)
    (hu : Unsel sl v i) (hacl : AclOK cfg.afterContext sl v st.afterContextLeft) :
    ∃ st1, afterContextByLine cfg allCont buf st (offsetAt sl i) = (st1, .ok true) ∧
      Inv cfg sl (v + min st.afterContextLeft (i - v)) st1 ∧
      st1.afterContextLeft = st.afterContextLeft - min st.afterContextLeft (i - v) ∧
      AclOK cfg.afterContext sl (v + min st.afterContextLeft (i - v)) st1.afterContextLeft ∧ Frame st st1 := by
  unfold afterContextByLine
  by_cases h0 : st.afterContextLeft = 0
  · refine ⟨st, by simp [h0], by simpa [h0] using hI, by simp [h0], by simpa [h0] using hacl, Frame.refl st⟩
  · have hk : ∀ j, v ≤ j → j < v + min st.afterContextLeft (i - v) → kindAt cfg sl j = some (.ctx .after) :=
      fun j h1 h2 => kind_after hacl h1 (hu.mono (Nat.le_refl _) (by omega)) (by omega)
    obtain ⟨st1, e1, hI1, hacl1, hf1⟩ :=
      afterLoop_spec L ht hbin (i - v) v st hI (by omega) (by omega) hk
    refine ⟨st1, ?_, hI1, hacl1, ?_, hf1⟩
    · simp only [h0, beq_iff_eq, if_false]
      rw [hI.llv, ht, L.stepLines_index v i hvi hi]
      exact e1
    · rw [hacl1]
      exact aclOK_steps _ v _ hacl (hu.mono (Nat.le_refl _) (by omega)) (Nat.min_le_left _ _)

/-- `before_context_by_line(buf, start of line i)` before the selected line `i`: afterwards every line
in `[v', i)` that is still undecided is not delivered by the model either. -/
theorem beforeCtx_step (L : Layout t buf sl) (ht : cfg.lineTerm.asByte = t) (hbin : cfg.binary = .none)
    {v i : Nat} {st : Core} (hI : Inv cfg sl v st) (hvi : v ≤ i) (hi : i < sl.length)
    (hu : Unsel sl v i) (hs : selAt sl i = true) (hacl : AclOK cfg.afterContext sl v st.afterContextLeft)
    (hz : v < i → st.afterContextLeft = 0) (hpt : cfg.passthru = true → v = i) :
    ∃ v' st2, beforeContextByLine cfg allCont buf st (offsetAt sl i) = (st2, .ok true) ∧
      Inv cfg sl v' st2 ∧ v' ≤ i ∧ (∀ j, v' ≤ j → j < i → kindAt cfg sl j = none) ∧
      st2.afterContextLeft = st.afterContextLeft ∧ Frame st st2 := by
  have hptf : v < i → cfg.passthru = false := by
    intro h; cases hp : cfg.passthru
    · rfl
    · have := hpt hp; omega
  unfold beforeContextByLine
  by_cases hB : cfg.beforeContext = 0
  · refine ⟨v, st, by simp [hB], hI, hvi, ?_, rfl, Frame.refl st⟩
    intro j h1 h2
    exact kind_none hacl h1 hu h2 (by rw [hz (by omega)]; omega) (hptf (by omega)) (Or.inl (by omega))
  · by_cases hvi' : v = i
    · subst hvi'
      refine ⟨v, st, by simp [hB, hI.llv], hI, Nat.le_refl _, fun j h1 h2 => by omega, rfl, Frame.refl st⟩
    · have hlt : v < i := by omega
      have hne : ¬ (offsetAt sl i - offsetAt sl v = 0) := by
        have := L.off_lt hlt (by omega); omega
      have hacl0 := hz hlt
      have hstart := L.preceding_region v i (cfg.beforeContext - 1) hlt hi
      have ea : v + (i - v - 1 - (cfg.beforeContext - 1)) = v + (i - v - cfg.beforeContext) := by omega
      rw [ea] at hstart
      have hskip : ∀ j', v ≤ j' → j' < v + (i - v - cfg.beforeContext) → kindAt cfg sl j' = none :=
        fun j h1 h2 => kind_none hacl h1 hu (by omega) (by rw [hacl0]; omega) (hptf hlt) (Or.inl (by omega))
      have hkb : ∀ j, v + (i - v - cfg.beforeContext) ≤ j →
          j < v + (i - v - cfg.beforeContext) + (i - (v + (i - v - cfg.beforeContext))) →
          kindAt cfg sl j = some (.ctx .before) :=
        fun j h1 h2 => kind_before hacl (by omega) (hu.mono (Nat.le_refl _) (by omega)) (by rw [hacl0]; omega)
          (hptf hlt) (by omega) hs (by omega)
      obtain ⟨st2, e2, hI2, hacl2, hf2⟩ :=
        beforeLoop_spec L ht hbin (i - (v + (i - v - cfg.beforeContext))) (v + (i - v - cfg.beforeContext)) v st hI
          (by omega) (by omega) (by omega) hskip hkb
      have ee : v + (i - v - cfg.beforeContext) + (i - (v + (i - v - cfg.beforeContext))) = i := by omega
      rw [ee] at hI2
      refine ⟨i, st2, ?_, hI2, Nat.le_refl _, fun j h1 h2 => by omega, hacl2, hf2⟩
      simp only [hB, beq_iff_eq, if_false, hI.llv, hne, ht, hstart]
      rw [L.stepLines_index _ i (by omega) (by omega)]
      exact e2

end
end RgVerif.Searcher
