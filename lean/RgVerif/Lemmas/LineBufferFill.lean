import RgVerif.Lemmas.LineBufferInv
/-
`LineBuffer::fill`: the loop keeps the invariant, terminates within `data.length + 1` iterations,
and returns at a line boundary (or at EOF / at the `Quit` byte).
-/
namespace RgVerif.LineBuffer
open RgVerif

/-- What `fill` promises about its result, besides the invariant. `nz`: the reader obeys the
`Read` contract (no zero-length return before EOF). -/
def FillPost (lt : Nat) (s : LB) (r : Reader) (nz : Prop) : FillRes → Prop
  | .ok more => more = (!s.buffer.isEmpty) ∧
      ((s.last = s.buf.length ∧ (s.stopped ∨ (nz → r.data = []))) ∨
       (0 < s.last ∧ s.buf[s.last - 1]? = some lt)) ∧ lt ∉ s.buf.drop s.last
  | .allocErr => s.cfg.alloc ≠ .eager
  | .fuel => False

theorem NoZero.of_read {r r' : Reader} {free : Nat} {x : ReadRes} (h : r.read free = (x, r'))
    (hz : NoZero r.script) : NoZero r'.script := by
  obtain ⟨pre, hpre⟩ := read_script_suffix r r' free x h
  intro st hst
  exact hz st (by rw [hpre]; simp [hst])

theorem Inv.more_eq {cfg inp s r a m rest} (h : Inv cfg inp s r a m rest) :
    (!s.buffer.isEmpty) = decide (s.pos < s.last) := by
  have hl := h.buffer_len
  cases hb : s.buffer with
  | nil => rw [hb] at hl; simp at hl; simp; omega
  | cons x xs => rw [hb] at hl; simp at hl; simp; omega

theorem FillPost.mono {lt : Nat} {s : LB} {r : Reader} {p q : Prop} {res : FillRes} (hpq : q → p)
    (h : FillPost lt s r p res) : FillPost lt s r q res := by
  cases res with
  | ok more =>
    obtain ⟨h1, h2, h3⟩ := h
    refine ⟨h1, ?_, h3⟩
    cases h2 with
    | inl h2 =>
      refine Or.inl ⟨h2.1, ?_⟩
      cases h2.2 with
      | inl h4 => exact Or.inl h4
      | inr h4 => exact Or.inr (fun hq => h4 (hpq hq))
    | inr h2 => exact Or.inr h2
  | allocErr => exact h
  | fuel => exact h

theorem fillLoop_spec (cfg : Config) (inp : Bytes) (fuel : Nat) (s : LB) (r : Reader) (a m : Bytes)
    (hinv : Inv cfg inp s r a m r.data) (hp : s.pos = 0) (hns : ¬ s.stopped)
    (hf : r.data.length + r.script.length < fuel)
    (htail : cfg.lineterm ∉ s.buf.drop s.last) :
    ∃ m' rest', Inv cfg inp (fillLoop fuel s r).1 (fillLoop fuel s r).2.1 a m' rest' ∧
      (fillLoop fuel s r).1.pos = 0 ∧ (fillLoop fuel s r).1.abs = s.abs ∧
      FillPost cfg.lineterm (fillLoop fuel s r).1 (fillLoop fuel s r).2.1 (NoZero r.script) (fillLoop fuel s r).2.2 := by
  fun_induction fillLoop fuel s r generalizing m
  case case1 => omega
  case case2 s r he =>
    refine ⟨m, r.data, hinv, hp, rfl, ?_⟩
    show s.cfg.alloc ≠ .eager
    intro hal
    exact ensureCapacity_eager s hal he
  case case3 fu s0 r0 s1 he r1 hread ih =>
    have h1 := hinv.ensureCapacity s1 he
    obtain ⟨e1, e2, e3, e4, e5, e6, e7, e8⟩ := ensureCapacity_some s0 s1 hinv.hlen he
    obtain ⟨hd, hsl⟩ := read_intr r0 r1 _ hread
    have hp1 : s1.pos = 0 := by rw [e3]; exact hp
    have hns1 : ¬ s1.stopped := by unfold LB.stopped at hns ⊢; rw [e1, e6]; exact hns
    have h2 : Inv cfg inp s1 r1 a m r1.data :=
      ⟨h1.hcfg, by rw [hd]; exact h1.split, h1.habs, h1.hwin, h1.hpos, h1.hlast, h1.hlen, Or.inr rfl,
        by rw [hd]; exact h1.hbin, h1.hstop⟩
    obtain ⟨m', rest', i1, i2, i3, i4⟩ := ih m h2 hp1 hns1 (by rw [hd]; omega)
      (by rw [e2, e4]; exact htail)
    refine ⟨m', rest', i1, i2, by rw [i3]; exact e5, ?_⟩
    exact FillPost.mono (NoZero.of_read hread) i4
  case case4 s0 r0 s1 he nb r1 hread hnb s2 =>
    have h1 := hinv.ensureCapacity s1 he
    obtain ⟨e1, e2, e3, e4, e5, e6, e7, e8⟩ := ensureCapacity_some s0 s1 hinv.hlen he
    obtain ⟨hrd, hfree, hsl⟩ := read_bytes r0 r1 _ nb hread
    have hnb0 : nb = [] := List.length_eq_zero_iff.1 hnb
    subst hnb0
    simp only [List.nil_append] at hrd
    have hp1 : s1.pos = 0 := by rw [e3]; exact hp
    have h2 : Inv cfg inp s2 r0 a m r0.data := h1.setLast s1.buf.length (by omega) (Nat.le_refl _) (fun _ => rfl)
    refine ⟨m, r0.data, ?_, hp1, e5, ?_⟩
    · exact ⟨h2.hcfg, h2.split, h2.habs, h2.hwin, h2.hpos, h2.hlast, h2.hlen, Or.inr hrd.symm, h2.hbin, h2.hstop⟩
    · refine ⟨rfl, Or.inl ⟨rfl, Or.inr ?_⟩, ?_⟩
      · intro hz
        exact read_zero_eof r0 r1 _ hz (by omega) hread
      · show cfg.lineterm ∉ s1.buf.drop s1.buf.length
        simp
  case case5 s0 r0 s1 he nb r1 hread hnb oldend i hdet s2 =>
    have h1 := hinv.ensureCapacity s1 he
    obtain ⟨e1, e2, e3, e4, e5, e6, e7, e8⟩ := ensureCapacity_some s0 s1 hinv.hlen he
    obtain ⟨hrd, hfree, hsl⟩ := read_bytes r0 r1 _ nb hread
    have hp1 : s1.pos = 0 := by rw [e3]; exact hp
    obtain ⟨q1, q2, q3⟩ := Inv.quitAt (r := r0) (r' := r1) h1 hp1 hrd hfree hdet
    refine ⟨_, _, q1, hp1, e5, ?_⟩
    refine ⟨?_, Or.inl ⟨?_, Or.inl q2⟩, ?_⟩
    · show decide (s1.pos < s1.buf.length + i) = !(LB.buffer s2).isEmpty
      rw [q1.more_eq]
    · show s1.buf.length + i = (s1.buf ++ nb.take i).length
      simp; omega
    · show cfg.lineterm ∉ (s1.buf ++ nb.take i).drop (s1.buf.length + i)
      have : (s1.buf ++ nb.take i).length ≤ s1.buf.length + i := by simp; omega
      rw [List.drop_eq_nil_of_le this]
      simp
  case case6 s0 r0 s1 he nb r1 hread hnb oldend nb' bo hdet s2 i hrf =>
    have h1 := hinv.ensureCapacity s1 he
    obtain ⟨e1, e2, e3, e4, e5, e6, e7, e8⟩ := ensureCapacity_some s0 s1 hinv.hlen he
    obtain ⟨hrd, hfree, hsl⟩ := read_bytes r0 r1 _ nb hread
    have hp1 : s1.pos = 0 := by rw [e3]; exact hp
    have hns1 : ¬ s1.stopped := by unfold LB.stopped at hns ⊢; rw [e1, e6]; exact hns
    obtain ⟨p1, p2, p3⟩ := Inv.push (r := r0) (r' := r1) h1 hp1 hns1 hrd hfree hdet
    have hlt : s2.cfg.lineterm = cfg.lineterm := by rw [← hinv.hcfg, ← e1]
    rw [hlt] at hrf
    obtain ⟨g1, g2, g3⟩ := rfindByte_some _ _ _ hrf
    have h3 := p1.setLast (s1.buf.length + i + 1) (by show s1.pos ≤ _; omega)
      (by show _ ≤ (s1.buf ++ nb').length; simp; omega) (fun hs => absurd hs p2)
    refine ⟨_, _, h3, hp1, e5, ?_⟩
    refine ⟨?_, Or.inr ⟨by show 0 < s1.buf.length + i + 1; omega, ?_⟩, ?_⟩
    · show true = !(LB.buffer { s2 with last := s1.buf.length + i + 1 }).isEmpty
      rw [h3.more_eq]
      show true = decide (s1.pos < s1.buf.length + i + 1)
      simp
      omega
    · show (s1.buf ++ nb')[s1.buf.length + i + 1 - 1]? = some cfg.lineterm
      rw [show s1.buf.length + i + 1 - 1 = s1.buf.length + i by omega]
      rw [List.getElem?_append_right (by omega)]
      simpa using g2
    · show cfg.lineterm ∉ (s1.buf ++ nb').drop (s1.buf.length + i + 1)
      rw [show s1.buf.length + i + 1 = s1.buf.length + (i + 1) by omega, List.drop_append]
      have hnil : s1.buf.drop (s1.buf.length + (i + 1)) = [] := List.drop_eq_nil_of_le (by omega)
      rw [hnil]
      simpa using g3
  case case7 fu s0 r0 s1 he nb r1 hread hnb oldend nb' bo hdet s2 hrf ih =>
    have h1 := hinv.ensureCapacity s1 he
    obtain ⟨e1, e2, e3, e4, e5, e6, e7, e8⟩ := ensureCapacity_some s0 s1 hinv.hlen he
    obtain ⟨hrd, hfree, hsl⟩ := read_bytes r0 r1 _ nb hread
    have hp1 : s1.pos = 0 := by rw [e3]; exact hp
    have hns1 : ¬ s1.stopped := by unfold LB.stopped at hns ⊢; rw [e1, e6]; exact hns
    obtain ⟨p1, p2, p3⟩ := Inv.push (r := r0) (r' := r1) h1 hp1 hns1 hrd hfree hdet
    have hlt : s2.cfg.lineterm = cfg.lineterm := by rw [← hinv.hcfg, ← e1]
    rw [hlt] at hrf
    have hnone := rfindByte_none _ _ hrf
    have hfu : r1.data.length + r1.script.length < fu := by
      have := congrArg List.length hrd
      simp at this
      omega
    have ht : cfg.lineterm ∉ s2.buf.drop s2.last := by
      show cfg.lineterm ∉ (s1.buf ++ nb').drop s1.last
      rw [List.drop_append_of_le_length h1.hlast]
      simp only [List.mem_append, not_or]
      refine ⟨?_, hnone⟩
      rw [e2, e4]; exact htail
    obtain ⟨m', rest', i1, i2, i3, i4⟩ := ih (m ++ nb) p1 hp1 p2 hfu ht
    refine ⟨m', rest', i1, i2, by rw [i3]; exact e5, ?_⟩
    exact FillPost.mono (NoZero.of_read hread) i4
theorem fill_spec (cfg : Config) (inp : Bytes) (s : LB) (r : Reader) (a m rest : Bytes)
    (hinv : Inv cfg inp s r a m rest) :
    ∃ m' rest', Inv cfg inp (s.fill r).1 (s.fill r).2.1 a m' rest' ∧ (s.fill r).1.abs = s.abs ∧
      FillPost cfg.lineterm (s.fill r).1 (s.fill r).2.1 (NoZero r.script) (s.fill r).2.2 ∧
      (¬ s.stopped → (s.fill r).1.pos = 0) := by
  unfold LB.fill
  by_cases hs : s.stopped
  · have hs' : (s.cfg.binary.isQuit && s.binOff.isSome) = true := by
      unfold LB.stopped at hs; simp [hs.1, hs.2]
    rw [if_pos hs']
    refine ⟨m, rest, hinv, rfl, ?_, fun h => absurd hs h⟩
    refine ⟨rfl, Or.inl ⟨hinv.hstop hs, Or.inl hs⟩, ?_⟩
    show cfg.lineterm ∉ s.buf.drop s.last
    rw [hinv.hstop hs]
    simp
  · have hs' : ¬ (s.cfg.binary.isQuit && s.binOff.isSome) = true := by
      unfold LB.stopped at hs; simpa using hs
    rw [if_neg hs']
    have hr : r.data = rest := by
      cases hinv.hrdr with
      | inl h => exact absurd h hs
      | inr h => exact h
    subst hr
    obtain ⟨r1, r2, r3, r4, r5⟩ := hinv.roll
    have hns : ¬ s.roll.stopped := by
      unfold LB.stopped at hs ⊢
      rw [r4, r1.hcfg, ← hinv.hcfg]
      exact hs
    obtain ⟨m', rest', f1, f2, f3, f4⟩ :=
      fillLoop_spec cfg inp (r.data.length + r.script.length + 1) s.roll r a m r1 r2 hns (by omega) (by rw [r5]; simp)
    exact ⟨m', rest', f1, by rw [f3, r3], f4, fun _ => f2⟩

theorem run_inv (cfg : Config) (inp : Bytes) (ops : List Op) : ∀ (s : LB) (r : Reader) (a m rest : Bytes),
    Inv cfg inp s r a m rest →
    ∃ a' m' rest', Inv cfg inp (run s r ops).1 (run s r ops).2 a' m' rest' := by
  induction ops with
  | nil => intro s r a m rest h; exact ⟨a, m, rest, h⟩
  | cons op ops ih =>
    intro s r a m rest h
    cases op with
    | fill =>
      obtain ⟨m', rest', h1, _, _, _⟩ := fill_spec cfg inp s r a m rest h
      simp only [run]
      exact ih _ _ _ _ _ h1
    | consume n =>
      simp only [run]
      cases hc : s.consume n with
      | none => exact ⟨a, m, rest, h⟩
      | some s' => exact ih _ _ _ _ _ (h.consume n s' hc)

/-! ### from the invariant to the caller's view -/

theorem takeWhile_append_of_not_mem (b : Nat) (xs ys : Bytes) (h : b ∉ xs) :
    (xs ++ ys).takeWhile (fun x => x != b) = xs ++ ys.takeWhile (fun x => x != b) := by
  induction xs with
  | nil => rfl
  | cons x xs ih =>
    have hx : x ≠ b := fun e => h (by simp [e])
    have hr : b ∉ xs := fun e => h (by simp [e])
    simp [hx, ih hr]

theorem window_mid (a m z : Bytes) (n : Nat) (hn : n ≤ m.length) :
    window (a ++ (m ++ z)) a.length n = m.take n := by
  unfold window
  rw [List.drop_left, List.take_append_of_le_length hn]

/-- The view of the input is `tr a ++ tr m ++ …`. -/
theorem Inv.view_eq {cfg inp s r a m rest} (h : Inv cfg inp s r a m rest) :
    ∃ z, view cfg inp = cfg.binary.tr cfg.lineterm a ++ (cfg.binary.tr cfg.lineterm m ++ z) := by
  unfold view
  have hb := h.hbin
  unfold BinOK at hb
  rw [h.hcfg] at hb
  cases hbin : cfg.binary with
  | none => exact ⟨rest, by simp [BinDet.tr, h.split]⟩
  | convert b => exact ⟨rest.map (convByte b cfg.lineterm), by simp [BinDet.tr, h.split]⟩
  | quit b =>
    simp only [hbin] at hb
    dsimp only
    refine ⟨rest.takeWhile (fun x => x != b), ?_⟩
    rw [h.split, ← List.append_assoc, takeWhile_append_of_not_mem b _ _ hb.1]
    simp [BinDet.tr]

theorem Inv.window {cfg inp s r a m rest} (h : Inv cfg inp s r a m rest) :
    s.buffer = window (view cfg inp) s.abs s.buffer.length := by
  obtain ⟨z, hz⟩ := h.view_eq
  have hl := h.buffer_len
  have hm := h.mlen
  have hlast := h.hlast
  rw [hz, ← h.habs, ← tr_length cfg.lineterm cfg.binary a, window_mid _ _ _ _ (by simp; omega)]
  rw [hl, h.buffer_eq, h.hcfg]

/-! ### scripts only shrink -/

theorem fillLoop_noZero (fuel : Nat) (s : LB) (r : Reader) (h : NoZero r.script) :
    NoZero (fillLoop fuel s r).2.1.script := by
  fun_induction fillLoop fuel s r
  case case1 => exact h
  case case2 => exact h
  case case3 hread ih => exact ih (NoZero.of_read hread h)
  case case4 hread _ _ => exact NoZero.of_read hread h
  case case5 hread _ _ _ _ _ => exact NoZero.of_read hread h
  case case6 hread _ _ _ _ _ _ _ _ => exact NoZero.of_read hread h
  case case7 hread _ _ _ _ _ _ _ ih => exact ih (NoZero.of_read hread h)

theorem fill_noZero (s : LB) (r : Reader) (h : NoZero r.script) : NoZero (s.fill r).2.1.script := by
  unfold LB.fill
  split
  · exact h
  · exact fillLoop_noZero _ _ _ h

theorem run_noZero (ops : List Op) : ∀ (s : LB) (r : Reader), NoZero r.script →
    NoZero (run s r ops).2.script := by
  induction ops with
  | nil => intro s r h; exact h
  | cons op ops ih =>
    intro s r h
    cases op with
    | fill => simp only [run]; exact ih _ _ (fill_noZero s r h)
    | consume n =>
      simp only [run]
      cases s.consume n with
      | none => exact h
      | some s' => exact ih _ _ h

/-! ### what the invariant says about the binary byte -/

/-- `Quit(b)`: the byte is in no part of the buffer the caller can ever reach. -/
theorem Inv.hides_quit {cfg inp s r a m rest} (h : Inv cfg inp s r a m rest) (b : Nat)
    (hb : cfg.binary = .quit b) : b ∉ s.buf.drop s.pos := by
  have h1 := h.hbin
  unfold BinOK at h1
  rw [h.hcfg, hb] at h1
  rw [h.hwin, h.hcfg, hb]
  simp only [BinDet.tr]
  intro hm
  exact h1.1 (by simp [hm])

/-- `Convert(b)` with `b` different from the terminator: likewise. -/
theorem Inv.hides_convert {cfg inp s r a m rest} (h : Inv cfg inp s r a m rest) (b : Nat)
    (hb : cfg.binary = .convert b) (hne : b ≠ cfg.lineterm) : b ∉ s.buf.drop s.pos := by
  rw [h.hwin, h.hcfg, hb]
  simp only [BinDet.tr, List.mem_map, not_exists, not_and]
  intro x _ hx
  unfold convByte at hx
  split at hx
  · exact hne hx.symm
  · rename_i hxb; exact hxb hx

theorem mem_buffer_of {s : LB} {x : Nat} (h : x ∈ s.buffer) : x ∈ s.buf.drop s.pos := by
  unfold LB.buffer at h
  rw [List.drop_take] at h
  exact List.mem_of_mem_take h

/-- The recorded offset is the offset of the first occurrence in the input. -/
theorem Inv.binOff_first {cfg inp s r a m rest} (h : Inv cfg inp s r a m rest) (b o : Nat)
    (hb : cfg.binary = .quit b ∨ (cfg.binary = .convert b ∧ b ≠ cfg.lineterm))
    (ho : s.binOff = some o) : findByte b inp = some o := by
  have h1 := h.hbin
  unfold BinOK at h1
  rw [h.hcfg] at h1
  rw [h.split, ← List.append_assoc, findByte_append]
  cases hb with
  | inl hb =>
    rw [hb] at h1
    obtain ⟨h2, h3⟩ := h1
    obtain ⟨h4, h5⟩ := h3 o ho
    rw [(findByte_none_iff b (a ++ m)).2 h2]
    cases rest with
    | nil => simp at h5
    | cons x xs =>
      simp at h5
      subst h5
      simp [findByte, h4]
  | inr hb =>
    rw [hb.1] at h1
    have := h1 hb.2
    rw [ho] at this
    rw [← this]

/-- No offset recorded: the byte was not delivered yet. -/
theorem Inv.binOff_none {cfg inp s r a m rest} (h : Inv cfg inp s r a m rest) (b : Nat)
    (hb : cfg.binary = .quit b ∨ (cfg.binary = .convert b ∧ b ≠ cfg.lineterm))
    (ho : s.binOff = none) : b ∉ a ++ m := by
  have h1 := h.hbin
  unfold BinOK at h1
  rw [h.hcfg] at h1
  cases hb with
  | inl hb => rw [hb] at h1; exact h1.1
  | inr hb =>
    rw [hb.1] at h1
    have := h1 hb.2
    rw [ho] at this
    exact (findByte_none_iff b _).1 this.symm

end RgVerif.LineBuffer
