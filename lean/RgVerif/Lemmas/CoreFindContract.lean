import RgVerif.Lemmas.ReadByLineFast
import RgVerif.Lemmas.SearcherFind
import RgVerif.Lemmas.SearcherTopFast
/-
The contract `FindC` (list form, used by the fast = slow proof) from searcher-core's `FindSpec` /
`LineSafe` (index form over `linesOf`), and C02 on the fast path stated with `LineSafe`.
-/
namespace RgVerif.Searcher
open RgVerif RgVerif.Matcher RgVerif.Lines RgVerif.GrepSpec

/-! ### well-formed line lists are what `splitLines` yields -/

theorem splitLines_noterm {t : Nat} : ∀ (l : Bytes), l ≠ [] → t ∉ l → splitLines t l = [l] := by
  intro l
  induction l with
  | nil => intro h; exact absurd rfl h
  | cons b rest ih =>
    intro _ hnt
    have hb : (b == t) = false := by
      have : b ≠ t := fun e => hnt (by rw [e]; simp)
      simpa using this
    unfold splitLines
    rw [hb]
    by_cases hr : rest = []
    · subst hr; simp [splitLines]
    · rw [ih hr (fun h => hnt (by simp [h]))]
      simp

theorem splitLines_term {t : Nat} (body : Bytes) (hb : t ∉ body) (X : Bytes) :
    splitLines t (body ++ [t] ++ X) = (body ++ [t]) :: splitLines t X := by
  induction body with
  | nil => simp [splitLines]
  | cons b body ih =>
    have hbt : (b == t) = false := by
      have : b ≠ t := fun e => hb (by rw [e]; simp)
      simpa using this
    have := ih (fun h => hb (by simp [h]))
    simp only [List.cons_append] at this ⊢
    rw [splitLines, hbt, this]
    simp

theorem splitLines_flatten_good {t : Nat} {ls : List Bytes} (hg : GoodLines t ls) : splitLines t ls.flatten = ls := by
  induction hg with
  | nil => rfl
  | last l hu => simp only [List.flatten_cons, List.flatten_nil, List.append_nil]; exact splitLines_noterm l hu.1 hu.2
  | cons l ls ht _ ih =>
    obtain ⟨body, rfl, hb⟩ := ht
    simp only [List.flatten_cons]
    rw [splitLines_term body hb, ih]

theorem splitLines_append_boundary {t : Nat} (a b : Bytes) (ha : a = [] ∨ a.getLast? = some t) :
    splitLines t (a ++ b) = splitLines t a ++ splitLines t b := by
  have hA : AllTerm t (splitLines t a) := by
    cases ha with
    | inl h0 => rw [h0]; intro y hy; simp [splitLines] at hy
    | inr h0 => exact goodLines_allTerm_of_last (splitLines_good _ _) (by rw [splitLines_flatten]; exact h0)
  have hg : GoodLines t (splitLines t a ++ splitLines t b) := goodLines_append_allTerm hA (splitLines_good _ _)
  have := splitLines_flatten_good hg
  rw [List.flatten_append, splitLines_flatten, splitLines_flatten] at this
  exact this

end RgVerif.Searcher

namespace RgVerif.Searcher
open RgVerif RgVerif.Matcher RgVerif.Lines RgVerif.GrepSpec

/-- the line with the selection bit the code computes for it -/
def withSel (cfg : Config) (m : MatcherI) (l : Bytes) : SLine := (l, lineSel cfg m l)

theorem pmAt_withSel (cfg : Config) (m : MatcherI) (A : List SLine) (l : Bytes) (rest : List SLine) :
    pmAt cfg (A ++ withSel cfg m l :: rest) A.length = pmLineL cfg m l := by
  unfold pmAt selAt
  simp only [List.getElem?_append_right (Nat.le_refl _), Nat.sub_self, List.getElem?_cons_zero, Option.map_some,
    Option.getD_some, withSel, lineSel, pmLineL]
  cases (m.shortestMatch (withoutTerminator l cfg.lineTerm)).isSome <;> cases cfg.invertMatch <;> rfl

theorem bytesAt_withSel (cfg : Config) (m : MatcherI) (A : List SLine) (l : Bytes) (rest : List SLine) :
    bytesAt (A ++ withSel cfg m l :: rest) A.length = l := by
  unfold bytesAt
  simp [List.getElem?_append_right (Nat.le_refl _), withSel]

/-- the index form of "first matching line" (`FindSpec`) and the list form (`firstPm`) -/
theorem firstFrom_firstPm (cfg : Config) (m : MatcherI) (ls : List Bytes) :
    ∀ (A : List SLine),
      (firstFrom (pmAt cfg (A ++ ls.map (withSel cfg m))) A.length ls.length).map (span (A ++ ls.map (withSel cfg m)))
        = firstPm cfg m (offsetAt (A ++ ls.map (withSel cfg m)) A.length) ls := by
  induction ls with
  | nil => intro A; rfl
  | cons l ls ih =>
    intro A
    simp only [List.map_cons, List.length_cons]
    unfold firstFrom firstPm
    rw [pmAt_withSel]
    have hoff : offsetAt (A ++ withSel cfg m l :: ls.map (withSel cfg m)) (A.length + 1)
        = offsetAt (A ++ withSel cfg m l :: ls.map (withSel cfg m)) A.length + l.length := by
      rw [off_succ _ _ (by simp), bytesAt_withSel]
    split
    · simp only [Option.map_some, span, hoff]
    · have := ih (A ++ [withSel cfg m l])
      simp only [List.append_assoc, List.singleton_append, List.length_append, List.length_cons, List.length_nil,
        Nat.zero_add] at this
      rw [this, hoff]

/-- **`FindSpec` (searcher-core's contract on `find_by_line_fast`, by line index) gives `FindC`** -/
theorem findC_of_findSpec {cfg : Config} {m : MatcherI} {buf : Bytes}
    (h : FindSpec cfg m buf (linesOf cfg m buf)) : FindC cfg m buf := by
  intro prew ls st hg hbuf hbnd hpos
  have hsplit : splitLines cfg.lineTerm.asByte buf = splitLines cfg.lineTerm.asByte prew ++ ls := by
    rw [hbuf, splitLines_append_boundary _ _ hbnd, splitLines_flatten_good hg]
  have hsl : linesOf cfg m buf
      = (splitLines cfg.lineTerm.asByte prew).map (withSel cfg m) ++ ls.map (withSel cfg m) := by
    unfold linesOf
    rw [hsplit, List.map_append]
    rfl
  have hoff : offsetAt (linesOf cfg m buf) ((splitLines cfg.lineTerm.asByte prew).map (withSel cfg m)).length
      = prew.length := by
    rw [← off_flat, hsl]
    simp only [lsOf, List.map_append, List.map_map, List.length_map]
    rw [List.take_left' (by simp)]
    have : (List.map ((fun x => x.1) ∘ withSel cfg m) (splitLines cfg.lineTerm.asByte prew))
        = splitLines cfg.lineTerm.asByte prew := by
      simp [withSel, Function.comp_def]
    rw [this, splitLines_flatten]
  have := h st ((splitLines cfg.lineTerm.asByte prew).map (withSel cfg m)).length
    (by rw [hsl]; simp) (by rw [hoff]; exact hpos)
  rw [this]
  have hlen : (linesOf cfg m buf).length - ((splitLines cfg.lineTerm.asByte prew).map (withSel cfg m)).length
      = ls.length := by rw [hsl]; simp
  rw [hlen, ← hoff, hsl]
  exact firstFrom_firstPm cfg m ls _

end RgVerif.Searcher

namespace RgVerif.Searcher
open RgVerif RgVerif.Matcher RgVerif.Lines RgVerif.GrepSpec RgVerif.LineBuffer

/-- **the matcher contract of the fast path (`LineSafe`, searcher-core) gives `FindC`** -/
theorem findC_of_lineSafe {cfg : Config} {m : MatcherI} {buf : Bytes}
    (hsafe : LineSafe cfg m buf (linesOf cfg m buf)) : FindC cfg m buf := by
  have L : Layout cfg.lineTerm.asByte buf (linesOf cfg m buf) := layout_splitLines _ buf (lineSel cfg m)
  have hsel : ∀ j, j < (linesOf cfg m buf).length →
      selAt (linesOf cfg m buf) j = lineSel cfg m (bytesAt (linesOf cfg m buf) j) :=
    selAt_of_forall (fun x hx => by
      simp only [linesOf, List.mem_map] at hx
      obtain ⟨l, _, rfl⟩ := hx; rfl)
  exact findC_of_findSpec (findSpec_of_lineSafe L (linesOf_length cfg m buf) rfl hsel hsafe)

/-- **C02 on the fast path under the matcher contract**: for a matcher that is line safe on every
window of the input (the input itself included) and a sink that never answers "stop", reader = slice, events and result -- whatever mix of
`match_by_line_fast` and `match_by_line_slow` calls the two strategies make. -/
theorem readByLine_eq_sliceByLine_lineSafe {cfg : Config} (m : MatcherI) (σ : Script) (hbin : cfg.binary = .none)
    (lbcfg : LineBuffer.Config) (hlt : lbcfg.lineterm = cfg.lineTerm.asByte) (hb : lbcfg.binary = .none)
    (hal : lbcfg.alloc = .eager) (rdr : Reader)
    (hsafe : ∀ a n, LineSafe cfg m (window rdr.data a n) (linesOf cfg m (window rdr.data a n)))
    (hns : ∀ i, σ i ≠ .stop) (hz : NoZero rdr.script) :
    (readByLine cfg m σ lbcfg rdr).events = (sliceByLine cfg m σ rdr.data).events ∧
      (readByLine cfg m σ lbcfg rdr).result = (sliceByLine cfg m σ rdr.data).result :=
  readByLine_eq_sliceByLine_fast m σ hbin lbcfg hlt hb hal rdr (fun a n => findC_of_lineSafe (hsafe a n)) hns hz

end RgVerif.Searcher

namespace RgVerif.Searcher
open RgVerif RgVerif.Matcher RgVerif.Lines RgVerif.GrepSpec RgVerif.LineBuffer

/-- the same for EVERY sink script, up to the byte count of `finish` (finding F10b) -/
theorem readByLine_eq_sliceByLine_lineSafe_any {cfg : Config} (m : MatcherI) (σ : Script) (hbin : cfg.binary = .none)
    (lbcfg : LineBuffer.Config) (hlt : lbcfg.lineterm = cfg.lineTerm.asByte) (hb : lbcfg.binary = .none)
    (hal : lbcfg.alloc = .eager) (rdr : Reader)
    (hsafe : ∀ a n, LineSafe cfg m (window rdr.data a n) (linesOf cfg m (window rdr.data a n)))
    (hz : NoZero rdr.script) :
    (readByLine cfg m σ lbcfg rdr).events.map Event.noCount = (sliceByLine cfg m σ rdr.data).events.map Event.noCount ∧
      (readByLine cfg m σ lbcfg rdr).result = (sliceByLine cfg m σ rdr.data).result :=
  readByLine_eq_sliceByLine_fast_any m σ hbin lbcfg hlt hb hal rdr (fun a n => findC_of_lineSafe (hsafe a n)) hz

end RgVerif.Searcher
