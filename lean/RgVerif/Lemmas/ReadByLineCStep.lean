import RgVerif.Lemmas.ReadByLineStep
import RgVerif.Lemmas.LineBufferProgress
/-
One `consume(c); fill()` of the roll buffer when `Core::roll` keeps context (`c` may be less than
the window): the next window of the input starts `c` bytes further, never ends earlier, and ends at
the same place only at the end of the input -- or, under a heap limit, the allocation fails.
-/
namespace RgVerif.Searcher
open RgVerif RgVerif.Lines

open RgVerif.LineBuffer in
theorem lb_stepC {lbcfg : LineBuffer.Config} {inp : Bytes} {lb : LB} {rdr : Reader} {a mm rest : Bytes}
    (hI : LineBuffer.Inv lbcfg inp lb rdr a mm rest) (hb : lbcfg.binary = .none)
    (hz : NoZero rdr.script) (c : Nat) (hc : c ≤ lb.buffer.length) :
    ∃ lb1, lb.consume c = some lb1 ∧
      (((lb1.fill rdr).2.2 = .allocErr ∧ lbcfg.alloc ≠ .eager) ∨
      ∃ more a' m' rest', (lb1.fill rdr).2.2 = .ok more ∧ more = (!(lb1.fill rdr).1.buffer.isEmpty) ∧
        LineBuffer.Inv lbcfg inp (lb1.fill rdr).1 (lb1.fill rdr).2.1 a' m' rest' ∧
        (lb1.fill rdr).1.abs = lb.abs + c ∧
        (lb1.fill rdr).1.binOff = none ∧ NoZero (lb1.fill rdr).2.1.script ∧
        (lb1.fill rdr).1.buffer = window inp (lb1.fill rdr).1.abs (lb1.fill rdr).1.buffer.length ∧
        (lb1.fill rdr).1.abs + (lb1.fill rdr).1.buffer.length ≤ inp.length ∧
        ((lb1.fill rdr).1.buffer.getLast? = some lbcfg.lineterm ∨
          (lb1.fill rdr).1.abs + (lb1.fill rdr).1.buffer.length = inp.length) ∧
        lb.buffer.length - c ≤ (lb1.fill rdr).1.buffer.length ∧
        ((lb1.fill rdr).1.buffer.length = lb.buffer.length - c →
          (lb1.fill rdr).1.abs + (lb1.fill rdr).1.buffer.length = inp.length)) := by
  have hcons : lb.consume c = some { lb with pos := lb.pos + c, abs := lb.abs + c } := by
    unfold LB.consume; simp [hc]
  refine ⟨_, hcons, ?_⟩
  generalize hlb1 : ({ lb with pos := lb.pos + c, abs := lb.abs + c } : LB) = lb1
  rw [hlb1] at hcons
  have hI1 := hI.consume _ lb1 hcons
  obtain ⟨m', rest', hI2, habs, hpost, hpos⟩ := fill_spec lbcfg inp lb1 rdr _ _ _ hI1
  have hcfg2 : (lb1.fill rdr).1.cfg = lbcfg := hI2.hcfg
  have hns1 : ¬ lb1.stopped := by
    unfold LB.stopped
    rw [hI1.hcfg, hb]
    simp [BinDet.isQuit]
  have hns2 : ¬ (lb1.fill rdr).1.stopped := by
    unfold LB.stopped
    rw [hcfg2, hb]
    simp [BinDet.isQuit]
  have hpos0 := hpos hns1
  have habs1 : lb1.abs = lb.abs + c := by rw [← hlb1]
  have hlast1 : lb1.last = lb.last := by rw [← hlb1]
  have hpos1 : lb1.pos = lb.pos + c := by rw [← hlb1]
  -- the result is Ok
  cases hres : (lb1.fill rdr).2.2 with
  | allocErr =>
    rw [hres] at hpost
    have : (lb1.fill rdr).1.cfg.alloc ≠ .eager := hpost
    rw [hcfg2] at this
    exact Or.inl ⟨rfl, this⟩
  | fuel => rw [hres] at hpost; exact absurd hpost (by simp [FillPost])
  | ok more =>
    rw [hres] at hpost
    obtain ⟨p1, p2, p3⟩ := hpost
    have hbin : (lb1.fill rdr).1.binOff = none := by
      have := hI2.hbin
      unfold BinOK at this
      rw [hcfg2, hb] at this
      exact this
    have hwin := hI2.window
    have hview : view lbcfg inp = inp := by simp [view, hb]
    rw [hview] at hwin
    have hblen := hI2.buffer_len
    have hmlen := hI2.mlen
    have hsplit := hI2.split
    have hle : (lb1.fill rdr).1.abs + (lb1.fill rdr).1.buffer.length ≤ inp.length := by
      have h1 := hI2.habs
      have h2 := hI2.hlast
      have hlen : inp.length = (a ++ List.take c mm).length + (m'.length + rest'.length) := by
        have := congrArg List.length hsplit
        simp only [List.length_append] at this ⊢
        omega
      simp only [List.length_append] at hlen h1
      omega
    -- reaching the end of the vector with the reader dry means the end of the input
    have hEnd : (lb1.fill rdr).1.last = (lb1.fill rdr).1.buf.length →
        ((lb1.fill rdr).1.stopped ∨ (NoZero rdr.script → (lb1.fill rdr).2.1.data = [])) →
        (lb1.fill rdr).1.abs + (lb1.fill rdr).1.buffer.length = inp.length := by
      intro e1 e2
      have hdata : (lb1.fill rdr).2.1.data = [] := by
        cases e2 with
        | inl hs => exact absurd hs hns2
        | inr hd => exact hd hz
      have hrest : rest' = [] := by
        cases hI2.hrdr with
        | inl hs => exact absurd hs hns2
        | inr hr => rw [← hr]; exact hdata
      have h1 := hI2.habs
      have hlen : inp.length = (a ++ List.take c mm).length + m'.length := by
        have := congrArg List.length hsplit
        rw [hrest] at this
        simp only [List.length_append, List.length_nil] at this ⊢
        omega
      simp only [List.length_append] at hlen h1
      omega
    have hprog := fill_progress_window lb1 rdr (by rw [hI1.hcfg]; exact hb) hI1.hlen hI1.hpos hI1.hlast more hres
    have hbl0 := hI.buffer_len
    have hbl1 := hI1.buffer_len
    refine Or.inr ⟨more, _, m', rest', rfl, p1, hI2, by rw [habs, habs1], hbin, fill_noZero lb1 rdr hz, hwin, hle, ?_, ?_, ?_⟩
    · cases p2 with
      | inr pB =>
        left
        have hbuf : (lb1.fill rdr).1.buffer = (lb1.fill rdr).1.buf.take (lb1.fill rdr).1.last := by
          unfold LB.buffer; rw [hpos0]; simp
        rw [hbuf, List.getLast?_take]
        have hl := hI2.hlast
        simp only [show ¬ ((lb1.fill rdr).1.last = 0) by omega, if_false]
        rw [pB.2]
        simp
      | inl pA => exact Or.inr (hEnd pA.1 pA.2)
    · have := hprog.1
      omega
    · intro heq
      have h3 := hprog.2 (by omega)
      exact hEnd h3.1 (Or.inr h3.2)

end RgVerif.Searcher
