import RgVerif.Lemmas.ReadByLineLines
/-
The slow path without context lines, in closed form, for EVERY sink script and with or without
`stop_on_nonmatch` (generalises `slowLoop_lines`).
-/
namespace RgVerif.Searcher
open RgVerif RgVerif.Matcher RgVerif.Lines RgVerif.GrepSpec

/-- no context lines, no binary detection (everything else is free) -/
structure NoCtx' (cfg : Config) : Prop where
  hA : cfg.afterContext = 0
  hB : cfg.beforeContext = 0
  hbin : cfg.binary = .none

/-- how a run over some lines ends -/
inductive Out where
  | done | stop | err
  deriving DecidableEq, Repr

def Out.res : Out → Res Bool
  | .done => .ok true
  | .stop => .ok false
  | .err => .err

/-- result of the closed form: callbacks made, how it ended, absolute offset behind the last line
looked at, line number as of that offset, `has_matched` -/
structure LR where
  evs : List Event
  out : Out
  endOff : Nat
  ln : Option Nat
  hm : Bool

/-- the callback a line gets (none when it is neither selected nor passed through) -/
def lineEv (cfg : Config) (m : MatcherI) (off : Nat) (ln : Option Nat) (l : Bytes) : Option Event :=
  if lineSel cfg m l then some (.matched ln off l)
  else if cfg.passthru then some (.context .other ln off l) else none

/-- The closed form: `k` is the index of the next callback in the sink's script. -/
def lineRun (cfg : Config) (m : MatcherI) (σ : Script) : Nat → Nat → Option Nat → Bool → List Bytes → LR
  | _, off, ln, hm, [] => ⟨[], .done, off, ln, hm⟩
  | k, off, ln, hm, l :: ls =>
    let sel := lineSel cfg m l
    let off' := off + l.length
    let ln' := ln.map (· + count l cfg.lineTerm.asByte)
    let hm' := hm || sel
    let sonStop := cfg.stopOnNonmatch && !sel && hm
    match lineEv cfg m off ln l with
    | none => if sonStop then ⟨[], .stop, off', ln', hm'⟩ else lineRun cfg m σ k off' ln' hm' ls
    | some ev =>
      match σ k with
      | .err => ⟨[ev], .err, off', ln', hm'⟩
      | .stop => ⟨[ev], .stop, off', ln', hm'⟩
      | .cont =>
        if sonStop then ⟨[ev], .stop, off', ln', hm'⟩
        else
          let r := lineRun cfg m σ (k + 1) off' ln' hm' ls
          { r with evs := ev :: r.evs }

/-- `emit` by the sink's answer -/
theorem emit_cases (σ : Script) (s1 : Core) (ev : Event) :
    (σ s1.events.length = .cont ∧ emit σ s1 ev = ({ s1 with events := s1.events ++ [ev] }, .ok true)) ∨
    (σ s1.events.length = .stop ∧ emit σ s1 ev = ({ s1 with events := s1.events ++ [ev] }, .ok false)) ∨
    (σ s1.events.length = .err ∧ emit σ s1 ev = ({ s1 with events := s1.events ++ [ev] }, .err)) := by
  unfold emit
  dsimp only
  cases h : σ s1.events.length with
  | cont => left; exact ⟨rfl, rfl⟩
  | stop => right; left; exact ⟨rfl, rfl⟩
  | err => right; right; exact ⟨rfl, rfl⟩

theorem sinkBreakContext_noCtx {cfg : Config} (h : NoCtx' cfg) (σ : Script) (st : Core) (o : Nat) :
    sinkBreakContext cfg σ st o = (st, .ok true) := by
  unfold sinkBreakContext
  simp [h.hA, h.hB]

/-- what the generalised closed form says about the state after a run of lines -/
structure AfterG (cfg : Config) (buf : Bytes) (o : Nat) (ls : List Bytes) (st st' : Core) (r : LR) : Prop where
  ev : st'.events = st.events ++ r.evs
  abs : st'.absoluteByteOffset = st.absoluteByteOffset
  acl : st'.afterContextLeft = 0
  bin : st'.binaryByteOffset = none
  bflag : st'.binary = st.binary
  endp : r.out ≠ .done → st.absoluteByteOffset + st'.pos = r.endOff
  llc : r.out = .done → st'.lastLineCounted ≤ o + ls.flatten.length
  ln : r.out = .done → lnAt cfg buf st' (o + ls.flatten.length) = r.ln
  hm : r.out = .done → st'.hasMatched = r.hm
  endd : r.out = .done → r.endOff = st.absoluteByteOffset + o + ls.flatten.length
  pos : r.out = .done → ls ≠ [] → st'.pos = o + ls.flatten.length
  same : ls = [] → st' = st

/-- the state after a line was delivered and the sink said "go on" -/
structure Delivered (cfg : Config) (buf : Bytes) (o e : Nat) (ev : Event) (s0 st1 : Core) : Prop where
  ev : st1.events = s0.events ++ [ev]
  abs : st1.absoluteByteOffset = s0.absoluteByteOffset
  bin : st1.binaryByteOffset = s0.binaryByteOffset
  bflag : st1.binary = s0.binary
  pos : st1.pos = s0.pos
  hm : st1.hasMatched = s0.hasMatched
  llc : st1.lastLineCounted ≤ o
  ln : ∀ p, o ≤ p → lnAt cfg buf st1 p = lnAt cfg buf s0 p

theorem delivered_mk (cfg : Config) (buf : Bytes) (s0 : Core) (o e : Nat) (ev : Event) (hllc : s0.lastLineCounted ≤ o)
    (llv acl : Nat) :
    Delivered cfg buf o e ev s0
      { ({ (countLines cfg buf s0 o) with events := (countLines cfg buf s0 o).events ++ [ev] } : Core) with
        lastLineVisited := llv, afterContextLeft := acl, hasSunk := true } ∧
    Delivered cfg buf o e ev s0
      ({ (countLines cfg buf s0 o) with events := (countLines cfg buf s0 o).events ++ [ev] } : Core) := by
  have hc := countLines_other cfg buf s0 o
  have hcc := countLines_llc_le cfg buf s0 o hllc
  have hln : ∀ p, o ≤ p → lnAt cfg buf (countLines cfg buf s0 o) p = lnAt cfg buf s0 p :=
    fun p hp => lnAt_countLines cfg buf s0 o p hllc hp
  have hhm : (countLines cfg buf s0 o).hasMatched = s0.hasMatched := by
    unfold countLines; split; rfl; split <;> rfl
  constructor
  · exact ⟨by simp [hc.1], hc.2.1, hc.2.2.2.1, hc.2.2.2.2.1, hc.2.2.2.2.2, hhm, hcc, hln⟩
  · exact ⟨by simp [hc.1], hc.2.1, hc.2.2.2.1, hc.2.2.2.2.1, hc.2.2.2.2.2, hhm, hcc, hln⟩

theorem afterG_terminal {cfg : Config} {buf : Bytes} {o : Nat} {l : Bytes} {ls : List Bytes} {st st' : Core}
    (evs : List Event) (out : Out) (hout : out ≠ .done) (ln : Option Nat) (hm : Bool)
    (e1 : st'.events = st.events ++ evs) (e2 : st'.absoluteByteOffset = st.absoluteByteOffset)
    (e3 : st'.afterContextLeft = 0) (e4 : st'.binaryByteOffset = none) (e5 : st'.binary = st.binary)
    (e6 : st'.pos = o + l.length) :
    AfterG cfg buf o (l :: ls) st st' ⟨evs, out, st.absoluteByteOffset + o + l.length, ln, hm⟩ :=
  ⟨e1, e2, e3, e4, e5, fun _ => by rw [e6]; simp [Nat.add_assoc], fun h => absurd h hout, fun h => absurd h hout,
    fun h => absurd h hout, fun h => absurd h hout, fun h => absurd h hout, fun h => by simp at h⟩

theorem afterG_cons {cfg : Config} {buf : Bytes} {o : Nat} {l : Bytes} {ls : List Bytes} {st st1 st' : Core}
    {r' : LR} (evs1 : List Event)
    (e1 : st1.events = st.events ++ evs1) (e2 : st1.absoluteByteOffset = st.absoluteByteOffset)
    (e5 : st1.binary = st.binary) (e6 : st1.pos = o + l.length)
    (hA : AfterG cfg buf (o + l.length) ls st1 st' r') :
    AfterG cfg buf o (l :: ls) st st' { r' with evs := evs1 ++ r'.evs } := by
  refine ⟨by rw [hA.ev, e1, List.append_assoc], by rw [hA.abs, e2], hA.acl, hA.bin, by rw [hA.bflag, e5], ?_, ?_, ?_,
    ?_, ?_, ?_, fun h => by simp at h⟩
  · intro hd; have := hA.endp hd; rw [e2] at this; exact this
  · intro hd; have := hA.llc hd; simp only [List.flatten_cons, List.length_append]; omega
  · intro hd; have := hA.ln hd; simp only [List.flatten_cons, List.length_append]; rw [← Nat.add_assoc]; exact this
  · intro hd; exact hA.hm hd
  · intro hd; have := hA.endd hd; rw [e2] at this
    simp only [List.flatten_cons, List.length_append]; rw [this]; omega
  · intro hd _
    simp only [List.flatten_cons, List.length_append]
    cases hls : ls with
    | nil =>
      have := hA.same hls
      rw [this, e6]; simp
    | cons x xs =>
      have := hA.pos hd (by simp [hls])
      rw [hls] at this
      rw [this]; simp [Nat.add_assoc]

theorem slice_line {buf pre l : Bytes} {rest : List Bytes}
    (htake : buf.take (pre.length + (l :: rest).flatten.length) = pre ++ (l :: rest).flatten) :
    slice buf pre.length (pre.length + l.length) = l := by
  unfold slice
  have : buf.take (pre.length + l.length) = pre ++ l := by
    have := congrArg (List.take (pre.length + l.length)) htake
    rw [List.take_take] at this
    simp only [List.flatten_cons, List.length_append] at this
    rw [show min (pre.length + l.length) (pre.length + (l.length + rest.flatten.length)) = pre.length + l.length by omega] at this
    rw [this, ← List.append_assoc, List.take_append_of_le_length (by simp)]
    apply List.take_of_length_le
    simp
  rw [this]
  simp

/-- **Closed form of `match_by_line_slow`'s loop without context, for every sink script and with
`stop_on_nonmatch`.** -/
theorem slowLoop_linesG {cfg : Config} (m : MatcherI) (σ : Script) (buf : Bytes) (h : NoCtx' cfg) :
    ∀ (ls : List Bytes) (pre : Bytes) (st : Core),
      buf.take (pre.length + ls.flatten.length) = pre ++ ls.flatten →
      st.lastLineCounted ≤ pre.length → st.afterContextLeft = 0 → st.binaryByteOffset = none →
      ∃ st', slowLoop cfg m σ buf (spansFrom pre.length ls) st =
          (st', (lineRun cfg m σ st.events.length (st.absoluteByteOffset + pre.length)
                  (lnAt cfg buf st pre.length) st.hasMatched ls).out.res) ∧
        AfterG cfg buf pre.length ls st st'
          (lineRun cfg m σ st.events.length (st.absoluteByteOffset + pre.length)
            (lnAt cfg buf st pre.length) st.hasMatched ls) := by
  intro ls
  induction ls with
  | nil =>
    intro pre st _ hllc hacl hbo
    refine ⟨st, by simp [spansFrom, slowLoop, lineRun, Out.res], ?_⟩
    simp only [lineRun]
    exact ⟨by simp, rfl, hacl, hbo, rfl, fun hc => absurd rfl hc, fun _ => by simpa using hllc, fun _ => by simp,
      fun _ => rfl, fun _ => by simp, fun _ hc => absurd rfl hc, fun _ => rfl⟩
  | cons l ls ih =>
    intro pre st htake hllc hacl hbo
    have hl := slice_line htake
    have htake' : buf.take ((pre ++ l).length + ls.flatten.length) = (pre ++ l) ++ ls.flatten := by
      simpa [Nat.add_assoc] using htake
    simp only [spansFrom, slowLoop, hl]
    have hsel : ((m.shortestMatch (withoutTerminator l cfg.lineTerm)).isSome != cfg.invertMatch) = lineSel cfg m l := rfl
    rw [hsel]
    have hge : ¬ (st.afterContextLeft ≥ 1) := by rw [hacl]; omega
    cases hs : lineSel cfg m l with
    | true =>
      rw [if_pos rfl]
      generalize hs0 : ({ st with pos := pre.length + l.length, hasMatched := true } : Core) = s0
      have q1 : s0.lastLineCounted = st.lastLineCounted := by rw [← hs0]
      have q2 : s0.binaryByteOffset = none := by rw [← hs0]; exact hbo
      have q3 : ∀ p, lnAt cfg buf s0 p = lnAt cfg buf st p := by intro p; rw [← hs0]; rfl
      have q4 : s0.absoluteByteOffset = st.absoluteByteOffset := by rw [← hs0]
      have q5 : s0.events = st.events := by rw [← hs0]
      have q6 : s0.binary = st.binary := by rw [← hs0]
      have q7 : s0.pos = pre.length + l.length := by rw [← hs0]
      have q8 : s0.hasMatched = true := by rw [← hs0]
      have hbc : beforeContextByLine cfg σ buf s0 pre.length = (s0, .ok true) := by
        simp [beforeContextByLine, h.hB]
      rw [hbc]
      simp only
      unfold sinkMatched
      rw [binaryGuard_none h.hbin q2]
      simp only [sinkBreakContext_noCtx h, hl]
      have hd := delivered_mk cfg buf s0 pre.length (pre.length + l.length)
        (.matched (countLines cfg buf s0 pre.length).lineNumber
          ((countLines cfg buf s0 pre.length).absoluteByteOffset + pre.length) l)
        (by rw [q1]; exact hllc) (pre.length + l.length) cfg.afterContext
      have hco := countLines_other cfg buf s0 pre.length
      have hcl := countLines_ln cfg buf s0 pre.length
      have hev : Event.matched (countLines cfg buf s0 pre.length).lineNumber
          ((countLines cfg buf s0 pre.length).absoluteByteOffset + pre.length) l
          = Event.matched (lnAt cfg buf st pre.length) (st.absoluteByteOffset + pre.length) l := by
        rw [hcl, hco.2.1, q3, q4]
      have hlev : lineEv cfg m (st.absoluteByteOffset + pre.length) (lnAt cfg buf st pre.length) l
          = some (.matched (lnAt cfg buf st pre.length) (st.absoluteByteOffset + pre.length) l) := by
        simp [lineEv, hs]
      have hk : (countLines cfg buf s0 pre.length).events.length = st.events.length := by rw [hco.1, q5]
      rcases emit_cases σ (countLines cfg buf s0 pre.length)
          (.matched (countLines cfg buf s0 pre.length).lineNumber
            ((countLines cfg buf s0 pre.length).absoluteByteOffset + pre.length) l)
        with ⟨hσ, heq⟩ | ⟨hσ, heq⟩ | ⟨hσ, heq⟩
      · -- the sink says: go on
        rw [heq]
        simp only [Bool.not_true, Bool.and_false, Bool.false_and, Bool.false_eq_true, if_false]
        rw [hk] at hσ
        obtain ⟨d1, _⟩ := hd
        generalize hst1 : ({ ({ (countLines cfg buf s0 pre.length) with events := (countLines cfg buf s0 pre.length).events ++ [Event.matched (countLines cfg buf s0 pre.length).lineNumber ((countLines cfg buf s0 pre.length).absoluteByteOffset + pre.length) l] } : Core) with lastLineVisited := pre.length + l.length, afterContextLeft := cfg.afterContext, hasSunk := true } : Core) = st1 at d1 ⊢
        have hlen1 : st1.events.length = st.events.length + 1 := by rw [d1.ev, q5]; simp
        have hln1 : lnAt cfg buf st1 (pre.length + l.length)
            = (lnAt cfg buf st pre.length).map (· + count l cfg.lineTerm.asByte) := by
          rw [d1.ln _ (by omega), q3]
          exact lnAt_step cfg buf st pre.length l.length l hllc hl
        obtain ⟨st', hrun, hA⟩ := ih (pre ++ l) st1 htake'
          (by simp only [List.length_append]; have := d1.llc; omega)
          (by rw [← hst1]; exact h.hA) (by rw [d1.bin, q2])
        simp only [List.length_append] at hrun hA
        rw [hlen1, d1.abs, q4, ← Nat.add_assoc, hln1, d1.hm, q8] at hrun hA
        refine ⟨st', ?_, ?_⟩
        · rw [hrun]
          simp only [lineRun, hlev, hσ, hs, Bool.not_true, Bool.and_false, Bool.false_and, Bool.false_eq_true,
            if_false, Bool.or_true]
        · have := afterG_cons (st := st) [Event.matched (lnAt cfg buf st pre.length) (st.absoluteByteOffset + pre.length) l]
            (by rw [d1.ev, q5, hev]) (by rw [d1.abs, q4]) (by rw [d1.bflag, q6]) (by rw [d1.pos, q7]) hA
          simpa only [lineRun, hlev, hσ, hs, Bool.not_true, Bool.and_false, Bool.false_and, Bool.false_eq_true,
            if_false, Bool.or_true, List.singleton_append] using this
      · -- the sink says: stop
        rw [heq]
        rw [hk] at hσ
        obtain ⟨_, d2⟩ := hd
        dsimp only
        simp only [lineRun, hlev, hσ, Out.res]
        refine ⟨_, rfl, ?_⟩
        exact afterG_terminal _ .stop (by decide) _ _ (by rw [d2.ev, q5, hev]) (by rw [d2.abs, q4])
          (by show (countLines cfg buf s0 pre.length).afterContextLeft = 0; rw [hco.2.2.1, ← hs0]; exact hacl)
          (by rw [d2.bin, q2]) (by rw [d2.bflag, q6]) (by rw [d2.pos, q7])
      · rw [heq]
        rw [hk] at hσ
        obtain ⟨_, d2⟩ := hd
        dsimp only
        simp only [lineRun, hlev, hσ, Out.res]
        refine ⟨_, rfl, ?_⟩
        exact afterG_terminal _ .err (by decide) _ _ (by rw [d2.ev, q5, hev]) (by rw [d2.abs, q4])
          (by show (countLines cfg buf s0 pre.length).afterContextLeft = 0; rw [hco.2.2.1, ← hs0]; exact hacl)
          (by rw [d2.bin, q2]) (by rw [d2.bflag, q6]) (by rw [d2.pos, q7])
    | false =>
      rw [if_neg (by decide)]
      generalize hs0 : ({ st with pos := pre.length + l.length } : Core) = s0
      have q0 : s0.afterContextLeft = 0 := by rw [← hs0]; exact hacl
      have q1 : s0.lastLineCounted = st.lastLineCounted := by rw [← hs0]
      have q2 : s0.binaryByteOffset = none := by rw [← hs0]; exact hbo
      have q3 : ∀ p, lnAt cfg buf s0 p = lnAt cfg buf st p := by intro p; rw [← hs0]; rfl
      have q4 : s0.absoluteByteOffset = st.absoluteByteOffset := by rw [← hs0]
      have q5 : s0.events = st.events := by rw [← hs0]
      have q6 : s0.binary = st.binary := by rw [← hs0]
      have q7 : s0.pos = pre.length + l.length := by rw [← hs0]
      have q8 : s0.hasMatched = st.hasMatched := by rw [← hs0]
      simp only [hge, if_false]
      have hstep : lnAt cfg buf st (pre.length + l.length)
          = (lnAt cfg buf st pre.length).map (· + count l cfg.lineTerm.asByte) :=
        lnAt_step cfg buf st pre.length l.length l hllc hl
      cases hpt : cfg.passthru with
      | true =>
        rw [if_pos rfl]
        unfold sinkOtherContext
        rw [binaryGuard_none h.hbin q2]
        simp only [hl]
        have hd := delivered_mk cfg buf s0 pre.length (pre.length + l.length)
          (.context .other (countLines cfg buf s0 pre.length).lineNumber
            ((countLines cfg buf s0 pre.length).absoluteByteOffset + pre.length) l)
          (by rw [q1]; exact hllc) (pre.length + l.length) 0
        have hco := countLines_other cfg buf s0 pre.length
        have hcl := countLines_ln cfg buf s0 pre.length
        have hev : Event.context .other (countLines cfg buf s0 pre.length).lineNumber
            ((countLines cfg buf s0 pre.length).absoluteByteOffset + pre.length) l
            = Event.context .other (lnAt cfg buf st pre.length) (st.absoluteByteOffset + pre.length) l := by
          rw [hcl, hco.2.1, q3, q4]
        have hlev : lineEv cfg m (st.absoluteByteOffset + pre.length) (lnAt cfg buf st pre.length) l
            = some (.context .other (lnAt cfg buf st pre.length) (st.absoluteByteOffset + pre.length) l) := by
          simp [lineEv, hs, hpt]
        have hk : (countLines cfg buf s0 pre.length).events.length = st.events.length := by rw [hco.1, q5]
        have hacl1 : (countLines cfg buf s0 pre.length).afterContextLeft = 0 := by rw [hco.2.2.1, q0]
        rcases emit_cases σ (countLines cfg buf s0 pre.length)
            (.context .other (countLines cfg buf s0 pre.length).lineNumber
              ((countLines cfg buf s0 pre.length).absoluteByteOffset + pre.length) l)
          with ⟨hσ, heq⟩ | ⟨hσ, heq⟩ | ⟨hσ, heq⟩
        · rw [heq]
          dsimp only
          rw [hk] at hσ
          -- the delivered state (its `afterContextLeft` is the old one, 0)
          have hd' := delivered_mk cfg buf s0 pre.length (pre.length + l.length)
            (.context .other (countLines cfg buf s0 pre.length).lineNumber
              ((countLines cfg buf s0 pre.length).absoluteByteOffset + pre.length) l)
            (by rw [q1]; exact hllc) (pre.length + l.length) (countLines cfg buf s0 pre.length).afterContextLeft
          obtain ⟨d1, _⟩ := hd'
          have hhm0 : (countLines cfg buf s0 pre.length).hasMatched = st.hasMatched := by
            have := d1.hm; rw [q8] at this; exact this
          by_cases hson : (cfg.stopOnNonmatch && !false && st.hasMatched) = true
          · -- stop_on_nonmatch fires on this line
            rw [if_pos (by rw [hhm0]; exact hson)]
            simp only [lineRun, hlev, hσ, hs, hson, if_true, Out.res]
            refine ⟨_, rfl, ?_⟩
            exact afterG_terminal _ .stop (by decide) _ _ (by rw [d1.ev, q5, hev]) (by rw [d1.abs, q4]) hacl1
              (by rw [d1.bin, q2]) (by rw [d1.bflag, q6]) (by rw [d1.pos, q7])
          · rw [if_neg (by rw [hhm0]; exact hson)]
            generalize hst1 : ({ ({ (countLines cfg buf s0 pre.length) with events := (countLines cfg buf s0 pre.length).events ++ [Event.context .other (countLines cfg buf s0 pre.length).lineNumber ((countLines cfg buf s0 pre.length).absoluteByteOffset + pre.length) l] } : Core) with lastLineVisited := pre.length + l.length, afterContextLeft := (countLines cfg buf s0 pre.length).afterContextLeft, hasSunk := true } : Core) = st1 at d1 ⊢
            have hacl' : st1.afterContextLeft = 0 := by rw [← hst1]; exact hacl1
            have hlen1 : st1.events.length = st.events.length + 1 := by rw [d1.ev, q5]; simp
            have hln1 : lnAt cfg buf st1 (pre.length + l.length)
                = (lnAt cfg buf st pre.length).map (· + count l cfg.lineTerm.asByte) := by
              rw [d1.ln _ (by omega), q3]; exact hstep
            have hhm1 : st1.hasMatched = st.hasMatched := by rw [d1.hm, q8]
            obtain ⟨st', hrun, hA⟩ := ih (pre ++ l) st1 htake'
              (by simp only [List.length_append]; have := d1.llc; omega) hacl' (by rw [d1.bin, q2])
            simp only [List.length_append] at hrun hA
            rw [hlen1, d1.abs, q4, ← Nat.add_assoc, hln1, hhm1] at hrun hA
            have e : lineRun cfg m σ st.events.length (st.absoluteByteOffset + pre.length)
                (lnAt cfg buf st pre.length) st.hasMatched (l :: ls)
                = { (lineRun cfg m σ (st.events.length + 1) (st.absoluteByteOffset + pre.length + l.length)
                      ((lnAt cfg buf st pre.length).map (· + count l cfg.lineTerm.asByte)) st.hasMatched ls) with
                    evs := Event.context .other (lnAt cfg buf st pre.length) (st.absoluteByteOffset + pre.length) l ::
                      (lineRun cfg m σ (st.events.length + 1) (st.absoluteByteOffset + pre.length + l.length)
                        ((lnAt cfg buf st pre.length).map (· + count l cfg.lineTerm.asByte)) st.hasMatched ls).evs } := by
              simp only [lineRun, hlev, hσ, hs, hson, Bool.false_eq_true, if_false, Bool.or_false]
            rw [e]
            exact ⟨st', hrun, afterG_cons (st := st)
                [Event.context .other (lnAt cfg buf st pre.length) (st.absoluteByteOffset + pre.length) l]
                (by rw [d1.ev, q5, hev]) (by rw [d1.abs, q4]) (by rw [d1.bflag, q6]) (by rw [d1.pos, q7]) hA⟩
        · rw [heq]
          dsimp only
          rw [hk] at hσ
          obtain ⟨_, d2⟩ := hd
          simp only [lineRun, hlev, hσ, Out.res]
          refine ⟨_, rfl, ?_⟩
          exact afterG_terminal _ .stop (by decide) _ _ (by rw [d2.ev, q5, hev]) (by rw [d2.abs, q4]) hacl1
            (by rw [d2.bin, q2]) (by rw [d2.bflag, q6]) (by rw [d2.pos, q7])
        · rw [heq]
          dsimp only
          rw [hk] at hσ
          obtain ⟨_, d2⟩ := hd
          simp only [lineRun, hlev, hσ, Out.res]
          refine ⟨_, rfl, ?_⟩
          exact afterG_terminal _ .err (by decide) _ _ (by rw [d2.ev, q5, hev]) (by rw [d2.abs, q4]) hacl1
            (by rw [d2.bin, q2]) (by rw [d2.bflag, q6]) (by rw [d2.pos, q7])
      | false =>
        rw [if_neg (by decide)]
        dsimp only
        have hlev : lineEv cfg m (st.absoluteByteOffset + pre.length) (lnAt cfg buf st pre.length) l = none := by
          simp [lineEv, hs, hpt]
        have hor : (st.hasMatched || false) = st.hasMatched := by simp
        by_cases hson : (cfg.stopOnNonmatch && !false && st.hasMatched) = true
        · have hson1 : (cfg.stopOnNonmatch && !false && s0.hasMatched) = true := by rw [q8]; exact hson
          rw [if_pos hson1]
          simp only [lineRun, hlev, hs, hson, if_true, Out.res]
          refine ⟨_, rfl, ?_⟩
          exact afterG_terminal _ .stop (by decide) _ _ (by rw [q5]; simp) q4 q0 q2 q6 q7
        · have hson1 : ¬ (cfg.stopOnNonmatch && !false && s0.hasMatched) = true := by rw [q8]; exact hson
          rw [if_neg hson1]
          obtain ⟨st', hrun, hA⟩ := ih (pre ++ l) s0 htake'
            (by simp only [List.length_append]; rw [q1]; omega) q0 q2
          simp only [List.length_append] at hrun hA
          rw [q5, q4, ← Nat.add_assoc, q3, hstep, q8] at hrun hA
          have e : lineRun cfg m σ st.events.length (st.absoluteByteOffset + pre.length)
              (lnAt cfg buf st pre.length) st.hasMatched (l :: ls)
              = lineRun cfg m σ st.events.length (st.absoluteByteOffset + pre.length + l.length)
                  ((lnAt cfg buf st pre.length).map (· + count l cfg.lineTerm.asByte)) st.hasMatched ls := by
            simp only [lineRun, hlev, hs, hson, Bool.false_eq_true, if_false, Bool.or_false]
          rw [e]
          exact ⟨st', hrun, afterG_cons (st := st) [] (by rw [q5]; simp) q4 q6 q7 hA⟩

end RgVerif.Searcher
