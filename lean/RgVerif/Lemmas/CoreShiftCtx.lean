import RgVerif.Lemmas.CoreShift
import RgVerif.Lemmas.CoreFar
namespace RgVerif.Searcher
open RgVerif RgVerif.Matcher RgVerif.Lines RgVerif.GrepSpec

theorem lines_rfindByte_lt {t : Nat} {xs : Bytes} {i : Nat} (h : Lines.rfindByte t xs = some i) : i < xs.length := by
  induction xs generalizing i with
  | nil => simp [Lines.rfindByte] at h
  | cons x xs ih =>
    unfold Lines.rfindByte at h
    cases h2 : Lines.rfindByte t xs with
    | some j =>
      simp only [h2, Option.some.injEq] at h
      have := ih h2
      simp
      omega
    | none =>
      simp only [h2] at h
      split at h
      · simp only [Option.some.injEq] at h; subst h; simp
      · simp at h

theorem precedingLoop_le (bytes : Bytes) (t : Nat) : ∀ (c pos : Nat), pos ≤ bytes.length →
    precedingLoop bytes t c pos ≤ pos := by
  intro c
  induction c with
  | zero =>
    intro pos hp
    rw [precedingLoop]
    cases h : Lines.rfindByte t (bytes.take pos) with
    | none => simp
    | some i =>
      have := lines_rfindByte_lt h
      simp at this
      simp
      omega
  | succ c ih =>
    intro pos hp
    rw [precedingLoop]
    cases h : Lines.rfindByte t (bytes.take pos) with
    | none => simp
    | some i =>
      have hi := lines_rfindByte_lt h
      simp at hi
      simp only
      split
      · omega
      · have := ih i (by omega)
        omega

theorem preceding_le (bytes : Bytes) (t c : Nat) : preceding bytes t c ≤ bytes.length := by
  unfold preceding precedingByPos
  split
  · omega
  · dsimp only
    split
    · have := precedingLoop_le bytes t c (bytes.length - 1) (by omega); omega
    · exact precedingLoop_le bytes t c bytes.length (Nat.le_refl _)

/-- when a `sink_*_context` call says "go on", the line it delivered is the last one visited -/
theorem sinkBeforeContext_llv_ok (cfg : Config) (σ : Script) (buf : Bytes) (st : Core) (r : Span)
    (h : (sinkBeforeContext cfg σ buf st r).2 = .ok true) :
    (sinkBeforeContext cfg σ buf st r).1.lastLineVisited = r.e := by
  unfold sinkBeforeContext at h ⊢
  generalize binaryGuard cfg σ buf r st = g at h ⊢
  obtain ⟨s1, r1⟩ := g
  cases r1 with
  | err => simp at h
  | ok b =>
    cases b with
    | true => simp at h
    | false =>
      dsimp only at h ⊢
      rw [emit_def] at h ⊢
      cases hσ : σ (countLines cfg buf s1 r.s).events.length <;> simp [hσ, respOf] at h ⊢

theorem sinkAfterContext_llv_ok (cfg : Config) (σ : Script) (buf : Bytes) (st : Core) (r : Span)
    (h : (sinkAfterContext cfg σ buf st r).2 = .ok true) :
    (sinkAfterContext cfg σ buf st r).1.lastLineVisited = r.e := by
  unfold sinkAfterContext at h ⊢
  generalize binaryGuard cfg σ buf r st = g at h ⊢
  obtain ⟨s1, r1⟩ := g
  cases r1 with
  | err => simp at h
  | ok b =>
    cases b with
    | true => simp at h
    | false =>
      dsimp only at h ⊢
      rw [emit_def] at h ⊢
      cases hσ : σ (countLines cfg buf s1 r.s).events.length <;> simp [hσ, respOf] at h ⊢

theorem sinkOtherContext_llv_ok (cfg : Config) (σ : Script) (buf : Bytes) (st : Core) (r : Span)
    (h : (sinkOtherContext cfg σ buf st r).2 = .ok true) :
    (sinkOtherContext cfg σ buf st r).1.lastLineVisited = r.e := by
  unfold sinkOtherContext at h ⊢
  generalize binaryGuard cfg σ buf r st = g at h ⊢
  obtain ⟨s1, r1⟩ := g
  cases r1 with
  | err => simp at h
  | ok b =>
    cases b with
    | true => simp at h
    | false =>
      dsimp only at h ⊢
      rw [emit_def] at h ⊢
      cases hσ : σ (countLines cfg buf s1 r.s).events.length <;> simp [hσ, respOf] at h ⊢

theorem sinkMatched_llv_ok (cfg : Config) (σ : Script) (buf : Bytes) (st : Core) (r : Span)
    (h : (sinkMatched cfg σ buf st r).2 = .ok true) :
    (sinkMatched cfg σ buf st r).1.lastLineVisited = r.e ∧
    (sinkMatched cfg σ buf st r).1.afterContextLeft = cfg.afterContext := by
  unfold sinkMatched at h ⊢
  generalize binaryGuard cfg σ buf r st = g at h ⊢
  obtain ⟨s1, r1⟩ := g
  cases r1 with
  | err => simp at h
  | ok b =>
    cases b with
    | true => simp at h
    | false =>
      dsimp only at h ⊢
      generalize sinkBreakContext cfg σ s1 r.s = g2 at h ⊢
      obtain ⟨s2, r2⟩ := g2
      cases r2 with
      | err => simp at h
      | ok b2 =>
        cases b2 with
        | false => simp at h
        | true =>
          dsimp only at h ⊢
          rw [emit_def] at h ⊢
          cases hσ : σ (countLines cfg buf s2 r.s).events.length <;> simp [hσ, respOf] at h ⊢

theorem spansFrom_shift (o d : Nat) (ls : List Bytes) :
    spansFrom (o + d) ls = (spansFrom o ls).map (fun sp => ⟨sp.s + d, sp.e + d⟩) := by
  induction ls generalizing o with
  | nil => rfl
  | cons l ls ih =>
    simp only [spansFrom, List.map_cons]
    rw [show o + d + l.length = (o + l.length) + d by omega, ih]

theorem spansFrom_append (o : Nat) (a b : List Bytes) :
    spansFrom o (a ++ b) = spansFrom o a ++ spansFrom (o + a.flatten.length) b := by
  induction a generalizing o with
  | nil => simp [spansFrom]
  | cons x xs ih =>
    simp only [List.cons_append, spansFrom, List.flatten_cons, List.length_append]
    rw [ih, Nat.add_assoc]

/-- the loop of `before_context_by_line` on both sides, over the lines `ls` starting at `o`; the gap
test of the first line is the caller's business, afterwards the two sides are tight -/
theorem beforeLoop_sim {cfg : Config} {B pre w post : Bytes} (W : WinOf B pre w post) (hbin : cfg.binary = .none)
    (σ : Script) (ls : List Bytes) :
    ∀ (o : Nat) (s1 s2 : Core), ESim cfg B w pre.length s1 s2 → s2.lastLineVisited ≤ o →
      o + ls.flatten.length ≤ w.length →
      (ls ≠ [] → decide (s1.lastLineVisited < o + pre.length) = decide (s2.lastLineVisited < o)) →
      StepSim cfg B w pre.length (beforeLoop cfg σ B (spansFrom (o + pre.length) ls) s1)
        (beforeLoop cfg σ w (spansFrom o ls) s2) ∧
      ((beforeLoop cfg σ w (spansFrom o ls) s2).2 = .ok true →
        (beforeLoop cfg σ w (spansFrom o ls) s2).1.lastLineVisited ≤ o + ls.flatten.length ∧
        (ls ≠ [] → (beforeLoop cfg σ B (spansFrom (o + pre.length) ls) s1).1.lastLineVisited
          = (beforeLoop cfg σ w (spansFrom o ls) s2).1.lastLineVisited + pre.length)) := by
  induction ls with
  | nil =>
    intro o s1 s2 E ho _ _
    simp only [spansFrom, beforeLoop]
    exact ⟨⟨rfl, fun _ => E, E.toEnd⟩, fun _ => ⟨by simpa using ho, fun h => absurd rfl h⟩⟩
  | cons l ls ih =>
    intro o s1 s2 E ho hw hgap0
    simp only [spansFrom, beforeLoop]
    simp only [List.flatten_cons, List.length_append] at hw ⊢
    have hb := sinkBreakContext_sim σ E o (Or.inr (hgap0 (by simp)))
    have hl2 := sinkBreakContext_llv cfg σ s2 o
    generalize sinkBreakContext cfg σ s1 (o + pre.length) = g1 at hb ⊢
    generalize sinkBreakContext cfg σ s2 o = g2 at hb hl2 ⊢
    obtain ⟨t1, r1⟩ := g1
    obtain ⟨t2, r2⟩ := g2
    have hres : r1 = r2 := hb.res
    subst hres
    cases r1 with
    | err => exact ⟨⟨rfl, (fun h => by simp at h), hb.fin⟩, fun h => by simp at h⟩
    | ok bb =>
      cases bb with
      | false => exact ⟨⟨rfl, (fun h => by simp at h), hb.fin⟩, fun h => by simp at h⟩
      | true =>
        dsimp only
        have E2 : ESim cfg B w pre.length t1 t2 := hb.cont rfl
        have hllv : t2.lastLineVisited ≤ o := by
          have : t2.lastLineVisited = s2.lastLineVisited := hl2
          omega
        have hs := sinkBeforeContext_sim W hbin σ E2 o (o + l.length) hllv (by omega) (by omega)
        have hlv := sinkBeforeContext_llv_ok cfg σ w t2 ⟨o, o + l.length⟩
        have hlv1 := sinkBeforeContext_llv_ok cfg σ B t1 ⟨o + pre.length, o + l.length + pre.length⟩
        rw [show o + pre.length + l.length = o + l.length + pre.length by omega]
        generalize sinkBeforeContext cfg σ B t1 ⟨o + pre.length, o + l.length + pre.length⟩ = g3 at hs hlv1 ⊢
        generalize sinkBeforeContext cfg σ w t2 ⟨o, o + l.length⟩ = g4 at hs hlv ⊢
        obtain ⟨u1, q1⟩ := g3
        obtain ⟨u2, q2⟩ := g4
        have hres2 : q1 = q2 := hs.res
        subst hres2
        cases q1 with
        | err => exact ⟨⟨rfl, (fun h => by simp at h), hs.fin⟩, fun h => by simp at h⟩
        | ok b2 =>
          cases b2 with
          | false => exact ⟨⟨rfl, (fun h => by simp at h), hs.fin⟩, fun h => by simp at h⟩
          | true =>
            dsimp only
            have E3 : ESim cfg B w pre.length u1 u2 := hs.cont rfl
            have hl3 : u2.lastLineVisited = o + l.length := hlv rfl
            have hl4 : u1.lastLineVisited = o + l.length + pre.length := hlv1 rfl
            have := ih (o + l.length) u1 u2 E3 (by omega) (by omega)
              (fun _ => by rw [hl3, hl4]; simp)
            refine ⟨this.1, fun hh => ?_⟩
            have h2 := this.2 hh
            refine ⟨by omega, fun _ => ?_⟩
            by_cases hne : ls = []
            · subst hne
              simp only [spansFrom, beforeLoop]
              rw [hl3, hl4]
            · exact h2.2 hne

/-- the lines of a region `[a, b)` of a buffer, as the stepper yields them -/
theorem stepLines_region (t : Nat) (buf : Bytes) (a b : Nat) (hab : a ≤ b) (hb : b ≤ buf.length) :
    stepLines t buf a b = spansFrom a (splitLines t (slice buf a b)) := by
  have hfl := splitLines_flatten t (slice buf a b)
  have hlen : (slice buf a b).length = b - a := by
    unfold Lines.slice; simp; omega
  have := stepLines_good (t := t) (buf := buf) (buf.take a) (splitLines t (slice buf a b)) (splitLines_good _ _) b
    (by
      rw [hfl]
      unfold Lines.slice
      have : buf.take a = (buf.take b).take a := by rw [List.take_take]; congr 1; omega
      rw [this, List.take_append_drop])
    (by rw [hfl, hlen]; simp; omega)
  have hl : (buf.take a).length = a := by simp; omega
  rw [hl] at this
  exact this

theorem beforeContextByLine_sim {cfg : Config} {B pre w post : Bytes} (W : WinOf B pre w post) (hbin : cfg.binary = .none)
    (σ : Script) {s1 s2 : Core} (E : ESim cfg B w pre.length s1 s2) (upto : Nat)
    (hu : s2.lastLineVisited ≤ upto) (huw : upto ≤ w.length)
    (X : s1.lastLineVisited = s2.lastLineVisited + pre.length ∨
      (∃ Z, Far cfg w s2.lastLineVisited upto Z ∧ Far cfg B s1.lastLineVisited (upto + pre.length) Z) ∨
      cfg.maxContext = 0) :
    StepSim cfg B w pre.length (beforeContextByLine cfg σ B s1 (upto + pre.length))
        (beforeContextByLine cfg σ w s2 upto) ∧
      ((beforeContextByLine cfg σ w s2 upto).2 = .ok true →
        (beforeContextByLine cfg σ w s2 upto).1.lastLineVisited ≤ upto ∧
        ((beforeContextByLine cfg σ B s1 (upto + pre.length)).1.lastLineVisited
            = (beforeContextByLine cfg σ w s2 upto).1.lastLineVisited + pre.length ∨
          ((beforeContextByLine cfg σ B s1 (upto + pre.length)).1 = s1 ∧
            (beforeContextByLine cfg σ w s2 upto).1 = s2))) := by
  have hBlen : B.length = pre.length + (w.length + post.length) := by rw [W.eq]; simp
  unfold beforeContextByLine
  split
  · exact ⟨⟨rfl, fun _ => E, E.toEnd⟩, fun _ => ⟨hu, Or.inr ⟨rfl, rfl⟩⟩⟩
  · rename_i hbc
    dsimp only
    -- the shared end of both cases: the two starts are shifted copies
    have main : ∀ (start2 : Nat), s2.lastLineVisited ≤ start2 → start2 ≤ upto →
        (start2 < upto → decide (s1.lastLineVisited < start2 + pre.length) = decide (s2.lastLineVisited < start2)) →
        StepSim cfg B w pre.length
          (beforeLoop cfg σ B (stepLines cfg.lineTerm.asByte B (start2 + pre.length) (upto + pre.length)) s1)
          (beforeLoop cfg σ w (stepLines cfg.lineTerm.asByte w start2 upto) s2) ∧
        ((beforeLoop cfg σ w (stepLines cfg.lineTerm.asByte w start2 upto) s2).2 = .ok true →
          (beforeLoop cfg σ w (stepLines cfg.lineTerm.asByte w start2 upto) s2).1.lastLineVisited ≤ upto ∧
          (start2 < upto →
            (beforeLoop cfg σ B (stepLines cfg.lineTerm.asByte B (start2 + pre.length) (upto + pre.length)) s1).1.lastLineVisited
              = (beforeLoop cfg σ w (stepLines cfg.lineTerm.asByte w start2 upto) s2).1.lastLineVisited + pre.length)) := by
      intro start2 h1 hs2 hg
      rw [stepLines_region _ w start2 upto hs2 huw,
        stepLines_region _ B (start2 + pre.length) (upto + pre.length) (by omega) (by omega),
        W.slice _ _ huw]
      have hfl := splitLines_flatten cfg.lineTerm.asByte (slice w start2 upto)
      have hlen : (slice w start2 upto).length = upto - start2 := by unfold Lines.slice; simp; omega
      have hne : start2 < upto → splitLines cfg.lineTerm.asByte (slice w start2 upto) ≠ [] := by
        intro hlt hc
        rw [hc] at hfl
        have := congrArg List.length hfl
        rw [hlen] at this
        simp at this
        omega
      have hlt_of : splitLines cfg.lineTerm.asByte (slice w start2 upto) ≠ [] → start2 < upto := by
        intro hc
        apply Classical.byContradiction
        intro hge
        have h0 : (slice w start2 upto).length = 0 := by rw [hlen]; omega
        have : slice w start2 upto = [] := List.length_eq_zero_iff.mp h0
        rw [this] at hc
        exact hc (by simp [splitLines])
      have := beforeLoop_sim W hbin σ (splitLines cfg.lineTerm.asByte (slice w start2 upto)) start2 s1 s2 E
        h1 (by rw [hfl, hlen]; omega) (fun hc => hg (hlt_of hc))
      refine ⟨this.1, fun hh => ?_⟩
      have h2 := this.2 hh
      rw [hfl, hlen] at h2
      exact ⟨by omega, fun hlt => h2.2 (hne hlt)⟩
    cases X with
    | inl hT =>
      rw [hT, show upto + pre.length - (s2.lastLineVisited + pre.length) = upto - s2.lastLineVisited by omega]
      split
      · exact ⟨⟨rfl, fun _ => E, E.toEnd⟩, fun _ => ⟨hu, Or.inr ⟨rfl, rfl⟩⟩⟩
      · have hsl : slice B (s2.lastLineVisited + pre.length) (upto + pre.length) = slice w s2.lastLineVisited upto :=
          W.slice _ _ huw
        rw [hsl]
        have hple := preceding_le (slice w s2.lastLineVisited upto) cfg.lineTerm.asByte (cfg.beforeContext - 1)
        have hslen : (slice w s2.lastLineVisited upto).length = upto - s2.lastLineVisited := by
          unfold Lines.slice; simp; omega
        rw [show s2.lastLineVisited + pre.length +
            preceding (slice w s2.lastLineVisited upto) cfg.lineTerm.asByte (cfg.beforeContext - 1)
            = (s2.lastLineVisited + preceding (slice w s2.lastLineVisited upto) cfg.lineTerm.asByte
                (cfg.beforeContext - 1)) + pre.length by omega]
        have := main (s2.lastLineVisited + preceding (slice w s2.lastLineVisited upto) cfg.lineTerm.asByte
            (cfg.beforeContext - 1)) (by omega) (by omega) (fun _ => by rw [hT]; simp)
        refine ⟨this.1, fun hh => ?_⟩
        have h2 := this.2 hh
        refine ⟨h2.1, ?_⟩
        by_cases hlt : s2.lastLineVisited + preceding (slice w s2.lastLineVisited upto) cfg.lineTerm.asByte
            (cfg.beforeContext - 1) < upto
        · exact Or.inl (h2.2 hlt)
        · -- nothing to deliver: the stepper yields no line
          left
          have hge : upto ≤ s2.lastLineVisited + preceding (slice w s2.lastLineVisited upto) cfg.lineTerm.asByte
            (cfg.beforeContext - 1) := by omega
          have heq : s2.lastLineVisited + preceding (slice w s2.lastLineVisited upto) cfg.lineTerm.asByte
            (cfg.beforeContext - 1) = upto := by omega
          rw [heq]
          rw [stepLines_region _ w upto upto (Nat.le_refl _) huw,
            stepLines_region _ B (upto + pre.length) (upto + pre.length) (Nat.le_refl _) (by omega)]
          have e1 : slice w upto upto = [] := by unfold Lines.slice; simp
          have e2 : slice B (upto + pre.length) (upto + pre.length) = [] := by unfold Lines.slice; simp
          rw [e1, e2]
          simp only [splitLines, spansFrom, beforeLoop]
          exact hT
    | inr hL0 =>
      have hbc1' : 1 ≤ cfg.beforeContext := by
        cases hb0 : cfg.beforeContext with
        | zero => simp [hb0] at hbc
        | succ n => omega
      have hL : ∃ Z, Far cfg w s2.lastLineVisited upto Z ∧ Far cfg B s1.lastLineVisited (upto + pre.length) Z := by
        cases hL0 with
        | inl h => exact h
        | inr h0 => unfold Config.maxContext at h0; omega
      obtain ⟨Z, F2, F1⟩ := hL
      have hbc1 : 1 ≤ cfg.beforeContext := by
        cases hb0 : cfg.beforeContext with
        | zero => simp [hb0] at hbc
        | succ n => omega
      have hbcm : cfg.beforeContext ≤ cfg.maxContext := by unfold Config.maxContext; omega
      obtain ⟨a1, a2, a3⟩ := F1.before_start cfg.beforeContext hbc1 hbcm
      obtain ⟨b1, b2, b3⟩ := F2.before_start cfg.beforeContext hbc1 hbcm
      have hpos1 : ¬ (upto + pre.length - s1.lastLineVisited == 0) = true := by
        have := F1.vp; simp; omega
      have hpos2 : ¬ (upto - s2.lastLineVisited == 0) = true := by
        simp; omega
      rw [if_neg hpos1, if_neg hpos2, a1, b1]
      have hst : upto + pre.length - ((Z.drop (Z.length - cfg.beforeContext)).flatten).length
          = (upto - ((Z.drop (Z.length - cfg.beforeContext)).flatten).length) + pre.length := by omega
      rw [hst]
      have hTpos : 0 < ((Z.drop (Z.length - cfg.beforeContext)).flatten).length := by
        apply allTerm_flatten_pos (t := cfg.lineTerm.asByte)
        · intro y hy; exact F2.term y (List.mem_of_mem_drop hy)
        · intro h0
          have := congrArg List.length h0
          simp at this
          have := F2.many
          omega
      have := main (upto - ((Z.drop (Z.length - cfg.beforeContext)).flatten).length) (by omega) (by omega)
        (fun _ => by
          have g1 : s1.lastLineVisited < upto - ((Z.drop (Z.length - cfg.beforeContext)).flatten).length + pre.length := by omega
          have g2 : s2.lastLineVisited < upto - ((Z.drop (Z.length - cfg.beforeContext)).flatten).length := by omega
          rw [decide_eq_true g1, decide_eq_true g2])
      refine ⟨this.1, fun hh => ?_⟩
      have h2 := this.2 hh
      exact ⟨h2.1, Or.inl (h2.2 (by omega))⟩

/-! ### the search position is not touched by the deliveries -/

theorem binaryGuard_none' {cfg : Config} {σ : Script} {buf : Bytes} {r : Span} {st : Core}
    (hbin : cfg.binary = .none) : binaryGuard cfg σ buf r st = (st, .ok false) := by
  unfold binaryGuard detectBinary
  cases st.binary <;> cases h : st.binaryByteOffset <;> simp [hbin, BinaryDetection.quitByte]

theorem countLines_pos (cfg : Config) (buf : Bytes) (st : Core) (u : Nat) : (countLines cfg buf st u).pos = st.pos := by
  unfold countLines; split; rfl; split <;> rfl

theorem sinkBreakContext_pos (cfg : Config) (σ : Script) (st : Core) (o : Nat) :
    (sinkBreakContext cfg σ st o).1.pos = st.pos := by
  unfold sinkBreakContext
  dsimp only
  split
  · rfl
  · rw [emit_def]

theorem sinkBeforeContext_pos {cfg : Config} (hbin : cfg.binary = .none) (σ : Script) (buf : Bytes) (st : Core) (r : Span) :
    (sinkBeforeContext cfg σ buf st r).1.pos = st.pos := by
  unfold sinkBeforeContext
  rw [binaryGuard_none' hbin]
  dsimp only
  rw [emit_def]
  cases σ (countLines cfg buf st r.s).events.length <;> simp [respOf, countLines_pos]

theorem sinkAfterContext_pos {cfg : Config} (hbin : cfg.binary = .none) (σ : Script) (buf : Bytes) (st : Core) (r : Span) :
    (sinkAfterContext cfg σ buf st r).1.pos = st.pos := by
  unfold sinkAfterContext
  rw [binaryGuard_none' hbin]
  dsimp only
  rw [emit_def]
  cases σ (countLines cfg buf st r.s).events.length <;> simp [respOf, countLines_pos]

theorem sinkOtherContext_pos {cfg : Config} (hbin : cfg.binary = .none) (σ : Script) (buf : Bytes) (st : Core) (r : Span) :
    (sinkOtherContext cfg σ buf st r).1.pos = st.pos := by
  unfold sinkOtherContext
  rw [binaryGuard_none' hbin]
  dsimp only
  rw [emit_def]
  cases σ (countLines cfg buf st r.s).events.length <;> simp [respOf, countLines_pos]

theorem sinkMatched_pos {cfg : Config} (hbin : cfg.binary = .none) (σ : Script) (buf : Bytes) (st : Core) (r : Span) :
    (sinkMatched cfg σ buf st r).1.pos = st.pos := by
  unfold sinkMatched
  rw [binaryGuard_none' hbin]
  dsimp only
  have hp := sinkBreakContext_pos cfg σ st r.s
  generalize sinkBreakContext cfg σ st r.s = g at hp ⊢
  obtain ⟨s2, r2⟩ := g
  cases r2 with
  | err => exact hp
  | ok b =>
    cases b with
    | false => exact hp
    | true =>
      dsimp only at hp ⊢
      rw [emit_def]
      cases σ (countLines cfg buf s2 r.s).events.length <;> simp [respOf, countLines_pos, hp]

theorem beforeLoop_pos {cfg : Config} (hbin : cfg.binary = .none) (σ : Script) (buf : Bytes) (ls : List Span) :
    ∀ st, (beforeLoop cfg σ buf ls st).1.pos = st.pos := by
  induction ls with
  | nil => intro st; rfl
  | cons l ls ih =>
    intro st
    unfold beforeLoop
    have hp := sinkBreakContext_pos cfg σ st l.s
    generalize sinkBreakContext cfg σ st l.s = g at hp ⊢
    obtain ⟨s2, r2⟩ := g
    cases r2 with
    | err => exact hp
    | ok b =>
      cases b with
      | false => exact hp
      | true =>
        dsimp only at hp ⊢
        have hp2 := sinkBeforeContext_pos hbin σ buf s2 l
        generalize sinkBeforeContext cfg σ buf s2 l = g2 at hp2 ⊢
        obtain ⟨s3, r3⟩ := g2
        cases r3 with
        | err => dsimp only at hp2 ⊢; omega
        | ok b3 =>
          cases b3 with
          | false => dsimp only at hp2 ⊢; omega
          | true => dsimp only at hp2 ⊢; rw [ih s3]; omega

theorem beforeContextByLine_pos {cfg : Config} (hbin : cfg.binary = .none) (σ : Script) (buf : Bytes) (st : Core) (u : Nat) :
    (beforeContextByLine cfg σ buf st u).1.pos = st.pos := by
  unfold beforeContextByLine
  split
  · rfl
  · dsimp only
    split
    · rfl
    · exact beforeLoop_pos hbin σ buf _ st

end RgVerif.Searcher
