import RgVerif.Model.Gitignore
import RgVerif.Spec.GitSpec
/-
Tree level of C04: if every ignore file of the tree gives, for every relative path, the verdict git gives
(`FileAgree`), then the entries ripgrep's walker skips are exactly the entries git ignores
(nearest file first, deeper overrides shallower, nothing beneath an ignored directory is visited).
-/
namespace RgVerif.Gitignore
open RgVerif RgVerif.Glob

/-- ripgrep's three-valued verdict as git's: excluded / re-included / undecided -/
def Verdict.toOpt : Verdict → Option Bool
  | .none => Option.none
  | .ignore _ => some true
  | .whitelist _ => some false

/-- a component of a relative path inside a tree: not empty, no `/`, not `.` or `..` -/
def wfName (c : Bytes) : Bool := !c.isEmpty && !c.contains 47 && c != [46] && c != [46, 46]

def wfRel (rel : List Bytes) : Bool := !rel.isEmpty && rel.all wfName

/-- one ignore file means the same to ripgrep and to git, on every well-formed relative path -/
def FileAgree (ci : Bool) (lines : List (List Nat)) : Prop :=
  ∀ (rel : List Bytes) (isDir : Bool), wfRel rel = true →
    (matchedStripped (buildGlobs ci lines) (joinPath rel) isDir).toOpt = GitSpec.fileVerdict ci lines rel isDir

theorem wfRel_drop {comps : List Bytes} {k : Nat} (h : wfRel comps = true) (hk : k < comps.length) :
    wfRel (comps.drop k) = true := by
  unfold wfRel at h ⊢
  simp only [Bool.and_eq_true, Bool.not_eq_eq_eq_not, Bool.not_true, List.isEmpty_eq_false_iff,
    ne_eq, List.all_eq_true] at h ⊢
  refine ⟨?_, fun c hc => h.2 c (List.mem_of_mem_drop hc)⟩
  intro hn
  have := congrArg List.length hn
  simp at this; omega

theorem wfRel_take {comps : List Bytes} {k : Nat} (h : wfRel comps = true) (hk : 0 < k) :
    wfRel (comps.take k) = true := by
  unfold wfRel at h ⊢
  simp only [Bool.and_eq_true, Bool.not_eq_eq_eq_not, Bool.not_true, List.isEmpty_eq_false_iff,
    ne_eq, List.all_eq_true] at h ⊢
  refine ⟨?_, fun c hc => h.2 c (List.mem_of_mem_take hc)⟩
  intro hn
  have h1 := congrArg List.length hn
  simp at h1
  rcases h1 with h1 | h1
  · omega
  · exact h.1 h1

/-- nearest ignore file first: the model's scan and git's scan agree level by level -/
theorem matchedIgnore_go_eq (ci : Bool) (ign : List Bytes → List (List Nat)) (comps : List Bytes)
    (isDir : Bool) (hag : ∀ d, FileAgree ci (ign d)) (hwf : wfRel comps = true) (k : Nat)
    (hk : k ≤ comps.length) :
    (matchedIgnore.go ci ign comps isDir k).toOpt = GitSpec.entryVerdict.go ci ign comps isDir k := by
  induction k with
  | zero => simp [matchedIgnore.go, GitSpec.entryVerdict.go, Verdict.toOpt]
  | succ k ih =>
    unfold matchedIgnore.go GitSpec.entryVerdict.go
    have hrel := wfRel_drop hwf (show k < comps.length by omega)
    have hf := hag (comps.take k) (comps.drop k) isDir hrel
    cases hm : matchedStripped (buildGlobs ci (ign (comps.take k))) (joinPath (comps.drop k)) isDir with
    | none =>
      rw [hm] at hf
      simp only [Verdict.toOpt] at hf
      simp only [hm, ← hf]
      exact ih (by omega)
    | ignore i =>
      rw [hm] at hf
      simp only [Verdict.toOpt] at hf
      simp only [hm, ← hf, Verdict.toOpt]
    | whitelist i =>
      rw [hm] at hf
      simp only [Verdict.toOpt] at hf
      simp only [hm, ← hf, Verdict.toOpt]

theorem matchedIgnore_eq (ci : Bool) (ign : List Bytes → List (List Nat)) (comps : List Bytes)
    (isDir : Bool) (hag : ∀ d, FileAgree ci (ign d)) (hwf : wfRel comps = true) :
    (matchedIgnore ci ign comps isDir).toOpt = GitSpec.entryVerdict ci ign comps isDir :=
  matchedIgnore_go_eq ci ign comps isDir hag hwf comps.length (Nat.le_refl _)

theorem isIgnore_iff_toOpt (v : Verdict) : v.isIgnore = (v.toOpt == some true) := by
  cases v <;> rfl

/-- the walker's top-down descent with pruning visits an entry iff no prefix of it is ignored -/
theorem rgSkipped_go_eq (ci : Bool) (ign : List Bytes → List (List Nat)) (comps : List Bytes)
    (isDir : Bool) (fuel k : Nat) (hk : 1 ≤ k) (hkl : k ≤ comps.length)
    (hf : comps.length + 1 ≤ fuel + k) :
    rgSkipped.go ci ign comps isDir fuel k =
      ((List.range (comps.length + 1 - k)).any fun i =>
        (matchedIgnore ci ign (comps.take (k + i))
          (if k + i == comps.length then isDir else true)).isIgnore) := by
  induction fuel generalizing k with
  | zero => omega
  | succ fuel ih =>
    unfold rgSkipped.go
    have hgt : ¬ k > comps.length := by omega
    simp only [hgt, ↓reduceIte]
    have hlen : comps.length + 1 - k = (comps.length - k) + 1 := by omega
    rw [hlen, List.range_succ_eq_map, List.any_cons]
    simp only [Nat.add_zero, List.any_map]
    cases hm : (matchedIgnore ci ign (List.take k comps) (if (k == comps.length) = true then isDir else true)).isIgnore with
    | true => simp
    | false =>
      simp only [Bool.false_eq_true, ↓reduceIte, Bool.false_or]
      by_cases hke : k = comps.length
      · subst hke; simp
      · have hb : (k == comps.length) = false := by simpa using hke
        simp only [hb, Bool.false_eq_true, ↓reduceIte]
        rw [ih (k + 1) (by omega) (by omega) (by omega)]
        have : comps.length + 1 - (k + 1) = comps.length - k := by omega
        rw [this]
        congr 1
        funext i
        simp only [Function.comp]
        have : k + 1 + i = k + (i + 1) := by omega
        rw [this]

/-- C04 at tree level, relative to file-level agreement -/
theorem rgSkipped_eq_gitIgnored (ci : Bool) (ign : List Bytes → List (List Nat)) (comps : List Bytes)
    (isDir : Bool) (hag : ∀ d, FileAgree ci (ign d)) (hwf : wfRel comps = true) :
    rgSkipped ci ign comps isDir = GitSpec.gitIgnored ci ign comps isDir := by
  have hne : comps ≠ [] := by
    unfold wfRel at hwf; simp at hwf; exact hwf.1
  have hlen : 1 ≤ comps.length := by
    cases comps with
    | nil => exact absurd rfl hne
    | cons _ _ => simp
  unfold rgSkipped GitSpec.gitIgnored
  rw [rgSkipped_go_eq ci ign comps isDir (comps.length + 1) 1 (Nat.le_refl _) hlen (by omega)]
  have : comps.length + 1 - 1 = comps.length := by omega
  rw [this]
  congr 1
  funext i
  have h1 : 1 + i = i + 1 := by omega
  rw [h1, isIgnore_iff_toOpt,
    matchedIgnore_eq ci ign _ _ hag (wfRel_take hwf (by omega))]

end RgVerif.Gitignore
